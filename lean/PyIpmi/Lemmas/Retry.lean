/-
  Lemmas/Retry.lean — the retry loops of Model/Retry.lean run against an outcome script:
  one-step equations, trace predicates and the inductions behind Props/C13.lean.
-/
import PyIpmi.Model.Retry
namespace PyIpmi.Model.Retry
open PyIpmi
set_option linter.unusedSimpArgs false
set_option linter.unusedVariables false

/-! ### trace vocabulary -/

/-- reservation most recently obtained after the events of `t`, starting from `cur` -/
def lastGrant : Nat → List Ev → Nat
  | cur, [] => cur
  | _, .reserve g :: t => lastGrant g t
  | cur, _ :: t => lastGrant cur t

/-- every clear / chunk request carries the most recently obtained reservation (`cur` = the one
held before the first event) -/
def Fresh : Nat → List Ev → Prop
  | _, [] => True
  | _, .reserve g :: t => Fresh g t
  | cur, .clear _ r _ :: t => r = cur ∧ Fresh cur t
  | cur, .chunk r _ :: t => r = cur ∧ Fresh cur t
  | cur, .xfer _ :: t => Fresh cur t
  | cur, .reserveFailed _ :: t => Fresh cur t

theorem lastGrant_append (cur : Nat) (a b : List Ev) :
    lastGrant cur (a ++ b) = lastGrant (lastGrant cur a) b := by
  induction a generalizing cur with
  | nil => rfl
  | cons e a ih => cases e <;> simp [lastGrant, ih]

theorem fresh_append (cur : Nat) (a b : List Ev) :
    Fresh cur (a ++ b) ↔ Fresh cur a ∧ Fresh (lastGrant cur a) b := by
  induction a generalizing cur with
  | nil => simp [Fresh, lastGrant]
  | cons e a ih => cases e <;> simp [Fresh, lastGrant, ih, and_assoc]

def Ev.isChunk : Ev → Bool
  | .chunk _ _ => true
  | _ => false

def Ev.isClear : Ev → Bool
  | .clear _ _ _ => true
  | _ => false

def Ev.isReserve : Ev → Bool
  | .reserve _ => true
  | _ => false

/-- events a `_clear_repository(ctrl)` phase may produce -/
def Ev.inPhase (ctrl : Nat) : Ev → Prop
  | .reserve _ => True
  | .clear c _ _ => c = ctrl
  | _ => False

/-! ### one-step equations on the scripted environment -/

/-- environment after one scripted call that logs `ev` -/
def Env.adv (e : Env) (ev : Ev) : Env :=
  { e with script := e.script.next.2, trace := e.trace ++ [ev] }

def Env.peek (e : Env) : Letter := e.script.next.1

theorem Env.chunk_eq (e : Env) (res : Nat) :
    e.chunk res = (e.adv (.chunk res e.peek), .ok (e.peek.code, ())) := by
  simp [Env.chunk, Env.adv, Env.peek]

theorem Env.reserve_eq (e : Env) :
    e.reserve = ({ e with lastRes := e.lastRes + 1, trace := e.trace ++ [.reserve (e.lastRes + 1)] },
      .ok (e.lastRes + 1)) := rfl

theorem Env.xfer_eq (e : Env) :
    e.xfer = (e.adv (.xfer e.peek), if e.peek.code = 0 then .ok () else .ccError e.peek.code) := by
  simp only [Env.xfer, Env.adv, Env.peek]
  split <;> simp [*]

/-- `reserve_fn()` applied to an environment -/
def Env.granted (e : Env) : Env :=
  { e with lastRes := e.lastRes + 1, trace := e.trace ++ [.reserve (e.lastRes + 1)] }

@[simp] theorem Env.adv_trace (e : Env) (ev : Ev) : (e.adv ev).trace = e.trace ++ [ev] := rfl
@[simp] theorem Env.adv_lastRes (e : Env) (ev : Ev) : (e.adv ev).lastRes = e.lastRes := rfl
@[simp] theorem Env.granted_trace (e : Env) : e.granted.trace = e.trace ++ [.reserve (e.lastRes + 1)] := rfl
@[simp] theorem Env.granted_lastRes (e : Env) : e.granted.lastRes = e.lastRes + 1 := rfl

abbrev chunkS (K : Consts) := chunkLoop K Env.chunk Env.reserve (ρ := Unit)

theorem chunkS_zero (K : Consts) (e : Env) (res : Nat) :
    chunkS K 0 e res = (e, .pyError "unmodelled:retry<1") := rfl

theorem chunkS_one (K : Consts) (e : Env) (res : Nat) : chunkS K 1 e res = (e, .retryError) := by
  simp [chunkS, chunkLoop]

theorem chunkS_step (K : Consts) (r : Nat) (e : Env) (res : Nat) :
    chunkS K (r + 2) e res =
      let e1 := e.adv (.chunk res e.peek)
      if e.peek.code = K.ccOk then (e1, .ok ())
      else if e.peek.code = K.chunkRenew then chunkS K (r + 1) e1.granted (e1.lastRes + 1)
      else if e.peek.code = K.chunkRetry1 ∨ e.peek.code = K.chunkRetry2 then chunkS K (r + 1) e1 res
      else (e1, .ccError e.peek.code) := by
  simp only [chunkS]
  rw [chunkLoop]
  simp only [Nat.succ_ne_zero, ↓reduceIte, Env.chunk_eq]
  by_cases h1 : e.peek.code = K.ccOk
  · simp [h1]
  · by_cases h2 : e.peek.code = K.chunkRenew
    · simp [h1, h2, Env.reserve_eq, Env.granted]
    · by_cases h3 : e.peek.code = K.chunkRetry1 ∨ e.peek.code = K.chunkRetry2
      · simp [h1, h2, h3]
      · simp [h1, h2, h3]


/-! ### _clear_repository on a script -/

/-- what `clear_fn` does with a letter -/
inductive ClearAct where
  | done | again | renew | fail (c : Nat) | unmodelled
  deriving DecidableEq, Repr

def clearAct (K : Consts) (l : Letter) : ClearAct :=
  match l.status? K with
  | some st => if st = K.statusInProgress then .again else .done
  | none => if l.code = K.clearRenew then .renew else if l.code = K.ccOk then .unmodelled else .fail l.code

abbrev clearS (K : Consts) (ctrl : Nat) := clearLoop K (Env.clear K) Env.reserve ctrl

theorem clearS_zero (K : Consts) (ctrl : Nat) (e : Env) (res : Nat) :
    clearS K ctrl 0 e res = (e, .retryError) := rfl

theorem clearS_one (K : Consts) (ctrl : Nat) (e : Env) (res : Nat) :
    clearS K ctrl 1 e res = (e, .retryError) := by
  simp [clearS, clearLoop]

theorem clearS_step (K : Consts) (ctrl r : Nat) (e : Env) (res : Nat) :
    clearS K ctrl (r + 2) e res =
      let e1 := e.adv (.clear ctrl res e.peek)
      match clearAct K e.peek with
      | .done => (e1, .ok res)
      | .again => clearS K ctrl (r + 1) e1 res
      | .renew => clearS K ctrl (r + 1) e1.granted (e1.lastRes + 1)
      | .fail c => (e1, .ccError c)
      | .unmodelled => (e1, .pyError "unmodelled:CompletionCodeError(0)") := by
  simp only [clearS]
  rw [clearLoop]
  simp only [Nat.succ_ne_zero, ↓reduceIte]
  have hc : Env.clear K e ctrl res = (e.adv (.clear ctrl res e.peek),
      match e.peek.status? K with
      | some st => .ok st
      | none => .ccError e.peek.code) := by
    simp only [Env.clear, Env.adv, Env.peek]
    split <;> simp_all
  rw [hc]
  cases hs : e.peek.status? K with
  | some st =>
    by_cases h1 : st = K.statusInProgress <;> simp [clearAct, hs, h1]
  | none =>
    by_cases h1 : e.peek.code = K.clearRenew
    · simp [clearAct, hs, h1, Env.reserve_eq, Env.granted]
    · by_cases h2 : e.peek.code = K.ccOk
      · simp only [clearAct, hs, if_neg h1, if_pos h2]
      · simp only [clearAct, hs, if_neg h1, if_neg h2]

/-! ### send_message on a script -/

abbrev sendS (K : Consts) (v : SendVariant) := sendLoop K v Env.xfer (ρ := Unit)

theorem sendS_zero (K : Consts) (v : SendVariant) (e : Env) : sendS K v 0 e = (e, .retryError) := rfl

theorem sendS_step (K : Consts) (v : SendVariant) (r : Nat) (e : Env) :
    sendS K v (r + 1) e =
      let e1 := e.adv (.xfer e.peek)
      if e.peek.code = 0 then (e1, .ok ())
      else if e.peek.code = K.sendBusy ∨ v.retryAnyCode = true then sendS K v r e1
      else (e1, .ccError e.peek.code) := by
  simp only [sendS]
  rw [sendLoop]
  simp only [Env.xfer_eq]
  by_cases h0 : e.peek.code = 0
  · simp only [if_pos h0]
  · by_cases h1 : e.peek.code = K.sendBusy
    · have h3 : e.peek.code = K.sendBusy ∨ v.retryAnyCode = true := Or.inl h1
      simp only [if_neg h0, if_pos h1, if_pos h3]
    · cases hv : v.retryAnyCode <;> simp [if_neg h0, if_neg h1, hv]


/-! ### induction principles: one case per way through the loop body -/

theorem chunkS_induct (K : Consts) (P : Nat → Env → Nat → Env × Outcome Unit → Prop)
    (h0 : ∀ e res, P 0 e res (e, .pyError "unmodelled:retry<1"))
    (h1 : ∀ e res, P 1 e res (e, .retryError))
    (hok : ∀ r e res, e.peek.code = K.ccOk → P (r + 2) e res (e.adv (.chunk res e.peek), .ok ()))
    (hrenew : ∀ r e res, e.peek.code ≠ K.ccOk → e.peek.code = K.chunkRenew →
      P (r + 1) (e.adv (.chunk res e.peek)).granted (e.lastRes + 1)
        (chunkS K (r + 1) (e.adv (.chunk res e.peek)).granted (e.lastRes + 1)) →
      P (r + 2) e res (chunkS K (r + 1) (e.adv (.chunk res e.peek)).granted (e.lastRes + 1)))
    (hretry : ∀ r e res, e.peek.code ≠ K.ccOk → e.peek.code ≠ K.chunkRenew →
      (e.peek.code = K.chunkRetry1 ∨ e.peek.code = K.chunkRetry2) →
      P (r + 1) (e.adv (.chunk res e.peek)) res (chunkS K (r + 1) (e.adv (.chunk res e.peek)) res) →
      P (r + 2) e res (chunkS K (r + 1) (e.adv (.chunk res e.peek)) res))
    (hfail : ∀ r e res, e.peek.code ≠ K.ccOk → e.peek.code ≠ K.chunkRenew →
      ¬(e.peek.code = K.chunkRetry1 ∨ e.peek.code = K.chunkRetry2) →
      P (r + 2) e res (e.adv (.chunk res e.peek), .ccError e.peek.code)) :
    ∀ b e res, P b e res (chunkS K b e res) := by
  intro b
  induction b with
  | zero => intro e res; exact h0 e res
  | succ n ih =>
    intro e res
    cases n with
    | zero => rw [chunkS_one]; exact h1 e res
    | succ r =>
      rw [chunkS_step]
      by_cases c1 : e.peek.code = K.ccOk
      · simp only [if_pos c1]; exact hok r e res c1
      · by_cases c2 : e.peek.code = K.chunkRenew
        · simp only [if_neg c1, if_pos c2, Env.adv_lastRes]
          exact hrenew r e res c1 c2 (ih _ _)
        · by_cases c3 : e.peek.code = K.chunkRetry1 ∨ e.peek.code = K.chunkRetry2
          · simp only [if_neg c1, if_neg c2, if_pos c3]
            exact hretry r e res c1 c2 c3 (ih _ _)
          · simp only [if_neg c1, if_neg c2, if_neg c3]
            exact hfail r e res c1 c2 c3

theorem clearS_induct (K : Consts) (ctrl : Nat) (P : Nat → Env → Nat → Env × Outcome Nat → Prop)
    (h0 : ∀ e res, P 0 e res (e, .retryError))
    (h1 : ∀ e res, P 1 e res (e, .retryError))
    (hdone : ∀ r e res, clearAct K e.peek = .done → P (r + 2) e res (e.adv (.clear ctrl res e.peek), .ok res))
    (hagain : ∀ r e res, clearAct K e.peek = .again →
      P (r + 1) (e.adv (.clear ctrl res e.peek)) res (clearS K ctrl (r + 1) (e.adv (.clear ctrl res e.peek)) res) →
      P (r + 2) e res (clearS K ctrl (r + 1) (e.adv (.clear ctrl res e.peek)) res))
    (hrenew : ∀ r e res, clearAct K e.peek = .renew →
      P (r + 1) (e.adv (.clear ctrl res e.peek)).granted (e.lastRes + 1)
        (clearS K ctrl (r + 1) (e.adv (.clear ctrl res e.peek)).granted (e.lastRes + 1)) →
      P (r + 2) e res (clearS K ctrl (r + 1) (e.adv (.clear ctrl res e.peek)).granted (e.lastRes + 1)))
    (hfail : ∀ r e res c, clearAct K e.peek = .fail c →
      P (r + 2) e res (e.adv (.clear ctrl res e.peek), .ccError c))
    (hunm : ∀ r e res, clearAct K e.peek = .unmodelled →
      P (r + 2) e res (e.adv (.clear ctrl res e.peek), .pyError "unmodelled:CompletionCodeError(0)")) :
    ∀ b e res, P b e res (clearS K ctrl b e res) := by
  intro b
  induction b with
  | zero => intro e res; exact h0 e res
  | succ n ih =>
    intro e res
    cases n with
    | zero => rw [clearS_one]; exact h1 e res
    | succ r =>
      rw [clearS_step]
      cases ha : clearAct K e.peek with
      | done => exact hdone r e res ha
      | again => exact hagain r e res ha (ih _ _)
      | renew => simp only [Env.adv_lastRes]; exact hrenew r e res ha (ih _ _)
      | fail c => exact hfail r e res c ha
      | unmodelled => exact hunm r e res ha

theorem sendS_induct (K : Consts) (v : SendVariant) (P : Nat → Env → Env × Outcome Unit → Prop)
    (h0 : ∀ e, P 0 e (e, .retryError))
    (hok : ∀ r e, e.peek.code = 0 → P (r + 1) e (e.adv (.xfer e.peek), .ok ()))
    (hagain : ∀ r e, e.peek.code ≠ 0 → (e.peek.code = K.sendBusy ∨ v.retryAnyCode = true) →
      P r (e.adv (.xfer e.peek)) (sendS K v r (e.adv (.xfer e.peek))) →
      P (r + 1) e (sendS K v r (e.adv (.xfer e.peek))))
    (hfail : ∀ r e, e.peek.code ≠ 0 → ¬(e.peek.code = K.sendBusy ∨ v.retryAnyCode = true) →
      P (r + 1) e (e.adv (.xfer e.peek), .ccError e.peek.code)) :
    ∀ b e, P b e (sendS K v b e) := by
  intro b
  induction b with
  | zero => intro e; exact h0 e
  | succ r ih =>
    intro e
    rw [sendS_step]
    by_cases c0 : e.peek.code = 0
    · simp only [if_pos c0]; exact hok r e c0
    · by_cases c1 : e.peek.code = K.sendBusy ∨ v.retryAnyCode = true
      · simp only [if_neg c0, if_pos c1]; exact hagain r e c0 c1 (ih _)
      · simp only [if_neg c0, if_neg c1]; exact hfail r e c0 c1


/-! ### get_sdr_chunk_helper: properties for every script and budget -/

/-- the trace only grows: `ext` is what a run appended -/
def Extends (e : Env) (p : Env) (ext : List Ev) : Prop := p.trace = e.trace ++ ext

theorem Extends.cons {e p : Env} {ev : Ev} {ext : List Ev} (h : Extends (e.adv ev) p ext) :
    Extends e p (ev :: ext) := by
  simp [Extends] at *; exact h

theorem Extends.cons2 {e p : Env} {ev : Ev} {ext : List Ev} (h : Extends (e.adv ev).granted p ext) :
    Extends e p (ev :: .reserve (e.lastRes + 1) :: ext) := by
  simp [Extends] at *; exact h

/-- completion codes the chunk helper has no branch for -/
def chunkUnexpected (K : Consts) (l : Letter) : Prop :=
  l.code ≠ K.ccOk ∧ l.code ≠ K.chunkRenew ∧ l.code ≠ K.chunkRetry1 ∧ l.code ≠ K.chunkRetry2

theorem chunkS_bounded (K : Consts) : ∀ b e res, ∃ ext, Extends e (chunkS K b e res).1 ext ∧
    ext.length ≤ 2 * (b - 1) ∧ ext.countP Ev.isChunk ≤ b - 1 ∧ ext.countP Ev.isReserve ≤ b - 1 := by
  apply chunkS_induct K (fun b e res p => ∃ ext, Extends e p.1 ext ∧
    ext.length ≤ 2 * (b - 1) ∧ ext.countP Ev.isChunk ≤ b - 1 ∧ ext.countP Ev.isReserve ≤ b - 1)
  · intro e res; exact ⟨[], by simp [Extends], by simp, by simp, by simp⟩
  · intro e res; exact ⟨[], by simp [Extends], by simp, by simp, by simp⟩
  · intro r e res _; exact ⟨[.chunk res e.peek], by simp [Extends], by simp; omega, by simp [Ev.isChunk], by simp [Ev.isReserve]⟩
  · intro r e res _ _ ⟨ext, hx, h1, h2, h3⟩
    refine ⟨_, hx.cons2, ?_, ?_, ?_⟩
    · simp; omega
    · simp [Ev.isChunk, List.countP_cons]; omega
    · simp [Ev.isReserve, List.countP_cons]; omega
  · intro r e res _ _ _ ⟨ext, hx, h1, h2, h3⟩
    refine ⟨_, hx.cons, ?_, ?_, ?_⟩
    · simp; omega
    · simp [Ev.isChunk, List.countP_cons]; omega
    · simp [Ev.isReserve, List.countP_cons]; omega
  · intro r e res _ _ _; exact ⟨[.chunk res e.peek], by simp [Extends], by simp; omega, by simp [Ev.isChunk], by simp [Ev.isReserve]⟩

theorem chunkS_fresh (K : Consts) : ∀ b e res, ∃ ext, Extends e (chunkS K b e res).1 ext ∧ Fresh res ext := by
  apply chunkS_induct K (fun b e res p => ∃ ext, Extends e p.1 ext ∧ Fresh res ext)
  · intro e res; exact ⟨[], by simp [Extends], trivial⟩
  · intro e res; exact ⟨[], by simp [Extends], trivial⟩
  · intro r e res _; exact ⟨[.chunk res e.peek], by simp [Extends], by simp [Fresh]⟩
  · intro r e res _ _ ⟨ext, hx, h1⟩
    exact ⟨_, hx.cons2, by simp [Fresh]; exact h1⟩
  · intro r e res _ _ _ ⟨ext, hx, h1⟩
    exact ⟨_, hx.cons, by simp [Fresh]; exact h1⟩
  · intro r e res _ _ _; exact ⟨[.chunk res e.peek], by simp [Extends], by simp [Fresh]⟩

/-- outcome classification of the chunk helper:
 * a call answered with completion code OK makes the run succeed;
 * a call answered with a code the helper has no branch for makes it fail with exactly that code;
 * if neither happened (budget ≥ 1) the run ends in RetryError after exactly budget−1 calls. -/
theorem chunkS_outcome (K : Consts) : ∀ b e res, ∃ ext, Extends e (chunkS K b e res).1 ext ∧
    (∀ r l, .chunk r l ∈ ext → l.code = K.ccOk → (chunkS K b e res).2 = .ok ()) ∧
    (∀ r l, .chunk r l ∈ ext → chunkUnexpected K l → (chunkS K b e res).2 = .ccError l.code) ∧
    (1 ≤ b → (∀ r l, .chunk r l ∈ ext → l.code ≠ K.ccOk ∧ ¬ chunkUnexpected K l) →
      (chunkS K b e res).2 = .retryError ∧ ext.countP Ev.isChunk = b - 1) := by
  apply chunkS_induct K (fun b e res p => ∃ ext, Extends e p.1 ext ∧
    (∀ r l, .chunk r l ∈ ext → l.code = K.ccOk → p.2 = .ok ()) ∧
    (∀ r l, .chunk r l ∈ ext → chunkUnexpected K l → p.2 = .ccError l.code) ∧
    (1 ≤ b → (∀ r l, .chunk r l ∈ ext → l.code ≠ K.ccOk ∧ ¬ chunkUnexpected K l) →
      p.2 = .retryError ∧ ext.countP Ev.isChunk = b - 1))
  · intro e res; exact ⟨[], by simp [Extends], by simp, by simp, by omega⟩
  · intro e res; exact ⟨[], by simp [Extends], by simp, by simp, by simp⟩
  · intro r e res c1
    refine ⟨[.chunk res e.peek], by simp [Extends], by simp, ?_, ?_⟩
    · intro r' l hm hu
      simp at hm; obtain ⟨_, rfl⟩ := hm
      exact absurd c1 hu.1
    · intro _ h
      exact absurd c1 (h res e.peek (by simp)).1
  · intro r e res c1 c2 ⟨ext, hx, h1, h2, h3⟩
    refine ⟨_, hx.cons2, ?_, ?_, ?_⟩
    · intro r' l hm hc
      simp at hm
      rcases hm with ⟨_, rfl⟩ | hm
      · exact absurd hc c1
      · exact h1 r' l hm hc
    · intro r' l hm hu
      simp at hm
      rcases hm with ⟨_, rfl⟩ | hm
      · exact absurd c2 hu.2.1
      · exact h2 r' l hm hu
    · intro _ h
      have := h3 (by omega) (fun r' l hm => h r' l (by simp [hm]))
      refine ⟨this.1, ?_⟩
      simp [Ev.isChunk, Ev.isReserve, List.countP_cons, this.2]
  · intro r e res c1 c2 c3 ⟨ext, hx, h1, h2, h3⟩
    refine ⟨_, hx.cons, ?_, ?_, ?_⟩
    · intro r' l hm hc
      simp at hm
      rcases hm with ⟨_, rfl⟩ | hm
      · exact absurd hc c1
      · exact h1 r' l hm hc
    · intro r' l hm hu
      simp at hm
      rcases hm with ⟨_, rfl⟩ | hm
      · rcases c3 with c3 | c3
        · exact absurd c3 hu.2.2.1
        · exact absurd c3 hu.2.2.2
      · exact h2 r' l hm hu
    · intro _ h
      have := h3 (by omega) (fun r' l hm => h r' l (by simp [hm]))
      refine ⟨this.1, ?_⟩
      simp [Ev.isChunk, List.countP_cons, this.2]
  · intro r e res c1 c2 c3
    refine ⟨[.chunk res e.peek], by simp [Extends], ?_, ?_, ?_⟩
    · intro r' l hm hc
      simp at hm; obtain ⟨_, rfl⟩ := hm
      exact absurd hc c1
    · intro r' l hm _
      simp at hm; obtain ⟨_, rfl⟩ := hm
      rfl
    · intro _ h
      exact absurd ⟨c1, c2, fun h => c3 (Or.inl h), fun h => c3 (Or.inr h)⟩ (h res e.peek (by simp)).2


/-! ### _clear_repository (one phase): properties for every script and budget -/

theorem clearS_spec (K : Consts) (ctrl : Nat) : ∀ b e res, ∃ ext, Extends e (clearS K ctrl b e res).1 ext ∧
    (∀ ev ∈ ext, ev.inPhase ctrl) ∧
    ext.length ≤ 2 * (b - 1) ∧ ext.countP Ev.isClear ≤ b - 1 ∧
    Fresh res ext ∧
    (∀ r', (clearS K ctrl b e res).2 = .ok r' →
      r' = lastGrant res ext ∧ ∃ pre rr l, ext = pre ++ [Ev.clear ctrl rr l] ∧ clearAct K l = .done) ∧
    (∀ c r l, Ev.clear c r l ∈ ext → clearAct K l = .done → ∃ r', (clearS K ctrl b e res).2 = .ok r') ∧
    (∀ c r l cc, Ev.clear c r l ∈ ext → clearAct K l = .fail cc → (clearS K ctrl b e res).2 = .ccError cc) ∧
    ((∀ c r l, Ev.clear c r l ∈ ext → clearAct K l = .again ∨ clearAct K l = .renew) →
      (clearS K ctrl b e res).2 = .retryError ∧ ext.countP Ev.isClear = b - 1) := by
  apply clearS_induct K ctrl (fun b e res p => ∃ ext : List Ev, Extends e p.1 ext ∧
    (∀ ev ∈ ext, ev.inPhase ctrl) ∧
    ext.length ≤ 2 * (b - 1) ∧ ext.countP Ev.isClear ≤ b - 1 ∧
    Fresh res ext ∧
    (∀ r', p.2 = .ok r' →
      r' = lastGrant res ext ∧ ∃ pre rr l, ext = pre ++ [Ev.clear ctrl rr l] ∧ clearAct K l = .done) ∧
    (∀ c r l, Ev.clear c r l ∈ ext → clearAct K l = .done → ∃ r', p.2 = .ok r') ∧
    (∀ c r l cc, Ev.clear c r l ∈ ext → clearAct K l = .fail cc → p.2 = .ccError cc) ∧
    ((∀ c r l, Ev.clear c r l ∈ ext → clearAct K l = .again ∨ clearAct K l = .renew) →
      p.2 = .retryError ∧ ext.countP Ev.isClear = b - 1))
  · intro e res
    exact ⟨[], by simp [Extends], by simp, by simp, by simp, trivial, by simp, by simp, by simp, by simp⟩
  · intro e res
    exact ⟨[], by simp [Extends], by simp, by simp, by simp, trivial, by simp, by simp, by simp, by simp⟩
  · -- done
    intro r e res ha
    refine ⟨[.clear ctrl res e.peek], by simp [Extends], by simp [Ev.inPhase], by simp; omega,
      by simp [Ev.isClear], by simp [Fresh], ?_, ?_, ?_, ?_⟩
    · intro r' h
      simp at h; subst h
      exact ⟨by simp [lastGrant], [], res, e.peek, by simp, ha⟩
    · intro c r' l _ _; exact ⟨res, rfl⟩
    · intro c r' l cc hm hf
      simp at hm; obtain ⟨_, _, rfl⟩ := hm
      rw [ha] at hf; cases hf
    · intro h
      have := h ctrl res e.peek (by simp)
      rw [ha] at this; rcases this with h | h <;> cases h
  · -- again
    intro r e res ha ⟨ext, hx, h1, h2, h3, h4, h5, h6, h7, h8⟩
    refine ⟨_, hx.cons, ?_, by simp; omega, by simp [Ev.isClear, List.countP_cons]; omega,
      by simp [Fresh]; exact h4, ?_, ?_, ?_, ?_⟩
    · intro ev hm
      simp at hm
      rcases hm with rfl | hm
      · simp [Ev.inPhase]
      · exact h1 ev hm
    · intro r' h
      obtain ⟨hr, pre, rr, l, hext, hd⟩ := h5 r' h
      exact ⟨by simp [lastGrant]; exact hr, .clear ctrl res e.peek :: pre, rr, l, by simp [hext], hd⟩
    · intro c r' l hm hd
      simp at hm
      rcases hm with ⟨_, _, rfl⟩ | hm
      · rw [ha] at hd; cases hd
      · exact h6 c r' l hm hd
    · intro c r' l cc hm hf
      simp at hm
      rcases hm with ⟨_, _, rfl⟩ | hm
      · rw [ha] at hf; cases hf
      · exact h7 c r' l cc hm hf
    · intro h
      have := h8 (fun c r' l hm => h c r' l (by simp [hm]))
      exact ⟨this.1, by simp [Ev.isClear, List.countP_cons, this.2]⟩
  · -- renew
    intro r e res ha ⟨ext, hx, h1, h2, h3, h4, h5, h6, h7, h8⟩
    refine ⟨_, hx.cons2, ?_, by simp; omega, by simp [Ev.isClear, List.countP_cons]; omega,
      by simp [Fresh]; exact h4, ?_, ?_, ?_, ?_⟩
    · intro ev hm
      simp at hm
      rcases hm with rfl | rfl | hm
      · simp [Ev.inPhase]
      · simp [Ev.inPhase]
      · exact h1 ev hm
    · intro r' h
      obtain ⟨hr, pre, rr, l, hext, hd⟩ := h5 r' h
      exact ⟨by simp [lastGrant]; exact hr,
        .clear ctrl res e.peek :: .reserve (e.lastRes + 1) :: pre, rr, l, by simp [hext], hd⟩
    · intro c r' l hm hd
      simp at hm
      rcases hm with ⟨_, _, rfl⟩ | hm
      · rw [ha] at hd; cases hd
      · exact h6 c r' l hm hd
    · intro c r' l cc hm hf
      simp at hm
      rcases hm with ⟨_, _, rfl⟩ | hm
      · rw [ha] at hf; cases hf
      · exact h7 c r' l cc hm hf
    · intro h
      have := h8 (fun c r' l hm => h c r' l (by simp [hm]))
      exact ⟨this.1, by simp [Ev.isClear, List.countP_cons, this.2]⟩
  · -- fail
    intro r e res cc ha
    refine ⟨[.clear ctrl res e.peek], by simp [Extends], by simp [Ev.inPhase], by simp; omega,
      by simp [Ev.isClear], by simp [Fresh], by simp, ?_, ?_, ?_⟩
    · intro c r' l hm hd
      simp at hm; obtain ⟨_, _, rfl⟩ := hm
      rw [ha] at hd; cases hd
    · intro c r' l cc' hm hf
      simp at hm; obtain ⟨_, _, rfl⟩ := hm
      rw [ha] at hf; cases hf; rfl
    · intro h
      have := h ctrl res e.peek (by simp)
      rw [ha] at this; rcases this with h | h <;> cases h
  · -- CompletionCodeError(0): outside the model
    intro r e res ha
    refine ⟨[.clear ctrl res e.peek], by simp [Extends], by simp [Ev.inPhase], by simp; omega,
      by simp [Ev.isClear], by simp [Fresh], by simp, ?_, ?_, ?_⟩
    · intro c r' l hm hd
      simp at hm; obtain ⟨_, _, rfl⟩ := hm
      rw [ha] at hd; cases hd
    · intro c r' l cc' hm hf
      simp at hm; obtain ⟨_, _, rfl⟩ := hm
      rw [ha] at hf; cases hf
    · intro h
      have := h ctrl res e.peek (by simp)
      rw [ha] at this; rcases this with h | h <;> cases h


/-! ### clear_repository_helper on a script -/

/-- outcome of the helper given the outcomes of its two phases -/
def helperOut (o1 : Outcome Nat) (o2 : Outcome Nat) : Outcome Unit :=
  match o1 with
  | .ok _ => (match o2 with | .ok _ => .ok () | o => recast o)
  | o => recast o

theorem clearHelper_env (K : Consts) (b : Nat) (rv : Option Nat) (e : Env) :
    clearHelper K (Env.clear K) Env.reserve b rv e =
      let e0 := match rv with | some _ => e | none => e.granted
      let r0 := match rv with | some r => r | none => e.lastRes + 1
      let p1 := clearS K K.ctrlInitiate b e0 r0
      match p1.2 with
      | .ok r1 =>
        let p2 := clearS K K.ctrlStatus b p1.1 r1
        (p2.1, helperOut p1.2 p2.2)
      | _ => (p1.1, helperOut p1.2 p1.2) := by
  unfold clearHelper
  cases rv with
  | some r =>
    simp only []
    rcases h1 : clearLoop K (Env.clear K) Env.reserve K.ctrlInitiate b e r with ⟨e1, o1⟩
    cases o1 <;> simp [clearS, h1, helperOut]
    rename_i r1
    rcases h2 : clearLoop K (Env.clear K) Env.reserve K.ctrlStatus b e1 r1 with ⟨e2, o2⟩
    cases o2 <;> simp [recast]
  | none =>
    simp only [Env.reserve_eq]
    rcases h1 : clearLoop K (Env.clear K) Env.reserve K.ctrlInitiate b e.granted (e.lastRes + 1) with ⟨e1, o1⟩
    simp only [Env.granted] at h1
    cases o1 <;> simp [clearS, h1, helperOut, Env.granted]
    rename_i r1
    rcases h2 : clearLoop K (Env.clear K) Env.reserve K.ctrlStatus b e1 r1 with ⟨e2, o2⟩
    cases o2 <;> simp [recast]


/-- everything `clearS_spec` says about one phase, as a record -/
structure Phase (K : Consts) (ctrl b res : Nat) (ext : List Ev) (o : Outcome Nat) : Prop where
  inPhase : ∀ ev ∈ ext, ev.inPhase ctrl
  len : ext.length ≤ 2 * (b - 1)
  clears : ext.countP Ev.isClear ≤ b - 1
  fresh : Fresh res ext
  ok : ∀ r', o = .ok r' → r' = lastGrant res ext ∧ ∃ pre rr l, ext = pre ++ [Ev.clear ctrl rr l] ∧ clearAct K l = .done
  done : ∀ c r l, Ev.clear c r l ∈ ext → clearAct K l = .done → ∃ r', o = .ok r'
  fail : ∀ c r l cc, Ev.clear c r l ∈ ext → clearAct K l = .fail cc → o = .ccError cc
  exhaust : (∀ c r l, Ev.clear c r l ∈ ext → clearAct K l = .again ∨ clearAct K l = .renew) →
    o = .retryError ∧ ext.countP Ev.isClear = b - 1

theorem clearS_phase (K : Consts) (ctrl b : Nat) (e : Env) (res : Nat) :
    ∃ ext, Extends e (clearS K ctrl b e res).1 ext ∧ Phase K ctrl b res ext (clearS K ctrl b e res).2 := by
  obtain ⟨ext, hx, h1, h2, h3, h4, h5, h6, h7, h8⟩ := clearS_spec K ctrl b e res
  exact ⟨ext, hx, ⟨h1, h2, h3, h4, h5, h6, h7, h8⟩⟩

/-- The helper's run = optional reservation, initiate phase, and — only if that succeeded — poll phase. -/
theorem runClear_decomp (K : Consts) (b : Nat) (rv : Option Nat) (s : Script) :
    ∃ t0 r0 ext1 ext2 o1 o2,
      (runClear K b rv s).1.trace = t0 ++ ext1 ++ ext2 ∧
      (runClear K b rv s).2 = helperOut o1 o2 ∧
      ((rv = some r0 ∧ t0 = []) ∨ (rv = none ∧ t0 = [Ev.reserve r0])) ∧
      Phase K K.ctrlInitiate b r0 ext1 o1 ∧
      ((∃ r1, o1 = .ok r1 ∧ Phase K K.ctrlStatus b r1 ext2 o2) ∨ ((∀ r1, o1 ≠ .ok r1) ∧ ext2 = [] ∧ o2 = o1)) := by
  unfold runClear
  rw [clearHelper_env]
  cases rv with
  | some r =>
    simp only [Option.getD_some]
    obtain ⟨ext1, hx1, ph1⟩ := clearS_phase K K.ctrlInitiate b ⟨s, r, []⟩ r
    cases h1 : (clearS K K.ctrlInitiate b ⟨s, r, []⟩ r).2 with
    | ok r1 =>
      obtain ⟨ext2, hx2, ph2⟩ := clearS_phase K K.ctrlStatus b (clearS K K.ctrlInitiate b ⟨s, r, []⟩ r).1 r1
      refine ⟨[], r, ext1, ext2, _, _, ?_, rfl, Or.inl ⟨rfl, rfl⟩, h1 ▸ ph1, Or.inl ⟨r1, rfl, ph2⟩⟩
      simp only [Extends] at hx1 hx2
      simp [hx2, hx1]
    | _ =>
      refine ⟨[], r, ext1, [], _, _, ?_, rfl, Or.inl ⟨rfl, rfl⟩, h1 ▸ ph1, Or.inr ⟨(by intro r1 h; cases h), rfl, rfl⟩⟩
      simp only [Extends] at hx1
      simp [hx1]
  | none =>
    simp only [Option.getD_none, Env.granted, Nat.zero_add, List.nil_append]
    obtain ⟨ext1, hx1, ph1⟩ := clearS_phase K K.ctrlInitiate b ⟨s, 1, [Ev.reserve 1]⟩ 1
    cases h1 : (clearS K K.ctrlInitiate b ⟨s, 1, [Ev.reserve 1]⟩ 1).2 with
    | ok r1 =>
      obtain ⟨ext2, hx2, ph2⟩ := clearS_phase K K.ctrlStatus b (clearS K K.ctrlInitiate b ⟨s, 1, [Ev.reserve 1]⟩ 1).1 r1
      refine ⟨[.reserve 1], 1, ext1, ext2, _, _, ?_, rfl, Or.inr ⟨trivial, rfl⟩, h1 ▸ ph1, Or.inl ⟨r1, rfl, ph2⟩⟩
      simp only [Extends] at hx1 hx2
      simp [hx2, hx1]
    | _ =>
      refine ⟨[.reserve 1], 1, ext1, [], _, _, ?_, rfl, Or.inr ⟨trivial, rfl⟩, h1 ▸ ph1, Or.inr ⟨(by intro r1 h; cases h), rfl, rfl⟩⟩
      simp only [Extends] at hx1
      simp [hx1]


theorem mem_of_append_eq_concat {α : Type} {A B pre : List α} {x : α} (h : A ++ B = pre ++ [x]) :
    x ∈ B ∨ (B = [] ∧ x ∈ A) := by
  rcases List.eq_nil_or_concat B with rfl | ⟨B', y, rfl⟩
  · right
    refine ⟨rfl, ?_⟩
    simp at h; rw [h]; simp
  · left
    have h' : (A ++ B') ++ [y] = pre ++ [x] := by simpa using h
    have := List.append_inj_right' h' rfl
    simp at this; subst this; simp

theorem runClear_bounded (K : Consts) (b : Nat) (rv : Option Nat) (s : Script) :
    (runClear K b rv s).1.trace.length ≤ 4 * (b - 1) + 1 := by
  obtain ⟨t0, r0, ext1, ext2, o1, o2, ht, _, hr, p1, hp2⟩ := runClear_decomp K b rv s
  rw [ht]
  have h0 : t0.length ≤ 1 := by rcases hr with ⟨_, rfl⟩ | ⟨_, rfl⟩ <;> simp
  have h1 := p1.len
  have h2 : ext2.length ≤ 2 * (b - 1) := by
    rcases hp2 with ⟨r1, _, p2⟩ | ⟨_, rfl, _⟩
    · exact p2.len
    · simp
  simp; omega

theorem runClear_clear_calls (K : Consts) (b : Nat) (rv : Option Nat) (s : Script) :
    (runClear K b rv s).1.trace.countP Ev.isClear ≤ 2 * (b - 1) := by
  obtain ⟨t0, r0, ext1, ext2, o1, o2, ht, _, hr, p1, hp2⟩ := runClear_decomp K b rv s
  rw [ht]
  have h0 : t0.countP Ev.isClear = 0 := by rcases hr with ⟨_, rfl⟩ | ⟨_, rfl⟩ <;> simp [Ev.isClear]
  have h1 := p1.clears
  have h2 : ext2.countP Ev.isClear ≤ b - 1 := by
    rcases hp2 with ⟨r1, _, p2⟩ | ⟨_, rfl, _⟩
    · exact p2.clears
    · simp
  simp [List.countP_append]; omega

theorem runClear_fresh (K : Consts) (b : Nat) (rv : Option Nat) (s : Script) :
    Fresh (rv.getD 0) (runClear K b rv s).1.trace := by
  obtain ⟨t0, r0, ext1, ext2, o1, o2, ht, _, hr, p1, hp2⟩ := runClear_decomp K b rv s
  rw [ht]
  have hrest : Fresh r0 (ext1 ++ ext2) := by
    rw [fresh_append]
    refine ⟨p1.fresh, ?_⟩
    rcases hp2 with ⟨r1, rfl, p2⟩ | ⟨_, rfl, _⟩
    · rw [← (p1.ok r1 rfl).1]; exact p2.fresh
    · trivial
  rcases hr with ⟨rfl, rfl⟩ | ⟨rfl, rfl⟩
  · simpa using hrest
  · simpa [Fresh] using hrest

theorem runClear_initiate_first (K : Consts) (hK : K.ctrlInitiate ≠ K.ctrlStatus) (b : Nat)
    (rv : Option Nat) (s : Script) (pre : List Ev) (r : Nat) (l : Letter) (post : List Ev)
    (h : (runClear K b rv s).1.trace = pre ++ Ev.clear K.ctrlStatus r l :: post) :
    ∃ r' l', Ev.clear K.ctrlInitiate r' l' ∈ pre ∧ clearAct K l' = .done := by
  obtain ⟨t0, r0, ext1, ext2, o1, o2, ht, _, hr, p1, hp2⟩ := runClear_decomp K b rv s
  rw [ht] at h
  have hA : ∀ ev ∈ t0 ++ ext1, ev ≠ Ev.clear K.ctrlStatus r l := by
    intro ev hm
    rcases List.mem_append.mp hm with hm | hm
    · rcases hr with ⟨_, rfl⟩ | ⟨_, rfl⟩ <;> simp at hm
      subst hm; intro h; cases h
    · intro he; subst he
      have := p1.inPhase _ hm
      simp [Ev.inPhase] at this
      exact hK this.symm
  have key : ∃ a', pre = (t0 ++ ext1) ++ a' ∧ ext2 = a' ++ Ev.clear K.ctrlStatus r l :: post := by
    rcases List.append_eq_append_iff.mp h with ⟨a', h1, h2⟩ | ⟨c', h1, h2⟩
    · exact ⟨a', h1, h2⟩
    · cases c' with
      | nil => exact ⟨[], by simpa using h1.symm, by simpa using h2.symm⟩
      | cons y c'' =>
        simp at h2
        exact absurd h2.1.symm (hA y (by rw [h1]; simp))
  obtain ⟨a', hpre, hext2⟩ := key
  rcases hp2 with ⟨r1, rfl, p2⟩ | ⟨_, rfl, _⟩
  · obtain ⟨_, pre1, rr, l1, hext1, hd⟩ := p1.ok r1 rfl
    exact ⟨rr, l1, by rw [hpre, hext1]; simp, hd⟩
  · simp at hext2

theorem runClear_success_iff (K : Consts) (hK : K.ctrlInitiate ≠ K.ctrlStatus) (b : Nat)
    (rv : Option Nat) (s : Script) :
    (runClear K b rv s).2 = .ok () ↔
      ∃ pre r l, (runClear K b rv s).1.trace = pre ++ [Ev.clear K.ctrlStatus r l] ∧ clearAct K l = .done := by
  obtain ⟨t0, r0, ext1, ext2, o1, o2, ht, ho, hr, p1, hp2⟩ := runClear_decomp K b rv s
  rw [ht, ho]
  constructor
  · intro h
    rcases hp2 with ⟨r1, rfl, p2⟩ | ⟨hno, rfl, rfl⟩
    · cases o2 <;> simp [helperOut, recast] at h
      rename_i r2
      obtain ⟨_, pre2, rr, l2, hext2, hd⟩ := p2.ok r2 rfl
      exact ⟨t0 ++ ext1 ++ pre2, rr, l2, by rw [hext2]; simp, hd⟩
    · cases o2 <;> simp [helperOut, recast] at h
      rename_i r1
      exact absurd rfl (hno r1)
  · intro ⟨pre, r, l, h, hd⟩
    rcases mem_of_append_eq_concat h with hm | ⟨_, hm⟩
    · rcases hp2 with ⟨r1, rfl, p2⟩ | ⟨_, rfl, _⟩
      · obtain ⟨r', rfl⟩ := p2.done _ _ _ hm hd
        rfl
      · simp at hm
    · exfalso
      rcases List.mem_append.mp hm with hm | hm
      · rcases hr with ⟨_, rfl⟩ | ⟨_, rfl⟩ <;> simp at hm
      · have := p1.inPhase _ hm
        simp [Ev.inPhase] at this
        exact hK this.symm

theorem runClear_propagates (K : Consts) (b : Nat) (rv : Option Nat) (s : Script)
    (c r : Nat) (l : Letter) (cc : Nat) (hm : Ev.clear c r l ∈ (runClear K b rv s).1.trace)
    (hf : clearAct K l = .fail cc) : (runClear K b rv s).2 = .ccError cc := by
  obtain ⟨t0, r0, ext1, ext2, o1, o2, ht, ho, hr, p1, hp2⟩ := runClear_decomp K b rv s
  rw [ht] at hm
  rw [ho]
  simp only [List.mem_append] at hm
  rcases hm with (hm | hm) | hm
  · rcases hr with ⟨_, rfl⟩ | ⟨_, rfl⟩ <;> simp at hm
  · rw [p1.fail _ _ _ _ hm hf]; rfl
  · rcases hp2 with ⟨r1, rfl, p2⟩ | ⟨_, rfl, _⟩
    · rw [p2.fail _ _ _ _ hm hf]; rfl
    · simp at hm

theorem runClear_exhaustion (K : Consts) (b : Nat) (rv : Option Nat) (s : Script)
    (h : ∀ c r l, Ev.clear c r l ∈ (runClear K b rv s).1.trace → clearAct K l = .again ∨ clearAct K l = .renew) :
    (runClear K b rv s).2 = .retryError := by
  obtain ⟨t0, r0, ext1, ext2, o1, o2, ht, ho, hr, p1, hp2⟩ := runClear_decomp K b rv s
  rw [ht] at h
  rw [ho]
  have := (p1.exhaust (fun c r l hm => h c r l (by simp [hm]))).1
  rw [this]; rfl


/-! ### Ipmi.send_message on a script -/

theorem sendS_spec (K : Consts) (v : SendVariant) : ∀ b e, ∃ ext : List Ev, Extends e (sendS K v b e).1 ext ∧
    ext.length ≤ b ∧
    (v.retryAnyCode = false → ∀ pre l post, ext = pre ++ Ev.xfer l :: post → post ≠ [] → l.code = K.sendBusy) ∧
    (∀ l, Ev.xfer l ∈ ext → l.code = 0 → (sendS K v b e).2 = .ok ()) ∧
    (v.retryAnyCode = false → ∀ l, Ev.xfer l ∈ ext → l.code ≠ 0 → l.code ≠ K.sendBusy →
      (sendS K v b e).2 = .ccError l.code) ∧
    ((∀ l, Ev.xfer l ∈ ext → l.code ≠ 0 ∧ (v.retryAnyCode = false → l.code = K.sendBusy)) →
      (sendS K v b e).2 = .retryError ∧ ext.length = b) := by
  apply sendS_induct K v (fun b e p => ∃ ext : List Ev, Extends e p.1 ext ∧
    ext.length ≤ b ∧
    (v.retryAnyCode = false → ∀ pre l post, ext = pre ++ Ev.xfer l :: post → post ≠ [] → l.code = K.sendBusy) ∧
    (∀ l, Ev.xfer l ∈ ext → l.code = 0 → p.2 = .ok ()) ∧
    (v.retryAnyCode = false → ∀ l, Ev.xfer l ∈ ext → l.code ≠ 0 → l.code ≠ K.sendBusy → p.2 = .ccError l.code) ∧
    ((∀ l, Ev.xfer l ∈ ext → l.code ≠ 0 ∧ (v.retryAnyCode = false → l.code = K.sendBusy)) →
      p.2 = .retryError ∧ ext.length = b))
  · intro e
    refine ⟨[], by simp [Extends], by simp, ?_, by simp, by simp, by simp⟩
    intro _ pre l post h; simp at h
  · intro r e c0
    refine ⟨[.xfer e.peek], by simp [Extends], by simp, ?_, by simp, ?_, ?_⟩
    · intro _ pre l post h hp
      cases pre with
      | nil => simp at h; exact absurd h.2 hp
      | cons y pre' => simp at h
    · intro _ l hm h0
      simp at hm; subst hm; exact absurd c0 h0
    · intro h
      exact absurd c0 (h e.peek (by simp)).1
  · intro r e c0 c1 ⟨ext, hx, h1, h2, h3, h4, h5⟩
    refine ⟨_, hx.cons, by simp; omega, ?_, ?_, ?_, ?_⟩
    · intro hv pre l post h hp
      cases pre with
      | nil =>
        simp at h
        rcases c1 with c1 | c1
        · rw [← h.1]; exact c1
        · rw [hv] at c1; cases c1
      | cons y pre' =>
        simp at h
        exact h2 hv pre' l post h.2 hp
    · intro l hm h0
      simp at hm
      rcases hm with rfl | hm
      · exact absurd h0 c0
      · exact h3 l hm h0
    · intro hv l hm h0 hb
      simp at hm
      rcases hm with rfl | hm
      · rcases c1 with c1 | c1
        · exact absurd c1 hb
        · rw [hv] at c1; cases c1
      · exact h4 hv l hm h0 hb
    · intro h
      have := h5 (fun l hm => h l (by simp [hm]))
      exact ⟨this.1, by simp [this.2]⟩
  · intro r e c0 c1
    have hv : v.retryAnyCode = false := by
      cases hv : v.retryAnyCode
      · rfl
      · exact absurd (Or.inr hv) c1
    have hb : e.peek.code ≠ K.sendBusy := fun h => c1 (Or.inl h)
    refine ⟨[.xfer e.peek], by simp [Extends], by simp, ?_, ?_, ?_, ?_⟩
    · intro _ pre l post h hp
      cases pre with
      | nil => simp at h; exact absurd h.2 hp
      | cons y pre' => simp at h
    · intro l hm h0
      simp at hm; subst hm; exact absurd h0 c0
    · intro _ l hm _ _
      simp at hm; subst hm; rfl
    · intro h
      exact absurd ((h e.peek (by simp)).2 hv) hb

end PyIpmi.Model.Retry
