/-
  Helper lemmas for C18: Python slices over appended lists, `chunks`, BCD minor revisions,
  component masks.
-/
import PyIpmi.Model.Hpm
namespace PyIpmi.Hpm
open PyIpmi PyIpmi.Gen.Hpm
open PyIpmi.Spec.HpmFormat

/-! ### slices -/

theorem slice_eq (a b : Nat) (l : List Nat) : slice a b l = (l.drop a).take (b - a) := by
  simp [slice, List.drop_take]

theorem slice_append_le {a b : Nat} {p : List Nat} (q : List Nat) (h : b ≤ p.length) :
    slice a b (p ++ q) = slice a b p := by
  simp [slice, List.take_append_of_le_length h]

theorem slice_append_ge {a b : Nat} {p : List Nat} (q : List Nat) (h : p.length ≤ a) :
    slice a b (p ++ q) = slice (a - p.length) (b - p.length) q := by
  rw [slice_eq, slice_eq, List.drop_append, List.drop_eq_nil_of_le h, List.nil_append]
  congr 1
  omega

theorem slice_zero_append {b : Nat} {p : List Nat} (q : List Nat) (h : b = p.length) :
    slice 0 b (p ++ q) = p := by
  subst h
  simp [slice]

/-! ### chunks -/

theorem chunks_nil (n : Nat) : chunks n [] = [] := by
  unfold chunks; simp

theorem chunks_cons (n : Nat) (hn : 0 < n) (l : List Nat) (hl : l ≠ []) :
    chunks n l = l.take n :: chunks n (l.drop n) := by
  rw [chunks]
  have : ¬ (n = 0 ∨ l = []) := by
    intro h
    rcases h with h | h
    · omega
    · exact hl h
  simp [this]

theorem chunks_flatten (n : Nat) (hn : 0 < n) (l : List Nat) : (chunks n l).flatten = l := by
  induction h : l.length using Nat.strongRecOn generalizing l with
  | _ k ih =>
    by_cases hl : l = []
    · subst hl; simp [chunks_nil]
    · rw [chunks_cons n hn l hl]
      have hpos : 0 < l.length := List.length_pos_iff.mpr hl
      have := ih (l.drop n).length (by simp [List.length_drop]; omega) (l.drop n) rfl
      simp [this]

theorem chunks_sizes (n : Nat) (hn : 0 < n) (l : List Nat) :
    ∀ c ∈ chunks n l, 0 < c.length ∧ c.length ≤ n := by
  induction h : l.length using Nat.strongRecOn generalizing l with
  | _ k ih =>
    by_cases hl : l = []
    · subst hl; simp [chunks_nil]
    · rw [chunks_cons n hn l hl]
      have hpos : 0 < l.length := List.length_pos_iff.mpr hl
      intro c hc
      rcases List.mem_cons.mp hc with rfl | hc
      · simp [List.length_take]; omega
      · exact ih (l.drop n).length (by simp [List.length_drop]; omega) (l.drop n) rfl c hc

/-! ### BCD minor revision, component mask -/

theorem decodeMinor_bcd : ∀ m, m < 100 → decodeMinor (bcd m) = .ok m := by decide

theorem decodeMinor_bcd_undefined : decodeMinor (bcd 255) = .ok 255 := by decide

theorem decodeMinor_wf (m : Nat) (h : m < 100 ∨ m = 255) : decodeMinor (bcd m) = .ok m := by
  rcases h with h | h
  · exact decodeMinor_bcd m h
  · subst h; exact decodeMinor_bcd_undefined

theorem componentsOfByte_sweep :
    (List.range 256).all (fun b => componentsOfByte b == componentsOf b) = true := by decide +kernel

theorem componentsOfByte_eq (b : Nat) (h : b < 256) : componentsOfByte b = componentsOf b := by
  have := List.all_eq_true.mp componentsOfByte_sweep b (List.mem_range.mpr h)
  exact beq_iff_eq.mp this

end PyIpmi.Hpm
