/-
  Lemmas for C06, second part: the model client of `Model/Session.lean` talking to the reference
  BMC of `Spec/BmcSession.lean`, one attempt at a time: what the client sends in each state, what
  the BMC makes of it when it arrives (`step`) and what the monitor makes of it when it is lost
  (`stepLost`), what the client reads from the answer.
-/
import PyIpmi.Lemmas.RmcpSession
namespace PyIpmi.Session
open PyIpmi PyIpmi.RmcpWire PyIpmi.Gen.RmcpFormats PyIpmi.Spec.Lan PyIpmi.Spec.BmcSession PyIpmi.Props.C05

/-- The console configuration `cfg` and the BMC `b` belong together (same user, password,
privilege level), the values the BMC hands out are 32-bit / 16 bytes, the random initial
outbound sequence number is what `random.randrange(1, 0xffffffff)` can return, requests are
addressed to the BMC. -/
structure Conforming (b : BmcCfg) (cfg : Cfg) : Prop where
  user : b.user = cfg.user
  pw : b.pw = cfg.pw
  priv : b.priv = cfg.priv
  privLt : cfg.priv < 16
  userLen : cfg.user.length ≤ 16
  pwLen : cfg.pw.length ≤ 16
  chalLen : b.challenge.length = 16
  tempSid : b.tempSid < 4294967296
  sid : b.sid < 4294967296
  inSeq : b.inSeq0 < 4294967296
  outSeqPos : cfg.outSeq ≠ 0
  outSeqLt : cfg.outSeq < 4294967296
  rsSa : cfg.rsSa = 0x20

/-! ### sequence numbers -/

theorem incSeq_eq_nextSeq (s : Nat) (h : s < 4294967296) : incSeq s = nextSeq s := by
  unfold incSeq nextSeq; split <;> split <;> omega

theorem nextSeq_lt (s : Nat) (h : s < 4294967296) : nextSeq s < 4294967296 := by
  unfold nextSeq; split <;> omega

theorem nextSeq_ne_zero (s : Nat) : nextSeq s ≠ 0 := by
  unfold nextSeq; split <;> omega

theorem inWindow_next (s : Nat) : inWindow s (nextSeq s) = true := by
  simp [inWindow]

/-- the sequence number `n` datagrams after `s` -/
def seqAfter : Nat → Nat → Nat
  | 0, s => s
  | n + 1, s => seqAfter n (nextSeq s)

theorem seqAfter_succ (n s : Nat) : seqAfter (n + 1) s = nextSeq (seqAfter n s) := by
  induction n generalizing s with
  | zero => rfl
  | succ n ih => simp only [seqAfter] at ih ⊢; rw [ih]

/-! ### datagrams -/

/-- `d` is a packet of the session: authentication type `a`, session id `sid`, session sequence
number `seq`, and the authentication code those values demand -/
def SessionPacket (md5 : List Nat → List Nat) (pw : List Nat) (a sid seq : Nat) (d : List Nat) : Prop :=
  ∃ p, parseLan d = some p ∧ p.auth = a ∧ p.sid = sid ∧ p.seq = seq ∧ codeOk md5 pw p = true

/-- `d` is a packet outside any session: authentication type none, session id 0, sequence number 0 -/
def OutsideSession (d : List Nat) : Prop :=
  ∃ p, parseLan d = some p ∧ p.auth = 0 ∧ p.sid = 0 ∧ p.seq = 0

/-- `d` carries the IPMI request `cmd` (NetFn App) with these data bytes, addressed to the BMC -/
def Carries (d : List Nat) (cmd : Nat) (data : List Nat) : Prop :=
  ∃ p rq, parseLan d = some p ∧ parseIpmiReq p.payload = some rq ∧ rq.rsAddr = 0x20 ∧ rq.netfn = 6 ∧
    rq.cmd = cmd ∧ rq.data = data

/-- every datagram of `ds` is a session packet whose sequence number is the successor
(`nextSeq`: +1, FFFFFFFFh is followed by 1) of the previous one's, the first one's of `s` -/
def Chain (md5 : List Nat → List Nat) (pw : List Nat) (a sid : Nat) : Nat → List (List Nat) → Prop
  | _, [] => True
  | s, d :: ds => SessionPacket md5 pw a sid (nextSeq s) d ∧ Chain md5 pw a sid (nextSeq s) ds

theorem Chain.append {md5 : List Nat → List Nat} {pw : List Nat} {a sid : Nat} {l1 l2 : List (List Nat)} {s : Nat}
    (h1 : Chain md5 pw a sid s l1) (h2 : Chain md5 pw a sid (seqAfter l1.length s) l2) :
    Chain md5 pw a sid s (l1 ++ l2) := by
  induction l1 generalizing s with
  | nil => simpa [seqAfter] using h2
  | cons d ds ih => exact ⟨h1.1, ih h1.2 (by simpa [seqAfter] using h2)⟩

theorem Chain.get {md5 : List Nat → List Nat} {pw : List Nat} {a sid : Nat} {l : List (List Nat)} {s : Nat}
    (h : Chain md5 pw a sid s l) (i : Nat) (hi : i < l.length) :
    SessionPacket md5 pw a sid (seqAfter (i + 1) s) l[i] := by
  induction l generalizing s i with
  | nil => simp at hi
  | cons d ds ih =>
    cases i with
    | zero => simpa [seqAfter] using h.1
    | succ i => simpa [seqAfter] using ih h.2 i (by simpa using hi)

/-! ### what the client sends -/

/-- the header `hdrStep` builds for the next request of client `c` -/
def hdrOf (cfg : Cfg) (c : Client) (cmd : Nat) : ReqHdr :=
  ⟨cfg.rsSa, 6, 0, cfg.rqSa, (c.rqSeq + 1) % 64, 0, cmd⟩

/-- a request header for command `cmd` (NetFn App, LUN 0) addressed to the BMC -/
structure BmcHdr (h : ReqHdr) (cmd : Nat) : Prop where
  rsSa : h.rsSa = 0x20
  netfn : h.netfn = 6
  rsLun : h.rsLun = 0
  rqLun : h.rqLun = 0
  cmd : h.cmd = cmd

theorem hdrStep_eq (cfg : Cfg) (c : Client) (cmd : Nat) :
    hdrStep cfg c 6 0 cmd = ({ c with rqSeq := (c.rqSeq + 1) % 64 }, hdrOf cfg c cmd) := rfl

theorem bmcHdr_hdrOf (cfg : Cfg) (c : Client) (cmd : Nat) (h : cfg.rsSa = 0x20) : BmcHdr (hdrOf cfg c cmd) cmd :=
  ⟨h, rfl, rfl, rfl, rfl⟩

/-- a datagram sent before the session object is attached: outside any session, client unchanged -/
theorem pack_unattached (md5 : List Nat → List Nat) (c : Client) (sdu : List Nat)
    (hat : c.attached = false) (hlen : sdu.length ≤ 255) :
    ∃ d, packStep md5 c sdu = (c, .ok d) ∧
      parseLan d = some { ver := 6, rsvd := 0, rmcpSeq := 255, cls := 7, auth := 0, seq := 0, sid := 0, code := none,
                          len := sdu.length, payload := sdu } := by
  obtain ⟨d, h1, h2⟩ := pack_wellformed_nosession md5 sdu 255 hlen (by decide)
  refine ⟨d, ?_, h2⟩
  obtain ⟨at_, s, q⟩ := c
  simp only at hat
  subst hat
  simp [packStep, sessAfterPack, rmcpInitialSeq, h1]

/-- a datagram sent with the session object attached -/
theorem pack_attached (md5 : List Nat → List Nat) (hmd5 : ∀ x, (md5 x).length = 16) (c : Client)
    (sdu : List Nat) (hat : c.attached = true)
    (hauth : c.s.auth = 0 ∨ c.s.auth = 4 ∨ c.s.auth = 2) (hsid : c.s.sid < 4294967296)
    (hseq : c.s.seq < 4294967296) (hpw : c.s.pw.length ≤ 16) (hlen : sdu.length ≤ 255) :
    ∃ d code, packStep md5 c sdu = ({ c with s := { c.s with seq := carriedSeq c.s } }, .ok d) ∧
      expectedCode md5 c.s.auth c.s.pw c.s.sid (carriedSeq c.s) sdu = some code ∧
      parseLan d = some { ver := 6, rsvd := 0, rmcpSeq := 255, cls := 7, auth := c.s.auth, seq := carriedSeq c.s,
                          sid := c.s.sid, code := code, len := sdu.length, payload := sdu } := by
  obtain ⟨d, code, h1, h2, h3⟩ := pack_wellformed md5 hmd5 c.s sdu 255 hauth hsid hseq hpw hlen (by decide)
  refine ⟨d, code, ?_, h2, h3⟩
  obtain ⟨at_, ⟨a, sid, seq, act, pw⟩, q⟩ := c
  simp only at hat
  subst hat
  cases act <;> simp [packStep, sessAfterPack, carriedSeq, rmcpInitialSeq] at h1 ⊢ <;> exact h1

/-! ### one attempt against any peer -/

/-- the presence ping datagram -/
def pingD : List Nat := [6, 0, 255, 6, 0, 0, 0x11, 0xbe, 0x80, 0, 0, 0]

theorem ping_reply {σ : Type} (P : σ → List Nat → σ × Option (List Nat)) (p : σ) (r : List Nat)
    (h : (P p pingD).2 = some r) : ping P p = ((P p pingD).1, [pingD], receivePong r) := by
  have h0 : pingDatagram rmcpInitialSeq = .ok pingD := by decide
  simp only [ping, h0, h]

theorem ping_silent {σ : Type} (P : σ → List Nat → σ × Option (List Nat)) (p : σ)
    (h : (P p pingD).2 = none) : ping P p = ((P p pingD).1, [pingD], .pyError "TimeoutError") := by
  have h0 : pingDatagram rmcpInitialSeq = .ok pingD := by decide
  simp only [ping, h0, h]

/-- an attempt that is answered with a frame the client accepts ends the request -/
theorem tryLoop_answered {σ : Type} (md5 : List Nat → List Nat) (P : σ → List Nat → σ × Option (List Nat))
    (cfg : Cfg) (h : ReqHdr) (sdu : List Nat) (n : Nat) (p : σ) (c c' : Client) (d : List Nat) (pl : List Nat)
    (hp : packStep md5 c sdu = (c', .ok d)) (hr : rxStep cfg h (P p d).2 = .ok pl) :
    tryLoop md5 P cfg h sdu (n + 1) p c = ((P p d).1, c', [d], .ok pl) := by
  simp only [tryLoop, hp, hr]

/-- an attempt that gets no answer is followed by the next one -/
theorem tryLoop_lost {σ : Type} (md5 : List Nat → List Nat) (P : σ → List Nat → σ × Option (List Nat))
    (cfg : Cfg) (h : ReqHdr) (sdu : List Nat) (n : Nat) (p : σ) (c c' : Client) (d : List Nat)
    (hp : packStep md5 c sdu = (c', .ok d)) (hr : (P p d).2 = none) :
    tryLoop md5 P cfg h sdu (n + 1) p c =
      ((tryLoop md5 P cfg h sdu n (P p d).1 c').1, (tryLoop md5 P cfg h sdu n (P p d).1 c').2.1,
       d :: (tryLoop md5 P cfg h sdu n (P p d).1 c').2.2.1, (tryLoop md5 P cfg h sdu n (P p d).1 c').2.2.2) := by
  simp only [tryLoop, hp, hr, rxStep]

/-! ### the reference BMC, attempt by attempt -/

theorem bmc_ping (md5 : List Nat → List Nat) (b : BmcCfg) (st : BmcState) (hs : st.phase = .start) :
    step md5 b st pingD = ({ st with phase := .pinged },
      .reply (pongBytes 0 [0, 0, 0x11, 0xbe] [0, 0, 0, 0] 0x81 0)) := by
  simp [step, hs, pingD, parseAsf, u32le]

theorem pong_ok : receivePong (pongBytes 0 [0, 0, 0x11, 0xbe] [0, 0, 0, 0] 0x81 0) = .ok () := by decide

theorem userField_eq (u : List Nat) : userField u = pad16 u := by
  unfold userField pad16
  cases u <;> simp

/-- the BMC, past the ping and not closed, looks at a well-formed datagram of the client -/
theorem step_client (md5 : List Nat → List Nat) (b : BmcCfg) (st : BmcState) (h : ReqHdr) (cmd : Nat)
    (data d : List Nat) (p : LanPacket) (hh : BmcHdr h cmd)
    (hs : st.phase ≠ .start) (hc : st.phase ≠ .closed)
    (hp : parseLan d = some p) (hv : p.ver = 6) (hcl : p.cls = 7) (hl : p.len = (ipmbEncode h data).length)
    (hpl : p.payload = ipmbEncode h data) :
    step md5 b st d = handle md5 b st p (reqOf h data) :=
  step_parsed md5 b st d p _ hs hc hp hv hcl (by rw [hl, hpl])
    (by rw [hpl]; exact parseIpmiReq_encode _ _ (by simp [hh.rsLun]) (by simp [hh.rqLun]))
    (by simp [reqOf, hh.rsSa, bmcAddr])

/-- a lost datagram that the monitor accepts before the session is active leaves no trace -/
theorem stepLost_before (md5 : List Nat → List Nat) (b : BmcCfg) (st st' : BmcState) (d r : List Nat)
    (h : step md5 b st d = (st', .reply r)) (hph : ∀ a l, st.phase ≠ .active a l) :
    stepLost md5 b st d = (st, .reply r) := by
  simp only [stepLost, h]
  split
  · rename_i a l p hp _; exact absurd hp (hph a l)
  · rfl

/-- a lost datagram that the monitor accepts inside the session: its sequence number is counted -/
theorem stepLost_active (md5 : List Nat → List Nat) (b : BmcCfg) (st st' : BmcState) (d r : List Nat)
    (p : LanPacket) (a : Nat) (l : Option Nat)
    (h : step md5 b st d = (st', .reply r)) (hph : st.phase = .active a l) (hp : parseLan d = some p) :
    stepLost md5 b st d = ({ st with phase := .active a (some p.seq) }, .reply r) := by
  simp only [stepLost, h, hph, hp]

theorem carries_of (d : List Nat) (p : LanPacket) (h : ReqHdr) (cmd : Nat) (data : List Nat) (hh : BmcHdr h cmd)
    (hp : parseLan d = some p) (hpl : p.payload = ipmbEncode h data) : Carries d cmd data :=
  ⟨p, reqOf h data, hp, by rw [hpl]; exact parseIpmiReq_encode _ _ (by simp [hh.rsLun]) (by simp [hh.rqLun]),
    hh.rsSa, hh.netfn, hh.cmd, rfl⟩

/-- Get Channel Authentication Capabilities: sent outside any session, accepted, answered with
the capability byte -/
theorem bmc_authCap (md5 : List Nat → List Nat) (hmd5 : ∀ x, (md5 x).length = 16)
    (b : BmcCfg) (cfg : Cfg) (conf : Conforming b cfg) (st : BmcState) (c : Client) (h : ReqHdr)
    (hh : BmcHdr h 56) (hph : st.phase = .pinged) (hat : c.attached = false) :
    ∃ d r, packStep md5 c (ipmbEncode h [0x0e, cfg.priv % 16]) = (c, .ok d) ∧
      OutsideSession d ∧ Carries d 56 [0x0e, cfg.priv] ∧
      step md5 b st d = ({ st with phase := .capsSent }, .reply r) ∧
      stepLost md5 b st d = (st, .reply r) ∧
      rxStep cfg h (some r) = .ok [0, 1, b.caps % 64, 0, 0, 0, 0, 0, 0] := by
  have hp16 : cfg.priv % 16 = cfg.priv := Nat.mod_eq_of_lt conf.privLt
  obtain ⟨d, h1, h2⟩ := pack_unattached md5 c (ipmbEncode h [0x0e, cfg.priv % 16]) hat (by simp [ipmbEncode_length])
  have hstep : step md5 b st d = ({ st with phase := .capsSent },
      .reply (lanPacket md5 0 [] 0 0 (ipmiRsp (reqOf h [0x0e, cfg.priv % 16]) 0 [1, b.caps % 64, 0, 0, 0, 0, 0, 0]))) := by
    rw [step_client md5 b st h 56 _ d _ hh (by simp [hph]) (by simp [hph]) h2 rfl rfl rfl rfl]
    have hp : cfg.priv % 16 % 16 = b.priv := by rw [conf.priv]; omega
    simp [handle, hph, reqOf, hh.netfn, hh.cmd, Spec.BmcSession.netfnApp, Spec.BmcSession.cmdGetAuthCap, hp]
  refine ⟨d, _, h1, ⟨_, h2, rfl, rfl, rfl⟩, ?_, hstep, ?_, ?_⟩
  · have := carries_of d _ h 56 [0x0e, cfg.priv % 16] hh h2 rfl
    rw [hp16] at this; exact this
  · exact stepLost_before md5 b st _ d _ hstep (by simp [hph])
  · exact rxStep_reply md5 hmd5 cfg _ _ 0 [] 0 0 0 _ (Or.inl rfl) (by simp) (by decide) (by decide) hh.netfn
      (by simp [hh.rsLun]) (by simp [hh.rqLun]) (by simp [hh.cmd, cmdSendMessage])

/-- Get Session Challenge: sent outside any session, names the chosen authentication type and
the configured user; answered with the temporary session id and the challenge -/
theorem bmc_challenge (md5 : List Nat → List Nat) (hmd5 : ∀ x, (md5 x).length = 16)
    (b : BmcCfg) (cfg : Cfg) (conf : Conforming b cfg) (st : BmcState) (c : Client) (h : ReqHdr) (a : Nat)
    (hh : BmcHdr h 57) (ha : a = 0 ∨ a = 4 ∨ a = 2) (hoff : offered b.caps a = true)
    (hph : st.phase = .capsSent) (hat : c.attached = false) :
    ∃ d r, packStep md5 c (ipmbEncode h ([a % 16] ++ userField cfg.user)) = (c, .ok d) ∧
      OutsideSession d ∧ Carries d 57 (a :: pad16 cfg.user) ∧
      step md5 b st d = ({ st with phase := .challenged a }, .reply r) ∧
      stepLost md5 b st d = (st, .reply r) ∧
      rxStep cfg h (some r) = .ok (0 :: (leBytes 4 b.tempSid ++ b.challenge)) := by
  have ha16 : a % 16 = a := by rcases ha with h | h | h <;> subst h <;> rfl
  have hd : [a % 16] ++ userField cfg.user = a :: pad16 cfg.user := by rw [ha16, userField_eq]; rfl
  have hul := pad16_length cfg.user conf.userLen
  rw [hd]
  obtain ⟨d, h1, h2⟩ := pack_unattached md5 c (ipmbEncode h (a :: pad16 cfg.user)) hat
    (by simp [ipmbEncode_length, hul])
  have hstep : step md5 b st d = ({ st with phase := .challenged a },
      .reply (lanPacket md5 0 [] 0 0 (ipmiRsp (reqOf h (a :: pad16 cfg.user)) 0 (leBytes 4 b.tempSid ++ b.challenge)))) := by
    rw [step_client md5 b st h 57 _ d _ hh (by simp [hph]) (by simp [hph]) h2 rfl rfl rfl rfl]
    simp [handle, hph, reqOf, hh.netfn, hh.cmd, Spec.BmcSession.netfnApp, Spec.BmcSession.cmdGetChallenge, hul, ha16,
      hoff, conf.user]
  refine ⟨d, _, h1, ⟨_, h2, rfl, rfl, rfl⟩, carries_of d _ h 57 _ hh h2 rfl, hstep, ?_, ?_⟩
  · exact stepLost_before md5 b st _ d _ hstep (by simp [hph])
  · exact rxStep_reply md5 hmd5 cfg _ _ 0 [] 0 0 0 _ (Or.inl rfl) (by simp) (by decide) (by decide) hh.netfn
      (by simp [hh.rsLun]) (by simp [hh.rqLun]) (by simp [hh.cmd, cmdSendMessage])

theorem codeOk_of (md5 : List Nat → List Nat) (pw : List Nat) (p : LanPacket) (code : Option (List Nat))
    (h : expectedCode md5 p.auth pw p.sid p.seq p.payload = some code) (hc : p.code = code) :
    codeOk md5 pw p = true := by
  simp [codeOk, h, hc]

theorem handle_activate (md5 : List Nat → List Nat) (b : BmcCfg) (st : BmcState) (p : LanPacket) (rq : IpmiReq)
    (a out : Nat) (hph : st.phase = .challenged a) (hnf : rq.netfn = 6) (hcmd : rq.cmd = 58)
    (hpa : p.auth = a) (hps : p.sid = b.tempSid) (hpq : p.seq = 0) (hcode : codeOk md5 b.pw p = true)
    (hdata : rq.data = [a, b.priv] ++ b.challenge ++ leBytes 4 out) (ha16 : a % 16 = a)
    (hp : b.priv % 16 = b.priv) (hch : b.challenge.length = 16) (hout : out ≠ 0) (hlt : out < 4294967296) :
    handle md5 b st p rq = ({ st with phase := .active a none, outSeq := nextSeq out },
      .reply (lanPacket md5 a b.pw b.sid out
        (ipmiRsp rq 0 ([a] ++ leBytes 4 b.sid ++ leBytes 4 b.inSeq0 ++ [b.priv])))) := by
  have hv : leVal (leBytes 4 out) = out := leVal_leBytes 4 _ hlt
  have htk : List.take 16 (b.challenge ++ leBytes 4 out) = b.challenge := by
    rw [List.take_append_of_le_length (by simp [hch])]
    exact List.take_of_length_le (by simp [hch])
  have hdr : List.drop 16 (b.challenge ++ leBytes 4 out) = leBytes 4 out := by
    rw [← hch]; exact List.drop_left
  simp [handle, hph, hnf, hcmd, hpa, hps, hpq, hcode, hdata, Spec.BmcSession.netfnApp, Spec.BmcSession.cmdActivate,
    hch, ha16, hp, htk, hdr, hv, hout]

/-- the client between Get Session Challenge and the activation: session object attached, under
the temporary session id, with the chosen authentication type, and with nothing of an earlier
session in it (not activated, null sequence number) -/
structure Activating (b : BmcCfg) (cfg : Cfg) (a q : Nat) (c : Client) : Prop where
  attached : c.attached = true
  auth : c.s.auth = a
  sid : c.s.sid = b.tempSid
  pw : c.s.pw = cfg.pw
  seq0 : c.s.seq = 0
  inact : c.s.activated = false
  rqSeq : c.rqSeq = q

theorem Activating.carried {b : BmcCfg} {cfg : Cfg} {a q : Nat} {c : Client} (h : Activating b cfg a q c) :
    carriedSeq c.s = 0 := by
  simp [carriedSeq, h.inact, h.seq0]

/-- Activate Session: sent under the temporary session id with the chosen authentication type,
echoes the challenge, asks for the configured privilege level; the BMC grants the session -/
theorem bmc_activate (md5 : List Nat → List Nat) (hmd5 : ∀ x, (md5 x).length = 16)
    (b : BmcCfg) (cfg : Cfg) (conf : Conforming b cfg) (st : BmcState) (c : Client) (h : ReqHdr) (a q : Nat)
    (hh : BmcHdr h 58) (ha : a = 0 ∨ a = 4 ∨ a = 2) (hph : st.phase = .challenged a)
    (hc : Activating b cfg a q c) :
    ∃ d r c', packStep md5 c (ipmbEncode h ([a % 16, cfg.priv % 16] ++ b.challenge ++ leBytes 4 cfg.outSeq)) =
        (c', .ok d) ∧ Activating b cfg a q c' ∧
      (∃ p, parseLan d = some p ∧ p.auth = a ∧ p.sid = b.tempSid ∧ p.seq = 0 ∧ codeOk md5 cfg.pw p = true) ∧
      Carries d 58 ([a, cfg.priv] ++ b.challenge ++ leBytes 4 cfg.outSeq) ∧
      step md5 b st d = ({ st with phase := .active a none, outSeq := nextSeq cfg.outSeq }, .reply r) ∧
      stepLost md5 b st d = (st, .reply r) ∧
      rxStep cfg h (some r) = .ok (0 :: ([a] ++ leBytes 4 b.sid ++ leBytes 4 b.inSeq0 ++ [b.priv])) := by
  have ha16 : a % 16 = a := by rcases ha with h | h | h <;> subst h <;> rfl
  have hp16 : cfg.priv % 16 = cfg.priv := Nat.mod_eq_of_lt conf.privLt
  rw [ha16, hp16]
  obtain ⟨d, code, h1, h2, h3⟩ := pack_attached md5 hmd5 c
    (ipmbEncode h ([a, cfg.priv] ++ b.challenge ++ leBytes 4 cfg.outSeq)) hc.attached (by rw [hc.auth]; exact ha)
    (by rw [hc.sid]; exact conf.tempSid) (by rw [hc.seq0]; decide) (by rw [hc.pw]; exact conf.pwLen)
    (by simp [ipmbEncode_length, conf.chalLen])
  have hcode := codeOk_of md5 cfg.pw ⟨6, 0, 255, 7, c.s.auth, carriedSeq c.s, c.s.sid, code,
    (ipmbEncode h ([a, cfg.priv] ++ b.challenge ++ leBytes 4 cfg.outSeq)).length,
    ipmbEncode h ([a, cfg.priv] ++ b.challenge ++ leBytes 4 cfg.outSeq)⟩ code
    (by rw [← hc.pw]; exact h2) rfl
  have hstep : step md5 b st d = ({ st with phase := .active a none, outSeq := nextSeq cfg.outSeq },
      .reply (lanPacket md5 a b.pw b.sid cfg.outSeq
        (ipmiRsp (reqOf h ([a, cfg.priv] ++ b.challenge ++ leBytes 4 cfg.outSeq)) 0
          ([a] ++ leBytes 4 b.sid ++ leBytes 4 b.inSeq0 ++ [b.priv])))) := by
    rw [step_client md5 b st h 58 _ d _ hh (by simp [hph]) (by simp [hph]) h3 rfl rfl rfl rfl]
    exact handle_activate md5 b st _ _ a cfg.outSeq hph hh.netfn hh.cmd hc.auth hc.sid hc.carried (by rw [conf.pw]; exact hcode)
      (by simp [reqOf, conf.priv]) ha16 (by rw [conf.priv]; exact hp16) conf.chalLen conf.outSeqPos conf.outSeqLt
  refine ⟨d, _, _, h1, ⟨hc.attached, hc.auth, hc.sid, hc.pw, hc.carried, hc.inact, hc.rqSeq⟩,
    ⟨_, h3, hc.auth, hc.sid, hc.carried, hcode⟩, carries_of d _ h 58 _ hh h3 rfl, hstep, ?_, ?_⟩
  · exact stepLost_before md5 b st _ d _ hstep (by simp [hph])
  · exact rxStep_reply md5 hmd5 cfg _ _ a b.pw b.sid cfg.outSeq 0 _ ha (by rw [conf.pw]; exact conf.pwLen)
      conf.sid conf.outSeqLt hh.netfn (by simp [hh.rsLun]) (by simp [hh.rqLun]) (by simp [hh.cmd, cmdSendMessage])

/-! ### inside the session -/

theorem handle_active (md5 : List Nat → List Nat) (b : BmcCfg) (st : BmcState) (p : LanPacket) (rq : IpmiReq)
    (a : Nat) (last : Option Nat) (hph : st.phase = .active a last)
    (hpa : p.auth = a) (hps : p.sid = b.sid) (hcode : codeOk md5 b.pw p = true)
    (hseq : match last with
      | none => inWindow b.inSeq0 p.seq = true ∧ p.seq ≠ 0
      | some l => p.seq = nextSeq l) :
    handle md5 b st p rq = inSession md5 b st a p.seq rq := by
  cases last with
  | none => simp at hseq; simp [handle, hph, hpa, hps, hcode, hseq]
  | some l => simp at hseq; simp [handle, hph, hpa, hps, hcode, hseq, nextSeq_ne_zero]

theorem inSession_setPriv (md5 : List Nat → List Nat) (b : BmcCfg) (st : BmcState) (a seq lvl : Nat) (rq : IpmiReq)
    (hnf : rq.netfn = 6) (hcmd : rq.cmd = 59) (hdata : rq.data = [lvl]) :
    inSession md5 b st a seq rq = ({ st with phase := .active a (some seq), outSeq := nextSeq st.outSeq },
      .reply (lanPacket md5 a b.pw b.sid st.outSeq (ipmiRsp rq 0 [lvl % 16]))) := by
  simp [inSession, hnf, hcmd, hdata, Spec.BmcSession.netfnApp, Spec.BmcSession.cmdClose, Spec.BmcSession.cmdSetPriv]

theorem inSession_getDeviceId (md5 : List Nat → List Nat) (b : BmcCfg) (st : BmcState) (a seq : Nat) (rq : IpmiReq)
    (hnf : rq.netfn = 6) (hcmd : rq.cmd = 1) :
    inSession md5 b st a seq rq = ({ st with phase := .active a (some seq), outSeq := nextSeq st.outSeq },
      .reply (lanPacket md5 a b.pw b.sid st.outSeq (ipmiRsp rq 0 deviceIdData))) := by
  simp [inSession, hnf, hcmd, Spec.BmcSession.netfnApp, Spec.BmcSession.cmdClose, Spec.BmcSession.cmdSetPriv,
    Spec.BmcSession.cmdGetDeviceId]

theorem inSession_close (md5 : List Nat → List Nat) (b : BmcCfg) (st : BmcState) (a seq : Nat) (rq : IpmiReq)
    (hnf : rq.netfn = 6) (hcmd : rq.cmd = 60) (hdata : rq.data = leBytes 4 b.sid) :
    inSession md5 b st a seq rq = ({ st with phase := .closed, outSeq := nextSeq st.outSeq },
      .reply (lanPacket md5 a b.pw b.sid st.outSeq (ipmiRsp rq 0 []))) := by
  simp [inSession, hnf, hcmd, hdata, Spec.BmcSession.netfnApp, Spec.BmcSession.cmdClose]

/-- The session is up: BMC in phase `active a last`, the client's session object activated with
the granted id, and the client's stored sequence number is the last one the monitor has seen
(the assigned initial value when none was sent yet). -/
structure Live (b : BmcCfg) (cfg : Cfg) (a : Nat) (last : Option Nat) (st : BmcState) (c : Client) : Prop where
  phase : st.phase = .active a last
  outSeq : st.outSeq < 4294967296
  attached : c.attached = true
  auth : c.s.auth = a
  sid : c.s.sid = b.sid
  act : c.s.activated = true
  pw : c.s.pw = cfg.pw
  seq : c.s.seq = last.getD b.inSeq0
  seqLt : c.s.seq < 4294967296

/-- any request inside the session: the datagram carries the chosen authentication type, the
granted session id, the successor of the stored sequence number and a valid authentication code;
the monitor accepts the header whether or not the datagram arrives -/
theorem bmc_inSession (md5 : List Nat → List Nat) (hmd5 : ∀ x, (md5 x).length = 16)
    (b : BmcCfg) (cfg : Cfg) (conf : Conforming b cfg) (st : BmcState) (c : Client) (h : ReqHdr) (a : Nat)
    (last : Option Nat) (cmd : Nat) (data rdata : List Nat) (ph : Nat → Phase)
    (hh : BmcHdr h cmd) (ha : a = 0 ∨ a = 4 ∨ a = 2) (live : Live b cfg a last st c)
    (hlen : data.length + 7 ≤ 255) (hcmd : cmd ≠ 52)
    (hin : ∀ seq, inSession md5 b st a seq (reqOf h data) =
      ({ st with phase := ph seq, outSeq := nextSeq st.outSeq },
       .reply (lanPacket md5 a b.pw b.sid st.outSeq (ipmiRsp (reqOf h data) 0 rdata)))) :
    ∃ d r, packStep md5 c (ipmbEncode h data) = ({ c with s := { c.s with seq := nextSeq c.s.seq } }, .ok d) ∧
      SessionPacket md5 cfg.pw a b.sid (nextSeq c.s.seq) d ∧ Carries d cmd data ∧
      step md5 b st d = ({ st with phase := ph (nextSeq c.s.seq), outSeq := nextSeq st.outSeq }, .reply r) ∧
      stepLost md5 b st d = ({ st with phase := .active a (some (nextSeq c.s.seq)) }, .reply r) ∧
      rxStep cfg h (some r) = .ok (0 :: rdata) := by
  obtain ⟨d, code, h1, h2, h3⟩ := pack_attached md5 hmd5 c (ipmbEncode h data) live.attached
    (by rw [live.auth]; exact ha) (by rw [live.sid]; exact conf.sid) live.seqLt (by rw [live.pw]; exact conf.pwLen)
    (by rw [ipmbEncode_length]; exact hlen)
  have hcs : carriedSeq c.s = nextSeq c.s.seq := by
    simp [carriedSeq, live.act, incSeq_eq_nextSeq _ live.seqLt]
  rw [hcs] at h1 h2 h3
  have hcode := codeOk_of md5 cfg.pw ⟨6, 0, 255, 7, c.s.auth, nextSeq c.s.seq, c.s.sid, code,
    (ipmbEncode h data).length, ipmbEncode h data⟩ code (by rw [← live.pw]; exact h2) rfl
  have hstep : step md5 b st d = ({ st with phase := ph (nextSeq c.s.seq), outSeq := nextSeq st.outSeq },
      .reply (lanPacket md5 a b.pw b.sid st.outSeq (ipmiRsp (reqOf h data) 0 rdata))) := by
    rw [step_client md5 b st h cmd _ d _ hh (by simp [live.phase]) (by simp [live.phase]) h3 rfl rfl rfl rfl,
      handle_active md5 b st _ _ a last live.phase live.auth live.sid (by rw [conf.pw]; exact hcode), hin]
    cases last with
    | none => have := live.seq; simp at this; simp [this, inWindow_next, nextSeq_ne_zero]
    | some l => have := live.seq; simp at this; simp [this]
  refine ⟨d, _, h1, ⟨_, h3, live.auth, live.sid, rfl, hcode⟩, carries_of d _ h cmd data hh h3 rfl, hstep, ?_, ?_⟩
  · exact stepLost_active md5 b st _ d _ _ a last hstep live.phase h3
  · exact rxStep_reply md5 hmd5 cfg _ _ a b.pw b.sid _ 0 _ ha (by rw [conf.pw]; exact conf.pwLen) conf.sid
      live.outSeq hh.netfn (by simp [hh.rsLun]) (by simp [hh.rqLun]) (by simpa [hh.cmd, cmdSendMessage] using hcmd)

/-! ### peers that relay the reference BMC

The theorems are about any peer `P` whose state projects (`π`) onto a state of the reference
BMC / monitor, and that treats each datagram in one of two ways, decided by its own state
(`lostAt`): it hands it to the BMC and hands back the BMC's answer, or the BMC does not act on it
(the monitor has seen it, `stepLost`).  In the second case `Relay` leaves open what comes back:
nothing when the datagram is lost (that is what `LossRun` says), an error completion code when
the BMC refuses the request (`Refused`, Lemmas/SessionFault.lean).  The BMC itself is the instance
`π = id`, `lostAt = false`; the BMC behind a lossy network (`Spec.BmcSession.lossy`) and the BMC
with a fault plan (`Spec.BmcSession.faulty`) are others. -/

section relay
variable {σ : Type} (md5 : List Nat → List Nat) (b : BmcCfg) (P : σ → List Nat → σ × Option (List Nat))
  (π : σ → BmcState) (lostAt : σ → Bool)

structure Relay : Prop where
  answers : ∀ s d, lostAt s = false → π (P s d).1 = (step md5 b (π s) d).1 ∧ (P s d).2 = (peer md5 b (π s) d).2
  drops : ∀ s d, lostAt s = true → π (P s d).1 = (stepLost md5 b (π s) d).1

/-- from state `s` on exactly `k` datagrams are lost (the BMC does not act, nothing comes back),
the next one is answered, and then `Q` holds of the peer's state — whatever the datagrams are -/
def LossRun (Q : σ → Prop) : Nat → σ → Prop
  | 0, s => lostAt s = false ∧ ∀ d, Q (P s d).1
  | k + 1, s => lostAt s = true ∧ (∀ d, (P s d).2 = none) ∧ ∀ d, LossRun Q k (P s d).1

/-- in each of the next `n` requests at most `R` datagrams are lost before one is answered -/
def Within (R : Nat) : Nat → σ → Prop
  | 0, _ => True
  | n + 1, s => ∃ k, k ≤ R ∧ LossRun P lostAt (Within R n) k s

variable {md5 b P π lostAt}

theorem LossRun.imp {Q Q' : σ → Prop} (h : ∀ s, Q s → Q' s) : ∀ {k : Nat} {s : σ},
    LossRun P lostAt Q k s → LossRun P lostAt Q' k s := by
  intro k
  induction k with
  | zero => intro s hs; exact ⟨hs.1, fun d => h _ (hs.2 d)⟩
  | succ k ih => intro s hs; exact ⟨hs.1, hs.2.1, fun d => ih (hs.2.2 d)⟩

theorem relay_reply (rel : Relay md5 b P π lostAt) (s : σ) (hl : lostAt s = false) (d r : List Nat)
    (st' : BmcState) (h : step md5 b (π s) d = (st', .reply r)) : π (P s d).1 = st' ∧ (P s d).2 = some r := by
  have h1 := rel.answers s d hl
  simp only [peer, h] at h1
  exact h1

theorem relay_lost (rel : Relay md5 b P π lostAt) (s : σ) (hl : lostAt s = true) (d r : List Nat)
    (st' : BmcState) (h : stepLost md5 b (π s) d = (st', .reply r)) : π (P s d).1 = st' := by
  have h1 := rel.drops s d hl
  simp only [h] at h1
  exact h1

theorem peer_fst (st : BmcState) (d : List Nat) : (peer md5 b st d).1 = (step md5 b st d).1 := by
  unfold peer; split <;> simp_all

/-- the reference BMC itself -/
theorem relay_self : Relay md5 b (peer md5 b) id (fun _ => false) :=
  ⟨fun st d _ => ⟨peer_fst st d, rfl⟩, fun _ _ h => by simp at h⟩

theorem within_self (R n : Nat) (st : BmcState) : Within (peer md5 b) (fun _ => false) R n st := by
  induction n generalizing st with
  | zero => trivial
  | succ n ih => exact ⟨0, Nat.zero_le _, rfl, fun d => ih _⟩

/-- the reference BMC behind a lossy network -/
theorem relay_lossy (plan : Nat → Bool) : Relay md5 b (lossy md5 b plan) Prod.snd (fun s => plan s.1) := by
  constructor
  · rintro ⟨i, st⟩ d h
    simp only at h
    simp only [lossy, h]
    exact ⟨peer_fst st d, rfl⟩
  · rintro ⟨i, st⟩ d h
    simp only at h
    simp [lossy, h]

/-- the network never loses more than `R` datagrams in a row -/
def BoundedLoss (plan : Nat → Bool) (R : Nat) : Prop := ∀ i, ∃ k, k ≤ R ∧ plan (i + k) = false

theorem least_false (p : Nat → Bool) (k : Nat) (hk : p k = false) :
    ∃ k', k' ≤ k ∧ (∀ j, j < k' → p j = true) ∧ p k' = false := by
  induction k using Nat.strongRecOn with
  | _ k ih =>
    by_cases h : ∀ j, j < k → p j = true
    · exact ⟨k, Nat.le_refl _, h, hk⟩
    · have ⟨j, hj⟩ : ∃ j, j < k ∧ p j = false := by
        apply Classical.byContradiction
        intro hn
        apply h
        intro j hj
        cases hp : p j
        · exact absurd ⟨j, hj, hp⟩ hn
        · rfl
      obtain ⟨k', h1, h2, h3⟩ := ih j hj.1 hj.2
      exact ⟨k', by omega, h2, h3⟩

theorem lossRun_lossy (plan : Nat → Bool) (Q : Nat × BmcState → Prop) (k : Nat) :
    ∀ (i : Nat) (st : BmcState), (∀ j, j < k → plan (i + j) = true) → plan (i + k) = false →
      (∀ st', Q (i + k + 1, st')) → LossRun (lossy md5 b plan) (fun s => plan s.1) Q k (i, st) := by
  induction k with
  | zero =>
    intro i st _ h0 hq
    have hi : plan i = false := by simpa using h0
    refine ⟨hi, fun d => ?_⟩
    have e : (lossy md5 b plan (i, st) d).1 = (i + 1, (peer md5 b st d).1) := by simp [lossy, hi]
    rw [e]
    simpa using hq (peer md5 b st d).1
  | succ k ih =>
    intro i st hlt h0 hq
    have hi : plan i = true := by simpa using hlt 0 (by omega)
    refine ⟨hi, fun d => by simp [lossy, hi], fun d => ?_⟩
    have e : (lossy md5 b plan (i, st) d).1 = (i + 1, (stepLost md5 b st d).1) := by simp [lossy, hi]
    rw [e]
    refine ih (i + 1) _ (fun j hj => ?_) ?_ (fun st' => ?_)
    · have := hlt (j + 1) (by omega)
      rwa [show i + (j + 1) = i + 1 + j by omega] at this
    · rwa [show i + 1 + k = i + (k + 1) by omega]
    · have := hq st'
      rwa [show i + (k + 1) + 1 = i + 1 + k + 1 by omega] at this

theorem within_lossy (plan : Nat → Bool) (R : Nat) (h : BoundedLoss plan R) (n : Nat) :
    ∀ (i : Nat) (st : BmcState), Within (lossy md5 b plan) (fun s => plan s.1) R n (i, st) := by
  induction n with
  | zero => intro _ _; trivial
  | succ n ih =>
    intro i st
    obtain ⟨k, hk, hp⟩ := h i
    obtain ⟨k', h1, h2, h3⟩ := least_false (fun j => plan (i + j)) k hp
    exact ⟨k', by omega, lossRun_lossy plan _ k' i st h2 h3 (fun st' => ih _ _)⟩

end relay

end PyIpmi.Session
