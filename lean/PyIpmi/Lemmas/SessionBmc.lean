/-
  Lemmas for C06, second part: the model client of `Model/Session.lean` talking to the reference
  BMC of `Spec/BmcSession.lean`, one exchange at a time (what the client sends in each state,
  what the BMC makes of it, what the client reads from the answer).
-/
import PyIpmi.Lemmas.RmcpSession
namespace PyIpmi.Session
open PyIpmi PyIpmi.RmcpWire PyIpmi.Gen.RmcpFormats PyIpmi.Spec.Lan PyIpmi.Spec.BmcSession PyIpmi.Props.C05

/-- The console configuration `cfg` and the BMC `b` belong together (same user, password,
privilege level), the values the BMC hands out are 32-bit / 16 bytes, the BMC offers at least
one authentication type that the library implements. -/
structure Conforming (b : BmcCfg) (cfg : Cfg) : Prop where
  user : b.user = cfg.user
  pw : b.pw = cfg.pw
  priv : b.priv = cfg.priv
  privLt : cfg.priv < 16
  userLen : cfg.user.length ≤ 16
  pwLen : cfg.pw.length ≤ 16
  chalLen : b.challenge.length = 16
  tempSid : b.tempSid < 4294967296
  sid : b.sid < 4294967296
  inSeq : b.inSeq0 < 4294967296
  outSeqPos : cfg.outSeq ≠ 0
  outSeqLt : cfg.outSeq < 4294967296
  rsSa : cfg.rsSa = 0x20

/-! ### sequence numbers -/

theorem incSeq_eq_nextSeq (s : Nat) (h : s < 4294967296) : incSeq s = nextSeq s := by
  unfold incSeq nextSeq; split <;> split <;> omega

theorem nextSeq_lt (s : Nat) (h : s < 4294967296) : nextSeq s < 4294967296 := by
  unfold nextSeq; split <;> omega

theorem nextSeq_ne_zero (s : Nat) : nextSeq s ≠ 0 := by
  unfold nextSeq; split <;> omega

theorem inWindow_next (s : Nat) : inWindow s (nextSeq s) = true := by
  simp [inWindow]

/-! ### what the client sends -/

theorem tx_attached (md5 : List Nat → List Nat) (hmd5 : ∀ x, (md5 x).length = 16) (cfg : Cfg) (c : Client)
    (cmd : Nat) (data : List Nat) (hat : c.attached = true)
    (hauth : c.s.auth = 0 ∨ c.s.auth = 4 ∨ c.s.auth = 2) (hsid : c.s.sid < 4294967296)
    (hseq : c.s.seq < 4294967296) (hpw : c.s.pw.length ≤ 16) (hlen : data.length + 7 ≤ 255) :
    ∃ d code, txStep md5 cfg c 6 0 cmd data =
        ({ c with rqSeq := (c.rqSeq + 1) % 64, s := { c.s with seq := carriedSeq c.s } }, hdrOf cfg c cmd, .ok d) ∧
      expectedCode md5 c.s.auth c.s.pw c.s.sid (carriedSeq c.s) (ipmbEncode (hdrOf cfg c cmd) data) = some code ∧
      parseLan d = some { ver := 6, rsvd := 0, rmcpSeq := 255, cls := 7, auth := c.s.auth, seq := carriedSeq c.s,
                          sid := c.s.sid, code := code, len := data.length + 7,
                          payload := ipmbEncode (hdrOf cfg c cmd) data } := by
  have hl : (ipmbEncode (hdrOf cfg c cmd) data).length ≤ 255 := by rw [ipmbEncode_length]; exact hlen
  obtain ⟨d, code, h1, h2, h3⟩ := pack_wellformed md5 hmd5 c.s (ipmbEncode (hdrOf cfg c cmd) data) 255
    hauth hsid hseq hpw hl (by decide)
  refine ⟨d, code, ?_, h2, ?_⟩
  · have hs : (match sessAfterPack (some c.s) with
        | some s' => s'
        | none => c.s) = { c.s with seq := carriedSeq c.s } := by
      obtain ⟨a, sid, seq, act, pw⟩ := c.s
      cases act <;> simp [sessAfterPack, carriedSeq]
    simp only [txStep, hat, if_true]
    simp [hdrOf, rmcpInitialSeq] at h1 ⊢
    exact ⟨hs, h1⟩
  · rw [ipmbEncode_length] at h3
    exact h3

/-! ### one exchange against any peer -/

theorem exchange_of_tx {σ : Type} (md5 : List Nat → List Nat) (P : σ → List Nat → σ × Option (List Nat))
    (cfg : Cfg) (p : σ) (c c' : Client) (h : ReqHdr) (d : List Nat) (netfn lun cmd : Nat) (data : List Nat)
    (htx : txStep md5 cfg c netfn lun cmd data = (c', h, .ok d)) :
    exchange md5 P cfg p c netfn lun cmd data = ((P p d).1, c', [d], rxStep cfg h (P p d).2) := by
  simp [exchange, htx]

/-- the presence ping datagram -/
def pingD : List Nat := [6, 0, 255, 6, 0, 0, 0x11, 0xbe, 0x80, 0, 0, 0]

theorem ping_reply {σ : Type} (P : σ → List Nat → σ × Option (List Nat)) (p : σ) (r : List Nat)
    (h : (P p pingD).2 = some r) : ping P p = ((P p pingD).1, [pingD], receivePong r) := by
  have h0 : pingDatagram rmcpInitialSeq = .ok pingD := by decide
  simp only [ping, h0, h]

theorem ping_silent {σ : Type} (P : σ → List Nat → σ × Option (List Nat)) (p : σ)
    (h : (P p pingD).2 = none) : ping P p = ((P p pingD).1, [pingD], .pyError "TimeoutError") := by
  have h0 : pingDatagram rmcpInitialSeq = .ok pingD := by decide
  simp only [ping, h0, h]

/-! ### the reference BMC, step by step -/

theorem bmc_ping (md5 : List Nat → List Nat) (b : BmcCfg) (st : BmcState) (hs : st.phase = .start) :
    step md5 b st pingD = ({ st with phase := .pinged },
      .reply (pongBytes 0 [0, 0, 0x11, 0xbe] [0, 0, 0, 0] 0x81 0)) := by
  simp [step, hs, pingD, parseAsf, u32le]

theorem pong_ok : receivePong (pongBytes 0 [0, 0, 0x11, 0xbe] [0, 0, 0, 0] 0x81 0) = .ok () := by decide

theorem userField_eq (u : List Nat) : userField u = pad16 u := by
  unfold userField pad16
  cases u <;> simp

theorem pad16_len (u : List Nat) (h : u.length ≤ 16) : (pad16 u).length = 16 := pad16_length u h

/-- a datagram sent before the session object is attached: outside any session -/
theorem tx_unattached' (md5 : List Nat → List Nat) (cfg : Cfg) (c : Client)
    (cmd : Nat) (data : List Nat) (hat : c.attached = false) (hlen : data.length + 7 ≤ 255) :
    ∃ d, txStep md5 cfg c 6 0 cmd data = ({ c with rqSeq := (c.rqSeq + 1) % 64 }, hdrOf cfg c cmd, .ok d) ∧
      parseLan d = some { ver := 6, rsvd := 0, rmcpSeq := 255, cls := 7, auth := 0, seq := 0, sid := 0, code := none,
                          len := data.length + 7, payload := ipmbEncode (hdrOf cfg c cmd) data } := by
  have hl : (ipmbEncode (hdrOf cfg c cmd) data).length ≤ 255 := by rw [ipmbEncode_length]; exact hlen
  obtain ⟨d, h1, h2⟩ := pack_wellformed_nosession md5 (ipmbEncode (hdrOf cfg c cmd) data) 255 hl (by decide)
  refine ⟨d, ?_, ?_⟩
  · simp [txStep, hat, sessAfterPack, hdrOf, rmcpInitialSeq] at h1 ⊢
    exact h1
  · rw [ipmbEncode_length] at h2
    exact h2

/-- the BMC, past the ping and not closed, looks at a well-formed datagram of the client -/
theorem step_client (md5 : List Nat → List Nat) (b : BmcCfg) (cfg : Cfg) (st : BmcState) (c : Client)
    (cmd : Nat) (data d : List Nat) (p : LanPacket) (hrs : cfg.rsSa = 0x20)
    (hs : st.phase ≠ .start) (hc : st.phase ≠ .closed)
    (hp : parseLan d = some p) (hv : p.ver = 6) (hcl : p.cls = 7) (hl : p.len = data.length + 7)
    (hpl : p.payload = ipmbEncode (hdrOf cfg c cmd) data) :
    step md5 b st d = handle md5 b st p (reqOf (hdrOf cfg c cmd) data) :=
  step_parsed md5 b st d p _ hs hc hp hv hcl (by rw [hl, hpl, ipmbEncode_length])
    (by rw [hpl]; exact parseIpmiReq_encode _ _ (by simp [hdrOf]) (by simp [hdrOf]))
    (by simp [reqOf, hdrOf, hrs, bmcAddr])

/-- Get Channel Authentication Capabilities: sent outside any session, accepted, answered with
the capability byte -/
theorem bmc_authCap (md5 : List Nat → List Nat) (hmd5 : ∀ x, (md5 x).length = 16)
    (b : BmcCfg) (cfg : Cfg) (conf : Conforming b cfg) (st : BmcState) (c : Client)
    (hph : st.phase = .pinged) (hat : c.attached = false) :
    ∃ d p, txStep md5 cfg c 6 0 56 [0x0e, cfg.priv % 16] =
        ({ c with rqSeq := (c.rqSeq + 1) % 64 }, hdrOf cfg c 56, .ok d) ∧
      parseLan d = some p ∧ p.auth = 0 ∧ p.sid = 0 ∧ p.seq = 0 ∧
      parseIpmiReq p.payload = some (reqOf (hdrOf cfg c 56) [0x0e, cfg.priv % 16]) ∧
      step md5 b st d = ({ st with phase := .capsSent },
        .reply (lanPacket md5 0 [] 0 0 (ipmiRsp (reqOf (hdrOf cfg c 56) [0x0e, cfg.priv % 16]) 0
          [1, b.caps % 64, 0, 0, 0, 0, 0, 0]))) ∧
      rxStep cfg (hdrOf cfg c 56) (some (lanPacket md5 0 [] 0 0
        (ipmiRsp (reqOf (hdrOf cfg c 56) [0x0e, cfg.priv % 16]) 0 [1, b.caps % 64, 0, 0, 0, 0, 0, 0]))) =
        .ok [0, 1, b.caps % 64, 0, 0, 0, 0, 0, 0] := by
  obtain ⟨d, h1, h2⟩ := tx_unattached' md5 cfg c 56 [0x0e, cfg.priv % 16] hat (by simp)
  refine ⟨d, _, h1, h2, rfl, rfl, rfl, ?_, ?_, ?_⟩
  · exact parseIpmiReq_encode _ _ (by simp [hdrOf]) (by simp [hdrOf])
  · rw [step_client md5 b cfg st c 56 _ d _ conf.rsSa (by simp [hph]) (by simp [hph]) h2 rfl rfl rfl rfl]
    have hp : cfg.priv % 16 % 16 = b.priv := by rw [conf.priv]; have := conf.privLt; omega
    simp [handle, hph, reqOf, hdrOf, Spec.BmcSession.netfnApp, Spec.BmcSession.cmdGetAuthCap, hp]
  · exact rxStep_reply md5 hmd5 cfg _ _ 0 [] 0 0 0 _ (Or.inl rfl) (by simp) (by decide) (by decide) rfl
      (by simp [hdrOf]) (by simp [hdrOf]) (by simp [hdrOf, cmdSendMessage])

/-- Get Session Challenge: sent outside any session, names the chosen authentication type and
the configured user; answered with the temporary session id and the challenge -/
theorem bmc_challenge (md5 : List Nat → List Nat) (hmd5 : ∀ x, (md5 x).length = 16)
    (b : BmcCfg) (cfg : Cfg) (conf : Conforming b cfg) (st : BmcState) (c : Client) (a : Nat)
    (ha : a = 0 ∨ a = 4 ∨ a = 2) (hoff : offered b.caps a = true)
    (hph : st.phase = .capsSent) (hat : c.attached = false) :
    ∃ d p, txStep md5 cfg c 6 0 57 ([a % 16] ++ userField cfg.user) =
        ({ c with rqSeq := (c.rqSeq + 1) % 64 }, hdrOf cfg c 57, .ok d) ∧
      parseLan d = some p ∧ p.auth = 0 ∧ p.sid = 0 ∧ p.seq = 0 ∧
      parseIpmiReq p.payload = some (reqOf (hdrOf cfg c 57) (a :: pad16 cfg.user)) ∧
      step md5 b st d = ({ st with phase := .challenged a },
        .reply (lanPacket md5 0 [] 0 0 (ipmiRsp (reqOf (hdrOf cfg c 57) (a :: pad16 cfg.user)) 0
          (leBytes 4 b.tempSid ++ b.challenge)))) ∧
      rxStep cfg (hdrOf cfg c 57) (some (lanPacket md5 0 [] 0 0
        (ipmiRsp (reqOf (hdrOf cfg c 57) (a :: pad16 cfg.user)) 0 (leBytes 4 b.tempSid ++ b.challenge)))) =
        .ok (0 :: (leBytes 4 b.tempSid ++ b.challenge)) := by
  have ha16 : a % 16 = a := by rcases ha with h | h | h <;> subst h <;> rfl
  have hd : [a % 16] ++ userField cfg.user = a :: pad16 cfg.user := by rw [ha16, userField_eq]; rfl
  have hul := pad16_length cfg.user conf.userLen
  rw [hd]
  obtain ⟨d, h1, h2⟩ := tx_unattached' md5 cfg c 57 (a :: pad16 cfg.user) hat (by simp [hul])
  refine ⟨d, _, h1, h2, rfl, rfl, rfl, ?_, ?_, ?_⟩
  · exact parseIpmiReq_encode _ _ (by simp [hdrOf]) (by simp [hdrOf])
  · rw [step_client md5 b cfg st c 57 _ d _ conf.rsSa (by simp [hph]) (by simp [hph]) h2 rfl rfl rfl rfl]
    simp [handle, hph, reqOf, hdrOf, Spec.BmcSession.netfnApp, Spec.BmcSession.cmdGetChallenge, hul, ha16, hoff,
      conf.user]
  · exact rxStep_reply md5 hmd5 cfg _ _ 0 [] 0 0 0 _ (Or.inl rfl) (by simp) (by decide) (by decide) rfl
      (by simp [hdrOf]) (by simp [hdrOf]) (by simp [hdrOf, cmdSendMessage])

theorem codeOk_of (md5 : List Nat → List Nat) (pw : List Nat) (p : LanPacket) (code : Option (List Nat))
    (h : expectedCode md5 p.auth pw p.sid p.seq p.payload = some code) (hc : p.code = code) :
    codeOk md5 pw p = true := by
  simp [codeOk, h, hc]

theorem handle_activate (md5 : List Nat → List Nat) (b : BmcCfg) (st : BmcState) (p : LanPacket) (rq : IpmiReq)
    (a out : Nat) (hph : st.phase = .challenged a) (hnf : rq.netfn = 6) (hcmd : rq.cmd = 58)
    (hpa : p.auth = a) (hps : p.sid = b.tempSid) (hcode : codeOk md5 b.pw p = true)
    (hdata : rq.data = [a, b.priv] ++ b.challenge ++ leBytes 4 out) (ha16 : a % 16 = a)
    (hp : b.priv % 16 = b.priv) (hch : b.challenge.length = 16) (hout : out ≠ 0) (hlt : out < 4294967296) :
    handle md5 b st p rq = ({ st with phase := .active a none, outSeq := nextSeq out },
      .reply (lanPacket md5 a b.pw b.sid out
        (ipmiRsp rq 0 ([a] ++ leBytes 4 b.sid ++ leBytes 4 b.inSeq0 ++ [b.priv])))) := by
  have hv : leVal (leBytes 4 out) = out := leVal_leBytes 4 _ hlt
  have htk : List.take 16 (b.challenge ++ leBytes 4 out) = b.challenge := by
    rw [List.take_append_of_le_length (by simp [hch])]
    exact List.take_of_length_le (by simp [hch])
  have hdr : List.drop 16 (b.challenge ++ leBytes 4 out) = leBytes 4 out := by
    rw [← hch]; exact List.drop_left
  simp [handle, hph, hnf, hcmd, hpa, hps, hcode, hdata, Spec.BmcSession.netfnApp, Spec.BmcSession.cmdActivate,
    hch, ha16, hp, htk, hdr, hv, hout]

/-- Activate Session: sent under the temporary session id with the chosen authentication type,
echoes the challenge, asks for the configured privilege level; the BMC grants the session -/
theorem bmc_activate (md5 : List Nat → List Nat) (hmd5 : ∀ x, (md5 x).length = 16)
    (b : BmcCfg) (cfg : Cfg) (conf : Conforming b cfg) (st : BmcState) (c : Client) (a : Nat)
    (ha : a = 0 ∨ a = 4 ∨ a = 2) (hph : st.phase = .challenged a) (hat : c.attached = true)
    (hca : c.s.auth = a) (hcs : c.s.sid = b.tempSid) (hcp : c.s.pw = cfg.pw) (hcq : c.s.seq < 4294967296) :
    ∃ d p, txStep md5 cfg c 6 0 58 ([c.s.auth % 16, cfg.priv % 16] ++ b.challenge ++ leBytes 4 cfg.outSeq) =
        ({ c with rqSeq := (c.rqSeq + 1) % 64, s := { c.s with seq := carriedSeq c.s } }, hdrOf cfg c 58, .ok d) ∧
      parseLan d = some p ∧ p.auth = a ∧ p.sid = b.tempSid ∧ codeOk md5 cfg.pw p = true ∧
      parseIpmiReq p.payload = some (reqOf (hdrOf cfg c 58)
        ([a, cfg.priv] ++ b.challenge ++ leBytes 4 cfg.outSeq)) ∧
      step md5 b st d = ({ st with phase := .active a none, outSeq := nextSeq cfg.outSeq },
        .reply (lanPacket md5 a b.pw b.sid cfg.outSeq
          (ipmiRsp (reqOf (hdrOf cfg c 58) ([a, cfg.priv] ++ b.challenge ++ leBytes 4 cfg.outSeq)) 0
            ([a] ++ leBytes 4 b.sid ++ leBytes 4 b.inSeq0 ++ [b.priv])))) ∧
      rxStep cfg (hdrOf cfg c 58) (some (lanPacket md5 a b.pw b.sid cfg.outSeq
          (ipmiRsp (reqOf (hdrOf cfg c 58) ([a, cfg.priv] ++ b.challenge ++ leBytes 4 cfg.outSeq)) 0
            ([a] ++ leBytes 4 b.sid ++ leBytes 4 b.inSeq0 ++ [b.priv])))) =
        .ok (0 :: ([a] ++ leBytes 4 b.sid ++ leBytes 4 b.inSeq0 ++ [b.priv])) := by
  have ha16 : a % 16 = a := by rcases ha with h | h | h <;> subst h <;> rfl
  have hp16 : cfg.priv % 16 = cfg.priv := Nat.mod_eq_of_lt conf.privLt
  have hd : [c.s.auth % 16, cfg.priv % 16] ++ b.challenge ++ leBytes 4 cfg.outSeq =
      [a, cfg.priv] ++ b.challenge ++ leBytes 4 cfg.outSeq := by rw [hca, ha16, hp16]
  rw [hd]
  obtain ⟨d, code, h1, h2, h3⟩ := tx_attached md5 hmd5 cfg c 58 ([a, cfg.priv] ++ b.challenge ++ leBytes 4 cfg.outSeq)
    hat (by rw [hca]; exact ha) (by rw [hcs]; exact conf.tempSid) hcq (by rw [hcp]; exact conf.pwLen)
    (by simp [conf.chalLen])
  have hcode := codeOk_of md5 cfg.pw ⟨6, 0, 255, 7, c.s.auth, carriedSeq c.s, c.s.sid, code,
    ([a, cfg.priv] ++ b.challenge ++ leBytes 4 cfg.outSeq).length + 7,
    ipmbEncode (hdrOf cfg c 58) ([a, cfg.priv] ++ b.challenge ++ leBytes 4 cfg.outSeq)⟩ code
    (by rw [← hcp]; exact h2) rfl
  refine ⟨d, _, h1, h3, hca, hcs, hcode, ?_, ?_, ?_⟩
  · exact parseIpmiReq_encode _ _ (by simp [hdrOf]) (by simp [hdrOf])
  · rw [step_client md5 b cfg st c 58 _ d _ conf.rsSa (by simp [hph]) (by simp [hph]) h3 rfl rfl rfl rfl]
    exact handle_activate md5 b st _ _ a cfg.outSeq hph rfl rfl hca hcs (by rw [conf.pw]; exact hcode)
      (by simp [reqOf, conf.priv]) ha16 (by rw [conf.priv]; exact hp16) conf.chalLen conf.outSeqPos conf.outSeqLt
  · exact rxStep_reply md5 hmd5 cfg _ _ a b.pw b.sid cfg.outSeq 0 _ ha (by rw [conf.pw]; exact conf.pwLen)
      conf.sid conf.outSeqLt rfl (by simp [hdrOf]) (by simp [hdrOf]) (by simp [hdrOf, cmdSendMessage])

/-! ### inside the session -/

theorem handle_active (md5 : List Nat → List Nat) (b : BmcCfg) (st : BmcState) (p : LanPacket) (rq : IpmiReq)
    (a : Nat) (last : Option Nat) (hph : st.phase = .active a last)
    (hpa : p.auth = a) (hps : p.sid = b.sid) (hcode : codeOk md5 b.pw p = true) (hz : p.seq ≠ 0)
    (hseq : match last with
      | none => inWindow b.inSeq0 p.seq = true
      | some l => p.seq = nextSeq l) :
    handle md5 b st p rq = inSession md5 b st a p.seq rq := by
  cases last with
  | none => simp at hseq; simp [handle, hph, hpa, hps, hcode, hz, hseq]
  | some l => simp at hseq; simp [handle, hph, hpa, hps, hcode, hseq, nextSeq_ne_zero]

theorem inSession_setPriv (md5 : List Nat → List Nat) (b : BmcCfg) (st : BmcState) (a seq lvl : Nat) (rq : IpmiReq)
    (hnf : rq.netfn = 6) (hcmd : rq.cmd = 59) (hdata : rq.data = [lvl]) :
    inSession md5 b st a seq rq = ({ st with phase := .active a (some seq), outSeq := nextSeq st.outSeq },
      .reply (lanPacket md5 a b.pw b.sid st.outSeq (ipmiRsp rq 0 [lvl % 16]))) := by
  simp [inSession, hnf, hcmd, hdata, Spec.BmcSession.netfnApp, Spec.BmcSession.cmdClose, Spec.BmcSession.cmdSetPriv]

theorem inSession_getDeviceId (md5 : List Nat → List Nat) (b : BmcCfg) (st : BmcState) (a seq : Nat) (rq : IpmiReq)
    (hnf : rq.netfn = 6) (hcmd : rq.cmd = 1) :
    inSession md5 b st a seq rq = ({ st with phase := .active a (some seq), outSeq := nextSeq st.outSeq },
      .reply (lanPacket md5 a b.pw b.sid st.outSeq (ipmiRsp rq 0 deviceIdData))) := by
  simp [inSession, hnf, hcmd, Spec.BmcSession.netfnApp, Spec.BmcSession.cmdClose, Spec.BmcSession.cmdSetPriv,
    Spec.BmcSession.cmdGetDeviceId]

theorem inSession_close (md5 : List Nat → List Nat) (b : BmcCfg) (st : BmcState) (a seq : Nat) (rq : IpmiReq)
    (hnf : rq.netfn = 6) (hcmd : rq.cmd = 60) (hdata : rq.data = leBytes 4 b.sid) :
    inSession md5 b st a seq rq = ({ st with phase := .closed, outSeq := nextSeq st.outSeq },
      .reply (lanPacket md5 a b.pw b.sid st.outSeq (ipmiRsp rq 0 []))) := by
  simp [inSession, hnf, hcmd, hdata, Spec.BmcSession.netfnApp, Spec.BmcSession.cmdClose]

/-- The session is up: BMC in phase `active a last`, the client's session object activated with
the granted id, and the client's stored sequence number is the last one the BMC accepted (the
assigned initial value when none was sent yet). -/
structure Live (b : BmcCfg) (cfg : Cfg) (a : Nat) (last : Option Nat) (st : BmcState) (c : Client) : Prop where
  phase : st.phase = .active a last
  outSeq : st.outSeq < 4294967296
  attached : c.attached = true
  auth : c.s.auth = a
  sid : c.s.sid = b.sid
  act : c.s.activated = true
  pw : c.s.pw = cfg.pw
  seq : c.s.seq = last.getD b.inSeq0
  seqLt : c.s.seq < 4294967296

/-- any request inside the session: the datagram carries the chosen authentication type, the
granted session id, the successor of the stored sequence number and a valid authentication code;
the BMC accepts the header -/
theorem bmc_inSession (md5 : List Nat → List Nat) (hmd5 : ∀ x, (md5 x).length = 16)
    (b : BmcCfg) (cfg : Cfg) (conf : Conforming b cfg) (st : BmcState) (c : Client) (a : Nat) (last : Option Nat)
    (ha : a = 0 ∨ a = 4 ∨ a = 2) (live : Live b cfg a last st c) (cmd : Nat) (data : List Nat)
    (hlen : data.length + 7 ≤ 255) :
    ∃ d p, txStep md5 cfg c 6 0 cmd data =
        ({ c with rqSeq := (c.rqSeq + 1) % 64, s := { c.s with seq := nextSeq c.s.seq } }, hdrOf cfg c cmd, .ok d) ∧
      parseLan d = some p ∧ p.auth = a ∧ p.sid = b.sid ∧ p.seq = nextSeq c.s.seq ∧ codeOk md5 cfg.pw p = true ∧
      parseIpmiReq p.payload = some (reqOf (hdrOf cfg c cmd) data) ∧
      step md5 b st d = inSession md5 b st a (nextSeq c.s.seq) (reqOf (hdrOf cfg c cmd) data) := by
  obtain ⟨d, code, h1, h2, h3⟩ := tx_attached md5 hmd5 cfg c cmd data live.attached (by rw [live.auth]; exact ha)
    (by rw [live.sid]; exact conf.sid) live.seqLt (by rw [live.pw]; exact conf.pwLen) hlen
  have hcs : carriedSeq c.s = nextSeq c.s.seq := by
    simp [carriedSeq, live.act, incSeq_eq_nextSeq _ live.seqLt]
  rw [hcs] at h1 h2 h3
  have hcode := codeOk_of md5 cfg.pw ⟨6, 0, 255, 7, c.s.auth, nextSeq c.s.seq, c.s.sid, code,
    data.length + 7, ipmbEncode (hdrOf cfg c cmd) data⟩ code (by rw [← live.pw]; exact h2) rfl
  refine ⟨d, _, h1, h3, live.auth, live.sid, rfl, hcode, ?_, ?_⟩
  · exact parseIpmiReq_encode _ _ (by simp [hdrOf]) (by simp [hdrOf])
  · rw [step_client md5 b cfg st c cmd _ d _ conf.rsSa (by simp [live.phase]) (by simp [live.phase]) h3 rfl rfl rfl rfl]
    refine handle_active md5 b st _ _ a last live.phase live.auth live.sid (by rw [conf.pw]; exact hcode)
      (nextSeq_ne_zero _) ?_
    cases last with
    | none => have := live.seq; simp at this; simp [this, inWindow_next]
    | some l => have := live.seq; simp at this; simp [this]

/-! ### peers that relay the reference BMC

The theorems are about any peer `P` whose state projects (`π`) onto a state of the reference BMC
that it advances with every datagram; where it also hands on the BMC's answer unchanged
(`Answers`), the exchange goes as with the BMC itself.  The BMC itself is the instance
`π = id`; a BMC with a fault injected at one datagram is another one. -/

section relay
variable {σ : Type} (md5 : List Nat → List Nat) (b : BmcCfg) (P : σ → List Nat → σ × Option (List Nat))
  (π : σ → BmcState)

/-- `P` keeps a reference BMC up to date -/
def Tracks : Prop := ∀ s d, π (P s d).1 = (peer md5 b (π s) d).1

/-- in state `s`, `P` hands on the answer of the reference BMC -/
def Answers (s : σ) : Prop := ∀ d, (P s d).2 = (peer md5 b (π s) d).2

/-- `P` hands on the BMC's answers to the next `n` datagrams, whatever they are -/
def AnswersFor : Nat → σ → Prop
  | 0, _ => True
  | n + 1, s => Answers md5 b P π s ∧ ∀ d, AnswersFor n (P s d).1

variable {md5 b P π}

theorem AnswersFor.mono {n m : Nat} (h : m ≤ n) : ∀ {s : σ}, AnswersFor md5 b P π n s → AnswersFor md5 b P π m s := by
  induction m generalizing n with
  | zero => intro _ _; trivial
  | succ m ih =>
    intro s hs
    cases n with
    | zero => omega
    | succ n => exact ⟨hs.1, fun d => ih (by omega) (hs.2 d)⟩

theorem relay_reply (ht : Tracks md5 b P π) (s : σ) (ha : Answers md5 b P π s) (d r : List Nat) (st' : BmcState)
    (h : step md5 b (π s) d = (st', .reply r)) : π (P s d).1 = st' ∧ (P s d).2 = some r := by
  have h1 := ht s d
  have h2 := ha d
  simp only [peer, h] at h1 h2
  exact ⟨h1, h2⟩

theorem peer_fst (st : BmcState) (d : List Nat) : (peer md5 b st d).1 = (step md5 b st d).1 := by
  unfold peer; split <;> simp_all

theorem tracks_step (ht : Tracks md5 b P π) (s : σ) (d : List Nat) : π (P s d).1 = (step md5 b (π s) d).1 := by
  rw [ht s d, peer_fst]

/-- the reference BMC itself -/
theorem tracks_self : Tracks md5 b (peer md5 b) id := fun _ _ => rfl

theorem answersFor_self (n : Nat) (st : BmcState) : AnswersFor md5 b (peer md5 b) id n st := by
  induction n generalizing st with
  | zero => trivial
  | succ n ih => exact ⟨fun _ => rfl, fun d => ih _⟩

end relay

/-! ### what the monitor says about a list of datagrams -/

/-- running the monitor from `st` over `ds` flags nothing and ends in `st'` -/
def Accepts (md5 : List Nat → List Nat) (b : BmcCfg) (st : BmcState) (ds : List (List Nat)) (st' : BmcState) : Prop :=
  run md5 b st ds = st' ∧ (verdicts md5 b st ds).all Verdict.isReply = true

theorem Accepts.nil (md5 : List Nat → List Nat) (b : BmcCfg) (st : BmcState) : Accepts md5 b st [] st := ⟨rfl, rfl⟩

theorem Accepts.one {md5 : List Nat → List Nat} {b : BmcCfg} {st : BmcState} {d : List Nat}
    (h : (step md5 b st d).2.isReply = true) : Accepts md5 b st [d] (step md5 b st d).1 :=
  ⟨rfl, by simp [verdicts, h]⟩

theorem Accepts.append {md5 : List Nat → List Nat} {b : BmcCfg} {st st' st'' : BmcState} {l1 l2 : List (List Nat)}
    (h1 : Accepts md5 b st l1 st') (h2 : Accepts md5 b st' l2 st'') : Accepts md5 b st (l1 ++ l2) st'' := by
  induction l1 generalizing st with
  | nil => obtain ⟨e, _⟩ := h1; simp [run] at e; subst e; exact h2
  | cons d ds ih =>
    obtain ⟨e1, e2⟩ := h1
    simp only [run, verdicts, List.all_cons, Bool.and_eq_true] at e1 e2
    have := ih ⟨e1, e2.2⟩
    exact ⟨by simpa [run] using this.1, by simp [verdicts, e2.1, this.2]⟩

/-! ### session packets -/

/-- `d` is a packet of the session: authentication type `a`, session id `sid`, session sequence
number `seq`, and the authentication code those values demand -/
def SessionPacket (md5 : List Nat → List Nat) (pw : List Nat) (a sid seq : Nat) (d : List Nat) : Prop :=
  ∃ p, parseLan d = some p ∧ p.auth = a ∧ p.sid = sid ∧ p.seq = seq ∧ codeOk md5 pw p = true

/-- `d` is a packet outside any session: authentication type none, session id 0, sequence number 0 -/
def OutsideSession (d : List Nat) : Prop :=
  ∃ p, parseLan d = some p ∧ p.auth = 0 ∧ p.sid = 0 ∧ p.seq = 0

/-- `d` carries the IPMI request `cmd` (NetFn App) with these data bytes, addressed to the BMC -/
def Carries (d : List Nat) (cmd : Nat) (data : List Nat) : Prop :=
  ∃ p rq, parseLan d = some p ∧ parseIpmiReq p.payload = some rq ∧ rq.rsAddr = 0x20 ∧ rq.netfn = 6 ∧
    rq.cmd = cmd ∧ rq.data = data

/-- the sequence number `n` datagrams after `s` -/
def seqAfter : Nat → Nat → Nat
  | 0, s => s
  | n + 1, s => seqAfter n (nextSeq s)

/-- every datagram of `ds` is a session packet whose sequence number is the successor
(`nextSeq`: +1, FFFFFFFFh is followed by 1) of the previous one's, the first one's of `s` -/
def Chain (md5 : List Nat → List Nat) (pw : List Nat) (a sid : Nat) : Nat → List (List Nat) → Prop
  | _, [] => True
  | s, d :: ds => SessionPacket md5 pw a sid (nextSeq s) d ∧ Chain md5 pw a sid (nextSeq s) ds

theorem Chain.append {md5 : List Nat → List Nat} {pw : List Nat} {a sid : Nat} {l1 l2 : List (List Nat)} {s : Nat}
    (h1 : Chain md5 pw a sid s l1) (h2 : Chain md5 pw a sid (seqAfter l1.length s) l2) :
    Chain md5 pw a sid s (l1 ++ l2) := by
  induction l1 generalizing s with
  | nil => simpa [seqAfter] using h2
  | cons d ds ih => exact ⟨h1.1, ih h1.2 (by simpa [seqAfter] using h2)⟩

theorem Chain.get {md5 : List Nat → List Nat} {pw : List Nat} {a sid : Nat} {l : List (List Nat)} {s : Nat}
    (h : Chain md5 pw a sid s l) (i : Nat) (hi : i < l.length) :
    SessionPacket md5 pw a sid (seqAfter (i + 1) s) l[i] := by
  induction l generalizing s i with
  | nil => simp at hi
  | cons d ds ih =>
    cases i with
    | zero => simpa [seqAfter] using h.1
    | succ i => simpa [seqAfter] using ih h.2 i (by simpa using hi)

theorem seqAfter_succ (n s : Nat) : seqAfter (n + 1) s = nextSeq (seqAfter n s) := by
  induction n generalizing s with
  | zero => rfl
  | succ n ih => simp only [seqAfter] at ih ⊢; rw [ih]

end PyIpmi.Session
