/- C07 refinement lemmas, family 4: user names, access, passwords (pyipmi/messaging.py). -/
import PyIpmi.Lemmas.ApiBase
namespace PyIpmi.Lemmas.Api
open PyIpmi PyIpmi.Codec PyIpmi.Spec.Bmc PyIpmi.Model.Api PyIpmi.Gen.Tables

set_option maxRecDepth 4000
set_option linter.unusedSimpArgs false

theorem ljust16_eq_padTo (l : List Nat) (h : l.length ≤ 16) : ljust16 l = padTo 16 l := by
  unfold ljust16 padTo
  have : l ++ List.replicate 16 0 = (l ++ List.replicate (16 - l.length) 0) ++ List.replicate l.length 0 := by
    rw [List.append_assoc, List.replicate_append_replicate]; congr 2; omega
  rw [this, List.take_left' (by simp; omega)]

theorem ljust16_length (l : List Nat) (h : l.length ≤ 16) : (ljust16 l).length = 16 := by
  simp [ljust16]; omega

theorem withUser_zero (s : BmcState) (k : BmcState × Result) : present (withUser 0 s k) = (s, .ccError 0xcc) := by
  simp [withUser, present, Result.toOutcome, ccInvalidField]

theorem withUser_pos (uid : Nat) (s : BmcState) (s' : BmcState) (h0 : uid ≠ 0) (h : uid < 64) :
    present (withUser uid s (s', .unit)) = (s', .ok .unit) := by
  have : uid % 64 ≠ 0 := by omega
  simp [withUser, present, Result.toOutcome, this]

theorem set_username_refines (uid : Nat) (name : List Nat) (s : BmcState) (h2 : uid < 64) (h3 : name.length ≤ 16) :
    (api_set_username uid name).run s = present (withUser uid s (set_user_name uid (padTo 16 name) s, .unit)) := by
  have hl := ljust16_length name h3
  by_cases h0 : uid = 0
  · subst h0; rw [withUser_zero]
    simp [api_set_username, api_eval, bitsOf, hl]
  · have e1 : uid % 64 = uid := by omega
    rw [withUser_pos _ _ _ h0 h2]
    simp [api_set_username, api_eval, bitsOf, hl, ← ljust16_eq_padTo _ h3, *]

theorem get_username_refines (uid : Nat) (s : BmcState) (h2 : uid < 64) (hw : (get_user_name uid s).length ≤ 16) :
    (api_get_username uid).run s = present (withUser uid s (s, .bytes (get_user_name uid s))) := by
  by_cases h0 : uid = 0
  · subst h0; rw [withUser_zero]
    simp [api_get_username, api_eval, bitsOf]
  · have e1 : uid % 64 = uid := by omega
    have e2 : uid % 64 ≠ 0 := by omega
    simp [api_get_username, api_eval, bitsOf, withUser, present, Result.toOutcome, *]
    exact List.take_of_length_le hw

/-- TABLE LAW (generated CONVERT_RAW_TO_USER_PRIVILEGE): the privilege-limit codes of IPMI 22.27 map to
themselves (by meaning); every reserved code is read as "reserved" -/
theorem rawToUserPrivilege_law :
    (List.range 16).all (fun c => (lookup rawToUserPrivilege c).getD 0 == privNorm c) = true := by
  decide +kernel

theorem rawToUserPrivilege_spec (c : Nat) (h : c < 16) : (lookup rawToUserPrivilege c).getD 0 = privNorm c := by
  have := List.all_eq_true.mp rawToUserPrivilege_law c (List.mem_range.mpr h)
  simpa using this

/-- TABLE LAW (generated CONVERT_USER_PRIVILEGE_TO_RAW): every nameable privilege is sent as its own code -/
theorem userPrivilegeToRaw_law : privCodes.all (fun p => lookup userPrivilegeToRaw p == some p) = true := by
  decide +kernel

theorem userPrivilegeToRaw_spec (p : Nat) (h : p ∈ privCodes) : lookup userPrivilegeToRaw p = some p := by
  have := List.all_eq_true.mp userPrivilegeToRaw_law p h
  simpa using this

theorem privNorm_lt (c : Nat) : privNorm c < 16 := by unfold privNorm; split <;> omega
theorem privNorm_idem (c : Nat) : privNorm (privNorm c) = privNorm c := by
  unfold privNorm; split <;> simp_all

theorem get_user_access_refines (uid ch : Nat) (s : BmcState) (h2 : uid < 64) (h3 : ch < 16)
    (w1 : s.maxUsers < 64) (w2 : s.fixedNames < 64) (w3 : get_user_enabled uid s < 4) :
    (api_get_user_access uid ch).run s = present (withUser uid s (s, .userAccess (get_user_access ch uid s))) := by
  by_cases h0 : uid = 0
  · subst h0; rw [withUser_zero]
    simp [api_get_user_access, api_eval, bitsOf]
  · have e1 : uid % 64 = uid := by omega
    have e2 : uid % 64 ≠ 0 := by omega
    have e3 : ch % 16 = ch := by omega
    generalize ha : s.userAccess.getD (userKey ch uid) (dfltAccess (userKey ch uid)) = a
    have hp := privNorm_lt a.privilege
    have b1 := b2n_le a.ipmiMsg
    have b2 := b2n_le a.linkAuth
    have b3 := b2n_le a.callbackOnly
    have hc : enabledCount s % 64 < 64 := by omega
    have e4 : (privNorm a.privilege + 16 * b2n a.ipmiMsg + 32 * b2n a.linkAuth + 64 * b2n a.callbackOnly) % 16
        = privNorm a.privilege := by omega
    simp [api_get_user_access, api_eval, bitsOf, withUser, present, Result.toOutcome, fmtUserAccess, get_user_access, ha,
      e4, rawToUserPrivilege_spec _ hp, privNorm_idem, *]
    bits_close

theorem set_user_access_refines (a : UserAccessArgs) (s : BmcState) (h : (Call.setUserAccess a).InRange) :
    (api_set_user_access a).run s = present (withUser a.userId s (set_user_access a s, .unit)) := by
  obtain ⟨h1, h2, h3, h4⟩ := h
  cases a with
  | mk channel userId enableChange ipmiMsg linkAuth callbackOnly privilege sessionLimit =>
  simp at h1 h2 h3 h4 ⊢
  have b1 := b2n_le ipmiMsg
  have b2 := b2n_le linkAuth
  have b3 := b2n_le callbackOnly
  have b4 := b2n_le enableChange
  have hp : privilege < 16 := by
    simp [privCodes] at h3; omega
  have e0 : userId % 64 = userId := by omega
  by_cases h0 : userId = 0
  · subst h0; rw [withUser_zero]
    simp [api_set_user_access, api_eval, bitsOf, parseUserAccess, userPrivilegeToRaw_spec _ h3]
  · rw [withUser_pos _ _ _ h0 h1]
    simp [api_set_user_access, api_eval, bitsOf, parseUserAccess, userPrivilegeToRaw_spec _ h3, e0, h0]
    congr 1
    simp
    bits_close

theorem set_user_password_refines (uid : Nat) (pw : List Nat) (s : BmcState) (h2 : uid < 64) (h3 : pw.length ≤ 16) :
    (api_set_user_password uid pw).run s = present (withUser uid s (set_user_password uid (padTo 16 pw) s, .unit)) := by
  have hl := ljust16_length pw h3
  unfold api_set_user_password
  rw [if_neg (by omega)]
  by_cases h0 : uid = 0
  · subst h0; rw [withUser_zero]
    simp [setPasswordOp, api_eval, bitsOf, bitOf, hl]
  · have e1 : uid % 64 = uid := by omega
    have e2 : uid / 128 = 0 := by omega
    have e3 : uid % 256 = uid := by omega
    rw [withUser_pos _ _ _ h0 h2]
    simp [setPasswordOp, api_eval, bitsOf, bitOf, hl, ← ljust16_eq_padTo _ h3, *]

theorem enable_user_refines (uid : Nat) (s : BmcState) (h2 : uid < 64) :
    (api_enable_user uid).run s = present (withUser uid s (set_user_enabled uid true s, .unit)) := by
  by_cases h0 : uid = 0
  · subst h0; rw [withUser_zero]
    simp [api_enable_user, setPasswordOp, api_eval, bitsOf, bitOf]
  · have e1 : uid % 64 = uid := by omega
    rw [withUser_pos _ _ _ h0 h2]
    simp [api_enable_user, setPasswordOp, api_eval, bitsOf, bitOf, *]

theorem disable_user_refines (uid : Nat) (s : BmcState) (h2 : uid < 64) :
    (api_disable_user uid).run s = present (withUser uid s (set_user_enabled uid false s, .unit)) := by
  by_cases h0 : uid = 0
  · subst h0; rw [withUser_zero]
    simp [api_disable_user, setPasswordOp, api_eval, bitsOf, bitOf]
  · have e1 : uid % 64 = uid := by omega
    rw [withUser_pos _ _ _ h0 h2]
    simp [api_disable_user, setPasswordOp, api_eval, bitsOf, bitOf, *]

end PyIpmi.Lemmas.Api
