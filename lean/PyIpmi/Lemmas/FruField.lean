/-
  Type/length fields: decoding the encoding of a well-formed field gives its view.
  (BCD plus and 6-bit round trips by induction over groups; the bit-level steps come from
  Lemmas/FruBits.)  Core only.
-/
import PyIpmi.Lemmas.FruBits
namespace PyIpmi.Fru
open PyIpmi PyIpmi.Gen

/-! ### BCD plus -/

theorem packBcd_length (ds : List Nat) : (packBcd ds).length = ds.length / 2 := by
  fun_induction packBcd ds with
  | case1 a b rest ih => simp [ih]; omega
  | case2 ds h =>
    match ds with
    | [] => rfl
    | [a] => simp
    | a :: b :: rest => exact absurd rfl (h a b rest)

theorem bcdDecode_packBcd (ds : List Nat) (h : ∀ d ∈ ds, d < 13) (he : ds.length % 2 = 0) :
    bcdDecode (packBcd ds) = some (ds.map bcdChar) := by
  fun_induction packBcd ds with
  | case1 a b rest ih =>
    have ha : a < 13 := h a (by simp)
    have hb : b < 13 := h b (by simp)
    have hr : ∀ d ∈ rest, d < 13 := fun d hd => h d (by simp [hd])
    have := bcd_byte a b ha hb
    simp only [List.length_cons] at he
    simp [bcdDecode, this.1, this.2, ih hr (by omega)]
  | case2 ds hne =>
    match ds with
    | [] => rfl
    | [a] => simp at he
    | a :: b :: rest => exact absurd rfl (hne a b rest)

/-! ### 6-bit ASCII -/

theorem pack6_length (cs : List Nat) : (pack6 cs).length = (cs.length * 6 + 7) / 8 := by
  fun_induction pack6 cs with
  | case1 => rfl
  | case2 a => simp
  | case3 a b => simp
  | case4 a b c => simp
  | case5 a b c d rest ih => simp [ih]; omega

theorem pack6_bytes (cs : List Nat) (h : ∀ c ∈ cs, c < 64) : Bytes (pack6 cs) := by
  fun_induction pack6 cs with
  | case1 => exact Bytes.nil
  | case2 a =>
    have := h a (by simp)
    exact Bytes.cons (by omega) Bytes.nil
  | case3 a b =>
    have := h a (by simp); have := h b (by simp)
    exact Bytes.cons (by omega) (Bytes.cons (by omega) Bytes.nil)
  | case4 a b c =>
    have := h a (by simp); have := h b (by simp); have := h c (by simp)
    exact Bytes.cons (by omega) (Bytes.cons (by omega) (Bytes.cons (by omega) Bytes.nil))
  | case5 a b c d rest ih =>
    have := h a (by simp); have := h b (by simp); have := h c (by simp); have := h d (by simp)
    exact Bytes.cons (by omega) (Bytes.cons (by omega) (Bytes.cons (by omega)
      (ih fun x hx => h x (by simp [hx]))))

/-- text reported for a 6-bit field: the characters, plus one space when three characters leave
six unused bits in the last group -/
def sixText (cs : List Nat) : List Nat :=
  (cs ++ (if cs.length % 4 = 3 then [0] else [])).map (0x20 + ·)

theorem unpack6_pack6 (strict : Bool) (cs : List Nat) (h : ∀ c ∈ cs, c < 64)
    (hs : strict = true → (pack6 cs).length % 3 = 0) :
    unpack6 strict (pack6 cs) = some (sixText cs) := by
  fun_induction pack6 cs with
  | case1 => simp [unpack6, sixText]
  | case2 a =>
    have ha := h a (by simp)
    cases strict with
    | true => simp at hs
    | false =>
      simp only [unpack6]
      rw [sixGroup1 a (by omega)]
      simp [sixText]; omega
  | case3 a b =>
    have ha := h a (by simp); have hb := h b (by simp)
    cases strict with
    | true => simp at hs
    | false =>
      simp only [unpack6]
      rw [sixGroup2 _ _ (by omega) (by omega)]
      simp [sixText]; omega
  | case4 a b c =>
    have ha := h a (by simp); have hb := h b (by simp); have hc := h c (by simp)
    simp only [unpack6]
    rw [sixGroup3 _ _ _ _ (by omega) (by omega) (by omega)]
    simp [sixText]; omega
  | case5 a b c d rest ih =>
    have ha := h a (by simp); have hb := h b (by simp); have hc := h c (by simp)
    have hd := h d (by simp)
    have hr : ∀ x ∈ rest, x < 64 := fun x hx => h x (by simp [hx])
    have hs' : strict = true → (pack6 rest).length % 3 = 0 := by
      intro h1; have := hs h1; simp at this; omega
    simp only [unpack6]
    rw [sixGroup3 _ _ _ _ (by omega) (by omega) (by omega), ih hr hs']
    have e1 : (rest.length + 1 + 1 + 1 + 1) % 4 = rest.length % 4 := by omega
    simp [sixText, e1]; omega

/-! ### whole field -/

/-- the variant/input kind does not stand in the way of this field (always true for the
repaired parser) -/
def Field.okFor (v : Variant) (k : InputKind) : Field → Bool
  | .bcdPlus _ => !(v.bcdBytesOnly && k != .bytes)
  | .ascii6 cs => !v.sixStrict || (pack6 cs).length % 3 == 0
  | _ => true

theorem Field.okFor_intended (k : InputKind) (f : Field) : f.okFor .intended k = true := by
  cases f <;> simp [Field.okFor, Variant.intended]

theorem Field.payload_le (f : Field) (h : f.wf = true) : f.payload.length ≤ 63 := by
  cases f with
  | binary bs => simp [Field.wf] at h; exact h.2
  | bcdPlus ds => simp [Field.wf] at h; simp [Field.payload, packBcd_length]; omega
  | ascii6 cs => simp [Field.wf] at h; simp [Field.payload, pack6_length]; omega
  | text8 bs => simp [Field.wf] at h; exact h.1.2

theorem Field.typeCode_lt (f : Field) : f.typeCode < 4 := by
  cases f <;> simp [Field.typeCode]

theorem packBcd_bytes (ds : List Nat) (h1 : ∀ d ∈ ds, d < 13) : Bytes (packBcd ds) := by
  fun_induction packBcd ds with
  | case1 a b rest ih =>
    have := h1 a (by simp); have := h1 b (by simp)
    exact Bytes.cons (by omega) (ih fun x hx => h1 x (by simp [hx]))
  | case2 ds _ => exact Bytes.nil

theorem Field.payload_bytes (f : Field) (h : f.wf = true) : Bytes f.payload := by
  cases f with
  | binary bs => simp [Field.wf] at h; exact (isBytes_iff _).mp h.1
  | bcdPlus ds => simp [Field.wf] at h; exact packBcd_bytes ds h.1.1
  | ascii6 cs => simp [Field.wf] at h; exact pack6_bytes cs h.1
  | text8 bs => simp [Field.wf] at h; exact (isBytes_iff _).mp h.1.1

theorem encodeField_length (f : Field) : (encodeField f).length = f.payload.length + 1 := by
  simp [encodeField]

theorem encodeField_bytes (f : Field) (h : f.wf = true) : Bytes (encodeField f) := by
  have := f.payload_le h
  have := f.typeCode_lt
  exact Bytes.cons (by omega) (f.payload_bytes h)

/-- the first byte of an encoded well-formed field is never the end-of-fields marker -/
theorem encodeField_head_ne (f : Field) (h : f.wf = true) :
    f.typeCode * 64 + f.payload.length ≠ 0xC1 := by
  have hl := f.payload_le h
  cases f with
  | binary bs => simp only [Field.typeCode, Field.payload] at *; omega
  | bcdPlus ds => simp only [Field.typeCode] at *; omega
  | ascii6 cs => simp only [Field.typeCode] at *; omega
  | text8 bs => simp [Field.wf] at h; simp only [Field.typeCode, Field.payload] at *; omega

theorem tlString_encode (v : Variant) (k : InputKind) (f : Field) (rest : List Nat)
    (hwf : f.wf = true) (hok : f.okFor v k = true) :
    tlString v k (encodeField f ++ rest) = .ok (viewField f) := by
  have hl := f.payload_le hwf
  have ht := f.typeCode_lt
  have hb : f.typeCode * 64 + f.payload.length < 256 := by omega
  simp only [encodeField, List.cons_append, tlString]
  rw [typeOf_byte _ hb, lenOf_byte _ hb]
  have e1 : (f.typeCode * 64 + f.payload.length) / 64 = f.typeCode := by omega
  have e2 : (f.typeCode * 64 + f.payload.length) % 64 = f.payload.length := by omega
  have hguard : (!v.fieldsLax && decide ((f.payload ++ rest).length < f.payload.length)) = false := by
    have : decide ((f.payload ++ rest).length < f.payload.length) = false := by simp
    rw [this]; simp
  rw [guardMask_mod, e1, e2, hguard, List.take_left']
  simp only [Bool.false_eq_true, if_false]
  · cases f with
    | binary bs => simp [Field.typeCode, type_codes.1, type_codes.2, viewField, Field.payload, Field.text]
    | text8 bs => simp [Field.typeCode, type_codes.1, type_codes.2, viewField, Field.payload, Field.text]
    | bcdPlus ds =>
      simp [Field.wf] at hwf
      simp [Field.okFor] at hok
      simp only [Field.typeCode, type_codes.1, Field.payload, if_true]
      rw [bcdDecode_packBcd ds hwf.1.1 hwf.1.2]
      have : (v.bcdBytesOnly && k != InputKind.bytes) = false := by
        cases hv : v.bcdBytesOnly <;> simp_all
      simp [this, viewField, Field.typeCode, Field.payload, Field.text]
    | ascii6 cs =>
      simp [Field.wf] at hwf
      simp [Field.okFor] at hok
      simp only [Field.typeCode, type_codes.1, type_codes.2, Field.payload]
      rw [unpack6_pack6 v.sixStrict cs hwf.1 (by
        intro hs; rcases hok with h | h
        · simp [hs] at h
        · exact h)]
      simp [viewField, Field.typeCode, Field.payload, Field.text, sixText]
  · rfl

theorem drop_encodeField (f : Field) (rest : List Nat) :
    (encodeField f ++ rest).drop ((viewField f).length + 1) = rest := by
  simp [viewField, encodeField]

end PyIpmi.Fru
