/-
  C20 — lemmas about the end of `main` (except clauses, try/finally structure), the numeric
  conversions of the handlers and the printing handlers.  Core Lean only.
-/
import PyIpmi.Model.Cli
import PyIpmi.Spec.Cli
import PyIpmi.Lemmas.CliInt
namespace PyIpmi.Cli

/-! ### exit clauses -/

theorem mem_allFailures (e : Raised) (he : e.isFailure = true) : e ∈ allFailures := by
  cases e with
  | lib c => cases c <;> decide
  | socketTimeout => decide
  | keyboardInterrupt => cases he
  | other n => cases he

theorem fmtMsg_ne_nil (c : ExitClause) (h : c.reports = true) (i : ExcInfo) : fmtMsg i c.msg ≠ [] := by
  unfold ExitClause.reports at h
  simp only [Bool.and_eq_true] at h
  cases hm : c.msg with
  | none => rw [hm] at h; simp at h
  | some m =>
    rw [hm] at h
    cases m with
    | lit s =>
      simp only [fmtMsg]
      intro hs; rw [hs] at h; simp at h
    | hex2cc pre => simp [fmtMsg]
    | reprExc pre =>
      simp only [fmtMsg]
      intro hs
      have : pre = [] := (List.append_eq_nil_iff.mp hs).1
      rw [this] at h; simp at h
    | strExc pre =>
      simp only [fmtMsg]
      intro hs
      have : pre = [] := (List.append_eq_nil_iff.mp hs).1
      rw [this] at h; simp at h

theorem status_ne_zero (c : ExitClause) (h : c.reports = true) : c.status ≠ 0 := by
  unfold ExitClause.reports at h
  simp only [Bool.and_eq_true, bne_iff_ne, ne_eq] at h
  exact h.1

/-- a reported exception ends the tool with a non-zero status and a message -/
theorem exitOf_of_reports (cl : List ExitClause) (e : Raised) (h : reportsB cl e = true) (i : ExcInfo) :
    ∃ r, exitOf cl e i = some r ∧ r.status ≠ 0 ∧ r.message ≠ [] := by
  unfold reportsB at h
  unfold exitOf
  cases hc : clauseOf cl e with
  | none => rw [hc] at h; cases h
  | some c =>
    rw [hc] at h
    exact ⟨_, rfl, status_ne_zero c h, fmtMsg_ne_nil c h i⟩

theorem exit_of_cover (cl : List ExitClause) (hc : exitsCover cl = true) (e : Raised)
    (he : e.isFailure = true) (i : ExcInfo) :
    ∃ r, exitOf cl e i = some r ∧ r.status ≠ 0 ∧ r.message ≠ [] := by
  unfold exitsCover at hc
  rw [List.all_eq_true] at hc
  exact exitOf_of_reports cl e (hc e (mem_allFailures e he)) i

theorem exit_of_wf (cl : List ExitClause) (hwf : exitsWf cl = true) (e : Raised)
    (he : e = .lib .completionCodeError ∨ e = .lib .ipmiTimeoutError) (i : ExcInfo) :
    ∃ r, exitOf cl e i = some r ∧ r.status ≠ 0 ∧ r.message ≠ [] := by
  unfold exitsWf at hwf
  simp only [Bool.and_eq_true] at hwf
  cases he with
  | inl h => subst h; exact exitOf_of_reports cl _ hwf.1 i
  | inr h => subst h; exact exitOf_of_reports cl _ hwf.2 i

/-- an exception that is not covered leaves `main` -/
theorem escapes_of_no_clause (cl : List ExitClause) (e : Raised) (i : ExcInfo)
    (h : clauseOf cl e = none) : handleExc cl e i = .raises e none := by
  unfold handleExc exitOf
  rw [h]; rfl

/-! ### the try / except / finally around the handler call -/

theorem handleExc_reported (cl : List ExitClause) (hc : exitsCover cl = true) (e : Raised)
    (he : e.isFailure = true) (i : ExcInfo) : (handleExc cl e i).reported = true := by
  obtain ⟨r, h1, h2, h3⟩ := exit_of_cover cl hc e he i
  unfold handleExc
  rw [h1]
  simp only [Ending.reported, Bool.and_eq_true, bne_iff_ne, ne_eq, Bool.not_eq_true', List.isEmpty_eq_false_iff]
  exact ⟨h2, h3⟩

/-- With `ipmi.close()` inside the try that carries the clauses and clauses that cover every failure class:
whatever fails — the session set-up, a request of the handler, the session tear-down, or several of them —
the tool ends with a message and a non-zero status. -/
theorem mainEnd_reports (cl : List ExitClause) (hc : exitsCover cl = true)
    (body close : Option (Raised × ExcInfo))
    (hb : ∀ p, body = some p → p.1.isFailure = true) (hcl : ∀ p, close = some p → p.1.isFailure = true)
    (hsome : body.isSome = true ∨ close.isSome = true) :
    (mainEnd true cl body close).reported = true := by
  unfold mainEnd
  simp only [if_true]
  cases close with
  | some p =>
    obtain ⟨f, i⟩ := p
    exact handleExc_reported cl hc f (hcl _ rfl) i
  | none =>
    cases body with
    | some p =>
      obtain ⟨e, i⟩ := p
      exact handleExc_reported cl hc e (hb _ rfl) i
    | none => simp at hsome

/-- nothing failed: `main` returns -/
theorem mainEnd_ok (b : Bool) (cl : List ExitClause) : mainEnd b cl none none = .returns := by
  unfold mainEnd; cases b <;> rfl

/-- With `finally: ipmi.close()` on the try that carries the clauses (as shipped), NO clause list helps:
a failure of the tear-down always leaves `main` as an exception — even after the message of a reported
failure has been printed. -/
theorem mainEnd_asShipped_close_escapes (cl : List ExitClause) (body : Option (Raised × ExcInfo))
    (f : Raised) (i : ExcInfo) :
    ∃ printed, mainEnd false cl body (some (f, i)) = .raises f printed := by
  unfold mainEnd
  simp only [Bool.false_eq_true, if_false]
  cases body with
  | none => exact ⟨none, rfl⟩
  | some p =>
    obtain ⟨e, j⟩ := p
    simp only
    cases exitOf cl e j with
    | none => exact ⟨none, rfl⟩
    | some r => exact ⟨some r.message, rfl⟩

/-! ### `int(s)` rejects every `0x…` literal -/

theorem pyInt10_rejects_hex (x : Nat) (hx : x = 120 ∨ x = 88) (cs : Str) : pyInt10 (48 :: x :: cs) = none := by
  rcases hx with rfl | rfl <;>
    simp [pyInt10, pyInt, dropSpaces, isSpace, pyIntBody, detect, finish, scanDigits, digitVal]

/-! ### the printing handlers -/

theorem linRaises_cases (code : Nat) (s : Sign) :
    linRaises code s = none ∨ linRaises code s = some "ValueError" ∨ linRaises code s = some "ZeroDivisionError"
      ∨ linRaises code s = some "DecodingError" := by
  unfold linRaises
  simp only
  split
  · simp
  · split
    · split <;> simp
    · split
      · split <;> simp
      · split
        · split <;> simp
        · simp

/-- a linearisation byte that names none of the twelve formulas: `lin` raises DecodingError whatever x is -/
theorem linRaises_unknown (code : Nat) (h : 12 ≤ code % 128) (s : Sign) :
    linRaises code s = some "DecodingError" := by
  unfold linRaises
  simp [h]

/-- … and a byte that names one never does -/
theorem linRaises_known (code : Nat) (h : code % 128 < 12) (s : Sign) :
    linRaises code s ≠ some "DecodingError" := by
  unfold linRaises
  have h' : ¬ 12 ≤ code % 128 := by omega
  simp only [h', if_false]
  split
  · split <;> simp
  · split
    · split <;> simp
    · split
      · split <;> simp
      · simp

theorem cellRaises_none (caught : List String) (h : catchesConversion caught = true) (code : Nat) (s : Sign) :
    cellRaises caught code s = none := by
  unfold catchesConversion catchesArithmetic catchesDecoding at h
  simp only [Bool.and_eq_true] at h
  unfold cellRaises
  rcases linRaises_cases code s with h0 | h0 | h0 | h0 <;> rw [h0]
  · simp [h.1.1]
  · simp [h.1.2]
  · simp [h.2]

/-- without a clause for DecodingError (or wider) between the conversion and `main`, EVERY reading and threshold
of a record whose linearisation is none of the twelve formulas ends the command -/
theorem cellRaises_unknown (caught : List String) (h : catchesDecoding caught = false) (code : Nat)
    (hc : 12 ≤ code % 128) (s : Sign) : cellRaises caught code s = some "DecodingError" := by
  unfold catchesDecoding at h
  unfold cellRaises
  rw [linRaises_unknown code hc s]
  simp only [h]
  rfl

def signOfSpec : Spec.Cli.Sign → Sign
  | .neg => .neg
  | .zero => .zero
  | .pos => .pos

/-- the model of `SdrFullSensorRecord.lin` raises exactly outside the domain the specification gives -/
theorem linRaises_iff_undefined :
    Spec.Cli.Lin.all.all (fun l => Spec.Cli.Sign.all.all fun s =>
      (linRaises l.code (signOfSpec s)).isNone == l.defined s) = true := by decide

/-- … over ALL 128 values of byte 24 [6:0] (reserved codes included): the conversion raises exactly where the
specification says a tool has no value to print -/
theorem linRaises_iff_noValue :
    (List.range 128).all (fun code => Spec.Cli.Sign.all.all fun s =>
      (linRaises code (signOfSpec s)).isNone == Spec.Cli.hasValue code s) = true := by decide +kernel

/-- bit 7 of byte 24 is reserved and masked off by `lin` -/
theorem linRaises_mask (code : Nat) (s : Sign) : linRaises code s = linRaises (code % 128) s := by
  unfold linRaises
  simp only [Nat.mod_mod]

end PyIpmi.Cli
