/-
  Acceptance implies the checksums the format defines.  Core only.

  * `accept_checksums`          for every variant that validates the info-area length byte
                                (`areaLenLax = false`), every byte string, every input kind: the
                                format's acceptance condition `checksumsOk` (Spec/FruFormat.lean) –
                                info-area sums over the DECLARED length, which is ≥ 1 unit and inside
                                the data
  * `accept_checksums_clamped`  for EVERY variant (the as-shipped reader included): the weaker
                                `checksumsClamped` – info-area sums over `data[:length]`, a clamped
                                and possibly empty slice.  Enough to reject every altered covered
                                byte other than an info-area length byte (Lemmas/FruAlter*).
-/
import PyIpmi.Lemmas.FruImage
namespace PyIpmi.Fru
open PyIpmi PyIpmi.Gen

theorem ok_of_bind {α β : Type} {x : Outcome α} {f : α → Outcome β} {b : β}
    (h : x.bind f = .ok b) : ∃ a, x = .ok a ∧ f a = .ok b := by
  cases x <;> simp [Outcome.bind] at h
  exact ⟨_, rfl, h⟩

/-! ### what a reader that sums the clamped slice `data[:length]` verifies -/

def areaSumClamped (d : List Nat) : Bool :=
  match d with
  | [] => true
  | _ => sum8 (d.take (8 * d.getD 1 0)) == 0

def checksumsClamped (bs : List Nat) : Bool :=
  sum8 (bs.take 8) == 0 &&
  (bs.getD 2 0 == 0 || areaSumClamped (areaAt bs 2)) &&
  (bs.getD 3 0 == 0 || areaSumClamped (areaAt bs 3)) &&
  (bs.getD 4 0 == 0 || areaSumClamped (areaAt bs 4)) &&
  (bs.getD 5 0 == 0 || multiSumOk (areaAt bs 5))

theorem areaSumOk_clamped (d : List Nat) (h : areaSumOk d = true) : areaSumClamped d = true := by
  cases d with
  | nil => rfl
  | cons x t =>
    simp only [areaSumOk, Bool.and_eq_true] at h
    simp only [areaSumClamped]
    exact h.2

theorem checksumsOk_clamped (bs : List Nat) (h : checksumsOk bs = true) : checksumsClamped bs = true := by
  simp only [checksumsOk, Bool.and_eq_true, Bool.or_eq_true] at h
  simp only [checksumsClamped, Bool.and_eq_true, Bool.or_eq_true]
  obtain ⟨⟨⟨⟨h1, h2⟩, h3⟩, h4⟩, h5⟩ := h
  exact ⟨⟨⟨⟨h1, h2.imp id (areaSumOk_clamped _)⟩, h3.imp id (areaSumOk_clamped _)⟩,
    h4.imp id (areaSumOk_clamped _)⟩, h5⟩

theorem checksumsOk_false_of_clamped (bs : List Nat) (h : checksumsClamped bs = false) :
    checksumsOk bs = false := by
  cases hc : checksumsOk bs with
  | false => rfl
  | true => rw [checksumsOk_clamped bs hc] at h; cases h

/-! ### header -/

theorem parseHeader_ok (d : List Nat) (h : HeaderView) (hp : parseHeader d = .ok h) :
    d.length = 8 ∧ d.sum % 256 = 0 ∧ h.chassisOff = d.getD 2 0 * 8 ∧ h.boardOff = d.getD 3 0 * 8 ∧
    h.productOff = d.getD 4 0 * 8 ∧ h.multiOff = d.getD 5 0 * 8 := by
  simp only [parseHeader, record_consts.2.2.2.2.2] at hp
  split at hp
  · cases hp
  · split at hp
    · cases hp
    · rename_i h1 h2
      injection hp with hp
      subst hp
      exact ⟨by omega, by omega, rfl, rfl, rfl, rfl⟩

theorem getD_take (l : List Nat) (n i : Nat) (hi : i < n) : (l.take n).getD i 0 = l.getD i 0 := by
  simp [List.getD, List.getElem?_take, hi]

/-! ### info areas -/

theorem parseArea_clamped (v : Variant) (k : InputKind) (kind : AreaKind) (d : List Nat) (s : Slot AreaView)
    (hp : parseArea v k kind d = .ok s) : areaSumClamped d = true := by
  cases d with
  | nil => rfl
  | cons b0 t =>
    simp only [parseArea] at hp
    split at hp
    · cases hp
    · split at hp
      · cases hp
      · rename_i b1 hb1
        split at hp
        · cases hp
        · split at hp
          · cases hp
          · rename_i hsum
            simp only [areaSumClamped, sum8, beq_iff_eq]
            have : (b0 :: t).getD 1 0 = b1 := by simp [List.getD, hb1]
            rw [this, Nat.mul_comm]
            omega

/-- a reader that validates the length byte: the declared length is ≥ 1 unit, lies inside the
data, and the sum over exactly that span is zero -/
theorem parseArea_ok (v : Variant) (hv : v.areaLenLax = false) (k : InputKind) (kind : AreaKind)
    (d : List Nat) (s : Slot AreaView)
    (hp : parseArea v k kind d = .ok s) : areaSumOk d = true := by
  cases d with
  | nil => rfl
  | cons b0 t =>
    simp only [parseArea] at hp
    split at hp
    · cases hp
    · split at hp
      · cases hp
      · rename_i b1 hb1
        split at hp
        · cases hp
        · rename_i hlen
          split at hp
          · cases hp
          · rename_i hsum
            have hg : (b0 :: t).getD 1 0 = b1 := by simp [List.getD, hb1]
            simp only [hv, Bool.not_false, Bool.true_and, Bool.or_eq_true, beq_iff_eq, decide_eq_true_eq,
              not_or] at hlen
            simp only [areaSumOk, sum8, Bool.and_eq_true, decide_eq_true_eq, beq_iff_eq]
            rw [hg, Nat.mul_comm]
            refine ⟨⟨by omega, by omega⟩, by omega⟩

theorem slotStep_ok {α : Type} (off : Nat) (bs : List Nat) (p : List Nat → Outcome (Slot α)) (s : Slot α)
    (h : slotStep off bs p = .ok s) : off = 0 ∨ p (bs.drop off) = .ok s := by
  unfold slotStep at h
  split at h
  · exact Or.inl ‹_›
  · exact Or.inr h

/-! ### records -/

theorem baseRecord_ok (d : List Nat) (b : RecBase) (h : baseRecord d = .ok b) :
    5 ≤ d.length ∧ (d.take 5).sum % 256 = 0 ∧
    (((d.drop 5).take (d.getD 2 0)).sum + d.getD 3 0) % 256 = 0 ∧
    b.eol = (d.getD 1 0 / 128 % 2 == 1) ∧ b.length = d.getD 2 0 := by
  simp only [baseRecord, record_consts.1] at h
  split at h
  · cases h
  · split at h
    · cases h
    · split at h
      · cases h
      · injection h with h
        subst h
        exact ⟨by omega, by omega, by omega, rfl, rfl⟩

theorem picmgRecord_ok (v : Variant) (d : List Nat) (p : PicmgRec) (h : picmgRecord v d = .ok p) :
    baseRecord d = .ok p.base := by
  simp only [picmgRecord] at h
  split at h
  · cases h
  · obtain ⟨b, hb, h⟩ := ok_of_bind h
    split at h
    · cases h
    · injection h with h
      subst h
      exact hb

theorem parseRecord_ok (v : Variant) (d : List Nat) (r : RecView) (h : parseRecord v d = .ok r) :
    ∃ b, baseRecord d = .ok b ∧ r.eol = b.eol ∧ r.length = b.length := by
  cases d with
  | nil => simp [parseRecord] at h
  | cons t tl =>
    simp only [parseRecord] at h
    split at h
    · obtain ⟨p, hp, h⟩ := ok_of_bind h
      split at h
      · split at h
        · cases h
        · obtain ⟨q, hq, h⟩ := ok_of_bind h
          split at h
          · cases h
          · injection h with h
            subst h
            exact ⟨q.base, picmgRecord_ok _ _ _ hq, rfl, rfl⟩
      · obtain ⟨q, hq, h⟩ := ok_of_bind h
        injection h with h
        subst h
        exact ⟨q.base, picmgRecord_ok _ _ _ hq, rfl, rfl⟩
    · obtain ⟨b, hb, h⟩ := ok_of_bind h
      injection h with h
      subst h
      exact ⟨b, hb, rfl, rfl⟩

theorem multiLoop_ok (v : Variant) (fuel : Nat) (d : List Nat) (rs : List RecView) (h : multiLoop v fuel d = .ok rs) :
    recordsOk fuel d = true := by
  induction fuel generalizing d rs with
  | zero => simp [multiLoop] at h
  | succ n ih =>
    simp only [multiLoop] at h
    obtain ⟨r, hr, h⟩ := ok_of_bind h
    obtain ⟨b, hb, e1, e2⟩ := parseRecord_ok v d r hr
    obtain ⟨h5, hs1, hs2, be, bl⟩ := baseRecord_ok d b hb
    simp only [recordsOk, sum8, Bool.and_eq_true, decide_eq_true_eq, beq_iff_eq, Bool.or_eq_true]
    refine ⟨⟨⟨h5, hs1⟩, hs2⟩, ?_⟩
    split at h
    · rename_i he
      left
      rw [e1, be] at he
      simpa using he
    · obtain ⟨rs', hrs, _⟩ := ok_of_bind h
      right
      rw [e2, bl] at hrs
      exact ih _ _ hrs

theorem parseMulti_ok (v : Variant) (d : List Nat) (s : Slot (List RecView)) (h : parseMulti v d = .ok s) :
    multiSumOk d = true := by
  cases d with
  | nil => rfl
  | cons x t =>
    simp only [parseMulti] at h
    obtain ⟨rs, hrs, _⟩ := ok_of_bind h
    exact multiLoop_ok _ _ _ _ hrs

/-! ### whole image -/

theorem accept_checksums_clamped (v : Variant) (k : InputKind) (bs : List Nat) (fv : FruView)
    (h : parseFru v k bs = .ok fv) : checksumsClamped bs = true := by
  cases hb : bs with
  | nil => decide
  | cons x t =>
    rw [← hb]
    rw [parseFru_ne_nil v k bs (by rw [hb]; simp)] at h
    unfold parseFruBody at h
    obtain ⟨hd, hhd, h⟩ := ok_of_bind h
    obtain ⟨c, hc, h⟩ := ok_of_bind h
    obtain ⟨b, hbd, h⟩ := ok_of_bind h
    obtain ⟨p, hpr, h⟩ := ok_of_bind h
    obtain ⟨m, hm, _⟩ := ok_of_bind h
    obtain ⟨hl, hs, o2, o3, o4, o5⟩ := parseHeader_ok _ _ hhd
    rw [getD_take _ _ _ (by omega)] at o2 o3 o4 o5
    simp only [checksumsClamped, Bool.and_eq_true, Bool.or_eq_true, beq_iff_eq, sum8, areaAt]
    refine ⟨⟨⟨⟨hs, ?_⟩, ?_⟩, ?_⟩, ?_⟩
    · rcases slotStep_ok _ _ _ _ hc with h0 | h1
      · left; omega
      · right; rw [o2, Nat.mul_comm] at h1; exact parseArea_clamped _ _ _ _ _ h1
    · rcases slotStep_ok _ _ _ _ hbd with h0 | h1
      · left; omega
      · right; rw [o3, Nat.mul_comm] at h1; exact parseArea_clamped _ _ _ _ _ h1
    · rcases slotStep_ok _ _ _ _ hpr with h0 | h1
      · left; omega
      · right; rw [o4, Nat.mul_comm] at h1; exact parseArea_clamped _ _ _ _ _ h1
    · rcases slotStep_ok _ _ _ _ hm with h0 | h1
      · left; omega
      · right; rw [o5, Nat.mul_comm] at h1; exact parseMulti_ok _ _ _ h1

theorem accept_checksums (v : Variant) (hv : v.areaLenLax = false) (k : InputKind) (bs : List Nat) (fv : FruView)
    (h : parseFru v k bs = .ok fv) : checksumsOk bs = true := by
  cases hb : bs with
  | nil => decide
  | cons x t =>
    rw [← hb]
    rw [parseFru_ne_nil v k bs (by rw [hb]; simp)] at h
    unfold parseFruBody at h
    obtain ⟨hd, hhd, h⟩ := ok_of_bind h
    obtain ⟨c, hc, h⟩ := ok_of_bind h
    obtain ⟨b, hbd, h⟩ := ok_of_bind h
    obtain ⟨p, hpr, h⟩ := ok_of_bind h
    obtain ⟨m, hm, _⟩ := ok_of_bind h
    obtain ⟨hl, hs, o2, o3, o4, o5⟩ := parseHeader_ok _ _ hhd
    rw [getD_take _ _ _ (by omega)] at o2 o3 o4 o5
    simp only [checksumsOk, Bool.and_eq_true, Bool.or_eq_true, beq_iff_eq, sum8, areaAt]
    refine ⟨⟨⟨⟨hs, ?_⟩, ?_⟩, ?_⟩, ?_⟩
    · rcases slotStep_ok _ _ _ _ hc with h0 | h1
      · left; omega
      · right; rw [o2, Nat.mul_comm] at h1; exact parseArea_ok _ hv _ _ _ _ h1
    · rcases slotStep_ok _ _ _ _ hbd with h0 | h1
      · left; omega
      · right; rw [o3, Nat.mul_comm] at h1; exact parseArea_ok _ hv _ _ _ _ h1
    · rcases slotStep_ok _ _ _ _ hpr with h0 | h1
      · left; omega
      · right; rw [o4, Nat.mul_comm] at h1; exact parseArea_ok _ hv _ _ _ _ h1
    · rcases slotStep_ok _ _ _ _ hm with h0 | h1
      · left; omega
      · right; rw [o5, Nat.mul_comm] at h1; exact parseMulti_ok _ _ _ h1

end PyIpmi.Fru
