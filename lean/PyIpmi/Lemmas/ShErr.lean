/-
  Lemmas for the error mapping of `_parse_output` on the lines ipmitool really prints
  (Spec.Ipmitool.ccLine / timeoutLine) — for EVERY channel, netfn, LUN and command number, which
  appear as hexadecimal strings of unknown length inside the `.*` of the regular expressions.

  Technique: a match of  key [0-9a-f]+ tail  at some suffix is an occurrence of a blank-free needle
  `key ++ h ++ tail`; an occurrence of a blank-free needle lies inside one blank-separated word
  (`hasInfix_sep`); each word either lacks a character of the needle or is the message text, which
  is assumed `benign` (and ipmitool's own texts are, `ccText_benign`).
-/
import PyIpmi.Lemmas.ShParse
namespace PyIpmi.Model.Ipmitool
open PyIpmi PyIpmi.Gen.Ipmitool

/-! ### prefixes, suffix search -/

theorem stripPrefix_append (p r : Str) : stripPrefix p (p ++ r) = some r := by
  induction p with
  | nil => cases r <;> rfl
  | cons a as ih => simp [stripPrefix, ih]

theorem stripPrefix_some {p t r : Str} (h : stripPrefix p t = some r) : t = p ++ r := by
  induction p generalizing t with
  | nil => cases t <;> simp [stripPrefix] at h <;> simp [h]
  | cons a as ih =>
    cases t with
    | nil => simp [stripPrefix] at h
    | cons b bs =>
      simp only [stripPrefix] at h
      split at h
      · next e => subst e; simp [ih h]
      · cases h

theorem isPrefix_append (p r : Str) : isPrefix p (p ++ r) = true := by
  induction p with
  | nil => cases r <;> rfl
  | cons a as ih => simp [isPrefix, ih]

theorem isPrefix_of_append {a b t : Str} (h : isPrefix (a ++ b) t = true) : isPrefix a t = true := by
  induction a generalizing t with
  | nil => cases t <;> rfl
  | cons x xs ih =>
    cases t with
    | nil => simp [isPrefix] at h
    | cons y ys =>
      simp only [List.cons_append, isPrefix, Bool.and_eq_true] at h ⊢
      exact ⟨h.1, ih h.2⟩

theorem anySuffix_of_tail {p : Str → Bool} (a s : Str) (h : anySuffix p s = true) :
    anySuffix p (a ++ s) = true := by
  induction a with
  | nil => exact h
  | cons c cs ih => simp [anySuffix, ih]

theorem anySuffix_self {p : Str → Bool} (s : Str) (h : p s = true) : anySuffix p s = true := by
  cases s <;> simp [anySuffix, h]

/-- a successful `p` at some suffix yields an occurrence of the needle `q h` it witnesses -/
theorem anySuffix_witness {α : Type} {p : Str → Bool} {P : α → Prop} {q : α → Str → Bool}
    (hpq : ∀ t, p t = true → ∃ h, P h ∧ q h t = true) (l : Str) (h : anySuffix p l = true) :
    ∃ x, P x ∧ anySuffix (q x) l = true := by
  induction l with
  | nil =>
    obtain ⟨x, hx, hq⟩ := hpq [] h
    exact ⟨x, hx, hq⟩
  | cons c cs ih =>
    simp only [anySuffix, Bool.or_eq_true] at h
    rcases h with h | h
    · obtain ⟨x, hx, hq⟩ := hpq _ h
      exact ⟨x, hx, by simp [anySuffix, hq]⟩
    · obtain ⟨x, hx, hq⟩ := ih h
      exact ⟨x, hx, by simp [anySuffix, hq]⟩

theorem hasInfix_of_append {a b l : Str} (h : hasInfix (a ++ b) l = true) : hasInfix a l = true := by
  induction l with
  | nil => exact isPrefix_of_append h
  | cons c cs ih =>
    simp only [hasInfix, anySuffix, Bool.or_eq_true] at h ⊢
    rcases h with h | h
    · exact Or.inl (isPrefix_of_append h)
    · exact Or.inr (ih h)

/-- a needle without the character `s` cannot reach across an `s` -/
theorem isPrefix_sep (s : Nat) (n a B : Str) (hs : s ∉ n) :
    isPrefix n (a ++ s :: B) = isPrefix n a := by
  induction n generalizing a with
  | nil => cases a <;> rfl
  | cons x xs ih =>
    have hx : x ≠ s := fun e => hs (by simp [e])
    have hxs : s ∉ xs := fun e => hs (List.mem_cons_of_mem _ e)
    cases a with
    | nil => simp [isPrefix, hx]
    | cons y ys => simp [isPrefix, ih ys hxs]

/-- … so its occurrences lie on one side of the separator -/
theorem hasInfix_sep (s : Nat) (n A B : Str) (hs : s ∉ n) (hn : n ≠ []) :
    hasInfix n (A ++ s :: B) = (hasInfix n A || hasInfix n B) := by
  induction A with
  | nil =>
    have h0 : isPrefix n (s :: B) = false := by
      have := isPrefix_sep s n [] B hs
      simp only [List.nil_append] at this
      rw [this]
      cases n with
      | nil => exact absurd rfl hn
      | cons a as => rfl
    have h1 : isPrefix n [] = false := by
      cases n with
      | nil => exact absurd rfl hn
      | cons a as => rfl
    simp [hasInfix, anySuffix, h0, h1]
  | cons c cs ih =>
    have := isPrefix_sep s n (c :: cs) B hs
    simp only [hasInfix, List.cons_append, anySuffix] at ih this ⊢
    rw [this, ih, Bool.or_assoc]

theorem lastSuffix_none_iff {α : Type} (p : Str → Option α) (l : Str) :
    lastSuffix p l = Option.none ↔ anySuffix (fun t => (p t).isSome) l = false := by
  induction l with
  | nil => simp [lastSuffix, anySuffix]
  | cons c cs ih =>
    simp only [lastSuffix, anySuffix, Bool.or_eq_false_iff]
    cases h : lastSuffix p cs with
    | none =>
      have := ih.mp h
      simp [this]
    | some r =>
      have : anySuffix (fun t => (p t).isSome) cs ≠ false := fun e => by
        have := ih.mpr e; rw [h] at this; cases this
      simp [this]

theorem lastSuffix_of_tail {α : Type} {p : Str → Option α} (a s : Str) (r : α)
    (h : lastSuffix p s = some r) : lastSuffix p (a ++ s) = some r := by
  induction a with
  | nil => exact h
  | cons c cs ih => simp [lastSuffix, ih]

/-! ### hexadecimal numbers as ipmitool prints them -/

theorem hexDigit_lower (n : Nat) (h : n < 16) : isLowerHex (Spec.Ipmitool.hexDigit n) = true := by
  unfold Spec.Ipmitool.hexDigit isLowerHex
  split <;> simp <;> omega

theorem hexAux_lower (f n : Nat) (acc : Str) (ha : ∀ c ∈ acc, isLowerHex c = true) :
    ∀ c ∈ Spec.Ipmitool.hexAux f n acc, isLowerHex c = true := by
  induction f generalizing n acc with
  | zero => exact ha
  | succ f ih =>
    simp only [Spec.Ipmitool.hexAux]
    split
    · intro c hc
      cases hc with
      | head => exact hexDigit_lower n (by omega)
      | tail _ h => exact ha c h
    · apply ih
      intro c hc
      cases hc with
      | head => exact hexDigit_lower _ (Nat.mod_lt _ (by decide))
      | tail _ h => exact ha c h

theorem hexAux_ne_nil' (f n : Nat) (acc : Str) (h : acc ≠ [] ∨ f ≠ 0) :
    Spec.Ipmitool.hexAux f n acc ≠ [] := by
  induction f generalizing n acc with
  | zero => rcases h with h | h; exact h; exact absurd rfl h
  | succ f ih =>
    simp only [Spec.Ipmitool.hexAux]
    split
    · simp
    · exact ih _ _ (Or.inl (by simp))

theorem hexL_tok (n : Nat) : HexTok (Spec.Ipmitool.hexL n) :=
  ⟨hexAux_ne_nil' _ _ _ (Or.inr (by omega)), hexAux_lower _ _ _ (by intro c hc; cases hc)⟩

theorem takeWhile_hex (h r : Str) (x : Nat) (hh : ∀ c ∈ h, isLowerHex c = true)
    (hx : isLowerHex x = false) : (h ++ x :: r).takeWhile isLowerHex = h := by
  induction h with
  | nil => simp [hx]
  | cons c cs ih =>
    simp [hh c (List.mem_cons_self), ih (fun d hd => hh d (List.mem_cons_of_mem _ hd))]

theorem dropWhile_hex (h r : Str) (x : Nat) (hh : ∀ c ∈ h, isLowerHex c = true)
    (hx : isLowerHex x = false) : (h ++ x :: r).dropWhile isLowerHex = x :: r := by
  induction h with
  | nil => simp [hx]
  | cons c cs ih =>
    simp [hh c (List.mem_cons_self), ih (fun d hd => hh d (List.mem_cons_of_mem _ hd))]

/-- `[0-9a-f]+\)` right in front of a hex string followed by ")" -/
theorem hexRunThen_hit (h r : Str) (hh : HexTok h) : hexRunThen [41] (h ++ 41 :: r) = some h := by
  simp only [hexRunThen, takeWhile_hex h r 41 hh.2 (by decide), dropWhile_hex h r 41 hh.2 (by decide)]
  simp [hh.1, isPrefix]

theorem takeWhile_all (p : Nat → Bool) (s : Str) : ∀ c ∈ s.takeWhile p, p c = true := by
  induction s with
  | nil => intro c hc; simp at hc
  | cons x xs ih =>
    intro c hc
    by_cases hx : p x = true
    · simp only [List.takeWhile_cons, hx, if_true, List.mem_cons] at hc
      rcases hc with rfl | hc
      · exact hx
      · exact ih c hc
    · simp [List.takeWhile_cons, hx] at hc

theorem isPrefix_cancel (a t b : Str) : isPrefix (a ++ t) (a ++ b) = isPrefix t b := by
  induction a with
  | nil => rfl
  | cons x xs ih => simp [isPrefix, ih]

/-- a successful run is a non-empty hex string followed by the tail -/
theorem hexRunThen_some {tail s h : Str} (e : hexRunThen tail s = some h) :
    HexTok h ∧ isPrefix (h ++ tail) s = true := by
  simp only [hexRunThen] at e
  split at e
  · next hc =>
    injection e with e
    subst e
    refine ⟨⟨hc.1, takeWhile_all _ _⟩, ?_⟩
    have := isPrefix_cancel (s.takeWhile isLowerHex) tail (s.dropWhile isLowerHex)
    rw [List.takeWhile_append_dropWhile] at this
    rw [this]
    exact hc.2
  · cases e

/-! ### the shape of ipmitool's error lines -/

/-- the four blank-separated words after "Unable to send RAW command (" -/
def w1 (ch : Nat) : Str := [99, 104, 97, 110, 110, 101, 108, 61, 48, 120] ++ Spec.Ipmitool.hexL ch
def w2 (nf : Nat) : Str := [110, 101, 116, 102, 110, 61, 48, 120] ++ Spec.Ipmitool.hexL nf
def w3 (lun : Nat) : Str := [108, 117, 110, 61, 48, 120] ++ Spec.Ipmitool.hexL lun
def w4 (cmd : Nat) : Str := toKey ++ Spec.Ipmitool.hexL cmd

theorem errHead_words (ch nf lun cmd : Nat) :
    Spec.Ipmitool.errHead ch nf lun cmd
      = toHead ++ (w1 ch ++ 32 :: (w2 nf ++ 32 :: (w3 lun ++ 32 :: w4 cmd))) := by
  simp [Spec.Ipmitool.errHead, toHead, toKey, w1, w2, w3, w4]

theorem not_mem_lit_hex (c : Nat) (lit : Str) (n : Nat) (h1 : c ∉ lit) (h2 : isLowerHex c = false) :
    c ∉ lit ++ Spec.Ipmitool.hexL n := by
  intro hm
  rcases List.mem_append.mp hm with h | h
  · exact h1 h
  · have := (hexL_tok n).2 c h
    rw [h2] at this; cases this

theorem not_mem_w1 (c ch : Nat) (h1 : c ∉ [99, 104, 97, 110, 110, 101, 108, 61, 48, 120])
    (h2 : isLowerHex c = false) : c ∉ w1 ch := not_mem_lit_hex c _ ch h1 h2
theorem not_mem_w2 (c nf : Nat) (h1 : c ∉ [110, 101, 116, 102, 110, 61, 48, 120])
    (h2 : isLowerHex c = false) : c ∉ w2 nf := not_mem_lit_hex c _ nf h1 h2
theorem not_mem_w3 (c lun : Nat) (h1 : c ∉ [108, 117, 110, 61, 48, 120])
    (h2 : isLowerHex c = false) : c ∉ w3 lun := not_mem_lit_hex c _ lun h1 h2
theorem not_mem_w4 (c cmd : Nat) (h1 : c ∉ toKey) (h2 : isLowerHex c = false) : c ∉ w4 cmd :=
  not_mem_lit_hex c _ cmd h1 h2

/-- a character that is neither a hex digit nor one of the head's letters is not in the head -/
theorem not_mem_errHead (c ch nf lun cmd : Nat)
    (h1 : c ∉ toHead ++ [99, 104, 97, 110, 110, 101, 108, 61, 48, 120, 32, 110, 101, 116, 102, 110, 108, 117, 109, 100])
    (h2 : isLowerHex c = false) : c ∉ Spec.Ipmitool.errHead ch nf lun cmd := by
  rw [errHead_words]
  simp only [List.mem_append, List.mem_cons, not_or] at h1 ⊢
  have a1 := not_mem_w1 c ch (by simp only [List.mem_cons]; simp; omega) h2
  have a2 := not_mem_w2 c nf (by simp only [List.mem_cons]; simp; omega) h2
  have a3 := not_mem_w3 c lun (by simp only [List.mem_cons]; simp; omega) h2
  have a4 := not_mem_w4 c cmd (by simp only [toKey, List.mem_cons]; simp; omega) h2
  refine ⟨h1.1, a1, ?_, a2, ?_, a3, ?_, a4⟩ <;> omega

/-! ### the timeout line -/

theorem reTimeout_timeoutLine (ch nf lun cmd : Nat) :
    reTimeout (Spec.Ipmitool.timeoutLine ch nf lun cmd) = true := by
  have e : Spec.Ipmitool.timeoutLine ch nf lun cmd
      = toHead ++ ((w1 ch ++ 32 :: (w2 nf ++ 32 :: (w3 lun ++ [32])))
        ++ (toKey ++ (Spec.Ipmitool.hexL cmd ++ 41 :: []))) := by
    simp [Spec.Ipmitool.timeoutLine, errHead_words, w4]
  rw [e]
  unfold reTimeout
  rw [stripPrefix_append]
  apply anySuffix_of_tail
  apply anySuffix_self
  simp only [toProbe, stripPrefix_append, toTail, hexRunThen_hit _ _ (hexL_tok cmd)]
  rfl

theorem skip_false_timeoutLine (ch nf lun cmd : Nat) :
    hasInfix skipWord (Spec.Ipmitool.timeoutLine ch nf lun cmd) = false := by
  apply hasInfix_false_of_not_mem 105 _ _ (by decide)
  intro hm
  rcases List.mem_append.mp hm with h | h
  · exact not_mem_errHead 105 ch nf lun cmd (by decide) (by decide) h
  · simp at h

theorem nl_not_mem_timeoutLine (ch nf lun cmd : Nat) :
    (10 : Nat) ∉ Spec.Ipmitool.timeoutLine ch nf lun cmd := by
  intro hm
  rcases List.mem_append.mp hm with h | h
  · exact not_mem_errHead 10 ch nf lun cmd (by decide) (by decide) h
  · simp at h

/-- the line ipmitool prints when no response arrived raises IpmiTimeoutError -/
theorem recv_timeoutLine (ch nf lun cmd rc : Nat) (hrc : rc ≠ 127) :
    recv (Spec.Ipmitool.timeoutLine ch nf lun cmd ++ [10]) rc = .timeoutError := by
  have hs := splitOn_sep 10 _ [] (nl_not_mem_timeoutLine ch nf lun cmd)
  simp only [recv, hrc, if_false, parseOutput, lineSep, hs, splitOn, parseLines,
    skip_false_timeoutLine, reTimeout_timeoutLine, Bool.false_eq_true, if_true]
  rfl

/-! ### the completion-code line -/

/-- a message text that cannot be mistaken for one of the parser's own patterns -/
def benign (t : Str) : Bool :=
  !t.contains 10 && !hasInfix skipWord t && !hasInfix reEstablish t && !hasInfix toKey t
  && !hasInfix (ccKey ++ ccGroupHead) t

theorem benign_iff (t : Str) : benign t = true ↔
    (10 : Nat) ∉ t ∧ hasInfix skipWord t = false ∧ hasInfix reEstablish t = false
    ∧ hasInfix toKey t = false ∧ hasInfix (ccKey ++ ccGroupHead) t = false := by
  simp [benign, and_assoc]

/-- "rsp=0x…):" -/
def w5 (cc : Nat) : Str := ccKey ++ ccGroupHead ++ Spec.Ipmitool.hexL cc ++ [41, 58]

theorem ccLine_words (ch nf lun cmd cc : Nat) (text : Str) :
    Spec.Ipmitool.ccLine ch nf lun cmd cc text
      = toHead ++ (w1 ch ++ 32 :: (w2 nf ++ 32 :: (w3 lun ++ 32 :: (w4 cmd ++ 32 :: (w5 cc ++ 32 :: text))))) := by
  simp [Spec.Ipmitool.ccLine, errHead_words, w5, ccKey, ccGroupHead]

theorem not_mem_w5 (c cc : Nat) (h1 : c ∉ [114, 115, 112, 61, 48, 120, 41, 58]) (h2 : isLowerHex c = false) :
    c ∉ w5 cc := by
  simp only [w5, ccKey, ccGroupHead, List.mem_append, List.mem_cons, not_or] at h1 ⊢
  have := (hexL_tok cc).2 c
  refine ⟨⟨⟨?_, ?_⟩, ?_⟩, ?_⟩
  · simp; omega
  · simp; omega
  · intro h; rw [this h] at h2; cases h2
  · simp; omega

/-- everything in front of the message text -/
def ccFront (ch nf lun cmd cc : Nat) : Str :=
  toHead ++ (w1 ch ++ 32 :: (w2 nf ++ 32 :: (w3 lun ++ 32 :: (w4 cmd ++ 32 :: w5 cc))))

theorem ccLine_front (ch nf lun cmd cc : Nat) (text : Str) :
    Spec.Ipmitool.ccLine ch nf lun cmd cc text = ccFront ch nf lun cmd cc ++ 32 :: text := by
  simp [ccLine_words, ccFront]

theorem not_mem_ccFront (c ch nf lun cmd cc : Nat)
    (h1 : c ∉ toHead ++ [99, 104, 97, 110, 110, 101, 108, 61, 48, 120, 32, 110, 101, 116, 102, 110, 108, 117, 109, 100,
      114, 115, 112, 41, 58])
    (h2 : isLowerHex c = false) : c ∉ ccFront ch nf lun cmd cc := by
  simp only [List.mem_append, List.mem_cons, not_or] at h1
  have a1 := not_mem_w1 c ch (by simp only [List.mem_cons]; simp; omega) h2
  have a2 := not_mem_w2 c nf (by simp only [List.mem_cons]; simp; omega) h2
  have a3 := not_mem_w3 c lun (by simp only [List.mem_cons]; simp; omega) h2
  have a4 := not_mem_w4 c cmd (by simp only [toKey, List.mem_cons]; simp; omega) h2
  have a5 := not_mem_w5 c cc (by simp only [List.mem_cons]; simp; omega) h2
  simp only [ccFront, List.mem_append, List.mem_cons, not_or]
  refine ⟨h1.1, a1, ?_, a2, ?_, a3, ?_, a4, ?_, a5⟩ <;> omega

theorem skip_false_ccLine (ch nf lun cmd cc : Nat) (text : Str) (ht : benign text = true) :
    hasInfix skipWord (Spec.Ipmitool.ccLine ch nf lun cmd cc text) = false := by
  rw [ccLine_front, hasInfix_sep 32 _ _ _ (by decide) (by decide),
    hasInfix_false_of_not_mem 105 _ _ (by decide) (not_mem_ccFront 105 ch nf lun cmd cc (by decide) (by decide)),
    ((benign_iff text).mp ht).2.1]
  rfl

theorem establish_false_ccLine (ch nf lun cmd cc : Nat) (text : Str) (ht : benign text = true) :
    hasInfix reEstablish (Spec.Ipmitool.ccLine ch nf lun cmd cc text) = false := by
  -- split at the colon of "): "
  have e : Spec.Ipmitool.ccLine ch nf lun cmd cc text
      = (toHead ++ (w1 ch ++ 32 :: (w2 nf ++ 32 :: (w3 lun ++ 32 :: (w4 cmd ++ 32 ::
          (ccKey ++ ccGroupHead ++ Spec.Ipmitool.hexL cc ++ [41])))))) ++ 58 :: (32 :: text) := by
    simp [ccLine_words, w5]
  have hfront : (105 : Nat) ∉ toHead ++ (w1 ch ++ 32 :: (w2 nf ++ 32 :: (w3 lun ++ 32 :: (w4 cmd ++ 32 ::
      (ccKey ++ ccGroupHead ++ Spec.Ipmitool.hexL cc ++ [41]))))) := by
    intro hm
    apply not_mem_ccFront 105 ch nf lun cmd cc (by decide) (by decide)
    have e2 : ccFront ch nf lun cmd cc
        = (toHead ++ (w1 ch ++ 32 :: (w2 nf ++ 32 :: (w3 lun ++ 32 :: (w4 cmd ++ 32 ::
          (ccKey ++ ccGroupHead ++ Spec.Ipmitool.hexL cc ++ [41])))))) ++ [58] := by
      simp [ccFront, w5]
    rw [e2]
    exact List.mem_append_left _ hm
  have htail : hasInfix reEstablish (32 :: text) = false := by
    have := ((benign_iff text).mp ht).2.2.1
    simp only [hasInfix, anySuffix] at this ⊢
    rw [this]
    rfl
  rw [e, hasInfix_sep 58 _ _ _ (by decide) (by decide),
    hasInfix_false_of_not_mem 105 _ _ (by decide) hfront, htail]
  rfl

/-- a hit of `key [0-9a-f]+ tail` at the start of `t` is an occurrence of a blank-free needle -/
theorem keyHex_witness (key tail : Str) (t : Str)
    (h : (match stripPrefix key t with
          | Option.none => false
          | some u => (hexRunThen tail u).isSome) = true) :
    ∃ x, HexTok x ∧ isPrefix (key ++ x ++ tail) t = true := by
  cases e : stripPrefix key t with
  | none => simp [e] at h
  | some u =>
    simp only [e] at h
    cases e2 : hexRunThen tail u with
    | none => simp [e2] at h
    | some x =>
      obtain ⟨hx, hp⟩ := hexRunThen_some e2
      refine ⟨x, hx, ?_⟩
      rw [stripPrefix_some e, List.append_assoc, isPrefix_cancel]
      exact hp

theorem hexTok_not_mem {x : Str} (hx : HexTok x) (c : Nat) (hc : isLowerHex c = false) : c ∉ x := by
  intro hm
  have := hx.2 c hm
  rw [hc] at this; cases this

theorem reTimeout_false_ccLine (ch nf lun cmd cc : Nat) (text : Str) (ht : benign text = true) :
    reTimeout (Spec.Ipmitool.ccLine ch nf lun cmd cc text) = false := by
  rw [ccLine_words]
  unfold reTimeout
  rw [stripPrefix_append]
  cases hq : anySuffix toProbe
      (w1 ch ++ 32 :: (w2 nf ++ 32 :: (w3 lun ++ 32 :: (w4 cmd ++ 32 :: (w5 cc ++ 32 :: text))))) with
  | false => exact hq
  | true =>
    exfalso
    obtain ⟨x, hx, hin⟩ := anySuffix_witness (P := HexTok)
      (q := fun x t => isPrefix (toKey ++ x ++ toTail) t) (fun t h => keyHex_witness toKey toTail t h) _ hq
    have hb : (32 : Nat) ∉ toKey ++ x ++ toTail := by
      simp only [List.mem_append, not_or]
      exact ⟨⟨by decide, hexTok_not_mem hx 32 (by decide)⟩, by decide⟩
    have hne : toKey ++ x ++ toTail ≠ [] := by simp [toKey]
    have hm : (109 : Nat) ∈ toKey ++ x ++ toTail := by simp [toKey]
    have hp : (41 : Nat) ∈ toKey ++ x ++ toTail := by simp [toTail]
    change hasInfix (toKey ++ x ++ toTail) _ = true at hin
    rw [hasInfix_sep 32 _ _ _ hb hne, hasInfix_sep 32 _ _ _ hb hne, hasInfix_sep 32 _ _ _ hb hne,
      hasInfix_sep 32 _ _ _ hb hne, hasInfix_sep 32 _ _ _ hb hne,
      hasInfix_false_of_not_mem 109 _ _ hm (not_mem_w1 109 ch (by decide) (by decide)),
      hasInfix_false_of_not_mem 109 _ _ hm (not_mem_w2 109 nf (by decide) (by decide)),
      hasInfix_false_of_not_mem 109 _ _ hm (not_mem_w3 109 lun (by decide) (by decide)),
      hasInfix_false_of_not_mem 41 _ _ hp (not_mem_w4 41 cmd (by decide) (by decide)),
      hasInfix_false_of_not_mem 109 _ _ hm (not_mem_w5 109 cc (by decide) (by decide))] at hin
    simp only [Bool.false_or] at hin
    rw [List.append_assoc] at hin
    have := hasInfix_of_append hin
    rw [((benign_iff text).mp ht).2.2.2.1] at this
    cases this

/-- `re_completion_code` finds exactly the printed code, the last `rsp=0x…)` of the line -/
theorem reCc_ccLine (ch nf lun cmd cc : Nat) (text : Str) (ht : benign text = true) :
    reCc (Spec.Ipmitool.ccLine ch nf lun cmd cc text) = some (ccGroupHead ++ Spec.Ipmitool.hexL cc) := by
  have e : Spec.Ipmitool.ccLine ch nf lun cmd cc text
      = ccHead ++ ((w1 ch ++ 32 :: (w2 nf ++ 32 :: (w3 lun ++ 32 :: (w4 cmd ++ [32]))))
        ++ (114 :: ([115, 112, 61] ++ ccGroupHead ++ Spec.Ipmitool.hexL cc ++ [41, 58] ++ 32 :: text))) := by
    simp [ccLine_words, w5, ccKey, ccGroupHead, ccHead, toHead]
  rw [e]
  unfold reCc
  rw [stripPrefix_append]
  apply lastSuffix_of_tail
  -- no later hit …
  have hnone : lastSuffix ccProbe
      ([115, 112, 61] ++ ccGroupHead ++ Spec.Ipmitool.hexL cc ++ [41, 58] ++ 32 :: text) = Option.none := by
    rw [lastSuffix_none_iff]
    cases hq : anySuffix _ _ with
    | false => rfl
    | true =>
      exfalso
      obtain ⟨x, hx, hin⟩ := anySuffix_witness (P := HexTok)
        (q := fun x t => isPrefix ((ccKey ++ ccGroupHead) ++ x ++ ccTail) t) (fun t h => by
          apply keyHex_witness (ccKey ++ ccGroupHead) ccTail t
          simp only [ccProbe] at h
          cases e1 : stripPrefix ccKey t with
          | none => simp [e1] at h
          | some u =>
            cases e2 : stripPrefix ccGroupHead u with
            | none => simp [e1, e2] at h
            | some w =>
              have e3 : stripPrefix (ccKey ++ ccGroupHead) t = some w := by
                rw [stripPrefix_some e1, stripPrefix_some e2, ← List.append_assoc, stripPrefix_append]
              simp only [e1, e2, e3] at h ⊢
              cases e4 : hexRunThen ccTail w with
              | none => simp [e4] at h
              | some r => rfl) _ hq
      have hb : (32 : Nat) ∉ (ccKey ++ ccGroupHead) ++ x ++ ccTail := by
        simp only [List.mem_append, not_or]
        exact ⟨⟨by decide, hexTok_not_mem hx 32 (by decide)⟩, by decide⟩
      have hne : (ccKey ++ ccGroupHead) ++ x ++ ccTail ≠ [] := by simp [ccKey]
      have hr : (114 : Nat) ∈ (ccKey ++ ccGroupHead) ++ x ++ ccTail := by simp [ccKey]
      have hw : (114 : Nat) ∉ [115, 112, 61] ++ ccGroupHead ++ Spec.Ipmitool.hexL cc ++ [41, 58] := by
        simp only [List.mem_append, not_or]
        exact ⟨⟨⟨by decide, by decide⟩, hexTok_not_mem (hexL_tok cc) 114 (by decide)⟩, by decide⟩
      change hasInfix ((ccKey ++ ccGroupHead) ++ x ++ ccTail) _ = true at hin
      rw [hasInfix_sep 32 _ _ _ hb hne, hasInfix_false_of_not_mem 114 _ _ hr hw] at hin
      simp only [Bool.false_or] at hin
      rw [List.append_assoc] at hin
      have := hasInfix_of_append hin
      rw [((benign_iff text).mp ht).2.2.2.2] at this
      cases this
  -- … and a hit right here
  have this : (114 :: ([115, 112, 61] ++ ccGroupHead ++ Spec.Ipmitool.hexL cc ++ [41, 58] ++ 32 :: text))
      = ccKey ++ (ccGroupHead ++ (Spec.Ipmitool.hexL cc ++ 41 :: (58 :: 32 :: text))) := by
    simp [ccKey]
  have hhit : ccProbe
      (114 :: ([115, 112, 61] ++ ccGroupHead ++ Spec.Ipmitool.hexL cc ++ [41, 58] ++ 32 :: text))
      = some (ccGroupHead ++ Spec.Ipmitool.hexL cc) := by
    simp only [ccProbe, this, stripPrefix_append, ccTail, hexRunThen_hit _ _ (hexL_tok cc), Option.map_some]
  rw [lastSuffix, hnone]
  exact hhit

/-- codes up to 255 read back from their `%x` form (checked by evaluation) -/
def ccFacts (cc : Nat) : Bool :=
  pyIntHex (ccGroupHead ++ Spec.Ipmitool.hexL cc) == some (Int.ofNat cc)

theorem ccFacts_all : (List.range 256).all ccFacts = true := by decide +kernel

theorem nl_not_mem_ccLine (ch nf lun cmd cc : Nat) (text : Str) (ht : benign text = true) :
    (10 : Nat) ∉ Spec.Ipmitool.ccLine ch nf lun cmd cc text := by
  rw [ccLine_front]
  intro hm
  rcases List.mem_append.mp hm with h | h
  · exact not_mem_ccFront 10 ch nf lun cmd cc (by decide) (by decide) h
  · simp only [List.mem_cons] at h
    rcases h with h | h
    · cases h
    · exact ((benign_iff text).mp ht).1 h

/-- **the line ipmitool prints for a completion code yields exactly that code** — for every
channel, netfn, LUN, command and every benign message text -/
theorem recv_ccLine (ch nf lun cmd cc rc : Nat) (text : Str) (hcc : cc < 256) (ht : benign text = true)
    (hrc : rc ≠ 127) :
    recv (Spec.Ipmitool.ccLine ch nf lun cmd cc text ++ [10]) rc = .ok [cc] := by
  have hs := splitOn_sep 10 _ [] (nl_not_mem_ccLine ch nf lun cmd cc text ht)
  have hv : pyIntHex (ccGroupHead ++ Spec.Ipmitool.hexL cc) = some (Int.ofNat cc) := by
    have := List.all_eq_true.mp ccFacts_all cc (List.mem_range.mpr hcc)
    simpa [ccFacts] using this
  have hb : toByte (cc : Int) = some cc := by
    unfold toByte
    rw [if_pos ⟨by omega, by omega⟩]
    simp
  have hpl : parseLines [Spec.Ipmitool.ccLine ch nf lun cmd cc text, []] []
      = .ok (some (cc : Int), []) := by
    simp only [parseLines, skip_false_ccLine _ _ _ _ _ _ ht, reTimeout_false_ccLine _ _ _ _ _ _ ht,
      establish_false_ccLine _ _ _ _ _ _ ht, reCc_ccLine _ _ _ _ _ _ ht, hv, Bool.false_eq_true, if_false]
    rfl
  simp only [recv, hrc, if_false, parseOutput, lineSep, hs, splitOn, hpl, Outcome.bind_eq,
    Outcome.bind_ok, strip_nil, if_true, Outcome.pure_eq, hb]

/-- every text ipmitool can put behind a completion code (`val2str`) is benign -/
theorem ccText_benign_all : (List.range 256).all (fun cc => benign (Spec.Ipmitool.ccText cc)) = true := by
  decide +kernel

theorem ccText_benign (cc : Nat) (h : cc < 256) : benign (Spec.Ipmitool.ccText cc) = true :=
  List.all_eq_true.mp ccText_benign_all cc (List.mem_range.mpr h)

end PyIpmi.Model.Ipmitool
