/-
  Lemmas.ApiAll — the per-operation refinement lemmas put together:

  * `runModel_refines` : for every call `c` with in-range arguments and every conforming BMC state `s`,
       the modelled operation played against the byte-level BMC = the oracle `Spec.Bmc.run c s`
       (BMC state afterwards AND return value / exception);
  * `wf_run`           : the invariant `Wf` is preserved by every in-range call (and holds initially);
  * `run_read`         : a read leaves the BMC untouched.
-/
import PyIpmi.Lemmas.ApiBmc
import PyIpmi.Lemmas.ApiChassis
import PyIpmi.Lemmas.ApiLan
import PyIpmi.Lemmas.ApiUsers
import PyIpmi.Lemmas.ApiSensor
import PyIpmi.Lemmas.ApiPicmg
import PyIpmi.Lemmas.ApiPicmgLed
import PyIpmi.Lemmas.ApiHpm
import PyIpmi.Lemmas.ApiDcmi
namespace PyIpmi.Lemmas.Api
open PyIpmi PyIpmi.Codec PyIpmi.Spec.Bmc PyIpmi.Model.Api PyIpmi.Gen.Tables

set_option maxRecDepth 4000
set_option linter.unusedSimpArgs false

/-! ### defaults of never-written objects are well-formed -/

theorem dfltSensor_wf (k : Nat) : (dfltSensor k).Wf := by
  constructor
  · intro a h; simp [dfltSensor] at h; omega
  · intro b h; simp [dfltSensor] at h; omega
  · intro i
    simp only [dfltSensor]
    rcases i with _ | _ | _ | _ | _ | _ | n <;> simp <;> omega

theorem dfltLed_wf (k : Nat) : (dfltLed k).Wf := by
  constructor
  · simp only [dfltLed]; split
    · trivial
    · split
      · trivial
      · exact ⟨by omega, by omega, fun _ => ⟨by omega, by omega⟩⟩
  · simp [dfltLed, LedFn.Wf]

theorem dfltPort_wf (k : Nat) : (dfltPort k).Wf := by
  constructor <;> simp [dfltPort] <;> omega

theorem dfltLan_wf (ch sel : Nat) (h1 : ch < 16) (h2 : sel < 256) : lanWf (lanKey ch sel) (dfltLan (lanKey ch sel)) := by
  have e1 : (ch * 256 + sel) % 256 = sel := by omega
  have e2 : (ch * 256 + sel) / 256 = ch := by omega
  simp only [lanWf, lanKey, dfltLan, e1, e2]
  split <;> refine ⟨?_, ?_, ?_⟩ <;> first
    | (intro b hb; simp at hb; omega)
    | (intro h; simp_all)
    | simp

theorem sensor_wf (lun num : Nat) (s : BmcState) (hw : s.Wf) : (get_sensor lun num s).Wf :=
  hw.sensors.getD _ _ (dfltSensor_wf _)
theorem led_wf (fru led : Nat) (s : BmcState) (hw : s.Wf) : (get_led fru led s).Wf :=
  hw.leds.getD _ _ (dfltLed_wf _)
theorem port_wf (iface ch : Nat) (s : BmcState) (hw : s.Wf) : (get_port iface ch s).Wf :=
  hw.ports.getD _ _ (dfltPort_wf _)
theorem lan_wf (ch sel : Nat) (s : BmcState) (hw : s.Wf) (h1 : ch < 16) (h2 : sel < 256) :
    lanWf (lanKey ch sel) (get_lan_param ch sel s) :=
  hw.lan.getD _ _ (dfltLan_wf ch sel h1 h2)
theorem bootFlags_wf (s : BmcState) (hw : s.Wf) : 2 ≤ (get_boot_param 5 0 s).length := by
  have := hw.bootFlags.getD 5 (dfltBoot 5) (by intro _; simp [dfltBoot])
  simpa [get_boot_param] using this rfl
theorem userName_wf (uid : Nat) (s : BmcState) (hw : s.Wf) : (get_user_name uid s).length ≤ 16 :=
  hw.userNames.getD uid (dfltName uid) (by simp [dfltName, padTo])
theorem userEnabled_wf (uid : Nat) (s : BmcState) (hw : s.Wf) : get_user_enabled uid s < 4 :=
  hw.userEnabled.getD uid 0 (by omega)
theorem power_wf (fru ty : Nat) (s : BmcState) (hw : s.Wf) : (get_power_level fru ty s).level < 32 :=
  hw.power.getD _ _ (by simp [dfltPower]; omega)
theorem sigClass_wf (iface ch : Nat) (s : BmcState) (hw : s.Wf) : get_signaling_class iface ch s < 16 :=
  hw.sigClass.getD _ _ (by omega)
theorem powerChannel_wf (ch : Nat) (s : BmcState) (hw : s.Wf) : (get_power_channel ch s).status < 128 :=
  hw.powerChannels.getD ch _ (by simp; omega)
theorem descr_wf (id : Nat) (s : BmcState) (hw : s.Wf) : DescrWf (get_component_description id s) :=
  hw.hpmDescr.getD id _ ⟨by simp [dfltDescr], by intro c hc; simp [dfltDescr] at hc; omega⟩

/-! ### every operation refines the oracle -/

theorem runModel_refines (c : Call) (s : BmcState) (hc : c.InRange) (hw : s.Wf) :
    runModel c s = present (run c s) := by
  cases c with
  | getDeviceId => simpa [runModel, opOf, opOfV, run, present, Result.toOutcome] using get_device_id_refines s hw.device
  | getDeviceGuid => simpa [runModel, opOf, opOfV, run, present, Result.toOutcome] using get_device_guid_refines s hw.guid
  | coldReset => simpa [runModel, opOf, opOfV, run, present, Result.toOutcome] using cold_reset_refines s
  | warmReset => simpa [runModel, opOf, opOfV, run, present, Result.toOutcome] using warm_reset_refines s
  | setWatchdog c => simpa [runModel, opOf, opOfV, run, present, Result.toOutcome] using set_watchdog_refines c s hc
  | getWatchdog => simpa [runModel, opOf, opOfV, run, present, Result.toOutcome] using get_watchdog_refines s hw.watchdog
  | resetWatchdog => simpa [runModel, opOf, opOfV, run, present, Result.toOutcome] using reset_watchdog_refines s
  | getChassisStatus =>
    simpa [runModel, opOf, opOfV, run, present, Result.toOutcome] using get_chassis_status_refines s hw.chassis
  | chassisControl opt => simpa [runModel, opOf, opOfV, run, present, Result.toOutcome] using chassis_control_refines opt s hc
  | chassisControlNamed idx =>
    simpa [runModel, opOf, opOfV, run, present, Result.toOutcome] using chassis_control_named_refines idx s hc
  | getBootParam sel setSel blk =>
    simpa [runModel, opOf, opOfV, run, present, Result.toOutcome] using get_system_boot_options_refines sel setSel blk s hc
  | setBootParam sel data inv =>
    simpa [runModel, opOf, opOfV, run, present, Result.toOutcome] using set_system_boot_options_refines sel data inv s hc.1
  | getBootMode =>
    simpa [runModel, opOf, opOfV, run, present, Result.toOutcome] using
      get_boot_mode_refines s (by have := bootFlags_wf s hw; omega)
  | getBootPersistency =>
    simpa [runModel, opOf, opOfV, run, present, Result.toOutcome] using
      get_boot_persistency_refines s (by have := bootFlags_wf s hw; omega)
  | getBootDevice => simpa [runModel, opOf, opOfV, run] using get_boot_device_refines s (bootFlags_wf s hw)
  | setBootOptions dev efi pers =>
    simpa [runModel, opOf, opOfV, run, present, Result.toOutcome] using set_boot_options_refines dev efi pers s
  | getLanParam ch sel setSel blk rev =>
    have := get_lan_config_param_refines ch sel setSel blk rev s hc
    cases rev <;> simpa [runModel, opOf, opOfV, run, present, Result.toOutcome] using this
  | setLanParam ch sel data =>
    simpa [runModel, opOf, opOfV, run, present, Result.toOutcome] using set_lan_config_param_refines ch sel data s hc.1 hc.2.1
  | getIp ch => simpa [runModel, opOf, opOfV, run, present, Result.toOutcome] using get_ip_address_refines ch s hc
  | setIp ip ch => simpa [runModel, opOf, opOfV, run, present, Result.toOutcome] using set_ip_address_refines ip ch s hc.1 hc.2
  | getIpSource ch =>
    simpa [runModel, opOf, opOfV, run] using get_ip_source_refines ch s hc ((lan_wf ch 4 s hw hc (by omega)).2.1 (by simp [lanKey]))
  | setIpSource code ch =>
    simpa [runModel, opOf, opOfV, run, present, Result.toOutcome] using set_ip_source_refines code ch s hc.1 hc.2
  | getMac ch => simpa [runModel, opOf, opOfV, run, present, Result.toOutcome] using get_mac_address_refines ch s hc
  | getVlan ch =>
    have h20 := lan_wf ch 20 s hw hc (by omega)
    have : lanWf 20 (get_lan_param ch 20 s) := ⟨h20.1, by simp, fun _ => h20.2.2 (by simp [lanKey])⟩
    simpa [runModel, opOf, opOfV, run, present, Result.toOutcome] using get_vlan_id_refines ch s hc this
  | setVlan v ch => simpa [runModel, opOf, opOfV, run, present, Result.toOutcome] using set_vlan_id_refines v ch s hc.1 hc.2
  | setUserName uid name => simpa [runModel, opOf, opOfV, run] using set_username_refines uid name s hc.1 hc.2
  | getUserName uid => simpa [runModel, opOf, opOfV, run] using get_username_refines uid s hc (userName_wf uid s hw)
  | getUserAccess uid ch =>
    simpa [runModel, opOf, opOfV, run] using
      get_user_access_refines uid ch s hc.1 hc.2 hw.maxUsers hw.fixedNames (userEnabled_wf uid s hw)
  | setUserAccess a => simpa [runModel, opOf, opOfV, run] using set_user_access_refines a s hc
  | setUserPassword uid pw => simpa [runModel, opOf, opOfV, run] using set_user_password_refines uid pw s hc.1 hc.2
  | enableUser uid => simpa [runModel, opOf, opOfV, run] using enable_user_refines uid s hc
  | disableUser uid => simpa [runModel, opOf, opOfV, run] using disable_user_refines uid s hc
  | getSensorReading num lun =>
    simpa [runModel, opOf, opOfV, run, present, Result.toOutcome] using
      get_sensor_reading_refines num lun s hc (sensor_wf lun num s hw)
  | setSensorThresholds num lun vals =>
    simpa [runModel, opOf, opOfV, run, present, Result.toOutcome] using set_sensor_thresholds_refines num lun vals s hc
  | getSensorThresholds num lun =>
    simpa [runModel, opOf, opOfV, run, present, Result.toOutcome] using
      get_sensor_thresholds_refines num lun s hc (sensor_wf lun num s hw)
  | rearmSensorEvents num =>
    simpa [runModel, opOf, opOfV, run, present, Result.toOutcome] using rearm_sensor_events_refines num s hc
  | sendPlatformEvent e =>
    simpa [runModel, opOf, opOfV, run, present, Result.toOutcome] using send_platform_event_refines e s hc
  | setEventReceiver a l =>
    simpa [runModel, opOf, opOfV, run, present, Result.toOutcome] using set_event_receiver_refines a l s hc.1 hc.2
  | getEventReceiver =>
    simpa [runModel, opOf, opOfV, run, present, Result.toOutcome] using get_event_receiver_refines s hw.evAddr hw.evLun
  | getPicmgProperties =>
    simpa [runModel, opOf, opOfV, run, present, Result.toOutcome] using get_picmg_properties_refines s
  | fruControl fru opt =>
    simpa [runModel, opOf, opOfV, run, present, Result.toOutcome] using fru_control_refines fru opt s hc.1 hc.2
  | fruControlNamed idx fru =>
    have := fru_control_named_refines idx fru s hc.1 hc.2
    by_cases h3 : idx = 3 <;> simpa [runModel, opOf, opOfV, run, present, Result.toOutcome, h3] using this
  | getPowerLevel fru ty =>
    have := get_power_level_refines fru ty s hc.1 hc.2 (power_wf fru ty s hw)
    by_cases h3 : ty ≤ 3 <;> simpa [runModel, opOf, opOfV, run, h3] using this
  | getFanSpeedProperties fru =>
    simpa [runModel, opOf, opOfV, run, present, Result.toOutcome] using get_fan_speed_properties_refines fru s hc
  | setFanLevel fru lvl =>
    simpa [runModel, opOf, opOfV, run, present, Result.toOutcome] using set_fan_level_refines fru lvl s hc.1 hc.2
  | getFanLevel fru => simpa [runModel, opOf, opOfV, run, present, Result.toOutcome] using get_fan_level_refines fru s hc
  | getLedState fru led =>
    simpa [runModel, opOf, opOfV, run, present, Result.toOutcome] using
      get_led_state_refines fru led s hc.1 hc.2 (led_wf fru led s hw)
  | setLedState fru led c =>
    simpa [runModel, opOf, opOfV, run, present, Result.toOutcome] using set_led_state_refines fru led c s hc.1 hc.2.1 hc.2.2
  | setFruActivation fru on =>
    simpa [runModel, opOf, opOfV, run, present, Result.toOutcome] using set_fru_activation_refines fru on s hc
  | setFruActivationPolicy fru ctrl =>
    have := set_fru_activation_policy_refines fru ctrl s hc
    rcases ctrl with _ | _ | _ | _ | n <;> simpa [runModel, opOf, opOfV, run, present, Result.toOutcome] using this
  | fruLockNamed idx fru =>
    have := fru_lock_named_refines idx fru s hc.1 hc.2
    rcases idx with _ | _ | _ | _ | n <;> simpa [runModel, opOf, opOfV, run, present, Result.toOutcome] using this
  | setPortState iface ch p =>
    simpa [runModel, opOf, opOfV, run, present, Result.toOutcome] using set_port_state_refines iface ch p s hc
  | setPortStateType8 iface ch p =>
    simpa [runModel, opOf, opOfV, run, present, Result.toOutcome] using set_port_state_type8_refines iface ch p s hc
  | getPortState ch iface =>
    simpa [runModel, opOf, opOfV, run, present, Result.toOutcome] using
      get_port_state_refines ch iface s hc.1 hc.2 (port_wf iface ch s hw)
  | getPmGlobalStatus =>
    simpa [runModel, opOf, opOfV, run, present, Result.toOutcome] using get_pm_global_status_refines s hw.pmGlobal
  | getPowerChannelStatus start =>
    simpa [runModel, opOf, opOfV, run, present, Result.toOutcome] using
      get_power_channel_status_refines start s hc (powerChannel_wf start s hw)
  | sendChannelPower ch en lim pri bak =>
    simpa [runModel, opOf, opOfV, run, present, Result.toOutcome] using send_channel_power_refines ch en lim pri bak s hc
  | sendPmHeartbeat => simpa [runModel, opOf, opOfV, run, present, Result.toOutcome] using send_pm_heartbeat_refines s
  | setSignalingClass iface ch cls =>
    simpa [runModel, opOf, opOfV, run, present, Result.toOutcome] using
      set_signaling_class_refines iface ch cls s hc.1 hc.2.1 hc.2.2
  | getSignalingClass iface ch =>
    simpa [runModel, opOf, opOfV, run, present, Result.toOutcome] using
      get_signaling_class_refines iface ch s hc.1 hc.2 (sigClass_wf iface ch s hw)
  | getUpgradeStatus => simpa [runModel, opOf, opOfV, run, present, Result.toOutcome] using get_upgrade_status_refines s
  | getTargetUpgradeCapabilities =>
    simpa [runModel, opOf, opOfV, run, present, Result.toOutcome] using
      get_target_upgrade_capabilities_refines s hw.hpmComponents
  | querySelftestResults =>
    simpa [runModel, opOf, opOfV, run, present, Result.toOutcome] using query_selftest_results_refines s hw.hpmSelftest2
  | queryRollbackStatus =>
    simpa [runModel, opOf, opOfV, run, present, Result.toOutcome] using query_rollback_status_refines s
  | getComponentDescription id =>
    simpa [runModel, opOf, opOfV, run] using get_component_description_refines id s hc (descr_wf id s hw)
  | getDcmiCapabilities sel =>
    simpa [runModel, opOf, opOfV, run, present, Result.toOutcome] using
      get_dcmi_capabilities_refines sel s hc hw.dcmiMajor hw.dcmiMinor
  | getPowerReading mode attrs =>
    simpa [runModel, opOf, opOfV, run, present, Result.toOutcome] using
      get_power_reading_refines mode attrs s hc.1 hc.2 (powerReading_wf mode attrs s hw)

/-! ### reads leave the BMC untouched -/

theorem withUser_read (uid : Nat) (s : BmcState) (r : Result) : (withUser uid s (s, r)).1 = s := by
  unfold withUser; split <;> rfl

theorem run_read (c : Call) (s : BmcState) (h : c.isRead = true) : (run c s).1 = s := by
  cases c <;> simp [Call.isRead] at h <;> simp [run, withUser_read]
  case getPowerLevel fru ty => split <;> rfl

/-! ### the invariant holds initially and is preserved -/

theorem wf_init : ({} : BmcState).Wf := by
  refine ⟨⟨?_, ?_, ?_, ?_, ?_, ?_, ?_, ?_, ?_⟩, ?_, ⟨?_, ?_, ?_, ?_, ?_⟩, ⟨?_, ?_⟩, ?_, ?_, ?_, ?_, ?_, ?_, ?_, ?_, ?_, ?_, ?_, ?_, ?_, ?_,
    ?_, ?_, ?_, ?_, ?_, ?_, ?_, ?_, ?_, ?_, ?_⟩ <;> first | decide | exact Map.All.empty _ | (intro a h; cases h)

theorem wf_withUser (uid : Nat) (s s' : BmcState) (r : Result) (hw : s.Wf) (hw' : s'.Wf) : (withUser uid s (s', r)).1.Wf := by
  unfold withUser; split <;> assumption

theorem wf_run (c : Call) (s : BmcState) (hc : c.InRange) (hw : s.Wf) : (run c s).1.Wf := by
  cases c with
  | coldReset => exact { hw with }
  | warmReset => exact { hw with }
  | setWatchdog c =>
    obtain ⟨h1, h2, h3, h4, h5, h6⟩ := hc
    exact { hw with watchdog := ⟨h1, h2, h3, h6, h6⟩ }
  | resetWatchdog => exact { hw with watchdog := { hw.watchdog with present := hw.watchdog.initial } }
  | chassisControl opt =>
    simp only [run, chassis_control]
    refine { hw with chassis := ?_ }
    have := hw.chassis
    split <;> exact ⟨this.1, this.2⟩
  | chassisControlNamed idx =>
    simp only [run, chassis_control]
    refine { hw with chassis := ?_ }
    have := hw.chassis
    split <;> exact ⟨this.1, this.2⟩
  | setBootParam sel data inv =>
    obtain ⟨h1, h2, h3⟩ := hc
    simp only [run, set_boot_param]
    split
    · split <;> exact { hw with }
    · exact { hw with bootFlags := hw.bootFlags.set sel data h3 }
  | setBootOptions dev efi pers =>
    simp only [run, set_boot_flags, set_boot_param]
    exact { hw with bootFlags := hw.bootFlags.set 5 _ (by intro _; simp) }
  | setLanParam ch sel data =>
    obtain ⟨h1, h2, h3, h4, h5⟩ := hc
    have e : lanKey ch sel % 256 = sel := by simp [lanKey]; omega
    have e2 : sel % 256 = sel := by omega
    rw [e2] at h4 h5
    exact { hw with lan := hw.lan.set _ data ⟨h3, by rw [e]; exact h4, by rw [e]; exact h5⟩ }
  | setIp ip ch =>
    have e : lanKey ch 3 % 256 = 3 := by simp [lanKey]
    exact { hw with lan := hw.lan.set _ ip ⟨hc.2, by rw [e]; simp⟩ }
  | setIpSource code ch =>
    have hb : Bytes [code] := by intro b hb; simp at hb; rcases hc.2 with h | h <;> omega
    exact { hw with lan := hw.lan.set _ [code] ⟨hb, by simp, by simp [lanKey]⟩ }
  | setVlan v ch =>
    simp only [run, set_vlan]
    have hb : Bytes [v % 256, b2n (v != 0) * 128 + v / 256 % 16] := by
      have := b2n_le (v != 0)
      intro b hb; simp at hb; rcases hb with h | h <;> omega
    exact { hw with lan := hw.lan.set _ _ ⟨hb, by simp, by simp⟩ }
  | setUserName uid name =>
    refine wf_withUser _ _ _ _ hw ?_
    exact { hw with userNames := hw.userNames.set uid _ (by simp [padTo]) }
  | setUserAccess a => exact wf_withUser _ _ _ _ hw { hw with }
  | setUserPassword uid pw => exact wf_withUser _ _ _ _ hw { hw with }
  | enableUser uid =>
    exact wf_withUser _ _ _ _ hw { hw with userEnabled := hw.userEnabled.set uid _ (by simp) }
  | disableUser uid =>
    exact wf_withUser _ _ _ _ hw { hw with userEnabled := hw.userEnabled.set uid _ (by simp) }
  | setSensorThresholds num lun vals =>
    obtain ⟨h1, h2⟩ := hc
    have hx := sensor_wf lun num s hw
    simp only [run, set_sensor_thresholds, range6, List.map_cons, List.map_nil]
    refine { hw with sensors := hw.sensors.set _ _ ⟨hx.states1, hx.states2, ?_⟩ }
    intro i
    have t := hx.thresholds
    have g : ∀ j, (match vals.getD j none with | some v => v | none => (get_sensor lun num s).thresholds.getD j 0) < 256 := by
      intro j
      cases hv : vals.getD j none with
      | none => exact t j
      | some v => exact h2 j v hv
    rcases i with _ | _ | _ | _ | _ | _ | n
    · exact g 0
    · exact g 1
    · exact g 2
    · exact g 3
    · exact g 4
    · exact g 5
    · simp
  | rearmSensorEvents num =>
    have hx := sensor_wf 0 num s hw
    exact { hw with sensors := hw.sensors.set _ _ ⟨hx.states1, hx.states2, hx.thresholds⟩ }
  | sendPlatformEvent e => exact { hw with }
  | setEventReceiver a l => exact { hw with evAddr := (by show 2 * a < 256; have := hc.1; omega), evLun := hc.2 }
  | fruControl fru opt => exact { hw with }
  | fruControlNamed idx fru => exact { hw with }
  | setFanLevel fru lvl => exact { hw with }
  | setLedState fru led c =>
    obtain ⟨h1, h2, h3⟩ := hc
    have hx := led_wf fru led s hw
    simp only [run, set_led]
    refine { hw with leds := hw.leds.set _ _ ?_ }
    cases c with
    | restoreLocal => exact ⟨hx.localFn, hx.overrideFn⟩
    | lampTest d color => exact ⟨hx.localFn, hx.overrideFn⟩
    | override fn color =>
      refine ⟨hx.localFn, ?_⟩
      cases fn with
      | off => trivial
      | on => trivial
      | blink o n => exact ⟨h3.1, h3.2.1, fun h => by cases h⟩
  | setFruActivation fru on => exact { hw with }
  | setFruActivationPolicy fru ctrl =>
    simp only [run]
    split <;> exact { hw with }
  | fruLockNamed idx fru =>
    simp only [run]
    split <;> exact { hw with }
  | setPortState iface ch p => exact { hw with ports := hw.ports.set _ p hc.2.2.2.1 }
  | setPortStateType8 iface ch p => exact { hw with ports := hw.ports.set _ p hc.2.2.2.1 }
  | sendChannelPower ch en lim pri bak =>
    exact { hw with powerChannels := hw.powerChannels.set ch _ (powerChannel_wf ch s hw) }
  | sendPmHeartbeat => exact { hw with }
  | setSignalingClass iface ch cls => exact { hw with sigClass := hw.sigClass.set _ cls hc.2.2 }
  | _ => rw [run_read _ s rfl]; exact hw

/-! ### histories -/

/-- a history of API calls played on the model, one after the other, against the BMC: the BMC's final
state and what each call returned / raised.  (An operation of the model has no memory of its own: the
only thing carried from call to call is the BMC.) -/
def modelHistory : List Call → BmcState → BmcState × List (Outcome Result)
  | [], s => (s, [])
  | c :: t, s =>
    let a := runModel c s
    let b := modelHistory t a.1
    (b.1, a.2 :: b.2)

/-- the same history on the oracle: what a conforming BMC holds afterwards, what each call means -/
def specHistory : List Call → BmcState → BmcState × List Result
  | [], s => (s, [])
  | c :: t, s =>
    let a := run c s
    let b := specHistory t a.1
    (b.1, a.2 :: b.2)

theorem specHistory_append (h1 h2 : List Call) (s : BmcState) :
    specHistory (h1 ++ h2) s =
      ((specHistory h2 (specHistory h1 s).1).1, (specHistory h1 s).2 ++ (specHistory h2 (specHistory h1 s).1).2) := by
  induction h1 generalizing s with
  | nil => simp [specHistory]
  | cons c t ih => simp [specHistory, ih]

theorem history_refines_wf (h : List Call) (s : BmcState) (hr : ∀ c ∈ h, c.InRange) (hw : s.Wf) :
    modelHistory h s = ((specHistory h s).1, (specHistory h s).2.map Result.toOutcome) ∧ (specHistory h s).1.Wf := by
  induction h generalizing s with
  | nil => exact ⟨rfl, hw⟩
  | cons c t ih =>
    have hc := hr c (by simp)
    have h1 := runModel_refines c s hc hw
    have h2 := wf_run c s hc hw
    have h3 := ih (run c s).1 (fun x hx => hr x (by simp [hx])) h2
    refine ⟨?_, by simpa [specHistory] using h3.2⟩
    simp only [modelHistory, specHistory, h1, present, h3.1, List.map_cons]

end PyIpmi.Lemmas.Api
