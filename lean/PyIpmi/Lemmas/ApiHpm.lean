/- C07 refinement lemmas, family 7: HPM.1 status queries (pyipmi/hpm.py). -/
import PyIpmi.Lemmas.ApiBase
namespace PyIpmi.Lemmas.Api
open PyIpmi PyIpmi.Codec PyIpmi.Spec.Bmc PyIpmi.Model.Api PyIpmi.Gen.Tables

set_option maxRecDepth 4000
set_option linter.unusedSimpArgs false

theorem get_upgrade_status_refines (s : BmcState) :
    api_get_upgrade_status.run s = (s, .ok (.hpmStatus s.hpm.cmdInProgress s.hpm.lastCc)) := by
  cases he : s.hpm.estimate <;> simp [api_get_upgrade_status, api_eval, he]

theorem get_target_upgrade_capabilities_refines (s : BmcState) (hw : s.hpm.components < 256) :
    api_get_target_upgrade_capabilities.run s = (s, .ok (.hpmCaps s.hpm.version s.hpm.components)) := by
  obtain ⟨a, b, c, d, ht⟩ := list_len4 (padTo_length 4 s.hpm.timeouts)
  simp [api_get_target_upgrade_capabilities, api_eval, fmtHpmCaps, ht, Nat.mod_eq_of_lt, hw]

theorem query_selftest_results_refines (s : BmcState) (hw : s.hpm.selftest2 < 256) :
    api_query_selftest_results.run s = (s, .ok (.natPair s.hpm.selftest1 s.hpm.selftest2)) := by
  simp [api_query_selftest_results, api_eval, Nat.mod_eq_of_lt, hw]

/-- INTENDED query_rollback_status: the component mask and the completion estimate as the BMC holds them -/
theorem query_rollback_status_refines (s : BmcState) :
    api_query_rollback_status.run s = (s, .ok (.rollback s.hpm.rollbackStatus s.hpm.rollbackEstimate)) := by
  rcases he : s.hpm.rollbackEstimate with _ | e <;> simp [api_query_rollback_status, api_eval, he]

/-- AS SHIPPED: nothing but a non-zero completion estimate -/
theorem query_rollback_status_shipped_run (s : BmcState) :
    api_query_rollback_status_shipped.run s =
      (s, .ok (.optNatPair none (match s.hpm.rollbackEstimate with | some 0 => none | e => e))) := by
  rcases he : s.hpm.rollbackEstimate with _ | _ | n <;> simp [api_query_rollback_status_shipped, api_eval, he]

end PyIpmi.Lemmas.Api
