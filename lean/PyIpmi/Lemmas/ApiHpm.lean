/- C07 refinement lemmas, family 7: HPM.1 status queries (pyipmi/hpm.py). -/
import PyIpmi.Lemmas.ApiBase
namespace PyIpmi.Lemmas.Api
open PyIpmi PyIpmi.Codec PyIpmi.Spec.Bmc PyIpmi.Model.Api PyIpmi.Gen.Tables

set_option maxRecDepth 4000
set_option linter.unusedSimpArgs false

theorem get_upgrade_status_refines (s : BmcState) :
    api_get_upgrade_status.run s = (s, .ok (.hpmStatus s.hpm.cmdInProgress s.hpm.lastCc)) := by
  cases he : s.hpm.estimate <;> simp [api_get_upgrade_status, api_eval, he]

theorem get_target_upgrade_capabilities_refines (s : BmcState) (hw : s.hpm.components < 256) :
    api_get_target_upgrade_capabilities.run s = (s, .ok (.hpmCaps s.hpm.version s.hpm.components)) := by
  obtain ⟨a, b, c, d, ht⟩ := list_len4 (padTo_length 4 s.hpm.timeouts)
  simp [api_get_target_upgrade_capabilities, api_eval, fmtHpmCaps, ht, Nat.mod_eq_of_lt, hw]

theorem query_selftest_results_refines (s : BmcState) (hw : s.hpm.selftest2 < 256) :
    api_query_selftest_results.run s = (s, .ok (.natPair s.hpm.selftest1 s.hpm.selftest2)) := by
  simp [api_query_selftest_results, api_eval, Nat.mod_eq_of_lt, hw]

/-- INTENDED query_rollback_status: the component mask and the completion estimate as the BMC holds them -/
theorem query_rollback_status_refines (s : BmcState) :
    api_query_rollback_status.run s = (s, .ok (.rollback s.hpm.rollbackStatus s.hpm.rollbackEstimate)) := by
  rcases he : s.hpm.rollbackEstimate with _ | e <;> simp [api_query_rollback_status, api_eval, he]

/-- AS SHIPPED: nothing but a non-zero completion estimate -/
theorem query_rollback_status_shipped_run (s : BmcState) :
    api_query_rollback_status_shipped.run s =
      (s, .ok (.optNatPair none (match s.hpm.rollbackEstimate with | some 0 => none | e => e))) := by
  rcases he : s.hpm.rollbackEstimate with _ | _ | n <;> simp [api_query_rollback_status_shipped, api_eval, he]

/-! ### Get Component Properties: the description string -/

theorem filter_padTo (d : List Nat) (h : DescrWf d) : (padTo 12 d).filter (· != 0) = d := by
  obtain ⟨hl, hc⟩ := h
  have h1 : d.filter (· != 0) = d := by
    rw [List.filter_eq_self]; intro c hm; have := (hc c hm).1; simp; omega
  simp [padTo, List.take_append, List.take_of_length_le hl, List.filter_append, h1, List.take_replicate, List.filter_replicate]
  intro a ha
  have := List.mem_of_mem_take ha
  simpa using this

theorem padTo_cons (n : Nat) (d : List Nat) : ∃ a t, padTo (n + 1) d = a :: t := by
  have h := padTo_length (n + 1) d
  rcases hp : padTo (n + 1) d with _ | ⟨a, t⟩
  · rw [hp] at h; simp at h
  · exact ⟨a, t, rfl⟩

/-- the description selector is property 2 of HPM.1 table 3-5 -/
theorem hpmDescriptionSelector_law : hpmDescriptionSelector = 2 := by decide

/-- INTENDED get_component_property(id, PROPERTY_DESCRIPTION_STRING): exactly the characters the IPMC holds for
an existing component, CompletionCodeError(82h) for a component that does not exist -/
theorem get_component_description_refines (id : Nat) (s : BmcState) (h : id < 256)
    (hw : DescrWf (get_component_description id s)) :
    (api_get_component_description id).run s =
      present (s, if has_component id s then .text (get_component_description id s) else .error ccHpmInvalidComponent) := by
  have e1 : id % 256 = id := by omega
  obtain ⟨a, t, ht⟩ := padTo_cons 11 (get_component_description id s)
  have hf := filter_padTo _ hw
  rw [ht] at hf
  cases hc : has_component id s
  · simp [api_get_component_description, getComponentDescription, api_eval, hpmDescriptionSelector_law, present,
      Result.toOutcome, ccHpmInvalidComponent, e1, hc]
  · simp [api_get_component_description, getComponentDescription, descrOf, api_eval, hpmDescriptionSelector_law, present,
      Result.toOutcome, component_property, e1, hc, ht]
    simpa using hf

end PyIpmi.Lemmas.Api
