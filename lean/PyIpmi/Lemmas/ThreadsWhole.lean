/-
  C14 — lemmas about clause (W) of the specification's monitor (`Spec.Threads.wholeExchanges`: the datagrams of one
  call are consecutive datagrams of the wire log): a run of consecutive numbers contains everything between two of its
  members, and under clause (X) a serial names exactly one datagram (serial = position among the transmissions).
-/
import PyIpmi.Spec.Threads
namespace PyIpmi.Threads
open PyIpmi.Spec.Threads

theorem consecutive_lb : ∀ (l : List Nat) (x : Nat), consecutive (x :: l) = true → ∀ e ∈ x :: l, x ≤ e
  | [], x, _, e, he => by simp at he; omega
  | y :: r, x, h, e, he => by
    simp only [consecutive, Bool.and_eq_true, beq_iff_eq] at h
    rcases List.mem_cons.mp he with rfl | he
    · omega
    · have := consecutive_lb r y h.2 e he
      omega

theorem consecutive_between : ∀ (l : List Nat), consecutive l = true → ∀ a b n, a ∈ l → b ∈ l → a ≤ n → n ≤ b → n ∈ l
  | [], _, a, _, _, ha, _, _, _ => by simp at ha
  | [x], _, a, b, n, ha, hb, h1, h2 => by
    simp at ha hb; subst ha; subst hb; simp; omega
  | x :: y :: r, h, a, b, n, ha, hb, h1, h2 => by
    have h' := h
    simp only [consecutive, Bool.and_eq_true, beq_iff_eq] at h'
    have lb := consecutive_lb r y h'.2
    by_cases hn : n = x
    · subst hn; simp
    · have ih := consecutive_between (y :: r) h'.2
      have hxa : x ≤ a := consecutive_lb (y :: r) x h a ha
      have hbr : b ∈ y :: r := by
        rcases List.mem_cons.mp hb with rfl | hb
        · omega
        · exact hb
      rcases List.mem_cons.mp ha with rfl | ha
      · exact List.mem_cons_of_mem _ (ih y b n (by simp) hbr (by omega) h2)
      · exact List.mem_cons_of_mem _ (ih a b n ha hbr h1 h2)

theorem exch_mono : ∀ (w : List WEv) (m : Mon), (w.foldl Mon.step m).exch = true → m.exch = true
  | [], _, h => h
  | e :: w, m, h => by
    have := exch_mono w (m.step e) h
    cases e <;> simp [Mon.step] at this <;> simp [this]

theorem serial_names_one : ∀ (w : List WEv) (m : Mon), (w.foldl Mon.step m).exch = true →
    (∀ t n s r k, WEv.tx t n s r k ∈ w → m.ntx ≤ n) ∧
    (∀ t t' n s r k s' r' k', WEv.tx t n s r k ∈ w → WEv.tx t' n s' r' k' ∈ w → t = t')
  | [], _, _ => by simp
  | e :: w, m, h => by
    have ih := serial_names_one w (m.step e) h
    have hm := exch_mono w (m.step e) h
    cases e with
    | tx t0 n0 s0 r0 k0 =>
      simp [Mon.step] at hm ih
      obtain ⟨ih1, ih2⟩ := ih
      have hn0 : n0 = m.ntx := hm.2
      refine ⟨?_, ?_⟩
      · intro t n s r k hin
        rcases List.mem_cons.mp hin with heq | hin
        · cases heq; omega
        · have := ih1 t n s r k hin; omega
      · intro t t' n s r k s' r' k' h1 h2
        rcases List.mem_cons.mp h1 with heq1 | h1 <;> rcases List.mem_cons.mp h2 with heq2 | h2
        · cases heq1; cases heq2; rfl
        · cases heq1; have := ih1 _ _ _ _ _ h2; omega
        · cases heq2; have := ih1 _ _ _ _ _ h1; omega
        · exact ih2 _ _ _ _ _ _ _ _ _ h1 h2
    | rx t0 n0 =>
      simp [Mon.step] at ih
      obtain ⟨ih1, ih2⟩ := ih
      refine ⟨fun t n s r k hin => ih1 t n s r k (by simpa using hin), fun t t' n s r k s' r' k' h1 h2 =>
        ih2 _ _ _ _ _ _ _ _ _ (by simpa using h1) (by simpa using h2)⟩
    | to t0 n0 =>
      simp [Mon.step] at ih
      obtain ⟨ih1, ih2⟩ := ih
      refine ⟨fun t n s r k hin => ih1 t n s r k (by simpa using hin), fun t t' n s r k s' r' k' h1 h2 =>
        ih2 _ _ _ _ _ _ _ _ _ (by simpa using h1) (by simpa using h2)⟩

theorem sentBy_mem (w : List WEv) (t n : Nat) (h : sentBy w t n = true) : ∃ s r k, WEv.tx t n s r k ∈ w := by
  simp only [sentBy, List.any_eq_true] at h
  obtain ⟨e, he, hp⟩ := h
  cases e with
  | tx t' n' s r k =>
    simp at hp
    exact ⟨s, r, k, by rw [← hp.1, ← hp.2]; exact he⟩
  | rx _ _ => simp at hp
  | to _ _ => simp at hp

end PyIpmi.Threads
