/-
  Lemmas/SelScript.lean — the SEL loops (Model/SelXfer.lean) against an outcome script
  (Model/SelScript.lean), for C13:

  * the pinned loops do not end: `entry_spins` (every Get SEL Entry answered CAh: all fuel is used,
    for every fuel), `gac_cancel_round` / `gac_spins` (every Get answered C5h);
  * the repaired loops: `entry_bound` (≤ 33 requests whatever the script), `entry_gives_up`
    (CAh for ever: RetryError after exactly 17), `gac_bound` (≤ 35 requests per round of the budget),
    `gac_spins` (C5h for ever: RetryError after 2·budget requests);
  * a failed Reserve SEL ends get-and-clear with that error, nothing is sent after it
    (`gac_reserve_failure`, any peer).
-/
import PyIpmi.Model.SelScript
import PyIpmi.Lemmas.XferSel
namespace PyIpmi.SelXfer
open PyIpmi PyIpmi.Model.Retry
open PyIpmi.FruXfer (Wire Xchg Send World Res xchg castErr)

/-! ### what the scripted device answers -/

theorem wireByte_lt (i : Int) : wireByte i < 256 := by unfold wireByte; omega

theorem script_get_cc (d : ScriptSel) (r rid off len : Nat) (h : d.script.next.1.code ≠ 0) :
    scriptSend d (getReq r rid off len).cmd (getReq r rid off len).payload =
      ({ d with script := d.script.next.2 }, [d.script.next.1.code]) := by
  simp [scriptSend, getReq, h]

theorem script_get_ok (d : ScriptSel) (r rid off len : Nat) (hoff : off < 256) (hlen : len < 256)
    (h : d.script.next.1.code = 0) :
    scriptSend d (getReq r rid off len).cmd (getReq r rid off len).payload =
      ({ d with script := d.script.next.2 }, 0 :: d.next % 256 :: d.next / 256 % 256 ::
        (if len = 0xFF then d.entry.drop off else (d.entry.drop off).take len)) := by
  simp [scriptSend, getReq, leBytes, h, Nat.mod_eq_of_lt hoff, Nat.mod_eq_of_lt hlen]

theorem script_delete_cc (d : ScriptSel) (r rid : Nat) (h : d.script.next.1.code ≠ 0) :
    scriptSend d (deleteReq r rid).cmd (deleteReq r rid).payload =
      ({ d with script := d.script.next.2 }, [d.script.next.1.code]) := by
  simp [scriptSend, deleteReq, h]

theorem script_reserve_nil (d : ScriptSel) (h : d.rplan = []) :
    scriptSend d reserveReq.cmd reserveReq.payload =
      ({ d with lastRes := d.lastRes + 1, rplan := [] },
        [0, (d.lastRes + 1) % 256, (d.lastRes + 1) / 256 % 256]) := by
  simp [scriptSend, reserveReq, h, ScriptSel.grant]

theorem script_next_tail (t : Letter) : (⟨[], t⟩ : Script).next = (t, ⟨[], t⟩) := rfl

/-! ### as shipped: the loops do not end -/

theorem shrink_asShipped (cfg : Cfg) (m : Int) :
    shrink cfg .asShipped m = some (if m = (cfg.entire : Int) then (cfg.full : Int) else m - (cfg.step : Int)) := by
  unfold shrink; split <;> rfl

/-- **get_sel_entry as shipped, every request answered CAh**: whatever fuel the model is given, all
of it is used - `fuel` requests, no result.  (`max_req_len` goes FFh, 16, 15 … 1, 0, −1 …) -/
theorem entry_spins : ∀ (fuel : Nat) (w : World ScriptSel) (res rid : Nat) (m : Int) (acc : List Nat),
    w.dev.script = ⟨[], .other 0xCA⟩ →
    (entryLoop stdCfg .asShipped scriptSend fuel w res rid m acc).out = .pyError "nontermination" ∧
    (entryLoop stdCfg .asShipped scriptSend fuel w res rid m acc).w.trace.length = w.trace.length + fuel := by
  intro fuel
  induction fuel with
  | zero => intro w res rid m acc _; exact ⟨rfl, rfl⟩
  | succ fuel ih =>
    intro w res rid m acc hs
    have hc : w.dev.script.next.1.code ≠ 0 := by rw [hs]; decide
    have hc' : w.dev.script.next.1.code = 202 := by rw [hs]; rfl
    have hn : w.dev.script.next.2 = ⟨[], .other 0xCA⟩ := by rw [hs]; rfl
    unfold entryLoop
    simp only [xchg, script_get_cc _ _ _ _ _ hc, hc', decodeGet_cc 202 (by decide), std_ccShrink, if_true,
      shrink_asShipped]
    have := ih ⟨{ w.dev with script := w.dev.script.next.2 },
      w.trace ++ [⟨getReq res rid acc.length (wireByte (reqLen stdCfg m acc.length)), [202]⟩]⟩ res rid
      (if m = (stdCfg.entire : Int) then (stdCfg.full : Int) else m - (stdCfg.step : Int)) acc hn
    refine ⟨this.1, ?_⟩
    rw [this.2]; simp only [List.length_append, List.length_singleton]; omega

/-- One round of get-and-clear against "every Get SEL Entry is answered C5h". -/
theorem gac_spins (v : Variant) : ∀ (n : Nat) (w : World ScriptSel) (rid : Nat),
    w.dev.script = ⟨[], .resCancelled⟩ → w.dev.rplan = [] →
    (getAndClear stdCfg v scriptSend n w rid).out = gacExhausted v ∧
    (getAndClear stdCfg v scriptSend n w rid).w.trace.length = w.trace.length + 2 * n := by
  intro n
  induction n with
  | zero => intro w rid _ _; exact ⟨rfl, rfl⟩
  | succ n ih =>
    intro w rid hs hp
    unfold getAndClear
    simp only [reserve, xchg, script_reserve_nil _ hp, decodeU16_of_ok]
    generalize hw1 : (⟨{ w.dev with lastRes := w.dev.lastRes + 1, rplan := [] }, w.trace ++
      [⟨reserveReq, [0, (w.dev.lastRes + 1) % 256, (w.dev.lastRes + 1) / 256 % 256]⟩]⟩ : World ScriptSel) = w1
    have hs1 : w1.dev.script = ⟨[], .resCancelled⟩ := by rw [← hw1]; exact hs
    have hp1 : w1.dev.rplan = [] := by rw [← hw1]
    have hl1 : w1.trace.length = w.trace.length + 1 := by rw [← hw1]; simp
    have hc : w1.dev.script.next.1.code ≠ 0 := by rw [hs1]; decide
    have hc' : w1.dev.script.next.1.code = 197 := by rw [hs1]; rfl
    have hn : w1.dev.script.next.2 = ⟨[], .resCancelled⟩ := by rw [hs1]; rfl
    simp only [getSelEntry, entryFuel]
    rw [entryLoop]
    simp only [xchg, script_get_cc _ _ _ _ _ hc, hc', decodeGet_cc 197 (by decide), std_ccShrink, std_ccCancel,
      show (197 : Nat) = 202 ↔ False by decide, if_false, ne_eq, show ¬ (197 : Nat) = 0 by decide,
      not_false_eq_true, if_true]
    constructor
    · refine (ih _ rid ?_ ?_).1
      · exact hn
      · exact hp1
    · refine Eq.trans (ih _ rid ?_ ?_).2 ?_
      · exact hn
      · exact hp1
      · simp only [List.length_append, List.length_singleton, hl1]; omega

/-! ### repaired: bounded for every script -/

/-- `max_req_len` has a floor at 0 (the repaired get_sel_entry). -/
def Floored (v : Variant) : Prop := v.floor = some 0

theorem floored_floorOk {v : Variant} (h : Floored v) : FloorOk v := by
  intro f hf; rw [h] at hf; cases hf; exact Int.le_refl _

theorem shrink_one {v : Variant} (h : Floored v) : shrink stdCfg v ((1 : Nat) : Int) = none := by
  have he : (stdCfg.entire : Int) = 255 := rfl
  have hs : (stdCfg.step : Int) = 1 := rfl
  unfold shrink
  rw [if_neg (by omega), h]
  simp only []
  rw [if_pos (by omega)]

/-- requests get_sel_entry can still make: shrink steps left + bytes missing -/
def entryMeasure (m : Nat) (acc : List Nat) : Nat := (if m = 255 then 17 else m) + (16 - acc.length)

theorem entryMeasure_pos (m : Nat) (acc : List Nat) (h : acc.length < 16) : 1 ≤ entryMeasure m acc := by
  unfold entryMeasure; omega

/-- **get_sel_entry repaired, ANY outcome script**: the loop ends (never out of fuel) after at most
`entryMeasure` requests - 17 shrink steps (FFh, 16 … 1) plus one request per byte at worst. -/
theorem entry_bound (v : Variant) (hv : Floored v) :
    ∀ (fuel : Nat) (w : World ScriptSel) (res rid m : Nat) (acc : List Nat),
      w.dev.entry.length = 16 → acc.length < 16 → ((m = 255 ∧ acc = []) ∨ (1 ≤ m ∧ m ≤ 16)) →
      entryMeasure m acc + 1 ≤ fuel →
      (entryLoop stdCfg v scriptSend fuel w res rid (m : Int) acc).out ≠ .pyError "nontermination" ∧
      (entryLoop stdCfg v scriptSend fuel w res rid (m : Int) acc).w.trace.length ≤ w.trace.length + entryMeasure m acc ∧
      (entryLoop stdCfg v scriptSend fuel w res rid (m : Int) acc).w.dev.entry = w.dev.entry := by
  have hfl := floored_floorOk hv
  intro fuel
  induction fuel with
  | zero => intro w res rid m acc _ _ _ hfu; omega
  | succ fuel ih =>
    intro w res rid m acc he hal hm hfu
    have hm256 : m < 256 := by rcases hm with ⟨h, _⟩ | ⟨_, h⟩ <;> omega
    have hpos : 1 ≤ entryMeasure m acc := entryMeasure_pos m acc hal
    unfold entryLoop
    simp only [wire_reqLen m acc.length hm256 (by omega)]
    generalize hq : reqLenN m acc.length = len
    have hlenlt : len < 256 := by rw [← hq]; unfold reqLenN; split <;> omega
    simp only [std_ccShrink, std_recLen, xchg]
    by_cases hc0 : w.dev.script.next.1.code = 0
    · -- served
      rw [script_get_ok _ _ _ _ _ (by omega) hlenlt hc0]
      simp only [decodeGet_ok, show (0 : Nat) = 202 ↔ False by decide, if_false, ne_eq, not_true_eq_false]
      rcases hm with ⟨hm, ha⟩ | ⟨hm1, hm16⟩
      · subst hm; subst ha
        have : len = 255 := by rw [← hq]; simp [reqLenN]
        subst this
        simp only [if_true, List.length_nil, List.drop_zero, List.nil_append, he, ge_iff_le, Nat.le_refl]
        exact ⟨selEntry_ne_py _ _ _, (by simp only [List.length_append, List.length_singleton]; omega), (by first | rfl | trivial)⟩
      · have hm255 : m ≠ 255 := by omega
        have hq' : len = if acc.length + m > 16 then 16 - acc.length else m := by
          rw [← hq]; simp [reqLenN, hm255]
        have hq1 : 1 ≤ len := by rw [hq']; split <;> omega
        have hq3 : acc.length + len ≤ 16 := by rw [hq']; split <;> omega
        have hn255 : ¬ len = 255 := by omega
        simp only [hn255, if_false]
        have hnl : (acc ++ (w.dev.entry.drop acc.length).take len).length = acc.length + len := by
          simp only [List.length_append, List.length_take, List.length_drop, he]; omega
        rw [hnl]
        by_cases hdone : acc.length + len ≥ 16
        · simp only [hdone, if_true]
          exact ⟨selEntry_ne_py _ _ _, (by simp only [List.length_append, List.length_singleton]; omega), (by first | rfl | trivial)⟩
        · simp only [hdone, if_false]
          have := ih ⟨{ w.dev with script := w.dev.script.next.2 }, w.trace ++ [⟨getReq res rid acc.length len,
            0 :: w.dev.next % 256 :: w.dev.next / 256 % 256 :: (w.dev.entry.drop acc.length).take len⟩]⟩ res rid m
            (acc ++ (w.dev.entry.drop acc.length).take len) he (by rw [hnl]; omega) (Or.inr ⟨hm1, hm16⟩)
            (by simp only [entryMeasure, if_neg hm255, hnl] at hfu ⊢; omega)
          refine ⟨this.1, ?_, this.2.2⟩
          refine Nat.le_trans this.2.1 ?_
          simp only [entryMeasure, if_neg hm255, hnl, List.length_append, List.length_singleton]; omega
    · -- answered with a completion code
      rw [script_get_cc _ _ _ _ _ hc0, decodeGet_cc _ hc0]
      simp only []
      by_cases hca : w.dev.script.next.1.code = 202
      · simp only [hca, if_true]
        rcases hm with ⟨hm, ha⟩ | ⟨hm1, hm16⟩
        · subst hm; subst ha
          simp only [shrink_entire]
          have := ih ⟨{ w.dev with script := w.dev.script.next.2 }, w.trace ++ [⟨getReq res rid ([] : List Nat).length len, [202]⟩]⟩
            res rid 16 [] he (by simp) (Or.inr ⟨by omega, by omega⟩) (by simp [entryMeasure] at hfu ⊢; omega)
          refine ⟨this.1, ?_, this.2.2⟩
          refine Nat.le_trans this.2.1 ?_
          simp [entryMeasure]
        · have hm255 : m ≠ 255 := by omega
          by_cases h1 : m = 1
          · subst h1
            simp only [shrink_one hv]
            exact ⟨(by intro h; cases h), (by simp only [List.length_append, List.length_singleton]; omega), (by first | rfl | trivial)⟩
          · simp only [shrink_dec v hfl m (by omega) hm255]
            have := ih ⟨{ w.dev with script := w.dev.script.next.2 }, w.trace ++ [⟨getReq res rid acc.length len, [202]⟩]⟩
              res rid (m - 1) acc he hal (Or.inr ⟨by omega, by omega⟩)
              (by simp only [entryMeasure, if_neg hm255] at hfu; simp only [entryMeasure]; rw [if_neg (by omega)]; omega)
            refine ⟨this.1, ?_, this.2.2⟩
            refine Nat.le_trans this.2.1 ?_
            simp only [entryMeasure, if_neg hm255, List.length_append, List.length_singleton]
            rw [if_neg (by omega)]; omega
      · simp only [hca, if_false, ne_eq, hc0, not_false_eq_true, if_true]
        exact ⟨(by intro h; cases h), (by simp only [List.length_append, List.length_singleton]; omega), (by first | rfl | trivial)⟩

/-- **CAh for ever**: the repaired get_sel_entry asks FFh, 16, 15 … 1 - 17 requests - and raises
RetryError. -/
theorem entry_gives_up_partial (v : Variant) (hv : Floored v) :
    ∀ (m : Nat) (fuel : Nat) (w : World ScriptSel) (res rid : Nat), 1 ≤ m → m ≤ 16 → m ≤ fuel →
      w.dev.script = ⟨[], .other 0xCA⟩ →
      (entryLoop stdCfg v scriptSend fuel w res rid (m : Int) []).out = .retryError ∧
      (entryLoop stdCfg v scriptSend fuel w res rid (m : Int) []).w.trace.length = w.trace.length + m := by
  have hfl := floored_floorOk hv
  intro m
  induction m with
  | zero => intro _ _ _ _ h; omega
  | succ k ih =>
    intro fuel w res rid _ h16 hfu hs
    obtain ⟨f, rfl⟩ : ∃ f, fuel = f + 1 := ⟨fuel - 1, by omega⟩
    have hc : w.dev.script.next.1.code ≠ 0 := by rw [hs]; decide
    have hc' : w.dev.script.next.1.code = 202 := by rw [hs]; rfl
    have hn : w.dev.script.next.2 = ⟨[], .other 0xCA⟩ := by rw [hs]; rfl
    unfold entryLoop
    simp only [xchg, script_get_cc _ _ _ _ _ hc, hc', decodeGet_cc 202 (by decide), std_ccShrink, if_true]
    by_cases hk : k = 0
    · subst hk
      simp only [shrink_one hv]
      constructor <;> simp
    · simp only [shrink_dec v hfl (k + 1) (by omega) (by omega), Nat.add_sub_cancel]
      constructor
      · refine (ih f _ res rid (by omega) (by omega) (by omega) ?_).1
        exact hn
      · refine Eq.trans (ih f _ res rid (by omega) (by omega) (by omega) ?_).2 ?_
        · exact hn
        · simp only [List.length_append, List.length_singleton]; omega

theorem entry_gives_up (v : Variant) (hv : Floored v) (w : World ScriptSel) (rid res : Nat)
    (hs : w.dev.script = ⟨[], .other 0xCA⟩) :
    (getSelEntry stdCfg v scriptSend w rid res).out = .retryError ∧
    (getSelEntry stdCfg v scriptSend w rid res).w.trace.length = w.trace.length + 17 := by
  have hc : w.dev.script.next.1.code ≠ 0 := by rw [hs]; decide
  have hc' : w.dev.script.next.1.code = 202 := by rw [hs]; rfl
  have hn : w.dev.script.next.2 = ⟨[], .other 0xCA⟩ := by rw [hs]; rfl
  simp only [getSelEntry, entryFuel]
  rw [entryLoop]
  simp only [xchg, script_get_cc _ _ _ _ _ hc, hc', decodeGet_cc 202 (by decide), std_ccShrink, if_true]
  have he : ((stdCfg.entire : Nat) : Int) = ((255 : Nat) : Int) := rfl
  rw [he, shrink_entire]
  simp only []
  constructor
  · refine (entry_gives_up_partial v hv 16 63 _ res rid (by omega) (by omega) (by omega) ?_).1
    exact hn
  · refine Eq.trans (entry_gives_up_partial v hv 16 63 _ res rid (by omega) (by omega) (by omega) ?_).2 ?_
    · exact hn
    · simp only [List.length_append, List.length_singleton]

/-- the completion code of an exchange that get_sel_entry has no branch for (neither OK nor the shrink code) -/
def refusedWith (cfg : Cfg) (x : Xchg) : Option Nat :=
  match decodeGetRsp x.rsp with
  | .ok (cc, _, _) => if cc ≠ 0 ∧ cc ≠ cfg.ccShrink then some cc else none
  | _ => none

/-- **Whatever the peer does, either variant**: a Get SEL Entry answered with a completion code other
than 00h and CAh ends get_sel_entry with CompletionCodeError(that code); it is the last request. -/
theorem entry_code_propagates {σ} (cfg : Cfg) (v : Variant) (send : Send σ) (r rid : Nat) :
    ∀ (fuel : Nat) (w : World σ) (m : Int) (acc : List Nat),
      ∃ ext, (entryLoop cfg v send fuel w r rid m acc).w.trace = w.trace ++ ext ∧
        ∀ x ∈ ext, ∀ c, refusedWith cfg x = some c →
          (entryLoop cfg v send fuel w r rid m acc).out = .ccError c ∧ ext.getLast? = some x := by
  intro fuel
  induction fuel with
  | zero => intro w m acc; exact ⟨[], by simp [entryLoop], by intro x hx; cases hx⟩
  | succ fuel ih =>
    intro w m acc
    unfold entryLoop
    dsimp only
    generalize hlen : wireByte (reqLen cfg m acc.length) = len
    generalize hx1 : xchg send w (getReq r rid acc.length len) = x1
    have ht1 : x1.1.trace = w.trace ++ [⟨getReq r rid acc.length len, x1.2⟩] := by rw [← hx1]; rfl
    have more : ∀ (m' : Int) (acc' : List Nat), refusedWith cfg ⟨getReq r rid acc.length len, x1.2⟩ = none →
        ∃ ext, (entryLoop cfg v send fuel x1.1 r rid m' acc').w.trace = w.trace ++ ext ∧
          ∀ x ∈ ext, ∀ c, refusedWith cfg x = some c →
            (entryLoop cfg v send fuel x1.1 r rid m' acc').out = .ccError c ∧ ext.getLast? = some x := by
      intro m' acc' h0
      obtain ⟨ext', h1, h2⟩ := ih x1.1 m' acc'
      refine ⟨⟨getReq r rid acc.length len, x1.2⟩ :: ext', by rw [h1, ht1]; simp, ?_⟩
      intro x hx c hc
      simp only [List.mem_cons] at hx
      rcases hx with hx | hx
      · rw [hx, h0] at hc; cases hc
      · obtain ⟨ho, hl⟩ := h2 x hx c hc
        refine ⟨ho, ?_⟩
        have hne : ext' ≠ [] := by intro h; rw [h] at hx; cases hx
        rw [List.getLast?_cons_of_ne_nil hne]  -- the last of a non-empty tail
        exact hl
    have stop : ∀ (out : Outcome (List Nat × Nat)),
        (∀ c, refusedWith cfg ⟨getReq r rid acc.length len, x1.2⟩ = some c → out = .ccError c) →
        ∃ ext, x1.1.trace = w.trace ++ ext ∧
          ∀ x ∈ ext, ∀ c, refusedWith cfg x = some c → out = .ccError c ∧ ext.getLast? = some x := by
      intro out h0
      refine ⟨[⟨getReq r rid acc.length len, x1.2⟩], ht1, ?_⟩
      intro x hx c hc
      simp only [List.mem_singleton] at hx
      subst hx
      exact ⟨h0 c hc, rfl⟩
    cases hdec : decodeGetRsp x1.2 with
    | ok p =>
      obtain ⟨cc, next, data⟩ := p
      simp only
      split
      · rename_i hcc
        have h0 : refusedWith cfg ⟨getReq r rid acc.length len, x1.2⟩ = none := by
          simp [refusedWith, hdec, hcc]
        split
        · exact more _ _ h0
        · exact stop _ (by intro c hc; rw [h0] at hc; cases hc)
      · rename_i hcc
        split
        · rename_i hne
          refine stop _ ?_
          intro c hc
          simp only [refusedWith, hdec, ne_eq, hne, not_false_eq_true, hcc, and_self, if_true, Option.some.injEq] at hc
          rw [hc]
        · rename_i hz
          have hz' : cc = 0 := by simpa using hz
          have h0 : refusedWith cfg ⟨getReq r rid acc.length len, x1.2⟩ = none := by
            simp [refusedWith, hdec, hz']
          split
          · exact stop _ (by intro c hc; rw [h0] at hc; cases hc)
          · exact more _ _ h0
    | _ =>
      refine stop _ ?_
      intro c hc
      simp [refusedWith, hdec] at hc

/-! ### get-and-clear, repaired: bounded for every script; a failed Reserve ends it -/

theorem script_entry_kept (d : ScriptSel) (cmd : Nat) (p : List Nat) : (scriptSend d cmd p).1.entry = d.entry := by
  unfold scriptSend
  split
  · split
    · rfl
    · split <;> rfl
  · split
    · dsimp only
      split
      · rfl
      · split <;> rfl
    · split
      · dsimp only
        split
        · rfl
        · split <;> rfl
      · rfl

theorem decodeU16_ne_py (raw : List Nat) (s : String) : decodeU16Rsp raw ≠ .pyError s := by
  unfold decodeU16Rsp
  split
  · intro h; cases h
  · split
    · intro h; cases h
    · split <;> intro h <;> cases h

theorem castErr_ne_nonterm {α β} (x : Outcome α) (hx : x ≠ .pyError "nontermination") :
    (castErr x : Outcome β) ≠ .pyError "nontermination" := by
  cases x with
  | pyError n => intro h; simp only [castErr, Outcome.pyError.injEq] at h; exact hx (by rw [h])
  | ok a => intro h; simp only [castErr, Outcome.pyError.injEq] at h; exact absurd h (by decide)
  | _ => intro h; cases h

/-- **get_and_clear_sel_entry repaired, ANY outcome script** (Get / Delete and Reserve outcomes):
the call ends - never out of fuel - after at most 35 requests per round of its budget (Reserve,
≤ 33 Get SEL Entry, Delete). -/
theorem gac_bound (v : Variant) (hv : Floored v) (hb : v.budget.isSome = true) :
    ∀ (n : Nat) (w : World ScriptSel) (rid : Nat), w.dev.entry.length = 16 →
      (getAndClear stdCfg v scriptSend n w rid).out ≠ .pyError "nontermination" ∧
      (getAndClear stdCfg v scriptSend n w rid).w.trace.length ≤ w.trace.length + 35 * n := by
  intro n
  induction n with
  | zero =>
    intro w rid _
    simp only [getAndClear, gacExhausted, hb, if_true]
    exact ⟨(by intro h; cases h), Nat.le_refl _⟩
  | succ n ih =>
    intro w rid he
    unfold getAndClear
    simp only [reserve, deleteEntry, xchg]
    generalize hx1 : scriptSend w.dev reserveReq.cmd reserveReq.payload = x1
    have he1 : x1.1.entry.length = 16 := by rw [← hx1, script_entry_kept]; exact he
    cases hres : decodeU16Rsp x1.2 with
    | ok res =>
      simp only
      have hgb := entry_bound v hv entryFuel ⟨x1.1, w.trace ++ [⟨reserveReq, x1.2⟩]⟩ res rid 255 [] he1 (by simp)
        (Or.inl ⟨rfl, rfl⟩) (by simp [entryMeasure, entryFuel])
      have hgdef : getSelEntry stdCfg v scriptSend ⟨x1.1, w.trace ++ [⟨reserveReq, x1.2⟩]⟩ rid res =
          entryLoop stdCfg v scriptSend entryFuel ⟨x1.1, w.trace ++ [⟨reserveReq, x1.2⟩]⟩ res rid ((255 : Nat) : Int) [] := rfl
      rw [← hgdef] at hgb
      generalize getSelEntry stdCfg v scriptSend ⟨x1.1, w.trace ++ [⟨reserveReq, x1.2⟩]⟩ rid res = g at hgb
      obtain ⟨hg1, hg2, hg3⟩ := hgb
      have hg2' : g.w.trace.length ≤ w.trace.length + 34 := by
        have e33 : entryMeasure 255 [] = 33 := by decide
        rw [e33] at hg2
        simp only [List.length_append, List.length_singleton] at hg2; omega
      have heg : g.w.dev.entry.length = 16 := by rw [hg3]; exact he1
      cases hgo : g.out with
      | ok p =>
        obtain ⟨e, nx⟩ := p
        simp only
        generalize hx2 : scriptSend g.w.dev (deleteReq res rid).cmd (deleteReq res rid).payload = x2
        have he2 : x2.1.entry.length = 16 := by rw [← hx2, script_entry_kept]; exact heg
        cases hdel : decodeU16Rsp x2.2 with
        | ok v' =>
          simp only
          exact ⟨(by intro h; cases h), by simp only [List.length_append, List.length_singleton]; omega⟩
        | ccError c =>
          simp only
          split
          · have := ih ⟨x2.1, g.w.trace ++ [⟨deleteReq res rid, x2.2⟩]⟩ rid he2
            refine ⟨this.1, Nat.le_trans this.2 ?_⟩
            simp only [List.length_append, List.length_singleton]; omega
          · exact ⟨(by intro h; cases h), by simp only [List.length_append, List.length_singleton]; omega⟩
        | pyError s => exact absurd hdel (decodeU16_ne_py _ _)
        | _ => simp only [castErr]; exact ⟨(by intro h; cases h), by simp only [List.length_append, List.length_singleton]; omega⟩
      | ccError c =>
        simp only
        split
        · have := ih g.w rid heg
          exact ⟨this.1, Nat.le_trans this.2 (by omega)⟩
        · exact ⟨(by intro h; cases h), by show g.w.trace.length ≤ _; omega⟩
      | pyError s =>
        simp only [castErr]
        refine ⟨?_, by omega⟩
        intro h
        simp only [Outcome.pyError.injEq] at h
        exact hg1 (by rw [hgo, h])
      | _ => simp only [castErr]; exact ⟨(by intro h; cases h), by omega⟩
    | pyError s => exact absurd hres (decodeU16_ne_py _ _)
    | _ => simp only [castErr]; exact ⟨(by intro h; cases h), by simp only [List.length_append, List.length_singleton]; omega⟩

/-! A Reserve SEL that is refused (any peer): -/

/-- the completion code a failed Reserve SEL exchange carries -/
def failedReserve (x : Xchg) : Option Nat :=
  if x.req = reserveReq then
    match decodeU16Rsp x.rsp with
    | .ccError c => some c
    | _ => none
  else none

theorem isGet_not_reserve {r rid : Nat} {x : Xchg} (h : IsGet r rid x) : failedReserve x = none := by
  obtain ⟨off, len, h⟩ := h
  simp [failedReserve, h, getReq, reserveReq]

theorem delete_not_reserve (r rid : Nat) (rsp : List Nat) : failedReserve ⟨deleteReq r rid, rsp⟩ = none := by
  simp [failedReserve, deleteReq, reserveReq]

/-- **Whatever the peer does, either variant**: a Reserve SEL answered with completion code `c` -
the first one or a renewal after a cancellation - ends get_and_clear_sel_entry with
CompletionCodeError(c), and it is the last request of the call. -/
theorem gac_reserve_failure {σ} (cfg : Cfg) (v : Variant) (send : Send σ) (rid : Nat) :
    ∀ (n : Nat) (w : World σ), ∃ ext, (getAndClear cfg v send n w rid).w.trace = w.trace ++ ext ∧
      ∀ x ∈ ext, ∀ c, failedReserve x = some c →
        (getAndClear cfg v send n w rid).out = .ccError c ∧ ext.getLast? = some x := by
  intro n
  induction n with
  | zero => intro w; exact ⟨[], by simp [getAndClear], by intro x hx; cases hx⟩
  | succ n ih =>
    intro w
    unfold getAndClear
    simp only [reserve, deleteEntry, getSelEntry]
    generalize hx1 : xchg send w reserveReq = x1
    have ht1 : x1.1.trace = w.trace ++ [⟨reserveReq, x1.2⟩] := by rw [← hx1]; rfl
    cases hres : decodeU16Rsp x1.2 with
    | ok res =>
      simp only
      have hr0 : failedReserve ⟨reserveReq, x1.2⟩ = none := by simp [failedReserve, hres]
      obtain ⟨gets, hg1, hg2, _⟩ := entryLoop_trace cfg v send res rid entryFuel x1.1 (cfg.entire : Int) []
      generalize entryLoop cfg v send entryFuel x1.1 res rid (cfg.entire : Int) [] = g at hg1 ⊢
      have hgets : ∀ x ∈ gets, ∀ c, failedReserve x = some c → False := by
        intro x hx c hc; rw [isGet_not_reserve (hg2 x hx)] at hc; cases hc
      -- the call ends here: reserve, gets (and the delete)
      have stop : ∀ (tail : List Xchg) (out : Outcome (List Nat)),
          (∀ x ∈ tail, failedReserve x = none) →
          ∃ ext, w.trace ++ [⟨reserveReq, x1.2⟩] ++ gets ++ tail = w.trace ++ ext ∧
            ∀ x ∈ ext, ∀ c, failedReserve x = some c → out = .ccError c ∧ ext.getLast? = some x := by
        intro tail out htail
        refine ⟨[⟨reserveReq, x1.2⟩] ++ gets ++ tail, by simp, ?_⟩
        intro x hx c hc
        simp only [List.mem_append, List.mem_singleton] at hx
        rcases hx with (hx | hx) | hx
        · rw [hx, hr0] at hc; cases hc
        · exact absurd hc (fun h => hgets x hx c h)
        · rw [htail x hx] at hc; cases hc
      -- the call goes on with another round from world `w'` whose trace is the prefix below
      have more : ∀ (tail : List Xchg) (w' : World σ), (∀ x ∈ tail, failedReserve x = none) →
          w'.trace = w.trace ++ [⟨reserveReq, x1.2⟩] ++ gets ++ tail →
          ∃ ext, (getAndClear cfg v send n w' rid).w.trace = w.trace ++ ext ∧
            ∀ x ∈ ext, ∀ c, failedReserve x = some c →
              (getAndClear cfg v send n w' rid).out = .ccError c ∧ ext.getLast? = some x := by
        intro tail w' htail hw'
        obtain ⟨ext', h1, h2⟩ := ih w'
        refine ⟨[⟨reserveReq, x1.2⟩] ++ gets ++ tail ++ ext', by rw [h1, hw']; simp, ?_⟩
        intro x hx c hc
        simp only [List.mem_append, List.mem_singleton] at hx
        rcases hx with (((hx | hx) | hx) | hx)
        · rw [hx, hr0] at hc; cases hc
        · exact absurd hc (fun h => hgets x hx c h)
        · rw [htail x hx] at hc; cases hc
        · obtain ⟨ho, hl⟩ := h2 x hx c hc
          refine ⟨ho, ?_⟩
          rw [List.getLast?_append, hl]; rfl
      cases hgo : g.out with
      | ok p =>
        obtain ⟨e', nx⟩ := p
        simp only
        generalize hx2 : xchg send g.w (deleteReq res rid) = x2
        have ht2 : x2.1.trace = w.trace ++ [⟨reserveReq, x1.2⟩] ++ gets ++ [⟨deleteReq res rid, x2.2⟩] := by
          rw [← hx2]; simp only [xchg]; rw [hg1, ht1]
        have hdl : ∀ x ∈ [(⟨deleteReq res rid, x2.2⟩ : Xchg)], failedReserve x = none := by
          intro x hx; simp only [List.mem_singleton] at hx; rw [hx]; exact delete_not_reserve _ _ _
        cases hdel : decodeU16Rsp x2.2 with
        | ccError c =>
          simp only
          split
          · exact more _ x2.1 hdl ht2
          · simp only [ht2]; exact stop _ _ hdl
        | _ => simp only [ht2]; exact stop _ _ hdl
      | ccError c =>
        simp only
        split
        · exact more [] g.w (by intro x hx; cases hx) (by rw [hg1, ht1]; simp)
        · have := stop [] (.ccError c) (by intro x hx; cases hx)
          simpa [hg1, ht1] using this
      | _ =>
        have := stop [] (castErr g.out) (by intro x hx; cases hx)
        simpa [hg1, ht1, hgo] using this
    | ccError c =>
      simp only [castErr]
      refine ⟨[⟨reserveReq, x1.2⟩], ht1, ?_⟩
      intro x hx c' hc
      simp only [List.mem_singleton] at hx
      subst hx
      simp only [failedReserve, if_true, hres, Option.some.injEq] at hc
      subst hc
      exact ⟨rfl, rfl⟩
    | _ =>
      refine ⟨[⟨reserveReq, x1.2⟩], ht1, ?_⟩
      intro x hx c' hc
      simp only [List.mem_singleton] at hx
      subst hx
      simp [failedReserve, hres] at hc

end PyIpmi.SelXfer
