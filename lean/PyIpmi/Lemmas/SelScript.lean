/-
  Lemmas/SelScript.lean — the SEL loops (Model/SelXfer.lean) against an outcome script
  (Model/SelScript.lean), for C13:

  * the pinned loops do not end: `entry_spins` (every Get SEL Entry answered CAh: all fuel is used,
    for every fuel), `gac_cancel_round` / `gac_spins` (every Get answered C5h);
  * a completed answer WITHOUT a record byte (`Caps.zero`) is asked for again, for ever, by every
    variant that lacks the empty-answer stop - today's tree after 8f8257b included:
    `entry_spins_empty` (`fuel` identical requests for every fuel), `gac_never_returns_empty`;
  * the repaired loops: `entry_bound_gen` (≤ 33 requests: 17 lengths + 16 bytes) under `Progress` -
    ANY peer if the loop has the empty-answer stop (`progress_any`), the scripted device with short
    answers of ≥ 1 byte if it has not (`progress_script`) -, `entry_empty_gives_up` (RetryError on the
    empty answer itself), `entry_gives_up` (CAh for ever: RetryError after exactly 17), `gac_bound_gen`
    (≤ 35 requests per round of the budget), `gac_spins` (C5h for ever: RetryError after 2·budget
    requests);
  * a failed Reserve SEL ends get-and-clear with that error, nothing is sent after it
    (`gac_reserve_failure`, any peer).
-/
import PyIpmi.Model.SelScript
import PyIpmi.Lemmas.XferSel
namespace PyIpmi.SelXfer
open PyIpmi PyIpmi.Model.Retry
open PyIpmi.FruXfer (Wire Xchg Send World Res xchg castErr)

/-! ### what the scripted device answers -/

theorem wireByte_lt (i : Int) : wireByte i < 256 := by unfold wireByte; omega

@[simp] theorem advance_entry (d : ScriptSel) : d.advance.entry = d.entry := rfl
@[simp] theorem advance_next (d : ScriptSel) : d.advance.next = d.next := rfl
@[simp] theorem advance_rplan (d : ScriptSel) : d.advance.rplan = d.rplan := rfl
@[simp] theorem advance_lastRes (d : ScriptSel) : d.advance.lastRes = d.lastRes := rfl
@[simp] theorem advance_script (d : ScriptSel) : d.advance.script = d.script.next.2 := rfl
@[simp] theorem advance_caps (d : ScriptSel) : d.advance.caps = d.caps.next.2 := rfl

theorem script_get_cc (d : ScriptSel) (r rid off len : Nat) (h : d.script.next.1.code ≠ 0) :
    scriptSend d (getReq r rid off len).cmd (getReq r rid off len).payload =
      (d.advance, [d.script.next.1.code]) := by
  simp [scriptSend, getReq, h]

theorem script_get_ok (d : ScriptSel) (r rid off len : Nat) (hoff : off < 256) (hlen : len < 256)
    (h : d.script.next.1.code = 0) :
    scriptSend d (getReq r rid off len).cmd (getReq r rid off len).payload =
      (d.advance, 0 :: d.next % 256 :: d.next / 256 % 256 ::
        cut d.caps.next.1 (if len = 0xFF then d.entry.drop off else (d.entry.drop off).take len)) := by
  simp [scriptSend, getReq, leBytes, h, Nat.mod_eq_of_lt hoff, Nat.mod_eq_of_lt hlen]

theorem script_delete_cc (d : ScriptSel) (r rid : Nat) (h : d.script.next.1.code ≠ 0) :
    scriptSend d (deleteReq r rid).cmd (deleteReq r rid).payload =
      (d.advance, [d.script.next.1.code]) := by
  simp [scriptSend, deleteReq, h]

theorem script_reserve_nil (d : ScriptSel) (h : d.rplan = []) :
    scriptSend d reserveReq.cmd reserveReq.payload =
      ({ d with lastRes := d.lastRes + 1, rplan := [] },
        [0, (d.lastRes + 1) % 256, (d.lastRes + 1) / 256 % 256]) := by
  simp [scriptSend, reserveReq, h, ScriptSel.grant]

theorem script_next_tail (t : Letter) : (⟨[], t⟩ : Script).next = (t, ⟨[], t⟩) := rfl

theorem caps_zero_next : Caps.zero.next = (some 0, Caps.zero) := rfl

theorem cut_zero (data : List Nat) : cut (some 0) data = [] := by simp [cut]

theorem Caps.Positive.next {c : Caps} (h : c.Positive) :
    c.next.2.Positive ∧ ∀ k, c.next.1 = some k → 1 ≤ k := by
  unfold Caps.next
  cases hp : c.pre with
  | nil => simp only; exact ⟨h, h.2⟩
  | cons x rest =>
    simp only
    refine ⟨⟨?_, h.2⟩, ?_⟩
    · intro k hk; exact h.1 k (by rw [hp]; exact List.mem_cons_of_mem _ hk)
    · intro k hk; exact h.1 k (by rw [hp, hk]; exact List.mem_cons_self)

theorem caps_full_positive : Caps.full.Positive := by
  unfold Caps.Positive Caps.full
  exact ⟨(by intro k h; cases h), (by intro k h; cases h)⟩

/-- a cap that leaves a byte leaves a non-empty answer non-empty -/
theorem cut_length_pos (cap : Option Nat) (data : List Nat) (hc : ∀ k, cap = some k → 1 ≤ k)
    (hd : 1 ≤ data.length) : 1 ≤ (cut cap data).length := by
  cases cap with
  | none => exact hd
  | some k =>
    have := hc k rfl
    simp only [cut, List.length_take]; omega

/-! ### as shipped: the loops do not end -/

theorem shrink_asShipped (cfg : Cfg) (m : Int) :
    shrink cfg .asShipped m = some (if m = (cfg.entire : Int) then (cfg.full : Int) else m - (cfg.step : Int)) := by
  unfold shrink; split <;> rfl

/-- **get_sel_entry as shipped, every request answered CAh**: whatever fuel the model is given, all
of it is used - `fuel` requests, no result.  (`max_req_len` goes FFh, 16, 15 … 1, 0, −1 …) -/
theorem entry_spins : ∀ (fuel : Nat) (w : World ScriptSel) (res rid : Nat) (m : Int) (acc : List Nat),
    w.dev.script = ⟨[], .other 0xCA⟩ →
    (entryLoop stdCfg .asShipped scriptSend fuel w res rid m acc).out = .pyError "nontermination" ∧
    (entryLoop stdCfg .asShipped scriptSend fuel w res rid m acc).w.trace.length = w.trace.length + fuel := by
  intro fuel
  induction fuel with
  | zero => intro w res rid m acc _; exact ⟨rfl, rfl⟩
  | succ fuel ih =>
    intro w res rid m acc hs
    have hc : w.dev.script.next.1.code ≠ 0 := by rw [hs]; decide
    have hc' : w.dev.script.next.1.code = 202 := by rw [hs]; rfl
    have hn : w.dev.script.next.2 = ⟨[], .other 0xCA⟩ := by rw [hs]; rfl
    unfold entryLoop
    simp only [xchg, script_get_cc _ _ _ _ _ hc, hc', decodeGet_cc 202 (by decide), std_ccShrink, if_true,
      shrink_asShipped]
    have := ih ⟨w.dev.advance,
      w.trace ++ [⟨getReq res rid acc.length (wireByte (reqLen stdCfg m acc.length)), [202]⟩]⟩ res rid
      (if m = (stdCfg.entire : Int) then (stdCfg.full : Int) else m - (stdCfg.step : Int)) acc hn
    refine ⟨this.1, ?_⟩
    rw [this.2]; simp only [List.length_append, List.length_singleton]; omega

/-- **get_sel_entry without the empty-answer stop, every request "completed" without a record
byte** (`00 next-lo next-hi`): nothing is appended, the offset stays, the length stays - whatever
fuel the model is given, all of it is used on `fuel` IDENTICAL requests, no result.  The floor of
`max_req_len` (8f8257b) does not help: no request is refused. -/
theorem entry_spins_empty (v : Variant) (hv : v.emptyStop = false) :
    ∀ (fuel : Nat) (w : World ScriptSel) (res rid : Nat) (m : Int) (acc : List Nat),
    w.dev.script = ⟨[], .completed⟩ → w.dev.caps = Caps.zero → acc.length < 16 →
    (entryLoop stdCfg v scriptSend fuel w res rid m acc).out = .pyError "nontermination" ∧
    (entryLoop stdCfg v scriptSend fuel w res rid m acc).w.trace = w.trace ++ List.replicate fuel
      ⟨getReq res rid acc.length (wireByte (reqLen stdCfg m acc.length)),
        [0, w.dev.next % 256, w.dev.next / 256 % 256]⟩ := by
  intro fuel
  induction fuel with
  | zero => intro w res rid m acc _ _ _; exact ⟨rfl, by simp [entryLoop]⟩
  | succ fuel ih =>
    intro w res rid m acc hs hcp hal
    have hc : w.dev.script.next.1.code = 0 := by rw [hs]; rfl
    have hn : w.dev.script.next.2 = ⟨[], .completed⟩ := by rw [hs]; rfl
    have hcap : w.dev.caps.next.1 = some 0 := by rw [hcp]; rfl
    have hcn : w.dev.caps.next.2 = Caps.zero := by rw [hcp]; rfl
    unfold entryLoop
    simp only [xchg, script_get_ok _ _ _ _ _ (show acc.length < 256 by omega) (wireByte_lt _) hc, hcap, cut_zero,
      decodeGet_ok, std_ccShrink, std_recLen, show (0 : Nat) = 202 ↔ False by decide, if_false, ne_eq,
      not_true_eq_false, emptyAnswer_nil, hv, Bool.false_eq_true, List.append_nil, ge_iff_le,
      show ¬ 16 ≤ acc.length by omega]
    have := ih ⟨w.dev.advance, w.trace ++ [⟨getReq res rid acc.length (wireByte (reqLen stdCfg m acc.length)),
      [0, w.dev.next % 256, w.dev.next / 256 % 256]⟩]⟩ res rid m acc hn hcn hal
    refine ⟨this.1, ?_⟩
    rw [this.2]
    simp only [advance_next, List.append_assoc, List.singleton_append, List.replicate_succ]

/-- One round of get-and-clear against "every Get SEL Entry is answered C5h". -/
theorem gac_spins (v : Variant) : ∀ (n : Nat) (w : World ScriptSel) (rid : Nat),
    w.dev.script = ⟨[], .resCancelled⟩ → w.dev.rplan = [] →
    (getAndClear stdCfg v scriptSend n w rid).out = gacExhausted v ∧
    (getAndClear stdCfg v scriptSend n w rid).w.trace.length = w.trace.length + 2 * n := by
  intro n
  induction n with
  | zero => intro w rid _ _; exact ⟨rfl, rfl⟩
  | succ n ih =>
    intro w rid hs hp
    unfold getAndClear
    simp only [reserve, xchg, script_reserve_nil _ hp, decodeU16_of_ok]
    generalize hw1 : (⟨{ w.dev with lastRes := w.dev.lastRes + 1, rplan := [] }, w.trace ++
      [⟨reserveReq, [0, (w.dev.lastRes + 1) % 256, (w.dev.lastRes + 1) / 256 % 256]⟩]⟩ : World ScriptSel) = w1
    have hs1 : w1.dev.script = ⟨[], .resCancelled⟩ := by rw [← hw1]; exact hs
    have hp1 : w1.dev.rplan = [] := by rw [← hw1]
    have hl1 : w1.trace.length = w.trace.length + 1 := by rw [← hw1]; simp
    have hc : w1.dev.script.next.1.code ≠ 0 := by rw [hs1]; decide
    have hc' : w1.dev.script.next.1.code = 197 := by rw [hs1]; rfl
    have hn : w1.dev.script.next.2 = ⟨[], .resCancelled⟩ := by rw [hs1]; rfl
    simp only [getSelEntry, entryFuel]
    rw [entryLoop]
    simp only [xchg, script_get_cc _ _ _ _ _ hc, hc', decodeGet_cc 197 (by decide), std_ccShrink, std_ccCancel,
      show (197 : Nat) = 202 ↔ False by decide, if_false, ne_eq, show ¬ (197 : Nat) = 0 by decide,
      not_false_eq_true, if_true]
    constructor
    · refine (ih _ rid ?_ ?_).1
      · exact hn
      · exact hp1
    · refine Eq.trans (ih _ rid ?_ ?_).2 ?_
      · exact hn
      · exact hp1
      · simp only [List.length_append, List.length_singleton, hl1]; omega

/-! ### repaired: bounded -/

/-- `max_req_len` has a floor at 0 (the repaired get_sel_entry). -/
def Floored (v : Variant) : Prop := v.floor = some 0

theorem floored_floorOk {v : Variant} (h : Floored v) : FloorOk v := by
  intro f hf; rw [h] at hf; cases hf; exact Int.le_refl _

theorem shrink_one {v : Variant} (h : Floored v) : shrink stdCfg v ((1 : Nat) : Int) = none := by
  have he : (stdCfg.entire : Int) = 255 := rfl
  have hs : (stdCfg.step : Int) = 1 := rfl
  unfold shrink
  rw [if_neg (by omega), h]
  simp only []
  rw [if_pos (by omega)]

/-- requests get_sel_entry can still make: shrink steps left + bytes missing -/
def entryMeasure (m : Nat) (acc : List Nat) : Nat := (if m = 255 then 17 else m) + (16 - acc.length)

theorem entryMeasure_pos (m : Nat) (acc : List Nat) (h : acc.length < 16) : 1 ≤ entryMeasure m acc := by
  unfold entryMeasure; omega

theorem decodeGet_ne_py (raw : List Nat) (s : String) : decodeGetRsp raw ≠ .pyError s := by
  unfold decodeGetRsp
  split
  · intro h; cases h
  · split
    · intro h; cases h
    · split <;> intro h <;> cases h

/-- **What makes get_sel_entry end.**  On the device states `P` (kept by every exchange): the loop
has the empty-answer stop, OR the peer never "completes" a read of 1 … 255 bytes at an offset inside
the record without at least one record byte.  Then every answer is a step down of the length (CAh),
at least one byte of progress, or the end of the call. -/
structure Progress {σ : Type} (v : Variant) (send : Send σ) (P : σ → Prop) : Prop where
  keep : ∀ (d : σ) (cmd : Nat) (p : List Nat), P d → P (send d cmd p).1
  prog : v.emptyStop = true ∨
    ∀ (d : σ) (res rid off len next : Nat) (data : List Nat), P d → off < 16 → 1 ≤ len → len < 256 →
      decodeGetRsp (send d (getReq res rid off len).cmd (getReq res rid off len).payload).2 = .ok (0, next, data) →
      data ≠ []

/-- ANY peer makes progress for a loop with the empty-answer stop. -/
theorem progress_any {σ : Type} (v : Variant) (he : v.emptyStop = true) (send : Send σ) :
    Progress v send (fun _ => True) := ⟨fun _ _ _ _ => trivial, Or.inl he⟩

/-- **get_sel_entry with a floor of the length, under `Progress`**: the loop ends (never out of
fuel) after at most `entryMeasure` requests - 17 shrink steps (FFh, 16 … 1) plus one request per
byte at worst. -/
theorem entry_bound_gen {σ : Type} (v : Variant) (hv : Floored v) (send : Send σ) (P : σ → Prop)
    (hp : Progress v send P) :
    ∀ (fuel : Nat) (w : World σ) (res rid m : Nat) (acc : List Nat),
      P w.dev → acc.length < 16 → (m = 255 ∨ (1 ≤ m ∧ m ≤ 16)) → entryMeasure m acc + 1 ≤ fuel →
      (entryLoop stdCfg v send fuel w res rid (m : Int) acc).out ≠ .pyError "nontermination" ∧
      (entryLoop stdCfg v send fuel w res rid (m : Int) acc).w.trace.length ≤ w.trace.length + entryMeasure m acc ∧
      P (entryLoop stdCfg v send fuel w res rid (m : Int) acc).w.dev := by
  have hfl := floored_floorOk hv
  intro fuel
  induction fuel with
  | zero => intro w res rid m acc _ _ _ hfu; omega
  | succ fuel ih =>
    intro w res rid m acc hP hal hm hfu
    have hm256 : m < 256 := by rcases hm with h | ⟨_, h⟩ <;> omega
    have hpos : 1 ≤ entryMeasure m acc := entryMeasure_pos m acc hal
    unfold entryLoop
    simp only [wire_reqLen m acc.length hm256 (by omega)]
    generalize hq : reqLenN m acc.length = len
    have hlen : 1 ≤ len ∧ len < 256 := by
      rw [← hq]; unfold reqLenN
      rcases hm with h | ⟨h1, h16⟩ <;> split <;> omega
    simp only [std_ccShrink, std_recLen, xchg]
    generalize hx : send w.dev (getReq res rid acc.length len).cmd (getReq res rid acc.length len).payload = x
    have hPx : P x.1 := by rw [← hx]; exact hp.keep _ _ _ hP
    cases hdec : decodeGetRsp x.2 with
    | ok p =>
      obtain ⟨cc, next, data⟩ := p
      simp only []
      by_cases hca : cc = 202
      · simp only [hca, if_true]
        rcases hm with hm | ⟨hm1, hm16⟩
        · subst hm
          simp only [shrink_entire]
          have := ih ⟨x.1, w.trace ++ [⟨getReq res rid acc.length len, x.2⟩]⟩
            res rid 16 acc hPx hal (Or.inr ⟨by omega, by omega⟩) (by simp [entryMeasure] at hfu ⊢; omega)
          refine ⟨this.1, ?_, this.2.2⟩
          refine Nat.le_trans this.2.1 ?_
          simp [entryMeasure]; omega
        · have hm255 : m ≠ 255 := by omega
          by_cases h1 : m = 1
          · subst h1
            simp only [shrink_one hv]
            exact ⟨(by intro h; cases h), (by simp only [List.length_append, List.length_singleton]; omega), hPx⟩
          · simp only [shrink_dec v hfl m (by omega) hm255]
            have := ih ⟨x.1, w.trace ++ [⟨getReq res rid acc.length len, x.2⟩]⟩
              res rid (m - 1) acc hPx hal (Or.inr ⟨by omega, by omega⟩)
              (by simp only [entryMeasure, if_neg hm255] at hfu; simp only [entryMeasure]; rw [if_neg (by omega)]; omega)
            refine ⟨this.1, ?_, this.2.2⟩
            refine Nat.le_trans this.2.1 ?_
            simp only [entryMeasure, if_neg hm255, List.length_append, List.length_singleton]
            rw [if_neg (by omega)]; omega
      · simp only [hca, if_false]
        by_cases hc0 : cc = 0
        · subst hc0
          simp only [ne_eq, not_true_eq_false, if_false]
          by_cases hE : emptyAnswer v data = true
          · simp only [hE, if_true]
            exact ⟨(by intro h; cases h), (by simp only [List.length_append, List.length_singleton]; omega), hPx⟩
          · simp only [hE, Bool.false_eq_true, if_false]
            have hne : data ≠ [] := by
              rcases hp.prog with he | hpr
              · intro h; subst h; exact hE (by rw [emptyAnswer_nil, he])
              · exact hpr w.dev res rid acc.length len next data hP hal hlen.1 hlen.2 (by rw [hx]; exact hdec)
            have hdl : 1 ≤ data.length := by
              cases data with
              | nil => exact absurd rfl hne
              | cons _ _ => simp
            by_cases hdone : (acc ++ data).length ≥ 16
            · simp only [hdone, if_true]
              exact ⟨selEntry_ne_py _ _ _, (by simp only [List.length_append, List.length_singleton]; omega), hPx⟩
            · simp only [hdone, if_false]
              have hal' : (acc ++ data).length < 16 := by omega
              have hgrow : acc.length + 1 ≤ (acc ++ data).length := by
                simp only [List.length_append]; omega
              have := ih ⟨x.1, w.trace ++ [⟨getReq res rid acc.length len, x.2⟩]⟩ res rid m (acc ++ data) hPx hal' hm
                (by simp only [entryMeasure] at hfu ⊢; omega)
              refine ⟨this.1, ?_, this.2.2⟩
              refine Nat.le_trans this.2.1 ?_
              simp only [entryMeasure, List.length_append, List.length_singleton] at hgrow ⊢; omega
        · simp only [ne_eq, hc0, not_false_eq_true, if_true]
          exact ⟨(by intro h; cases h), (by simp only [List.length_append, List.length_singleton]; omega), hPx⟩
    | pyError s => exact absurd hdec (decodeGet_ne_py _ _)
    | _ =>
      simp only [castErr]
      exact ⟨(by intro h; cases h), (by simp only [List.length_append, List.length_singleton]; omega), hPx⟩

/-- the scripted device holds a 16-byte record and never completes a read without a byte -/
def Lively (d : ScriptSel) : Prop := d.entry.length = 16 ∧ d.caps.Positive

theorem script_entry_kept (d : ScriptSel) (cmd : Nat) (p : List Nat) : (scriptSend d cmd p).1.entry = d.entry := by
  unfold scriptSend
  split
  · split
    · rfl
    · split <;> rfl
  · split
    · split
      · rfl
      · split <;> rfl
    · split
      · split
        · rfl
        · split <;> rfl
      · rfl

theorem script_caps_kept (d : ScriptSel) (cmd : Nat) (p : List Nat) :
    (scriptSend d cmd p).1.caps = d.caps ∨ (scriptSend d cmd p).1.caps = d.caps.next.2 := by
  unfold scriptSend
  split
  · split
    · exact Or.inl rfl
    · split <;> exact Or.inl rfl
  · split
    · split
      · exact Or.inr rfl
      · split <;> exact Or.inr rfl
    · split
      · split
        · exact Or.inr rfl
        · split <;> exact Or.inr rfl
      · exact Or.inl rfl

/-- The scripted device with short answers of at least one byte makes progress for EVERY variant -
also for a loop without the empty-answer stop. -/
theorem progress_script (v : Variant) : Progress v scriptSend Lively := by
  refine ⟨?_, Or.inr ?_⟩
  · intro d cmd p h
    refine ⟨by rw [script_entry_kept]; exact h.1, ?_⟩
    rcases script_caps_kept d cmd p with hc | hc <;> rw [hc]
    · exact h.2
    · exact h.2.next.1
  · intro d res rid off len next data h hoff hl1 hl hdec
    by_cases hc : d.script.next.1.code = 0
    · rw [script_get_ok d res rid off len (by omega) hl hc, decodeGet_ok] at hdec
      simp only [Outcome.ok.injEq, Prod.mk.injEq, true_and] at hdec
      have hlen : 1 ≤ (cut d.caps.next.1
          (if len = 0xFF then d.entry.drop off else (d.entry.drop off).take len)).length := by
        apply cut_length_pos _ _ h.2.next.2
        split
        · simp only [List.length_drop, h.1]; omega
        · simp only [List.length_take, List.length_drop, h.1]; omega
      intro hd
      rw [hdec.2, hd] at hlen
      simp at hlen
    · rw [script_get_cc d res rid off len hc, decodeGet_cc _ hc] at hdec
      simp only [Outcome.ok.injEq, Prod.mk.injEq] at hdec
      exact absurd hdec.1 hc

/-- **The empty completed answer itself**: the repaired get_sel_entry raises RetryError on it - the
request it answered was the last one. -/
theorem entry_empty_gives_up (v : Variant) (he : v.emptyStop = true) (fuel : Nat) (w : World ScriptSel)
    (res rid : Nat) (m : Int) (acc : List Nat)
    (hs : w.dev.script.next.1.code = 0) (hc : w.dev.caps.next.1 = some 0) (hal : acc.length < 256) :
    (entryLoop stdCfg v scriptSend (fuel + 1) w res rid m acc).out = .retryError ∧
    (entryLoop stdCfg v scriptSend (fuel + 1) w res rid m acc).w.trace.length = w.trace.length + 1 := by
  unfold entryLoop
  simp only [xchg, script_get_ok _ _ _ _ _ hal (wireByte_lt _) hs, hc, cut_zero,
    decodeGet_ok, std_ccShrink, show (0 : Nat) = 202 ↔ False by decide, if_false, ne_eq,
    not_true_eq_false, emptyAnswer_nil, he, if_true, List.length_append, List.length_singleton, and_self]

/-- **A device that TRUNCATES instead of refusing** - every Get SEL Entry "completed", every answer cut
to some number of bytes ≥ 1 (any sequence of caps) - **is read exactly**: the stored record and the next
record id, in at most one request per missing byte, with "entire record" asked at the growing offset
every time.  Either variant. -/
theorem entry_exact_truncated (v : Variant) :
    ∀ (fuel : Nat) (w : World ScriptSel) (res rid : Nat) (acc : List Nat),
      w.dev.script = ⟨[], .completed⟩ → w.dev.caps.Positive → w.dev.entry.length = 16 → typeOk w.dev.entry →
      w.dev.next < 65536 → acc = w.dev.entry.take acc.length → acc.length < 16 → (16 - acc.length) + 1 ≤ fuel →
      (entryLoop stdCfg v scriptSend fuel w res rid ((255 : Nat) : Int) acc).out = .ok (w.dev.entry, w.dev.next) ∧
      (entryLoop stdCfg v scriptSend fuel w res rid ((255 : Nat) : Int) acc).w.trace.length
        ≤ w.trace.length + (16 - acc.length) := by
  intro fuel
  induction fuel with
  | zero => intro w res rid acc _ _ _ _ _ _ _ hfu; omega
  | succ fuel ih =>
    intro w res rid acc hs hcp he hty hnx hacc hal hfu
    have hc : w.dev.script.next.1.code = 0 := by rw [hs]; rfl
    have hn : w.dev.script.next.2 = ⟨[], .completed⟩ := by rw [hs]; rfl
    have hl255 : reqLenN 255 acc.length = 255 := by simp [reqLenN]
    have hnx' : w.dev.next % 256 + 256 * (w.dev.next / 256 % 256) = w.dev.next := u16_bytes _ hnx
    unfold entryLoop
    simp only [wire_reqLen 255 acc.length (by omega) (by omega), hl255]
    simp only [xchg, script_get_ok _ _ _ _ _ (show acc.length < 256 by omega) (show 255 < 256 by omega) hc, if_true,
      decodeGet_ok, std_ccShrink, std_recLen, show (0 : Nat) = 202 ↔ False by decide, if_false, ne_eq,
      not_true_eq_false, hnx']
    generalize hd : cut w.dev.caps.next.1 (w.dev.entry.drop acc.length) = data
    have hdl : 1 ≤ data.length := by
      rw [← hd]; exact cut_length_pos _ _ hcp.next.2 (by simp only [List.length_drop, he]; omega)
    have hdle : data.length ≤ 16 - acc.length := by
      rw [← hd]
      cases hcap : w.dev.caps.next.1 with
      | none => simp only [cut, List.length_drop, he]; omega
      | some k => simp only [cut, List.length_take, List.length_drop, he]; omega
    have hnew : acc ++ data = w.dev.entry.take (acc.length + data.length) := by
      have : data = (w.dev.entry.drop acc.length).take data.length := by
        rw [← hd]
        cases hcap : w.dev.caps.next.1 with
        | none => simp only [cut]; rw [List.take_of_length_le (Nat.le_refl _)]
        | some k =>
          simp only [cut, List.length_take]
          by_cases hk : k ≤ (w.dev.entry.drop acc.length).length
          · rw [Nat.min_eq_left hk]
          · rw [Nat.min_eq_right (by omega), List.take_of_length_le (by omega),
              List.take_of_length_le (Nat.le_refl _)]
      conv => lhs; rw [hacc, this]
      exact take_take_drop _ _ _
    simp only [emptyAnswer_of_len v data hdl, Bool.false_eq_true, if_false]
    have hnl : (acc ++ data).length = acc.length + data.length := by simp
    rw [hnl]
    by_cases hdone : acc.length + data.length ≥ 16
    · simp only [hdone, if_true]
      have h16 : acc.length + data.length = 16 := by omega
      rw [hnew, h16, List.take_of_length_le (by omega)]
      exact ⟨selEntry_ok _ _ he hty, by simp only [List.length_append, List.length_singleton]; omega⟩
    · simp only [hdone, if_false]
      have := ih ⟨w.dev.advance, w.trace ++ [⟨getReq res rid acc.length 255,
          0 :: w.dev.next % 256 :: w.dev.next / 256 % 256 :: data⟩]⟩ res rid (acc ++ data) hn hcp.next.1 he hty hnx
        (by rw [hnl]; exact hnew) (by rw [hnl]; omega) (by rw [hnl]; omega)
      refine ⟨this.1, Nat.le_trans this.2 ?_⟩
      simp only [List.length_append, List.length_singleton, advance_entry]; omega

/-- **CAh for ever**: the repaired get_sel_entry asks FFh, 16, 15 … 1 - 17 requests - and raises
RetryError. -/
theorem entry_gives_up_partial (v : Variant) (hv : Floored v) :
    ∀ (m : Nat) (fuel : Nat) (w : World ScriptSel) (res rid : Nat), 1 ≤ m → m ≤ 16 → m ≤ fuel →
      w.dev.script = ⟨[], .other 0xCA⟩ →
      (entryLoop stdCfg v scriptSend fuel w res rid (m : Int) []).out = .retryError ∧
      (entryLoop stdCfg v scriptSend fuel w res rid (m : Int) []).w.trace.length = w.trace.length + m := by
  have hfl := floored_floorOk hv
  intro m
  induction m with
  | zero => intro _ _ _ _ h; omega
  | succ k ih =>
    intro fuel w res rid _ h16 hfu hs
    obtain ⟨f, rfl⟩ : ∃ f, fuel = f + 1 := ⟨fuel - 1, by omega⟩
    have hc : w.dev.script.next.1.code ≠ 0 := by rw [hs]; decide
    have hc' : w.dev.script.next.1.code = 202 := by rw [hs]; rfl
    have hn : w.dev.script.next.2 = ⟨[], .other 0xCA⟩ := by rw [hs]; rfl
    unfold entryLoop
    simp only [xchg, script_get_cc _ _ _ _ _ hc, hc', decodeGet_cc 202 (by decide), std_ccShrink, if_true]
    by_cases hk : k = 0
    · subst hk
      simp only [shrink_one hv]
      constructor <;> simp
    · simp only [shrink_dec v hfl (k + 1) (by omega) (by omega), Nat.add_sub_cancel]
      constructor
      · refine (ih f _ res rid (by omega) (by omega) (by omega) ?_).1
        exact hn
      · refine Eq.trans (ih f _ res rid (by omega) (by omega) (by omega) ?_).2 ?_
        · exact hn
        · simp only [List.length_append, List.length_singleton]; omega

theorem entry_gives_up (v : Variant) (hv : Floored v) (w : World ScriptSel) (rid res : Nat)
    (hs : w.dev.script = ⟨[], .other 0xCA⟩) :
    (getSelEntry stdCfg v scriptSend w rid res).out = .retryError ∧
    (getSelEntry stdCfg v scriptSend w rid res).w.trace.length = w.trace.length + 17 := by
  have hc : w.dev.script.next.1.code ≠ 0 := by rw [hs]; decide
  have hc' : w.dev.script.next.1.code = 202 := by rw [hs]; rfl
  have hn : w.dev.script.next.2 = ⟨[], .other 0xCA⟩ := by rw [hs]; rfl
  simp only [getSelEntry, entryFuel]
  rw [entryLoop]
  simp only [xchg, script_get_cc _ _ _ _ _ hc, hc', decodeGet_cc 202 (by decide), std_ccShrink, if_true]
  have he : ((stdCfg.entire : Nat) : Int) = ((255 : Nat) : Int) := rfl
  rw [he, shrink_entire]
  simp only []
  constructor
  · refine (entry_gives_up_partial v hv 16 63 _ res rid (by omega) (by omega) (by omega) ?_).1
    exact hn
  · refine Eq.trans (entry_gives_up_partial v hv 16 63 _ res rid (by omega) (by omega) (by omega) ?_).2 ?_
    · exact hn
    · simp only [List.length_append, List.length_singleton]

/-- the completion code of an exchange that get_sel_entry has no branch for (neither OK nor the shrink code) -/
def refusedWith (cfg : Cfg) (x : Xchg) : Option Nat :=
  match decodeGetRsp x.rsp with
  | .ok (cc, _, _) => if cc ≠ 0 ∧ cc ≠ cfg.ccShrink then some cc else none
  | _ => none

/-- **Whatever the peer does, either variant**: a Get SEL Entry answered with a completion code other
than 00h and CAh ends get_sel_entry with CompletionCodeError(that code); it is the last request. -/
theorem entry_code_propagates {σ} (cfg : Cfg) (v : Variant) (send : Send σ) (r rid : Nat) :
    ∀ (fuel : Nat) (w : World σ) (m : Int) (acc : List Nat),
      ∃ ext, (entryLoop cfg v send fuel w r rid m acc).w.trace = w.trace ++ ext ∧
        ∀ x ∈ ext, ∀ c, refusedWith cfg x = some c →
          (entryLoop cfg v send fuel w r rid m acc).out = .ccError c ∧ ext.getLast? = some x := by
  intro fuel
  induction fuel with
  | zero => intro w m acc; exact ⟨[], by simp [entryLoop], by intro x hx; cases hx⟩
  | succ fuel ih =>
    intro w m acc
    unfold entryLoop
    dsimp only
    generalize hlen : wireByte (reqLen cfg m acc.length) = len
    generalize hx1 : xchg send w (getReq r rid acc.length len) = x1
    have ht1 : x1.1.trace = w.trace ++ [⟨getReq r rid acc.length len, x1.2⟩] := by rw [← hx1]; rfl
    have more : ∀ (m' : Int) (acc' : List Nat), refusedWith cfg ⟨getReq r rid acc.length len, x1.2⟩ = none →
        ∃ ext, (entryLoop cfg v send fuel x1.1 r rid m' acc').w.trace = w.trace ++ ext ∧
          ∀ x ∈ ext, ∀ c, refusedWith cfg x = some c →
            (entryLoop cfg v send fuel x1.1 r rid m' acc').out = .ccError c ∧ ext.getLast? = some x := by
      intro m' acc' h0
      obtain ⟨ext', h1, h2⟩ := ih x1.1 m' acc'
      refine ⟨⟨getReq r rid acc.length len, x1.2⟩ :: ext', by rw [h1, ht1]; simp, ?_⟩
      intro x hx c hc
      simp only [List.mem_cons] at hx
      rcases hx with hx | hx
      · rw [hx, h0] at hc; cases hc
      · obtain ⟨ho, hl⟩ := h2 x hx c hc
        refine ⟨ho, ?_⟩
        have hne : ext' ≠ [] := by intro h; rw [h] at hx; cases hx
        rw [List.getLast?_cons_of_ne_nil hne]  -- the last of a non-empty tail
        exact hl
    have stop : ∀ (out : Outcome (List Nat × Nat)),
        (∀ c, refusedWith cfg ⟨getReq r rid acc.length len, x1.2⟩ = some c → out = .ccError c) →
        ∃ ext, x1.1.trace = w.trace ++ ext ∧
          ∀ x ∈ ext, ∀ c, refusedWith cfg x = some c → out = .ccError c ∧ ext.getLast? = some x := by
      intro out h0
      refine ⟨[⟨getReq r rid acc.length len, x1.2⟩], ht1, ?_⟩
      intro x hx c hc
      simp only [List.mem_singleton] at hx
      subst hx
      exact ⟨h0 c hc, rfl⟩
    cases hdec : decodeGetRsp x1.2 with
    | ok p =>
      obtain ⟨cc, next, data⟩ := p
      simp only
      split
      · rename_i hcc
        have h0 : refusedWith cfg ⟨getReq r rid acc.length len, x1.2⟩ = none := by
          simp [refusedWith, hdec, hcc]
        split
        · exact more _ _ h0
        · exact stop _ (by intro c hc; rw [h0] at hc; cases hc)
      · rename_i hcc
        split
        · rename_i hne
          refine stop _ ?_
          intro c hc
          simp only [refusedWith, hdec, ne_eq, hne, not_false_eq_true, hcc, and_self, if_true, Option.some.injEq] at hc
          rw [hc]
        · rename_i hz
          have hz' : cc = 0 := by simpa using hz
          have h0 : refusedWith cfg ⟨getReq r rid acc.length len, x1.2⟩ = none := by
            simp [refusedWith, hdec, hz']
          split
          · exact stop _ (by intro c hc; rw [h0] at hc; cases hc)
          · split
            · exact stop _ (by intro c hc; rw [h0] at hc; cases hc)
            · exact more _ _ h0
    | _ =>
      refine stop _ ?_
      intro c hc
      simp [refusedWith, hdec] at hc

/-! ### get-and-clear, repaired: bounded for every script; a failed Reserve ends it -/

theorem decodeU16_ne_py (raw : List Nat) (s : String) : decodeU16Rsp raw ≠ .pyError s := by
  unfold decodeU16Rsp
  split
  · intro h; cases h
  · split
    · intro h; cases h
    · split <;> intro h <;> cases h

theorem castErr_ne_nonterm {α β} (x : Outcome α) (hx : x ≠ .pyError "nontermination") :
    (castErr x : Outcome β) ≠ .pyError "nontermination" := by
  cases x with
  | pyError n => intro h; simp only [castErr, Outcome.pyError.injEq] at h; exact hx (by rw [h])
  | ok a => intro h; simp only [castErr, Outcome.pyError.injEq] at h; exact absurd h (by decide)
  | _ => intro h; cases h

/-- **get_and_clear_sel_entry repaired, under `Progress`** (any peer for a loop with the
empty-answer stop; the scripted device - Get / Delete and Reserve outcomes, short answers of ≥ 1
byte - for every floored variant): the call ends - never out of fuel - after at most 35 requests per
round of its budget (Reserve, ≤ 33 Get SEL Entry, Delete). -/
theorem gac_bound_gen {σ : Type} (v : Variant) (hv : Floored v) (hb : v.budget.isSome = true)
    (send : Send σ) (P : σ → Prop) (hp : Progress v send P) :
    ∀ (n : Nat) (w : World σ) (rid : Nat), P w.dev →
      (getAndClear stdCfg v send n w rid).out ≠ .pyError "nontermination" ∧
      (getAndClear stdCfg v send n w rid).w.trace.length ≤ w.trace.length + 35 * n := by
  intro n
  induction n with
  | zero =>
    intro w rid _
    simp only [getAndClear, gacExhausted, hb, if_true]
    exact ⟨(by intro h; cases h), Nat.le_refl _⟩
  | succ n ih =>
    intro w rid he
    unfold getAndClear
    simp only [reserve, deleteEntry, xchg]
    generalize hx1 : send w.dev reserveReq.cmd reserveReq.payload = x1
    have he1 : P x1.1 := by rw [← hx1]; exact hp.keep _ _ _ he
    cases hres : decodeU16Rsp x1.2 with
    | ok res =>
      simp only
      have hgb := entry_bound_gen v hv send P hp entryFuel ⟨x1.1, w.trace ++ [⟨reserveReq, x1.2⟩]⟩ res rid 255 [] he1
        (by simp) (Or.inl rfl) (by simp [entryMeasure, entryFuel])
      have hgdef : getSelEntry stdCfg v send ⟨x1.1, w.trace ++ [⟨reserveReq, x1.2⟩]⟩ rid res =
          entryLoop stdCfg v send entryFuel ⟨x1.1, w.trace ++ [⟨reserveReq, x1.2⟩]⟩ res rid ((255 : Nat) : Int) [] := rfl
      rw [← hgdef] at hgb
      generalize getSelEntry stdCfg v send ⟨x1.1, w.trace ++ [⟨reserveReq, x1.2⟩]⟩ rid res = g at hgb
      obtain ⟨hg1, hg2, heg⟩ := hgb
      have hg2' : g.w.trace.length ≤ w.trace.length + 34 := by
        have e33 : entryMeasure 255 [] = 33 := by decide
        rw [e33] at hg2
        simp only [List.length_append, List.length_singleton] at hg2; omega
      cases hgo : g.out with
      | ok p =>
        obtain ⟨e, nx⟩ := p
        simp only
        generalize hx2 : send g.w.dev (deleteReq res rid).cmd (deleteReq res rid).payload = x2
        have he2 : P x2.1 := by rw [← hx2]; exact hp.keep _ _ _ heg
        cases hdel : decodeU16Rsp x2.2 with
        | ok v' =>
          simp only
          exact ⟨(by intro h; cases h), by simp only [List.length_append, List.length_singleton]; omega⟩
        | ccError c =>
          simp only
          split
          · have := ih ⟨x2.1, g.w.trace ++ [⟨deleteReq res rid, x2.2⟩]⟩ rid he2
            refine ⟨this.1, Nat.le_trans this.2 ?_⟩
            simp only [List.length_append, List.length_singleton]; omega
          · exact ⟨(by intro h; cases h), by simp only [List.length_append, List.length_singleton]; omega⟩
        | pyError s => exact absurd hdel (decodeU16_ne_py _ _)
        | _ => simp only [castErr]; exact ⟨(by intro h; cases h), by simp only [List.length_append, List.length_singleton]; omega⟩
      | ccError c =>
        simp only
        split
        · have := ih g.w rid heg
          exact ⟨this.1, Nat.le_trans this.2 (by omega)⟩
        · exact ⟨(by intro h; cases h), by show g.w.trace.length ≤ _; omega⟩
      | pyError s =>
        simp only [castErr]
        refine ⟨?_, by omega⟩
        intro h
        simp only [Outcome.pyError.injEq] at h
        exact hg1 (by rw [hgo, h])
      | _ => simp only [castErr]; exact ⟨(by intro h; cases h), by omega⟩
    | pyError s => exact absurd hres (decodeU16_ne_py _ _)
    | _ => simp only [castErr]; exact ⟨(by intro h; cases h), by simp only [List.length_append, List.length_singleton]; omega⟩

/-- **get_and_clear_sel_entry without the empty-answer stop never returns** from a device that
completes every Get SEL Entry without a record byte: ONE Reserve SEL, then the inner get_sel_entry
uses all the fuel it is given (`entryFuel` identical requests) - whatever the retry budget (≥ 1) is,
it is never consulted. -/
theorem gac_never_returns_empty (v : Variant) (hv : v.emptyStop = false) (n : Nat) (w : World ScriptSel) (rid : Nat)
    (hs : w.dev.script = ⟨[], .completed⟩) (hc : w.dev.caps = Caps.zero) (hp : w.dev.rplan = []) :
    (getAndClear stdCfg v scriptSend (n + 1) w rid).out = .pyError "nontermination" ∧
    (getAndClear stdCfg v scriptSend (n + 1) w rid).w.trace.length = w.trace.length + 1 + entryFuel := by
  unfold getAndClear
  simp only [reserve, xchg, script_reserve_nil _ hp, decodeU16_of_ok]
  generalize hw1 : (⟨{ w.dev with lastRes := w.dev.lastRes + 1, rplan := [] }, w.trace ++
    [⟨reserveReq, [0, (w.dev.lastRes + 1) % 256, (w.dev.lastRes + 1) / 256 % 256]⟩]⟩ : World ScriptSel) = w1
  have hs1 : w1.dev.script = ⟨[], .completed⟩ := by rw [← hw1]; exact hs
  have hc1 : w1.dev.caps = Caps.zero := by rw [← hw1]; exact hc
  have hl1 : w1.trace.length = w.trace.length + 1 := by rw [← hw1]; simp
  have := entry_spins_empty v hv entryFuel w1 ((w.dev.lastRes + 1) % 256 + 256 * ((w.dev.lastRes + 1) / 256 % 256)) rid
    ((stdCfg.entire : Nat) : Int) [] hs1 hc1 (by simp)
  simp only [getSelEntry]
  generalize entryLoop stdCfg v scriptSend entryFuel w1 _ rid _ [] = g at this ⊢
  obtain ⟨h1, h2⟩ := this
  rw [h1]
  simp only [castErr]
  refine ⟨trivial, ?_⟩
  rw [h2]
  simp only [List.length_append, List.length_replicate, hl1]

/-! A Reserve SEL that is refused (any peer): -/

/-- the completion code a failed Reserve SEL exchange carries -/
def failedReserve (x : Xchg) : Option Nat :=
  if x.req = reserveReq then
    match decodeU16Rsp x.rsp with
    | .ccError c => some c
    | _ => none
  else none

theorem isGet_not_reserve {r rid : Nat} {x : Xchg} (h : IsGet r rid x) : failedReserve x = none := by
  obtain ⟨off, len, h⟩ := h
  simp [failedReserve, h, getReq, reserveReq]

theorem delete_not_reserve (r rid : Nat) (rsp : List Nat) : failedReserve ⟨deleteReq r rid, rsp⟩ = none := by
  simp [failedReserve, deleteReq, reserveReq]

/-- **Whatever the peer does, either variant**: a Reserve SEL answered with completion code `c` -
the first one or a renewal after a cancellation - ends get_and_clear_sel_entry with
CompletionCodeError(c), and it is the last request of the call. -/
theorem gac_reserve_failure {σ} (cfg : Cfg) (v : Variant) (send : Send σ) (rid : Nat) :
    ∀ (n : Nat) (w : World σ), ∃ ext, (getAndClear cfg v send n w rid).w.trace = w.trace ++ ext ∧
      ∀ x ∈ ext, ∀ c, failedReserve x = some c →
        (getAndClear cfg v send n w rid).out = .ccError c ∧ ext.getLast? = some x := by
  intro n
  induction n with
  | zero => intro w; exact ⟨[], by simp [getAndClear], by intro x hx; cases hx⟩
  | succ n ih =>
    intro w
    unfold getAndClear
    simp only [reserve, deleteEntry, getSelEntry]
    generalize hx1 : xchg send w reserveReq = x1
    have ht1 : x1.1.trace = w.trace ++ [⟨reserveReq, x1.2⟩] := by rw [← hx1]; rfl
    cases hres : decodeU16Rsp x1.2 with
    | ok res =>
      simp only
      have hr0 : failedReserve ⟨reserveReq, x1.2⟩ = none := by simp [failedReserve, hres]
      obtain ⟨gets, hg1, hg2, _⟩ := entryLoop_trace cfg v send res rid entryFuel x1.1 (cfg.entire : Int) []
      generalize entryLoop cfg v send entryFuel x1.1 res rid (cfg.entire : Int) [] = g at hg1 ⊢
      have hgets : ∀ x ∈ gets, ∀ c, failedReserve x = some c → False := by
        intro x hx c hc; rw [isGet_not_reserve (hg2 x hx)] at hc; cases hc
      -- the call ends here: reserve, gets (and the delete)
      have stop : ∀ (tail : List Xchg) (out : Outcome (List Nat)),
          (∀ x ∈ tail, failedReserve x = none) →
          ∃ ext, w.trace ++ [⟨reserveReq, x1.2⟩] ++ gets ++ tail = w.trace ++ ext ∧
            ∀ x ∈ ext, ∀ c, failedReserve x = some c → out = .ccError c ∧ ext.getLast? = some x := by
        intro tail out htail
        refine ⟨[⟨reserveReq, x1.2⟩] ++ gets ++ tail, by simp, ?_⟩
        intro x hx c hc
        simp only [List.mem_append, List.mem_singleton] at hx
        rcases hx with (hx | hx) | hx
        · rw [hx, hr0] at hc; cases hc
        · exact absurd hc (fun h => hgets x hx c h)
        · rw [htail x hx] at hc; cases hc
      -- the call goes on with another round from world `w'` whose trace is the prefix below
      have more : ∀ (tail : List Xchg) (w' : World σ), (∀ x ∈ tail, failedReserve x = none) →
          w'.trace = w.trace ++ [⟨reserveReq, x1.2⟩] ++ gets ++ tail →
          ∃ ext, (getAndClear cfg v send n w' rid).w.trace = w.trace ++ ext ∧
            ∀ x ∈ ext, ∀ c, failedReserve x = some c →
              (getAndClear cfg v send n w' rid).out = .ccError c ∧ ext.getLast? = some x := by
        intro tail w' htail hw'
        obtain ⟨ext', h1, h2⟩ := ih w'
        refine ⟨[⟨reserveReq, x1.2⟩] ++ gets ++ tail ++ ext', by rw [h1, hw']; simp, ?_⟩
        intro x hx c hc
        simp only [List.mem_append, List.mem_singleton] at hx
        rcases hx with (((hx | hx) | hx) | hx)
        · rw [hx, hr0] at hc; cases hc
        · exact absurd hc (fun h => hgets x hx c h)
        · rw [htail x hx] at hc; cases hc
        · obtain ⟨ho, hl⟩ := h2 x hx c hc
          refine ⟨ho, ?_⟩
          rw [List.getLast?_append, hl]; rfl
      cases hgo : g.out with
      | ok p =>
        obtain ⟨e', nx⟩ := p
        simp only
        generalize hx2 : xchg send g.w (deleteReq res rid) = x2
        have ht2 : x2.1.trace = w.trace ++ [⟨reserveReq, x1.2⟩] ++ gets ++ [⟨deleteReq res rid, x2.2⟩] := by
          rw [← hx2]; simp only [xchg]; rw [hg1, ht1]
        have hdl : ∀ x ∈ [(⟨deleteReq res rid, x2.2⟩ : Xchg)], failedReserve x = none := by
          intro x hx; simp only [List.mem_singleton] at hx; rw [hx]; exact delete_not_reserve _ _ _
        cases hdel : decodeU16Rsp x2.2 with
        | ccError c =>
          simp only
          split
          · exact more _ x2.1 hdl ht2
          · simp only [ht2]; exact stop _ _ hdl
        | _ => simp only [ht2]; exact stop _ _ hdl
      | ccError c =>
        simp only
        split
        · exact more [] g.w (by intro x hx; cases hx) (by rw [hg1, ht1]; simp)
        · have := stop [] (.ccError c) (by intro x hx; cases hx)
          simpa [hg1, ht1] using this
      | _ =>
        have := stop [] (castErr g.out) (by intro x hx; cases hx)
        simpa [hg1, ht1, hgo] using this
    | ccError c =>
      simp only [castErr]
      refine ⟨[⟨reserveReq, x1.2⟩], ht1, ?_⟩
      intro x hx c' hc
      simp only [List.mem_singleton] at hx
      subst hx
      simp only [failedReserve, if_true, hres, Option.some.injEq] at hc
      subst hc
      exact ⟨rfl, rfl⟩
    | _ =>
      refine ⟨[⟨reserveReq, x1.2⟩], ht1, ?_⟩
      intro x hx c' hc
      simp only [List.mem_singleton] at hx
      subst hx
      simp [failedReserve, hres] at hc

end PyIpmi.SelXfer
