/-
  C14 — session teardown: the invariant that relates thread kinds, the barrier before
  `close_session`, the stopper (set + join), `Session.activated` and the Close Session datagram,
  and its preservation by every step.  Core tactics only.

  The invariant holds in the variant whose stopper joins the keep-alive thread (`Sys.join = true`),
  and — trivially — in any system without a closing thread.  In the variant as shipped
  (`join = false`) with a closing thread the clause `late` is false (Props.C14 exhibits the run).
-/
import PyIpmi.Lemmas.Threads
namespace PyIpmi.Threads
open PyIpmi.Spec.Threads

/-- program points of `close_session` (and the application's barrier before it) -/
def closerOnly : PC → Bool
  | .await | .stopSet | .joinKa | .chkAct | .actStore => true
  | _ => false

/-- program points of `close_session` after the stopper has returned -/
def latePc : PC → Bool
  | .chkAct | .actStore => true
  | _ => false

/-- program points of the closing thread before the stopper has returned -/
def earlyPc : PC → Bool
  | .await | .stopSet | .joinKa => true
  | _ => false

/-- the call path of `_send_and_receive` -/
def plain : PC → Bool
  | .idle | .incStore | .hdrLoad | .acquire | .lkLoad | .lkStore | .lkHdr | .actLoad | .ssLoad | .ssStore | .ssChk | .ssWrap | .ssHdr _
  | .send | .recv | .requeue | .release => true
  | _ => false

/-- the closing thread has passed the barrier (the other application threads have finished) -/
def pastBarrier (th : Thr) : Bool := th.closing || th.pc == .stopSet || th.pc == .joinKa

structure Tear (s : Sys) : Prop where
  /-- the stopper joins, or nobody closes -/
  safe : s.join = true ∨ ∀ (t : Nat) (th : Thr), s.thr[t]? = some th → th.kind ≠ .closer
  kaPc : ∀ (t : Nat) (th : Thr), s.thr[t]? = some th → th.pc = .kaWait → th.kind = .keepAlive
  closerPc : ∀ (t : Nat) (th : Thr), s.thr[t]? = some th → closerOnly th.pc = true → th.kind = .closer
  lateClosing : ∀ (t : Nat) (th : Thr), s.thr[t]? = some th → latePc th.pc = true → th.closing = true
  earlyOpen : ∀ (t : Nat) (th : Thr), s.thr[t]? = some th → earlyPc th.pc = true → th.closing = false
  closingKind : ∀ (t : Nat) (th : Thr), s.thr[t]? = some th → th.closing = true → th.kind = .closer
  /-- only the closing thread issues Close Session -/
  cmdNotClose : ∀ (t : Nat) (th : Thr), s.thr[t]? = some th → th.closing = false → th.cmd ≠ closeCmd
  /-- one thread closes -/
  uniq : ∀ (t t' : Nat) (th th' : Thr), s.thr[t]? = some th → s.thr[t']? = some th' →
      th.kind = .closer → th'.kind = .closer → t = t'
  /-- past the barrier every other application thread has finished -/
  barrier : ∀ (t : Nat) (th : Thr), s.thr[t]? = some th → pastBarrier th = true →
      ∀ (t' : Nat) (th' : Thr), s.thr[t']? = some th' → th'.kind = .worker → th'.pc = .done
  /-- past the stopper EVERY other thread has finished — the keep-alive included (this is the join) -/
  late : ∀ (t : Nat) (th : Thr), s.thr[t]? = some th → th.closing = true →
      ∀ (t' : Nat) (th' : Thr), s.thr[t']? = some th' → t' ≠ t → th'.pc = .done
  /-- once the session is deactivated nothing runs any more -/
  deact : s.activated = false → ∀ (t : Nat) (th : Thr), s.thr[t]? = some th → th.pc = .done
  /-- the joining thread has set the event -/
  stop : ∀ (t : Nat) (th : Thr), s.thr[t]? = some th → th.pc = .joinKa → s.stopped = true
  /-- once Close Session is on the wire, only its sender is still at work (it may have to retransmit it) -/
  closed : (monOf s.wire).closed = true → ∀ (t : Nat) (th : Thr), s.thr[t]? = some th →
      th.pc = .done ∨ (th.closing = true ∧ (monOf s.wire).closedBy = some t)
  /-- the call the closing thread makes after the stopper is Close Session -/
  cmdClose : ∀ (t : Nat) (th : Thr), s.thr[t]? = some th → th.closing = true → plain th.pc = true →
      th.cmd = closeCmd

theorem pastBarrier_closer {s : Sys} (ht : Tear s) {t : Nat} {th : Thr} (hget : s.thr[t]? = some th)
    (h : pastBarrier th = true) : th.kind = .closer := by
  simp only [pastBarrier, Bool.or_eq_true, beq_iff_eq] at h
  rcases h with (h | h) | h
  · exact ht.closingKind t th hget h
  · exact ht.closerPc t th hget (by rw [h]; rfl)
  · exact ht.closerPc t th hget (by rw [h]; rfl)

/-- Frame lemma: a step of thread `t` that keeps its kind and its `closing` flag. -/
theorem tear_frame {s s' : Sys} {t : Nat} {th th' : Thr} (ht : Tear s) (hget : s.thr[t]? = some th)
    (hthr : s'.thr = s.thr.set t th') (hjoin : s'.join = s.join)
    (hstop : s.stopped = true → s'.stopped = true)
    (hnd : th.pc ≠ .done)
    (hkind : th'.kind = th.kind) (hclosing : th'.closing = th.closing)
    (hcmd : th'.closing = false → th'.cmd = th.cmd)
    (hka : th'.pc = .kaWait → th.kind = .keepAlive)
    (hco : closerOnly th'.pc = true → th.kind = .closer)
    (hlate : latePc th'.pc = true → th.closing = true)
    (hearly : earlyPc th'.pc = true → th.closing = false)
    (hpb : pastBarrier th' = true → th.kind = .closer ∧
      ∀ (t1 : Nat) (th1 : Thr), s.thr[t1]? = some th1 → th1.kind = .worker → th1.pc = .done)
    (hjk : th'.pc = .joinKa → s'.stopped = true)
    (hdeact : s'.activated = false → ∀ (t1 : Nat) (th1 : Thr), s'.thr[t1]? = some th1 → th1.pc = .done)
    (hclosed : (monOf s'.wire).closed = true → ∀ (t1 : Nat) (th1 : Thr), s'.thr[t1]? = some th1 →
      th1.pc = .done ∨ (th1.closing = true ∧ (monOf s'.wire).closedBy = some t1))
    (hcc : th'.closing = true → plain th'.pc = true → th'.cmd = closeCmd) : Tear s' := by
  constructor
  · rw [hjoin]
    rcases ht.safe with h | h
    · exact Or.inl h
    · refine Or.inr ?_
      intro t1 th1 h1
      rw [hthr] at h1
      rcases get_set_cases hget h1 with ⟨rfl, rfl⟩ | ⟨_, g1⟩
      · rw [hkind]; exact h _ _ hget
      · exact h _ _ g1
  · intro t1 th1 h1 hp
    rw [hthr] at h1
    rcases get_set_cases hget h1 with ⟨rfl, rfl⟩ | ⟨_, g1⟩
    · rw [hkind]; exact hka hp
    · exact ht.kaPc _ _ g1 hp
  · intro t1 th1 h1 hp
    rw [hthr] at h1
    rcases get_set_cases hget h1 with ⟨rfl, rfl⟩ | ⟨_, g1⟩
    · rw [hkind]; exact hco hp
    · exact ht.closerPc _ _ g1 hp
  · intro t1 th1 h1 hp
    rw [hthr] at h1
    rcases get_set_cases hget h1 with ⟨rfl, rfl⟩ | ⟨_, g1⟩
    · rw [hclosing]; exact hlate hp
    · exact ht.lateClosing _ _ g1 hp
  · intro t1 th1 h1 hp
    rw [hthr] at h1
    rcases get_set_cases hget h1 with ⟨rfl, rfl⟩ | ⟨_, g1⟩
    · rw [hclosing]; exact hearly hp
    · exact ht.earlyOpen _ _ g1 hp
  · intro t1 th1 h1 hp
    rw [hthr] at h1
    rcases get_set_cases hget h1 with ⟨rfl, rfl⟩ | ⟨_, g1⟩
    · rw [hkind]; rw [hclosing] at hp; exact ht.closingKind _ _ hget hp
    · exact ht.closingKind _ _ g1 hp
  · intro t1 th1 h1 hp
    rw [hthr] at h1
    rcases get_set_cases hget h1 with ⟨rfl, rfl⟩ | ⟨_, g1⟩
    · rw [hcmd hp]; rw [hclosing] at hp; exact ht.cmdNotClose _ _ hget hp
    · exact ht.cmdNotClose _ _ g1 hp
  · intro t1 t2 th1 th2 h1 h2 k1 k2
    rw [hthr] at h1 h2
    rcases get_set_cases hget h1 with ⟨rfl, rfl⟩ | ⟨n1, g1⟩
    · rcases get_set_cases hget h2 with ⟨rfl, rfl⟩ | ⟨n2, g2⟩
      · rfl
      · rw [hkind] at k1; exact ht.uniq _ _ _ _ hget g2 k1 k2
    · rcases get_set_cases hget h2 with ⟨rfl, rfl⟩ | ⟨n2, g2⟩
      · rw [hkind] at k2; exact ht.uniq _ _ _ _ g1 hget k1 k2
      · exact ht.uniq _ _ _ _ g1 g2 k1 k2
  · intro t0 th0 h0 hp t1 th1 h1 k1
    rw [hthr] at h0 h1
    rcases get_set_cases hget h0 with ⟨rfl, rfl⟩ | ⟨n0, g0⟩
    · rcases get_set_cases hget h1 with ⟨rfl, rfl⟩ | ⟨n1, g1⟩
      · rw [hkind, (hpb hp).1] at k1; cases k1
      · exact (hpb hp).2 _ _ g1 k1
    · rcases get_set_cases hget h1 with ⟨rfl, rfl⟩ | ⟨n1, g1⟩
      · rw [hkind] at k1
        exact absurd (ht.barrier _ _ g0 hp _ _ hget k1) hnd
      · exact ht.barrier _ _ g0 hp _ _ g1 k1
  · intro t0 th0 h0 hp t1 th1 h1 ne
    rw [hthr] at h0 h1
    rcases get_set_cases hget h0 with ⟨rfl, rfl⟩ | ⟨n0, g0⟩
    · rcases get_set_cases hget h1 with ⟨rfl, rfl⟩ | ⟨n1, g1⟩
      · exact absurd rfl ne
      · rw [hclosing] at hp; exact ht.late _ _ hget hp _ _ g1 ne
    · rcases get_set_cases hget h1 with ⟨rfl, rfl⟩ | ⟨n1, g1⟩
      · exact absurd (ht.late _ _ g0 hp _ _ hget (fun e => n0 e.symm)) hnd
      · exact ht.late _ _ g0 hp _ _ g1 ne
  · exact hdeact
  · intro t1 th1 h1 hp
    rw [hthr] at h1
    rcases get_set_cases hget h1 with ⟨rfl, rfl⟩ | ⟨_, g1⟩
    · exact hjk hp
    · exact hstop (ht.stop _ _ g1 hp)
  · exact hclosed
  · intro t1 th1 h1 a b
    rw [hthr] at h1
    rcases get_set_cases hget h1 with ⟨rfl, rfl⟩ | ⟨_, g1⟩
    · exact hcc a b
    · exact ht.cmdClose _ _ g1 a b

/-- `barrier` clause of the frame when the thread was past the barrier already. -/
theorem pb_of_old {s : Sys} {t : Nat} {th th' : Thr} (ht : Tear s) (hget : s.thr[t]? = some th)
    (h : pastBarrier th' = true → pastBarrier th = true) :
    pastBarrier th' = true → th.kind = .closer ∧
      ∀ (t1 : Nat) (th1 : Thr), s.thr[t1]? = some th1 → th1.kind = .worker → th1.pc = .done :=
  fun hp => ⟨pastBarrier_closer ht hget (h hp), ht.barrier _ _ hget (h hp)⟩

/-- `deact` clause of the frame when `activated` is untouched. -/
theorem deact_frame {s s' : Sys} {t : Nat} {th : Thr} (ht : Tear s) (hget : s.thr[t]? = some th)
    (hact : s'.activated = s.activated) (hnd : th.pc ≠ .done) :
    s'.activated = false → ∀ (t1 : Nat) (th1 : Thr), s'.thr[t1]? = some th1 → th1.pc = .done := by
  intro h
  rw [hact] at h
  exact absurd (ht.deact h t th hget) hnd

/-- `closed` clause of the frame when the wire's Close Session flags are untouched. -/
theorem closed_frame {s s' : Sys} {t : Nat} {th th' : Thr} (ht : Tear s) (hget : s.thr[t]? = some th)
    (hthr : s'.thr = s.thr.set t th')
    (hw : (monOf s'.wire).closed = (monOf s.wire).closed ∧ (monOf s'.wire).closedBy = (monOf s.wire).closedBy)
    (hnd : th.pc ≠ .done) (hclosing : th'.closing = th.closing) :
    (monOf s'.wire).closed = true → ∀ (t1 : Nat) (th1 : Thr), s'.thr[t1]? = some th1 →
      th1.pc = .done ∨ (th1.closing = true ∧ (monOf s'.wire).closedBy = some t1) := by
  intro hc t1 th1 h1
  rw [hw.1] at hc
  rw [hthr] at h1
  rw [hw.2]
  rcases get_set_cases hget h1 with ⟨rfl, rfl⟩ | ⟨_, g1⟩
  · rcases ht.closed hc _ _ hget with h | ⟨h, h'⟩
    · exact absurd h hnd
    · exact Or.inr ⟨by rw [hclosing]; exact h, h'⟩
  · exact ht.closed hc _ _ g1

/-- A step along the call path: only the program point and the registers of `t` change. -/
theorem tear_plain {s s' : Sys} {t : Nat} {th th' : Thr} (ht : Tear s) (hget : s.thr[t]? = some th)
    (hthr : s'.thr = s.thr.set t th') (hjoin : s'.join = s.join) (hstop : s'.stopped = s.stopped)
    (hact : s'.activated = s.activated)
    (hw : (monOf s'.wire).closed = (monOf s.wire).closed ∧ (monOf s'.wire).closedBy = (monOf s.wire).closedBy)
    (hnd : th.pc ≠ .done) (hkind : th'.kind = th.kind) (hclosing : th'.closing = th.closing)
    (hcmd : th'.cmd = th.cmd) (hp : plain th'.pc = true)
    (hpl : closerOnly th.pc = false) : Tear s' := by
  refine tear_frame ht hget hthr hjoin (by rw [hstop]; exact id) hnd hkind hclosing (fun _ => hcmd) ?_ ?_ ?_ ?_ ?_ ?_
    (deact_frame ht hget hact hnd) (closed_frame ht hget hthr hw hnd hclosing) ?_
  · intro h; rw [h] at hp; cases hp
  · intro h; cases hpc : th'.pc <;> simp_all [plain, closerOnly]
  · intro h; cases hpc : th'.pc <;> simp_all [plain, latePc]
  · intro h; cases hpc : th'.pc <;> simp_all [plain, earlyPc]
  · apply pb_of_old ht hget
    intro h
    simp only [pastBarrier, Bool.or_eq_true, beq_iff_eq] at h ⊢
    rcases h with (h | h) | h
    · exact Or.inl (Or.inl (by rw [← hclosing]; exact h))
    · rw [h] at hp; cases hp
    · rw [h] at hp; cases hp
  · intro h; rw [h] at hp; cases hp
  · intro hcl _
    rw [hclosing] at hcl
    rw [hcmd]
    apply ht.cmdClose _ _ hget hcl
    have hk := ht.closingKind _ _ hget hcl
    cases hpc : th.pc <;> simp_all [plain, closerOnly]
    have := ht.kaPc _ _ hget hpc
    rw [hk] at this; cases this

theorem allDone_get {k : Kind} {l : List Thr} (h : allDone k l = true) {t : Nat} {th : Thr}
    (hget : l[t]? = some th) (hk : th.kind = k) : th.pc = .done := by
  simp only [allDone, List.all_eq_true] at h
  have := h th (List.mem_of_getElem? hget)
  simp [hk] at this
  exact this

theorem hasKa_get {l : List Thr} (h : hasKa l = false) {t : Nat} {th : Thr} (hget : l[t]? = some th) :
    th.kind ≠ .keepAlive := by
  intro hk
  have : hasKa l = true := by
    simp only [hasKa, List.any_eq_true]
    exact ⟨th, List.mem_of_getElem? hget, by simp [hk]⟩
  rw [h] at this; cases this

/-- The closing thread `t` leaves the stopper (or skips it): every other thread has finished. -/
theorem tear_enter_late {s s' : Sys} {t : Nat} {th : Thr} (ht : Tear s) (hget : s.thr[t]? = some th)
    (hthr : s'.thr = s.thr.set t { th with pc := .chkAct, closing := true }) (hjoin : s'.join = s.join)
    (hstop : s.stopped = true → s'.stopped = true) (hact : s'.activated = s.activated)
    (hw : s'.wire = s.wire)
    (hco : closerOnly th.pc = true) (hcl : th.closing = false)
    (hothers : ∀ (t1 : Nat) (th1 : Thr), s.thr[t1]? = some th1 → t1 ≠ t → th1.pc = .done) : Tear s' := by
  have hk : th.kind = .closer := ht.closerPc t th hget hco
  have hnd : th.pc ≠ .done := by intro h; rw [h] at hco; cases hco
  constructor
  · rw [hjoin]
    rcases ht.safe with h | h
    · exact Or.inl h
    · exact absurd hk (h _ _ hget)
  · intro t1 th1 h1 hp
    rw [hthr] at h1
    rcases get_set_cases hget h1 with ⟨rfl, rfl⟩ | ⟨_, g1⟩
    · cases hp
    · exact ht.kaPc _ _ g1 hp
  · intro t1 th1 h1 hp
    rw [hthr] at h1
    rcases get_set_cases hget h1 with ⟨rfl, rfl⟩ | ⟨_, g1⟩
    · exact hk
    · exact ht.closerPc _ _ g1 hp
  · intro t1 th1 h1 hp
    rw [hthr] at h1
    rcases get_set_cases hget h1 with ⟨rfl, rfl⟩ | ⟨_, g1⟩
    · rfl
    · exact ht.lateClosing _ _ g1 hp
  · intro t1 th1 h1 hp
    rw [hthr] at h1
    rcases get_set_cases hget h1 with ⟨rfl, rfl⟩ | ⟨_, g1⟩
    · cases hp
    · exact ht.earlyOpen _ _ g1 hp
  · intro t1 th1 h1 hp
    rw [hthr] at h1
    rcases get_set_cases hget h1 with ⟨rfl, rfl⟩ | ⟨_, g1⟩
    · exact hk
    · exact ht.closingKind _ _ g1 hp
  · intro t1 th1 h1 hp
    rw [hthr] at h1
    rcases get_set_cases hget h1 with ⟨rfl, rfl⟩ | ⟨_, g1⟩
    · cases hp
    · exact ht.cmdNotClose _ _ g1 hp
  · intro t1 t2 th1 th2 h1 h2 k1 k2
    rw [hthr] at h1 h2
    rcases get_set_cases hget h1 with ⟨rfl, rfl⟩ | ⟨n1, g1⟩
    · rcases get_set_cases hget h2 with ⟨rfl, rfl⟩ | ⟨n2, g2⟩
      · rfl
      · exact ht.uniq _ _ _ _ hget g2 hk k2
    · rcases get_set_cases hget h2 with ⟨rfl, rfl⟩ | ⟨n2, g2⟩
      · exact ht.uniq _ _ _ _ g1 hget k1 hk
      · exact ht.uniq _ _ _ _ g1 g2 k1 k2
  · intro t0 th0 h0 hp t1 th1 h1 k1
    rw [hthr] at h0 h1
    rcases get_set_cases hget h1 with ⟨rfl, rfl⟩ | ⟨n1, g1⟩
    · rw [hk] at k1; cases k1
    · exact hothers _ _ g1 n1
  · intro t0 th0 h0 hp t1 th1 h1 ne
    rw [hthr] at h0 h1
    rcases get_set_cases hget h0 with ⟨rfl, rfl⟩ | ⟨n0, g0⟩
    · rcases get_set_cases hget h1 with ⟨rfl, rfl⟩ | ⟨n1, g1⟩
      · exact absurd rfl ne
      · exact hothers _ _ g1 n1
    · -- another closing thread: it is a closer, so it is `t` itself
      have := ht.uniq _ _ _ _ g0 hget (ht.closingKind _ _ g0 hp) hk
      exact absurd this n0
  · intro h
    rw [hact] at h
    exact absurd (ht.deact h t th hget) hnd
  · intro t1 th1 h1 hp
    rw [hthr] at h1
    rcases get_set_cases hget h1 with ⟨rfl, rfl⟩ | ⟨_, g1⟩
    · cases hp
    · exact hstop (ht.stop _ _ g1 hp)
  · intro hc t1 th1 h1
    rw [hw] at hc
    rcases ht.closed hc _ _ hget with h | ⟨h, _⟩
    · exact absurd h hnd
    · rw [hcl] at h; cases h
  · intro t1 th1 h1 a b
    rw [hthr] at h1
    rcases get_set_cases hget h1 with ⟨rfl, rfl⟩ | ⟨_, g1⟩
    · cases b
    · exact ht.cmdClose _ _ g1 a b

/-- every step of every thread preserves the teardown invariant -/
theorem stepThr_tear {s s' : Sys} {t : Nat} {th : Thr} (ht : Tear s) (hget : s.thr[t]? = some th)
    (h : stepThr s t th = some s') : Tear s' := by
  cases hpc : th.pc with
  | idle =>
    cases hsl : s.seqLocked with
    | false =>
      simp [stepThr, hpc, hsl] at h; subst h
      exact tear_plain ht hget rfl rfl rfl rfl ⟨rfl, rfl⟩ (by simp [hpc]) rfl rfl rfl rfl (by simp [hpc, closerOnly])
    | true =>
      cases hl : s.lock with
      | some x => simp [stepThr, hpc, hsl, hl] at h
      | none =>
        simp [stepThr, hpc, hsl, hl] at h; subst h
        exact tear_plain ht hget rfl rfl rfl rfl ⟨rfl, rfl⟩ (by simp [hpc]) rfl rfl rfl rfl (by simp [hpc, closerOnly])
  | lkLoad =>
    simp [stepThr, hpc] at h; subst h
    exact tear_plain ht hget rfl rfl rfl rfl ⟨rfl, rfl⟩ (by simp [hpc]) rfl rfl rfl rfl (by simp [hpc, closerOnly])
  | lkStore =>
    simp [stepThr, hpc] at h; subst h
    exact tear_plain ht hget rfl rfl rfl rfl ⟨rfl, rfl⟩ (by simp [hpc]) rfl rfl rfl rfl (by simp [hpc, closerOnly])
  | lkHdr =>
    simp [stepThr, hpc] at h; subst h
    exact tear_plain ht hget rfl rfl rfl rfl ⟨rfl, rfl⟩ (by simp [hpc]) rfl rfl rfl rfl (by simp [hpc, closerOnly])
  | incStore =>
    simp [stepThr, hpc] at h; subst h
    exact tear_plain ht hget rfl rfl rfl rfl ⟨rfl, rfl⟩ (by simp [hpc]) rfl rfl rfl rfl (by simp [hpc, closerOnly])
  | hdrLoad =>
    simp [stepThr, hpc] at h; subst h
    exact tear_plain ht hget rfl rfl rfl rfl ⟨rfl, rfl⟩ (by simp [hpc]) rfl rfl rfl rfl (by simp [hpc, closerOnly])
  | acquire =>
    cases hl : s.lock with
    | some x => simp [stepThr, hpc, hl] at h
    | none =>
      simp [stepThr, hpc, hl] at h; subst h
      exact tear_plain ht hget rfl rfl rfl rfl ⟨rfl, rfl⟩ (by simp [hpc]) rfl rfl rfl rfl (by simp [hpc, closerOnly])
  | actLoad =>
    simp [stepThr, hpc] at h; subst h
    refine tear_plain ht hget rfl rfl rfl rfl ⟨rfl, rfl⟩ (by simp [hpc]) rfl rfl rfl ?_ (by simp [hpc, closerOnly])
    simp only []; split <;> rfl
  | ssLoad =>
    simp [stepThr, hpc] at h; subst h
    exact tear_plain ht hget rfl rfl rfl rfl ⟨rfl, rfl⟩ (by simp [hpc]) rfl rfl rfl rfl (by simp [hpc, closerOnly])
  | ssStore =>
    simp [stepThr, hpc] at h; subst h
    exact tear_plain ht hget rfl rfl rfl rfl ⟨rfl, rfl⟩ (by simp [hpc]) rfl rfl rfl rfl (by simp [hpc, closerOnly])
  | ssChk =>
    simp [stepThr, hpc] at h; subst h
    refine tear_plain ht hget rfl rfl rfl rfl ⟨rfl, rfl⟩ (by simp [hpc]) rfl rfl rfl ?_ (by simp [hpc, closerOnly])
    simp only []; split <;> rfl
  | ssWrap =>
    simp [stepThr, hpc] at h; subst h
    exact tear_plain ht hget rfl rfl rfl rfl ⟨rfl, rfl⟩ (by simp [hpc]) rfl rfl rfl rfl (by simp [hpc, closerOnly])
  | ssHdr k =>
    cases k with
    | zero =>
      simp [stepThr, hpc] at h; subst h
      exact tear_plain ht hget rfl rfl rfl rfl ⟨rfl, rfl⟩ (by simp [hpc]) rfl rfl rfl rfl (by simp [hpc, closerOnly])
    | succ k =>
      simp [stepThr, hpc] at h; subst h
      exact tear_plain ht hget rfl rfl rfl rfl ⟨rfl, rfl⟩ (by simp [hpc]) rfl rfl rfl rfl (by simp [hpc, closerOnly])
  | send =>
    simp [stepThr, hpc] at h; subst h
    have hnd : th.pc ≠ .done := by simp [hpc]
    refine tear_frame ht hget rfl rfl id hnd rfl rfl (fun _ => rfl) (by intro h; cases h) (by intro h; cases h)
      (by intro h; cases h) (by intro h; cases h) ?_ (by intro h; cases h) (deact_frame ht hget rfl hnd) ?_ ?_
    · apply pb_of_old ht hget
      intro h
      simp only [pastBarrier, Bool.or_eq_true, beq_iff_eq] at h ⊢
      rcases h with (h | h) | h
      · exact Or.inl (Or.inl h)
      · cases h
      · cases h
    · intro hc t1 th1 h1
      cases hold : (monOf s.wire).closed with
      | true =>
        -- Close Session is on the wire already: this is its sender, retransmitting
        have key := ht.closed hold
        rcases get_set_cases hget h1 with ⟨rfl, rfl⟩ | ⟨n1, g1⟩
        · rcases key _ _ hget with h | ⟨h, h'⟩
          · exact absurd h hnd
          · exact Or.inr ⟨h, by simp [Sys.upd, Mon.step, hold, h']⟩
        · rcases key _ _ g1 with h | ⟨h, h'⟩
          · exact Or.inl h
          · exact Or.inr ⟨h, by simp [Sys.upd, Mon.step, hold, h']⟩
      | false =>
        -- Close Session was not on the wire before: this datagram is it
        have hcmd : th.cmd = closeCmd := by
          simp [Sys.upd, Mon.step, hold] at hc
          exact hc
        have hclosing : th.closing = true := by
          cases hcl : th.closing with
          | true => rfl
          | false => exact absurd hcmd (ht.cmdNotClose _ _ hget hcl)
        rcases get_set_cases hget h1 with ⟨rfl, rfl⟩ | ⟨n1, g1⟩
        · exact Or.inr ⟨hclosing, by simp [Sys.upd, Mon.step, hold, hcmd]⟩
        · exact Or.inl (ht.late _ _ hget hclosing _ _ g1 n1)
    · intro hcl _
      exact ht.cmdClose t th hget hcl (by rw [hpc]; rfl)
  | recv =>
    simp only [stepThr, hpc] at h
    cases hq : s.q with
    | cons r q' =>
      simp [hq] at h; subst h
      refine tear_plain ht hget rfl rfl rfl rfl ⟨rfl, rfl⟩ (by simp [hpc]) rfl rfl rfl ?_ (by simp [hpc, closerOnly])
      simp only []; split <;> rfl
    | nil =>
      cases hsk : s.sock with
      | cons r sk =>
        simp [hq, hsk] at h; subst h
        refine tear_plain ht hget rfl rfl rfl rfl ?_ (by simp [hpc]) rfl rfl rfl ?_ (by simp [hpc, closerOnly])
        · constructor <;> simp [Sys.upd, Mon.step]
        · simp only []; split <;> rfl
      | nil =>
        simp [hq, hsk] at h; subst h
        refine tear_plain ht hget rfl rfl rfl rfl ?_ (by simp [hpc]) rfl rfl rfl ?_ (by simp [hpc, closerOnly])
        · constructor <;> simp [Sys.upd, Mon.step]
        · simp only []; (repeat' split) <;> rfl
  | requeue =>
    simp [stepThr, hpc] at h; subst h
    refine tear_plain ht hget rfl rfl rfl rfl ⟨rfl, rfl⟩ (by simp [hpc]) rfl rfl rfl ?_ (by simp [hpc, closerOnly])
    simp only []; split <;> rfl
  | release =>
    simp [stepThr, hpc] at h; subst h
    have hnd : th.pc ≠ .done := by simp [hpc]
    generalize hr : (match th.got with | some r => CallRes.ok th.mine r.serial | none => CallRes.retryError th.mine) = r
    refine tear_frame ht hget rfl rfl id hnd rfl rfl (fun _ => rfl) ?_ ?_ ?_ ?_ ?_ ?_
      (deact_frame ht hget rfl hnd) (closed_frame ht hget rfl ⟨rfl, rfl⟩ hnd rfl) ?_
    · intro h
      simp only [afterCall, nextPc] at h
      cases hk : th.kind <;> simp [hk] at h ⊢
      all_goals (repeat' split at h) <;> simp_all
    · intro h
      simp only [afterCall, nextPc] at h
      cases hk : th.kind <;> simp [hk] at h ⊢
      all_goals (repeat' split at h) <;> simp_all [closerOnly]
    · intro h
      simp only [afterCall, nextPc] at h
      cases hk : th.kind <;> simp [hk] at h
      all_goals (repeat' split at h) <;> simp_all [latePc]
    · intro h
      simp only [afterCall, nextPc] at h
      cases hk : th.kind <;> simp [hk] at h
      all_goals (repeat' split at h) <;> simp_all [earlyPc]
    · apply pb_of_old ht hget
      intro h
      simp only [pastBarrier, Bool.or_eq_true, beq_iff_eq, afterCall, nextPc] at h ⊢
      rcases h with (h | h) | h
      · exact Or.inl (Or.inl h)
      · cases hk : th.kind <;> simp [hk] at h
        all_goals (repeat' split at h) <;> simp_all
      · cases hk : th.kind <;> simp [hk] at h
        all_goals (repeat' split at h) <;> simp_all
    · intro h
      simp only [afterCall, nextPc] at h
      cases hk : th.kind <;> simp [hk] at h
      all_goals (repeat' split at h) <;> simp_all
    · intro hcl hp
      have hcl' : th.closing = true := hcl
      have hk := ht.closingKind _ _ hget hcl'
      simp only [afterCall, nextPc, hk, hcl', if_true] at hp
      split at hp <;> cases hp
  | kaWait =>
    have hnd : th.pc ≠ .done := by simp [hpc]
    simp only [stepThr, hpc] at h
    split at h
    · simp at h; subst h
      refine tear_frame ht hget rfl rfl id hnd rfl rfl (fun _ => rfl) (by intro h; cases h) (by intro h; cases h)
        (by intro h; cases h) (by intro h; cases h) ?_ (by intro h; cases h) (deact_frame ht hget rfl hnd)
        (closed_frame ht hget rfl ⟨rfl, rfl⟩ hnd rfl) (by intro _ h; cases h)
      apply pb_of_old ht hget
      intro h
      simp only [pastBarrier, Bool.or_eq_true, beq_iff_eq] at h ⊢
      rcases h with (h | h) | h
      · exact Or.inl (Or.inl h)
      · cases h
      · cases h
    · split at h
      · cases h
      · simp at h; subst h
        exact tear_plain ht hget rfl rfl rfl rfl ⟨rfl, rfl⟩ hnd rfl rfl rfl rfl (by simp [hpc, closerOnly])
  | await =>
    have hnd : th.pc ≠ .done := by simp [hpc]
    have hk : th.kind = .closer := ht.closerPc _ _ hget (by rw [hpc]; rfl)
    have hcl : th.closing = false := ht.earlyOpen _ _ hget (by rw [hpc]; rfl)
    simp only [stepThr, hpc] at h
    split at h
    · rename_i hall
      cases hka : hasKa s.thr with
      | true =>
        simp [hka] at h; subst h
        refine tear_frame ht hget rfl rfl id hnd rfl rfl (fun _ => rfl)
          (by intro h; cases h) (fun _ => hk) (by intro h; cases h) (fun _ => hcl) ?_ (by intro h; cases h)
          (deact_frame ht hget rfl hnd) (closed_frame ht hget rfl ⟨rfl, rfl⟩ hnd rfl) (by intro _ h; cases h)
        intro _
        exact ⟨hk, fun t1 th1 h1 k1 => allDone_get hall h1 k1⟩
      | false =>
        simp [hka] at h; subst h
        refine tear_enter_late ht hget rfl rfl id rfl rfl (by rw [hpc]; rfl) hcl ?_
        intro t1 th1 h1 n1
        cases k1 : th1.kind with
        | worker => exact allDone_get hall h1 k1
        | keepAlive => exact absurd k1 (hasKa_get hka h1)
        | closer => exact absurd (ht.uniq _ _ _ _ h1 hget k1 hk) n1
    · cases h
  | stopSet =>
    have hnd : th.pc ≠ .done := by simp [hpc]
    have hk : th.kind = .closer := ht.closerPc _ _ hget (by rw [hpc]; rfl)
    simp only [stepThr, hpc] at h
    rcases ht.safe with hj | hj
    · simp [hj] at h; subst h
      refine tear_frame ht hget rfl (by simp [Sys.upd, hj]) (fun _ => rfl) hnd rfl rfl (fun _ => rfl)
        (by intro h; cases h) (fun _ => hk) (by intro h; cases h)
        (fun _ => ht.earlyOpen _ _ hget (by rw [hpc]; rfl)) ?_ (fun _ => rfl)
        (deact_frame ht hget rfl hnd) (closed_frame ht hget rfl ⟨rfl, rfl⟩ hnd rfl) (by intro _ h; cases h)
      apply pb_of_old ht hget
      intro _
      simp [pastBarrier, hpc]
    · exact absurd hk (hj _ _ hget)
  | joinKa =>
    have hnd : th.pc ≠ .done := by simp [hpc]
    have hk : th.kind = .closer := ht.closerPc _ _ hget (by rw [hpc]; rfl)
    simp only [stepThr, hpc] at h
    split at h
    · rename_i hall
      simp at h; subst h
      have hcl : th.closing = false := ht.earlyOpen _ _ hget (by rw [hpc]; rfl)
      refine tear_enter_late ht hget rfl rfl id rfl rfl (by rw [hpc]; rfl) hcl ?_
      intro t1 th1 h1 n1
      cases k1 : th1.kind with
      | worker => exact ht.barrier _ _ hget (by simp [pastBarrier, hpc]) _ _ h1 k1
      | keepAlive => exact allDone_get hall h1 k1
      | closer => exact absurd (ht.uniq _ _ _ _ h1 hget k1 hk) n1
    · cases h
  | chkAct =>
    have hnd : th.pc ≠ .done := by simp [hpc]
    have hk : th.kind = .closer := ht.closerPc _ _ hget (by rw [hpc]; rfl)
    have hcl : th.closing = true := ht.lateClosing _ _ hget (by rw [hpc]; rfl)
    simp [stepThr, hpc] at h; subst h
    refine tear_frame ht hget rfl rfl id hnd ?_ ?_ ?_ ?_ ?_ ?_ ?_ ?_ ?_
      (deact_frame ht hget rfl hnd) (closed_frame ht hget rfl ⟨rfl, rfl⟩ hnd ?_) ?_
    · split <;> rfl
    · split <;> rfl
    · intro h; split at h <;> simp [hcl] at h
    · intro h; split at h <;> cases h
    · intro _; exact hk
    · intro h; split at h <;> cases h
    · intro h; split at h <;> cases h
    · apply pb_of_old ht hget
      intro _
      simp [pastBarrier, hcl]
    · intro h; split at h <;> cases h
    · split <;> rfl
    · intro _ hp
      split
      · rfl
      · split at hp <;> simp_all [plain]
  | actStore =>
    have hnd : th.pc ≠ .done := by simp [hpc]
    have hk : th.kind = .closer := ht.closerPc _ _ hget (by rw [hpc]; rfl)
    have hcl : th.closing = true := ht.lateClosing _ _ hget (by rw [hpc]; rfl)
    simp [stepThr, hpc] at h; subst h
    refine tear_frame ht hget rfl rfl id hnd rfl rfl (fun _ => rfl)
      (by intro h; cases h) (fun _ => hk) (by intro h; cases h) (by intro h; cases h) ?_ (by intro h; cases h)
      ?_ (closed_frame ht hget rfl ⟨rfl, rfl⟩ hnd rfl) (by intro _ h; cases h)
    · apply pb_of_old ht hget
      intro _
      simp [pastBarrier, hcl]
    · intro _ t1 th1 h1
      rcases get_set_cases hget h1 with ⟨rfl, rfl⟩ | ⟨n1, g1⟩
      · rfl
      · exact ht.late _ _ hget hcl _ _ g1 n1
  | done => simp [stepThr, hpc] at h

end PyIpmi.Threads
