/-
  Lemmas for C06: histories of calls on the same `Rmcp` / `Session` objects (`runOps`) against ANY
  peer.  The only thing a later handshake needs to know about the history is that the password of the
  Session object is still the configured one (nothing in the interface writes it); everything else of
  the object — `sid`, `sequence_number`, `activated`, the attached flag — is arbitrary after a history
  and is dealt with by `resetSess`.
-/
import PyIpmi.Model.Session
namespace PyIpmi.Session
open PyIpmi PyIpmi.RmcpWire PyIpmi.Gen.RmcpFormats

section anypeer
variable {σ : Type} (md5 : List Nat → List Nat) (P : σ → List Nat → σ × Option (List Nat))

theorem packStep_pw (c : Client) (sdu : List Nat) : (packStep md5 c sdu).1.s.pw = c.s.pw := by
  unfold packStep
  cases hat : c.attached
  · simp [sessAfterPack]
  · cases hact : c.s.activated <;> simp [sessAfterPack, hact]

theorem tryLoop_pw (cfg : Cfg) (h : ReqHdr) (sdu : List Nat) (tries : Nat) : ∀ (p : σ) (c : Client),
    (tryLoop md5 P cfg h sdu tries p c).2.1.s.pw = c.s.pw := by
  induction tries with
  | zero => intro p c; rfl
  | succ n ih =>
    intro p c
    have hpw := packStep_pw md5 c sdu
    rcases hp : packStep md5 c sdu with ⟨c', o⟩
    rw [hp] at hpw
    simp only at hpw
    cases o with
    | ok d =>
      by_cases hr : rxStep cfg h (P p d).2 = .retryError
      · have e : (tryLoop md5 P cfg h sdu (n + 1) p c).2.1 = (tryLoop md5 P cfg h sdu n (P p d).1 c').2.1 := by
          simp only [tryLoop, hp, hr]
        rw [e, ih, hpw]
      · have e : (tryLoop md5 P cfg h sdu (n + 1) p c).2.1 = c' := by
          simp only [tryLoop, hp]
        rw [e]; exact hpw
    | _ => simp only [tryLoop, hp]; exact hpw

theorem exchange_pw (cfg : Cfg) (p : σ) (c : Client) (netfn lun cmd : Nat) (data : List Nat) :
    (exchange md5 P cfg p c netfn lun cmd data).2.1.s.pw = c.s.pw := by
  simp only [exchange, hdrStep]
  rw [tryLoop_pw]

theorem estabSetPriv_pw (cfg : Cfg) (sent : Sent) (p : σ) (c : Client) :
    (estabSetPriv md5 P cfg sent p c).client.s.pw = c.s.pw := by
  have hx := exchange_pw md5 P cfg p c netfnApp 0 cmdSetPriv [cfg.priv % 16]
  rcases he : exchange md5 P cfg p c netfnApp 0 cmdSetPriv [cfg.priv % 16] with ⟨p5, c4, s4, o⟩
  rw [he] at hx
  simp only at hx
  cases o with
  | ok pl => simp only [estabSetPriv, he]; cases decodeRsp setPrivRspWidths pl <;> exact hx
  | _ => simp only [estabSetPriv, he]; exact hx

theorem estabActivate_pw (cfg : Cfg) (sent : Sent) (p : σ) (c : Client) (fs2 : List (List Nat)) :
    (estabActivate md5 P cfg sent p c fs2).client.s.pw = c.s.pw := by
  simp only [estabActivate]
  generalize hdata : ([({ c with attached := true, s := { c.s with sid := leVal (fs2.getD 0 []) } } : Client).s.auth % 16,
    cfg.priv % 16] ++ fs2.getD 1 [] ++ leBytes 4 cfg.outSeq) = data
  have hc' : ({ c with attached := true, s := { c.s with sid := leVal (fs2.getD 0 []) } } : Client).s.pw = c.s.pw := rfl
  generalize ({ c with attached := true, s := { c.s with sid := leVal (fs2.getD 0 []) } } : Client) = c2' at hc' ⊢
  have hx := exchange_pw md5 P cfg p c2' netfnApp 0 cmdActivate data
  rcases he : exchange md5 P cfg p c2' netfnApp 0 cmdActivate data with ⟨p4, c3, s3, o⟩
  rw [he] at hx
  simp only at hx
  cases o with
  | ok pl =>
    simp only
    cases hd : decodeRsp activateRspWidths pl with
    | ok fs3 => simp only; rw [estabSetPriv_pw]; simp only; rw [hx, hc']
    | _ => simp only; rw [hx, hc']
  | _ => simp only; rw [hx, hc']

theorem estabChallenge_pw (cfg : Cfg) (sent : Sent) (p : σ) (c : Client) (fs1 : List (List Nat)) :
    (estabChallenge md5 P cfg sent p c fs1).client.s.pw = c.s.pw := by
  simp only [estabChallenge]
  have hc' : ({ c with s := { c.s with auth := (chooseAuth cfg.pref ((fs1.getD 1 []).getD 0 0)).getD 256 } } : Client).s.pw
      = c.s.pw := rfl
  generalize ({ c with s := { c.s with auth := (chooseAuth cfg.pref ((fs1.getD 1 []).getD 0 0)).getD 256 } } : Client) = c1'
    at hc' ⊢
  generalize ([(chooseAuth cfg.pref ((fs1.getD 1 []).getD 0 0)).getD 0 % 16] ++ userField cfg.user) = data
  split
  · exact hc'
  have hx := exchange_pw md5 P cfg p c1' netfnApp 0 cmdGetChallenge data
  rcases he : exchange md5 P cfg p c1' netfnApp 0 cmdGetChallenge data with ⟨p3, c2, s2, o⟩
  rw [he] at hx
  simp only at hx
  cases o with
  | ok pl =>
    simp only
    cases hd : decodeRsp challengeRspWidths pl with
    | ok fs2 => simp only; rw [estabActivate_pw, hx, hc']
    | _ => simp only; rw [hx, hc']
  | _ => simp only; rw [hx, hc']

theorem estabAuthCap_pw (cfg : Cfg) (sent : Sent) (p : σ) (c : Client) :
    (estabAuthCap md5 P cfg sent p c).client.s.pw = c.s.pw := by
  simp only [estabAuthCap]
  have hx := exchange_pw md5 P cfg p c netfnApp 0 cmdGetAuthCap [0x0e, cfg.priv % 16]
  rcases he : exchange md5 P cfg p c netfnApp 0 cmdGetAuthCap [0x0e, cfg.priv % 16] with ⟨p2, c1, s1, o⟩
  rw [he] at hx
  simp only at hx
  cases o with
  | ok pl =>
    simp only
    cases hd : decodeRsp authCapRspWidths pl with
    | ok fs1 => simp only; rw [estabChallenge_pw, hx]
    | _ => simp only; exact hx
  | _ => simp only; exact hx

theorem handshake_pw (cfg : Cfg) (p : σ) (c : Client) : (handshake md5 P cfg p c).client.s.pw = c.s.pw := by
  simp only [handshake]
  rcases hp : ping P p with ⟨p1, s0, o⟩
  cases o with
  | ok u => simp only; rw [estabAuthCap_pw]
  | _ => rfl

theorem establish_pw (cfg : Cfg) (p : σ) (c : Client) : (establish md5 P cfg p c).client.s.pw = c.s.pw := by
  unfold establish
  rw [handshake_pw]
  unfold resetSess
  split <;> rfl

theorem requestN_pw (cfg : Cfg) (n : Nat) : ∀ (p : σ) (c : Client), (requestN md5 P cfg n p c).client.s.pw = c.s.pw := by
  induction n with
  | zero => intro p c; rfl
  | succ n ih =>
    intro p c
    have hx := exchange_pw md5 P cfg p c netfnApp 0 cmdGetDeviceId []
    rcases he : exchange md5 P cfg p c netfnApp 0 cmdGetDeviceId [] with ⟨p', c', s, o⟩
    rw [he] at hx
    simp only at hx
    simp only [requestN, request, he]
    cases o with
    | ok pl => simp only; rw [ih, hx]
    | _ => simp only; exact hx

theorem close_pw (cfg : Cfg) (p : σ) (c : Client) : (close md5 P cfg p c).client.s.pw = c.s.pw := by
  unfold close
  split
  · split <;> rfl
  split
  · rfl
  have hx := exchange_pw md5 P cfg p c netfnApp 0 cmdClose (leBytes 4 c.s.sid)
  rcases he : exchange md5 P cfg p c netfnApp 0 cmdClose (leBytes 4 c.s.sid) with ⟨p', c', s, o⟩
  rw [he] at hx
  simp only at hx
  cases o with
  | ok pl => simp only; cases decodeRsp closeRspWidths pl <;> exact hx
  | _ => simp only; exact hx

theorem runOp_pw (op : Op) (p : σ) (c : Client) : (runOp md5 P op p c).client.s.pw = c.s.pw := by
  cases op with
  | «open» cfg => exact establish_pw md5 P cfg p c
  | requests cfg n => exact requestN_pw md5 P cfg n p c
  | close cfg => exact close_pw md5 P cfg p c

/-- Whatever was called on the objects before, against whatever peer: the Session object still
holds its password.  (Its `sid`, `sequence_number`, `activated` can be anything.) -/
theorem runOps_pw (ops : List Op) : ∀ (p : σ) (c : Client), (runOps md5 P ops p c).2.1.s.pw = c.s.pw := by
  induction ops with
  | nil => intro p c; rfl
  | cons op ops ih =>
    intro p c
    simp only [runOps]
    rw [ih, runOp_pw]

end anypeer
end PyIpmi.Session
