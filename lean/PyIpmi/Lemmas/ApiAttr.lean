/- Simp set used by the refinement proofs of C07 (Lemmas/Api*.lean): the definitions that are
   unfolded to evaluate one request/response exchange of an API operation against the reference
   BMC symbolically.  (An attribute has to be declared in a module of its own.) -/
import Lean.Meta.Tactic.Simp.RegisterCommand

/-- unfold the codec, the exchange and the reference BMC's dispatcher -/
register_simp_attr api_eval
