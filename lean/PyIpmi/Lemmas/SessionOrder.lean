/-
  Lemmas for C06: the order of the handshake datagrams against ANY peer whatsoever (arbitrary
  state, arbitrary answers, silence, garbage): each step's request is transmitted at most
  `max_retries + 1` times, a step is only started when the previous one succeeded, and success of
  the whole means every step was made.
-/
import PyIpmi.Model.Session
namespace PyIpmi.Session
open PyIpmi PyIpmi.RmcpWire PyIpmi.Gen.RmcpFormats

section anypeer
variable {σ : Type} (md5 : List Nat → List Nat) (P : σ → List Nat → σ × Option (List Nat)) (cfg : Cfg)

/-- one request: at most `tries` datagrams, at least one if it succeeded -/
theorem tryLoop_sent (h : ReqHdr) (sdu : List Nat) (tries : Nat) : ∀ (p : σ) (c : Client),
    (tryLoop md5 P cfg h sdu tries p c).2.2.1.length ≤ tries ∧
    (∀ pl, (tryLoop md5 P cfg h sdu tries p c).2.2.2 = .ok pl → 1 ≤ (tryLoop md5 P cfg h sdu tries p c).2.2.1.length) := by
  induction tries with
  | zero => intro p c; simp [tryLoop]
  | succ n ih =>
    intro p c
    rcases hp : packStep md5 c sdu with ⟨c', o⟩
    cases o with
    | ok d =>
      by_cases hr : rxStep cfg h (P p d).2 = .retryError
      · have e : tryLoop md5 P cfg h sdu (n + 1) p c =
            ((tryLoop md5 P cfg h sdu n (P p d).1 c').1, (tryLoop md5 P cfg h sdu n (P p d).1 c').2.1,
             d :: (tryLoop md5 P cfg h sdu n (P p d).1 c').2.2.1, (tryLoop md5 P cfg h sdu n (P p d).1 c').2.2.2) := by
          simp only [tryLoop, hp, hr]
        rw [e]
        have := (ih (P p d).1 c').1
        exact ⟨by simp only [List.length_cons]; omega, fun _ _ => by simp⟩
      · have e : tryLoop md5 P cfg h sdu (n + 1) p c = ((P p d).1, c', [d], rxStep cfg h (P p d).2) := by
          simp only [tryLoop, hp]
        rw [e]
        exact ⟨by simp, fun _ _ => by simp⟩
    | _ =>
      simp only [tryLoop, hp]
      exact ⟨by simp, fun pl hpl => by simp at hpl⟩

theorem exchange_sent (p : σ) (c : Client) (netfn lun cmd : Nat) (data : List Nat) :
    (exchange md5 P cfg p c netfn lun cmd data).2.2.1.length ≤ cfg.maxRetries + 1 ∧
    (∀ pl, (exchange md5 P cfg p c netfn lun cmd data).2.2.2 = .ok pl →
      1 ≤ (exchange md5 P cfg p c netfn lun cmd data).2.2.1.length) := by
  simp only [exchange]
  exact tryLoop_sent md5 P cfg _ _ _ _ _

/-- the kinds of the datagrams sent, in order -/
def kinds (s : Sent) : List Kind := s.map Prod.fst

theorem kinds_append (a b : Sent) : kinds (a ++ b) = kinds a ++ kinds b := by simp [kinds]

theorem kinds_tagAll (k : Kind) (l : List (List Nat)) : kinds (tagAll k l) = List.replicate l.length k := by
  induction l with
  | nil => rfl
  | cons d r ih => simp only [tagAll, kinds, List.map_cons, List.length_cons, List.replicate_succ] at ih ⊢; rw [ih]

theorem estabSetPriv_order (sent3 : Sent) (p4 : σ) (c3 : Client) :
    ∃ n4, n4 ≤ cfg.maxRetries + 1 ∧
      kinds (estabSetPriv md5 P cfg sent3 p4 c3).sent = kinds sent3 ++ List.replicate n4 .setPriv ∧
      ((estabSetPriv md5 P cfg sent3 p4 c3).outcome.isOk = true →
        1 ≤ n4 ∧ (estabSetPriv md5 P cfg sent3 p4 c3).outcome = .ok []) := by
  have hx := exchange_sent md5 P cfg p4 c3 netfnApp 0 cmdSetPriv [cfg.priv % 16]
  rcases he : exchange md5 P cfg p4 c3 netfnApp 0 cmdSetPriv [cfg.priv % 16] with ⟨p5, c4, s4, o⟩
  rw [he] at hx
  simp only at hx
  refine ⟨s4.length, hx.1, ?_⟩
  cases o with
  | ok pl =>
    have h1 := hx.2 pl rfl
    simp only [estabSetPriv, he]
    cases decodeRsp setPrivRspWidths pl <;> simp [kinds_append, kinds_tagAll, Outcome.isOk, h1]
  | _ => simp [estabSetPriv, he, kinds_append, kinds_tagAll, Outcome.isOk]

theorem estabActivate_order (sent2 : Sent) (p3 : σ) (c2 : Client) (fs2 : List (List Nat)) :
    ∃ n3 n4, n3 ≤ cfg.maxRetries + 1 ∧ n4 ≤ cfg.maxRetries + 1 ∧ (1 ≤ n4 → 1 ≤ n3) ∧
      kinds (estabActivate md5 P cfg sent2 p3 c2 fs2).sent =
        kinds sent2 ++ List.replicate n3 .activate ++ List.replicate n4 .setPriv ∧
      ((estabActivate md5 P cfg sent2 p3 c2 fs2).outcome.isOk = true →
        1 ≤ n4 ∧ (estabActivate md5 P cfg sent2 p3 c2 fs2).outcome = .ok []) := by
  simp only [estabActivate]
  generalize hdata : ([({ c2 with attached := true, s := { c2.s with sid := leVal (fs2.getD 0 []) } } : Client).s.auth % 16,
    cfg.priv % 16] ++ fs2.getD 1 [] ++ leBytes 4 cfg.outSeq) = data
  generalize hc : ({ c2 with attached := true, s := { c2.s with sid := leVal (fs2.getD 0 []) } } : Client) = c2'
  have hx := exchange_sent md5 P cfg p3 c2' netfnApp 0 cmdActivate data
  rcases he : exchange md5 P cfg p3 c2' netfnApp 0 cmdActivate data with ⟨p4, c3, s3, o⟩
  rw [he] at hx
  simp only at hx
  cases o with
  | ok pl =>
    have h1 := hx.2 pl rfl
    simp only
    cases hd : decodeRsp activateRspWidths pl with
    | ok fs3 =>
      simp only
      obtain ⟨n4, g1, g2, g3⟩ := estabSetPriv_order md5 P cfg (sent2 ++ tagAll .activate s3) p4
        { c3 with s := ⟨c3.s.auth, leVal (fs3.getD 1 []), leVal (fs3.getD 2 []), true, c3.s.pw⟩ }
      refine ⟨s3.length, n4, hx.1, g1, fun _ => h1, ?_, g3⟩
      rw [g2, kinds_append, kinds_tagAll]
    | _ => exact ⟨s3.length, 0, hx.1, by omega, by omega, by simp [kinds_append, kinds_tagAll], by simp [Outcome.isOk]⟩
  | _ => exact ⟨s3.length, 0, hx.1, by omega, by omega, by simp [kinds_append, kinds_tagAll], by simp [Outcome.isOk]⟩

theorem estabChallenge_order (sent1 : Sent) (p2 : σ) (c1 : Client) (fs1 : List (List Nat)) :
    ∃ n2 n3 n4, n2 ≤ cfg.maxRetries + 1 ∧ n3 ≤ cfg.maxRetries + 1 ∧ n4 ≤ cfg.maxRetries + 1 ∧
      (1 ≤ n3 → 1 ≤ n2) ∧ (1 ≤ n4 → 1 ≤ n3) ∧
      kinds (estabChallenge md5 P cfg sent1 p2 c1 fs1).sent =
        kinds sent1 ++ List.replicate n2 .challenge ++ List.replicate n3 .activate ++ List.replicate n4 .setPriv ∧
      ((estabChallenge md5 P cfg sent1 p2 c1 fs1).outcome.isOk = true →
        1 ≤ n4 ∧ (estabChallenge md5 P cfg sent1 p2 c1 fs1).outcome = .ok []) := by
  simp only [estabChallenge]
  generalize hc : ({ c1 with s := { c1.s with auth := (chooseAuth cfg.pref ((fs1.getD 1 []).getD 0 0)).getD 256 } } : Client) = c1'
  generalize hdata : ([(chooseAuth cfg.pref ((fs1.getD 1 []).getD 0 0)).getD 0 % 16] ++ userField cfg.user) = data
  split
  · exact ⟨0, 0, 0, by omega, by omega, by omega, by omega, by omega, by simp, by simp [Outcome.isOk]⟩
  have hx := exchange_sent md5 P cfg p2 c1' netfnApp 0 cmdGetChallenge data
  rcases he : exchange md5 P cfg p2 c1' netfnApp 0 cmdGetChallenge data with ⟨p3, c2, s2, o⟩
  rw [he] at hx
  simp only at hx
  cases o with
  | ok pl =>
    have h1 := hx.2 pl rfl
    simp only
    cases hd : decodeRsp challengeRspWidths pl with
    | ok fs2 =>
      simp only
      obtain ⟨n3, n4, g1, g2, g3, g4, g5⟩ := estabActivate_order md5 P cfg (sent1 ++ tagAll .challenge s2) p3 c2 fs2
      refine ⟨s2.length, n3, n4, hx.1, g1, g2, fun _ => h1, g3, ?_, g5⟩
      rw [g4, kinds_append, kinds_tagAll]
    | _ => exact ⟨s2.length, 0, 0, hx.1, by omega, by omega, by omega, by omega, by simp [kinds_append, kinds_tagAll],
        by simp [Outcome.isOk]⟩
  | _ => exact ⟨s2.length, 0, 0, hx.1, by omega, by omega, by omega, by omega, by simp [kinds_append, kinds_tagAll],
        by simp [Outcome.isOk]⟩

theorem estabAuthCap_order (sent0 : Sent) (p1 : σ) (c0 : Client) :
    ∃ n1 n2 n3 n4, n1 ≤ cfg.maxRetries + 1 ∧ n2 ≤ cfg.maxRetries + 1 ∧ n3 ≤ cfg.maxRetries + 1 ∧
      n4 ≤ cfg.maxRetries + 1 ∧ (1 ≤ n2 → 1 ≤ n1) ∧ (1 ≤ n3 → 1 ≤ n2) ∧ (1 ≤ n4 → 1 ≤ n3) ∧
      kinds (estabAuthCap md5 P cfg sent0 p1 c0).sent =
        kinds sent0 ++ List.replicate n1 .authCap ++ List.replicate n2 .challenge ++ List.replicate n3 .activate ++
          List.replicate n4 .setPriv ∧
      ((estabAuthCap md5 P cfg sent0 p1 c0).outcome.isOk = true →
        1 ≤ n4 ∧ (estabAuthCap md5 P cfg sent0 p1 c0).outcome = .ok []) := by
  simp only [estabAuthCap]
  have hx := exchange_sent md5 P cfg p1 c0 netfnApp 0 cmdGetAuthCap [0x0e, cfg.priv % 16]
  rcases he : exchange md5 P cfg p1 c0 netfnApp 0 cmdGetAuthCap [0x0e, cfg.priv % 16] with ⟨p2, c1, s1, o⟩
  rw [he] at hx
  simp only at hx
  cases o with
  | ok pl =>
    have h1 := hx.2 pl rfl
    simp only
    cases hd : decodeRsp authCapRspWidths pl with
    | ok fs1 =>
      simp only
      obtain ⟨n2, n3, n4, g1, g2, g3, g4, g5, g6, g7⟩ :=
        estabChallenge_order md5 P cfg (sent0 ++ tagAll .authCap s1) p2 c1 fs1
      refine ⟨s1.length, n2, n3, n4, hx.1, g1, g2, g3, fun _ => h1, g4, g5, ?_, g7⟩
      rw [g6, kinds_append, kinds_tagAll]
    | _ => exact ⟨s1.length, 0, 0, 0, hx.1, by omega, by omega, by omega, by omega, by omega, by omega,
        by simp [kinds_append, kinds_tagAll], by simp [Outcome.isOk]⟩
  | _ => exact ⟨s1.length, 0, 0, 0, hx.1, by omega, by omega, by omega, by omega, by omega, by omega,
        by simp [kinds_append, kinds_tagAll], by simp [Outcome.isOk]⟩

/-- The handshake against ANY peer: one presence ping, then Get Channel Authentication
Capabilities, Get Session Challenge, Activate Session, Set Session Privilege Level in this
order, each transmitted at most `max_retries + 1` times, a later one only if the earlier ones
were transmitted; a successful handshake has transmitted all of them. -/
theorem establish_order (p0 : σ) (c0 : Client) :
    ∃ n1 n2 n3 n4, n1 ≤ cfg.maxRetries + 1 ∧ n2 ≤ cfg.maxRetries + 1 ∧ n3 ≤ cfg.maxRetries + 1 ∧
      n4 ≤ cfg.maxRetries + 1 ∧ (1 ≤ n2 → 1 ≤ n1) ∧ (1 ≤ n3 → 1 ≤ n2) ∧ (1 ≤ n4 → 1 ≤ n3) ∧
      kinds (handshake md5 P cfg p0 c0).sent =
        [.ping] ++ List.replicate n1 .authCap ++ List.replicate n2 .challenge ++ List.replicate n3 .activate ++
          List.replicate n4 .setPriv ∧
      ((handshake md5 P cfg p0 c0).outcome.isOk = true → 1 ≤ n4 ∧ (handshake md5 P cfg p0 c0).outcome = .ok []) := by
  have hd : pingDatagram rmcpInitialSeq = .ok [6, 0, 255, 6, 0, 0, 0x11, 0xbe, 0x80, 0, 0, 0] := by decide
  have hp : ∃ p1 o, ping P p0 = (p1, [[6, 0, 255, 6, 0, 0, 0x11, 0xbe, 0x80, 0, 0, 0]], o) := by
    simp only [ping, hd]
    exact ⟨_, _, rfl⟩
  obtain ⟨p1, o, hp⟩ := hp
  simp only [handshake, hp]
  cases o with
  | ok u =>
    simp only
    obtain ⟨n1, n2, n3, n4, g⟩ := estabAuthCap_order md5 P cfg (tagAll .ping [[6, 0, 255, 6, 0, 0, 0x11, 0xbe, 0x80, 0, 0, 0]])
      p1 { c0 with attached := false }
    exact ⟨n1, n2, n3, n4, g⟩
  | _ => exact ⟨0, 0, 0, 0, by omega, by omega, by omega, by omega, by omega, by omega, by omega,
      by simp [kinds, tagAll], by simp [Outcome.isOk]⟩

end anypeer
end PyIpmi.Session
