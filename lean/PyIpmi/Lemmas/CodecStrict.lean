/-
  Lemmas behind C02: decoding is strict (ok ⇒ re-encoding reproduces the input), fails only
  with DecodingError, and a non-OK completion code stops decoding.  Core only.
-/
import PyIpmi.Lemmas.Codec
namespace PyIpmi.Codec
open PyIpmi

/-! ### the (weaker) well-formedness that decoding needs: references point to earlier plain
fields of the right kind and bit widths add up.  No ordering rule for optionals. -/

def condOk (pre : List Field) (f : Field) : Bool :=
  match f.wrap with
  | .cond c => condRefsOk pre c
  | _ => true

def wfDec (pre : List Field) : List Field → Bool
  | [] => true
  | f :: fs => primRefsOk pre f.prim && condOk pre f && wfDec (pre ++ [f]) fs

/-- decode-side well-formedness of a layout -/
def Layout.wfDecode (l : Layout) : Bool := wfDec [] l

theorem wfDec_of_wfAux (pre : List Field) (so : Bool) (fs : List Field)
    (h : wfAux pre so fs = true) : wfDec pre fs = true := by
  induction fs generalizing pre so with
  | nil => rfl
  | cons f fs ih =>
    simp only [wfAux, Bool.and_eq_true] at h
    obtain ⟨⟨⟨hp, hw⟩, _⟩, hrest⟩ := h
    simp only [wfDec, Bool.and_eq_true]
    refine ⟨⟨hp, ?_⟩, ih _ _ hrest⟩
    unfold condOk
    unfold wrapOk at hw
    cases hfw : f.wrap <;> simp_all

theorem wfDecode_of_wf (l : Layout) (h : l.wf = true) : l.wfDecode = true := by
  unfold Layout.wf at h
  simp only [Bool.and_eq_true] at h
  exact wfDec_of_wfAux [] false l h.1

theorem popN_ok {n : Nat} {data : List Nat} {k : List Nat → Val} {v : Val} {rest : List Nat}
    (h : popN n data k = .ok (v, rest)) :
    n ≤ data.length ∧ v = k (data.take n) ∧ rest = data.drop n := by
  unfold popN at h
  split at h
  · cases h
  · injection h with h
    injection h with h1 h2
    exact ⟨by omega, h1.symm, h2.symm⟩

theorem popN_kind (n : Nat) (data : List Nat) (k : List Nat → Val) :
    popN n data k = .decodingError ∨ popN n data k = .ok (k (data.take n), data.drop n) := by
  unfold popN
  split
  · exact Or.inl rfl
  · exact Or.inr rfl

/-! ### strictness -/

theorem prim_strict (env : List Val) (p : Prim) (data : List Nat) (v : Val) (rest : List Nat)
    (hbits : ∀ n ws, p = .bits n ws → ws.sum = 8 * n) (hb : Bytes data)
    (h : decPrim env p data = .ok (v, rest)) :
    ∃ e, data = e ++ rest ∧ encPrim env p v = .ok e ∧ v ≠ .none := by
  cases p with
  | uint n =>
    simp only [decPrim] at h
    obtain ⟨hl, hv, hr⟩ := popN_ok h
    subst hv hr
    refine ⟨data.take n, (List.take_append_drop n data).symm, ?_, by simp⟩
    simp only [encPrim]
    have hlen : (data.take n).length = n := by simp; omega
    have := leBytes_leVal (data.take n) (hb.take n)
    rw [hlen] at this
    rw [this]
  | cc =>
    simp only [decPrim] at h
    obtain ⟨hl, hv, hr⟩ := popN_ok h
    subst hv hr
    refine ⟨data.take 1, (List.take_append_drop 1 data).symm, ?_, by simp⟩
    simp only [encPrim]
    have hlen : (data.take 1).length = 1 := by simp; omega
    have := leBytes_leVal (data.take 1) (hb.take 1)
    rw [hlen] at this
    rw [this]
  | bytes n =>
    simp only [decPrim] at h
    obtain ⟨hl, hv, hr⟩ := popN_ok h
    subst hv hr
    refine ⟨data.take n, (List.take_append_drop n data).symm, ?_, by simp⟩
    have hlen : (data.take n).length = n := by simp; omega
    simp [encPrim, hlen, map_mod_bytes _ (hb.take n)]
  | str n =>
    simp only [decPrim] at h
    injection h with h
    injection h with h1 h2
    subst h1 h2
    exact ⟨data.take n, (List.take_append_drop n data).symm, rfl, by simp⟩
  | varBytes j =>
    simp only [decPrim] at h
    split at h
    · rename_i c hj
      obtain ⟨hl, hv, hr⟩ := popN_ok h
      subst hv hr
      refine ⟨data.take c, (List.take_append_drop c data).symm, ?_, by simp⟩
      have hlen : (data.take c).length = c := by simp; omega
      simp [encPrim, hj, hlen, map_mod_bytes _ (hb.take c)]
    · cases h
  | remaining =>
    simp only [decPrim] at h
    injection h with h
    injection h with h1 h2
    subst h1 h2
    exact ⟨data, by simp, rfl, by simp⟩
  | bits n ws =>
    simp only [decPrim] at h
    obtain ⟨hl, hv, hr⟩ := popN_ok h
    subst hv hr
    refine ⟨data.take n, (List.take_append_drop n data).symm, ?_, by simp⟩
    simp only [encPrim]
    have hlen : (data.take n).length = n := by simp; omega
    have hlt : leVal (data.take n) < 2 ^ ws.sum := by
      have := leVal_lt (data.take n) (hb.take n)
      rw [hlen] at this
      rw [hbits n ws rfl, two_pow_eight_mul]
      exact this
    rw [pack_unpack ws _ hlt]
    have := leBytes_leVal (data.take n) (hb.take n)
    rw [hlen] at this
    rw [this]

theorem field_strict (pre : List Field) (env : List Val) (f : Field) (data : List Nat) (v : Val)
    (rest : List Nat) (hp : primRefsOk pre f.prim = true) (hb : Bytes data)
    (h : decField env f data = .ok (v, rest)) :
    ∃ e, data = e ++ rest ∧ encField env f v = .ok e := by
  have hbits : ∀ n ws, f.prim = .bits n ws → ws.sum = 8 * n := by
    intro n ws h
    rw [h] at hp
    simpa [primRefsOk] using hp
  unfold decField at h
  cases hfw : f.wrap with
  | plain =>
    rw [hfw] at h
    obtain ⟨e, h1, h2, _⟩ := prim_strict env f.prim data v rest hbits hb h
    exact ⟨e, h1, by simp [encField, hfw, h2]⟩
  | optional =>
    rw [hfw] at h
    by_cases hl : data.length > 0
    · simp only [hl, if_true] at h
      obtain ⟨e, h1, h2, h3⟩ := prim_strict env f.prim data v rest hbits hb h
      exact ⟨e, h1, by simp [encField, hfw, h3, h2]⟩
    · simp only [hl, if_false] at h
      injection h with h
      injection h with h1 h2
      subst h1 h2
      exact ⟨[], by simp, by simp [encField, hfw]⟩
  | cond c =>
    rw [hfw] at h
    cases hc : c.eval env with
    | none => simp [hc] at h
    | some b =>
      cases b with
      | true =>
        simp only [hc] at h
        obtain ⟨e, h1, h2, _⟩ := prim_strict env f.prim data v rest hbits hb h
        exact ⟨e, h1, by simp [encField, hfw, hc, h2]⟩
      | false =>
        simp only [hc] at h
        injection h with h
        injection h with h1 h2
        subst h1 h2
        exact ⟨[], by simp, by simp [encField, hfw, hc]⟩

/-- some decoded field raised CompletionCodeError -/
def hasCcStop : List Field → List Val → Bool
  | f :: fs, v :: vs => isCcStop f v || hasCcStop fs vs
  | _, _ => false

theorem bind_eq_ok {α β : Type} {x : Outcome α} {f : α → Outcome β} {b : β}
    (h : x.bind f = .ok b) : ∃ a, x = .ok a ∧ f a = .ok b := by
  cases x <;> simp [Outcome.bind] at h
  exact ⟨_, rfl, h⟩

theorem strict_aux (pre : List Field) (env : List Val) (fs : List Field)
    (data : List Nat) (st : DecState) (hwf : wfDec pre fs = true) (hb : Bytes data)
    (h : decAux env fs data = .ok st) :
    st.stopped = hasCcStop fs st.vals ∧
    (st.stopped = false → ∃ e, data = e ++ st.rest ∧ encAux env fs st.vals = .ok e) := by
  induction fs generalizing pre env data st with
  | nil =>
    simp only [decAux] at h
    injection h with h
    subst h
    exact ⟨rfl, fun _ => ⟨[], by simp, rfl⟩⟩
  | cons f fs ih =>
    simp only [wfDec, Bool.and_eq_true] at hwf
    obtain ⟨⟨hp, _⟩, hrest⟩ := hwf
    simp only [decAux] at h
    obtain ⟨⟨v, r⟩, hf, h⟩ := bind_eq_ok h
    obtain ⟨e, he1, he2⟩ := field_strict pre env f data v r hp hb hf
    by_cases hs : isCcStop f v = true
    · simp only [hs, if_true] at h
      injection h with h
      subst h
      exact ⟨by simp [hasCcStop, hs], fun hc => by cases hc⟩
    · simp only [hs] at h
      obtain ⟨st', hd, h⟩ := bind_eq_ok h
      injection h with h
      subst h
      have hbr : Bytes r := by rw [he1] at hb; exact hb.of_append_right
      obtain ⟨i1, i2⟩ := ih (pre ++ [f]) (env ++ [v]) r st' hrest hbr hd
      have hs' : isCcStop f v = false := by simpa using hs
      refine ⟨by simp [hasCcStop, hs', i1], ?_⟩
      intro hst
      obtain ⟨es, h1, h2⟩ := i2 hst
      refine ⟨e ++ es, ?_, by simp [encAux, he2, h2]⟩
      rw [he1, h1]; simp

/-! ### the only failure is DecodingError -/

/-- the value stored for an earlier *plain* field has the type its kind promises -/
def ShapeOk (f : Field) (v : Val) : Prop :=
  f.wrap = .plain →
    (isIntPrim f.prim = true → ∃ x, v = .int x) ∧
    (∀ n ws, f.prim = .bits n ws → ∃ vs, v = .bits vs ∧ vs.length = ws.length)

def EnvOk (pre : List Field) (env : List Val) : Prop :=
  pre.length = env.length ∧ ∀ (j : Nat) (f : Field) (v : Val), pre[j]? = some f → env[j]? = some v → ShapeOk f v

theorem EnvOk.nil : EnvOk [] [] := ⟨rfl, by intro j f v h; simp at h⟩


theorem EnvOk.snoc {pre : List Field} {env : List Val} {f : Field} {v : Val}
    (h : EnvOk pre env) (hs : ShapeOk f v) : EnvOk (pre ++ [f]) (env ++ [v]) := by
  refine ⟨by simp [h.1], ?_⟩
  intro j g w hg hw
  by_cases hj : j < pre.length
  · rw [List.getElem?_append_left hj] at hg
    rw [List.getElem?_append_left (by rw [← h.1]; exact hj)] at hw
    exact h.2 j g w hg hw
  · have hj' : pre.length ≤ j := by omega
    rw [List.getElem?_append_right hj'] at hg
    rw [List.getElem?_append_right (by rw [← h.1]; exact hj')] at hw
    rw [← h.1] at hw
    cases hk : j - pre.length with
    | zero =>
      rw [hk] at hg hw
      simp at hg hw
      subst hg hw
      exact hs
    | succ k => rw [hk] at hg; simp at hg

theorem EnvOk.lookup {pre : List Field} {env : List Val} (h : EnvOk pre env) {j : Nat} {f : Field}
    (hf : pre[j]? = some f) : ∃ v, env[j]? = some v ∧ ShapeOk f v := by
  have hj : j < pre.length := by
    rcases Nat.lt_or_ge j pre.length with h' | h'
    · exact h'
    · rw [List.getElem?_eq_none h'] at hf; cases hf
  have hj' : j < env.length := by rw [← h.1]; exact hj
  exact ⟨env[j], List.getElem?_eq_getElem hj', h.2 j f _ hf (List.getElem?_eq_getElem hj')⟩

theorem cond_eval_some (pre : List Field) (env : List Val) (c : Cond)
    (hc : condRefsOk pre c = true) (he : EnvOk pre env) : ∃ b, c.eval env = some b := by
  induction c with
  | bitEq f b val =>
    simp only [condRefsOk] at hc
    cases hf : pre[f]? with
    | none => simp [hf] at hc
    | some fl =>
      simp only [hf, Bool.and_eq_true] at hc
      obtain ⟨hpl, hpr⟩ := hc
      obtain ⟨v, hv, hs⟩ := he.lookup hf
      have hplain : fl.wrap = .plain := by cases hw : fl.wrap <;> simp_all [isPlain]
      cases hprim : fl.prim <;> simp [hprim] at hpr
      rename_i n ws
      obtain ⟨vs, rfl, hlen⟩ := (hs hplain).2 n ws hprim
      have hb : b < vs.length := by rw [hlen]; exact hpr
      exact ⟨vs[b] == val, by simp [Cond.eval, hv, List.getElem?_eq_getElem hb]⟩
  | intEq f val =>
    simp only [condRefsOk] at hc
    cases hf : pre[f]? with
    | none => simp [hf] at hc
    | some fl =>
      simp only [hf, Bool.and_eq_true] at hc
      obtain ⟨hpl, hpr⟩ := hc
      obtain ⟨v, hv, hs⟩ := he.lookup hf
      have hplain : fl.wrap = .plain := by cases hw : fl.wrap <;> simp_all [isPlain]
      obtain ⟨x, rfl⟩ := (hs hplain).1 hpr
      exact ⟨x == val, by simp [Cond.eval, hv]⟩
  | or a b iha ihb =>
    simp only [condRefsOk, Bool.and_eq_true] at hc
    obtain ⟨x, hx⟩ := iha hc.1
    obtain ⟨y, hy⟩ := ihb hc.2
    cases x
    · exact ⟨y, by simp [Cond.eval, hx, hy]⟩
    · exact ⟨true, by simp [Cond.eval, hx]⟩
  | and a b iha ihb =>
    simp only [condRefsOk, Bool.and_eq_true] at hc
    obtain ⟨x, hx⟩ := iha hc.1
    obtain ⟨y, hy⟩ := ihb hc.2
    cases x
    · exact ⟨false, by simp [Cond.eval, hx]⟩
    · exact ⟨y, by simp [Cond.eval, hx, hy]⟩

/-- shape of a value produced by decoding primitive `p` -/
def PrimShape (p : Prim) (v : Val) : Prop :=
  (isIntPrim p = true → ∃ x, v = .int x) ∧
  (∀ n ws, p = .bits n ws → ∃ vs, v = .bits vs ∧ vs.length = ws.length)

theorem decPrim_kind (pre : List Field) (env : List Val) (p : Prim) (data : List Nat)
    (hp : primRefsOk pre p = true) (he : EnvOk pre env) :
    decPrim env p data = .decodingError ∨
      ∃ v r, decPrim env p data = .ok (v, r) ∧ PrimShape p v := by
  cases p with
  | uint n =>
    simp only [decPrim]
    rcases popN_kind n data (fun l => .int (leVal l)) with h | h
    · exact Or.inl h
    · exact Or.inr ⟨_, _, h, ⟨fun _ => ⟨_, rfl⟩, (by intro n ws h; cases h)⟩⟩
  | cc =>
    simp only [decPrim]
    rcases popN_kind 1 data (fun l => .int (leVal l)) with h | h
    · exact Or.inl h
    · exact Or.inr ⟨_, _, h, ⟨fun _ => ⟨_, rfl⟩, (by intro n ws h; cases h)⟩⟩
  | bytes n =>
    simp only [decPrim]
    rcases popN_kind n data .arr with h | h
    · exact Or.inl h
    · exact Or.inr ⟨_, _, h, ⟨(by intro h; cases h), (by intro n ws h; cases h)⟩⟩
  | str n =>
    exact Or.inr ⟨_, _, rfl, ⟨(by intro h; cases h), (by intro n ws h; cases h)⟩⟩
  | varBytes j =>
    simp only [primRefsOk] at hp
    cases hf : pre[j]? with
    | none => simp [hf] at hp
    | some fl =>
      simp only [hf, Bool.and_eq_true] at hp
      obtain ⟨v, hv, hs⟩ := he.lookup hf
      have hplain : fl.wrap = .plain := by cases hw : fl.wrap <;> simp_all [isPlain]
      obtain ⟨c, rfl⟩ := (hs hplain).1 hp.2
      rcases popN_kind c data .arr with h | h
      · exact Or.inl (by simp [decPrim, hv, h])
      · exact Or.inr ⟨_, _, by simp only [decPrim, hv]; exact h,
          ⟨(by intro h; cases h), (by intro n ws h; cases h)⟩⟩
  | remaining =>
    exact Or.inr ⟨_, _, rfl, ⟨(by intro h; cases h), (by intro n ws h; cases h)⟩⟩
  | bits n ws =>
    simp only [decPrim]
    rcases popN_kind n data (fun l => .bits (unpackBits ws (leVal l))) with h | h
    · exact Or.inl h
    · refine Or.inr ⟨_, _, h, ⟨(by intro h; cases h), ?_⟩⟩
      intro n' ws' heq
      injection heq with h1 h2
      subst h1 h2
      exact ⟨_, rfl, unpack_length _ _⟩

theorem decField_kind (pre : List Field) (env : List Val) (f : Field) (data : List Nat)
    (hp : primRefsOk pre f.prim = true) (hw : condOk pre f = true) (he : EnvOk pre env) :
    decField env f data = .decodingError ∨
      ∃ v r, decField env f data = .ok (v, r) ∧ ShapeOk f v := by
  unfold decField
  cases hfw : f.wrap with
  | plain =>
    rcases decPrim_kind pre env f.prim data hp he with h | ⟨v, r, h, hs⟩
    · exact Or.inl h
    · exact Or.inr ⟨v, r, h, fun _ => hs⟩
  | optional =>
    by_cases hl : data.length > 0
    · simp only [hl, if_true]
      rcases decPrim_kind pre env f.prim data hp he with h | ⟨v, r, h, _⟩
      · exact Or.inl h
      · exact Or.inr ⟨v, r, h, by intro hpl; rw [hfw] at hpl; cases hpl⟩
    · simp only [hl, if_false]
      exact Or.inr ⟨_, _, rfl, by intro hpl; rw [hfw] at hpl; cases hpl⟩
  | cond c =>
    have hc : condRefsOk pre c = true := by
      unfold condOk at hw; rw [hfw] at hw
      exact hw
    obtain ⟨b, hb⟩ := cond_eval_some pre env c hc he
    cases b with
    | true =>
      simp only [hb]
      rcases decPrim_kind pre env f.prim data hp he with h | ⟨v, r, h, _⟩
      · exact Or.inl h
      · exact Or.inr ⟨v, r, h, by intro hpl; rw [hfw] at hpl; cases hpl⟩
    | false =>
      simp only [hb]
      exact Or.inr ⟨_, _, rfl, by intro hpl; rw [hfw] at hpl; cases hpl⟩

theorem decAux_kind (pre : List Field) (env : List Val) (fs : List Field)
    (data : List Nat) (hwf : wfDec pre fs = true) (he : EnvOk pre env) :
    decAux env fs data = .decodingError ∨ ∃ st, decAux env fs data = .ok st := by
  induction fs generalizing pre env data with
  | nil => exact Or.inr ⟨_, rfl⟩
  | cons f fs ih =>
    simp only [wfDec, Bool.and_eq_true] at hwf
    obtain ⟨⟨hp, hw⟩, hrest⟩ := hwf
    simp only [decAux]
    rcases decField_kind pre env f data hp hw he with h | ⟨v, r, h, hs⟩
    · exact Or.inl (by simp [h, Outcome.bind])
    · simp only [h, Outcome.bind_ok]
      by_cases hst : isCcStop f v = true
      · simp only [hst, if_true]
        exact Or.inr ⟨_, rfl⟩
      · simp only [hst]
        rcases ih (pre ++ [f]) (env ++ [v]) r hrest (he.snoc hs) with h' | ⟨st, h'⟩
        · exact Or.inl (by simp [h', Outcome.bind])
        · exact Or.inr ⟨⟨v :: st.vals, st.stopped, st.rest⟩, by simp [h']⟩

end PyIpmi.Codec
