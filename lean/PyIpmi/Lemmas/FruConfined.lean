/-
  What the repaired reader verifies beyond the checksums (fixes/C15-4.diff, C15-5.diff):

  * `accept_fields`   acceptance (length byte validated, fields confined) ⇒ `fieldsOk`: in every info
                      area the predefined fields, the custom fields and the C1h marker lie inside the
                      declared length, in front of the checksum byte
  * `accept_layout`   acceptance (layout checked) ⇒ `layoutOk`: no area starts inside the span of another
  * `accept_imageOk`  both, together with `accept_checksums`: accepted ⇒ `imageOk`
  Core only.
-/
import PyIpmi.Lemmas.FruAlterImage
namespace PyIpmi.Fru
open PyIpmi PyIpmi.Gen

/-! ### type/length fields inside the bytes given -/

theorem lenMask_mod (b : Nat) : b &&& FruTables.lenMask = b % 64 := by
  have h : FruTables.lenMask = 2 ^ 6 - 1 := by decide
  rw [h, Nat.and_two_pow_sub_one_eq_mod]

theorem tlString_length (v : Variant) (k : InputKind) (b : Nat) (t : List Nat) (f : FieldView)
    (h : tlString v k (b :: t) = .ok f) : f.length = b % 64 := by
  rw [← lenMask_mod]
  simp only [tlString] at h
  repeat' split at h
  all_goals (cases h; try rfl)

theorem tlString_inside (v : Variant) (hv : v.fieldsLax = false) (k : InputKind) (b : Nat) (t : List Nat)
    (f : FieldView) (h : tlString v k (b :: t) = .ok f) : b % 64 ≤ t.length := by
  simp only [tlString, hv, Bool.not_false, Bool.true_and, guardMask_mod, decide_eq_true_eq] at h
  split at h
  · cases h
  · omega

theorem tlString_nil (v : Variant) (hv : v.fieldsLax = false) (k : InputKind) :
    tlString v k [] = .decodingError := by
  simp [tlString, hv]

theorem parseFields_ok_skip (v : Variant) (hv : v.fieldsLax = false) (k : InputKind) (n : Nat)
    (d : List Nat) (fs : List FieldView) (r : List Nat)
    (h : parseFields v k n d = .ok (fs, r)) : skipFields n d = some r := by
  induction n generalizing d fs r with
  | zero =>
    simp only [parseFields] at h
    injection h with h
    injection h with _ h2
    rw [h2]; rfl
  | succ n ih =>
    cases d with
    | nil => simp [parseFields, tlString_nil v hv, Outcome.bind] at h
    | cons b t =>
      simp only [parseFields] at h
      obtain ⟨f, hf, h⟩ := ok_of_bind h
      obtain ⟨rr, hr, h⟩ := ok_of_bind h
      injection h with h
      injection h with _ h2
      have hl := tlString_length v k b t f hf
      have hi := tlString_inside v hv k b t f hf
      rw [hl, List.drop_succ_cons] at hr
      have := ih _ _ _ (show parseFields v k n (t.drop (b % 64)) = .ok (rr.1, rr.2) from hr)
      simp only [skipFields]
      rw [if_neg (by omega), this, h2]

theorem customFieldEnd_val : FruTables.customFieldEnd = endOfFields := by decide

theorem customFields_ok_marker (v : Variant) (hv : v.fieldsLax = false) (k : InputKind) (fuel : Nat)
    (d : List Nat) (cs : List FieldView) (h : customFields v k fuel d = .ok cs) :
    ∀ f2, d.length ≤ f2 → endMarkerIn f2 d = true := by
  induction fuel generalizing d cs with
  | zero => simp [customFields] at h
  | succ n ih =>
    cases d with
    | nil => simp [customFields, hv] at h
    | cons b t =>
      intro f2 hf2
      cases f2 with
      | zero => simp at hf2
      | succ f2 =>
        simp only [customFields] at h
        simp only [endMarkerIn, Bool.or_eq_true, beq_iff_eq, Bool.and_eq_true, decide_eq_true_eq]
        split at h
        · left; rename_i hb; rw [← customFieldEnd_val]; exact hb
        · right
          obtain ⟨f, hf, h⟩ := ok_of_bind h
          obtain ⟨fs, hfs, _⟩ := ok_of_bind h
          have hl := tlString_length v k b t f hf
          have hi := tlString_inside v hv k b t f hf
          rw [hl, List.drop_succ_cons] at hfs
          refine ⟨hi, ih _ _ hfs f2 ?_⟩
          simp only [List.length_cons] at hf2
          rw [List.length_drop]; omega

/-! ### one info area -/

def AreaKind.idx : AreaKind → Nat
  | .chassis => 2
  | .board => 3
  | .product => 4

theorem areaFixed_off (kind : AreaKind) (d : List Nat) (off m : Nat) (h : areaFixed kind d = some (off, m)) :
    off = firstFieldAt kind.idx ∧ kind.nFields = predefined kind.idx := by
  cases kind with
  | chassis => simp only [areaFixed] at h; injection h with h; injection h with h1 _; exact ⟨h1.symm, rfl⟩
  | product => simp only [areaFixed] at h; injection h with h; injection h with h1 _; exact ⟨h1.symm, rfl⟩
  | board =>
    simp only [areaFixed] at h
    split at h
    · injection h with h; injection h with h1 _; exact ⟨h1.symm, rfl⟩
    · cases h

theorem areaBody_fields (v : Variant) (hv : v.fieldsLax = false) (k : InputKind) (kind : AreaKind)
    (b0 b1 : Nat) (dd : List Nat) (s : Slot AreaView) (h : areaBody v k kind b0 b1 dd = .ok s) :
    ∃ r, skipFields (predefined kind.idx) (dd.drop (firstFieldAt kind.idx)) = some r ∧
      endMarkerIn r.length r = true := by
  simp only [areaBody] at h
  split at h
  · cases h
  · split at h
    · cases h
    · rename_i off minutes hfix
      obtain ⟨e1, e2⟩ := areaFixed_off kind dd off minutes hfix
      obtain ⟨r, hr, h⟩ := ok_of_bind h
      obtain ⟨cs, hcs, _⟩ := ok_of_bind h
      rw [e1, e2] at hr
      exact ⟨r.2, parseFields_ok_skip v hv k _ _ r.1 r.2 hr,
        customFields_ok_marker v hv k _ _ _ hcs _ (Nat.le_refl _)⟩

theorem areaBody_len (v : Variant) (k : InputKind) (kind : AreaKind)
    (b0 b1 : Nat) (dd : List Nat) (s : Slot AreaView) (h : areaBody v k kind b0 b1 dd = .ok s) :
    areaLen s = b1 * 8 := by
  simp only [areaBody] at h
  split at h
  · cases h
  · split at h
    · cases h
    · obtain ⟨r, _, h⟩ := ok_of_bind h
      obtain ⟨cs, _, h⟩ := ok_of_bind h
      injection h with h
      subst h
      rfl

/-- what is left of `parseArea` behind the checksum test -/
theorem parseArea_body (v : Variant) (k : InputKind) (kind : AreaKind) (b0 : Nat) (t : List Nat)
    (s : Slot AreaView) (hp : parseArea v k kind (b0 :: t) = .ok s) :
    ∃ b1, (b0 :: t).getD 1 0 = b1 ∧
      (v.areaLenLax = false → b1 * 8 ≠ 0 ∧ b1 * 8 ≤ (b0 :: t).length) ∧
      areaBody v k kind b0 b1 (areaData v b1 (b0 :: t)) = .ok s := by
  simp only [parseArea] at hp
  split at hp
  · cases hp
  · split at hp
    · cases hp
    · rename_i b1 hb1
      split at hp
      · cases hp
      · rename_i hlen
        split at hp
        · cases hp
        · refine ⟨b1, by simp [List.getD, hb1], ?_, hp⟩
          intro hv
          simp only [hv, Bool.not_false, Bool.true_and, Bool.or_eq_true, beq_iff_eq, decide_eq_true_eq,
            not_or] at hlen
          omega

/-- `hnz`: the length byte is not 0 (the reader validated it, or – device path – `_read_fru_area` did) -/
theorem parseArea_fields' (v : Variant) (hv2 : v.fieldsLax = false)
    (k : InputKind) (kind : AreaKind) (d : List Nat) (hnz0 : d.getD 1 0 * 8 ≠ 0) (s : Slot AreaView)
    (hp : parseArea v k kind d = .ok s) : fieldsInside kind.idx d = true := by
  cases d with
  | nil => rfl
  | cons b0 t =>
    obtain ⟨b1, hb1, hl, hb⟩ := parseArea_body v k kind b0 t s hp
    have hnz : b1 * 8 ≠ 0 := by rw [← hb1]; exact hnz0
    have hdata : areaData v b1 (b0 :: t) = (b0 :: t).take (b1 * 8 - 1) := by
      simp [areaData, hv2, hnz]
    rw [hdata] at hb
    obtain ⟨r, hr, hm⟩ := areaBody_fields v hv2 k kind b0 b1 _ s hb
    simp only [fieldsInside, fieldBytes, hb1]
    rw [Nat.mul_comm 8 b1, hr]
    exact hm

theorem parseArea_fields (v : Variant) (hv1 : v.areaLenLax = false) (hv2 : v.fieldsLax = false)
    (k : InputKind) (kind : AreaKind) (d : List Nat) (s : Slot AreaView)
    (hp : parseArea v k kind d = .ok s) : fieldsInside kind.idx d = true := by
  cases d with
  | nil => rfl
  | cons b0 t =>
    obtain ⟨b1, hb1, hl, _⟩ := parseArea_body v k kind b0 t s hp
    exact parseArea_fields' v hv2 k kind _ (by rw [hb1]; exact (hl hv1).1) s hp

theorem parseArea_len (v : Variant) (k : InputKind) (kind : AreaKind) (d : List Nat) (s : Slot AreaView)
    (hp : parseArea v k kind d = .ok s) : areaLen s = 8 * d.getD 1 0 := by
  cases d with
  | nil =>
    simp only [parseArea] at hp
    injection hp with hp
    subst hp
    rfl
  | cons b0 t =>
    obtain ⟨b1, hb1, _, hb⟩ := parseArea_body v k kind b0 t s hp
    rw [areaBody_len v k kind b0 b1 _ s hb, hb1, Nat.mul_comm]

/-! ### the multi-record area's extent -/

theorem multiLoop_len (v : Variant) (fuel : Nat) (d : List Nat) (rs : List RecView)
    (h : multiLoop v fuel d = .ok rs) : (rs.map fun r => r.length + 5).sum = multiLen fuel d := by
  induction fuel generalizing d rs with
  | zero => simp [multiLoop] at h
  | succ n ih =>
    simp only [multiLoop] at h
    obtain ⟨r, hr, h⟩ := ok_of_bind h
    obtain ⟨b, hb, e1, e2⟩ := parseRecord_ok v d r hr
    obtain ⟨_, _, _, be, bl⟩ := baseRecord_ok d b hb
    simp only [multiLen]
    split at h
    · rename_i he
      injection h with h
      subst h
      rw [e1, be] at he
      rw [if_pos he]
      simp [e2, bl]
    · rename_i he
      obtain ⟨rs', hrs, h⟩ := ok_of_bind h
      injection h with h
      subst h
      rw [e1, be] at he
      rw [e2, bl] at hrs
      have := ih _ _ hrs
      rw [if_neg he]
      simp only [List.map_cons, List.sum_cons, this, e2, bl]

theorem parseMulti_len (v : Variant) (d : List Nat) (s : Slot (List RecView)) (h : parseMulti v d = .ok s) :
    multiLenOf s = multiSpan d := by
  cases d with
  | nil =>
    simp only [parseMulti] at h
    injection h with h
    subst h
    rfl
  | cons x t =>
    simp only [parseMulti] at h
    obtain ⟨rs, hrs, h⟩ := ok_of_bind h
    injection h with h
    subst h
    exact multiLoop_len _ _ _ _ hrs

/-! ### the layout predicate of the specification -/

theorem mem_areaPairs (i j : Nat) (hi : i ∈ [1, 2, 3, 4, 5]) (hj : j ∈ [1, 2, 3, 4, 5]) (hij : i ≠ j) :
    (i, j) ∈ areaPairs := by
  simp only [List.mem_cons, List.mem_nil_iff, or_false] at hi hj
  rcases hi with rfl | rfl | rfl | rfl | rfl <;> rcases hj with rfl | rfl | rfl | rfl | rfl <;>
    first
    | exact absurd rfl hij
    | decide

theorem areaPairs_mem (p : Nat × Nat) (hp : p ∈ areaPairs) :
    p.1 ∈ [1, 2, 3, 4, 5] ∧ p.2 ∈ [1, 2, 3, 4, 5] ∧ p.1 ≠ p.2 := by
  simp only [areaPairs, List.mem_cons, List.mem_nil_iff, or_false] at hp
  rcases hp with rfl | rfl | rfl | rfl | rfl | rfl | rfl | rfl | rfl | rfl | rfl | rfl | rfl | rfl | rfl |
    rfl | rfl | rfl | rfl | rfl <;> decide

theorem disjointAreas_iff (starts spans : Nat → Nat) :
    disjointAreas starts spans = true ↔
      ∀ i ∈ [1, 2, 3, 4, 5], ∀ j ∈ [1, 2, 3, 4, 5], i ≠ j → starts i ≠ 0 → starts j ≠ 0 →
        starts i ≤ starts j → starts i + spans i ≤ starts j := by
  constructor
  · intro h i hi j hj hij hsi hsj hle
    have := (List.all_eq_true.mp h) (i, j) (mem_areaPairs i j hi hj hij)
    simp only [startsInside, Bool.not_eq_true', Bool.and_eq_false_iff, decide_eq_false_iff_not] at this
    omega
  · intro H
    simp only [disjointAreas, List.all_eq_true]
    intro p hp
    obtain ⟨h1, h2, h3⟩ := areaPairs_mem p hp
    have := H _ h1 _ h2 h3
    simp only [startsInside, Bool.not_eq_true', Bool.and_eq_false_iff, decide_eq_false_iff_not]
    omega

/-! ### whole image -/

theorem parseHeader_offs (d : List Nat) (h : HeaderView) (hp : parseHeader d = .ok h) :
    ∀ i ∈ [1, 2, 3, 4, 5], hdrStart h i = 8 * d.getD i 0 := by
  simp only [parseHeader, record_consts.2.2.2.2.2] at hp
  split at hp
  · cases hp
  · split at hp
    · cases hp
    · injection hp with hp
      subst hp
      intro i hi
      simp only [List.mem_cons, List.mem_nil_iff, or_false] at hi
      rcases hi with rfl | rfl | rfl | rfl | rfl <;> simp only [hdrStart] <;> omega

theorem slotStep_cases {α : Type} (off : Nat) (bs : List Nat) (p : List Nat → Outcome (Slot α)) (s : Slot α)
    (h : slotStep off bs p = .ok s) : (off = 0 ∧ s = .absent) ∨ (off ≠ 0 ∧ p (bs.drop off) = .ok s) := by
  unfold slotStep at h
  split at h
  · left
    injection h with h
    exact ⟨‹_›, h.symm⟩
  · exact Or.inr ⟨‹_›, h⟩

/-- the pieces of an accepted non-empty image -/
theorem parseFru_pieces (v : Variant) (k : InputKind) (bs : List Nat) (hne : bs ≠ []) (fv : FruView)
    (h : parseFru v k bs = .ok fv) :
    ∃ hd c b p m, parseHeader (bs.take 8) = .ok hd ∧
      slotStep hd.chassisOff bs (parseArea v k .chassis) = .ok c ∧
      slotStep hd.boardOff bs (parseArea v k .board) = .ok b ∧
      slotStep hd.productOff bs (parseArea v k .product) = .ok p ∧
      slotStep hd.multiOff bs (parseMulti v) = .ok m ∧
      (v.overlapLax = false → layoutClash hd c b p m = false) := by
  rw [parseFru_ne_nil v k bs hne] at h
  unfold parseFruBody at h
  obtain ⟨hd, hhd, h⟩ := ok_of_bind h
  obtain ⟨c, hc, h⟩ := ok_of_bind h
  obtain ⟨b, hb, h⟩ := ok_of_bind h
  obtain ⟨p, hp, h⟩ := ok_of_bind h
  obtain ⟨m, hm, h⟩ := ok_of_bind h
  refine ⟨hd, c, b, p, m, hhd, hc, hb, hp, hm, ?_⟩
  intro hv
  split at h
  · cases h
  · rename_i hn
    simpa [hv] using hn

theorem slot_fields (v : Variant) (hv1 : v.areaLenLax = false) (hv2 : v.fieldsLax = false) (k : InputKind)
    (kind : AreaKind) (bs : List Nat) (off : Nat) (hoff : off = 8 * bs.getD kind.idx 0) (s : Slot AreaView)
    (h : slotStep off bs (parseArea v k kind) = .ok s) :
    (bs.getD kind.idx 0 == 0 || fieldsInside kind.idx (areaAt bs kind.idx)) = true := by
  rcases slotStep_cases _ _ _ _ h with ⟨h0, _⟩ | ⟨_, h1⟩
  · have : bs.getD kind.idx 0 = 0 := by omega
    rw [this]; rfl
  · rw [hoff] at h1
    simp only [Bool.or_eq_true]
    right
    exact parseArea_fields v hv1 hv2 k kind _ s h1

theorem accept_fields (v : Variant) (hv1 : v.areaLenLax = false) (hv2 : v.fieldsLax = false) (k : InputKind)
    (bs : List Nat) (fv : FruView) (h : parseFru v k bs = .ok fv) : fieldsOk bs = true := by
  cases hb : bs with
  | nil => decide
  | cons x t =>
    rw [← hb]
    obtain ⟨hd, c, b, p, m, hhd, hc, hbd, hp, _, _⟩ := parseFru_pieces v k bs (by rw [hb]; simp) fv h
    have ho := parseHeader_offs _ _ hhd
    have o2 := ho 2 (by simp); have o3 := ho 3 (by simp); have o4 := ho 4 (by simp)
    simp only [hdrStart] at o2 o3 o4
    rw [getD_take _ _ _ (by omega)] at o2 o3 o4
    simp only [fieldsOk, Bool.and_eq_true]
    exact ⟨⟨slot_fields v hv1 hv2 k .chassis bs _ o2 c hc, slot_fields v hv1 hv2 k .board bs _ o3 b hbd⟩,
      slot_fields v hv1 hv2 k .product bs _ o4 p hp⟩

theorem slot_span (v : Variant) (k : InputKind) (kind : AreaKind) (bs : List Nat) (off : Nat)
    (hoff : off = 8 * bs.getD kind.idx 0) (s : Slot AreaView)
    (h : slotStep off bs (parseArea v k kind) = .ok s) : areaLen s = spanOf bs kind.idx := by
  have hk : kind.idx ≠ 5 ∧ kind.idx ≠ 1 := by cases kind <;> simp [AreaKind.idx]
  rcases slotStep_cases _ _ _ _ h with ⟨h0, hs⟩ | ⟨hn, h1⟩
  · have : bs.getD kind.idx 0 = 0 := by omega
    rw [hs]; unfold spanOf; rw [this]; rfl
  · have : bs.getD kind.idx 0 ≠ 0 := by omega
    have e : (bs.getD kind.idx 0 == 0) = false := beq_false_of_ne this
    rw [hoff] at h1
    rw [parseArea_len v k kind _ s h1]
    simp only [spanOf, e, Bool.false_eq_true, if_false, if_neg hk.1, if_neg hk.2, areaAt]

theorem multi_span (v : Variant) (bs : List Nat) (off : Nat) (hoff : off = 8 * bs.getD 5 0)
    (s : Slot (List RecView)) (h : slotStep off bs (parseMulti v) = .ok s) : multiLenOf s = spanOf bs 5 := by
  rcases slotStep_cases _ _ _ _ h with ⟨h0, hs⟩ | ⟨hn, h1⟩
  · have : bs.getD 5 0 = 0 := by omega
    rw [hs]; unfold spanOf; rw [this]; rfl
  · have : bs.getD 5 0 ≠ 0 := by omega
    have e : (bs.getD 5 0 == 0) = false := beq_false_of_ne this
    rw [hoff] at h1
    rw [parseMulti_len v _ s h1]
    simp only [spanOf, e, Bool.false_eq_true, if_false, if_true, areaAt]

theorem accept_layout (v : Variant) (hv : v.overlapLax = false) (k : InputKind)
    (bs : List Nat) (fv : FruView) (h : parseFru v k bs = .ok fv) : layoutOk bs = true := by
  cases hb : bs with
  | nil => decide
  | cons x t =>
    rw [← hb]
    obtain ⟨hd, c, b, p, m, hhd, hc, hbd, hp, hm, hl⟩ := parseFru_pieces v k bs (by rw [hb]; simp) fv h
    have ho := parseHeader_offs _ _ hhd
    have hst : ∀ i ∈ [1, 2, 3, 4, 5], hdrStart hd i = startOf bs i := by
      intro i hi
      rw [ho i hi, getD_take]
      · rfl
      · simp only [List.mem_cons, List.mem_nil_iff, or_false] at hi; omega
    have o2 := ho 2 (by simp); have o3 := ho 3 (by simp); have o4 := ho 4 (by simp); have o5 := ho 5 (by simp)
    simp only [hdrStart] at o2 o3 o4 o5
    rw [getD_take _ _ _ (by omega)] at o2 o3 o4 o5
    have s2 := slot_span v k .chassis bs _ o2 c hc
    have s3 := slot_span v k .board bs _ o3 b hbd
    have s4 := slot_span v k .product bs _ o4 p hp
    have s5 := multi_span v bs _ o5 m hm
    simp only [AreaKind.idx] at s2 s3 s4
    have hsp : ∀ i ∈ [1, 2, 3, 4, 5], slotLens c b p m i = spanOf bs i := by
      intro i hi
      simp only [List.mem_cons, List.mem_nil_iff, or_false] at hi
      rcases hi with rfl | rfl | rfl | rfl | rfl
      · simp [slotLens, spanOf]
      · exact s2
      · exact s3
      · exact s4
      · exact s5
    have H := (layoutClash_eq_false hd c b p m).mp (hl hv)
    unfold layoutOk
    rw [disjointAreas_iff]
    intro i hi j hj hij hsi hsj hle
    rw [← hst i hi, ← hst j hj, ← hsp i hi] at *
    exact H i hi j hj hij hsi hsj hle

/-- Accepted by a reader that validates the length byte, confines the fields and checks the layout
⇒ every check the format allows holds. -/
theorem accept_imageOk (v : Variant) (hv1 : v.areaLenLax = false) (hv2 : v.fieldsLax = false)
    (hv3 : v.overlapLax = false) (k : InputKind) (bs : List Nat) (fv : FruView)
    (h : parseFru v k bs = .ok fv) : imageOk bs = true := by
  simp only [imageOk, Bool.and_eq_true]
  exact ⟨⟨accept_checksums v hv1 k bs fv h, accept_fields v hv1 hv2 k bs fv h⟩, accept_layout v hv3 k bs fv h⟩

end PyIpmi.Fru
