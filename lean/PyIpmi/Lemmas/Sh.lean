/-
  Lemmas about Spec.Sh: the recogniser is compositional (`run_append`), ordinary characters
  accumulate, a blank ends a word, and the "segment" calculus used to tokenise a command line
  piece by piece:

    stOf all b rd   — the state after the words `all` (the last one still open), outside quotes
    Seg s ws        — reading `s` in such a state adds exactly the words `ws`
-/
import PyIpmi.Spec.Sh
namespace PyIpmi.Spec.Sh

theorem run_append (st : St) (a b : Str) : run st (a ++ b) = run (run st a) b := by
  simp [run, List.foldl_append]

@[simp] theorem run_nil (st : St) : run st [] = st := rfl
@[simp] theorem run_cons (st : St) (c : Nat) (cs : Str) : run st (c :: cs) = run (step st c) cs := rfl

/-- characters with no special meaning anywhere in a word: letters, digits, `% + , - . / : @ _` -/
def plainCh (c : Nat) : Bool :=
  (48 ≤ c && c ≤ 58) || (65 ≤ c && c ≤ 90) || (97 ≤ c && c ≤ 122) || c == 37
  || (43 ≤ c && c ≤ 47) || c == 64 || c == 95

def AllPlain (w : Str) : Prop := ∀ c ∈ w, plainCh c = true

/-- a non-empty word of ordinary characters -/
def PlainWord (w : Str) : Prop := w ≠ [] ∧ AllPlain w

instance (w : Str) : Decidable (AllPlain w) := by unfold AllPlain; infer_instance
instance (w : Str) : Decidable (PlainWord w) := by unfold PlainWord; infer_instance

theorem plainCh_cases {c : Nat} (h : plainCh c = true) :
    (48 ≤ c ∧ c ≤ 58) ∨ (65 ≤ c ∧ c ≤ 90) ∨ (97 ≤ c ∧ c ≤ 122) ∨ c = 37 ∨ (43 ≤ c ∧ c ≤ 47) ∨ c = 64
    ∨ c = 95 := by
  simp only [plainCh, Bool.or_eq_true, Bool.and_eq_true, decide_eq_true_eq, beq_iff_eq] at h
  omega

theorem step_plain (m : Option Str) (b : Bool) (av : List Str) (rd : List (Nat × Nat)) (c : Nat)
    (h : plainCh c = true) :
    step ⟨.unq, m, b, av, rd⟩ c = ⟨.unq, some (m.getD [] ++ [c]), b, av, rd⟩ := by
  have hc := plainCh_cases h
  simp only [step, stepUnq]
  rw [if_neg (by omega), if_neg (by omega), if_neg (by omega), if_neg (by omega), if_neg (by omega),
    if_neg (by omega), if_neg (by omega), if_neg (by omega),
    if_neg (fun h => absurd h.1 (by omega)), if_neg (fun h => absurd h.1 (by omega)),
    if_neg (by omega), if_neg (by omega), if_neg (fun h => absurd h.1 (by omega))]
  rfl

theorem run_plain_some (w : Str) (hw : AllPlain w) (x : Str) (b : Bool) (av : List Str)
    (rd : List (Nat × Nat)) :
    run ⟨.unq, some x, b, av, rd⟩ w = ⟨.unq, some (x ++ w), b, av, rd⟩ := by
  induction w generalizing x with
  | nil => simp
  | cons c w ih =>
    rw [run_cons, step_plain _ _ _ _ _ (hw c (List.mem_cons_self))]
    simp only [Option.getD_some]
    rw [ih (fun d hd => hw d (List.mem_cons_of_mem _ hd))]
    simp

theorem run_plain_none (w : Str) (hw : PlainWord w) (b : Bool) (av : List Str)
    (rd : List (Nat × Nat)) :
    run ⟨.unq, none, b, av, rd⟩ w = ⟨.unq, some w, b, av, rd⟩ := by
  obtain ⟨hne, hp⟩ := hw
  cases w with
  | nil => exact absurd rfl hne
  | cons c w =>
    rw [run_cons, step_plain _ _ _ _ _ (hp c (List.mem_cons_self))]
    simp only [Option.getD_none, List.nil_append]
    rw [run_plain_some w (fun d hd => hp d (List.mem_cons_of_mem _ hd))]
    simp

/-! ### segments -/

/-- outside quotes, after the words `all`, the last of which is still being read -/
def stOf (all : List Str) (b : Bool) (rd : List (Nat × Nat)) : St :=
  ⟨.unq, all.getLast?, b, all.dropLast, rd⟩

/-- reading `s` after at least one word adds exactly the words `ws` -/
def Seg (s : Str) (ws : List Str) : Prop :=
  ∀ (all : List Str) (b : Bool) (rd : List (Nat × Nat)), all ≠ [] →
    ∃ b', run (stOf all b rd) s = stOf (all ++ ws) b' rd

theorem seg_nil : Seg [] [] := by
  intro all b rd _
  exact ⟨b, by simp⟩

theorem seg_append {s₁ s₂ : Str} {w₁ w₂ : List Str} (h₁ : Seg s₁ w₁) (h₂ : Seg s₂ w₂) :
    Seg (s₁ ++ s₂) (w₁ ++ w₂) := by
  intro all b rd hne
  obtain ⟨b₁, e₁⟩ := h₁ all b rd hne
  obtain ⟨b₂, e₂⟩ := h₂ (all ++ w₁) b₁ rd (by simp [hne])
  exact ⟨b₂, by rw [run_append, e₁, e₂, List.append_assoc]⟩

theorem last_split (all : List Str) (hne : all ≠ []) :
    ∃ x, all.getLast? = some x ∧ all.dropLast ++ [x] = all := by
  cases h : all.getLast? with
  | none => exact absurd (List.getLast?_eq_none_iff.mp h) hne
  | some x =>
    obtain ⟨ys, rfl⟩ := List.getLast?_eq_some_iff.mp h
    exact ⟨x, rfl, by simp⟩

/-- a blank after the words `all` closes the last one -/
theorem step_blank (all : List Str) (b : Bool) (rd : List (Nat × Nat)) (hne : all ≠ []) :
    step (stOf all b rd) 32 = ⟨.unq, none, true, all, rd⟩ := by
  obtain ⟨x, hx, hall⟩ := last_split all hne
  simp [stOf, step, stepUnq, flush, hx, hall]

theorem stOf_snoc (all : List Str) (w : Str) (b : Bool) (rd : List (Nat × Nat)) :
    stOf (all ++ [w]) b rd = ⟨.unq, some w, b, all, rd⟩ := by
  simp [stOf]

/-- blank + ordinary word -/
theorem seg_plain (w : Str) (hw : PlainWord w) : Seg (32 :: w) [w] := by
  intro all b rd hne
  refine ⟨true, ?_⟩
  rw [run_cons, step_blank all b rd hne, run_plain_none w hw, stOf_snoc]

/-- a list of ordinary words, each preceded by one blank -/
theorem seg_plain_words (ws : List Str) (h : ∀ w ∈ ws, PlainWord w) :
    Seg (ws.flatMap (fun w => 32 :: w)) ws := by
  induction ws with
  | nil => exact seg_nil
  | cons w ws ih =>
    have := seg_append (seg_plain w (h w (List.mem_cons_self)))
      (ih (fun v hv => h v (List.mem_cons_of_mem _ hv)))
    simpa [List.flatMap_cons] using this

/-- the first word of the line -/
theorem run_first (w : Str) (hw : PlainWord w) : run init w = stOf [w] true [] := by
  rw [init, run_plain_none w hw]
  simp [stOf]

/-- ` 2>&1` at the end of the line -/
theorem finish_redirect (all : List Str) (b : Bool) (hne : all ≠ []) :
    finish (run (stOf all b []) [32, 50, 62, 38, 49]) = finishOk all [(2, 1)] := by
  rw [run_cons, step_blank all b [] hne]
  simp [step, stepUnq, addChar, isDigit, digitsVal, finish]

/-- end of line inside the last word -/
theorem finish_plain (all : List Str) (b : Bool) (rd : List (Nat × Nat)) (hne : all ≠ []) :
    finish (stOf all b rd) = finishOk all rd := by
  obtain ⟨x, hx, hall⟩ := last_split all hne
  simp [stOf, finish, hx, hall]

theorem finishOk_cons (w : Str) (rest : List Str) (rd : List (Nat × Nat))
    (h : reserved.contains w = false) : finishOk (w :: rest) rd = .ok (w :: rest) rd := by
  simp only [finishOk, h]
  simp

end PyIpmi.Spec.Sh
