/-
  Lemmas/RetryReserve.lean — the helpers of Model/Retry.lean in the environment whose `reserve_fn`
  can fail (`EnvR`): bounds, freshness, and "a refused Reserve ends the run with that error and is
  the last call", for every script, every reserve plan and every budget.
-/
import PyIpmi.Lemmas.Retry
namespace PyIpmi.Model.Retry
open PyIpmi
set_option linter.unusedSimpArgs false
set_option linter.unusedVariables false

def ExtendsR (e p : EnvR) (ext : List Ev) : Prop := p.env.trace = e.env.trace ++ ext

/-- a refused Reserve is what the run ends with, and it is the last call -/
def FailLast {α : Type} (ext : List Ev) (out : Outcome α) : Prop :=
  ∀ c, Ev.reserveFailed c ∈ ext → out = .ccError c ∧ ext.getLast? = some (.reserveFailed c)

theorem EnvR.reserve_cases (e : EnvR) :
    (∃ rest, e.reserve = (⟨e.env.granted, rest⟩, .ok (e.env.lastRes + 1))) ∨
    (∃ c rest, e.reserve = (⟨{ e.env with trace := e.env.trace ++ [.reserveFailed c] }, rest⟩, .ccError c)) := by
  unfold EnvR.reserve
  cases e.rplan with
  | nil => exact Or.inl ⟨[], rfl⟩
  | cons l rest =>
    by_cases h : l.code = 0
    · simp only [h, if_true]; exact Or.inl ⟨rest, rfl⟩
    · simp only [h, if_false]; exact Or.inr ⟨l.code, rest, rfl⟩

theorem Env.clear_eq (K : Consts) (e : Env) (ctrl res : Nat) :
    Env.clear K e ctrl res = (e.adv (.clear ctrl res e.peek),
      match e.peek.status? K with
      | some st => .ok st
      | none => .ccError e.peek.code) := by
  simp only [Env.clear, Env.adv, Env.peek]
  split <;> simp_all

theorem failLast_single {α : Type} (ev : Ev) (out : Outcome α) (h : ∀ c, ev ≠ .reserveFailed c) :
    FailLast [ev] out := by
  intro c hm; simp only [List.mem_singleton] at hm; exact absurd hm.symm (h c)

theorem failLast_cons {α : Type} (ev : Ev) (ext : List Ev) (out : Outcome α) (h : ∀ c, ev ≠ .reserveFailed c)
    (ht : FailLast ext out) : FailLast (ev :: ext) out := by
  intro c hm
  simp only [List.mem_cons] at hm
  rcases hm with hm | hm
  · exact absurd hm.symm (h c)
  · obtain ⟨h1, h2⟩ := ht c hm
    refine ⟨h1, ?_⟩
    have hne : ext ≠ [] := by intro h; rw [h] at hm; cases hm
    rw [List.getLast?_cons_of_ne_nil hne]; exact h2

abbrev chunkR (K : Consts) := chunkLoop K EnvR.chunk EnvR.reserve (ρ := Unit)

/-- get_sdr_chunk_helper with a failing reserve_fn: still at most 2·(b−1) calls, still fresh, and a
refused renewal is propagated and is the last call. -/
theorem chunkR_spec (K : Consts) : ∀ b (e : EnvR) res, ∃ ext, ExtendsR e (chunkR K b e res).1 ext ∧
    ext.length ≤ 2 * (b - 1) ∧ Fresh res ext ∧ FailLast ext (chunkR K b e res).2 := by
  intro b
  induction b with
  | zero => intro e res; exact ⟨[], by simp [ExtendsR, chunkR, chunkLoop], by simp, trivial, (by intro c h; cases h)⟩
  | succ n ih =>
    intro e res
    cases n with
    | zero => exact ⟨[], by simp [ExtendsR, chunkR, chunkLoop], by simp, trivial, (by intro c h; cases h)⟩
    | succ r =>
      simp only [chunkR]
      rw [chunkLoop]
      simp only [Nat.succ_ne_zero, ↓reduceIte, EnvR.chunk, Env.chunk_eq]
      by_cases c1 : e.env.peek.code = K.ccOk
      · rw [if_pos c1]
        exact ⟨[.chunk res e.env.peek], by simp [ExtendsR], by simp; omega, by simp [Fresh],
          failLast_single _ _ (by intro c h; cases h)⟩
      · by_cases c2 : e.env.peek.code = K.chunkRenew
        · rw [if_neg c1, if_pos c2]
          rcases EnvR.reserve_cases ⟨e.env.adv (.chunk res e.env.peek), e.rplan⟩ with ⟨rest, hr⟩ | ⟨c, rest, hr⟩
          · rw [hr]
            simp only []
            obtain ⟨ext, hx, h1, h2, h3⟩ := ih ⟨(e.env.adv (.chunk res e.env.peek)).granted, rest⟩ (e.env.lastRes + 1)
            refine ⟨.chunk res e.env.peek :: .reserve (e.env.lastRes + 1) :: ext, ?_, by simp; omega,
              by simp [Fresh]; exact h2, ?_⟩
            · simp only [ExtendsR, Env.adv_lastRes] at hx ⊢; rw [hx]; simp
            · exact failLast_cons _ _ _ (by intro c h; cases h)
                (failLast_cons _ _ _ (by intro c h; cases h) (by simpa using h3))
          · rw [hr]
            simp only [recast]
            refine ⟨[.chunk res e.env.peek, .reserveFailed c], by simp [ExtendsR], by simp; omega, by simp [Fresh], ?_⟩
            intro c' hm
            simp at hm
            subst hm
            exact ⟨rfl, rfl⟩
        · by_cases c3 : e.env.peek.code = K.chunkRetry1 ∨ e.env.peek.code = K.chunkRetry2
          · rw [if_neg c1, if_neg c2, if_pos c3]
            obtain ⟨ext, hx, h1, h2, h3⟩ := ih ⟨e.env.adv (.chunk res e.env.peek), e.rplan⟩ res
            refine ⟨.chunk res e.env.peek :: ext, ?_, by simp; omega, by simp [Fresh]; exact h2,
              failLast_cons _ _ _ (by intro c h; cases h) h3⟩
            simp only [ExtendsR] at hx ⊢; rw [hx]; simp
          · rw [if_neg c1, if_neg c2, if_neg c3]
            exact ⟨[.chunk res e.env.peek], by simp [ExtendsR], by simp; omega, by simp [Fresh],
              failLast_single _ _ (by intro c h; cases h)⟩

abbrev clearR (K : Consts) (ctrl : Nat) := clearLoop K (EnvR.clear K) EnvR.reserve ctrl

/-- one phase of _clear_repository with a failing reserve_fn -/
theorem clearR_spec (K : Consts) (ctrl : Nat) : ∀ b (e : EnvR) res, ∃ ext, ExtendsR e (clearR K ctrl b e res).1 ext ∧
    ext.length ≤ 2 * (b - 1) ∧ Fresh res ext ∧ FailLast ext (clearR K ctrl b e res).2 ∧
    (∀ r', (clearR K ctrl b e res).2 = .ok r' → r' = lastGrant res ext) := by
  intro b
  induction b with
  | zero =>
    intro e res
    exact ⟨[], by simp [ExtendsR, clearR, clearLoop], by simp, trivial, (by intro c h; cases h),
      (by intro r' h; simp [clearR, clearLoop] at h)⟩
  | succ n ih =>
    intro e res
    cases n with
    | zero =>
      exact ⟨[], by simp [ExtendsR, clearR, clearLoop], by simp, trivial, (by intro c h; cases h),
        (by intro r' h; simp [clearR, clearLoop] at h)⟩
    | succ r =>
      simp only [clearR]
      rw [clearLoop]
      simp only [Nat.succ_ne_zero, ↓reduceIte, EnvR.clear, Env.clear_eq]
      cases hs : e.env.peek.status? K with
      | some st =>
        simp only []
        by_cases h1 : st = K.statusInProgress
        · rw [if_pos h1]
          obtain ⟨ext, hx, h2, h3, h4, h5⟩ := ih ⟨e.env.adv (.clear ctrl res e.env.peek), e.rplan⟩ res
          refine ⟨.clear ctrl res e.env.peek :: ext, ?_, by simp; omega, by simp [Fresh]; exact h3,
            failLast_cons _ _ _ (by intro c h; cases h) h4, ?_⟩
          · simp only [ExtendsR] at hx ⊢; rw [hx]; simp
          · intro r' h; simpa [lastGrant] using h5 r' h
        · rw [if_neg h1]
          refine ⟨[.clear ctrl res e.env.peek], by simp [ExtendsR], by simp; omega, by simp [Fresh],
            failLast_single _ _ (by intro c h; cases h), ?_⟩
          intro r' h; simp at h; simp [lastGrant, h]
      | none =>
        simp only []
        by_cases h1 : e.env.peek.code = K.clearRenew
        · rw [if_pos h1]
          rcases EnvR.reserve_cases ⟨e.env.adv (.clear ctrl res e.env.peek), e.rplan⟩ with ⟨rest, hr⟩ | ⟨c, rest, hr⟩
          · rw [hr]
            simp only []
            obtain ⟨ext, hx, h2, h3, h4, h5⟩ := ih ⟨(e.env.adv (.clear ctrl res e.env.peek)).granted, rest⟩ (e.env.lastRes + 1)
            refine ⟨.clear ctrl res e.env.peek :: .reserve (e.env.lastRes + 1) :: ext, ?_, by simp; omega,
              by simp [Fresh]; exact h3, ?_, ?_⟩
            · simp only [ExtendsR, Env.adv_lastRes] at hx ⊢; rw [hx]; simp
            · exact failLast_cons _ _ _ (by intro c h; cases h)
                (failLast_cons _ _ _ (by intro c h; cases h) (by simpa using h4))
            · intro r' h; simpa [lastGrant] using h5 r' (by simpa using h)
          · rw [hr]
            simp only [recast]
            refine ⟨[.clear ctrl res e.env.peek, .reserveFailed c], by simp [ExtendsR], by simp; omega, by simp [Fresh], ?_,
              (by intro r' h; cases h)⟩
            intro c' hm
            simp at hm
            subst hm
            exact ⟨rfl, rfl⟩
        · rw [if_neg h1]
          by_cases h2 : e.env.peek.code = K.ccOk
          · rw [if_pos h2]
            exact ⟨[.clear ctrl res e.env.peek], by simp [ExtendsR], by simp; omega, by simp [Fresh],
              failLast_single _ _ (by intro c h; cases h), (by intro r' h; cases h)⟩
          · rw [if_neg h2]
            exact ⟨[.clear ctrl res e.env.peek], by simp [ExtendsR], by simp; omega, by simp [Fresh],
              failLast_single _ _ (by intro c h; cases h), (by intro r' h; cases h)⟩

theorem runChunkR_spec (K : Consts) (b res : Nat) (s : Script) (rp : List Letter) :
    (runChunkR K b res s rp).1.env.trace.length ≤ 2 * (b - 1) ∧
    Fresh res (runChunkR K b res s rp).1.env.trace ∧
    FailLast (runChunkR K b res s rp).1.env.trace (runChunkR K b res s rp).2 := by
  obtain ⟨ext, hx, h1, h2, h3⟩ := chunkR_spec K b ⟨⟨s, res, []⟩, rp⟩ res
  have : (runChunkR K b res s rp).1.env.trace = ext := by simpa [ExtendsR, runChunkR] using hx
  rw [this]
  exact ⟨h1, h2, h3⟩

/-- the two phases of clear_repository_helper behind its (optional) first Reserve -/
def twoPhases (K : Consts) (b : Nat) (e : EnvR) (r0 : Nat) : EnvR × Outcome Unit :=
  clearHelper K (EnvR.clear K) EnvR.reserve b (some r0) e

theorem recast_cc {α β : Type} (c : Nat) : (recast (.ccError c : Outcome α) : Outcome β) = .ccError c := rfl

theorem twoPhases_spec (K : Consts) (b : Nat) (e : EnvR) (r0 : Nat) :
    ∃ ext, ExtendsR e (twoPhases K b e r0).1 ext ∧ ext.length ≤ 4 * (b - 1) ∧ Fresh r0 ext ∧
      FailLast ext (twoPhases K b e r0).2 := by
  obtain ⟨ext1, hx1, l1, f1, fl1, g1⟩ := clearR_spec K K.ctrlInitiate b e r0
  unfold twoPhases clearHelper
  simp only []
  simp only [clearR] at *
  rcases h1 : clearLoop K (EnvR.clear K) EnvR.reserve K.ctrlInitiate b e r0 with ⟨st1, o1⟩
  rw [h1] at hx1 fl1 g1
  cases o1 with
  | ok r1 =>
    simp only []
    have hno : ∀ c, Ev.reserveFailed c ∉ ext1 := by
      intro c hm; have := (fl1 c hm).1; cases this
    obtain ⟨ext2, hx2, l2, f2, fl2, _⟩ := clearR_spec K K.ctrlStatus b st1 r1
    simp only [clearR] at hx2 fl2
    rcases h2 : clearLoop K (EnvR.clear K) EnvR.reserve K.ctrlStatus b st1 r1 with ⟨st2, o2⟩
    rw [h2] at hx2 fl2
    have hext : ExtendsR e st2 (ext1 ++ ext2) := by
      simp only [ExtendsR] at hx1 hx2 ⊢; rw [hx2, hx1]; simp
    have hfresh : Fresh r0 (ext1 ++ ext2) := by
      rw [fresh_append]; exact ⟨f1, by rw [← g1 r1 rfl]; exact f2⟩
    have hfail : ∀ (out : Outcome Unit), (∀ c, o2 = .ccError c → out = .ccError c) → FailLast (ext1 ++ ext2) out := by
      intro out ho c hm
      rcases List.mem_append.mp hm with hm | hm
      · exact absurd hm (hno c)
      · obtain ⟨a, b'⟩ := fl2 c hm
        refine ⟨ho c a, ?_⟩
        rw [List.getLast?_append, b']; rfl
    cases o2 with
    | ok r2 => exact ⟨_, hext, by simp; omega, hfresh, hfail _ (by intro c h; cases h)⟩
    | ccError c2 => exact ⟨_, hext, by simp; omega, hfresh, hfail _ (by intro c h; cases h; rfl)⟩
    | _ => exact ⟨_, hext, by simp; omega, hfresh, hfail _ (by intro c h; cases h)⟩
  | ccError c1 =>
    refine ⟨ext1, hx1, by omega, f1, ?_⟩
    intro c hm
    have h := (fl1 c hm).1
    simp only [Outcome.ccError.injEq] at h
    subst h
    exact ⟨rfl, (fl1 _ hm).2⟩
  | _ =>
    refine ⟨ext1, hx1, by omega, f1, ?_⟩
    intro c hm; have := (fl1 c hm).1; cases this

/-- clear_repository_helper with a failing reserve_fn: at most 4·(b−1)+1 calls, every clear request
carries the most recent reservation, and a refused Reserve - the helper's own first one or a renewal
in either phase - is propagated and is the last call. -/
theorem runClearR_spec (K : Consts) (b : Nat) (rv : Option Nat) (s : Script) (rp : List Letter) :
    (runClearR K b rv s rp).1.env.trace.length ≤ 4 * (b - 1) + 1 ∧
    Fresh (rv.getD 0) (runClearR K b rv s rp).1.env.trace ∧
    FailLast (runClearR K b rv s rp).1.env.trace (runClearR K b rv s rp).2 := by
  have hnone : ∀ e0 : EnvR, clearHelper K (EnvR.clear K) EnvR.reserve b none e0 =
      match e0.reserve with
      | (st0, .ok r0) => twoPhases K b st0 r0
      | (st0, e) => (st0, recast e) := by
    intro e0
    unfold twoPhases clearHelper
    simp only []
    rcases e0.reserve with ⟨st0, o⟩
    cases o <;> rfl
  cases rv with
  | some r =>
    simp only [runClearR, Option.getD_some]
    obtain ⟨ext, hx, h1, h2, h3⟩ := twoPhases_spec K b ⟨⟨s, r, []⟩, rp⟩ r
    have : (twoPhases K b ⟨⟨s, r, []⟩, rp⟩ r).1.env.trace = ext := by simpa [ExtendsR] using hx
    simp only [twoPhases] at this h3
    rw [this]
    exact ⟨by omega, h2, h3⟩
  | none =>
    simp only [runClearR, Option.getD_none, hnone]
    rcases EnvR.reserve_cases ⟨⟨s, 0, []⟩, rp⟩ with ⟨rest, hr⟩ | ⟨c, rest, hr⟩
    · rw [hr]
      simp only []
      obtain ⟨ext, hx, h1, h2, h3⟩ := twoPhases_spec K b ⟨(⟨s, 0, []⟩ : Env).granted, rest⟩ 1
      have e1 : (twoPhases K b ⟨(⟨s, 0, []⟩ : Env).granted, rest⟩ 1).1.env.trace = .reserve 1 :: ext := by
        simpa [ExtendsR, Env.granted] using hx
      rw [e1]
      exact ⟨by simp; omega, by simpa [Fresh] using h2, failLast_cons _ _ _ (by intro c h; cases h) h3⟩
    · rw [hr]
      simp only [recast]
      refine ⟨by simp, by simp [Fresh], ?_⟩
      intro c' hm
      simp at hm
      subst hm
      exact ⟨rfl, rfl⟩

/-! with an empty plan the failing environment IS the old one -/

theorem EnvR.reserve_nil (e : Env) : EnvR.reserve ⟨e, []⟩ = (⟨e.reserve.1, []⟩, e.reserve.2) := rfl

theorem chunkR_nil (K : Consts) : ∀ b (e : Env) res,
    chunkR K b ⟨e, []⟩ res = (⟨(chunkS K b e res).1, []⟩, (chunkS K b e res).2) := by
  intro b
  induction b with
  | zero => intro e res; rfl
  | succ n ih =>
    intro e res
    cases n with
    | zero => simp [chunkR, chunkS, chunkLoop]
    | succ r =>
      simp only [chunkR, chunkS]
      rw [chunkLoop, chunkLoop]
      simp only [Nat.succ_ne_zero, ↓reduceIte, EnvR.chunk, Env.chunk_eq, EnvR.reserve_nil, Env.reserve_eq]
      by_cases c1 : e.peek.code = K.ccOk
      · rw [if_pos c1, if_pos c1]
      · rw [if_neg c1, if_neg c1]
        by_cases c2 : e.peek.code = K.chunkRenew
        · rw [if_pos c2, if_pos c2]
          exact ih _ _
        · rw [if_neg c2, if_neg c2]
          by_cases c3 : e.peek.code = K.chunkRetry1 ∨ e.peek.code = K.chunkRetry2
          · rw [if_pos c3, if_pos c3]; exact ih _ _
          · rw [if_neg c3, if_neg c3]

/-- `runChunkR … []` is `runChunk …`: the theorems about a reserve_fn that always succeeds are the
special case "empty plan" of the environment used here. -/
theorem runChunkR_nil (K : Consts) (b res : Nat) (s : Script) :
    (runChunkR K b res s []).1.env = (runChunk K b res s).1 ∧ (runChunkR K b res s []).2 = (runChunk K b res s).2 := by
  have := chunkR_nil K b ⟨s, res, []⟩ res
  simp only [runChunkR, runChunk]
  simp only [chunkR, chunkS] at this
  rw [this]
  exact ⟨rfl, rfl⟩

end PyIpmi.Model.Retry
