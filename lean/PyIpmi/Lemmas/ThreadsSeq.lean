/-
  C14 / C04 — with the sequence number allocated INSIDE the lock block (`Sys.seqLocked`, fixes/C04-2.diff)
  consecutive transmissions carry different IPMB request sequence numbers under every schedule:
  the invariant and its preservation.  Core tactics only.
-/
import PyIpmi.Lemmas.ThreadsStep
namespace PyIpmi.Threads
open PyIpmi.Spec.Threads

/-- request sequence number of the most recent transmission of a NEWEST-FIRST wire log -/
def lastRq : List WEv → Option Nat
  | [] => none
  | .tx _ _ _ r _ :: _ => some r
  | .rx _ _ :: w => lastRq w
  | .to _ _ :: w => lastRq w

/-- clause (Q) on a NEWEST-FIRST wire log -/
def rqOk : List WEv → Bool
  | [] => true
  | .tx _ _ _ r _ :: w => (lastRq w != some r) && rqOk w
  | .rx _ _ :: w => rqOk w
  | .to _ _ :: w => rqOk w

/-- what follows the transmissions of `a` when `l` preceded them (chronological) -/
def lastAfter : Option Nat → List WEv → Option Nat
  | l, [] => l
  | _, .tx _ _ _ r _ :: w => lastAfter (some r) w
  | l, .rx _ _ :: w => lastAfter l w
  | l, .to _ _ :: w => lastAfter l w

theorem rqDistinctFrom_append (l : Option Nat) (a b : List WEv) :
    rqDistinctFrom l (a ++ b) = (rqDistinctFrom l a && rqDistinctFrom (lastAfter l a) b) := by
  induction a generalizing l with
  | nil => simp [rqDistinctFrom, lastAfter]
  | cons e a ih =>
    cases e with
    | tx t n s r c => simp [rqDistinctFrom, lastAfter, ih, Bool.and_assoc]
    | rx t n => simp [rqDistinctFrom, lastAfter, ih]
    | to t n => simp [rqDistinctFrom, lastAfter, ih]

theorem lastAfter_append (l : Option Nat) (a b : List WEv) : lastAfter l (a ++ b) = lastAfter (lastAfter l a) b := by
  induction a generalizing l with
  | nil => rfl
  | cons e a ih => cases e <;> simp [lastAfter, ih]

theorem lastAfter_reverse (w : List WEv) : lastAfter none w.reverse = lastRq w := by
  induction w with
  | nil => rfl
  | cons e w ih =>
    rw [List.reverse_cons, lastAfter_append, ih]
    cases e <;> simp [lastAfter, lastRq]

/-- the newest-first bookkeeping of the model is the specification's clause on the chronological log -/
theorem rqOk_eq (w : List WEv) : rqOk w = rqDistinct w.reverse := by
  unfold rqDistinct
  induction w with
  | nil => rfl
  | cons e w ih =>
    rw [List.reverse_cons, rqDistinctFrom_append, lastAfter_reverse, ← ih]
    cases e with
    | tx t n s r c => simp [rqOk, rqDistinctFrom, Bool.and_comm]
    | rx t n => simp [rqOk, rqDistinctFrom]
    | to t n => simp [rqOk, rqDistinctFrom]

/-- What the lock holder knows about `next_sequence_number` and the wire, by program point. -/
def HolderSeq (w : List WEv) (ns : Nat) (th : Thr) : Prop :=
  match th.pc with
  | .lkLoad => ∀ r, lastRq w = some r → r = ns
  | .lkStore => (∀ r, lastRq w = some r → r = ns) ∧ th.reg = ns
  | .lkHdr => ∀ r, lastRq w = some r → r ≠ ns
  | .actLoad | .ssLoad | .ssStore | .ssChk | .ssWrap | .ssHdr _ | .send =>
    th.hdr = ns ∧ ∀ r, lastRq w = some r → r ≠ th.hdr
  | .recv | .requeue | .release => ∀ r, lastRq w = some r → r = ns
  | _ => True

/-- The invariant of the variant `seqLocked`: the counter equals the number on the latest datagram
whenever nobody is between "take the lock" and "transmit", only the lock holder changes it, and the
number it is about to transmit differs from the latest one. -/
structure SeqInv (s : Sys) : Prop where
  locked : s.seqLocked = true
  /-- no retransmission: a retransmitted request carries, as IPMI intends, the request sequence number of the
  datagram it repeats — clause (Q) speaks about runs without retransmissions -/
  noRetx : s.par.maxRetries = 0
  ok : rqOk s.wire = true
  free : s.lock = none → ∀ r, lastRq s.wire = some r → r = s.nextSeq
  holder : ∀ (t : Nat) (th : Thr), s.thr[t]? = some th → s.lock = some t → HolderSeq s.wire s.nextSeq th
  /-- the program points of the as-shipped call path are never entered -/
  unreach : ∀ (t : Nat) (th : Thr), s.thr[t]? = some th →
      th.pc ≠ .incStore ∧ th.pc ≠ .hdrLoad ∧ th.pc ≠ .acquire

def reach (pc : PC) : Prop := pc ≠ .incStore ∧ pc ≠ .hdrLoad ∧ pc ≠ .acquire

theorem succ_mod_ne (n : Nat) : (n + 1) % 64 ≠ n := by omega

/-- Frame: thread `t` steps; lock, wire and counter are as the caller says. -/
theorem seq_frame {s s' : Sys} {t : Nat} {th th' : Thr} (hq : SeqInv s) (hget : s.thr[t]? = some th)
    (hthr : s'.thr = s.thr.set t th') (hsl : s'.seqLocked = s.seqLocked ∧ s'.par = s.par)
    (hok : rqOk s'.wire = true) (hreach : reach th'.pc)
    (hfree : s'.lock = none → ∀ r, lastRq s'.wire = some r → r = s'.nextSeq)
    (hme : s'.lock = some t → HolderSeq s'.wire s'.nextSeq th')
    (hoth : ∀ (t1 : Nat) (th1 : Thr), t1 ≠ t → s.thr[t1]? = some th1 → s'.lock = some t1 →
      HolderSeq s'.wire s'.nextSeq th1) : SeqInv s' := by
  constructor
  · rw [hsl.1]; exact hq.locked
  · rw [hsl.2]; exact hq.noRetx
  · exact hok
  · exact hfree
  · intro t1 th1 h1 hl
    rw [hthr] at h1
    rcases get_set_cases hget h1 with ⟨rfl, rfl⟩ | ⟨n1, g1⟩
    · exact hme hl
    · exact hoth _ _ n1 g1 hl
  · intro t1 th1 h1
    rw [hthr] at h1
    rcases get_set_cases hget h1 with ⟨rfl, rfl⟩ | ⟨_, g1⟩
    · exact hreach
    · exact hq.unreach _ _ g1

/-- A step of a thread that is outside the lock block and stays there; lock, wire and counter untouched. -/
theorem seq_outside {s s' : Sys} {t : Nat} {th th' : Thr} (hi : Inv s) (hq : SeqInv s) (hget : s.thr[t]? = some th)
    (hthr : s'.thr = s.thr.set t th') (hsl : s'.seqLocked = s.seqLocked ∧ s'.par = s.par) (hlock : s'.lock = s.lock)
    (hwire : s'.wire = s.wire) (hns : s'.nextSeq = s.nextSeq) (hpc : inLock th.pc = false)
    (hreach : reach th'.pc) : SeqInv s' := by
  have hnl : s.lock ≠ some t := by
    intro h
    have := (hi.owner t th hget).mpr h
    rw [hpc] at this; cases this
  refine seq_frame hq hget hthr hsl (by rw [hwire]; exact hq.ok) hreach ?_ ?_ ?_
  · intro h; rw [hlock] at h; rw [hwire, hns]; exact hq.free h
  · intro h; rw [hlock] at h; exact absurd h hnl
  · intro t1 th1 _ g1 h; rw [hlock] at h; rw [hwire, hns]; exact hq.holder _ _ g1 h

/-- A step of the lock holder that keeps the lock. -/
theorem seq_holder {s s' : Sys} {t : Nat} {th th' : Thr} (hq : SeqInv s) (hget : s.thr[t]? = some th)
    (_hl : s.lock = some t) (hthr : s'.thr = s.thr.set t th') (hsl : s'.seqLocked = s.seqLocked ∧ s'.par = s.par)
    (hlock : s'.lock = some t) (hok : rqOk s'.wire = true) (hreach : reach th'.pc)
    (hme : HolderSeq s'.wire s'.nextSeq th') : SeqInv s' := by
  refine seq_frame hq hget hthr hsl hok hreach ?_ (fun _ => hme) ?_
  · intro h; rw [hlock] at h; cases h
  · intro t1 th1 n1 _ h
    rw [hlock] at h
    injection h with h
    exact absurd h.symm n1

theorem reach_nextPc (th : Thr) (ok : Bool) : reach (nextPc th ok) := by
  simp only [nextPc, reach]
  cases th.kind <;> simp only [] <;> (repeat' split) <;> simp

theorem stepThr_seq {s s' : Sys} {t : Nat} {th : Thr} (hi : Inv s) (hq : SeqInv s) (hget : s.thr[t]? = some th)
    (h : stepThr s t th = some s') : SeqInv s' := by
  have hown := hi.owner t th hget
  have hun := hq.unreach t th hget
  cases hpc : th.pc with
  | incStore => exact absurd hpc hun.1
  | hdrLoad => exact absurd hpc hun.2.1
  | acquire => exact absurd hpc hun.2.2
  | done => simp [stepThr, hpc] at h
  | kaWait =>
    simp only [stepThr, hpc] at h
    split at h
    · simp at h; subst h
      exact seq_outside hi hq hget rfl ⟨rfl, rfl⟩ rfl rfl rfl (by rw [hpc]; rfl) (by simp [reach])
    · split at h
      · cases h
      · simp at h; subst h
        exact seq_outside hi hq hget rfl ⟨rfl, rfl⟩ rfl rfl rfl (by rw [hpc]; rfl) (by simp [reach])
  | await =>
    simp only [stepThr, hpc] at h
    split at h
    · simp at h; subst h
      refine seq_outside hi hq hget rfl ⟨rfl, rfl⟩ rfl rfl rfl (by rw [hpc]; rfl) ?_
      split <;> simp [reach]
    · cases h
  | stopSet =>
    simp [stepThr, hpc] at h; subst h
    refine seq_outside hi hq hget rfl ⟨rfl, rfl⟩ rfl rfl rfl (by rw [hpc]; rfl) ?_
    split <;> simp [reach]
  | joinKa =>
    simp only [stepThr, hpc] at h
    split at h
    · simp at h; subst h
      exact seq_outside hi hq hget rfl ⟨rfl, rfl⟩ rfl rfl rfl (by rw [hpc]; rfl) (by simp [reach])
    · cases h
  | chkAct =>
    simp [stepThr, hpc] at h; subst h
    refine seq_outside hi hq hget rfl ⟨rfl, rfl⟩ rfl rfl rfl (by rw [hpc]; rfl) ?_
    split <;> simp [reach]
  | actStore =>
    simp [stepThr, hpc] at h; subst h
    exact seq_outside hi hq hget rfl ⟨rfl, rfl⟩ rfl rfl rfl (by rw [hpc]; rfl) (by simp [reach])
  | idle =>
    -- `with self.transaction_lock:` — the call begins by taking the lock
    cases hl : s.lock with
    | some x => simp [stepThr, hpc, hq.locked, hl] at h
    | none =>
      simp [stepThr, hpc, hq.locked, hl] at h; subst h
      refine seq_frame hq hget rfl ⟨by simp [Sys.upd, hq.locked], rfl⟩ hq.ok (by simp [reach]) ?_ ?_ ?_
      · intro h; simp [Sys.upd] at h
      · intro _; simp only [HolderSeq, Sys.upd]; exact hq.free hl
      · intro t1 th1 n1 _ h
        simp [Sys.upd] at h
        exact absurd h.symm n1
  | lkLoad =>
    rw [hpc] at hown; simp [inLock] at hown
    have hh := hq.holder t th hget hown
    simp only [HolderSeq, hpc] at hh
    simp [stepThr, hpc] at h; subst h
    exact seq_holder hq hget hown rfl ⟨rfl, rfl⟩ hown hq.ok (by simp [reach]) (by simp only [HolderSeq, Sys.upd]; exact ⟨hh, trivial⟩)
  | lkStore =>
    rw [hpc] at hown; simp [inLock] at hown
    have hh := hq.holder t th hget hown
    simp only [HolderSeq, hpc] at hh
    simp [stepThr, hpc] at h; subst h
    refine seq_holder hq hget hown rfl ⟨rfl, rfl⟩ hown hq.ok (by simp [reach]) ?_
    simp only [HolderSeq, Sys.upd]
    intro r hr
    rw [hh.1 r hr, hh.2]
    exact (succ_mod_ne _).symm
  | lkHdr =>
    rw [hpc] at hown; simp [inLock] at hown
    have hh := hq.holder t th hget hown
    simp only [HolderSeq, hpc] at hh
    simp [stepThr, hpc] at h; subst h
    exact seq_holder hq hget hown rfl ⟨rfl, rfl⟩ hown hq.ok (by simp [reach]) (by simp only [HolderSeq, Sys.upd]; exact ⟨trivial, hh⟩)
  | actLoad =>
    rw [hpc] at hown; simp [inLock] at hown
    have hh := hq.holder t th hget hown
    simp only [HolderSeq, hpc] at hh
    cases ha : s.activated with
    | true =>
      simp [stepThr, hpc, ha] at h; subst h
      exact seq_holder hq hget hown rfl ⟨rfl, rfl⟩ hown hq.ok (by simp [reach]) (by simp only [HolderSeq, Sys.upd]; exact hh)
    | false =>
      simp [stepThr, hpc, ha] at h; subst h
      exact seq_holder hq hget hown rfl ⟨rfl, rfl⟩ hown hq.ok (by simp [reach]) (by simp only [HolderSeq, Sys.upd]; exact hh)
  | ssLoad =>
    rw [hpc] at hown; simp [inLock] at hown
    have hh := hq.holder t th hget hown
    simp only [HolderSeq, hpc] at hh
    simp [stepThr, hpc] at h; subst h
    exact seq_holder hq hget hown rfl ⟨rfl, rfl⟩ hown hq.ok (by simp [reach]) (by simp only [HolderSeq, Sys.upd]; exact hh)
  | ssStore =>
    rw [hpc] at hown; simp [inLock] at hown
    have hh := hq.holder t th hget hown
    simp only [HolderSeq, hpc] at hh
    simp [stepThr, hpc] at h; subst h
    exact seq_holder hq hget hown rfl ⟨rfl, rfl⟩ hown hq.ok (by simp [reach]) (by simp only [HolderSeq, Sys.upd]; exact hh)
  | ssChk =>
    rw [hpc] at hown; simp [inLock] at hown
    have hh := hq.holder t th hget hown
    simp only [HolderSeq, hpc] at hh
    by_cases hw : s.sessSeq > 0xffffffff
    · simp [stepThr, hpc, hw] at h; subst h
      exact seq_holder hq hget hown rfl ⟨rfl, rfl⟩ hown hq.ok (by simp [reach]) (by simp only [HolderSeq, Sys.upd]; exact hh)
    · simp [stepThr, hpc, hw] at h; subst h
      exact seq_holder hq hget hown rfl ⟨rfl, rfl⟩ hown hq.ok (by simp [reach]) (by simp only [HolderSeq, Sys.upd]; exact hh)
  | ssWrap =>
    rw [hpc] at hown; simp [inLock] at hown
    have hh := hq.holder t th hget hown
    simp only [HolderSeq, hpc] at hh
    simp [stepThr, hpc] at h; subst h
    exact seq_holder hq hget hown rfl ⟨rfl, rfl⟩ hown hq.ok (by simp [reach]) (by simp only [HolderSeq, Sys.upd]; exact hh)
  | ssHdr k =>
    rw [hpc] at hown; simp [inLock] at hown
    have hh := hq.holder t th hget hown
    simp only [HolderSeq, hpc] at hh
    cases k with
    | zero =>
      simp [stepThr, hpc] at h; subst h
      exact seq_holder hq hget hown rfl ⟨rfl, rfl⟩ hown hq.ok (by simp [reach]) (by simp only [HolderSeq, Sys.upd]; exact hh)
    | succ k =>
      simp [stepThr, hpc] at h; subst h
      exact seq_holder hq hget hown rfl ⟨rfl, rfl⟩ hown hq.ok (by simp [reach]) (by simp only [HolderSeq, Sys.upd]; exact hh)
  | send =>
    rw [hpc] at hown; simp [inLock] at hown
    have hh := hq.holder t th hget hown
    simp only [HolderSeq, hpc] at hh
    simp [stepThr, hpc] at h; subst h
    refine seq_holder hq hget hown rfl ⟨rfl, rfl⟩ hown ?_ (by simp [reach]) ?_
    · simp only [Sys.upd, rqOk, hq.ok, Bool.and_true, bne_iff_ne, ne_eq]
      intro hx
      exact hh.2 _ hx rfl
    · simp only [HolderSeq, Sys.upd, lastRq]
      intro r hr
      injection hr with hr
      rw [← hr, hh.1]
  | recv =>
    rw [hpc] at hown; simp [inLock] at hown
    have hh := hq.holder t th hget hown
    simp only [HolderSeq, hpc] at hh
    simp only [stepThr, hpc] at h
    cases hqq : s.q with
    | cons r q' =>
      by_cases hm : r.rq = th.hdr ∧ r.cmd = th.cmd
      · simp [hqq, hm] at h; subst h
        exact seq_holder hq hget hown rfl ⟨rfl, rfl⟩ hown hq.ok (by simp [reach]) (by simp only [HolderSeq, Sys.upd]; exact hh)
      · simp [hqq, hm] at h; subst h
        exact seq_holder hq hget hown rfl ⟨rfl, rfl⟩ hown hq.ok (by simp [reach]) (by simp only [HolderSeq, Sys.upd]; exact hh)
    | nil =>
      cases hsk : s.sock with
      | cons r sk =>
        by_cases hm : r.rq = th.hdr ∧ r.cmd = th.cmd
        · simp [hqq, hsk, hm] at h; subst h
          exact seq_holder hq hget hown rfl ⟨rfl, rfl⟩ hown (by simp only [Sys.upd, rqOk]; exact hq.ok) (by simp [reach])
            (by simp only [HolderSeq, Sys.upd, lastRq]; exact hh)
        · simp [hqq, hsk, hm] at h; subst h
          exact seq_holder hq hget hown rfl ⟨rfl, rfl⟩ hown (by simp only [Sys.upd, rqOk]; exact hq.ok) (by simp [reach])
            (by simp only [HolderSeq, Sys.upd, lastRq]; exact hh)
      | nil =>
        -- the budget is 0: the time-out ends the loop
        simp [hqq, hsk, hq.noRetx] at h; subst h
        exact seq_holder hq hget hown rfl ⟨rfl, rfl⟩ hown (by simp only [Sys.upd, rqOk]; exact hq.ok) (by simp [reach])
          (by simp only [HolderSeq, Sys.upd, lastRq]; exact hh)
  | requeue =>
    rw [hpc] at hown; simp [inLock] at hown
    have hh := hq.holder t th hget hown
    simp only [HolderSeq, hpc] at hh
    simp [stepThr, hpc, hq.noRetx] at h; subst h
    exact seq_holder hq hget hown rfl ⟨rfl, rfl⟩ hown hq.ok (by simp [reach]) (by simp only [HolderSeq, Sys.upd]; exact hh)
  | release =>
    rw [hpc] at hown; simp [inLock] at hown
    have hh := hq.holder t th hget hown
    simp only [HolderSeq, hpc] at hh
    simp [stepThr, hpc] at h; subst h
    refine seq_frame hq hget rfl ⟨rfl, rfl⟩ hq.ok ?_ ?_ ?_ ?_
    · simp only [afterCall]; exact reach_nextPc _ _
    · intro _; exact hh
    · intro h; simp [Sys.upd] at h
    · intro t1 th1 _ _ h; simp [Sys.upd] at h

theorem step_seq {s s' : Sys} {t : Nat} (hi : Inv s) (hq : SeqInv s) (h : step s t = some s') : SeqInv s' := by
  unfold step at h
  cases hget : s.thr[t]? with
  | none => simp [hget] at h
  | some th => simp [hget] at h; exact stepThr_seq hi hq hget h

theorem run_seq {s : Sys} (hi : Inv s) (ht : Tear s) (hq : SeqInv s) (sched : List Nat) : SeqInv (run s sched) := by
  induction sched generalizing s with
  | nil => exact hq
  | cons t rest ih =>
    simp only [run, List.foldl_cons]
    cases hs : step s t with
    | none => exact ih hi ht hq
    | some s' => exact ih (step_inv hi ht hs).1 (step_inv hi ht hs).2 (step_seq hi hq hs)

theorem init_seq (c : Cfg) (hl : c.seqLocked = true) (hm : c.maxRetries = 0) : SeqInv (init c) := by
  constructor
  · exact hl
  · exact hm
  · rfl
  · intro _ r hr; simp [init, lastRq] at hr
  · intro t th _ h; simp [init] at h
  · intro t th hget
    rcases init_get hget with ⟨p, _, rfl⟩ | ⟨n, _, _, rfl⟩
    · simp only [initThr]
      split <;> simp only [] <;> split <;> simp
    · simp [initKa]

end PyIpmi.Threads
