/-
  Device path: `parseFruDevice v (encodeFru img ++ tail) = ok (view img without header)`;
  acceptance on the device path (`_read_fru_area` validating the length byte) implies, for every
  announced info area, declared length ≥ 1 unit, inside the storage, zero-sum over the declared
  span (`device_accept_area_span`).  Core only.
-/
import PyIpmi.Lemmas.FruLengthByte
import PyIpmi.Model.FruDevice
namespace PyIpmi.Fru
open PyIpmi PyIpmi.Gen

theorem devRead_middle (P A Q : List Nat) (h : A ≠ []) :
    devRead (P ++ (A ++ Q)) P.length A.length = .ok A := by
  have hl : A.length ≠ 0 := by
    intro h0; exact h (List.length_eq_zero_iff.mp h0)
  unfold devRead
  rw [if_neg hl, if_neg (by simp)]
  rw [List.drop_left' rfl, List.take_left' rfl]

/-- a shorter read at the start of the middle part -/
theorem devRead_prefix (P A Q : List Nat) (n : Nat) (hn : n ≠ 0) (hle : n ≤ A.length) :
    devRead (P ++ (A ++ Q)) P.length n = .ok (A.take n) := by
  unfold devRead
  rw [if_neg hn, if_neg (by simp; omega)]
  rw [List.drop_left' rfl, List.take_append_of_le_length hle]

theorem devArea_encode {α : Type} (v : Variant) (kind : AreaKind)
    (toArea : α → InfoArea) (b2 minutes : α → Nat) (o : Option α) (pre post : List Nat)
    (hpre : 0 < pre.length)
    (hwf : ∀ a, o = some a → (toArea a).wf = true)
    (hok : ∀ a, o = some a → (toArea a).okFor v .bytes = true)
    (hfit : ∀ a, o = some a → AreaFits kind (toArea a) (b2 a) (minutes a)) :
    devArea v kind (pre ++ (optBytes (fun a => encodeArea (toArea a)) o ++ post))
        (offOf o.isSome pre.length) =
      .ok (optSlot (fun a => viewArea (toArea a) (b2 a) (minutes a)) o) := by
  cases o with
  | none => simp [devArea, offOf, optSlot]
  | some a =>
    have hne : pre.length ≠ 0 := by omega
    have htot := (toArea a).total_pos
    have hlen := encodeArea_length (toArea a)
    simp only [devArea, offOf, Option.isSome_some, if_true, if_neg hne, optBytes, optSlot]
    rw [devRead_prefix _ _ _ 5 (by omega) (by omega)]
    simp only [Outcome.bind_ok]
    have h1 : ((encodeArea (toArea a)).take 5).getD 1 0 = (toArea a).total / 8 := by
      rw [List.getD_eq_getElem?_getD, List.getElem?_take_of_lt (by omega), encodeArea_getElem1]
      rfl
    rw [h1, (toArea a).total_div]
    have hnz : (!v.devLenLax && (toArea a).total == 0) = false := by
      have : ((toArea a).total == 0) = false := by simp; omega
      rw [this]; simp
    rw [hnz, ← hlen]
    simp only [Bool.false_eq_true, if_false]
    rw [devRead_middle _ _ _ (by intro h; rw [h] at hlen; simp at hlen; omega)]
    simp only [Outcome.bind_ok]
    have hok' := hok a rfl
    simp only [InfoArea.okFor, Bool.and_eq_true, List.all_eq_true] at hok'
    obtain ⟨f1, f2, f3⟩ := hfit a rfl
    have := parseArea_encode v .bytes kind (toArea a) [] (b2 a) (minutes a) (hwf a rfl) hok'.1 hok'.2 f1
      f2 f3
    rwa [List.append_nil] at this

theorem devMrLen_encode (rs : List Record) (hne : rs ≠ []) (store rest : List Nat) (fuel off count : Nat)
    (hfuel : rs.length ≤ fuel) (hd : store.drop off = encodeRecords rs ++ rest) :
    devMrLen fuel store off count = .ok (count + (encodeRecords rs).length) := by
  induction rs generalizing fuel off count with
  | nil => exact absurd rfl hne
  | cons r rs ih =>
    cases fuel with
    | zero => simp at hfuel
    | succ n =>
      have hoff : off ≤ store.length := by
        rcases Nat.le_total off store.length with h | h
        · exact h
        · rw [List.drop_eq_nil_of_le h] at hd
          have := congrArg List.length hd
          cases rs <;> simp [encodeRecords, encodeRecord_length] at this <;> omega
      have hlen : store.length - off = (encodeRecords (r :: rs) ++ rest).length := by
        rw [← hd, List.length_drop]
      -- the five header bytes of the first record
      have hread : ∀ last tail, store.drop off = encodeRecord r last ++ tail →
          devRead store off 5 = .ok [r.typeId, flagByte last, r.data.length, zeroSum r.data,
            zeroSum (r.hdr4 last)] := by
        intro last tail h
        have hl : 5 ≤ store.length - off := by
          rw [← List.length_drop, h, List.length_append, encodeRecord_length]; omega
        unfold devRead
        rw [if_neg (by omega), if_neg (by omega), h, encodeRecord_shape]
        rfl
      cases rs with
      | nil =>
        simp only [encodeRecords] at hd ⊢
        simp only [devMrLen, hread true rest hd, Outcome.bind_ok]
        simp [flagByte, encodeRecord_length]
      | cons r' rs' =>
        simp only [encodeRecords, List.append_assoc] at hd ⊢
        simp only [devMrLen, hread false _ hd, Outcome.bind_ok]
        have hnext : store.drop (off + (r.data.length + 5)) = encodeRecords (r' :: rs') ++ rest := by
          rw [← List.drop_drop, hd, ← encodeRecord_length r false, List.drop_left' rfl]
        have := ih (by simp) n (off + (r.data.length + 5)) (count + (r.data.length + 5))
          (by simp at hfuel ⊢; omega) hnext
        simp [flagByte, this, encodeRecord_length]
        omega

theorem devMulti_encode (v : Variant) (rs : List Record) (hwf : ∀ r ∈ rs, r.wf = true)
    (hok : ∀ r ∈ rs, r.okFor v = true) (pre tail : List Nat)
    (hpre : 0 < pre.length) :
    devMulti v (pre ++ (encodeRecords rs ++ tail)) (offOf (!rs.isEmpty) pre.length) =
      .ok (if rs.isEmpty then .absent else .parsed (viewRecords rs)) := by
  by_cases he : rs = []
  · simp [devMulti, offOf, he]
  · have hne : rs.isEmpty = false := by
      cases rs with
      | nil => exact absurd rfl he
      | cons _ _ => rfl
    have hp : pre.length ≠ 0 := by omega
    have hge := encodeRecords_length_ge rs
    simp only [devMulti, offOf, hne, Bool.not_false, if_true, if_neg hp, Bool.false_eq_true, if_false]
    rw [devMrLen_encode rs he _ tail _ pre.length 0 (by simp; omega) (List.drop_left' rfl)]
    simp only [Outcome.bind_ok, Nat.zero_add]
    rw [devRead_middle _ _ _ (encodeRecords_ne_nil rs he)]
    simp only [Outcome.bind_ok]
    have := parseMulti_encode v rs [] he hwf hok
    rwa [List.append_nil] at this

theorem parse_encode_device_gen (v : Variant) (img : FruImage) (tail : List Nat)
    (hwf : img.wf = true) (hok : img.okFor v .bytes = true) :
    parseFruDevice v (encodeFru img ++ tail) = .ok { view img with header := none } := by
  obtain ⟨wc, wb, wp, wr⟩ := wf_parts img hwf
  simp only [FruImage.okFor, Bool.and_eq_true, List.all_eq_true] at hok
  obtain ⟨⟨⟨okc, okb⟩, okp⟩, okr⟩ := hok
  have hHl := header_length img
  unfold parseFruDevice
  have hrd : devRead (encodeFru img ++ tail) 0 8 = .ok img.header := by
    have := devRead_prefix [] img.header
      (img.parts.iu ++ (img.parts.ch ++ (img.parts.bd ++ (img.parts.pr ++ img.parts.mr))) ++ tail) 8
      (by omega) (by omega)
    simp only [List.nil_append, List.length_nil] at this
    rw [← hHl, List.take_length] at this
    rw [← this, hHl]
    simp [encodeFru, List.append_assoc]
  rw [hrd]
  simp only [Outcome.bind_ok, parseHeader_header]
  have sc : devArea v .chassis (encodeFru img ++ tail) img.chOff =
      .ok (optSlot (fun c => viewArea c.toArea c.ctype 0) img.chassis) := by
    have := devArea_encode v .chassis Chassis.toArea Chassis.ctype (fun _ => 0) img.chassis
      (img.header ++ img.parts.iu) (img.parts.bd ++ (img.parts.pr ++ img.parts.mr) ++ tail)
      (by simp [hHl]; omega) wc
      (fun c e => by rw [e] at okc; simpa [optAll] using okc)
      (fun c _ => chassis_fits c)
    simpa [encodeFru, FruImage.chOff, FruImage.parts, hHl, List.append_assoc] using this
  have sb : devArea v .board (encodeFru img ++ tail) img.bdOff =
      .ok (optSlot (fun b => viewArea b.toArea b.lang b.minutes) img.board) := by
    have := devArea_encode v .board Board.toArea Board.lang Board.minutes img.board
      (img.header ++ img.parts.iu ++ img.parts.ch) (img.parts.pr ++ img.parts.mr ++ tail)
      (by simp [hHl]; omega) (fun b e => (wb b e).1)
      (fun b e => by rw [e] at okb; simpa [optAll] using okb)
      (fun b e => board_fits b (wb b e).2)
    simpa [encodeFru, FruImage.bdOff, FruImage.parts, hHl, List.append_assoc, Nat.add_assoc] using this
  have sp : devArea v .product (encodeFru img ++ tail) img.prOff =
      .ok (optSlot (fun p => viewArea p.toArea p.lang 0) img.product) := by
    have := devArea_encode v .product Product.toArea Product.lang (fun _ => 0) img.product
      (img.header ++ img.parts.iu ++ img.parts.ch ++ img.parts.bd) (img.parts.mr ++ tail)
      (by simp [hHl]; omega) wp
      (fun p e => by rw [e] at okp; simpa [optAll] using okp)
      (fun p _ => product_fits p)
    simpa [encodeFru, FruImage.prOff, FruImage.parts, hHl, List.append_assoc, Nat.add_assoc] using this
  have sm : devMulti v (encodeFru img ++ tail) img.mrOff =
      .ok (if img.records.isEmpty then .absent else .parsed (viewRecords img.records)) := by
    have := devMulti_encode v img.records wr okr
      (img.header ++ img.parts.iu ++ img.parts.ch ++ img.parts.bd ++ img.parts.pr) tail
      (by simp [hHl]; omega)
    simpa [encodeFru, FruImage.mrOff, FruImage.parts, hHl, List.append_assoc, Nat.add_assoc] using this
  simp only [sc, sb, sp, sm, Outcome.bind_ok, view, layout_encode img]
  simp

/-! ### acceptance on the device path -/

theorem devRead_ok (store : List Nat) (off count : Nat) (d : List Nat) (hc : count ≠ 0)
    (h : devRead store off count = .ok d) :
    off + count ≤ store.length ∧ d = (store.drop off).take count := by
  unfold devRead at h
  rw [if_neg hc] at h
  split at h
  · cases h
  · injection h with h
    exact ⟨by omega, h.symm⟩

theorem devArea_ok (v : Variant) (hv : v.devLenLax = false) (kind : AreaKind) (store : List Nat)
    (off : Nat) (hoff : off ≠ 0) (s : Slot AreaView) (h : devArea v kind store off = .ok s) :
    1 ≤ store.getD (off + 1) 0 ∧ off + 8 * store.getD (off + 1) 0 ≤ store.length ∧
    sum8 ((store.drop off).take (8 * store.getD (off + 1) 0)) = 0 := by
  unfold devArea at h
  rw [if_neg hoff] at h
  obtain ⟨d5, h5, h⟩ := ok_of_bind h
  obtain ⟨hl5, e5⟩ := devRead_ok _ _ _ _ (by decide) h5
  have hL : d5.getD 1 0 = store.getD (off + 1) 0 := by
    rw [e5]
    simp [List.getD_eq_getElem?_getD, List.getElem?_drop]
  rw [hL] at h
  split at h
  · cases h
  · rename_i hz
    have hnz : store.getD (off + 1) 0 * 8 ≠ 0 := by
      intro h0
      apply hz
      rw [hv, h0]; rfl
    obtain ⟨d, hd, h⟩ := ok_of_bind h
    obtain ⟨hl, ed⟩ := devRead_ok _ _ _ _ hnz hd
    have hc := parseArea_clamped _ _ _ _ _ h
    have hdl : d.length = store.getD (off + 1) 0 * 8 := by
      rw [ed, List.length_take, List.length_drop]; omega
    have hd1 : d.getD 1 0 = store.getD (off + 1) 0 := by
      rw [ed]
      have h1 : 1 < store.getD (off + 1) 0 * 8 := by omega
      rw [List.getD_eq_getElem?_getD, List.getElem?_take_of_lt h1, List.getElem?_drop,
        ← List.getD_eq_getElem?_getD]
    have hnn : d ≠ [] := by
      intro he; rw [he, List.length_nil] at hdl; omega
    rw [areaSumClamped_ne_nil _ hnn, hd1, beq_iff_eq] at hc
    have htake : d.take (8 * store.getD (off + 1) 0) = d := List.take_of_length_le (by omega)
    rw [htake, ed, Nat.mul_comm] at hc
    exact ⟨by omega, by omega, hc⟩

/-- `Ipmi.get_fru_inventory()` with `_read_fru_area` validating the length byte: whatever the
device stores, an accepted inventory means that every info area the header announces (byte `k`:
2 chassis, 3 board, 4 product) declares a length of at least one unit, lies inside the storage and
sums to zero over exactly the declared span. -/
theorem device_accept_area_span (v : Variant) (hv : v.devLenLax = false) (store : List Nat)
    (fv : FruView) (k : Nat) (hk : k = 2 ∨ k = 3 ∨ k = 4) (hoff : store.getD k 0 ≠ 0)
    (hp : parseFruDevice v store = .ok fv) :
    1 ≤ store.getD (8 * store.getD k 0 + 1) 0 ∧
    8 * store.getD k 0 + 8 * store.getD (8 * store.getD k 0 + 1) 0 ≤ store.length ∧
    sum8 ((store.drop (8 * store.getD k 0)).take (8 * store.getD (8 * store.getD k 0 + 1) 0)) = 0 := by
  unfold parseFruDevice at hp
  obtain ⟨h8, hr, hp⟩ := ok_of_bind hp
  obtain ⟨hl8, e8⟩ := devRead_ok _ _ _ _ (by decide) hr
  obtain ⟨hd, hhd, hp⟩ := ok_of_bind hp
  obtain ⟨c, hc, hp⟩ := ok_of_bind hp
  obtain ⟨b, hb, hp⟩ := ok_of_bind hp
  obtain ⟨p, hpr, _⟩ := ok_of_bind hp
  obtain ⟨_, _, o2, o3, o4, _⟩ := parseHeader_ok _ _ hhd
  rw [e8, List.drop_zero, getD_take _ _ _ (by omega)] at o2 o3 o4
  rcases hk with rfl | rfl | rfl
  · rw [o2, Nat.mul_comm] at hc
    exact devArea_ok v hv _ _ _ (by omega) _ hc
  · rw [o3, Nat.mul_comm] at hb
    exact devArea_ok v hv _ _ _ (by omega) _ hb
  · rw [o4, Nat.mul_comm] at hpr
    exact devArea_ok v hv _ _ _ (by omega) _ hpr

/-! ### fields confined and areas disjoint on the device path -/

/-- what `_read_fru_area` hands to the area class -/
theorem devArea_parse (v : Variant) (hv : v.devLenLax = false) (kind : AreaKind) (store : List Nat)
    (off : Nat) (hoff : off ≠ 0) (s : Slot AreaView) (h : devArea v kind store off = .ok s) :
    store.getD (off + 1) 0 * 8 ≠ 0 ∧ off + store.getD (off + 1) 0 * 8 ≤ store.length ∧
    parseArea v .bytes kind ((store.drop off).take (store.getD (off + 1) 0 * 8)) = .ok s := by
  unfold devArea at h
  rw [if_neg hoff] at h
  obtain ⟨d5, h5, h⟩ := ok_of_bind h
  obtain ⟨hl5, e5⟩ := devRead_ok _ _ _ _ (by decide) h5
  have hL : d5.getD 1 0 = store.getD (off + 1) 0 := by
    rw [e5]
    simp [List.getD_eq_getElem?_getD, List.getElem?_drop]
  rw [hL] at h
  split at h
  · cases h
  · rename_i hz
    have hnz : store.getD (off + 1) 0 * 8 ≠ 0 := by
      intro h0
      apply hz
      rw [hv, h0]; rfl
    obtain ⟨d, hd, h⟩ := ok_of_bind h
    obtain ⟨hl, ed⟩ := devRead_ok _ _ _ _ hnz hd
    rw [ed] at h
    exact ⟨hnz, hl, h⟩

theorem fieldsInside_take (k : Nat) (X : List Nat) (L : Nat) (hL : X.getD 1 0 = L) (h2 : 2 ≤ L * 8)
    (h : fieldsInside k (X.take (L * 8)) = true) : fieldsInside k X = true := by
  have h1 : (X.take (L * 8)).getD 1 0 = L := by rw [getD_take _ _ _ (by omega), hL]
  cases X with
  | nil => rfl
  | cons x t =>
    have hne : (x :: t).take (L * 8) ≠ [] := by
      intro he
      have := congrArg List.length he
      simp at this; omega
    cases hd : (x :: t).take (L * 8) with
    | nil => exact absurd hd hne
    | cons y u =>
      rw [hd] at h h1
      simp only [fieldsInside, fieldBytes, h1] at h
      simp only [fieldsInside, fieldBytes, hL]
      rw [← hd, List.take_take, Nat.mul_comm 8 L, Nat.min_eq_left (by omega)] at h
      rw [Nat.mul_comm 8 L]
      exact h

/-- `Ipmi.get_fru_inventory()` with `_read_fru_area` validating the length byte, the fields confined
and the layout checked: whatever the device stores, for every info area the header announces (byte
`k`: 2 chassis, 3 board, 4 product) the fields and the C1h marker lie inside the declared length and
no other area starts inside its span. -/
theorem device_accept_area_ok (v : Variant) (hv1 : v.devLenLax = false) (hv2 : v.fieldsLax = false)
    (hv3 : v.devOverlapLax = false) (store : List Nat)
    (fv : FruView) (k : Nat) (hk : k = 2 ∨ k = 3 ∨ k = 4) (hoff : store.getD k 0 ≠ 0)
    (hp : parseFruDevice v store = .ok fv) :
    fieldsInside k (areaAt store k) = true ∧
    ∀ j ∈ [1, 2, 3, 4, 5], j ≠ k → startOf store j ≠ 0 → startOf store k ≤ startOf store j →
      startOf store k + 8 * store.getD (8 * store.getD k 0 + 1) 0 ≤ startOf store j := by
  unfold parseFruDevice at hp
  obtain ⟨h8, hr, hp⟩ := ok_of_bind hp
  obtain ⟨hl8, e8⟩ := devRead_ok _ _ _ _ (by decide) hr
  obtain ⟨hd, hhd, hp⟩ := ok_of_bind hp
  obtain ⟨c, hc, hp⟩ := ok_of_bind hp
  obtain ⟨b, hb, hp⟩ := ok_of_bind hp
  obtain ⟨p, hpr, hp⟩ := ok_of_bind hp
  obtain ⟨m, hm, hp⟩ := ok_of_bind hp
  have hclash : layoutClash hd c b p m = false := by
    split at hp
    · cases hp
    · rename_i hn; simpa [hv3] using hn
  have ho := parseHeader_offs _ _ hhd
  have hst : ∀ i ∈ [1, 2, 3, 4, 5], hdrStart hd i = startOf store i := by
    intro i hi
    rw [ho i hi, e8, List.drop_zero, getD_take]
    · rfl
    · simp only [List.mem_cons, List.mem_nil_iff, or_false] at hi; omega
  have H := (layoutClash_eq_false hd c b p m).mp hclash
  -- one announced info area: its slot, parsed from exactly its declared bytes
  have key : ∀ (kind : AreaKind) (s : Slot AreaView), kind.idx = k →
      devArea v kind store (hdrStart hd k) = .ok s → slotLens c b p m k = areaLen s →
      fieldsInside k (areaAt store k) = true ∧
      ∀ j ∈ [1, 2, 3, 4, 5], j ≠ k → startOf store j ≠ 0 → startOf store k ≤ startOf store j →
        startOf store k + 8 * store.getD (8 * store.getD k 0 + 1) 0 ≤ startOf store j := by
    intro kind s hidx hdev hlen
    have hkm : k ∈ [1, 2, 3, 4, 5] := by rcases hk with h | h | h <;> simp [h]
    have hsk := hst k hkm
    rw [hsk] at hdev
    have hne : startOf store k ≠ 0 := by simp only [startOf]; omega
    obtain ⟨hnz, hin, hpa⟩ := devArea_parse v hv1 kind store _ hne s hdev
    simp only [startOf] at hnz hin hpa
    have hg1 : (store.drop (8 * store.getD k 0)).getD 1 0 = store.getD (8 * store.getD k 0 + 1) 0 := by
      simp [List.getD_eq_getElem?_getD, List.getElem?_drop]
    have hg1' : ((store.drop (8 * store.getD k 0)).take (store.getD (8 * store.getD k 0 + 1) 0 * 8)).getD 1 0 =
        store.getD (8 * store.getD k 0 + 1) 0 := by
      rw [getD_take _ _ _ (by omega), hg1]
    constructor
    · have hf := parseArea_fields' v hv2 .bytes kind _ (by rw [hg1']; exact hnz) s hpa
      rw [hidx] at hf
      exact fieldsInside_take k _ _ hg1 (by omega) hf
    · intro j hj hjk hsj hle
      have hl := parseArea_len v .bytes kind _ s hpa
      rw [hg1'] at hl
      have := H k hkm j hj (fun h => hjk h.symm)
      rw [hst k hkm, hst j hj, hlen, hl] at this
      exact this hne hsj hle
  rcases hk with rfl | rfl | rfl
  · exact key .chassis c rfl hc rfl
  · exact key .board b rfl hb rfl
  · exact key .product p rfl hpr rfl

theorem device_accept_fields (v : Variant) (hv1 : v.devLenLax = false) (hv2 : v.fieldsLax = false)
    (hv3 : v.devOverlapLax = false) (store : List Nat) (fv : FruView)
    (hp : parseFruDevice v store = .ok fv) : fieldsOk store = true := by
  have key : ∀ k, (k = 2 ∨ k = 3 ∨ k = 4) → (store.getD k 0 == 0 || fieldsInside k (areaAt store k)) = true := by
    intro k hk
    by_cases h0 : store.getD k 0 = 0
    · rw [h0]; rfl
    · simp only [Bool.or_eq_true]
      right
      exact (device_accept_area_ok v hv1 hv2 hv3 store fv k hk h0 hp).1
  simp only [fieldsOk, Bool.and_eq_true]
  exact ⟨⟨key 2 (Or.inl rfl), key 3 (Or.inr (Or.inl rfl))⟩, key 4 (Or.inr (Or.inr rfl))⟩

theorem device_accept_spans_free (v : Variant) (hv1 : v.devLenLax = false) (hv2 : v.fieldsLax = false)
    (hv3 : v.devOverlapLax = false) (store : List Nat) (fv : FruView)
    (hp : parseFruDevice v store = .ok fv) : InfoSpansFree store := by
  intro k hk hne
  exact (device_accept_area_ok v hv1 hv2 hv3 store fv k hk hne hp).2

end PyIpmi.Fru
