/-
  C14 — session teardown completes: the invariant behind "when the closing thread has finished,
  Close Session is on the wire and the session is deactivated", and its preservation.
  (Safety of the teardown is `Tear`; this file adds what a finished `close_session` has achieved.)
-/
import PyIpmi.Lemmas.ThreadsStep
namespace PyIpmi.Threads
open PyIpmi.Spec.Threads

/-- program points of a call after its datagram has been transmitted, and the store that follows
the Close Session call -/
def sentPc : PC → Bool
  | .recv | .requeue | .release | .actStore => true
  | _ => false

structure Close (s : Sys) : Prop where
  /-- while the closing thread makes its own calls, Close Session is still to come -/
  busy : ∀ (t : Nat) (th : Thr), s.thr[t]? = some th → th.kind = .closer → th.closing = false →
      plain th.pc = true → 2 ≤ th.todo
  /-- the call the closing thread makes after the stopper is Close Session -/
  cmdClose : ∀ (t : Nat) (th : Thr), s.thr[t]? = some th → th.closing = true → plain th.pc = true →
      th.cmd = closeCmd
  sent : ∀ (t : Nat) (th : Thr), s.thr[t]? = some th → th.closing = true → sentPc th.pc = true →
      (monOf s.wire).closed = true
  /-- the closing thread finishes only by deactivating the session — or with a call that failed -/
  doneDeact : ∀ (t : Nat) (th : Thr), s.thr[t]? = some th → th.kind = .closer → th.pc = .done →
      (s.activated = false ∨ ∃ r ∈ th.results, r.isOk = false) ∧ (monOf s.wire).closed = true ∧ th.closing = true
  /-- the session is deactivated only after Close Session has been transmitted -/
  deactClosed : s.activated = false → (monOf s.wire).closed = true

theorem close_frame {s s' : Sys} {t : Nat} {th th' : Thr} (hc : Close s) (hget : s.thr[t]? = some th)
    (hthr : s'.thr = s.thr.set t th')
    (hact : s.activated = false → s'.activated = false)
    (hclm : (monOf s.wire).closed = true → (monOf s'.wire).closed = true)
    (hbusy : th'.kind = .closer → th'.closing = false → plain th'.pc = true → 2 ≤ th'.todo)
    (hcmd : th'.closing = true → plain th'.pc = true → th'.cmd = closeCmd)
    (hsent : th'.closing = true → sentPc th'.pc = true → (monOf s'.wire).closed = true)
    (hdone : th'.kind = .closer → th'.pc = .done →
      (s'.activated = false ∨ ∃ r ∈ th'.results, r.isOk = false) ∧ (monOf s'.wire).closed = true ∧
        th'.closing = true)
    (hdc : s'.activated = false → (monOf s'.wire).closed = true) : Close s' := by
  constructor
  · intro t1 th1 h1 a b c
    rw [hthr] at h1
    rcases get_set_cases hget h1 with ⟨rfl, rfl⟩ | ⟨_, g1⟩
    · exact hbusy a b c
    · exact hc.busy _ _ g1 a b c
  · intro t1 th1 h1 a b
    rw [hthr] at h1
    rcases get_set_cases hget h1 with ⟨rfl, rfl⟩ | ⟨_, g1⟩
    · exact hcmd a b
    · exact hc.cmdClose _ _ g1 a b
  · intro t1 th1 h1 a b
    rw [hthr] at h1
    rcases get_set_cases hget h1 with ⟨rfl, rfl⟩ | ⟨_, g1⟩
    · exact hsent a b
    · exact hclm (hc.sent _ _ g1 a b)
  · intro t1 th1 h1 a b
    rw [hthr] at h1
    rcases get_set_cases hget h1 with ⟨rfl, rfl⟩ | ⟨_, g1⟩
    · exact hdone a b
    · exact ⟨(hc.doneDeact _ _ g1 a b).1.imp hact id, hclm (hc.doneDeact _ _ g1 a b).2.1,
        (hc.doneDeact _ _ g1 a b).2.2⟩
  · exact hdc

/-- A step along the call path that keeps kind, `closing`, command and `todo`. -/
theorem close_plain {s s' : Sys} {t : Nat} {th th' : Thr} (hc : Close s) (hget : s.thr[t]? = some th)
    (hthr : s'.thr = s.thr.set t th') (hact : s'.activated = s.activated)
    (hclm : (monOf s.wire).closed = true → (monOf s'.wire).closed = true)
    (hkind : th'.kind = th.kind) (hclosing : th'.closing = th.closing) (hcmd : th'.cmd = th.cmd)
    (htodo : th'.todo = th.todo) (hp : plain th.pc = true) (hp' : plain th'.pc = true)
    (hsent : th.closing = true → sentPc th'.pc = true → sentPc th.pc = true ∨ (monOf s'.wire).closed = true) :
    Close s' := by
  refine close_frame hc hget hthr (by rw [hact]; exact id) hclm ?_ ?_ ?_ ?_ ?_
  · intro a b _
    rw [htodo]; rw [hkind] at a; rw [hclosing] at b
    exact hc.busy _ _ hget a b hp
  · intro a _
    rw [hcmd]; rw [hclosing] at a
    exact hc.cmdClose _ _ hget a hp
  · intro a b
    rw [hclosing] at a
    rcases hsent a b with h | h
    · exact hclm (hc.sent _ _ hget a h)
    · exact h
  · intro _ b
    rw [b] at hp'; cases hp'
  · intro a
    rw [hact] at a
    exact hclm (hc.deactClosed a)

theorem stepThr_close {s s' : Sys} {t : Nat} {th : Thr} (_hi : Inv s) (ht : Tear s) (hc : Close s)
    (hget : s.thr[t]? = some th) (h : stepThr s t th = some s') : Close s' := by
  cases hpc : th.pc with
  | idle =>
    cases hsl : s.seqLocked with
    | false =>
      simp [stepThr, hpc, hsl] at h; subst h
      exact close_plain hc hget rfl rfl id rfl rfl rfl rfl (by rw [hpc]; rfl) rfl (by intro _ h; cases h)
    | true =>
      cases hl : s.lock with
      | some x => simp [stepThr, hpc, hsl, hl] at h
      | none =>
        simp [stepThr, hpc, hsl, hl] at h; subst h
        exact close_plain hc hget rfl rfl id rfl rfl rfl rfl (by rw [hpc]; rfl) rfl (by intro _ h; cases h)
  | lkLoad =>
    simp [stepThr, hpc] at h; subst h
    exact close_plain hc hget rfl rfl id rfl rfl rfl rfl (by rw [hpc]; rfl) rfl (by intro _ h; cases h)
  | lkStore =>
    simp [stepThr, hpc] at h; subst h
    exact close_plain hc hget rfl rfl id rfl rfl rfl rfl (by rw [hpc]; rfl) rfl (by intro _ h; cases h)
  | lkHdr =>
    simp [stepThr, hpc] at h; subst h
    exact close_plain hc hget rfl rfl id rfl rfl rfl rfl (by rw [hpc]; rfl) rfl (by intro _ h; cases h)
  | incStore =>
    simp [stepThr, hpc] at h; subst h
    exact close_plain hc hget rfl rfl id rfl rfl rfl rfl (by rw [hpc]; rfl) rfl (by intro _ h; cases h)
  | hdrLoad =>
    simp [stepThr, hpc] at h; subst h
    exact close_plain hc hget rfl rfl id rfl rfl rfl rfl (by rw [hpc]; rfl) rfl (by intro _ h; cases h)
  | acquire =>
    cases hl : s.lock with
    | some x => simp [stepThr, hpc, hl] at h
    | none =>
      simp [stepThr, hpc, hl] at h; subst h
      exact close_plain hc hget rfl rfl id rfl rfl rfl rfl (by rw [hpc]; rfl) rfl (by intro _ h; cases h)
  | actLoad =>
    simp [stepThr, hpc] at h; subst h
    refine close_plain hc hget rfl rfl id rfl rfl rfl rfl (by rw [hpc]; rfl) ?_ ?_
    · simp only []; split <;> rfl
    · intro _ h; simp only [] at h; split at h <;> cases h
  | ssLoad =>
    simp [stepThr, hpc] at h; subst h
    exact close_plain hc hget rfl rfl id rfl rfl rfl rfl (by rw [hpc]; rfl) rfl (by intro _ h; cases h)
  | ssStore =>
    simp [stepThr, hpc] at h; subst h
    exact close_plain hc hget rfl rfl id rfl rfl rfl rfl (by rw [hpc]; rfl) rfl (by intro _ h; cases h)
  | ssChk =>
    simp [stepThr, hpc] at h; subst h
    refine close_plain hc hget rfl rfl id rfl rfl rfl rfl (by rw [hpc]; rfl) ?_ ?_
    · simp only []; split <;> rfl
    · intro _ h; simp only [] at h; split at h <;> cases h
  | ssWrap =>
    simp [stepThr, hpc] at h; subst h
    exact close_plain hc hget rfl rfl id rfl rfl rfl rfl (by rw [hpc]; rfl) rfl (by intro _ h; cases h)
  | ssHdr k =>
    cases k with
    | zero =>
      simp [stepThr, hpc] at h; subst h
      exact close_plain hc hget rfl rfl id rfl rfl rfl rfl (by rw [hpc]; rfl) rfl (by intro _ h; cases h)
    | succ k =>
      simp [stepThr, hpc] at h; subst h
      exact close_plain hc hget rfl rfl id rfl rfl rfl rfl (by rw [hpc]; rfl) rfl (by intro _ h; cases h)
  | send =>
    simp [stepThr, hpc] at h; subst h
    refine close_plain hc hget rfl rfl ?_ rfl rfl rfl rfl (by rw [hpc]; rfl) rfl ?_
    · intro h; simp [Sys.upd, Mon.step, h]
    · intro hcl _
      refine Or.inr ?_
      have := hc.cmdClose _ _ hget hcl (by rw [hpc]; rfl)
      simp [Sys.upd, Mon.step, this]
  | recv =>
    simp only [stepThr, hpc] at h
    cases hq : s.q with
    | cons r q' =>
      simp [hq] at h; subst h
      refine close_plain hc hget rfl rfl id rfl rfl rfl rfl (by rw [hpc]; rfl) ?_ ?_
      · simp only []; split <;> rfl
      · intro _ _; exact Or.inl (by rw [hpc]; rfl)
    | nil =>
      cases hsk : s.sock with
      | cons r sk =>
        simp [hq, hsk] at h; subst h
        refine close_plain hc hget rfl rfl ?_ rfl rfl rfl rfl (by rw [hpc]; rfl) ?_ ?_
        · intro h; simp [Sys.upd, Mon.step, h]
        · simp only []; split <;> rfl
        · intro _ _; exact Or.inl (by rw [hpc]; rfl)
      | nil =>
        simp [hq, hsk] at h; subst h
        refine close_plain hc hget rfl rfl ?_ rfl rfl rfl rfl (by rw [hpc]; rfl) ?_ ?_
        · intro h; simp [Sys.upd, Mon.step, h]
        · simp only []; (repeat' split) <;> rfl
        · intro _ _; exact Or.inl (by rw [hpc]; rfl)
  | requeue =>
    simp [stepThr, hpc] at h; subst h
    refine close_plain hc hget rfl rfl id rfl rfl rfl rfl (by rw [hpc]; rfl) ?_
      (fun _ _ => Or.inl (by rw [hpc]; rfl))
    simp only []; split <;> rfl
  | release =>
    suffices key : ∀ res : CallRes, Close ({ s with lock := none }.upd t (afterCall th res)) by
      simp [stepThr, hpc] at h; subst h; exact key _
    intro res
    refine close_frame hc hget rfl id id ?_ ?_ ?_ ?_ hc.deactClosed
    · intro a b c
      have a' : th.kind = .closer := a
      have b' : th.closing = false := b
      have h2 := hc.busy _ _ hget a' b' (by rw [hpc]; rfl)
      simp only [afterCall, nextPc, a', b'] at c ⊢
      have e0 : ¬ (th.todo - 1 = 0) := by omega
      rw [if_neg (by simp)]
      rw [if_neg (by simp), if_neg e0] at c
      by_cases e1 : th.todo - 1 = 1
      · rw [if_pos e1] at c; cases c
      · omega
    · intro a b
      have a' : th.closing = true := a
      have hk := ht.closingKind _ _ hget a'
      simp only [afterCall, nextPc, hk, a', if_true] at b
      split at b <;> cases b
    · intro a b
      have a' : th.closing = true := a
      exact hc.sent _ _ hget a' (by rw [hpc]; rfl)
    · intro a b
      have a' : th.kind = .closer := a
      simp only [afterCall, nextPc, a'] at b
      by_cases hcl : th.closing = true
      · rw [if_pos hcl] at b
        refine ⟨Or.inr ⟨res, by simp [afterCall], ?_⟩, hc.sent _ _ hget hcl (by rw [hpc]; rfl), hcl⟩
        cases hok : res.isOk with
        | false => rfl
        | true => rw [hok] at b; cases b
      · have hcl' : th.closing = false := by simpa using hcl
        have h2 := hc.busy _ _ hget a' hcl' (by rw [hpc]; rfl)
        rw [if_neg hcl, if_neg (by omega)] at b
        split at b <;> cases b
  | kaWait =>
    have hka := ht.kaPc _ _ hget hpc
    have hncl : th.closing = false := by
      cases hx : th.closing with
      | false => rfl
      | true => have := ht.closingKind _ _ hget hx; rw [hka] at this; cases this
    simp only [stepThr, hpc] at h
    split at h
    · simp at h; subst h
      refine close_frame hc hget rfl id id ?_ ?_ ?_ ?_ hc.deactClosed
      · intro a; rw [hka] at a; cases a
      · intro a; rw [hncl] at a; cases a
      · intro a; rw [hncl] at a; cases a
      · intro a; rw [hka] at a; cases a
    · split at h
      · cases h
      · simp at h; subst h
        refine close_frame hc hget rfl id id ?_ ?_ ?_ ?_ hc.deactClosed
        · intro a; rw [hka] at a; cases a
        · intro a; rw [hncl] at a; cases a
        · intro a; rw [hncl] at a; cases a
        · intro a; rw [hka] at a; cases a
  | await =>
    simp only [stepThr, hpc] at h
    split at h
    · simp at h; subst h
      refine close_frame hc hget rfl id id ?_ ?_ ?_ ?_ hc.deactClosed
      · intro _ _ c; split at c <;> cases c
      · intro _ c; split at c <;> cases c
      · intro _ c; split at c <;> cases c
      · intro _ c; split at c <;> cases c
    · cases h
  | stopSet =>
    simp [stepThr, hpc] at h; subst h
    refine close_frame hc hget rfl id id ?_ ?_ ?_ ?_ hc.deactClosed
    · intro _ _ c; split at c <;> cases c
    · intro _ c; split at c <;> cases c
    · intro _ c; split at c <;> cases c
    · intro _ c; split at c <;> cases c
  | joinKa =>
    simp only [stepThr, hpc] at h
    split at h
    · simp at h; subst h
      refine close_frame hc hget rfl id id ?_ ?_ ?_ ?_ hc.deactClosed
      · intro _ _ c; cases c
      · intro _ c; cases c
      · intro _ c; cases c
      · intro _ c; cases c
    · cases h
  | chkAct =>
    have hcl : th.closing = true := ht.lateClosing _ _ hget (by rw [hpc]; rfl)
    simp [stepThr, hpc] at h; subst h
    refine close_frame hc hget rfl id id ?_ ?_ ?_ ?_ hc.deactClosed
    · intro _ b _
      split at b <;> simp [hcl] at b
    · intro _ b
      split
      · rfl
      · split at b <;> simp_all [plain]
    · intro _ b; split at b <;> cases b
    · intro _ b
      split at b
      · cases b
      · rename_i hna
        have : s.activated = false := by simpa using hna
        exact ⟨Or.inl this, hc.deactClosed this, by rw [if_neg hna]; exact hcl⟩
  | actStore =>
    have hcl : th.closing = true := ht.lateClosing _ _ hget (by rw [hpc]; rfl)
    have hcd := hc.sent _ _ hget hcl (by rw [hpc]; rfl)
    simp [stepThr, hpc] at h; subst h
    refine close_frame hc hget rfl (fun _ => rfl) id ?_ ?_ ?_ (fun _ _ => ⟨Or.inl rfl, hcd, hcl⟩) (fun _ => hcd)
    · intro _ _ c; cases c
    · intro _ c; cases c
    · intro _ c; cases c
  | done => simp [stepThr, hpc] at h

theorem init_close (c : Cfg) : Close (init c) := by
  constructor
  · intro t th hget hk _ hp
    rcases init_get hget with ⟨p, _, rfl⟩ | ⟨n, _, _, rfl⟩
    · by_cases hcl : c.closer = some t
      · simp only [initThr, hcl, if_true] at hp ⊢
        by_cases h0 : p.1 = 0
        · simp [h0, plain] at hp
        · omega
      · simp [initThr, hcl] at hk
    · cases hk
  · intro t th hget hcl
    rcases init_get hget with ⟨p, _, rfl⟩ | ⟨n, _, _, rfl⟩
    · simp only [initThr] at hcl; split at hcl <;> cases hcl
    · cases hcl
  · intro t th hget hcl
    rcases init_get hget with ⟨p, _, rfl⟩ | ⟨n, _, _, rfl⟩
    · simp only [initThr] at hcl; split at hcl <;> cases hcl
    · cases hcl
  · intro t th hget hk hd
    rcases init_get hget with ⟨p, _, rfl⟩ | ⟨n, _, _, rfl⟩
    · by_cases hcl : c.closer = some t
      · simp only [initThr, hcl, if_true] at hd
        split at hd <;> cases hd
      · simp [initThr, hcl] at hk
    · cases hk
  · intro h; cases h

end PyIpmi.Threads
