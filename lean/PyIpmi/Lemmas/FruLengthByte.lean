/-
  The info-area LENGTH byte of an encoded image, altered – what the repaired reader (length byte
  validated, fields confined, layout checked) still accepts:

  * `alter_length_need`       only a length that leaves room for everything the area holds (version, length, fixed
                              bytes, fields, C1h, checksum): `need ≤ 8·b'` – a SHORTENED length is rejected as
                              soon as a field, the end marker or the checksum position would fall outside
  * `alter_length_not_longer` given exactly the image (bytes / array / file): never a LENGTHENED one – the longer span
                              either runs over the start of the area that follows or behind the end of the image
  * `alter_length_free`       whatever follows the image (device storage): no other area starts inside the new span
  Core only.
-/
import PyIpmi.Lemmas.FruConfined
namespace PyIpmi.Fru
open PyIpmi PyIpmi.Gen

/-! ### the field walk of the specification on a prefix of an encoded field list -/

theorem encodeField_mod (f : Field) (h : f.wf = true) :
    (f.typeCode * 64 + f.payload.length) % 64 = f.payload.length := by
  have := f.payload_le h
  omega

theorem skipFields_take_encode (fs : List Field) (X : List Nat) (m : Nat) (hwf : ∀ f ∈ fs, f.wf = true)
    (r : List Nat) (h : skipFields fs.length ((encodeFields fs ++ X).take m) = some r) :
    (encodeFields fs).length ≤ m ∧ r = X.take (m - (encodeFields fs).length) := by
  induction fs generalizing m with
  | nil =>
    simp only [List.length_nil, skipFields, encodeFields, List.nil_append] at h
    injection h with h
    exact ⟨Nat.zero_le _, by simp [encodeFields, h]⟩
  | cons f fs ih =>
    have hf := hwf f (by simp)
    have hmod := encodeField_mod f hf
    cases m with
    | zero => simp [skipFields] at h
    | succ m =>
      simp only [encodeFields, encodeField, List.cons_append, List.append_assoc, List.take_succ_cons,
        List.length_cons, skipFields, hmod] at h
      split at h
      · cases h
      · rename_i hlen
        rw [List.length_take, List.length_append] at hlen
        rw [List.drop_take, List.drop_left' rfl] at h
        obtain ⟨h1, h2⟩ := ih (m - f.payload.length) (fun g hg => hwf g (by simp [hg])) h
        simp only [encodeFields, encodeField, List.length_append, List.length_cons]
        refine ⟨by omega, ?_⟩
        rw [h2]
        congr 1
        omega

theorem endMarkerIn_take_encode (cs : List Field) (X : List Nat) (m fuel : Nat)
    (hwf : ∀ f ∈ cs, f.wf = true)
    (h : endMarkerIn fuel ((encodeFields cs ++ endOfFields :: X).take m) = true) :
    (encodeFields cs).length < m := by
  induction cs generalizing m fuel with
  | nil =>
    cases m with
    | zero => cases fuel <;> simp [endMarkerIn] at h
    | succ m => simp [encodeFields]
  | cons f cs ih =>
    have hf := hwf f (by simp)
    have hmod := encodeField_mod f hf
    have hne := encodeField_head_ne f hf
    cases m with
    | zero => cases fuel <;> simp [endMarkerIn] at h
    | succ m =>
      cases fuel with
      | zero => simp [endMarkerIn] at h
      | succ fuel =>
        simp only [encodeFields, encodeField, List.cons_append, List.append_assoc, List.take_succ_cons,
          endMarkerIn, hmod, Bool.or_eq_true, beq_iff_eq, Bool.and_eq_true, decide_eq_true_eq] at h
        rcases h with h | ⟨hlen, h⟩
        · exact absurd h hne
        · rw [List.length_take, List.length_append] at hlen
          rw [List.drop_take, List.drop_left' rfl] at h
          have := ih (m - f.payload.length) fuel (fun g hg => hwf g (by simp [hg])) h
          simp only [encodeFields, encodeField, List.length_append, List.length_cons]
          omega

/-- an encoded area whose length byte was overwritten, followed by anything -/
theorem altered_shape (a : InfoArea) (b' : Nat) (Q : List Nat) :
    (encodeArea a).set 1 b' ++ Q = 1 :: b' :: (a.pre ++ (encodeFields a.fields ++
      (encodeFields a.custom ++ endOfFields ::
        (List.replicate a.padLen 0 ++ zeroSum a.noCk :: Q)))) := by
  have := encodeArea_shape a []
  rw [List.append_nil] at this
  rw [this]
  simp

theorem InfoArea.need_eq (a : InfoArea) :
    a.need = a.pre.length + (encodeFields a.fields).length + (encodeFields a.custom).length + 4 := by
  simp [InfoArea.need, InfoArea.body]
  omega

/-- the fields of the altered area are inside the new length only if the new length is at least
what the area needs -/
theorem fieldsInside_altered (a : InfoArea) (hwf : a.wf = true) (k : Nat)
    (hfirst : firstFieldAt k = 2 + a.pre.length) (hn : a.fields.length = predefined k)
    (b' : Nat) (Q : List Nat)
    (h : fieldsInside k ((encodeArea a).set 1 b' ++ Q) = true) : a.need ≤ 8 * b' := by
  simp only [InfoArea.wf, Bool.and_eq_true, List.all_eq_true] at hwf
  obtain ⟨⟨⟨_, hwf_f⟩, hwf_c⟩, _⟩ := hwf
  rw [altered_shape] at h
  simp only [fieldsInside, fieldBytes, List.getD_cons_succ, List.getD_cons_zero, hfirst] at h
  rw [List.drop_take] at h
  rw [show 2 + a.pre.length = a.pre.length + 1 + 1 from by omega] at h
  simp only [List.drop_succ_cons, List.drop_left' rfl] at h
  rw [← hn] at h
  split at h
  · cases h
  · rename_i r hr
    obtain ⟨h1, h2⟩ := skipFields_take_encode a.fields _ _ hwf_f r hr
    rw [h2] at h
    have h3 := endMarkerIn_take_encode a.custom _ _ _ hwf_c h
    rw [a.need_eq]
    omega

/-! ### locating the area of a length byte inside the encoded image -/

/-- everything the alteration theorems need to know about the info area whose length byte is at `i` -/
structure LenByteAt (img : FruImage) (i : Nat) where
  k : Nat
  a : InfoArea
  P : List Nat
  Q : List Nat
  hk : k = 2 ∨ k = 3 ∨ k = 4
  split : encodeFru img = P ++ (encodeArea a ++ Q)
  pos : i = P.length + 1
  p8 : 8 ≤ P.length
  hdr : P.take 8 = img.header
  off : 8 * img.header.getD k 0 = P.length
  wf : a.wf = true
  first : firstFieldAt k = 2 + a.pre.length
  nf : a.fields.length = predefined k
  need : lengthByteNeed img i = a.need
  /-- the image ends with this area, or another area starts right behind it -/
  next : Q = [] ∨ ∃ j ∈ [1, 2, 3, 4, 5], j ≠ k ∧ 8 * img.header.getD j 0 = P.length + a.total

theorem header_getD1 (img : FruImage) : img.header.getD 1 0 = img.iuOff / 8 := by
  simp [FruImage.header, FruImage.header7]

theorem lenByteAt (img : FruImage) (hwf : img.wf = true) (i : Nat) (hlb : isAreaLengthByte img i = true) :
    Nonempty (LenByteAt img i) := by
  obtain ⟨wc, wb, wp, wr⟩ := wf_parts img hwf
  obtain ⟨g2, g3, g4, g5⟩ := header_getD img
  obtain ⟨_, m2, m3, m4, m5⟩ := offs_mul img
  obtain ⟨f1, f2, f3, f4, f5⟩ := off_facts img
  have hHl := header_length img
  by_cases hc : img.chOff ≠ 0 ∧ i = img.chOff + 1
  · obtain ⟨h0, hi⟩ := hc
    obtain ⟨hs, hoff⟩ := offOf_ne_zero (p := img.chassis.isSome) h0
    obtain ⟨c, hcs⟩ := Option.isSome_iff_exists.mp hs
    have hch : img.parts.ch = encodeArea c.toArea := by simp [FruImage.parts, hcs, optBytes]
    have hlen : img.parts.ch.length = c.toArea.total := by rw [hch, encodeArea_length]
    have hPl : (img.header ++ img.parts.iu).length = img.chOff := by
      simp only [FruImage.chOff] at hoff ⊢; simp [hHl, hoff]
    refine ⟨{ k := 2, a := c.toArea, P := img.header ++ img.parts.iu,
              Q := img.parts.bd ++ (img.parts.pr ++ img.parts.mr), hk := Or.inl rfl, split := ?_, pos := ?_,
              p8 := ?_, hdr := ?_, off := ?_, wf := wc c hcs, first := rfl, nf := rfl, need := ?_, next := ?_ }⟩
    · simp [encodeFru, hch]
    · omega
    · simp [hHl]
    · rw [← hHl, List.take_left' rfl]
    · rw [g2, hPl]; exact mul_div_off _ m2
    · unfold lengthByteNeed; rw [if_pos ⟨h0, hi⟩, hcs]; rfl
    · rw [hPl]
      have e3 := mul_div_off _ m3; have e4 := mul_div_off _ m4; have e5 := mul_div_off _ m5
      rcases f3 with ⟨_, b0⟩ | ⟨bo, _⟩
      · rcases f4 with ⟨_, p0⟩ | ⟨po, _⟩
        · rcases f5 with ⟨_, r0⟩ | ⟨ro, _⟩
          · left
            rw [List.eq_nil_iff_length_eq_zero]
            simp only [List.length_append]; omega
          · right; exact ⟨5, by simp, by decide, by rw [g5]; omega⟩
        · right; exact ⟨4, by simp, by decide, by rw [g4]; omega⟩
      · right; exact ⟨3, by simp, by decide, by rw [g3]; omega⟩
  · by_cases hb : img.bdOff ≠ 0 ∧ i = img.bdOff + 1
    · obtain ⟨h0, hi⟩ := hb
      obtain ⟨hs, hoff⟩ := offOf_ne_zero (p := img.board.isSome) h0
      obtain ⟨c, hcs⟩ := Option.isSome_iff_exists.mp hs
      have hch : img.parts.bd = encodeArea c.toArea := by simp [FruImage.parts, hcs, optBytes]
      have hlen : img.parts.bd.length = c.toArea.total := by rw [hch, encodeArea_length]
      have hPl : (img.header ++ (img.parts.iu ++ img.parts.ch)).length = img.bdOff := by
        simp only [FruImage.bdOff] at hoff ⊢; simp [hHl, hoff]; omega
      refine ⟨{ k := 3, a := c.toArea, P := img.header ++ (img.parts.iu ++ img.parts.ch),
                Q := img.parts.pr ++ img.parts.mr, hk := Or.inr (Or.inl rfl), split := ?_, pos := ?_,
                p8 := ?_, hdr := ?_, off := ?_, wf := (wb c hcs).1, first := ?_, nf := rfl, need := ?_,
                next := ?_ }⟩
      · simp [encodeFru, hch]
      · omega
      · simp [hHl]
      · rw [← hHl, List.take_append_of_le_length (Nat.le_refl _), List.take_length]
      · rw [g3, hPl]; exact mul_div_off _ m3
      · simp [firstFieldAt, Board.toArea, leBytes]
      · unfold lengthByteNeed; rw [if_neg hc, if_pos ⟨h0, hi⟩, hcs]; rfl
      · rw [hPl]
        have e4 := mul_div_off _ m4; have e5 := mul_div_off _ m5
        rcases f4 with ⟨_, p0⟩ | ⟨po, _⟩
        · rcases f5 with ⟨_, r0⟩ | ⟨ro, _⟩
          · left
            rw [List.eq_nil_iff_length_eq_zero]
            simp only [List.length_append]; omega
          · right; exact ⟨5, by simp, by decide, by rw [g5]; omega⟩
        · right; exact ⟨4, by simp, by decide, by rw [g4]; omega⟩
    · have hp : img.prOff ≠ 0 ∧ i = img.prOff + 1 := by
        simp only [isAreaLengthByte, Bool.or_eq_true, Bool.and_eq_true, decide_eq_true_eq] at hlb
        rcases hlb with (h | h) | h
        · exact absurd h hc
        · exact absurd h hb
        · exact h
      obtain ⟨h0, hi⟩ := hp
      obtain ⟨hs, hoff⟩ := offOf_ne_zero (p := img.product.isSome) h0
      obtain ⟨c, hcs⟩ := Option.isSome_iff_exists.mp hs
      have hch : img.parts.pr = encodeArea c.toArea := by simp [FruImage.parts, hcs, optBytes]
      have hlen : img.parts.pr.length = c.toArea.total := by rw [hch, encodeArea_length]
      have hPl : (img.header ++ (img.parts.iu ++ (img.parts.ch ++ img.parts.bd))).length = img.prOff := by
        simp only [FruImage.prOff] at hoff ⊢; simp [hHl, hoff]; omega
      refine ⟨{ k := 4, a := c.toArea, P := img.header ++ (img.parts.iu ++ (img.parts.ch ++ img.parts.bd)),
                Q := img.parts.mr, hk := Or.inr (Or.inr rfl), split := ?_, pos := ?_,
                p8 := ?_, hdr := ?_, off := ?_, wf := wp c hcs, first := rfl, nf := rfl, need := ?_,
                next := ?_ }⟩
      · simp [encodeFru, hch]
      · omega
      · simp [hHl]
      · rw [← hHl, List.take_append_of_le_length (Nat.le_refl _), List.take_length]
      · rw [g4, hPl]; exact mul_div_off _ m4
      · unfold lengthByteNeed; rw [if_neg hc, if_neg hb, if_pos ⟨h0, hi⟩, hcs]; rfl
      · rw [hPl]
        have e5 := mul_div_off _ m5
        rcases f5 with ⟨_, r0⟩ | ⟨ro, _⟩
        · left
          rw [List.eq_nil_iff_length_eq_zero]; omega
        · right; exact ⟨5, by simp, by decide, by rw [g5]; omega⟩

/-! ### the altered image as the reader sees it -/

/-- header bytes, area start and span of the altered image (followed by any `tail`: device storage) -/
theorem altered_view (img : FruImage) (i : Nat) (L : LenByteAt img i) (b' : Nat) (tail : List Nat) :
    let bs' := (encodeFru img).set i b' ++ tail
    (∀ j, j < 8 → bs'.getD j 0 = img.header.getD j 0) ∧
    areaAt bs' L.k = (encodeArea L.a).set 1 b' ++ (L.Q ++ tail) ∧
    bs'.length = (encodeFru img).length + tail.length := by
  have hlen := encodeArea_length L.a
  have hpos := L.a.total_pos
  have hset : (encodeFru img).set i b' = L.P ++ ((encodeArea L.a).set 1 b' ++ L.Q) := by
    have e := congrArg (fun n => (encodeFru img).set n b') L.pos
    rw [e, L.split]
    exact set_middle _ _ _ _ _ (by omega)
  have hhdr : ∀ j, j < 8 → L.P.getD j 0 = img.header.getD j 0 := by
    intro j hj
    rw [← L.hdr, getD_take _ _ _ hj]
  refine ⟨?_, ?_, by simp⟩
  · intro j hj
    rw [hset, List.append_assoc, getD_append_left _ _ _ (by have := L.p8; omega)]
    exact hhdr j hj
  · have hk8 : L.k < 8 := by rcases L.hk with h | h | h <;> omega
    unfold areaAt
    rw [hset, List.append_assoc, getD_append_left _ _ _ (by have := L.p8; omega), hhdr _ hk8, L.off,
      List.drop_left' rfl, List.append_assoc]

theorem altered_getD1 (a : InfoArea) (b' : Nat) (R : List Nat) : ((encodeArea a).set 1 b' ++ R).getD 1 0 = b' := by
  rw [altered_shape]; rfl

/-- A reader that validates the length byte and confines the fields accepts the altered image only
if the new length leaves room for everything the area holds. -/
theorem alter_length_need (img : FruImage) (hwf : img.wf = true) (i b' : Nat)
    (hlb : isAreaLengthByte img i = true) (tail : List Nat)
    (hfields : fieldsOk ((encodeFru img).set i b' ++ tail) = true) :
    lengthByteNeed img i ≤ 8 * b' := by
  obtain ⟨L⟩ := lenByteAt img hwf i hlb
  obtain ⟨hh, ha, _⟩ := altered_view img i L b' tail
  have hk8 : L.k < 8 := by rcases L.hk with h | h | h <;> omega
  have hne : ((encodeFru img).set i b' ++ tail).getD L.k 0 ≠ 0 := by
    rw [hh _ hk8]
    have := L.off; have := L.p8
    omega
  have hfi : fieldsInside L.k (areaAt ((encodeFru img).set i b' ++ tail) L.k) = true := by
    simp only [fieldsOk, Bool.and_eq_true, Bool.or_eq_true, beq_iff_eq] at hfields
    obtain ⟨⟨a2, a3⟩, a4⟩ := hfields
    rcases L.hk with h | h | h <;> rw [h] at hne ⊢
    · exact a2.resolve_left hne
    · exact a3.resolve_left hne
    · exact a4.resolve_left hne
  rw [ha] at hfi
  rw [L.need]
  exact fieldsInside_altered L.a L.wf L.k L.first L.nf b' _ hfi

/-- the part of `layoutOk` that concerns the spans of the info areas (what the device path, which
does not see the common header and the areas as one byte string, establishes as well) -/
def InfoSpansFree (bs : List Nat) : Prop :=
  ∀ k, (k = 2 ∨ k = 3 ∨ k = 4) → bs.getD k 0 ≠ 0 → ∀ j ∈ [1, 2, 3, 4, 5], j ≠ k → startOf bs j ≠ 0 →
    startOf bs k ≤ startOf bs j → startOf bs k + 8 * bs.getD (8 * bs.getD k 0 + 1) 0 ≤ startOf bs j

theorem layoutOk_infoSpansFree (bs : List Nat) (h : layoutOk bs = true) : InfoSpansFree bs := by
  unfold layoutOk at h
  rw [disjointAreas_iff] at h
  intro k hk hne j hj hjk hsj hle
  have hkm : k ∈ [1, 2, 3, 4, 5] := by rcases hk with h | h | h <;> simp [h]
  have hk51 : k ≠ 5 ∧ k ≠ 1 := by rcases hk with h | h | h <;> omega
  have hsp : spanOf bs k = 8 * bs.getD (8 * bs.getD k 0 + 1) 0 := by
    simp only [spanOf, beq_false_of_ne hne, Bool.false_eq_true, if_false, if_neg hk51.1, if_neg hk51.2, areaAt]
    simp [List.getD_eq_getElem?_getD, List.getElem?_drop]
  have := h k hkm j hj (fun e => hjk e.symm) (by simp only [startOf]; omega) hsj hle
  rw [hsp] at this
  exact this

/-- … and only if no other area starts inside the new span. -/
theorem alter_length_free (img : FruImage) (hwf : img.wf = true) (i b' : Nat)
    (hlb : isAreaLengthByte img i = true) (tail : List Nat)
    (hlay : InfoSpansFree ((encodeFru img).set i b' ++ tail)) :
    ∀ j ∈ [1, 2, 3, 4, 5], 8 * img.header.getD j 0 = i - 1 ∨ 8 * img.header.getD j 0 = 0 ∨
      8 * img.header.getD j 0 < i - 1 ∨ i - 1 + 8 * b' ≤ 8 * img.header.getD j 0 := by
  obtain ⟨L⟩ := lenByteAt img hwf i hlb
  obtain ⟨hh, ha, _⟩ := altered_view img i L b' tail
  have hk8 : L.k < 8 := by rcases L.hk with h | h | h <;> omega
  intro j hj
  have hj8 : j < 8 := by
    simp only [List.mem_cons, List.mem_nil_iff, or_false] at hj; omega
  by_cases hjk : j = L.k
  · left; rw [hjk]; have := L.off; have := L.pos; omega
  · have hst : ∀ x, x < 8 → startOf ((encodeFru img).set i b' ++ tail) x = 8 * img.header.getD x 0 := by
      intro x hx; simp only [startOf, hh x hx]
    have hne : ((encodeFru img).set i b' ++ tail).getD L.k 0 ≠ 0 := by
      rw [hh _ hk8]; have := L.off; have := L.p8; omega
    have hb : ((encodeFru img).set i b' ++ tail).getD (8 * ((encodeFru img).set i b' ++ tail).getD L.k 0 + 1) 0 = b' := by
      have := altered_getD1 L.a b' (L.Q ++ tail)
      rw [← ha] at this
      simpa [areaAt, List.getD_eq_getElem?_getD, List.getElem?_drop] using this
    have := hlay L.k L.hk hne j hj hjk
    rw [hst _ hk8, hst _ hj8, hb, L.off] at this
    have hp := L.pos; have h8 := L.p8
    omega

/-- Given exactly the image (nothing behind it), a reader that validates the length byte and checks
the layout never accepts a LENGTHENED length byte: the new span would run over the start of the
following area, or behind the end of the image. -/
theorem alter_length_not_longer (img : FruImage) (hwf : img.wf = true) (i old b' : Nat)
    (hold : (encodeFru img)[i]? = some old) (hlb : isAreaLengthByte img i = true)
    (hsums : checksumsOk ((encodeFru img).set i b') = true)
    (hlay : layoutOk ((encodeFru img).set i b') = true) : b' ≤ old := by
  obtain ⟨L⟩ := lenByteAt img hwf i hlb
  obtain ⟨hil, _⟩ := List.getElem?_eq_some_iff.mp hold
  have hlenA := encodeArea_length L.a
  have hdiv := L.a.total_div
  -- the old value is the area's length in units of 8
  have hold' : old = L.a.total / 8 := by
    have h1 : (encodeFru img)[i]? = some (L.a.total / 8) := by
      have e := congrArg (fun n => (encodeFru img)[n]?) L.pos
      rw [e, L.split, getElem?_middle _ _ _ _ (by have := L.a.total_pos; omega), encodeArea_getElem1]
    rw [h1] at hold
    injection hold with hold
    exact hold.symm
  -- span inside the data
  have hk8 : L.k < 8 := by rcases L.hk with h | h | h <;> omega
  have hHl := header_length img
  have hgk : ((encodeFru img).set i b').getD L.k 0 = img.header.getD L.k 0 := by
    have := (altered_view img i L b' []).1 L.k hk8
    simpa using this
  have hoff := L.off
  have hp8 := L.p8
  have hpos := L.pos
  have hg1 : ((encodeFru img).set i b').getD (L.P.length + 1) 0 = b' := by
    rw [← hpos, List.getD_eq_getElem?_getD, List.getElem?_set_self hil]; rfl
  have hspan := checksums_area_span ((encodeFru img).set i b') L.k L.hk (by rw [hgk]; omega)
    (by rw [hgk, hoff, List.length_set]; omega) hsums
  rw [hgk, hoff, hg1, List.length_set] at hspan
  have htot : (encodeFru img).length = L.P.length + L.a.total + L.Q.length := by
    rw [L.split]; simp [hlenA]; omega
  rcases L.next with hq | ⟨j, hj, hjk, hjs⟩
  · rw [hq] at htot
    simp only [List.length_nil] at htot
    omega
  · have hfree := alter_length_free img hwf i b' hlb [] (by simpa using layoutOk_infoSpansFree _ hlay) j hj
    rw [hjs] at hfree
    have := L.a.total_pos
    omega

end PyIpmi.Fru
