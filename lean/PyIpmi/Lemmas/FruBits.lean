/-
  Bit-level facts about the constants GENERATED from the source (Gen/FruTables.lean):
  the Python bit expressions, evaluated with the masks/shifts the translator found, equal the
  arithmetic of the storage definition.  All by complete finite sweeps (`decide`), re-checked
  whenever the generated constants change.  Core only.
-/
import PyIpmi.Model.FruParse
namespace PyIpmi.Fru
open PyIpmi PyIpmi.Gen

/-- Bool-valued bounded quantifier (cheap for the kernel) -/
def allLt (n : Nat) (p : Nat → Bool) : Bool := (List.range n).all p

theorem allLt_spec {n : Nat} {p : Nat → Bool} (h : allLt n p = true) (x : Nat) (hx : x < n) :
    p x = true := by
  simp only [allLt, List.all_eq_true, List.mem_range] at h
  exact h x hx

/-! ### type/length byte -/

theorem typeLen_sweep :
    allLt 256 (fun b => ((b >>> FruTables.typeShift) &&& FruTables.typeMask) == b / 64 &&
      (b &&& FruTables.lenMask) == b % 64) = true := by decide +kernel

theorem typeOf_byte (b : Nat) (hb : b < 256) :
    (b >>> FruTables.typeShift) &&& FruTables.typeMask = b / 64 := by
  have := allLt_spec typeLen_sweep b hb
  simp only [Bool.and_eq_true, beq_iff_eq] at this
  exact this.1

theorem lenOf_byte (b : Nat) (hb : b < 256) : b &&& FruTables.lenMask = b % 64 := by
  have := allLt_spec typeLen_sweep b hb
  simp only [Bool.and_eq_true, beq_iff_eq] at this
  exact this.2

theorem type_codes : FruTables.typeBcd = 1 ∧ FruTables.typeSix = 2 := by decide

/-- the mask of the repaired `FruTypeLengthString.__init__` guard (any natural number, not only bytes) -/
theorem guardMask_mod (b : Nat) : b &&& fieldGuardMask = b % 64 := by
  have h : fieldGuardMask = 2 ^ 6 - 1 := by decide
  rw [h, Nat.and_two_pow_sub_one_eq_mod]

/-! ### BCD plus: the generated map is the table of the storage definition -/

theorem bcdMap_spec : FruTables.bcdMap = (List.range 13).map bcdChar := by decide

theorem bcd_sweep :
    allLt 13 (fun a => allLt 13 fun b =>
      FruTables.bcdMap[((a * 16 + b) >>> FruTables.bcdHiShift) &&& FruTables.bcdHiMask]? == some (bcdChar a) &&
      FruTables.bcdMap[(a * 16 + b) &&& FruTables.bcdLoMask]? == some (bcdChar b)) = true := by
  decide +kernel

theorem bcd_byte (a b : Nat) (ha : a < 13) (hb : b < 13) :
    FruTables.bcdMap[((a * 16 + b) >>> FruTables.bcdHiShift) &&& FruTables.bcdHiMask]? = some (bcdChar a) ∧
    FruTables.bcdMap[(a * 16 + b) &&& FruTables.bcdLoMask]? = some (bcdChar b) := by
  have := allLt_spec (allLt_spec bcd_sweep a ha) b hb
  simpa only [Bool.and_eq_true, beq_iff_eq] using this

/-! ### 6-bit unpacking: the four characters of a group in arithmetic form -/

/-- value of a `SixTerm` on a byte -/
def termVal (t : SixTerm) (left : Bool) (x : Nat) : Nat :=
  if left then (x &&& t.2.1) <<< t.2.2 else (x &&& t.2.1) >>> t.2.2

theorem sixChars_shape : FruTables.sixChars.length = 4 ∧ FruTables.sixBase = 0x20 ∧
    FruTables.sixChars.map (fun c => (c.1.1, c.2.1, decide (c.2.2.1 = 0))) =
      [(0, 0, true), (0, 1, false), (1, 2, false), (2, 0, true)] := by decide

/-- per-term sweeps: every masked/shifted term as arithmetic -/
theorem six_terms_sweep :
    allLt 256 (fun x =>
      (match FruTables.sixChars with
       | [c0, c1, c2, c3] =>
         termVal c0.1 false x == x % 64 &&
         termVal c1.1 false x == x / 64 && termVal c1.2 true x == x % 16 * 4 &&
         termVal c2.1 false x == x / 16 && termVal c2.2 true x == x % 4 * 16 &&
         termVal c3.1 false x == x / 4
       | _ => false)) = true := by decide +kernel

/-- `|` of disjoint bit ranges is `+` -/
theorem or_sweep :
    allLt 4 (fun x => allLt 16 fun y => (x ||| y * 4) == x + y * 4) = true ∧
    allLt 16 (fun x => allLt 4 fun y => (x ||| y * 16) == x + y * 16) = true := by
  constructor <;> decide +kernel

theorem or_low2 (x y : Nat) (hx : x < 4) (hy : y < 16) : x ||| y * 4 = x + y * 4 := by
  have := allLt_spec (allLt_spec or_sweep.1 x hx) y hy
  simpa using this

theorem or_low4 (x y : Nat) (hx : x < 16) (hy : y < 4) : x ||| y * 16 = x + y * 16 := by
  have := allLt_spec (allLt_spec or_sweep.2 x hx) y hy
  simpa using this

theorem six_terms (x : Nat) (hx : x < 256) :
    x &&& 63 = x % 64 ∧ (x &&& 192) >>> 6 = x / 64 ∧ (x &&& 15) <<< 2 = x % 16 * 4 ∧
    (x &&& 240) >>> 4 = x / 16 ∧ (x &&& 3) <<< 4 = x % 4 * 16 ∧ (x &&& 252) >>> 2 = x / 4 := by
  have := allLt_spec six_terms_sweep x hx
  simpa [FruTables.sixChars, termVal, and_assoc] using this

/-- a full group: four characters (either variant) -/
theorem sixGroup3 (strict : Bool) (a b c : Nat) (ha : a < 256) (hb : b < 256) (hc : c < 256) :
    sixGroup strict [a, b, c] =
      some [32 + a % 64, 32 + (a / 64 + b % 16 * 4), 32 + (b / 16 + c % 4 * 16), 32 + c / 4] := by
  simp [sixGroup, FruTables.sixChars, sixNeed, sixChar, sixTerm, FruTables.sixBase]
  obtain ⟨a1, a2, _, _, _, _⟩ := six_terms a ha
  obtain ⟨_, _, b3, b4, _, _⟩ := six_terms b hb
  obtain ⟨_, _, _, _, c5, c6⟩ := six_terms c hc
  rw [a1, a2, b3, b4, c5, c6, or_low2 _ _ (by omega) (by omega), or_low4 _ _ (by omega) (by omega)]
  simp

/-- a trailing group of two bytes: two characters (repaired form) -/
theorem sixGroup2 (a b : Nat) (ha : a < 256) (hb : b < 256) :
    sixGroup false [a, b] = some [32 + a % 64, 32 + (a / 64 + b % 16 * 4)] := by
  simp [sixGroup, FruTables.sixChars, sixNeed, sixChar, sixTerm, FruTables.sixBase]
  obtain ⟨a1, a2, _, _, _, _⟩ := six_terms a ha
  obtain ⟨_, _, b3, _, _, _⟩ := six_terms b hb
  rw [a1, a2, b3, or_low2 _ _ (by omega) (by omega)]
  simp

/-- a trailing group of one byte: one character (repaired form) -/
theorem sixGroup1 (a : Nat) (ha : a < 256) : sixGroup false [a] = some [32 + a % 64] := by
  simp [sixGroup, FruTables.sixChars, sixNeed, sixChar, sixTerm, FruTables.sixBase]
  exact (six_terms a ha).1

/-- as shipped, a trailing group of one or two bytes is an IndexError -/
theorem sixGroup1_strict (a : Nat) : sixGroup true [a] = none := by
  simp [sixGroup, FruTables.sixChars, sixNeed, sixChar, sixTerm, FruTables.sixBase]

theorem sixGroup2_strict (a b : Nat) : sixGroup true [a, b] = none := by
  simp [sixGroup, FruTables.sixChars, sixNeed, sixChar, sixTerm, FruTables.sixBase]

end PyIpmi.Fru
