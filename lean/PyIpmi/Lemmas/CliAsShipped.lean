/- FROZEN copy of Gen/Cli.lean as generated from the pinned tree (commit 816fdee, before any C20
   fix) by `harness/translate/cli.py:freeze`.  Not regenerated: it is what was shipped, the subject
   of the counter-example theorems of Props/C20.lean. -/
import PyIpmi.Model.Cli
namespace PyIpmi.Cli.AsShipped
open PyIpmi.Cli

/-- `dir(pyipmi.Ipmi)` (public), with `inspect.signature` -/
def api : List ApiSig := [
  /- ACTIVATION_LOCK_CLEAR -/ ⟨0, false, [], 0, false, false, [], []⟩,
  /- ACTIVATION_LOCK_SET -/ ⟨1, false, [], 0, false, false, [], []⟩,
  /- DEACTIVATION_LOCK_CLEAR -/ ⟨2, false, [], 0, false, false, [], []⟩,
  /- DEACTIVATION_LOCK_SET -/ ⟨3, false, [], 0, false, false, [], []⟩,
  /- abort_firmware_upgrade -/ ⟨4, true, [], 0, false, false, [], []⟩,
  /- activate_firmware -/ ⟨5, true, [152], 0, false, false, [], []⟩,
  /- activate_firmware_and_wait -/ ⟨6, true, [152, 153, 154], 0, false, false, [], []⟩,
  /- activation_stage -/ ⟨7, true, [155, 156], 2, false, false, [], []⟩,
  /- chassis_control -/ ⟨8, true, [157], 1, false, false, [], []⟩,
  /- chassis_control_diagnostic_interrupt -/ ⟨9, true, [], 0, false, false, [], []⟩,
  /- chassis_control_hard_reset -/ ⟨10, true, [], 0, false, false, [], []⟩,
  /- chassis_control_power_cycle -/ ⟨11, true, [], 0, false, false, [], []⟩,
  /- chassis_control_power_down -/ ⟨12, true, [], 0, false, false, [], []⟩,
  /- chassis_control_power_up -/ ⟨13, true, [], 0, false, false, [], []⟩,
  /- chassis_control_soft_shutdown -/ ⟨14, true, [], 0, false, false, [], []⟩,
  /- clear_fru_activation_lock -/ ⟨15, true, [158], 1, false, false, [], []⟩,
  /- clear_fru_deactivation_lock -/ ⟨16, true, [158], 1, false, false, [], []⟩,
  /- clear_sdr_repository -/ ⟨17, true, [159], 0, false, false, [], []⟩,
  /- clear_sel -/ ⟨18, true, [159], 0, false, false, [], []⟩,
  /- close -/ ⟨19, true, [], 0, false, false, [], []⟩,
  /- cold_reset -/ ⟨20, true, [], 0, false, false, [], []⟩,
  /- delete_sdr -/ ⟨21, true, [160], 1, false, false, [], []⟩,
  /- delete_sel_entry -/ ⟨22, true, [160, 161], 1, false, false, [], []⟩,
  /- device_sdr_entries -/ ⟨23, true, [], 0, false, false, [], []⟩,
  /- disable_user -/ ⟨24, true, [162], 1, false, false, [], []⟩,
  /- enable_user -/ ⟨25, true, [162], 1, false, false, [], []⟩,
  /- find_component_id_by_descriptor -/ ⟨26, true, [163], 1, false, false, [], []⟩,
  /- finish_firmware_upload -/ ⟨27, true, [156, 164], 2, false, false, [], []⟩,
  /- finish_upload_and_wait -/ ⟨28, true, [156, 164, 153, 154], 2, false, false, [], []⟩,
  /- fru_control -/ ⟨29, true, [158, 157], 2, false, false, [], []⟩,
  /- fru_control_cold_reset -/ ⟨30, true, [158], 0, false, false, [], []⟩,
  /- fru_control_diagnostic_interrupt -/ ⟨31, true, [158], 0, false, false, [], []⟩,
  /- fru_control_graceful_reboot -/ ⟨32, true, [158], 0, false, false, [], []⟩,
  /- fru_control_warm_reset -/ ⟨33, true, [158], 0, false, false, [], []⟩,
  /- get_and_clear_sel_entry -/ ⟨34, true, [160], 1, false, false, [], []⟩,
  /- get_boot_device -/ ⟨35, true, [], 0, false, false, [], []⟩,
  /- get_boot_mode -/ ⟨36, true, [], 0, false, false, [], []⟩,
  /- get_boot_persistency -/ ⟨37, true, [], 0, false, false, [], []⟩,
  /- get_channel_authentication_capabilities -/ ⟨38, true, [165, 166], 2, false, false, [], []⟩,
  /- get_chassis_status -/ ⟨39, true, [], 0, false, false, [], []⟩,
  /- get_component_properties -/ ⟨40, true, [167], 1, false, false, [], []⟩,
  /- get_component_property -/ ⟨41, true, [167, 168], 2, false, false, [], []⟩,
  /- get_dcmi_capabilities -/ ⟨42, true, [169], 1, false, false, [], []⟩,
  /- get_dcmi_sensor_record_ids -/ ⟨43, true, [], 0, false, false, [], []⟩,
  /- get_device_guid -/ ⟨44, true, [], 0, false, false, [], []⟩,
  /- get_device_id -/ ⟨45, true, [], 0, false, false, [], []⟩,
  /- get_device_sdr -/ ⟨46, true, [160, 170], 1, false, false, [], []⟩,
  /- get_device_sdr_list -/ ⟨47, true, [170], 0, false, false, [], []⟩,
  /- get_event_receiver -/ ⟨48, true, [], 0, false, false, [], []⟩,
  /- get_fan_level -/ ⟨49, true, [158], 1, false, false, [], []⟩,
  /- get_fan_speed_properties -/ ⟨50, true, [158], 1, false, false, [], []⟩,
  /- get_fru_board_area -/ ⟨51, true, [158], 0, false, false, [], []⟩,
  /- get_fru_chassis_area -/ ⟨52, true, [158], 0, false, false, [], []⟩,
  /- get_fru_inventory -/ ⟨53, true, [158], 0, false, false, [], []⟩,
  /- get_fru_inventory_area_info -/ ⟨54, true, [158], 0, false, false, [], []⟩,
  /- get_fru_inventory_header -/ ⟨55, true, [158], 0, false, false, [], []⟩,
  /- get_fru_multirecord_area -/ ⟨56, true, [158], 0, false, false, [], []⟩,
  /- get_fru_product_area -/ ⟨57, true, [158], 0, false, false, [], []⟩,
  /- get_initialization_agent_status -/ ⟨58, true, [], 0, false, false, [], []⟩,
  /- get_ip_address -/ ⟨59, true, [165], 0, false, false, [], []⟩,
  /- get_ip_source -/ ⟨60, true, [165], 0, false, false, [], []⟩,
  /- get_lan_config_param -/ ⟨61, true, [165, 171, 172, 173, 174], 0, false, false, [], []⟩,
  /- get_led_state -/ ⟨62, true, [158, 175], 2, false, false, [], []⟩,
  /- get_mac_address -/ ⟨63, true, [165], 0, false, false, [], []⟩,
  /- get_picmg_properties -/ ⟨64, true, [], 0, false, false, [], []⟩,
  /- get_pm_global_status -/ ⟨65, true, [], 0, false, false, [], []⟩,
  /- get_port_state -/ ⟨66, true, [176, 177], 2, false, false, [], []⟩,
  /- get_power_channel_status -/ ⟨67, true, [178], 1, false, false, [], []⟩,
  /- get_power_level -/ ⟨68, true, [158, 179], 2, false, false, [], []⟩,
  /- get_power_reading -/ ⟨69, true, [180, 181], 1, false, false, [], []⟩,
  /- get_repository_sdr -/ ⟨70, true, [160, 170], 1, false, false, [], []⟩,
  /- get_repository_sdr_list -/ ⟨71, true, [170], 0, false, false, [], []⟩,
  /- get_sdr_repository_allocation_info -/ ⟨72, true, [], 0, false, false, [], []⟩,
  /- get_sdr_repository_info -/ ⟨73, true, [], 0, false, false, [], []⟩,
  /- get_sel_entries -/ ⟨74, true, [], 0, false, false, [], []⟩,
  /- get_sel_entries_count -/ ⟨75, true, [], 0, false, false, [], []⟩,
  /- get_sel_entry -/ ⟨76, true, [160, 161], 1, false, false, [], []⟩,
  /- get_sel_reservation_id -/ ⟨77, true, [], 0, false, false, [], []⟩,
  /- get_sensor_reading -/ ⟨78, true, [182, 183], 1, false, false, [], []⟩,
  /- get_sensor_thresholds -/ ⟨79, true, [182, 183], 1, false, false, [], []⟩,
  /- get_signaling_class -/ ⟨80, true, [98, 165], 2, false, false, [], []⟩,
  /- get_system_boot_options -/ ⟨81, true, [171, 172, 173], 0, false, false, [], []⟩,
  /- get_target_upgrade_capabilities -/ ⟨82, true, [], 0, false, false, [], []⟩,
  /- get_upgrade_status -/ ⟨83, true, [], 0, false, false, [], []⟩,
  /- get_upgrade_version_from_file -/ ⟨84, true, [184], 1, false, false, [], []⟩,
  /- get_user_access -/ ⟨85, true, [162, 165], 0, false, false, [], []⟩,
  /- get_username -/ ⟨86, true, [162], 0, false, false, [], []⟩,
  /- get_vlan_id -/ ⟨87, true, [165], 0, false, false, [], []⟩,
  /- get_watchdog_timer -/ ⟨88, true, [], 0, false, false, [], []⟩,
  /- i2c_read -/ ⟨89, true, [185, 186, 165, 187, 188], 5, false, false, [], []⟩,
  /- i2c_write -/ ⟨90, true, [185, 186, 165, 187, 189], 5, false, false, [], []⟩,
  /- i2c_write_read -/ ⟨91, true, [185, 186, 165, 187, 188, 189], 5, false, false, [], []⟩,
  /- initiate_manual_rollback -/ ⟨92, true, [], 0, false, false, [], []⟩,
  /- initiate_manual_rollback_and_wait -/ ⟨93, true, [153, 154], 0, false, false, [], []⟩,
  /- initiate_upgrade_action -/ ⟨94, true, [190, 191], 2, false, false, [], []⟩,
  /- initiate_upgrade_action_and_wait -/ ⟨95, true, [190, 191, 153, 154], 2, false, false, [], []⟩,
  /- install_component_from_file -/ ⟨96, true, [184, 156], 2, false, false, [], []⟩,
  /- install_component_from_image -/ ⟨97, true, [155, 156], 2, false, false, [], []⟩,
  /- interface -/ ⟨98, false, [], 0, false, false, [], []⟩,
  /- is_ipmc_accessible -/ ⟨99, true, [], 0, false, false, [], []⟩,
  /- open -/ ⟨100, true, [], 0, false, false, [], []⟩,
  /- open_upgrade_image -/ ⟨101, true, [184], 1, false, false, [], []⟩,
  /- partial_add_sdr -/ ⟨102, true, [170, 160, 192, 193, 189], 5, false, false, [], []⟩,
  /- preparation_stage -/ ⟨103, true, [155], 1, false, false, [], []⟩,
  /- query_rollback_status -/ ⟨104, true, [], 0, false, false, [], []⟩,
  /- query_selftest_results -/ ⟨105, true, [], 0, false, false, [], []⟩,
  /- raw_command -/ ⟨106, true, [183, 194, 195], 3, false, false, [], []⟩,
  /- read_fru_data -/ ⟨107, true, [192, 188, 158], 0, false, false, [], []⟩,
  /- read_fru_data_full -/ ⟨108, true, [158], 0, false, false, [], []⟩,
  /- rearm_sensor_events -/ ⟨109, true, [182], 1, false, false, [], []⟩,
  /- reserve_device_sdr_repository -/ ⟨110, true, [], 0, false, false, [], []⟩,
  /- reserve_sdr_repository -/ ⟨111, true, [], 0, false, false, [], []⟩,
  /- reset_watchdog_timer -/ ⟨112, true, [], 0, false, false, [], []⟩,
  /- sdr_repository_entries -/ ⟨113, true, [], 0, false, false, [], []⟩,
  /- sel_entries -/ ⟨114, true, [], 0, false, false, [], []⟩,
  /- send_channel_power -/ ⟨115, true, [165, 196, 197, 198, 199], 3, false, false, [], []⟩,
  /- send_message -/ ⟨116, true, [200, 159], 1, false, false, [], []⟩,
  /- send_message_with_name -/ ⟨117, true, [201], 1, true, true, [], []⟩,
  /- send_platform_event -/ ⟨118, true, [202, 182, 203, 204, 205], 3, false, false, [], []⟩,
  /- send_pm_heartbeat -/ ⟨119, true, [], 0, false, false, [], []⟩,
  /- session -/ ⟨120, false, [], 0, false, false, [], []⟩,
  /- set_boot_options -/ ⟨121, true, [206, 207, 208], 3, false, false, [], []⟩,
  /- set_event_receiver -/ ⟨122, true, [209, 183], 2, false, false, [], []⟩,
  /- set_fan_level -/ ⟨123, true, [158, 210], 2, false, false, [], []⟩,
  /- set_fru_activation -/ ⟨124, true, [158], 1, false, false, [], []⟩,
  /- set_fru_activation_lock -/ ⟨125, true, [158], 1, false, false, [], []⟩,
  /- set_fru_activation_policy -/ ⟨126, true, [158, 211], 2, false, false, [], []⟩,
  /- set_fru_deactivation -/ ⟨127, true, [158], 1, false, false, [], []⟩,
  /- set_fru_deactivation_lock -/ ⟨128, true, [158], 1, false, false, [], []⟩,
  /- set_ip_address -/ ⟨129, true, [212, 165], 1, false, false, [], []⟩,
  /- set_ip_source -/ ⟨130, true, [213, 165], 1, false, false, [], []⟩,
  /- set_lan_config_param -/ ⟨131, true, [165, 171, 189], 3, false, false, [], []⟩,
  /- set_led_state -/ ⟨132, true, [214], 1, false, false, [], []⟩,
  /- set_port_state -/ ⟨133, true, [215, 216], 2, false, false, [], []⟩,
  /- set_sensor_thresholds -/ ⟨134, true, [182, 183, 217, 218, 219, 220, 221, 222], 1, false, false, [], []⟩,
  /- set_signaling_class -/ ⟨135, true, [98, 165, 223], 3, false, false, [], []⟩,
  /- set_system_boot_options -/ ⟨136, true, [171, 189, 224], 2, false, false, [], []⟩,
  /- set_user_access -/ ⟨137, true, [162, 225, 226, 227, 228, 165, 229, 230], 5, false, false, [], []⟩,
  /- set_user_password -/ ⟨138, true, [162, 231], 1, false, false, [], []⟩,
  /- set_username -/ ⟨139, true, [162, 232], 0, false, false, [], []⟩,
  /- set_vlan_id -/ ⟨140, true, [233, 165], 1, false, false, [], []⟩,
  /- set_watchdog_timer -/ ⟨141, true, [234], 1, false, false, [], []⟩,
  /- start_initialization_agent -/ ⟨142, true, [], 0, false, false, [], []⟩,
  /- target -/ ⟨143, false, [], 0, false, false, [], []⟩,
  /- upgrade_stage -/ ⟨144, true, [155, 156], 2, false, false, [], []⟩,
  /- upload_binary -/ ⟨145, true, [235, 153, 154, 159], 1, false, false, [], []⟩,
  /- upload_firmware_block -/ ⟨146, true, [236, 189], 2, false, false, [], []⟩,
  /- wait_for_long_duration_command -/ ⟨147, true, [237, 153, 154], 3, false, false, [], []⟩,
  /- wait_until_ipmb_is_accessible -/ ⟨148, true, [153, 154], 1, false, false, [], []⟩,
  /- wait_until_new_firmware_comes_up -/ ⟨149, true, [153, 154], 2, false, false, [], []⟩,
  /- warm_reset -/ ⟨150, true, [], 0, false, false, [], []⟩,
  /- write_fru_data -/ ⟨151, true, [189, 192, 158], 1, false, false, [], []⟩]

/-- `COMMANDS` -/
def commands : List Command := [
  /- bmc info -/ ⟨[98, 109, 99, 32, 105, 110, 102, 111], [[98, 109, 99], [105, 110, 102, 111]], 238, [⟨/- get_device_id -/ 45, true, 0, []⟩]⟩,
  /- bmc reset cold -/ ⟨[98, 109, 99, 32, 114, 101, 115, 101, 116, 32, 99, 111, 108, 100], [[98, 109, 99], [114, 101, 115, 101, 116], [99, 111, 108, 100]], 239, [⟨/- cold_reset -/ 20, true, 0, []⟩]⟩,
  /- bmc reset warm -/ ⟨[98, 109, 99, 32, 114, 101, 115, 101, 116, 32, 119, 97, 114, 109], [[98, 109, 99], [114, 101, 115, 101, 116], [119, 97, 114, 109]], 239, [⟨/- warm_reset -/ 150, true, 0, []⟩]⟩,
  /- sel list -/ ⟨[115, 101, 108, 32, 108, 105, 115, 116], [[115, 101, 108], [108, 105, 115, 116]], 239, [⟨/- sel_entries -/ 114, true, 0, []⟩]⟩,
  /- sel clear -/ ⟨[115, 101, 108, 32, 99, 108, 101, 97, 114], [[115, 101, 108], [99, 108, 101, 97, 114]], 240, [⟨/- clear_sel -/ 18, true, 0, []⟩]⟩,
  /- sensor rearm -/ ⟨[115, 101, 110, 115, 111, 114, 32, 114, 101, 97, 114, 109], [[115, 101, 110, 115, 111, 114], [114, 101, 97, 114, 109]], 241, [⟨/- rearm_sensor_events -/ 109, true, 1, []⟩]⟩,
  /- sdr list -/ ⟨[115, 100, 114, 32, 108, 105, 115, 116], [[115, 100, 114], [108, 105, 115, 116]], 242, [⟨/- get_device_id -/ 45, true, 0, []⟩, ⟨/- sdr_repository_entries -/ 113, false, 0, []⟩, ⟨/- device_sdr_entries -/ 23, false, 0, []⟩, ⟨/- sdr_repository_entries -/ 113, true, 0, []⟩, ⟨/- device_sdr_entries -/ 23, true, 0, []⟩, ⟨/- get_sensor_reading -/ 78, true, 1, []⟩, ⟨/- get_sensor_reading -/ 78, true, 1, []⟩]⟩,
  /- sdr raw -/ ⟨[115, 100, 114, 32, 114, 97, 119], [[115, 100, 114], [114, 97, 119]], 243, [⟨/- get_device_sdr -/ 46, true, 1, []⟩]⟩,
  /- sdr show -/ ⟨[115, 100, 114, 32, 115, 104, 111, 119], [[115, 100, 114], [115, 104, 111, 119]], 244, [⟨/- get_sensor_reading -/ 78, true, 2, []⟩, ⟨/- get_sensor_reading -/ 78, true, 1, []⟩, ⟨/- get_device_sdr -/ 46, true, 1, []⟩]⟩,
  /- sdr showall -/ ⟨[115, 100, 114, 32, 115, 104, 111, 119, 97, 108, 108], [[115, 100, 114], [115, 104, 111, 119, 97, 108, 108]], 245, [⟨/- get_sensor_reading -/ 78, true, 2, []⟩, ⟨/- get_sensor_reading -/ 78, true, 1, []⟩, ⟨/- device_sdr_entries -/ 23, true, 0, []⟩]⟩,
  /- fru print -/ ⟨[102, 114, 117, 32, 112, 114, 105, 110, 116], [[102, 114, 117], [112, 114, 105, 110, 116]], 246, [⟨/- get_fru_inventory -/ 53, true, 1, []⟩]⟩,
  /- picmg frucontrol cr -/ ⟨[112, 105, 99, 109, 103, 32, 102, 114, 117, 99, 111, 110, 116, 114, 111, 108, 32, 99, 114], [[112, 105, 99, 109, 103], [102, 114, 117, 99, 111, 110, 116, 114, 111, 108], [99, 114]], 247, [⟨/- fru_control_cold_reset -/ 30, true, 1, []⟩]⟩,
  /- picmg power get -/ ⟨[112, 105, 99, 109, 103, 32, 112, 111, 119, 101, 114, 32, 103, 101, 116], [[112, 105, 99, 109, 103], [112, 111, 119, 101, 114], [103, 101, 116]], 248, [⟨/- get_power_level -/ 68, true, 2, []⟩]⟩,
  /- picmg portstate get -/ ⟨[112, 105, 99, 109, 103, 32, 112, 111, 114, 116, 115, 116, 97, 116, 101, 32, 103, 101, 116], [[112, 105, 99, 109, 103], [112, 111, 114, 116, 115, 116, 97, 116, 101], [103, 101, 116]], 249, [⟨/- get_port_state -/ 66, true, 2, []⟩]⟩,
  /- picmg portstate getall -/ ⟨[112, 105, 99, 109, 103, 32, 112, 111, 114, 116, 115, 116, 97, 116, 101, 32, 103, 101, 116, 97, 108, 108], [[112, 105, 99, 109, 103], [112, 111, 114, 116, 115, 116, 97, 116, 101], [103, 101, 116, 97, 108, 108]], 250, [⟨/- get_port_state -/ 66, true, 2, []⟩]⟩,
  /- picmg channel status -/ ⟨[112, 105, 99, 109, 103, 32, 99, 104, 97, 110, 110, 101, 108, 32, 115, 116, 97, 116, 117, 115], [[112, 105, 99, 109, 103], [99, 104, 97, 110, 110, 101, 108], [115, 116, 97, 116, 117, 115]], 251, [⟨/- get_power_channel_status -/ 67, true, 1, []⟩]⟩,
  /- picmg send heartbeat -/ ⟨[112, 105, 99, 109, 103, 32, 115, 101, 110, 100, 32, 104, 101, 97, 114, 116, 98, 101, 97, 116], [[112, 105, 99, 109, 103], [115, 101, 110, 100], [104, 101, 97, 114, 116, 98, 101, 97, 116]], 252, [⟨/- send_pm_heartbeat -/ 119, true, 0, []⟩]⟩,
  /- picmg channel power -/ ⟨[112, 105, 99, 109, 103, 32, 99, 104, 97, 110, 110, 101, 108, 32, 112, 111, 119, 101, 114], [[112, 105, 99, 109, 103], [99, 104, 97, 110, 110, 101, 108], [112, 111, 119, 101, 114]], 253, [⟨/- send_channel_power -/ 115, true, 1, []⟩]⟩,
  /- raw -/ ⟨[114, 97, 119], [[114, 97, 119]], 254, [⟨/- raw_command -/ 106, true, 3, []⟩]⟩,
  /- hpm capabilities -/ ⟨[104, 112, 109, 32, 99, 97, 112, 97, 98, 105, 108, 105, 116, 105, 101, 115], [[104, 112, 109], [99, 97, 112, 97, 98, 105, 108, 105, 116, 105, 101, 115]], 255, [⟨/- get_target_upgrade_capabilities -/ 82, true, 0, []⟩, ⟨/- get_component_properties -/ 40, true, 1, []⟩]⟩,
  /- hpm check -/ ⟨[104, 112, 109, 32, 99, 104, 101, 99, 107], [[104, 112, 109], [99, 104, 101, 99, 107]], 256, [⟨/- open_upgrade_image -/ 101, true, 1, []⟩]⟩,
  /- hpm install -/ ⟨[104, 112, 109, 32, 105, 110, 115, 116, 97, 108, 108], [[104, 112, 109], [105, 110, 115, 116, 97, 108, 108]], 257, [⟨/- install_component_from_file -/ 96, true, 2, []⟩]⟩,
  /- chassis status -/ ⟨[99, 104, 97, 115, 115, 105, 115, 32, 115, 116, 97, 116, 117, 115], [[99, 104, 97, 115, 115, 105, 115], [115, 116, 97, 116, 117, 115]], 258, [⟨/- get_chassis_status -/ 39, true, 0, []⟩]⟩,
  /- chassis power off -/ ⟨[99, 104, 97, 115, 115, 105, 115, 32, 112, 111, 119, 101, 114, 32, 111, 102, 102], [[99, 104, 97, 115, 115, 105, 115], [112, 111, 119, 101, 114], [111, 102, 102]], 239, [⟨/- chassis_control_power_down -/ 12, true, 0, []⟩]⟩,
  /- chassis power on -/ ⟨[99, 104, 97, 115, 115, 105, 115, 32, 112, 111, 119, 101, 114, 32, 111, 110], [[99, 104, 97, 115, 115, 105, 115], [112, 111, 119, 101, 114], [111, 110]], 239, [⟨/- chassis_control_power_up -/ 13, true, 0, []⟩]⟩,
  /- chassis power cycle -/ ⟨[99, 104, 97, 115, 115, 105, 115, 32, 112, 111, 119, 101, 114, 32, 99, 121, 99, 108, 101], [[99, 104, 97, 115, 115, 105, 115], [112, 111, 119, 101, 114], [99, 121, 99, 108, 101]], 239, [⟨/- chassis_control_power_cycle -/ 11, true, 0, []⟩]⟩,
  /- chassis power reset -/ ⟨[99, 104, 97, 115, 115, 105, 115, 32, 112, 111, 119, 101, 114, 32, 114, 101, 115, 101, 116], [[99, 104, 97, 115, 115, 105, 115], [112, 111, 119, 101, 114], [114, 101, 115, 101, 116]], 239, [⟨/- chassis_control_hard_reset -/ 10, true, 0, []⟩]⟩,
  /- chassis power diag -/ ⟨[99, 104, 97, 115, 115, 105, 115, 32, 112, 111, 119, 101, 114, 32, 100, 105, 97, 103], [[99, 104, 97, 115, 115, 105, 115], [112, 111, 119, 101, 114], [100, 105, 97, 103]], 239, [⟨/- chassis_control_power_diagnostic_interrupt -/ 259, true, 0, []⟩]⟩,
  /- chassis power soft -/ ⟨[99, 104, 97, 115, 115, 105, 115, 32, 112, 111, 119, 101, 114, 32, 115, 111, 102, 116], [[99, 104, 97, 115, 115, 105, 115], [112, 111, 119, 101, 114], [115, 111, 102, 116]], 239, [⟨/- chassis_control_power_soft_shutdown -/ 260, true, 0, []⟩]⟩]

/-- `ipmi.<m>()` calls of `main` itself -/
def mainRefs : List MethodRef := [⟨/- open -/ 100, true, 0, []⟩, ⟨/- close -/ 19, true, 0, []⟩]

/-- `chassis_control_*` method ↦ option it passes to `chassis_control` -/
def chassisControl : List (Nat × Nat) := [(/- chassis_control_power_down -/ 12, 0), (/- chassis_control_power_up -/ 13, 1), (/- chassis_control_power_cycle -/ 11, 2), (/- chassis_control_hard_reset -/ 10, 3), (/- chassis_control_diagnostic_interrupt -/ 9, 4), (/- chassis_control_soft_shutdown -/ 14, 5)]

/-- variables of `main`: 0=verbose, 1=interface_name, 2=target_address, 3=target_routing, 4=rmcp_host, 5=rmcp_port, 6=rmcp_user, 7=rmcp_password, 8=rmcp_priv_level, 9=interface_options, 10=json_output -/
def vars : List String := ["verbose", "interface_name", "target_address", "target_routing", "rmcp_host", "rmcp_port", "rmcp_user", "rmcp_password", "rmcp_priv_level", "interface_options", "json_output"]

def shape : MainShape := {
  optString := [116, 58, 104, 118, 86, 73, 58, 72, 58, 85, 58, 80, 58, 76, 58, 111, 58, 98, 58, 112, 58, 114, 58, 74]  /- t:hvVI:H:U:P:L:o:b:p:r:J -/
  rules := [
  /- -v → verbose -/ ⟨118, (OptAct.assign 0 Conv.constTrue)⟩,
  /- -h -/ ⟨104, OptAct.exitOk⟩,
  /- -V -/ ⟨86, OptAct.exitOk⟩,
  /- -t → target_address -/ ⟨116, (OptAct.assign 2 Conv.int0)⟩,
  /- -b → target_routing -/ ⟨98, (OptAct.assign 3 (Conv.routeChannel 32 0 false))⟩,
  /- -r → target_routing -/ ⟨114, (OptAct.assign 3 Conv.str)⟩,
  /- -H → rmcp_host -/ ⟨72, (OptAct.assign 4 Conv.str)⟩,
  /- -p → rmcp_port -/ ⟨112, (OptAct.assign 5 Conv.int0)⟩,
  /- -U → rmcp_user -/ ⟨85, (OptAct.assign 6 Conv.str)⟩,
  /- -P → rmcp_password -/ ⟨80, (OptAct.assign 7 Conv.str)⟩,
  /- -L → rmcp_priv_level -/ ⟨76, (OptAct.assign 8 Conv.str)⟩,
  /- -I → interface_name -/ ⟨73, (OptAct.assign 1 Conv.str)⟩,
  /- -o → interface_options -/ ⟨111, (OptAct.assign 9 Conv.str)⟩,
  /- -J → json_output -/ ⟨74, (OptAct.assign 10 Conv.constTrue)⟩]
  defaults := [(Val.bool false), (Val.str [97, 97, 114, 100, 118, 97, 114, 107]), (Val.int 32), Val.none, Val.none, (Val.int 623), (Val.str []), (Val.str []), Val.none, Val.emptyList, (Val.bool false)]
  getoptExit := 2
  noArgsExit := 1
  noCmdExit := 1
  ifaceErrExit := 1
  vIface := 1
  vIfaceOpts := 9
  vTarget := 2
  vRouting := 3
  vHost := 4
  vPort := 5
  vUser := 6
  vPassword := 7
  vPriv := 8
  closeInside := false }

/-- `except` clauses around `ipmi.open(); cmd(ipmi, args)` -/
def exits : List ExitClause := [
  /- CompletionCodeError -/ ⟨[.lib .completionCodeError], (some (MsgFmt.hex2cc [67, 111, 109, 109, 97, 110, 100, 32, 114, 101, 116, 117, 114, 110, 101, 100, 32, 119, 105, 116, 104, 32, 99, 111, 109, 112, 108, 101, 116, 105, 111, 110, 32, 99, 111, 100, 101, 32, 48, 120])), 1⟩,
  /- IpmiTimeoutError -/ ⟨[.lib .ipmiTimeoutError], (some (MsgFmt.lit [67, 111, 109, 109, 97, 110, 100, 32, 116, 105, 109, 101, 100, 32, 111, 117, 116])), 1⟩,
  /- KeyboardInterrupt -/ ⟨[.keyboardInterrupt], none, 1⟩]

/-- the exception classes of `pyipmi/errors.py`, in source order -/
def errorClasses : List String := ["DecodingError", "EncodingError", "IpmiTimeoutError", "CompletionCodeError", "NotSupportedError", "DescriptionError", "RetryError", "DataNotFound", "HpmError", "IpmiConnectionError", "IpmiLongPasswordError"]

/-- every `int(args[k])` (base0 = false) / `int(args[k], 0)` (true) of a handler: entry, k, base0 -/
def argConvs : List ArgConv := [/- sensor rearm -/ ⟨5, 0, true⟩, /- sdr raw -/ ⟨7, 0, true⟩, /- sdr show -/ ⟨8, 0, true⟩, /- fru print -/ ⟨10, 0, false⟩, /- picmg portstate get -/ ⟨13, 0, false⟩, /- picmg portstate get -/ ⟨13, 1, false⟩, /- picmg channel status -/ ⟨15, 0, false⟩, /- picmg channel power -/ ⟨17, 0, false⟩, /- hpm install -/ ⟨21, 1, false⟩]

/-- the printing handlers -/
def handlers : HandlerShape := {
  linkNoneGuard := false
  idStringGuard := false
  entityGuard := false
  stateNoneGuard := false
  convCatch := [("sdr list", ["CompletionCodeError"]), ("sdr show", ["ValueError"]), ("sdr showall", ["ValueError"])] }

/-- FROZEN: the printing handlers after the repairs of the first audit round (commit 9e975ea: 45221a9, 33a26cf,
02a3660 and b88fd9b - `sensor_value()` catches `(ValueError, ArithmeticError)`), as `Gen.Cli.handlers` was
generated from that tree.  Subject of `Props.C20.nonlinear_afterRound1_counterexample`: the DecodingError that
`lin` raises for a non-linear sensor (70h..7Fh) was still not caught. -/
def handlersAfterRound1 : HandlerShape := {
  linkNoneGuard := true
  idStringGuard := true
  entityGuard := true
  stateNoneGuard := true
  convCatch := [("sdr list", ["ArithmeticError", "CompletionCodeError", "ValueError"]), ("sdr show", ["ArithmeticError", "ValueError"]), ("sdr showall", ["ArithmeticError", "ValueError"])] }

/-- `SdrCommon.from_data`: record type ↦ (class sets `device_id_string`, class sets `entity_id`) -/
def sdrClasses : List (Nat × Bool × Bool) := [/- SdrFullSensorRecord -/ (0x01, true, true), /- SdrCompactSensorRecord -/ (0x02, true, true), /- SdrEventOnlySensorRecord -/ (0x03, true, true), /- SdrFruDeviceLocator -/ (0x11, true, true), /- SdrManagementControllerDeviceLocator -/ (0x12, true, true), /- SdrManagementControllerConfirmationRecord -/ (0x13, false, false), /- SdrOEMSensorRecord -/ (0xc0, false, false)]
/-- every other record type: SdrUnknownSensorRecord -/
def sdrDefault : Bool × Bool := (false, false)

/-- `NAME` of every class in `pyipmi.interfaces.INTERFACES` -/
def interfaces : List Str := [/- ipmitool -/ [105, 112, 109, 105, 116, 111, 111, 108], /- aardvark -/ [97, 97, 114, 100, 118, 97, 114, 107], /- ipmbdev -/ [105, 112, 109, 98, 100, 101, 118], /- mock -/ [109, 111, 99, 107], /- rmcp -/ [114, 109, 99, 112]]

/-- interned identifiers: id ↦ name -/
def names : List String := [
  "ACTIVATION_LOCK_CLEAR", "ACTIVATION_LOCK_SET", "DEACTIVATION_LOCK_CLEAR", "DEACTIVATION_LOCK_SET", "abort_firmware_upgrade", "activate_firmware",
  "activate_firmware_and_wait", "activation_stage", "chassis_control", "chassis_control_diagnostic_interrupt", "chassis_control_hard_reset", "chassis_control_power_cycle",
  "chassis_control_power_down", "chassis_control_power_up", "chassis_control_soft_shutdown", "clear_fru_activation_lock", "clear_fru_deactivation_lock", "clear_sdr_repository",
  "clear_sel", "close", "cold_reset", "delete_sdr", "delete_sel_entry", "device_sdr_entries",
  "disable_user", "enable_user", "find_component_id_by_descriptor", "finish_firmware_upload", "finish_upload_and_wait", "fru_control",
  "fru_control_cold_reset", "fru_control_diagnostic_interrupt", "fru_control_graceful_reboot", "fru_control_warm_reset", "get_and_clear_sel_entry", "get_boot_device",
  "get_boot_mode", "get_boot_persistency", "get_channel_authentication_capabilities", "get_chassis_status", "get_component_properties", "get_component_property",
  "get_dcmi_capabilities", "get_dcmi_sensor_record_ids", "get_device_guid", "get_device_id", "get_device_sdr", "get_device_sdr_list",
  "get_event_receiver", "get_fan_level", "get_fan_speed_properties", "get_fru_board_area", "get_fru_chassis_area", "get_fru_inventory",
  "get_fru_inventory_area_info", "get_fru_inventory_header", "get_fru_multirecord_area", "get_fru_product_area", "get_initialization_agent_status", "get_ip_address",
  "get_ip_source", "get_lan_config_param", "get_led_state", "get_mac_address", "get_picmg_properties", "get_pm_global_status",
  "get_port_state", "get_power_channel_status", "get_power_level", "get_power_reading", "get_repository_sdr", "get_repository_sdr_list",
  "get_sdr_repository_allocation_info", "get_sdr_repository_info", "get_sel_entries", "get_sel_entries_count", "get_sel_entry", "get_sel_reservation_id",
  "get_sensor_reading", "get_sensor_thresholds", "get_signaling_class", "get_system_boot_options", "get_target_upgrade_capabilities", "get_upgrade_status",
  "get_upgrade_version_from_file", "get_user_access", "get_username", "get_vlan_id", "get_watchdog_timer", "i2c_read",
  "i2c_write", "i2c_write_read", "initiate_manual_rollback", "initiate_manual_rollback_and_wait", "initiate_upgrade_action", "initiate_upgrade_action_and_wait",
  "install_component_from_file", "install_component_from_image", "interface", "is_ipmc_accessible", "open", "open_upgrade_image",
  "partial_add_sdr", "preparation_stage", "query_rollback_status", "query_selftest_results", "raw_command", "read_fru_data",
  "read_fru_data_full", "rearm_sensor_events", "reserve_device_sdr_repository", "reserve_sdr_repository", "reset_watchdog_timer", "sdr_repository_entries",
  "sel_entries", "send_channel_power", "send_message", "send_message_with_name", "send_platform_event", "send_pm_heartbeat",
  "session", "set_boot_options", "set_event_receiver", "set_fan_level", "set_fru_activation", "set_fru_activation_lock",
  "set_fru_activation_policy", "set_fru_deactivation", "set_fru_deactivation_lock", "set_ip_address", "set_ip_source", "set_lan_config_param",
  "set_led_state", "set_port_state", "set_sensor_thresholds", "set_signaling_class", "set_system_boot_options", "set_user_access",
  "set_user_password", "set_username", "set_vlan_id", "set_watchdog_timer", "start_initialization_agent", "target",
  "upgrade_stage", "upload_binary", "upload_firmware_block", "wait_for_long_duration_command", "wait_until_ipmb_is_accessible", "wait_until_new_firmware_comes_up",
  "warm_reset", "write_fru_data", "rollback_override", "timeout", "interval", "image",
  "component", "option", "fru_id", "retry", "record_id", "reservation",
  "userid", "descriptor", "length", "channel", "priv_lvl", "component_id",
  "property_id", "selector", "reservation_id", "parameter_selector", "set_selector", "block_selector",
  "revision_only", "led_id", "channel_number", "channel_interface", "start", "power_type",
  "mode", "attributes", "sensor_number", "lun", "filename", "bus_type",
  "bus_id", "address", "count", "data", "components_mask", "action",
  "offset", "progress", "netfn", "raw_bytes", "enable", "current_limit",
  "primary_pm", "backup_pm", "req", "name", "sensor_type", "event_type",
  "asserted", "event_data", "boot_device", "boot_mode", "boot_persistency", "ipmb_address",
  "fan_level", "ctrl", "ip_address", "ip_source", "led", "link_descr",
  "state", "unr", "ucr", "unc", "lnc", "lcr",
  "lnr", "signaling_class", "mark_parameter_invalid", "ipmi_msg", "link_auth", "callback_only",
  "priv_level", "enable_change", "user_session_limit", "password", "username", "vlan",
  "config", "binary", "block_number", "expected_cmd", "cmd_bmc_info", "<lambda>",
  "cmd_sel_clear", "cmd_sensor_rearm", "cmd_sdr_list", "cmd_sdr_show_raw", "cmd_sdr_show", "cmd_sdr_show_all",
  "cmd_fru_print", "cmd_picmg_frucontrol_cold_reset", "cmd_picmg_get_power", "cmd_picmg_get_portstate", "cmd_picmg_get_portstate_all", "cmd_picmg_getpower_channel_status",
  "cmd_picmg_send_pm_heartbeat", "cmd_picmg_send_channel_power", "cmd_raw", "cmd_hpm_capabilities", "cmd_hpm_check_file", "cmd_hpm_install",
  "cmd_chassis_status", "chassis_control_power_diagnostic_interrupt", "chassis_control_power_soft_shutdown"]

end PyIpmi.Cli.AsShipped
