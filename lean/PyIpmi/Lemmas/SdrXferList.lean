/-
  Lemmas/SdrXferList.lean — C11: the listing generators (sdr_repository_entries /
  device_sdr_entries) against the reference device, and what any device sees after it cancelled a
  reservation (the exchange trace of the model over an arbitrary transport).
-/
import PyIpmi.Lemmas.SdrXferTotal
namespace PyIpmi.Model.SdrXfer
open PyIpmi PyIpmi.Model.Retry PyIpmi.Spec.Sdr
set_option linter.unusedSimpArgs false
set_option linter.unusedVariables false

/-! ### a well-formed store is a chain -/

theorem findRec_skip {pre l : List (List Nat)} {id : Nat} (h : ∀ q ∈ pre, recId q ≠ id) :
    findRec (pre ++ l) id = findRec l id := by
  induction pre with
  | nil => rfl
  | cons p pre ih =>
    simp only [List.cons_append, findRec]
    rw [if_neg (h p (by simp))]
    exact ih (fun q hq => h q (by simp [hq]))

theorem findRec_head (r : List Nat) (rest : List (List Nat)) : findRec (r :: rest) (recId r) = some (r, nextOf rest) := by
  simp [findRec]

theorem recsWf_split {pre : List (List Nat)} {r : List Nat} {rest : List (List Nat)}
    (h : recsWf (pre ++ r :: rest)) :
    recWf r ∧ recId r ≠ lastRecord ∧ (∀ q ∈ pre, recId q ≠ recId r) ∧ (pre ≠ [] → recId r ≠ 0) := by
  induction pre with
  | nil =>
    simp only [List.nil_append, recsWf] at h
    exact ⟨h.1, h.2.1, by simp, by simp⟩
  | cons p pre ih =>
    simp only [List.cons_append, recsWf] at h
    obtain ⟨_, _, hall, hrest⟩ := h
    obtain ⟨h1, h2, h3, _⟩ := ih hrest
    have hr := hall r (by simp)
    refine ⟨h1, h2, ?_, fun _ => hr.2⟩
    intro q hq
    rcases List.mem_cons.mp hq with rfl | hq
    · exact fun e => hr.1 e.symm
    · exact h3 q hq

/-- the record after a non-empty prefix is found under its own id, with its successor -/
theorem lookup_chain {pre : List (List Nat)} {r : List Nat} {rest : List (List Nat)}
    (h : recsWf (pre ++ r :: rest)) (hpre : pre ≠ []) :
    lookup (pre ++ r :: rest) (recId r) = some (r, nextOf rest) := by
  obtain ⟨_, _, h3, h4⟩ := recsWf_split h
  unfold lookup
  rw [if_neg (h4 hpre), findRec_skip h3, findRec_head]

theorem lookup_first (r : List Nat) (rest : List (List Nat)) : lookup (r :: rest) 0 = some (r, nextOf rest) := by
  simp [lookup]

/-! ### listing: exact or an error -/

theorem entries_sound {cfg : Cfg} (hw : cfg.wf) (v : Variant) (hv : v.fallThrough = false) (s : Store) :
    ∀ fuel st res id pre r rest, cfg.recs s = pre ++ r :: rest →
      lookup (cfg.recs s) id = some (r, nextOf rest) → id < 65536 →
      (∀ l, (entries K XK v (step cfg) s fuel st res id pre).2 = .ok l → l = cfg.recs s) ∧
      (rest.length < fuel → Allowed (entries K XK v (step cfg) s fuel st res id pre).2) := by
  intro fuel
  induction fuel with
  | zero =>
    intro st res id pre r rest _ _ _
    simp [entries]
  | succ f ih =>
    intro st res id pre r rest hrecs hl hid
    rw [entries]
    have ha := getSdrDataR_allowed hw v hv s st id hid (some res)
    rcases hg : getSdrDataR K XK v (step cfg) s st id (some res) with ⟨st1, o⟩
    rw [hg] at ha
    cases o with
    | ok p =>
      obtain ⟨⟨nx, d⟩, res1⟩ := p
      have hx := getSdrDataR_exact hw v hv s st id hid (some res) hg
      rw [hl] at hx
      injection hx with hx
      injection hx with h1 h2
      subst h1; subst h2
      simp only
      cases rest with
      | nil =>
        have e1 : ¬ (nextOf [] = 0) := by simp [nextOf, lastRecord]
        have e2 : nextOf [] = XK.lastId := rfl
        simp only [if_neg e1, if_pos e2]
        refine ⟨?_, fun _ => by simp [Allowed]⟩
        intro l hl'
        injection hl' with hl'
        rw [← hl', hrecs]
      | cons r1 rest1 =>
        have hwf := wf_recs hw s
        have hrecs' : cfg.recs s = (pre ++ [r]) ++ r1 :: rest1 := by rw [hrecs]; simp
        rw [hrecs'] at hwf
        obtain ⟨w1, w2, _, w4⟩ := recsWf_split hwf
        have e1 : ¬ (nextOf (r1 :: rest1) = 0) := by simpa [nextOf] using w4 (by simp)
        have e2 : ¬ (nextOf (r1 :: rest1) = XK.lastId) := by
          have hk : XK.lastId = lastRecord := rfl
          rw [hk]; simpa [nextOf] using w2
        simp only [if_neg e1, if_neg e2]
        have hl1 : lookup (cfg.recs s) (recId r1) = some (r1, nextOf rest1) := by
          rw [hrecs']; exact lookup_chain hwf (by simp)
        obtain ⟨i1, i2⟩ := ih st1 (if v.staleRes then res else res1) (recId r1) (pre ++ [r]) r1 rest1 hrecs' hl1 (recWf_facts w1).2.2.1
        exact ⟨i1, fun hlt => i2 (by simp at hlt; omega)⟩
    | retryError => simp [recast, Allowed]
    | ccError c => simp [recast, Allowed]
    | _ => simp [Allowed] at ha

theorem sdrList_sound {cfg : Cfg} (hw : cfg.wf) (v : Variant) (hv : v.fallThrough = false) (s : Store)
    (fuel : Nat) (st : State) :
    (∀ l, (sdrList K XK v (step cfg) s fuel st).2 = .ok l → l = cfg.recs s) ∧
    (1 ≤ fuel → (cfg.recs s).length ≤ fuel → Allowed (sdrList K XK v (step cfg) s fuel st).2) := by
  unfold sdrList
  have hr := reserve_allowed hw s st
  rcases hq : reserve K (step cfg) s st with ⟨st0, o⟩
  rw [hq] at hr
  cases o with
  | ok res =>
    simp only
    cases hrecs : cfg.recs s with
    | nil =>
      cases fuel with
      | zero => simp [entries]
      | succ f =>
        rw [entries]
        have ha := getSdrDataR_allowed hw v hv s st0 0 (by omega) (some res)
        rcases hg : getSdrDataR K XK v (step cfg) s st0 0 (some res) with ⟨st1, o⟩
        rw [hg] at ha
        cases o with
        | ok p =>
          obtain ⟨⟨nx, d⟩, res1⟩ := p
          have hx := getSdrDataR_exact hw v hv s st0 0 (by omega) (some res) hg
          rw [hrecs] at hx
          simp [lookup] at hx
        | retryError => simp [recast, Allowed]
        | ccError c => simp [recast, Allowed]
        | _ => simp [Allowed] at ha
    | cons r rest =>
      have hl : lookup (cfg.recs s) 0 = some (r, nextOf rest) := by rw [hrecs]; exact lookup_first r rest
      obtain ⟨i1, i2⟩ := entries_sound hw v hv s fuel st0 res 0 [] r rest (by simpa using hrecs) hl (by omega)
      rw [hrecs] at i1
      exact ⟨i1, fun _ hlen => i2 (by simp at hlen; omega)⟩
  | retryError => simp [recast, Allowed]
  | ccError c => simp [recast, Allowed]
  | _ => simp [Allowed] at hr

/-! ### listing: complete when every record fits -/

theorem entries_complete {cfg : Cfg} (hw : cfg.wf) (hnt : cfg.transients = []) (v : Variant)
    (hv : v.fallThrough = false) (s : Store) (hren : v.renew s = s) (h5 : 5 ≤ cfg.limit)
    (hfit : ∀ rec ∈ cfg.recs s, readsNeeded cfg.limit rec.length ≤ 19) :
    ∀ fuel st res id pre r rest, cfg.recs s = pre ++ r :: rest →
      lookup (cfg.recs s) id = some (r, nextOf rest) → id < 65536 → rest.length < fuel → pending cfg st ≤ 2 →
      ∃ st', entries K XK v (step cfg) s fuel st res id pre = (st', .ok (cfg.recs s)) := by
  intro fuel
  induction fuel with
  | zero => intro st res id pre r rest _ _ _ h; omega
  | succ f ih =>
    intro st res id pre r rest hrecs hl hid hfuel hp
    rw [entries]
    obtain ⟨st1, res1, hg, hn1⟩ := getSdrDataR_completes hw hnt v hv hren hid hl h5
      (hfit r (by rw [hrecs]; simp)) st (some res) hp
    rw [hg]
    simp only
    cases rest with
    | nil =>
      have e1 : ¬ (nextOf [] = 0) := by simp [nextOf, lastRecord]
      have e2 : nextOf [] = XK.lastId := rfl
      simp only [if_neg e1, if_pos e2]
      exact ⟨st1, by rw [hrecs]⟩
    | cons r1 rest1 =>
      have hwf := wf_recs hw s
      have hrecs' : cfg.recs s = (pre ++ [r]) ++ r1 :: rest1 := by rw [hrecs]; simp
      rw [hrecs'] at hwf
      obtain ⟨w1, w2, _, w4⟩ := recsWf_split hwf
      have e1 : ¬ (nextOf (r1 :: rest1) = 0) := by simpa [nextOf] using w4 (by simp)
      have e2 : ¬ (nextOf (r1 :: rest1) = XK.lastId) := by
        have hk : XK.lastId = lastRecord := rfl
        rw [hk]; simpa [nextOf] using w2
      simp only [if_neg e1, if_neg e2]
      have hl1 : lookup (cfg.recs s) (recId r1) = some (r1, nextOf rest1) := by
        rw [hrecs']; exact lookup_chain hwf (by simp)
      exact ih st1 (if v.staleRes then res else res1) (recId r1) (pre ++ [r]) r1 rest1 hrecs' hl1 (recWf_facts w1).2.2.1
        (by simp at hfuel; omega) (Nat.le_trans (pending_mono cfg hn1) hp)

theorem sdrList_complete {cfg : Cfg} (hw : cfg.wf) (hnt : cfg.transients = []) (v : Variant)
    (hv : v.fallThrough = false) (s : Store) (hren : v.renew s = s) (h5 : 5 ≤ cfg.limit)
    (hne : cfg.recs s ≠ []) (hfit : ∀ rec ∈ cfg.recs s, readsNeeded cfg.limit rec.length ≤ 19)
    (fuel : Nat) (hfuel : (cfg.recs s).length ≤ fuel) (st : State) (hp : pending cfg st ≤ 2) :
    ∃ st', sdrList K XK v (step cfg) s fuel st = (st', .ok (cfg.recs s)) := by
  unfold sdrList
  obtain ⟨st0, id0, hr, _, hn0⟩ := reserve_nt hnt s st
  rw [hr]
  simp only
  cases hrecs : cfg.recs s with
  | nil => exact absurd hrecs hne
  | cons r rest =>
    have hl : lookup (cfg.recs s) 0 = some (r, nextOf rest) := by rw [hrecs]; exact lookup_first r rest
    have := entries_complete hw hnt v hv s hren h5 hfit fuel st0 id0 0 [] r rest (by simpa using hrecs) hl
      (by omega) (by rw [hrecs] at hfuel; simp at hfuel; omega) (Nat.le_trans (pending_mono cfg (by omega)) hp)
    rw [hrecs] at this
    exact this

/-! ### what a device sees after it cancelled a reservation (any transport) -/

/-- a Get (Device) SDR answered C5h "reservation cancelled" -/
def isCancelledGet : Req × Rsp → Bool
  | (.get _ _ _ _ _, .err c) => c == ccResCanceled
  | _ => false

/-- `t` is a sequence of exchanges, all of them requests to store `s`, in which every cancelled Get
is immediately followed by a Reserve for store `s'` -/
inductive Renewing (s s' : Store) : List (Req × Rsp) → Prop
  | nil : Renewing s s' []
  | one (e : Req × Rsp) (rest : List (Req × Rsp)) : isCancelledGet e = false → e.1.store? = some s →
      Renewing s s' rest → Renewing s s' (e :: rest)
  | renew (e : Req × Rsp) (a : Rsp) (rest : List (Req × Rsp)) : isCancelledGet e = true → e.1.store? = some s →
      Renewing s s' rest → Renewing s s' (e :: (.reserve s', a) :: rest)

theorem Renewing.append {s s' : Store} {a b : List (Req × Rsp)} (ha : Renewing s s' a) (hb : Renewing s s' b) :
    Renewing s s' (a ++ b) := by
  induction ha with
  | nil => simpa using hb
  | one e rest h hs _ ih => exact Renewing.one e _ h hs ih
  | renew e a rest h hs _ ih => exact Renewing.renew e a _ h hs ih

/-- index form: the exchange after a cancelled Get exists and is the Reserve of store `s'` -/
theorem Renewing.next {s s' : Store} {t : List (Req × Rsp)} (h : Renewing s s' t) :
    ∀ i e, t[i]? = some e → isCancelledGet e = true → ∃ a, t[i + 1]? = some (.reserve s', a) := by
  induction h with
  | nil => intro i e h; simp at h
  | one e0 rest h0 _ _ ih =>
    intro i e he hc
    cases i with
    | zero => simp at he; subst he; rw [h0] at hc; cases hc
    | succ i => simp at he; simpa using ih i e he hc
  | renew e0 a rest h0 _ _ ih =>
    intro i e he hc
    cases i with
    | zero => exact ⟨a, by simp⟩
    | succ i =>
      cases i with
      | zero => simp at he; subst he; simp [isCancelledGet] at hc
      | succ i => simp at he; simpa using ih i e he hc

/-- when renewals go to the store being read, every request of the trace is one to that store -/
theorem Renewing.same_store {s : Store} {t : List (Req × Rsp)} (h : Renewing s s t) :
    ∀ e ∈ t, e.1.store? = some s := by
  induction h with
  | nil => intro e he; cases he
  | one e0 rest _ hs _ ih =>
    intro e he
    rcases List.mem_cons.mp he with rfl | he
    · exact hs
    · exact ih e he
  | renew e0 a rest _ hs _ ih =>
    intro e he
    rcases List.mem_cons.mp he with rfl | he
    · exact hs
    · rcases List.mem_cons.mp he with rfl | he
      · rfl
      · exact ih e he

/-- `b` continues the trace of `a` by requests to `s` in which cancelled Gets are renewed with `s'` -/
def Ext {σ : Type} (s s' : Store) (a b : σ × List (Req × Rsp)) : Prop :=
  ∃ ext, b.2 = a.2 ++ ext ∧ Renewing s s' ext

theorem Ext.refl {σ : Type} (s s' : Store) (a : σ × List (Req × Rsp)) : Ext s s' a a := ⟨[], by simp, Renewing.nil⟩

theorem Ext.trans {σ : Type} {s s' : Store} {a b c : σ × List (Req × Rsp)} (h1 : Ext s s' a b) (h2 : Ext s s' b c) :
    Ext s s' a c := by
  obtain ⟨e1, h1, r1⟩ := h1
  obtain ⟨e2, h2, r2⟩ := h2
  exact ⟨e1 ++ e2, by rw [h2, h1, List.append_assoc], r1.append r2⟩

section trace
variable {σ : Type} (x : Xport σ)

theorem reserve_traced (s' : Store) (st : σ × List (Req × Rsp)) :
    ∃ a, (reserve K (traced x) s' st).1.2 = st.2 ++ [(.reserve s', a)] := by
  unfold reserve traced
  rcases hx : x st.1 (.reserve s') with ⟨st', r⟩
  cases r <;> exact ⟨_, rfl⟩

theorem reserve_ext (s s' : Store) (st : σ × List (Req × Rsp)) : Ext s s' st (reserve K (traced x) s st).1 := by
  obtain ⟨a, h⟩ := reserve_traced x s st
  exact ⟨_, h, Renewing.one _ _ rfl rfl Renewing.nil⟩

/-- one `send_fn(req)`: one more exchange, a cancelled Get exactly when the helper sees C5h -/
theorem sendGet_traced (s : Store) (id off cnt : Nat) (st : σ × List (Req × Rsp)) (res : Nat) :
    ∃ e, (sendGet K (traced x) s id off cnt st res).1.2 = st.2 ++ [e] ∧ e.1.store? = some s ∧
      (match (sendGet K (traced x) s id off cnt st res).2 with
       | .ok (c, _) => (isCancelledGet e = true ↔ c = K.chunkRenew)
       | _ => isCancelledGet e = false) := by
  unfold sendGet traced
  rcases hx : x st.1 (.get s (res % 65536) (id % 65536) (off % 256) (cnt % 256)) with ⟨st', r⟩
  cases r with
  | data nx b =>
    refine ⟨_, rfl, rfl, ?_⟩
    simp [isCancelledGet, K, PyIpmi.Gen.Loops11.consts]
  | err c0 =>
    refine ⟨_, rfl, rfl, ?_⟩
    simp [isCancelledGet, ccResCanceled, K, PyIpmi.Gen.Loops11.consts]
  | reserved _ =>
    refine ⟨_, rfl, rfl, ?_⟩
    simp [isCancelledGet]

theorem chunkLoop_ext (s s' : Store) (id off cnt : Nat) :
    ∀ b st res, Ext s s' st (chunkLoop K (sendGet K (traced x) s id off cnt) (reserve K (traced x) s') b st res).1 := by
  intro b
  induction b with
  | zero => intro st res; simp [chunkLoop]; exact Ext.refl _ _ _
  | succ r ih =>
    intro st res
    rw [chunkLoop_succ]
    by_cases hr0 : r = 0
    · simp [hr0]; exact Ext.refl _ _ _
    · simp only [if_neg hr0]
      obtain ⟨e, he, hst, hc⟩ := sendGet_traced x s id off cnt st res
      rcases hs : sendGet K (traced x) s id off cnt st res with ⟨st1, o⟩
      rw [hs] at he hc
      simp only at he hc
      cases o with
      | ok cp =>
        obtain ⟨cc, q⟩ := cp
        simp only at hc
        have hcc := hc
        simp only
        by_cases c1 : cc = K.ccOk
        · simp only [if_pos c1]
          have : isCancelledGet e = false := by
            cases hh : isCancelledGet e with
            | false => rfl
            | true => have := hcc.mp hh; rw [c1] at this; cases this
          exact ⟨[e], he, Renewing.one _ _ this hst Renewing.nil⟩
        · simp only [if_neg c1]
          by_cases c2 : cc = K.chunkRenew
          · simp only [if_pos c2]
            have hcg : isCancelledGet e = true := hcc.mpr c2
            obtain ⟨a, hra⟩ := reserve_traced x s' st1
            rcases hq : reserve K (traced x) s' st1 with ⟨st2, o2⟩
            rw [hq] at hra
            simp only at hra
            have h12 : Ext s s' st st2 := ⟨[e, (.reserve s', a)], by rw [hra, he]; simp,
              Renewing.renew _ _ _ hcg hst Renewing.nil⟩
            cases o2 with
            | ok res' => exact Ext.trans h12 (ih _ _)
            | _ => exact h12
          · simp only [if_neg c2]
            have hng : isCancelledGet e = false := by
              cases hh : isCancelledGet e with
              | false => rfl
              | true => exact absurd (hcc.mp hh) c2
            have h1 : Ext s s' st st1 := ⟨[e], he, Renewing.one _ _ hng hst Renewing.nil⟩
            by_cases c3 : cc = K.chunkRetry1 ∨ cc = K.chunkRetry2
            · simp only [if_pos c3]; exact Ext.trans h1 (ih _ _)
            · simp only [if_neg c3]; exact h1
      | _ => exact ⟨[e], he, Renewing.one _ _ hc hst Renewing.nil⟩

theorem getChunk_ext (v : Variant) (s : Store) (st : σ × List (Req × Rsp)) (res id off cnt : Nat) :
    Ext s (v.renew s) st (getChunk K v (traced x) s st res id off cnt).1 := by
  unfold getChunk
  exact chunkLoop_ext x s (v.renew s) id off cnt _ _ _

theorem dataLoop_ext {τ : Type} (s s' : Store) (X : XConsts) (v : Variant)
    (get : τ × List (Req × Rsp) → Nat → Nat → Nat → ((τ × List (Req × Rsp)) × Outcome (Nat × List Nat)) × Nat)
    (hget : ∀ st res off len, Ext s s' st (get st res off len).1.1) (recLen : Nat) :
    ∀ r m st res acc next last, Ext s s' st (dataLoop X v get recLen r m st res acc next last).1 := by
  intro r
  induction r with
  | zero => intro m st res acc next last; simp [dataLoop]; exact Ext.refl _ _ _
  | succ r ih =>
    intro m st res acc next last
    rw [dataLoop_succ]
    by_cases hr0 : r = 0
    · simp [hr0]; exact Ext.refl _ _ _
    · simp only [if_neg hr0]
      have hg := hget st res acc.length (if acc.length + m > recLen then recLen - acc.length else m)
      rcases hgd : get st res acc.length (if acc.length + m > recLen then recLen - acc.length else m) with ⟨⟨st1, o⟩, res1⟩
      rw [hgd] at hg
      simp only at hg
      cases o with
      | ok p =>
        obtain ⟨nx, d⟩ := p
        simp only
        split
        · exact hg
        · exact Ext.trans hg (ih _ _ _ _ _ _)
      | ccError c =>
        simp only
        split
        · split
          · exact hg
          · split
            · split
              · exact hg
              · exact Ext.trans hg (ih _ _ _ _ _ _)
            · exact Ext.trans hg (ih _ _ _ _ _ _)
        · exact hg
      | _ => exact hg

theorem getSdrDataWith_ext (v : Variant) (s : Store) (st : σ × List (Req × Rsp)) (id res : Nat) :
    Ext s (v.renew s) st (getSdrDataWith K XK v (traced x) s st id res).1 := by
  unfold getSdrDataWith
  have hc := getChunk_ext x v s st res id 0 XK.hdrLen
  rcases hgf : getFn K v (traced x) s id st res 0 XK.hdrLen with ⟨⟨st1, o⟩, res1⟩
  have hg := getFn_eq hgf
  rw [hg] at hc
  simp only at hc
  cases o with
  | ok p =>
    obtain ⟨nx, d⟩ := p
    simp only
    split
    · exact hc
    · exact Ext.trans hc (dataLoop_ext s (v.renew s) XK v _ (fun st res off len => getChunk_ext x v s st res _ off len) _ _ _ _ _ _ _ _)
  | _ => exact hc

theorem getSdrDataR_ext (v : Variant) (s : Store) (st : σ × List (Req × Rsp)) (id : Nat) (res? : Option Nat) :
    Ext s (v.renew s) st (getSdrDataR K XK v (traced x) s st id res?).1 := by
  unfold getSdrDataR
  cases res? with
  | some r => exact getSdrDataWith_ext x v s st id r
  | none =>
    simp only
    have hr := reserve_ext x s (v.renew s) st
    rcases hq : reserve K (traced x) s st with ⟨st0, o⟩
    rw [hq] at hr
    simp only at hr
    cases o with
    | ok r => exact Ext.trans hr (getSdrDataWith_ext x v s st0 id r)
    | _ => exact hr

theorem getSdrData_ext (v : Variant) (s : Store) (st : σ × List (Req × Rsp)) (id : Nat) (res? : Option Nat) :
    Ext s (v.renew s) st (getSdrData K XK v (traced x) s st id res?).1 :=
  getSdrDataR_ext x v s st id res?

theorem entries_ext (v : Variant) (s : Store) :
    ∀ fuel (st : σ × List (Req × Rsp)) res id acc, Ext s (v.renew s) st (entries K XK v (traced x) s fuel st res id acc).1 := by
  intro fuel
  induction fuel with
  | zero => intro st res id acc; simp [entries]; exact Ext.refl _ _ _
  | succ f ih =>
    intro st res id acc
    rw [entries]
    have hg := getSdrDataR_ext x v s st id (some res)
    rcases hgd : getSdrDataR K XK v (traced x) s st id (some res) with ⟨st1, o⟩
    rw [hgd] at hg
    simp only at hg
    cases o with
    | ok p =>
      obtain ⟨⟨nx, d⟩, res1⟩ := p
      simp only
      split
      · exact hg
      · split
        · exact hg
        · exact Ext.trans hg (ih _ _ _ _)
    | _ => exact hg

theorem sdrList_ext (v : Variant) (s : Store) (fuel : Nat) (st : σ × List (Req × Rsp)) :
    Ext s (v.renew s) st (sdrList K XK v (traced x) s fuel st).1 := by
  unfold sdrList
  have hr := reserve_ext x s (v.renew s) st
  rcases hq : reserve K (traced x) s st with ⟨st0, o⟩
  rw [hq] at hr
  simp only at hr
  cases o with
  | ok r => exact Ext.trans hr (entries_ext x v s fuel st0 r 0 [])
  | _ => exact hr

end trace

end PyIpmi.Model.SdrXfer
