/-
  Lemmas/LoopsOps.lean — histories of operations on one Rmcp object (Model/RmcpOps.lean) are runs of requests
  (`Trace`), and what a run of requests does to the sequence counter.
-/
import PyIpmi.Model.RmcpOps
namespace PyIpmi.Loops

theorem Trace.append {cfg : Cfg} {st st1 st2 : IfState} {a b : List Step}
    (h1 : Trace cfg st a st1) (h2 : Trace cfg st1 b st2) : Trace cfg st (a ++ b) st2 := by
  induction h1 with
  | nil st => exact h2
  | sock st sock _ ih => exact .sock st sock (ih h2)
  | cons st req evs _ ih => exact .cons st req evs (ih h2)

theorem runChain_trace (cfg : Cfg) (go : Nat → Frame → Bool) (st : IfState) (k : Nat)
    (hs : List (Req × List RxEvent)) :
    Trace cfg st (runChain cfg go st k hs).2 (runChain cfg go st k hs).1 := by
  induction hs generalizing st k with
  | nil => exact .nil st
  | cons p more ih =>
    obtain ⟨req, evs⟩ := p
    simp only [runChain]
    split
    · split
      · exact .cons st req evs (ih _ _)
      · exact .cons st req evs (.nil _)
    · exact .cons st req evs (.nil _)

theorem runOp_trace (cfg : Cfg) (st : IfState) (op : Op) : Trace cfg st (runOp cfg st op).2 (runOp cfg st op).1 := by
  cases op with
  | request req evs => exact .cons st req evs (.nil _)
  | establish ping hs go =>
    simp only [runOp]
    split
    · exact .sock st _ (runChain_trace cfg go _ 0 hs)
    · exact .sock st _ (.nil _)
  | close cs =>
    cases cs with
    | none => exact .nil st
    | some p => exact .cons st p.1 p.2 (.nil _)

theorem runOps_trace (cfg : Cfg) (st : IfState) (ops : List Op) :
    Trace cfg st (runOps cfg st ops).2 (runOps cfg st ops).1 := by
  induction ops generalizing st with
  | nil => exact .nil st
  | cons op more ih => exact (runOp_trace cfg st op).append (ih _)

/-- the counter after a run of `n` requests is the counter before it plus `n`, modulo 64: nothing resets it -/
theorem Trace.counter {cfg : Cfg} {st st' : IfState} {steps : List Step} (h : Trace cfg st steps st') :
    st'.nextSeq % 64 = (st.nextSeq + steps.length) % 64 := by
  induction h with
  | nil st => simp
  | sock st sock _ ih => exact ih
  | cons st req evs _ ih =>
    have h1 : (rmcpRequest cfg st req evs).st.nextSeq = (st.nextSeq + 1) % 64 := rfl
    rw [h1] at ih
    simp only [List.length_cons]
    omega

/-- request number `i` of a run is `rmcpRequest` of some request on an interface whose counter stands at
`start + i` (mod 64) -/
theorem Trace.get {cfg : Cfg} {st st' : IfState} {steps : List Step} (h : Trace cfg st steps st')
    (i : Nat) (s : Step) (hs : steps[i]? = some s) :
    ∃ st0 req evs, s = rmcpRequest cfg st0 req evs ∧ st0.nextSeq % 64 = (st.nextSeq + i) % 64 := by
  induction h generalizing i with
  | nil st => simp at hs
  | sock st sock _ ih => exact ih i hs
  | cons st req evs _ ih =>
    cases i with
    | zero =>
      simp only [List.getElem?_cons_zero, Option.some.injEq] at hs
      exact ⟨st, req, evs, hs.symm, by simp⟩
    | succ j =>
      simp only [List.getElem?_cons_succ] at hs
      obtain ⟨st0, req0, evs0, h1, h2⟩ := ih j hs
      refine ⟨st0, req0, evs0, h1, ?_⟩
      have h3 : (rmcpRequest cfg st req evs).st.nextSeq = (st.nextSeq + 1) % 64 := rfl
      rw [h3] at h2
      omega

end PyIpmi.Loops
