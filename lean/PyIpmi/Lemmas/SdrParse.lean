/-
  C16 lemmas: split-field reassembly for all byte pairs, the same composed with the
  specification's encoder, and `parse ∘ encode = view` for each record type (intended model).
  Core only.
-/
import PyIpmi.Lemmas.SdrId
namespace PyIpmi.SdrParse
open PyIpmi PyIpmi.Sensor PyIpmi.Spec.Sdr

/-! ### split fields, for ALL byte pairs -/

/-- M (and B): LS 8 bits in one byte, MS 2 bits in [7:6] of the next, 10-bit two's complement. -/
theorem tenbit_reassembled (lo hi : Nat) (h1 : lo < 256) (h2 : hi < 256) :
    convertComplement ((lo &&& 0xff) ||| ((hi &&& 0xc0) <<< 2)) 10 = sint 10 (lo + 256 * (hi / 64)) := by
  have e1 : lo &&& 0xff = lo := by rw [and_ff]; omega
  have e2 : (hi &&& 0xc0) <<< 2 = 256 * (hi / 64) := by rw [and_c0 hi h2]; omega
  rw [e1, e2, or_256 lo (hi / 64) h1 (by omega), cc10 _ (by omega)]

/-- accuracy: LS 6 bits in [5:0] of byte 28, MS 4 bits in [7:4] of byte 29 (intended `<< 2`). -/
theorem accuracy_reassembled_bytes (b28 b29 : Nat) (h2 : b29 < 256) :
    (b28 &&& 0x3f) ||| ((b29 &&& 0xf0) <<< 2) = b28 % 64 + 64 * (b29 / 16) := by
  have e2 : (b29 &&& 0xf0) <<< 2 = 64 * (b29 / 16) := by rw [and_f0 b29 h2]; omega
  rw [and_3f, e2, or_64 _ _ (by omega) (by omega)]

/-- exponents: R exponent in [7:4], B exponent in [3:0] of byte 30, 4-bit two's complement. -/
theorem exponents_signed_bytes (b30 : Nat) (h : b30 < 256) :
    convertComplement ((b30 &&& 0xf0) >>> 4) 4 = sint 4 (b30 / 16) ∧
    convertComplement (b30 &&& 0x0f) 4 = sint 4 (b30 % 16) := by
  have e1 : (b30 &&& 0xf0) >>> 4 = b30 / 16 := by rw [and_f0 b30 h]; omega
  rw [e1, and_f, cc4 _ (by omega), cc4 _ (by omega)]
  exact ⟨rfl, rfl⟩

/-! ### the same, composed with the specification's encoder -/

theorem m_enc (m : Int) (tol : Nat) (h1 : -512 ≤ m) (h2 : m ≤ 511) (ht : tol < 64) :
    convertComplement ((twosComp 10 m % 256 &&& 0xff) ||| (((twosComp 10 m / 256) * 64 + tol &&& 0xc0) <<< 2)) 10 = m := by
  obtain ⟨hu, hs⟩ := sint_twosComp10 m h1 h2
  rw [tenbit_reassembled _ _ (by omega) (by omega)]
  have : twosComp 10 m % 256 + 256 * ((twosComp 10 m / 256 * 64 + tol) / 64) = twosComp 10 m := by omega
  rw [this, hs]

theorem tol_enc (u tol : Nat) (ht : tol < 64) : (u * 64 + tol) &&& 0x3f = tol := by
  rw [and_3f]; omega

theorem acc_enc (u acc accx dir : Nat) (ha : acc < 1024) (hx : accx < 4) (hd : dir < 4) :
    ((u * 64 + acc % 64) &&& 0x3f) ||| (((acc / 64) * 16 + accx * 4 + dir &&& 0xf0) <<< 2) = acc := by
  rw [accuracy_reassembled_bytes _ _ (by omega)]; omega

theorem accx_enc (acc accx dir : Nat) (ha : acc < 1024) (hx : accx < 4) (hd : dir < 4) :
    ((acc / 64) * 16 + accx * 4 + dir &&& 0x0c) >>> 2 = accx := by
  rw [and_0c _ (by omega)]; omega

theorem k_enc (r b : Int) (h1 : -8 ≤ r) (h2 : r ≤ 7) (h3 : -8 ≤ b) (h4 : b ≤ 7) :
    convertComplement ((twosComp 4 r * 16 + twosComp 4 b &&& 0xf0) >>> 4) 4 = r ∧
    convertComplement (twosComp 4 r * 16 + twosComp 4 b &&& 0x0f) 4 = b := by
  obtain ⟨hr, sr⟩ := sint_twosComp4 r h1 h2
  obtain ⟨hb, sb⟩ := sint_twosComp4 b h3 h4
  obtain ⟨e1, e2⟩ := exponents_signed_bytes (twosComp 4 r * 16 + twosComp 4 b) (by omega)
  rw [e1, e2]
  have a1 : (twosComp 4 r * 16 + twosComp 4 b) / 16 = twosComp 4 r := by omega
  have a2 : (twosComp 4 r * 16 + twosComp 4 b) % 16 = twosComp 4 b := by omega
  rw [a1, a2, sr, sb]; exact ⟨rfl, rfl⟩

theorem lun_enc (ch lun : Nat) (h : lun < 4) : (ch * 16 + lun) &&& 0x3 = lun := by
  rw [and_3]; omega

/-- key byte 7 of tables 43-1, 43-2, 43-3: the channel number is [7:4] (reserved [3:2] = 0, owner LUN [1:0]). -/
theorem chan_enc (ch lun : Nat) (h : lun < 4) : (ch * 16 + lun) >>> 4 = ch := by omega

/-- The record key of a sensor record as the intended parser reports it. -/
theorem recordKey_enc (oid ch lun num : Nat) (h : lun < 4) :
    recordKey Variant.intended oid (ch * 16 + lun) num =
      [("owner_id", .nat oid), ("channel_number", .nat ch), ("owner_lun", .nat lun), ("number", .nat num)] := by
  have f : Variant.intended.keyNoChannel = false := rfl
  simp only [recordKey, f, Bool.false_eq_true, if_false, chan_enc _ _ h, lun_enc _ _ h, List.cons_append,
    List.nil_append]

/-- key byte 8 of table 43-7: [7] logical/physical, [6:5] reserved = 0, [4:3] access LUN, [2:0] private bus id. -/
theorem access_enc (l lun bus : Nat) (_h1 : l < 2) (h2 : lun < 4) (h3 : bus < 8) :
    (l * 128 + lun * 8 + bus) >>> 7 = l ∧ ((l * 128 + lun * 8 + bus) >>> 3) &&& 0x3 = lun ∧
    (l * 128 + lun * 8 + bus) &&& 0x7 = bus := by
  rw [and_3, and_7]; omega

theorem units_enc (fmt rate mod pct : Nat) (h1 : fmt < 4) (h2 : rate < 8) (h3 : mod < 4) (h4 : pct < 2) :
    ((fmt * 64 + rate * 8 + mod * 2 + pct) >>> 6) &&& 0x3 = fmt ∧
    ((fmt * 64 + rate * 8 + mod * 2 + pct) >>> 3) &&& 0x7 = rate ∧
    ((fmt * 64 + rate * 8 + mod * 2 + pct) >>> 1) &&& 0x3 = mod ∧
    (fmt * 64 + rate * 8 + mod * 2 + pct) &&& 0x1 = pct := by
  rw [and_3, and_7, and_3, and_1]; omega

theorem lin_enc (lin : Nat) (h : lin < 128) : lin &&& 0x7f = lin := by rw [and_7f]; omega

/-! ### records -/

theorem withId_encode (fs : Fields) (s : IdString) (h : s.wf = true) :
    withId Variant.intended fs s.encode = .ok (fs ++ s.view) := by
  have := idString_encode s h []
  rw [List.append_nil] at this
  simp only [withId, this]

theorem typeIndex_eq : Gen.SdrTables.typeIndex = typeByteIndex := by decide

/-- Generated dispatch table = §43 record type numbers, for every byte. -/
theorem kindOf_sweep : allLt 256 (fun t => decide (kindOf t = kindOfType t)) = true := by decide +kernel

theorem kindOf_eq (t : Nat) (h : t < 256) : kindOf t = kindOfType t := by
  simpa using allLt_spec kindOf_sweep t h

theorem parse_eventOnly (r : EventOnly) (h : r.wf = true) :
    parseSdr Variant.intended r.encode = .ok ⟨.eventOnly, r.view, []⟩ := by
  simp only [EventOnly.wf, Bool.and_eq_true, decide_eq_true_eq] at h
  obtain ⟨⟨⟨⟨⟨⟨⟨⟨⟨⟨⟨⟨h1, h2⟩, h3⟩, h4⟩, h5⟩, h6⟩, h7⟩, h8⟩, h9⟩, h10⟩, h11⟩, h12⟩, hid⟩ := h
  have hk : kindOf 0x03 = .eventOnly := by decide
  have hi : Gen.SdrTables.typeIndex = 3 := by decide
  simp only [EventOnly.encode, EventOnly.body, header, List.cons_append, List.nil_append, parseSdr, hi,
    List.getElem?_cons_succ, List.getElem?_cons_zero, hk, parseKind, parseEventOnly, withId_encode _ _ hid,
    leOr2_split _ h1, leOr2_split _ h11, recordKey_enc _ _ _ _ h5, List.cons_append, List.nil_append,
    EventOnly.view, headerView]

theorem parse_compact (r : CompactSensor) (h : r.wf = true) :
    parseSdr Variant.intended r.encode = .ok ⟨.compact, r.view, []⟩ := by
  simp only [CompactSensor.wf, Bool.and_eq_true, decide_eq_true_eq] at h
  obtain ⟨⟨⟨⟨⟨⟨⟨⟨⟨⟨⟨⟨⟨⟨⟨⟨⟨⟨⟨⟨⟨⟨h1, h2⟩, h3⟩, h4⟩, h5⟩, h6⟩, h7⟩, h8⟩, h9⟩, h10⟩, h11⟩, h12⟩, h13⟩, h14⟩, h15⟩,
    h16⟩, h17⟩, h18⟩, h19⟩, h20⟩, h21⟩, h22⟩, hid⟩ := h
  have hk : kindOf 0x02 = .compact := by decide
  have hi : Gen.SdrTables.typeIndex = 3 := by decide
  have hz : leOr [0, 0, 0] = 0 := by decide
  simp only [CompactSensor.encode, CompactSensor.body, header, List.cons_append, List.nil_append, parseSdr, hi,
    List.getElem?_cons_succ, List.getElem?_cons_zero, hk, parseKind, parseCompact, withId_encode _ _ hid,
    leOr2_split _ h1, leOr2_split _ h13, leOr2_split _ h14, leOr2_split _ h15, leOr2_split _ h19, hz,
    recordKey_enc _ _ _ _ h5, List.cons_append, List.nil_append, CompactSensor.view, headerView]

theorem parse_fruLocator (r : FruLocator) (h : r.wf = true) :
    parseSdr Variant.intended r.encode = .ok ⟨.fruLocator, r.view, []⟩ := by
  simp only [FruLocator.wf, Bool.and_eq_true, decide_eq_true_eq] at h
  obtain ⟨⟨⟨⟨⟨⟨⟨⟨⟨⟨⟨⟨⟨⟨h1, h2⟩, h3⟩, h4⟩, h5⟩, h5a⟩, h5b⟩, h6⟩, h6'⟩, h7⟩, h8⟩, h9⟩, h10⟩, h11⟩, hid⟩ := h
  obtain ⟨hl1, hl2, hl3⟩ := access_enc _ _ _ h5 h5a h5b
  have fl : Variant.intended.lpRaw = false := rfl
  have hk : kindOf 0x11 = .fruLocator := by decide
  have hi : Gen.SdrTables.typeIndex = 3 := by decide
  have ha : (r.accessAddress * 2) >>> 1 = r.accessAddress := by omega
  have hc : (r.channelNumber * 16 + r.channelLow) >>> 4 = r.channelNumber := by omega
  have fc : Variant.intended.chanRaw = false := rfl
  simp only [FruLocator.encode, FruLocator.body, header, List.cons_append, List.nil_append, parseSdr, hi,
    List.getElem?_cons_succ, List.getElem?_cons_zero, hk, parseKind, parseFruLocator, withId_encode _ _ hid,
    leOr2_split _ h1, ha, hc, fc, fl, hl1, hl2, hl3, Bool.false_eq_true, if_false, List.cons_append,
    List.nil_append, FruLocator.view, headerView]

theorem parse_mcLocator (r : McLocator) (h : r.wf = true) :
    parseSdr Variant.intended r.encode = .ok ⟨.mcLocator, r.view, [("global_initialization", .nat 0)]⟩ := by
  simp only [McLocator.wf, Bool.and_eq_true, decide_eq_true_eq] at h
  obtain ⟨⟨⟨⟨⟨⟨⟨⟨⟨h1, h2⟩, h3⟩, h4⟩, h5⟩, h6⟩, h7⟩, h8⟩, h9⟩, hid⟩ := h
  have hk : kindOf 0x12 = .mcLocator := by decide
  have hi : Gen.SdrTables.typeIndex = 3 := by decide
  have ha : (r.slaveAddress * 2) >>> 1 = r.slaveAddress := by omega
  have hc : r.channelNumber &&& 0xf = r.channelNumber := by rw [and_f]; omega
  have hz : leOr [0, 0, 0] = 0 := by decide
  simp only [McLocator.encode, McLocator.body, header, List.cons_append, List.nil_append, parseSdr, hi,
    List.getElem?_cons_succ, List.getElem?_cons_zero, hk, parseKind, parseMcLocator, withId_encode _ _ hid,
    leOr2_split _ h1, ha, hc, hz, McLocator.view, headerView]


theorem parse_mcConfirmation (r : McConfirmation) (h : r.wf = true) :
    parseSdr Variant.intended r.encode = .ok ⟨.mcConfirmation, r.view, []⟩ := by
  simp only [McConfirmation.wf, Bool.and_eq_true, decide_eq_true_eq, beq_iff_eq, List.all_eq_true] at h
  obtain ⟨⟨⟨⟨⟨⟨⟨⟨⟨⟨⟨⟨h1, h2⟩, h3⟩, h4⟩, h5⟩, h5'⟩, h6⟩, h7⟩, h8⟩, h9⟩, h10⟩, hl⟩, hg⟩ := h
  have hk : kindOf 0x13 = .mcConfirmation := by decide
  have hc : (r.channelNumber * 16 + r.deviceRevision) >>> 4 = r.channelNumber := by omega
  have hd : (r.channelNumber * 16 + r.deviceRevision) &&& 0xf = r.deviceRevision := by rw [and_f]; omega
  have fc : Variant.intended.chanRaw = false := rfl
  have hi : Gen.SdrTables.typeIndex = 3 := by decide
  have ha : (r.slaveAddress * 2) >>> 1 = r.slaveAddress := by omega
  have hm : leOr [r.manufacturerId % 256, r.manufacturerId / 256 % 256, r.manufacturerId / 65536] &&& 0xfffff
      = r.manufacturerId := by
    rw [leOr3 _ _ _ (by omega) (by omega) (by omega), and_fffff]; omega
  have hlen : ¬ (r.guid.length < 16) := by omega
  have htake : r.guid.take 16 = r.guid := by rw [← hl]; exact List.take_length
  have hguid : leOr r.guid = leValue r.guid := leOr_eq_leValue _ (by simpa using hg)
  simp only [McConfirmation.encode, McConfirmation.body, header, List.cons_append, List.nil_append, parseSdr, hi,
    List.getElem?_cons_succ, List.getElem?_cons_zero, hk, parseKind, parseMcConfirmation, hlen, if_false,
    leOr2_split _ h1, leOr2_split _ h10, ha, hm, htake, hguid, hc, hd, fc, Bool.false_eq_true,
    List.cons_append, List.nil_append, McConfirmation.view, headerView]

theorem parse_unknown (r : Opaque) (h : r.wf = true) (ht : kindOfType r.type = .unknown) :
    parseSdr Variant.intended r.encode = .ok ⟨.unknown, r.view, []⟩ := by
  simp only [Opaque.wf, Bool.and_eq_true, decide_eq_true_eq] at h
  obtain ⟨⟨⟨⟨h1, h2⟩, h3⟩, h4⟩, h5⟩ := h
  have hk : kindOf r.type = .unknown := by rw [kindOf_eq _ h3, ht]
  have hi : Gen.SdrTables.typeIndex = 3 := by decide
  simp only [Opaque.encode, header, List.cons_append, List.nil_append, parseSdr, hi,
    List.getElem?_cons_succ, List.getElem?_cons_zero, hk, parseKind, leOr2_split _ h1, Opaque.view, headerView,
    List.append_nil]

theorem parse_oem (r : Opaque) (h : r.wf = true) (ht : r.type = 0xC0) (hb : 3 ≤ r.body.length) :
    ∃ ex, parseSdr Variant.intended r.encode = .ok ⟨.oem, r.view, ex⟩ := by
  simp only [Opaque.wf, Bool.and_eq_true, decide_eq_true_eq] at h
  obtain ⟨⟨⟨⟨h1, h2⟩, h3⟩, h4⟩, h5⟩ := h
  have hk : kindOf 0xC0 = .oem := by decide
  have hi : Gen.SdrTables.typeIndex = 3 := by decide
  obtain ⟨a, b, c, rest, hbody⟩ : ∃ a b c rest, r.body = a :: b :: c :: rest := by
    match r.body, hb with
    | a :: b :: c :: rest, _ => exact ⟨a, b, c, rest, rfl⟩
    | [], h => simp at h
    | [_], h => simp at h
    | [_, _], h => simp at h
  refine ⟨recordKey Variant.intended a b c, ?_⟩
  simp only [Opaque.encode, header, ht, hbody, List.cons_append, List.nil_append, parseSdr, hi,
    List.getElem?_cons_succ, List.getElem?_cons_zero, hk, parseKind, parseOem, leOr2_split _ h1, Opaque.view,
    headerView, List.append_nil, List.length_cons]

theorem parse_full (r : FullSensor) (h : r.wf = true) :
    parseSdr Variant.intended r.encode =
      .ok ⟨.full, r.view, [("capabilities", .list (capabilitiesOf r.capabilities))]⟩ := by
  simp only [FullSensor.wf, Bool.and_eq_true, decide_eq_true_eq] at h
  obtain ⟨⟨⟨⟨⟨⟨⟨⟨⟨⟨⟨⟨⟨⟨⟨⟨⟨⟨⟨⟨⟨⟨⟨⟨⟨⟨⟨⟨⟨⟨⟨⟨⟨⟨⟨⟨⟨⟨⟨⟨⟨⟨⟨⟨⟨⟨⟨⟨⟨h1, h2⟩, h3⟩, h4⟩, h5⟩, h6⟩, h7⟩, h8⟩, h9⟩, h10⟩,
    h11⟩, h12⟩, h13⟩, h14⟩, h15⟩, h16⟩, h17⟩, h18⟩, h19⟩, h20⟩, h21⟩, h22⟩, h23⟩, h24⟩, h25⟩, h26⟩,
    h27⟩, h28⟩, h29⟩, h30⟩, h31⟩, h32⟩, h33⟩, h34⟩, h35⟩, h36⟩, h37⟩, h38⟩, h39⟩, h40⟩, h41⟩, h42⟩,
    h43⟩, h44⟩, h45⟩, h46⟩, h47⟩, h48⟩, h49⟩, h50⟩ := h
  have hk : kindOf 0x01 = .full := by decide
  have hi : Gen.SdrTables.typeIndex = 3 := by decide
  have hz : leOr [0, 0] = 0 := by decide
  obtain ⟨u1, u2, u3, u4⟩ := units_enc _ _ _ _ h16 h17 h18 h19
  obtain ⟨k2, k1⟩ := k_enc _ _ h31 h32 h33 h34
  have f0 : Variant.intended.rateShr7 = false := rfl
  have f1 : Variant.intended.modAnd2 = false := rfl
  have f2 : Variant.intended.accShift4 = false := rfl
  simp only [FullSensor.encode, FullSensor.body, header, List.cons_append, List.nil_append, parseSdr, hi,
    List.getElem?_cons_succ, List.getElem?_cons_zero, hk, parseKind, parseFull, withId_encode _ _ h50,
    leOr2_split _ h1, leOr2_split _ h13, leOr2_split _ h14, leOr2_split _ h15, hz,
    recordKey_enc _ _ _ _ h5, List.cons_append, List.nil_append, flags_init _ h9, flags_analog _ (show r.analogFlags < 256 by omega),
    u1, u2, u3, u4, f0, f1, f2, Bool.false_eq_true, if_false, lin_enc _ h22,
    m_enc _ _ h23 h24 h25, tol_enc _ _ h25, m_enc _ _ h26 h27 (show r.accuracy % 64 < 64 by omega),
    acc_enc _ _ _ _ h28 h29 h30, accx_enc _ _ _ h28 h29 h30, k2, k1,
    FullSensor.view, headerView]

end PyIpmi.SdrParse
