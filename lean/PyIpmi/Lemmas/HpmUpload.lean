/-
  C18 upload lemmas: what `uploadLoop` makes the reference device record, for every plan.

  `checked = false` is the loop as shipped (the outcome of the status polls is ignored),
  `checked = true` the intended one (a final code other than 00h, or 80h still pending when the
  time-out expires, ends the upload with HpmError).
-/
import PyIpmi.Lemmas.Hpm
namespace PyIpmi.Hpm
open PyIpmi
open PyIpmi.Spec.HpmDevice

/-- answers inside the property's "in progress" quantifier -/
def benign : Reply → Prop
  | .ok => True
  | .inProgress _ _ => True
  | _ => False

/-- an answer after which a correct upload goes on: OK, or "in progress" whose long duration
command ends with 00h at a status poll the time-out still allows (poll number `k`, counting
from 0, is made `k * (lat + interval)` ticks after the block was answered) -/
def inTime (timeout interval lat : Nat) : Reply → Prop
  | .ok => True
  | .inProgress k f => f = 0 ∧ k * (lat + interval) < timeout
  | _ => False

/-- an answer that must end the upload: another completion code; "in progress" ending with a
final code other than 00h; "in progress" still pending when the time-out expires -/
def stops (timeout interval lat : Nat) : Reply → Prop
  | .err c => c ≠ 0 ∧ c ≠ 0x80
  | .inProgress k f => (f ≠ 0 ∧ f ≠ 0x80 ∧ k * (lat + interval) < timeout) ∨ timeout ≤ k * (lat + interval)
  | _ => False

/-- the status polls recorded after the block that ended the upload -/
def stopTail (timeout interval lat : Nat) (r : Reply) (n : Nat) : Prop :=
  match r with
  | .err _ => n = 0
  | .inProgress k _ =>
    1 ≤ n ∧ ((k * (lat + interval) < timeout ∧ n = k + 1) ∨ (timeout ≤ k * (lat + interval) ∧ n ≤ k))
  | _ => False

/-- Shape of the requests recorded for the chunks `cs`, the first numbered `num`, the first
being the `i`-th block the device receives: each block, followed by `n` status polls with
`n = 0` after a plain OK and `n ≥ 1` after "in progress". -/
def Seg (plan : Nat → Reply) : List (List Nat) → Nat → Nat → List Ev → Prop
  | [], _, _, evs => evs = []
  | c :: cs, num, i, evs =>
    ∃ n rest, evs = Ev.block num c :: (List.replicate n Ev.status ++ rest) ∧
      (plan i = .ok → n = 0) ∧ ((∃ k f, plan i = .inProgress k f) → 1 ≤ n) ∧
      Seg plan cs ((num + 1) % 256) (i + 1) rest

/-- the same for the intended loop: a block answered "in progress" (`k` further in-progress
answers) is followed by exactly `k + 1` polls - the last one saw the final code - and that code
was 00h -/
def SegX (plan : Nat → Reply) : List (List Nat) → Nat → Nat → List Ev → Prop
  | [], _, _, evs => evs = []
  | c :: cs, num, i, evs =>
    ∃ n rest, evs = Ev.block num c :: (List.replicate n Ev.status ++ rest) ∧
      (plan i = .ok → n = 0) ∧ (∀ k f, plan i = .inProgress k f → n = k + 1 ∧ f = 0) ∧
      SegX plan cs ((num + 1) % 256) (i + 1) rest

/-- cut after block `j` (relative to the first chunk) and the `n` polls that follow it -/
def SegA (tail : Reply → Nat → Prop) (plan : Nat → Reply) : List (List Nat) → Nat → Nat → Nat → List Ev → Prop
  | [], _, _, _, _ => False
  | c :: _, num, i, 0, evs => ∃ n, evs = Ev.block num c :: List.replicate n Ev.status ∧ tail (plan i) n
  | c :: cs, num, i, j + 1, evs =>
    ∃ n rest, evs = Ev.block num c :: (List.replicate n Ev.status ++ rest) ∧
      (plan i = .ok → n = 0) ∧ (∀ k f, plan i = .inProgress k f → n = k + 1 ∧ f = 0) ∧
      SegA tail plan cs ((num + 1) % 256) (i + 1) j rest

theorem next_block (num : Nat) :
    (num + Gen.Hpm.blockIncr) &&& Gen.Hpm.blockMask = (num + 1) % 256 := by
  have := Nat.and_two_pow_sub_one_eq_mod (num + 1) 8
  simpa [Gen.Hpm.blockIncr, Gen.Hpm.blockMask] using this

/-! ### the polling loop -/

theorem waitLoop_spec (interval deadline lat : Nat) (f : Nat) (s : St) :
    ∃ n, (waitLoop interval deadline lat f s).2.dev.trace = s.dev.trace ++ List.replicate n Ev.status ∧
      (waitLoop interval deadline lat f s).2.dev.idx = s.dev.idx ∧
      (waitLoop interval deadline lat f s).2.dev.plan = s.dev.plan ∧
      (0 < f → s.now < deadline → 1 ≤ n) := by
  induction f generalizing s with
  | zero => exact ⟨0, by simp [waitLoop]⟩
  | succ f ih =>
    by_cases hd : s.now < deadline
    · by_cases hl : (if s.dev.pending = 0 then s.dev.final else Spec.HpmDevice.ccInProgress) = Gen.Hpm.ccInProgress
      · obtain ⟨n, h1, h2, h3, _⟩ := ih
          ⟨{ s.dev with pending := s.dev.pending - 1, trace := s.dev.trace ++ [Ev.status] }, s.now + lat + interval⟩
        refine ⟨n + 1, ?_⟩
        simp only [waitLoop, hd, if_true, Dev.getStatus, hl]
        simp [h1, h2, h3, List.replicate_succ]
      · refine ⟨1, ?_⟩
        simp only [waitLoop, hd, if_true, Dev.getStatus, hl, if_false]
        simp
    · exact ⟨0, by simp [waitLoop, hd]⟩

theorem waitLong_spec (timeout interval lat : Nat) (ht : 0 < timeout) (s : St) :
    ∃ n, (waitLong timeout interval lat s).2.dev.trace = s.dev.trace ++ List.replicate n Ev.status ∧
      (waitLong timeout interval lat s).2.dev.idx = s.dev.idx ∧
      (waitLong timeout interval lat s).2.dev.plan = s.dev.plan ∧ 1 ≤ n := by
  obtain ⟨n, h1, h2, h3, h4⟩ := waitLoop_spec interval (s.now + timeout) lat (s.dev.pending + 1) s
  exact ⟨n, h1, h2, h3, h4 (Nat.succ_pos _) (by omega)⟩

/-- the device ends the long duration command while the time-out still allows a poll: the
loop returns the final code after exactly `pending + 1` polls -/
theorem waitLoop_done (interval deadline lat : Nat) (k : Nat) : ∀ (f : Nat) (s : St),
    s.dev.pending = k → k + 1 ≤ f → s.dev.final ≠ Gen.Hpm.ccInProgress →
    s.now + k * (lat + interval) < deadline →
    (waitLoop interval deadline lat f s).1 = some s.dev.final ∧
    (waitLoop interval deadline lat f s).2.dev.trace = s.dev.trace ++ List.replicate (k + 1) Ev.status ∧
    (waitLoop interval deadline lat f s).2.dev.idx = s.dev.idx ∧
    (waitLoop interval deadline lat f s).2.dev.plan = s.dev.plan := by
  induction k with
  | zero =>
    intro f s hp hf hfin hd
    cases f with
    | zero => omega
    | succ f =>
      have hd' : s.now < deadline := by omega
      simp [waitLoop, hd', Dev.getStatus, hp, hfin]
  | succ k ih =>
    intro f s hp hf hfin hd
    cases f with
    | zero => omega
    | succ f =>
      have hd' : s.now < deadline := by
        have : 0 ≤ (k + 1) * (lat + interval) := Nat.zero_le _
        omega
      have hp0 : s.dev.pending ≠ 0 := by omega
      obtain ⟨a, b, c, d⟩ := ih f
        ⟨{ s.dev with pending := s.dev.pending - 1, trace := s.dev.trace ++ [Ev.status] }, s.now + lat + interval⟩
        (by simp; omega) (by omega) (by simpa using hfin)
        (by
          have : (k + 1) * (lat + interval) = k * (lat + interval) + (lat + interval) := Nat.succ_mul _ _
          simp only
          omega)
      simp only [waitLoop, hd', if_true, Dev.getStatus, hp0, if_false, Spec.HpmDevice.ccInProgress,
        Gen.Hpm.ccInProgress]
      refine ⟨by simpa using a, ?_, by simpa using c, by simpa using d⟩
      rw [b]
      simp [List.replicate_succ]

/-- the time-out expires first: no result, at most `pending` polls -/
theorem waitLoop_expired (interval deadline lat : Nat) (k : Nat) : ∀ (f : Nat) (s : St),
    s.dev.pending = k → deadline ≤ s.now + k * (lat + interval) →
    (waitLoop interval deadline lat f s).1 = none ∧
    ∃ n, n ≤ k ∧ (waitLoop interval deadline lat f s).2.dev.trace = s.dev.trace ++ List.replicate n Ev.status := by
  induction k with
  | zero =>
    intro f s hp hd
    have hd' : ¬ s.now < deadline := by omega
    cases f with
    | zero => exact ⟨rfl, 0, Nat.le_refl _, by simp [waitLoop]⟩
    | succ f => exact ⟨by simp [waitLoop, hd'], 0, Nat.le_refl _, by simp [waitLoop, hd']⟩
  | succ k ih =>
    intro f s hp hd
    cases f with
    | zero => exact ⟨rfl, 0, Nat.zero_le _, by simp [waitLoop]⟩
    | succ f =>
      by_cases hd' : s.now < deadline
      · have hp0 : s.dev.pending ≠ 0 := by omega
        obtain ⟨a, n, hn, b⟩ := ih f
          ⟨{ s.dev with pending := s.dev.pending - 1, trace := s.dev.trace ++ [Ev.status] }, s.now + lat + interval⟩
          (by simp; omega)
          (by
            have : (k + 1) * (lat + interval) = k * (lat + interval) + (lat + interval) := Nat.succ_mul _ _
            simp only
            omega)
        simp only [waitLoop, hd', if_true, Dev.getStatus, hp0, if_false, Spec.HpmDevice.ccInProgress,
          Gen.Hpm.ccInProgress]
        refine ⟨by simpa using a, n + 1, by omega, ?_⟩
        rw [b]
        simp [List.replicate_succ]
      · exact ⟨by simp [waitLoop, hd'], 0, Nat.zero_le _, by simp [waitLoop, hd']⟩

/-! ### the block loop -/

/-- the device after it has recorded block `num` = `c` and answered it by `plan idx` -/
def afterBlock (s : St) (num : Nat) (c : List Nat) (lat : Nat) : St :=
  ⟨{ s.dev with idx := s.dev.idx + 1, pending := replyPending (s.dev.plan s.dev.idx),
                final := replyFinal (s.dev.plan s.dev.idx), trace := s.dev.trace ++ [Ev.block num c] }, s.now + lat⟩

/-- As shipped: whatever the status polls report, every block is sent and the upload returns. -/
theorem uploadLoop_benign (timeout interval lat : Nat) (ht : 0 < timeout) (cs : List (List Nat))
    (num : Nat) (retry : Int) (s : St) (hb : ∀ j, benign (s.dev.plan j)) :
    ∃ evs, (uploadLoop false timeout interval lat cs num retry s).1 = .ok () ∧
      (uploadLoop false timeout interval lat cs num retry s).2.dev.trace = s.dev.trace ++ evs ∧
      Seg s.dev.plan cs num s.dev.idx evs := by
  induction cs generalizing num retry s with
  | nil => exact ⟨[], by simp [uploadLoop, Seg]⟩
  | cons c cs ih =>
    have hbi := hb s.dev.idx
    cases hp : s.dev.plan s.dev.idx with
    | ok =>
      obtain ⟨evs, h1, h2, h3⟩ := ih ((num + 1) % 256) retry (afterBlock s num c lat)
        (by simpa [afterBlock] using hb)
      refine ⟨Ev.block num c :: evs, ?_, ?_, ?_⟩
      · simpa [uploadLoop, Dev.upload, hp, replyRsp, replyPending, replyFinal, next_block, afterBlock] using h1
      · simpa [uploadLoop, Dev.upload, hp, replyRsp, replyPending, replyFinal, next_block, afterBlock] using h2
      · exact ⟨0, evs, by simp, fun _ => rfl, fun ⟨k, f, hk⟩ => by simp [hp] at hk, by simpa [afterBlock] using h3⟩
    | inProgress k f =>
      obtain ⟨n, w1, w2, w3, w4⟩ := waitLong_spec timeout interval lat ht (afterBlock s num c lat)
      obtain ⟨evs, h1, h2, h3⟩ := ih ((num + 1) % 256) retry
        (waitLong timeout interval lat (afterBlock s num c lat)).2
        (by rw [w3]; simpa [afterBlock] using hb)
      rw [w1] at h2
      rw [w2, w3] at h3
      refine ⟨Ev.block num c :: (List.replicate n Ev.status ++ evs), ?_, ?_, ?_⟩
      · simpa [uploadLoop, Dev.upload, hp, replyRsp, replyPending, replyFinal, next_block, Spec.HpmDevice.ccInProgress,
          Gen.Hpm.ccInProgress, afterWait, afterBlock] using h1
      · simpa [uploadLoop, Dev.upload, hp, replyRsp, replyPending, replyFinal, next_block, Spec.HpmDevice.ccInProgress,
          Gen.Hpm.ccInProgress, afterWait, afterBlock] using h2
      · exact ⟨n, evs, rfl, fun h => by simp [hp] at h, fun _ => w4, by simpa [afterBlock] using h3⟩
    | err cc => simp [hp, benign] at hbi
    | noAnswer => simp [hp, benign] at hbi

/-- what the intended loop does with a block answered "in progress" that ends well in time -/
theorem waitLong_inTime (timeout interval lat : Nat) (s : St) (num : Nat) (c : List Nat) (k f : Nat)
    (hp : s.dev.plan s.dev.idx = .inProgress k f) (hf : f ≠ 0x80) (hk : k * (lat + interval) < timeout) :
    (waitLong timeout interval lat (afterBlock s num c lat)).1 = some f ∧
    (waitLong timeout interval lat (afterBlock s num c lat)).2.dev.trace =
      s.dev.trace ++ Ev.block num c :: List.replicate (k + 1) Ev.status ∧
    (waitLong timeout interval lat (afterBlock s num c lat)).2.dev.idx = s.dev.idx + 1 ∧
    (waitLong timeout interval lat (afterBlock s num c lat)).2.dev.plan = s.dev.plan := by
  obtain ⟨a, b, c', d⟩ := waitLoop_done interval ((afterBlock s num c lat).now + timeout) lat k
    ((afterBlock s num c lat).dev.pending + 1) (afterBlock s num c lat)
    (by simp [afterBlock, hp, replyPending]) (by simp [afterBlock, hp, replyPending])
    (by simpa [afterBlock, hp, replyFinal, Gen.Hpm.ccInProgress] using hf) (by omega)
  refine ⟨?_, ?_, ?_, ?_⟩
  · simpa [waitLong, afterBlock, hp, replyFinal] using a
  · simpa [waitLong, afterBlock] using b
  · simpa [waitLong, afterBlock] using c'
  · simpa [waitLong, afterBlock] using d

/-- Intended: every block answered OK, or "in progress" ending with 00h in time - every block
is sent, each wait sees the final code, the upload returns. -/
theorem uploadLoop_inTime (timeout interval lat : Nat) (cs : List (List Nat))
    (num : Nat) (retry : Int) (s : St) (hb : ∀ j, inTime timeout interval lat (s.dev.plan j)) :
    ∃ evs, (uploadLoop true timeout interval lat cs num retry s).1 = .ok () ∧
      (uploadLoop true timeout interval lat cs num retry s).2.dev.trace = s.dev.trace ++ evs ∧
      SegX s.dev.plan cs num s.dev.idx evs := by
  induction cs generalizing num retry s with
  | nil => exact ⟨[], by simp [uploadLoop, SegX]⟩
  | cons c cs ih =>
    have hbi := hb s.dev.idx
    cases hp : s.dev.plan s.dev.idx with
    | ok =>
      obtain ⟨evs, h1, h2, h3⟩ := ih ((num + 1) % 256) retry (afterBlock s num c lat)
        (by simpa [afterBlock] using hb)
      refine ⟨Ev.block num c :: evs, ?_, ?_, ?_⟩
      · simpa [uploadLoop, Dev.upload, hp, replyRsp, replyPending, replyFinal, next_block, afterBlock] using h1
      · simpa [uploadLoop, Dev.upload, hp, replyRsp, replyPending, replyFinal, next_block, afterBlock] using h2
      · exact ⟨0, evs, by simp, fun _ => rfl, fun k f hk => by simp [hp] at hk, by simpa [afterBlock] using h3⟩
    | inProgress k f =>
      rw [hp] at hbi
      obtain ⟨hf0, hk⟩ := hbi
      subst hf0
      obtain ⟨w0, w1, w2, w3⟩ := waitLong_inTime timeout interval lat s num c k 0 hp (by decide) hk
      obtain ⟨evs, h1, h2, h3⟩ := ih ((num + 1) % 256) retry
        (waitLong timeout interval lat (afterBlock s num c lat)).2
        (by rw [w3]; exact hb)
      rw [w1] at h2
      rw [w2, w3] at h3
      have hgo : afterWait true (waitLong timeout interval lat (afterBlock s num c lat)).1 = true := by
        rw [w0]; decide
      have hstep : uploadLoop true timeout interval lat (c :: cs) num retry s =
          uploadLoop true timeout interval lat cs ((num + 1) % 256) retry
            (waitLong timeout interval lat (afterBlock s num c lat)).2 := by
        simp only [uploadLoop, Dev.upload, hp, replyRsp, Spec.HpmDevice.ccInProgress, Gen.Hpm.ccInProgress,
          next_block]
        simp only [afterBlock, hp] at hgo
        simp [hgo, afterBlock, hp]
      refine ⟨Ev.block num c :: (List.replicate (k + 1) Ev.status ++ evs), ?_, ?_, ?_⟩
      · rw [hstep]; exact h1
      · rw [hstep, h2]; simp
      · exact ⟨k + 1, evs, rfl, fun h => by simp [hp] at h,
          fun k' f' h => by rw [hp] at h; injection h with h1 h2; subst h1; subst h2; exact ⟨rfl, rfl⟩, h3⟩
    | err cc => simp [hp, inTime] at hbi
    | noAnswer => simp [hp, inTime] at hbi

/-- Intended: the first answer that must end the upload comes for block `j` - HpmError, the
blocks up to `j` were sent, block `j` is followed by the polls of its own wait only. -/
theorem uploadLoop_stops (timeout interval lat : Nat) (ht : 0 < timeout) (cs : List (List Nat))
    (num : Nat) (retry : Int) (s : St) (j : Nat) (hj : j < cs.length)
    (hb : ∀ t, t < j → inTime timeout interval lat (s.dev.plan (s.dev.idx + t)))
    (he : stops timeout interval lat (s.dev.plan (s.dev.idx + j))) :
    (uploadLoop true timeout interval lat cs num retry s).1 = .hpmError ∧
    ∃ evs, (uploadLoop true timeout interval lat cs num retry s).2.dev.trace = s.dev.trace ++ evs ∧
      SegA (stopTail timeout interval lat) s.dev.plan cs num s.dev.idx j evs := by
  induction cs generalizing num retry s j with
  | nil => simp at hj
  | cons c cs ih =>
    cases j with
    | zero =>
      have he' : stops timeout interval lat (s.dev.plan s.dev.idx) := by simpa using he
      cases hp : s.dev.plan s.dev.idx with
      | ok => simp [hp, stops] at he'
      | noAnswer => simp [hp, stops] at he'
      | err cc =>
        rw [hp] at he'
        obtain ⟨hc0, hc1⟩ := he'
        refine ⟨?_, [Ev.block num c], ?_, ?_⟩
        · simp [uploadLoop, Dev.upload, hp, replyRsp, hc0, Gen.Hpm.ccInProgress, hc1]
        · simp [uploadLoop, Dev.upload, hp, replyRsp, hc0, Gen.Hpm.ccInProgress, hc1]
        · exact ⟨0, by simp, by simp [hp, stopTail]⟩
      | inProgress k f =>
        rw [hp] at he'
        have hstep : ∀ r, (waitLong timeout interval lat (afterBlock s num c lat)).1 = r →
            afterWait true r = false →
            uploadLoop true timeout interval lat (c :: cs) num retry s =
              (.hpmError, (waitLong timeout interval lat (afterBlock s num c lat)).2) := by
          intro r hr hgo
          rw [← hr] at hgo
          simp only [uploadLoop, Dev.upload, hp, replyRsp, Spec.HpmDevice.ccInProgress, Gen.Hpm.ccInProgress]
          simp only [afterBlock, hp] at hgo
          simp [hgo, afterBlock, hp]
        rcases he' with ⟨hf0, hf1, hk⟩ | hk
        · obtain ⟨w0, w1, _, _⟩ := waitLong_inTime timeout interval lat s num c k f hp hf1 hk
          have hgo : afterWait true (some f) = false := by
            simp [afterWait, Gen.Hpm.ccOk, hf0]
          rw [hstep _ w0 hgo]
          refine ⟨rfl, Ev.block num c :: List.replicate (k + 1) Ev.status, w1, k + 1, rfl, ?_⟩
          simp [hp, stopTail, hk]
        · obtain ⟨n, w1, _, _, w4⟩ := waitLong_spec timeout interval lat ht (afterBlock s num c lat)
          obtain ⟨a, n', hn', b⟩ := waitLoop_expired interval ((afterBlock s num c lat).now + timeout) lat k
            ((afterBlock s num c lat).dev.pending + 1) (afterBlock s num c lat)
            (by simp [afterBlock, hp, replyPending]) (by omega)
          have hnn : n = n' := by
            have h := w1
            simp only [waitLong] at h
            rw [b] at h
            have := congrArg List.length h
            simp at this
            omega
          subst hnn
          have hgo : afterWait true none = false := by simp [afterWait]
          rw [hstep none (by simpa [waitLong] using a) hgo]
          refine ⟨rfl, Ev.block num c :: List.replicate n Ev.status, ?_, n, rfl, ?_⟩
          · rw [w1]; simp [afterBlock]
          · simp only [hp, stopTail]
            exact ⟨w4, Or.inr ⟨hk, hn'⟩⟩
    | succ j =>
      have hbi := hb 0 (Nat.succ_pos _)
      have hj' : j < cs.length := by simpa using hj
      cases hp : s.dev.plan s.dev.idx with
      | ok =>
        obtain ⟨h1, evs, h2, h3⟩ := ih ((num + 1) % 256) retry (afterBlock s num c lat) j hj'
          (fun t htj => by
            have := hb (t + 1) (by omega)
            simpa [afterBlock, Nat.add_assoc, Nat.add_comm 1 t] using this)
          (by simpa [afterBlock, Nat.add_assoc, Nat.add_comm 1 j] using he)
        refine ⟨?_, Ev.block num c :: evs, ?_, ?_⟩
        · simpa [uploadLoop, Dev.upload, hp, replyRsp, replyPending, replyFinal, next_block, afterBlock] using h1
        · simpa [uploadLoop, Dev.upload, hp, replyRsp, replyPending, replyFinal, next_block, afterBlock] using h2
        · exact ⟨0, evs, by simp, fun _ => rfl, fun k f hk => by simp [hp] at hk, by simpa [afterBlock] using h3⟩
      | inProgress k f =>
        simp only [Nat.add_zero, hp] at hbi
        obtain ⟨hf0, hk⟩ := hbi
        subst hf0
        obtain ⟨w0, w1, w2, w3⟩ := waitLong_inTime timeout interval lat s num c k 0 hp (by decide) hk
        obtain ⟨h1, evs, h2, h3⟩ := ih ((num + 1) % 256) retry
          (waitLong timeout interval lat (afterBlock s num c lat)).2 j hj'
          (fun t htj => by
            rw [w2, w3]
            have := hb (t + 1) (by omega)
            simpa [Nat.add_assoc, Nat.add_comm 1 t] using this)
          (by rw [w2, w3]; simpa [Nat.add_assoc, Nat.add_comm 1 j] using he)
        rw [w1] at h2
        rw [w2, w3] at h3
        have hgo : afterWait true (waitLong timeout interval lat (afterBlock s num c lat)).1 = true := by
          rw [w0]; decide
        have hstep : uploadLoop true timeout interval lat (c :: cs) num retry s =
            uploadLoop true timeout interval lat cs ((num + 1) % 256) retry
              (waitLong timeout interval lat (afterBlock s num c lat)).2 := by
          simp only [uploadLoop, Dev.upload, hp, replyRsp, Spec.HpmDevice.ccInProgress, Gen.Hpm.ccInProgress,
            next_block]
          simp only [afterBlock, hp] at hgo
          simp [hgo, afterBlock, hp]
        refine ⟨?_, Ev.block num c :: (List.replicate (k + 1) Ev.status ++ evs), ?_, ?_⟩
        · rw [hstep]; exact h1
        · rw [hstep, h2]; simp
        · exact ⟨k + 1, evs, rfl, fun h => by simp [hp] at h,
            fun k' f' h => by rw [hp] at h; injection h with h1 h2; subst h1; subst h2; exact ⟨rfl, rfl⟩, h3⟩
      | err cc' => simp [hp, inTime] at hbi
      | noAnswer => simp [hp, inTime] at hbi

/-! ### what the shapes imply for the property's predicates -/

theorem blocksOf_status (n : Nat) (rest : List Ev) :
    blocksOf (List.replicate n Ev.status ++ rest) = blocksOf rest := by
  induction n with
  | zero => simp
  | succ n ih => simp [List.replicate_succ, blocksOf, ih]

theorem pollsOk_status (plan : Nat → Reply) (i n : Nat) (rest : List Ev) :
    pollsOk plan i (List.replicate n Ev.status ++ rest) = pollsOk plan i rest := by
  induction n with
  | zero => simp
  | succ n ih => simp [List.replicate_succ, pollsOk, ih]

theorem waitsOk_status (plan : Nat → Reply) (upto i n : Nat) (rest : List Ev) :
    waitsOk plan upto i (List.replicate n Ev.status ++ rest) = waitsOk plan upto i rest := by
  induction n with
  | zero => simp
  | succ n ih => simp [List.replicate_succ, waitsOk, ih]

theorem leadingPolls_status (n : Nat) (rest : List Ev) :
    n ≤ leadingPolls (List.replicate n Ev.status ++ rest) := by
  induction n with
  | zero => simp
  | succ n ih => simp [List.replicate_succ, leadingPolls]; omega

theorem pollsAfterLast_status (n acc : Nat) :
    pollsAfterLast (List.replicate n Ev.status) acc = acc + n := by
  induction n generalizing acc with
  | zero => simp [pollsAfterLast]
  | succ n ih => simp [List.replicate_succ, pollsAfterLast, ih]; omega

theorem pollsAfterLast_block (n acc num : Nat) (c : List Nat) (rest : List Ev) :
    pollsAfterLast (List.replicate n Ev.status ++ Ev.block num c :: rest) acc = pollsAfterLast rest 0 := by
  induction n generalizing acc with
  | zero => simp [pollsAfterLast]
  | succ n ih => simp [List.replicate_succ, pollsAfterLast, ih]

theorem head_status (n : Nat) (hn : 1 ≤ n) (rest : List Ev) :
    ∃ t, List.replicate n Ev.status ++ rest = Ev.status :: t := by
  cases n with
  | zero => omega
  | succ n => exact ⟨List.replicate n Ev.status ++ rest, by simp [List.replicate_succ]⟩

theorem pollsOk_block (plan : Nat → Reply) (i num n : Nat) (c : List Nat) (rest : List Ev)
    (h1 : (∃ k f, plan i = .inProgress k f) → 1 ≤ n) :
    pollsOk plan i (Ev.block num c :: (List.replicate n Ev.status ++ rest)) = pollsOk plan (i + 1) rest := by
  cases hp : plan i with
  | inProgress k f =>
    obtain ⟨t, ht⟩ := head_status n (h1 ⟨k, f, hp⟩) rest
    have := pollsOk_status plan (i + 1) n rest
    rw [ht] at this ⊢
    simp only [pollsOk] at this
    simp [pollsOk, hp, this]
  | ok => simp [pollsOk, hp, pollsOk_status]
  | err c => simp [pollsOk, hp, pollsOk_status]
  | noAnswer => simp [pollsOk, hp, pollsOk_status]

theorem waitsOk_block (plan : Nat → Reply) (upto i num n : Nat) (c : List Nat) (rest : List Ev)
    (h1 : ∀ k f, plan i = .inProgress k f → n = k + 1 ∧ f = 0) :
    waitsOk plan upto i (Ev.block num c :: (List.replicate n Ev.status ++ rest)) = waitsOk plan upto (i + 1) rest := by
  cases hp : plan i with
  | inProgress k f =>
    obtain ⟨hn, hf⟩ := h1 k f hp
    have hl := leadingPolls_status n rest
    have : k < leadingPolls (List.replicate n Ev.status ++ rest) := by omega
    simp [waitsOk, hp, this, hf, waitsOk_status]
  | ok => simp [waitsOk, hp, waitsOk_status]
  | err c => simp [waitsOk, hp, waitsOk_status]
  | noAnswer => simp [waitsOk, hp, waitsOk_status]

theorem SegX_Seg (plan : Nat → Reply) (cs : List (List Nat)) (num i : Nat) (evs : List Ev)
    (h : SegX plan cs num i evs) : Seg plan cs num i evs := by
  induction cs generalizing num i evs with
  | nil => exact h
  | cons c cs ih =>
    obtain ⟨n, rest, h0, h1, h2, h3⟩ := h
    exact ⟨n, rest, h0, h1, fun ⟨k, f, hk⟩ => by have := (h2 k f hk).1; omega, ih _ _ _ h3⟩

theorem Seg_spec (bs : Nat) (plan : Nat → Reply) (cs : List (List Nat)) (num i : Nat) (evs : List Ev)
    (h : Seg plan cs num i evs) (hnum : num = i % 256) (hsz : ∀ c ∈ cs, 0 < c.length ∧ c.length ≤ bs) :
    (blocksOf evs).map (·.2) = cs ∧ numberedFrom bs i (blocksOf evs) = true ∧ pollsOk plan i evs = true := by
  induction cs generalizing num i evs with
  | nil => simp [Seg] at h; subst h; simp [blocksOf, numberedFrom, pollsOk]
  | cons c cs ih =>
    obtain ⟨n, rest, rfl, h0, h1, hrest⟩ := h
    obtain ⟨a, b, d⟩ := ih ((num + 1) % 256) (i + 1) rest hrest (by subst hnum; omega)
      (fun x hx => hsz x (List.mem_cons_of_mem _ hx))
    have hc := hsz c (List.mem_cons_self)
    refine ⟨?_, ?_, ?_⟩
    · simp [blocksOf, blocksOf_status, a]
    · simp [blocksOf, blocksOf_status, numberedFrom, b, hnum, hc.1, hc.2]
    · rw [pollsOk_block plan i num n c rest h1]; exact d

theorem SegX_waits (plan : Nat → Reply) (upto : Nat) (cs : List (List Nat)) (num i : Nat) (evs : List Ev)
    (h : SegX plan cs num i evs) : waitsOk plan upto i evs = true := by
  induction cs generalizing num i evs with
  | nil => simp [SegX] at h; subst h; simp [waitsOk]
  | cons c cs ih =>
    obtain ⟨n, rest, rfl, _, h1, hrest⟩ := h
    rw [waitsOk_block plan upto i num n c rest h1]
    exact ih _ _ _ hrest

theorem SegA_spec (tail : Reply → Nat → Prop) (bs : Nat) (plan : Nat → Reply) (cs : List (List Nat))
    (num i j : Nat) (evs : List Ev)
    (h : SegA tail plan cs num i j evs) (hnum : num = i % 256) (hsz : ∀ c ∈ cs, 0 < c.length ∧ c.length ≤ bs)
    (htail : ∀ n, tail (plan (i + j)) n → (∃ k f, plan (i + j) = .inProgress k f) → 1 ≤ n) :
    (blocksOf evs).map (·.2) = cs.take (j + 1) ∧ (blocksOf evs).length = j + 1 ∧
      numberedFrom bs i (blocksOf evs) = true ∧ pollsOk plan i evs = true ∧
      waitsOk plan (i + j) i evs = true ∧
      ∃ n, tail (plan (i + j)) n ∧ trailingPolls evs = n ∧
        (n = 0 → ∃ m d, evs.getLast? = some (Ev.block m d)) ∧ (1 ≤ n → evs.getLast? = some Ev.status) := by
  induction cs generalizing num i j evs with
  | nil => simp [SegA] at h
  | cons c cs ih =>
    have hc := hsz c (List.mem_cons_self)
    cases j with
    | zero =>
      obtain ⟨n, h, ht⟩ := h
      subst h
      have h1 : (∃ k f, plan i = .inProgress k f) → 1 ≤ n := fun hx => htail n (by simpa using ht) (by simpa using hx)
      refine ⟨?_, ?_, ?_, ?_, ?_, n, by simpa using ht, ?_, ?_, ?_⟩
      · have := blocksOf_status n []
        simp only [List.append_nil] at this
        simp [blocksOf, this]
      · have := blocksOf_status n []
        simp only [List.append_nil] at this
        simp [blocksOf, this]
      · have := blocksOf_status n []
        simp only [List.append_nil] at this
        simp [blocksOf, this, numberedFrom, hnum, hc.1, hc.2]
      · have := pollsOk_block plan i num n c [] h1
        simp only [List.append_nil] at this
        rw [this]; simp [pollsOk]
      · have := waitsOk_status plan i (i + 1) n []
        simp only [List.append_nil] at this
        simp [waitsOk, this]
      · simp [trailingPolls, pollsAfterLast, pollsAfterLast_status]
      · intro hn; subst hn; exact ⟨num, c, by simp⟩
      · intro hn
        cases n with
        | zero => omega
        | succ n =>
          have : Ev.block num c :: List.replicate (n + 1) Ev.status =
              (Ev.block num c :: List.replicate n Ev.status) ++ [Ev.status] := by
            simp [List.replicate_succ']
          rw [this, List.getLast?_append]
          simp
    | succ j =>
      obtain ⟨n, rest, rfl, h0, h1, hrest⟩ := h
      have hidx : i + 1 + j = i + (j + 1) := by omega
      obtain ⟨a, b, d, e, w, n', t1, t2, t3, t4⟩ := ih ((num + 1) % 256) (i + 1) j rest hrest (by subst hnum; omega)
        (fun x hx => hsz x (List.mem_cons_of_mem _ hx)) (by rw [hidx]; exact htail)
      rw [hidx] at w t1
      have hne : rest ≠ [] := by
        intro hr
        rw [hr] at b
        simp [blocksOf] at b
      have hlast : (Ev.block num c :: (List.replicate n Ev.status ++ rest)).getLast? = rest.getLast? := by
        have : Ev.block num c :: (List.replicate n Ev.status ++ rest) =
            (Ev.block num c :: List.replicate n Ev.status) ++ rest := by simp
        rw [this, List.getLast?_append]
        cases hr : rest.getLast? with
        | none => exact absurd (List.getLast?_eq_none_iff.mp hr) hne
        | some x => simp
      refine ⟨?_, ?_, ?_, ?_, ?_, n', t1, ?_, ?_, ?_⟩
      · simp [blocksOf, blocksOf_status, a]
      · simp [blocksOf, blocksOf_status, b]
      · simp [blocksOf, blocksOf_status, numberedFrom, d, hnum, hc.1, hc.2]
      · rw [pollsOk_block plan i num n c rest (fun ⟨k, f, hk⟩ => by have := (h1 k f hk).1; omega)]; exact e
      · rw [waitsOk_block plan (i + (j + 1)) i num n c rest h1]; exact w
      · -- the polls after the last block are those of `rest`
        cases rest with
        | nil => exact absurd rfl hne
        | cons ev rest' =>
          cases ev with
          | status =>
            -- a segment starts with a block
            cases cs with
            | nil => simp [SegA] at hrest
            | cons c' cs' =>
              cases j with
              | zero => obtain ⟨_, hh, _⟩ := hrest; simp at hh
              | succ j => obtain ⟨_, _, hh, _⟩ := hrest; simp at hh
          | block m dd =>
            simp only [trailingPolls, pollsAfterLast] at t2 ⊢
            rw [pollsAfterLast_block]
            exact t2
      · intro hn; rw [hlast]; exact t3 hn
      · intro hn; rw [hlast]; exact t4 hn

theorem chunks_length (n : Nat) (hn : 0 < n) (l : List Nat) : (chunks n l).length = (l.length + n - 1) / n := by
  induction h : l.length using Nat.strongRecOn generalizing l with
  | _ k ih =>
    by_cases hl : l = []
    · subst hl
      simp at h
      subst h
      simp [chunks_nil]
      exact (Nat.div_eq_of_lt (by omega)).symm
    · rw [chunks_cons n hn l hl]
      have hpos : 0 < l.length := List.length_pos_iff.mpr hl
      have := ih (l.drop n).length (by simp [List.length_drop]; omega) (l.drop n) rfl
      simp only [List.length_cons, this, List.length_drop]
      subst h
      by_cases hle : l.length ≤ n
      · have h1 : (l.length - n + n - 1) / n = 0 := Nat.div_eq_of_lt (by omega)
        have h2 : (l.length + n - 1) / n = 1 := by
          apply Nat.div_eq_of_lt_le <;> omega
        omega
      · have h3 : l.length + n - 1 = (l.length - n + n - 1) + n := by omega
        rw [h3, Nat.add_div_right _ hn]

theorem lt_chunks_length (n : Nat) (hn : 0 < n) (l : List Nat) (j : Nat) (h : j * n < l.length) :
    j < (chunks n l).length := by
  rw [chunks_length n hn]
  apply (Nat.lt_div_iff_mul_lt hn).mpr
  omega

end PyIpmi.Hpm
