/-
  C18 upload lemmas: what `uploadLoop` makes the reference device record, for every plan.
-/
import PyIpmi.Lemmas.Hpm
namespace PyIpmi.Hpm
open PyIpmi
open PyIpmi.Spec.HpmDevice

/-- answers inside the property's "in progress" quantifier -/
def benign : Reply → Prop
  | .ok => True
  | .inProgress _ => True
  | _ => False

/-- Shape of the requests recorded for the chunks `cs`, the first numbered `num`, the first
being the `i`-th block the device receives: each block, followed by `n` status polls with
`n = 0` after a plain OK and `n ≥ 1` after "in progress". -/
def Seg (plan : Nat → Reply) : List (List Nat) → Nat → Nat → List Ev → Prop
  | [], _, _, evs => evs = []
  | c :: cs, num, i, evs =>
    ∃ n rest, evs = Ev.block num c :: (List.replicate n Ev.status ++ rest) ∧
      (plan i = .ok → n = 0) ∧ ((∃ k, plan i = .inProgress k) → 1 ≤ n) ∧
      Seg plan cs ((num + 1) % 256) (i + 1) rest

/-- the same, cut after block `j` (which is the last thing recorded) -/
def SegA (plan : Nat → Reply) : List (List Nat) → Nat → Nat → Nat → List Ev → Prop
  | [], _, _, _, _ => False
  | c :: _, num, i, 0, evs => evs = [Ev.block num c] ∧ ∃ cc, plan i = .err cc
  | c :: cs, num, i, j + 1, evs =>
    ∃ n rest, evs = Ev.block num c :: (List.replicate n Ev.status ++ rest) ∧
      (plan i = .ok → n = 0) ∧ ((∃ k, plan i = .inProgress k) → 1 ≤ n) ∧
      SegA plan cs ((num + 1) % 256) (i + 1) j rest

theorem next_block (num : Nat) :
    (num + Gen.Hpm.blockIncr) &&& Gen.Hpm.blockMask = (num + 1) % 256 := by
  have := Nat.and_two_pow_sub_one_eq_mod (num + 1) 8
  simpa [Gen.Hpm.blockIncr, Gen.Hpm.blockMask] using this

theorem waitLoop_spec (interval deadline lat : Nat) (f : Nat) (s : St) :
    ∃ n, (waitLoop interval deadline lat f s).dev.trace = s.dev.trace ++ List.replicate n Ev.status ∧
      (waitLoop interval deadline lat f s).dev.idx = s.dev.idx ∧
      (waitLoop interval deadline lat f s).dev.plan = s.dev.plan ∧
      (0 < f → s.now < deadline → 1 ≤ n) := by
  induction f generalizing s with
  | zero => exact ⟨0, by simp [waitLoop]⟩
  | succ f ih =>
    by_cases hd : s.now < deadline
    · by_cases hp : s.dev.pending = 0
      · refine ⟨1, ?_⟩
        simp [waitLoop, hd, Dev.getStatus, hp, Gen.Hpm.ccInProgress]
      · obtain ⟨n, h1, h2, h3, _⟩ := ih
          ⟨{ s.dev with pending := s.dev.pending - 1, trace := s.dev.trace ++ [Ev.status] }, s.now + lat + interval⟩
        refine ⟨n + 1, ?_⟩
        simp [waitLoop, hd, Dev.getStatus, hp, Gen.Hpm.ccInProgress, Spec.HpmDevice.ccInProgress, h1, h2, h3,
          List.replicate_succ]
    · exact ⟨0, by simp [waitLoop, hd]⟩

theorem waitLong_spec (timeout interval lat : Nat) (ht : 0 < timeout) (s : St) :
    ∃ n, (waitLong timeout interval lat s).dev.trace = s.dev.trace ++ List.replicate n Ev.status ∧
      (waitLong timeout interval lat s).dev.idx = s.dev.idx ∧
      (waitLong timeout interval lat s).dev.plan = s.dev.plan ∧ 1 ≤ n := by
  obtain ⟨n, h1, h2, h3, h4⟩ := waitLoop_spec interval (s.now + timeout) lat (s.dev.pending + 1) s
  exact ⟨n, h1, h2, h3, h4 (Nat.succ_pos _) (by omega)⟩

theorem uploadLoop_benign (timeout interval lat : Nat) (ht : 0 < timeout) (cs : List (List Nat))
    (num : Nat) (retry : Int) (s : St) (hb : ∀ j, benign (s.dev.plan j)) :
    ∃ evs, (uploadLoop timeout interval lat cs num retry s).1 = .ok () ∧
      (uploadLoop timeout interval lat cs num retry s).2.dev.trace = s.dev.trace ++ evs ∧
      Seg s.dev.plan cs num s.dev.idx evs := by
  induction cs generalizing num retry s with
  | nil => exact ⟨[], by simp [uploadLoop, Seg]⟩
  | cons c cs ih =>
    have hbi := hb s.dev.idx
    cases hp : s.dev.plan s.dev.idx with
    | ok =>
      obtain ⟨evs, h1, h2, h3⟩ := ih ((num + 1) % 256) retry
        ⟨{ s.dev with idx := s.dev.idx + 1, pending := 0, trace := s.dev.trace ++ [Ev.block num c] }, s.now + lat⟩ hb
      refine ⟨Ev.block num c :: evs, ?_, ?_, ?_⟩
      · simpa [uploadLoop, Dev.upload, hp, replyRsp, replyPending, next_block] using h1
      · simpa [uploadLoop, Dev.upload, hp, replyRsp, replyPending, next_block] using h2
      · exact ⟨0, evs, by simp, fun _ => rfl, fun ⟨k, hk⟩ => by simp [hp] at hk, h3⟩
    | inProgress k =>
      obtain ⟨n, w1, w2, w3, w4⟩ := waitLong_spec timeout interval lat ht
        ⟨{ s.dev with idx := s.dev.idx + 1, pending := k, trace := s.dev.trace ++ [Ev.block num c] }, s.now + lat⟩
      obtain ⟨evs, h1, h2, h3⟩ := ih ((num + 1) % 256) retry
        (waitLong timeout interval lat
          ⟨{ s.dev with idx := s.dev.idx + 1, pending := k, trace := s.dev.trace ++ [Ev.block num c] }, s.now + lat⟩)
        (by rw [w3]; exact hb)
      rw [w1] at h2
      rw [w2, w3] at h3
      refine ⟨Ev.block num c :: (List.replicate n Ev.status ++ evs), ?_, ?_, ?_⟩
      · simpa [uploadLoop, Dev.upload, hp, replyRsp, replyPending, next_block, Spec.HpmDevice.ccInProgress,
          Gen.Hpm.ccInProgress] using h1
      · simpa [uploadLoop, Dev.upload, hp, replyRsp, replyPending, next_block, Spec.HpmDevice.ccInProgress,
          Gen.Hpm.ccInProgress] using h2
      · exact ⟨n, evs, rfl, fun h => by simp [hp] at h, fun _ => w4, h3⟩
    | err cc => simp [hp, benign] at hbi
    | noAnswer => simp [hp, benign] at hbi

theorem uploadLoop_abort (timeout interval lat : Nat) (ht : 0 < timeout) (cs : List (List Nat))
    (num : Nat) (retry : Int) (s : St) (j cc : Nat) (hj : j < cs.length)
    (hb : ∀ t, t < j → benign (s.dev.plan (s.dev.idx + t)))
    (he : s.dev.plan (s.dev.idx + j) = .err cc) (hc0 : cc ≠ 0) (hc1 : cc ≠ 0x80) :
    (uploadLoop timeout interval lat cs num retry s).1 = .hpmError ∧
    ∃ evs, (uploadLoop timeout interval lat cs num retry s).2.dev.trace = s.dev.trace ++ evs ∧
      SegA s.dev.plan cs num s.dev.idx j evs := by
  induction cs generalizing num retry s j with
  | nil => simp at hj
  | cons c cs ih =>
    cases j with
    | zero =>
      have he' : s.dev.plan s.dev.idx = .err cc := by simpa using he
      refine ⟨?_, [Ev.block num c], ?_, ?_⟩
      · simp [uploadLoop, Dev.upload, he', replyRsp, hc0, Gen.Hpm.ccInProgress, hc1]
      · simp [uploadLoop, Dev.upload, he', replyRsp, hc0, Gen.Hpm.ccInProgress, hc1]
      · simp [SegA, he']
    | succ j =>
      have hbi := hb 0 (Nat.succ_pos _)
      have hj' : j < cs.length := by simpa using hj
      cases hp : s.dev.plan s.dev.idx with
      | ok =>
        obtain ⟨h1, evs, h2, h3⟩ := ih ((num + 1) % 256) retry
          ⟨{ s.dev with idx := s.dev.idx + 1, pending := 0, trace := s.dev.trace ++ [Ev.block num c] }, s.now + lat⟩
          j hj' (fun t htj => by have := hb (t + 1) (by omega); simpa [Nat.add_assoc, Nat.add_comm 1 t] using this)
          (by simpa [Nat.add_assoc, Nat.add_comm 1 j] using he)
        refine ⟨?_, Ev.block num c :: evs, ?_, ?_⟩
        · simpa [uploadLoop, Dev.upload, hp, replyRsp, replyPending, next_block] using h1
        · simpa [uploadLoop, Dev.upload, hp, replyRsp, replyPending, next_block] using h2
        · exact ⟨0, evs, by simp, fun _ => rfl, fun ⟨k, hk⟩ => by simp [hp] at hk, h3⟩
      | inProgress k =>
        obtain ⟨n, w1, w2, w3, w4⟩ := waitLong_spec timeout interval lat ht
          ⟨{ s.dev with idx := s.dev.idx + 1, pending := k, trace := s.dev.trace ++ [Ev.block num c] }, s.now + lat⟩
        obtain ⟨h1, evs, h2, h3⟩ := ih ((num + 1) % 256) retry
          (waitLong timeout interval lat
            ⟨{ s.dev with idx := s.dev.idx + 1, pending := k, trace := s.dev.trace ++ [Ev.block num c] }, s.now + lat⟩)
          j hj'
          (fun t htj => by
            rw [w2, w3]
            have := hb (t + 1) (by omega)
            simpa [Nat.add_assoc, Nat.add_comm 1 t] using this)
          (by rw [w2, w3]; simpa [Nat.add_assoc, Nat.add_comm 1 j] using he)
        rw [w1] at h2
        rw [w2, w3] at h3
        refine ⟨?_, Ev.block num c :: (List.replicate n Ev.status ++ evs), ?_, ?_⟩
        · simpa [uploadLoop, Dev.upload, hp, replyRsp, replyPending, next_block, Spec.HpmDevice.ccInProgress,
            Gen.Hpm.ccInProgress] using h1
        · simpa [uploadLoop, Dev.upload, hp, replyRsp, replyPending, next_block, Spec.HpmDevice.ccInProgress,
            Gen.Hpm.ccInProgress] using h2
        · exact ⟨n, evs, rfl, fun h => by simp [hp] at h, fun _ => w4, h3⟩
      | err cc' => simp [hp, benign] at hbi
      | noAnswer => simp [hp, benign] at hbi

/-! ### what the shapes imply for the property's predicates -/

theorem blocksOf_status (n : Nat) (rest : List Ev) :
    blocksOf (List.replicate n Ev.status ++ rest) = blocksOf rest := by
  induction n with
  | zero => simp
  | succ n ih => simp [List.replicate_succ, blocksOf, ih]

theorem pollsOk_status (plan : Nat → Reply) (i n : Nat) (rest : List Ev) :
    pollsOk plan i (List.replicate n Ev.status ++ rest) = pollsOk plan i rest := by
  induction n with
  | zero => simp
  | succ n ih => simp [List.replicate_succ, pollsOk, ih]

theorem head_status (n : Nat) (hn : 1 ≤ n) (rest : List Ev) :
    ∃ t, List.replicate n Ev.status ++ rest = Ev.status :: t := by
  cases n with
  | zero => omega
  | succ n => exact ⟨List.replicate n Ev.status ++ rest, by simp [List.replicate_succ]⟩

theorem pollsOk_block (plan : Nat → Reply) (i num n : Nat) (c : List Nat) (rest : List Ev)
    (h1 : (∃ k, plan i = .inProgress k) → 1 ≤ n) :
    pollsOk plan i (Ev.block num c :: (List.replicate n Ev.status ++ rest)) = pollsOk plan (i + 1) rest := by
  cases hp : plan i with
  | inProgress k =>
    obtain ⟨t, ht⟩ := head_status n (h1 ⟨k, hp⟩) rest
    have := pollsOk_status plan (i + 1) n rest
    rw [ht] at this ⊢
    simp only [pollsOk] at this
    simp [pollsOk, hp, this]
  | ok => simp [pollsOk, hp, pollsOk_status]
  | err c => simp [pollsOk, hp, pollsOk_status]
  | noAnswer => simp [pollsOk, hp, pollsOk_status]

theorem Seg_spec (bs : Nat) (plan : Nat → Reply) (cs : List (List Nat)) (num i : Nat) (evs : List Ev)
    (h : Seg plan cs num i evs) (hnum : num = i % 256) (hsz : ∀ c ∈ cs, 0 < c.length ∧ c.length ≤ bs) :
    (blocksOf evs).map (·.2) = cs ∧ numberedFrom bs i (blocksOf evs) = true ∧ pollsOk plan i evs = true := by
  induction cs generalizing num i evs with
  | nil => simp [Seg] at h; subst h; simp [blocksOf, numberedFrom, pollsOk]
  | cons c cs ih =>
    obtain ⟨n, rest, rfl, h0, h1, hrest⟩ := h
    obtain ⟨a, b, d⟩ := ih ((num + 1) % 256) (i + 1) rest hrest (by subst hnum; omega)
      (fun x hx => hsz x (List.mem_cons_of_mem _ hx))
    have hc := hsz c (List.mem_cons_self)
    refine ⟨?_, ?_, ?_⟩
    · simp [blocksOf, blocksOf_status, a]
    · simp [blocksOf, blocksOf_status, numberedFrom, b, hnum, hc.1, hc.2]
    · rw [pollsOk_block plan i num n c rest h1]; exact d

theorem SegA_spec (bs : Nat) (plan : Nat → Reply) (cs : List (List Nat)) (num i j : Nat) (evs : List Ev)
    (h : SegA plan cs num i j evs) (hnum : num = i % 256) (hsz : ∀ c ∈ cs, 0 < c.length ∧ c.length ≤ bs) :
    (blocksOf evs).map (·.2) = cs.take (j + 1) ∧ (blocksOf evs).length = j + 1 ∧
      numberedFrom bs i (blocksOf evs) = true ∧ pollsOk plan i evs = true ∧
      (∃ n d, evs.getLast? = some (Ev.block n d)) := by
  induction cs generalizing num i j evs with
  | nil => simp [SegA] at h
  | cons c cs ih =>
    have hc := hsz c (List.mem_cons_self)
    cases j with
    | zero =>
      obtain ⟨h, ⟨cc, hp⟩⟩ := h
      subst h
      exact ⟨by simp [blocksOf], by simp [blocksOf], by simp [blocksOf, numberedFrom, hnum, hc.1, hc.2],
        by simp [pollsOk, hp], num, c, by simp⟩
    | succ j =>
      obtain ⟨n, rest, rfl, h0, h1, hrest⟩ := h
      obtain ⟨a, b, d, e, ⟨ln, ld, hl⟩⟩ := ih ((num + 1) % 256) (i + 1) j rest hrest (by subst hnum; omega)
        (fun x hx => hsz x (List.mem_cons_of_mem _ hx))
      refine ⟨?_, ?_, ?_, ?_, ln, ld, ?_⟩
      · simp [blocksOf, blocksOf_status, a]
      · simp [blocksOf, blocksOf_status, b]
      · simp [blocksOf, blocksOf_status, numberedFrom, d, hnum, hc.1, hc.2]
      · rw [pollsOk_block plan i num n c rest h1]; exact e
      · have : Ev.block num c :: (List.replicate n Ev.status ++ rest) =
            (Ev.block num c :: List.replicate n Ev.status) ++ rest := by simp
        rw [this, List.getLast?_append, hl]
        simp

theorem chunks_length (n : Nat) (hn : 0 < n) (l : List Nat) : (chunks n l).length = (l.length + n - 1) / n := by
  induction h : l.length using Nat.strongRecOn generalizing l with
  | _ k ih =>
    by_cases hl : l = []
    · subst hl
      simp at h
      subst h
      simp [chunks_nil]
      exact (Nat.div_eq_of_lt (by omega)).symm
    · rw [chunks_cons n hn l hl]
      have hpos : 0 < l.length := List.length_pos_iff.mpr hl
      have := ih (l.drop n).length (by simp [List.length_drop]; omega) (l.drop n) rfl
      simp only [List.length_cons, this, List.length_drop]
      subst h
      by_cases hle : l.length ≤ n
      · have h1 : (l.length - n + n - 1) / n = 0 := Nat.div_eq_of_lt (by omega)
        have h2 : (l.length + n - 1) / n = 1 := by
          apply Nat.div_eq_of_lt_le <;> omega
        omega
      · have h3 : l.length + n - 1 = (l.length - n + n - 1) + n := by omega
        rw [h3, Nat.add_div_right _ hn]

theorem lt_chunks_length (n : Nat) (hn : 0 < n) (l : List Nat) (j : Nat) (h : j * n < l.length) :
    j < (chunks n l).length := by
  rw [chunks_length n hn]
  apply (Nat.lt_div_iff_mul_lt hn).mpr
  omega

end PyIpmi.Hpm
