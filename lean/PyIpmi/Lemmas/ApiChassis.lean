/- C07 refinement lemmas, family 2: chassis status / control, system boot options (pyipmi/chassis.py). -/
import PyIpmi.Lemmas.ApiBase
namespace PyIpmi.Lemmas.Api
open PyIpmi PyIpmi.Codec PyIpmi.Spec.Bmc PyIpmi.Model.Api PyIpmi.Gen.Tables

set_option maxRecDepth 4000
set_option linter.unusedSimpArgs false

theorem get_chassis_status_refines (s : BmcState) (hw : s.chassis.Wf) :
    api_get_chassis_status.run s = (s, .ok (.chassis (get_chassis_status s))) := by
  generalize hd : s.chassis = d at hw
  obtain ⟨h1, h2⟩ := hw
  cases d with
  | mk powerOn overload interlock fault controlFault restorePolicy evAcFailed evOverload evInterlock evFault evIpmiOn
       intrusion lockout driveFault coolingFault idState idSupported frontPanel =>
  have := b2n_le powerOn; have := b2n_le overload; have := b2n_le interlock; have := b2n_le fault
  have := b2n_le controlFault; have := b2n_le evAcFailed; have := b2n_le evOverload; have := b2n_le evInterlock
  have := b2n_le evFault; have := b2n_le evIpmiOn; have := b2n_le intrusion; have := b2n_le lockout
  have := b2n_le driveFault; have := b2n_le coolingFault; have := b2n_le idSupported
  simp at h1 h2
  cases frontPanel <;>
  · simp [api_get_chassis_status, api_eval, fmtChassis, get_chassis_status, hd]
    bits_close

theorem chassis_control_refines (opt : Nat) (s : BmcState) (h : opt < 16) :
    (api_chassis_control opt).run s = (chassis_control opt s, .ok .unit) := by
  simp [api_chassis_control, api_eval, bitsOf]
  congr 1; omega

/-- the six wrappers pass the option codes of IPMI 28.3 in this order -/
theorem chassisControlOption_law : chassisControlOption = [0, 1, 2, 3, 4, 5] := by decide

theorem chassis_control_named_refines (idx : Nat) (s : BmcState) (h : idx < 6) :
    (api_chassis_control_named idx).run s = (chassis_control idx s, .ok .unit) := by
  unfold api_chassis_control_named
  rw [chassisControlOption_law]
  have : ([0, 1, 2, 3, 4, 5] : List Nat)[idx]? = some idx := by
    rcases idx with _ | _ | _ | _ | _ | _ | n <;> first | rfl | omega
  rw [this]
  exact chassis_control_refines idx s (by omega)

theorem get_system_boot_options_refines (sel setSel blk : Nat) (s : BmcState)
    (h : (Call.getBootParam sel setSel blk).InRange) :
    (api_get_system_boot_options sel setSel blk).run s = (s, .ok (.bytes (get_boot_param sel setSel s))) := by
  obtain ⟨h1, h2, h3⟩ := h
  simp [api_get_system_boot_options, getBootOptions, api_eval, bitsOf, Nat.mod_eq_of_lt, *]

theorem set_system_boot_options_refines (sel : Nat) (data : List Nat) (invalid : Bool) (s : BmcState)
    (h : sel < 128) :
    (api_set_system_boot_options sel data invalid).run s = (set_boot_param sel invalid data s, .ok .unit) := by
  have := b2n_le invalid
  simp [api_set_system_boot_options, api_eval, bitsOf]
  congr 1
  · omega
  · apply bitOf_of_eq; omega

/-- boot flag bits of parameter 5 -/
theorem get_boot_mode_refines (s : BmcState) (hw : 1 ≤ (get_boot_param 5 0 s).length) :
    api_get_boot_mode.run s = (s, .ok (.bool (get_boot_flags s).efi)) := by
  simp [api_get_boot_mode, getBootOptions, api_eval, bitsOf, bootFlagsSelector]
  cases hd : get_boot_param 5 0 s with
  | nil => simp [hd] at hw
  | cons d0 t =>
    simp [get_boot_flags, hd, bitOf]

theorem get_boot_persistency_refines (s : BmcState) (hw : 1 ≤ (get_boot_param 5 0 s).length) :
    api_get_boot_persistency.run s = (s, .ok (.bool (get_boot_flags s).persistent)) := by
  simp [api_get_boot_persistency, getBootOptions, api_eval, bitsOf, bootFlagsSelector]
  cases hd : get_boot_param 5 0 s with
  | nil => simp [hd] at hw
  | cons d0 t => simp [get_boot_flags, hd, bitOf]

/-- TABLE LAW (generated CONVERT_RAW_TO_BOOT_DEVICE): every 4-bit selector maps to the device the
specification's table 28-14 names for it, reserved selectors are not in the table -/
theorem rawToBootDevice_law :
    (List.range 16).all (fun c => lookup rawToBootDevice c == (BootDev.ofCode c).map bootDevIdx) = true := by
  decide +kernel

theorem rawToBootDevice_spec (c : Nat) (h : c < 16) :
    lookup rawToBootDevice c = (BootDev.ofCode c).map bootDevIdx := by
  have := List.all_eq_true.mp rawToBootDevice_law c (List.mem_range.mpr h)
  simpa using this

/-- TABLE LAW (generated CONVERT_BOOT_DEVICE_TO_RAW): every device maps to its selector of table 28-14 -/
theorem bootDeviceToRaw_spec (d : BootDev) : lookup bootDeviceToRaw (bootDevIdx d) = some d.code := by
  cases d <;> decide +kernel

theorem bootDev_all_idx (d : BootDev) : BootDev.all[bootDevIdx d]? = some d := by
  cases d <;> rfl

theorem get_boot_device_refines (s : BmcState) (hw : 2 ≤ (get_boot_param 5 0 s).length) :
    api_get_boot_device.run s = present (s, .bootDev (BootDev.ofCode (get_boot_flags s).device)) := by
  simp [api_get_boot_device, getBootOptions, api_eval, bitsOf, bootFlagsSelector]
  rcases hd : get_boot_param 5 0 s with _ | ⟨d0, _ | ⟨d1, t⟩⟩
  · simp [hd] at hw
  · simp [hd] at hw
  · have hc : d1 / 4 % 16 < 16 := by omega
    simp [get_boot_flags, hd, bitsOf, present, rawToBootDevice_spec _ hc]
    cases hb : BootDev.ofCode (d1 / 4 % 16) with
    | none => simp [Result.toOutcome]
    | some b => simp [Result.toOutcome, bootDev_all_idx]

theorem set_boot_options_refines (dev : BootDev) (efi persistent : Bool) (s : BmcState) :
    (api_set_boot_options dev efi persistent).run s =
      (set_boot_flags { valid := true, persistent := persistent, efi := efi, device := dev.code } s, .ok .unit) := by
  have hc : dev.code * 4 < 256 := by cases dev <;> decide
  unfold api_set_boot_options
  simp only [bootDeviceToRaw_spec]
  rw [if_neg (by omega)]
  rw [set_system_boot_options_refines _ _ _ _ (by decide)]
  cases efi <;> cases persistent <;> simp [set_boot_flags, b2n, bootFlagsSelector]

end PyIpmi.Lemmas.Api
