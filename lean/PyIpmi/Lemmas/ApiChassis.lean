/- C07 refinement lemmas, family 2: chassis status / control, system boot options (pyipmi/chassis.py). -/
import PyIpmi.Lemmas.ApiBase
namespace PyIpmi.Lemmas.Api
open PyIpmi PyIpmi.Codec PyIpmi.Spec.Bmc PyIpmi.Model.Api PyIpmi.Gen.Tables

set_option maxRecDepth 4000

theorem get_chassis_status_refines (s : BmcState) (hw : s.chassis.Wf) :
    api_get_chassis_status.run s = (s, .ok (.chassis (get_chassis_status s))) := by
  generalize hd : s.chassis = d at hw
  obtain ⟨h1, h2⟩ := hw
  cases d with
  | mk powerOn overload interlock fault controlFault restorePolicy evAcFailed evOverload evInterlock evFault evIpmiOn
       intrusion lockout driveFault coolingFault idState idSupported frontPanel =>
  have := b2n_le powerOn; have := b2n_le overload; have := b2n_le interlock; have := b2n_le fault
  have := b2n_le controlFault; have := b2n_le evAcFailed; have := b2n_le evOverload; have := b2n_le evInterlock
  have := b2n_le evFault; have := b2n_le evIpmiOn; have := b2n_le intrusion; have := b2n_le lockout
  have := b2n_le driveFault; have := b2n_le coolingFault; have := b2n_le idSupported
  simp at h1 h2
  cases frontPanel <;>
  · simp [api_get_chassis_status, api_eval, fmtChassis, get_chassis_status, hd]
    bits_close

end PyIpmi.Lemmas.Api
