/-
  Lemmas about interaction programs and fault devices (C08).

  * `exec_bind`, `outcome_bind_ok/_error`        sequencing
  * `outcome_pure_indep`, `outcome_fault_past`   counter devices: the fault-free answer does not
                                                 depend on the position; past the fault the
                                                 faulted device is the fault-free one
  * `Checked`, `Built`                           programs built from sendChecked / bind
                                                 (/ whitelisted handlers)
  * `fs_sendChecked`, `fs_bind`, `built_fault_safe`
  * `checked_multi`                              any number of faults, handler-free programs
  * `Sk.run_checked`                             every resolution of a skeleton is `Checked`
-/
import PyIpmi.Model.Prog
import PyIpmi.Spec.FaultDevice
namespace PyIpmi.Prog
open PyIpmi.Spec.FaultDevice

theorem safe_same {α : Type} (c : Nat) (x : Res α) : Safe c x x := Or.inr (Or.inr (Or.inr rfl))

/-! ### sequencing -/

theorem exec_bind {α β σ : Type} (p : Prog α) (f : α → Prog β) (d : Dev σ) (s : σ) :
    exec (p.bind f) d s =
      match (exec p d s).2.1 with
      | .ok a => ((exec (f a) d (exec p d s).1).1, (exec (f a) d (exec p d s).1).2.1,
                  (exec p d s).2.2 ++ (exec (f a) d (exec p d s).1).2.2)
      | .error e => ((exec p d s).1, .error e, (exec p d s).2.2) := by
  induction p generalizing s with
  | done a => simp [Prog.bind, exec]
  | fail e => simp [Prog.bind, exec]
  | send r k ih =>
    simp only [Prog.bind, exec]
    rw [ih]
    split <;> simp_all

theorem outcome_bind_ok {α β σ : Type} {p : Prog α} {f : α → Prog β} {d : Dev σ} {s : σ} {a : α}
    (h : outcome p d s = .ok a) : outcome (p.bind f) d s = outcome (f a) d (final p d s) := by
  unfold outcome at *
  rw [exec_bind]
  simp [h, final]

theorem outcome_bind_error {α β σ : Type} {p : Prog α} {f : α → Prog β} {d : Dev σ} {s : σ} {e : Err}
    (h : outcome p d s = .error e) : outcome (p.bind f) d s = .error e := by
  unfold outcome at *
  rw [exec_bind]
  simp [h]

theorem outcome_send {α σ : Type} (r : Req) (k : Rsp → Prog α) (d : Dev σ) (s : σ) :
    outcome (.send r k) d s = outcome (k (d s r).2) d (d s r).1 := by
  simp [outcome, exec]

theorem outcome_done {α σ : Type} (a : α) (d : Dev σ) (s : σ) : outcome (.done a) d s = .ok a := rfl
theorem outcome_fail {α σ : Type} (e : Err) (d : Dev σ) (s : σ) :
    outcome (.fail e : Prog α) d s = .error e := rfl

/-! ### counter devices -/

@[simp] theorem pureDev_fst (base : Req → Rsp) (n : Nat) (r : Req) : (pureDev base n r).1 = n + 1 := rfl
@[simp] theorem pureDev_snd (base : Req → Rsp) (n : Nat) (r : Req) : (pureDev base n r).2 = base r := rfl
@[simp] theorem faultDev_fst (base : Req → Rsp) (k c n : Nat) (r : Req) :
    (faultDev base k c n r).1 = n + 1 := rfl
theorem faultDev_snd_eq (base : Req → Rsp) (k c : Nat) (r : Req) :
    (faultDev base k c k r).2 = ⟨c, []⟩ := by simp [faultDev]
theorem faultDev_snd_ne (base : Req → Rsp) (k c n : Nat) (r : Req) (h : ¬ n = k) :
    (faultDev base k c n r).2 = base r := by simp [faultDev, h]

theorem outcome_pure_indep {α : Type} (base : Req → Rsp) (p : Prog α) (n m : Nat) :
    outcome p (pureDev base) n = outcome p (pureDev base) m := by
  induction p generalizing n m with
  | done a => rfl
  | fail e => rfl
  | send r k ih =>
    rw [outcome_send, outcome_send]
    exact ih _ _ _

theorem outcome_fault_past {α : Type} (base : Req → Rsp) (p : Prog α) (n k c : Nat) (h : k < n) :
    outcome p (faultDev base k c) n = outcome p (pureDev base) n := by
  induction p generalizing n with
  | done a => rfl
  | fail e => rfl
  | send r k' ih =>
    rw [outcome_send, outcome_send]
    have hne : ¬ n = k := by omega
    simp only [faultDev, pureDev, hne, if_false]
    exact ih _ _ (by omega)

/-! ### the two classes of programs -/

/-- Built from `done`, `fail`, `sendChecked` and `bind` only. -/
inductive Checked : {α : Type} → Prog α → Prop
  | done {α : Type} (a : α) : Checked (.done a)
  | fail {α : Type} (e : Err) : Checked (.fail e : Prog α)
  | sendChecked (r : Req) : Checked (sendChecked r)
  | bind {α β : Type} (p : Prog α) (f : α → Prog β) :
      Checked p → (∀ a, Checked (f a)) → Checked (p.bind f)

/-- `FaultSafe` restricted to the injected codes satisfying `P`. -/
def FaultSafeOn {α : Type} (P : Nat → Prop) (base : Req → Rsp) (p : Prog α) : Prop :=
  ∀ n k c, c ≠ 0 → P c → Safe c (outcome p (pureDev base) n) (outcome p (faultDev base k c) n)

theorem faultSafe_iff_on {α : Type} (base : Req → Rsp) (p : Prog α) :
    FaultSafe base p ↔ FaultSafeOn (fun _ => True) base p := by
  constructor
  · intro h n k c hc _; exact h n k c hc
  · intro h n k c hc; exact h n k c hc trivial

/-- Built from `done`, `fail`, `sendChecked`, `bind` and whitelisted handlers; a handler is any
program that has been shown fault-safe on its own (the four concrete ones are in
Lemmas/ProgHandlers.lean).  In `bind`, the continuation only matters for values the
fault-free run can produce. -/
inductive Built (P : Nat → Prop) (base : Req → Rsp) : {α : Type} → Prog α → Prop
  | done {α : Type} (a : α) : Built P base (.done a)
  | fail {α : Type} (e : Err) : Built P base (.fail e : Prog α)
  | sendChecked (r : Req) : Built P base (sendChecked r)
  | bind {α β : Type} (p : Prog α) (f : α → Prog β) :
      Built P base p → (∀ a, (∃ n, outcome p (pureDev base) n = .ok a) → Built P base (f a)) →
      Built P base (p.bind f)
  | handler {α : Type} (p : Prog α) : FaultSafeOn P base p → Built P base p

theorem fs_done {α : Type} (P : Nat → Prop) (base : Req → Rsp) (a : α) :
    FaultSafeOn P base (.done a) := by
  intro n k c _ _; exact Or.inr (Or.inr (Or.inr rfl))

theorem fs_fail {α : Type} (P : Nat → Prop) (base : Req → Rsp) (e : Err) :
    FaultSafeOn P base (.fail e : Prog α) := by
  intro n k c _ _; exact Or.inr (Or.inr (Or.inr rfl))

theorem fs_sendChecked (P : Nat → Prop) (base : Req → Rsp) (r : Req) :
    FaultSafeOn P base (sendChecked r) := by
  intro n k c hc _
  unfold sendChecked
  rw [outcome_send, outcome_send]
  by_cases h : n = k
  · left
    simp [faultDev, h, hc, outcome_fail]
  · right; right; right
    simp only [faultDev, pureDev, h, if_false]
    by_cases hb : (base r).cc = 0 <;> simp [hb, outcome_done, outcome_fail]

theorem fs_bind {α β : Type} (P : Nat → Prop) (base : Req → Rsp) (p : Prog α) (f : α → Prog β)
    (hp : FaultSafeOn P base p)
    (hf : ∀ a, (∃ n, outcome p (pureDev base) n = .ok a) → FaultSafeOn P base (f a)) :
    FaultSafeOn P base (p.bind f) := by
  intro n k c hc hP
  rcases hp n k c hc hP with h | h | h | h
  · exact Or.inl (outcome_bind_error h)
  · exact Or.inr (Or.inl (outcome_bind_error h))
  · exact Or.inr (Or.inr (Or.inl (outcome_bind_error h)))
  · cases hg : outcome p (pureDev base) n with
    | error e =>
      rw [hg] at h
      right; right; right
      rw [outcome_bind_error h, outcome_bind_error hg]
    | ok a =>
      rw [hg] at h
      rw [outcome_bind_ok h, outcome_bind_ok hg]
      rw [outcome_pure_indep base (f a) (final p (pureDev base) n) (final p (faultDev base k c) n)]
      exact hf a ⟨n, hg⟩ _ k c hc hP

theorem built_fault_safe {α : Type} (P : Nat → Prop) (base : Req → Rsp) (p : Prog α)
    (h : Built P base p) : FaultSafeOn P base p := by
  induction h with
  | done a => exact fs_done P base a
  | fail e => exact fs_fail P base e
  | sendChecked r => exact fs_sendChecked P base r
  | bind p f _ _ ihp ihf => exact fs_bind P base p f ihp ihf
  | handler p hp => exact hp

theorem Checked.built {α : Type} (P : Nat → Prop) (base : Req → Rsp) {p : Prog α} (h : Checked p) :
    Built P base p := by
  induction h with
  | done a => exact .done a
  | fail e => exact .fail e
  | sendChecked r => exact .sendChecked r
  | bind p f _ _ ihp ihf => exact .bind p f ihp (fun a _ => ihf a)

/-! ### any number of faults (handler-free programs) -/

theorem outcome_faults_none {α : Type} (base : Req → Rsp) (p : Prog α) (n : Nat) :
    outcome p (faultsDev base (fun _ => none)) n = outcome p (pureDev base) n := by
  induction p generalizing n with
  | done a => rfl
  | fail e => rfl
  | send r k ih =>
    rw [outcome_send, outcome_send]
    exact ih _ _

theorem checked_multi {α : Type} (base : Req → Rsp) (φ : Nat → Option Nat)
    (hφ : ∀ n c, φ n = some c → c ≠ 0) (p : Prog α) (h : Checked p) (n : Nat) :
    SafeAny (fun c => ∃ m, φ m = some c) (outcome p (pureDev base) n) (outcome p (faultsDev base φ) n) := by
  induction h generalizing n with
  | done a => exact Or.inr (Or.inr (Or.inr rfl))
  | fail e => exact Or.inr (Or.inr (Or.inr rfl))
  | sendChecked r =>
    unfold sendChecked
    rw [outcome_send, outcome_send]
    cases hn : φ n with
    | none =>
      right; right; right
      simp only [faultsDev, pureDev, hn]
      by_cases hb : (base r).cc = 0 <;> simp [hb, outcome_done, outcome_fail]
    | some c =>
      left
      refine ⟨c, ⟨n, hn⟩, ?_⟩
      have hc := hφ n c hn
      simp [faultsDev, hn, hc, outcome_fail]
  | bind p f _ _ ihp ihf =>
    rcases ihp n with ⟨c, hc, h⟩ | h | h | h
    · exact Or.inl ⟨c, hc, outcome_bind_error h⟩
    · exact Or.inr (Or.inl (outcome_bind_error h))
    · exact Or.inr (Or.inr (Or.inl (outcome_bind_error h)))
    · cases hg : outcome p (pureDev base) n with
      | error e =>
        rw [hg] at h
        right; right; right
        rw [outcome_bind_error h, outcome_bind_error hg]
      | ok a =>
        rw [hg] at h
        rw [outcome_bind_ok h, outcome_bind_ok hg]
        rw [outcome_pure_indep base (f a) (final p (pureDev base) n) (final p (faultsDev base φ) n)]
        exact ihf a _

/-! ### skeletons -/

theorem Sk.run_checked (env : Env) (table : List Sk) (fuel : Nat) (sk : Sk) (st : St) :
    Checked (Sk.run env table fuel sk st) := by
  induction fuel generalizing sk st with
  | zero => unfold Sk.run; exact .fail _
  | succ f ih =>
    cases sk with
    | skip => unfold Sk.run; exact .done _
    | send m =>
      unfold Sk.run
      exact .bind _ _ (.sendChecked _) (fun _ => .done _)
    | call op =>
      unfold Sk.run
      split
      · exact .bind _ _ (ih _ _) (fun _ => .done _)
      · exact .fail _
    | seq a b =>
      unfold Sk.run
      refine .bind _ _ (ih _ _) (fun st' => ?_)
      split
      · exact .done _
      · exact ih _ _
    | alt a b =>
      unfold Sk.run
      simp only
      split
      · exact ih _ _
      · exact ih _ _
    | rep body =>
      unfold Sk.run
      simp only
      split
      · refine .bind _ _ (ih _ _) (fun st' => ?_)
        split
        · exact .done _
        · exact ih _ _
      · exact .done _
    | stop =>
      unfold Sk.run
      split
      · exact .done _
      · exact .fail _

end PyIpmi.Prog
