/- C07 refinement lemmas, family 8: DCMI (pyipmi/dcmi.py). -/
import PyIpmi.Lemmas.ApiBase
namespace PyIpmi.Lemmas.Api
open PyIpmi PyIpmi.Codec PyIpmi.Spec.Bmc PyIpmi.Model.Api PyIpmi.Gen.Tables

set_option maxRecDepth 4000
set_option linter.unusedSimpArgs false

theorem get_dcmi_capabilities_refines (sel : Nat) (s : BmcState) (h : sel < 256)
    (h1 : s.dcmi.confMajor < 256) (h2 : s.dcmi.confMinor < 256) :
    (api_get_dcmi_capabilities sel).run s =
      (s, .ok (.dcmiCaps s.dcmi.confMajor s.dcmi.confMinor (get_dcmi_capabilities sel s).revision
                 (get_dcmi_capabilities sel s).data)) := by
  have e1 : sel % 256 = sel := by omega
  have hl : ¬ ((get_dcmi_capabilities sel s).data.length + 1 + 1 + 1 < 2) := by omega
  simp [api_get_dcmi_capabilities, api_eval, e1, hl]
  constructor <;> omega

theorem get_power_reading_refines (mode attrs : Nat) (s : BmcState) (h1 : mode < 256) (h2 : attrs < 256)
    (hw : (get_power_reading mode attrs s).Wf) :
    (api_get_power_reading mode attrs).run s = (s, .ok (.powerReading (get_power_reading mode attrs s))) := by
  have e1 : mode % 256 = mode := by omega
  have e2 : attrs % 256 = attrs := by omega
  obtain ⟨w1, w2, w3, w4, w5, w6⟩ := hw
  rcases hp : get_power_reading mode attrs s with ⟨a, b, c, d, t, q, st⟩
  rw [hp] at w1 w2 w3 w4 w5 w6
  simp only at w1 w2 w3 w4 w5 w6
  simp [api_get_power_reading, api_eval, fmtPowerReading, e1, e2, hp]
  refine ⟨?_, ?_, ?_, ?_, ?_, ?_⟩ <;> omega

/-! ### Get DCMI Sensor Info -/

theorem pairIds_le16s (l : List Nat) (h : ∀ v ∈ l, v < 65536) : pairIds (le16s l) = l := by
  induction l with
  | nil => rfl
  | cons v t ih =>
    have hv := h v (by simp)
    simp only [le16s, pairIds, ih (fun x hx => h x (by simp [hx]))]
    congr 1; omega

theorem dcmi_constants : dcmiSensorType = 1 ∧ dcmiEntityInstance = 0 ∧ dcmiEntityInstanceStart = 0 ∧
    dcmiEntities = [0x40, 0x41, 0x42] := by decide

/-- ONE exchange of get_dcmi_sensor_record_ids: the first eight record ids of the entity, whatever their number -/
theorem dcmi_sensor_info_run (entity : Nat) (s : BmcState) (h : entity < 256)
    (hw : ∀ v ∈ get_dcmi_sensors 1 entity s, v < 65536) :
    (dcmiSensorInfo entity).run s = (s, .ok (.natList ((get_dcmi_sensors 1 entity s).take 8))) := by
  have e1 : entity % 256 = entity := by omega
  have hp := pairIds_le16s ((get_dcmi_sensors 1 entity s).take 8) (fun v hv => hw v (List.mem_of_mem_take hv))
  simp [dcmiSensorInfo, api_eval, dcmi_constants, fmtDcmiSensorInfo, dcmiSensorPage, e1]
  simpa using hp

theorem dcmiSensors_wf (ty entity : Nat) (s : BmcState) (hw : s.Wf) : ∀ v ∈ get_dcmi_sensors ty entity s, v < 65536 := by
  unfold get_dcmi_sensors
  split
  · exact hw.dcmiSensors.getD entity _ (by intro v hv; simp [dfltDcmiSensors] at hv; omega)
  · intro v hv; cases hv

theorem powerReading_wf (mode attrs : Nat) (s : BmcState) (hw : s.Wf) : (get_power_reading mode attrs s).Wf :=
  hw.dcmiPower.getD _ _ (by refine ⟨?_, ?_, ?_, ?_, ?_, ?_⟩ <;> simp [dfltPowerReading] <;> omega)

/-- what get_dcmi_sensor_record_ids() returns from ANY conforming BMC: the first eight record ids of each of the
three entities - it asks each entity once (Entity Instance Start 0) and never for the instances after the eighth -/
theorem get_dcmi_sensor_record_ids_run (s : BmcState) (hw : s.Wf) :
    api_get_dcmi_sensor_record_ids s =
      (s, .ok (.natList ((get_dcmi_sensors 1 0x40 s).take 8 ++ (get_dcmi_sensors 1 0x41 s).take 8 ++
                         (get_dcmi_sensors 1 0x42 s).take 8))) := by
  simp [api_get_dcmi_sensor_record_ids, dcmiSensorExchanges, dcmi_constants, runIdSeq,
    dcmi_sensor_info_run _ s _ (dcmiSensors_wf 1 _ s hw)]

/-- the library does not page: equal to the reference only while no entity has more than 8 instances -/
theorem get_dcmi_sensor_record_ids_refines_partial (s : BmcState) (hw : s.Wf)
    (h8 : ∀ e ∈ [0x40, 0x41, 0x42], (get_dcmi_sensors 1 e s).length ≤ 8) :
    api_get_dcmi_sensor_record_ids s = (s, .ok (.natList (get_dcmi_sensor_record_ids s))) := by
  rw [get_dcmi_sensor_record_ids_run s hw, get_dcmi_sensor_record_ids,
    List.take_of_length_le (h8 0x40 (by simp)), List.take_of_length_le (h8 0x41 (by simp)),
    List.take_of_length_le (h8 0x42 (by simp))]

end PyIpmi.Lemmas.Api
