/-
  sel.get_sel_entry / sel_entries / get_and_clear_sel_entry under any fault set (C08).

  * `SelCfg.Wf`, `SelStorage`   what is assumed of the constants and of the device: every read of
                        the record that lies inside it (or asks for the entire record) is
                        answered OK with exactly those bytes and one fixed next-record id
  * `selEntry_exact`    fault-free: the loop returns `fin record next` from every loop state
  * `selEntry_ms`       ANY fault set where max_req_len has its floor (`cfg.floor = some 0`: the 17th CAh is
                        RetryError), at most `full` (16) answers CAh where it has none: error carrying an
                        injected code, RetryError, or `fin record next`
  * `listLoop_ms`       the listing loop over any entry operation that is safe on the ids the
                        fault-free listing visits
  * `selEntries_ms`     sel_entries
  * `getAndClear_ms`    get_and_clear_sel_entry: ANY fault set where the loop has a retry budget (exhausted =
                        RetryError), else any fault set below a position the fuel exceeds
-/
import PyIpmi.Lemmas.ProgMulti
namespace PyIpmi.Prog
open PyIpmi.Spec.FaultDevice

/-! ### get_sel_entry -/

/-- What the proofs need of the constants (the generated ones satisfy it: Props/C08.lean). -/
structure SelCfg.Wf (cfg : SelCfg) : Prop where
  step : cfg.step = 1
  shrink : cfg.shrink ≠ 0
  full_lt : cfg.full < cfg.entire
  rec_le : cfg.recLen ≤ cfg.entire
  floor : cfg.floor = none ∨ cfg.floor = some 0
  full_pos : 1 ≤ cfg.full

section sel
variable {β : Type} (cfg : SelCfg) (mk : Nat → Nat → Req) (nextOf : Rsp → Nat) (pay : Rsp → List Nat)
  (fin : List Nat → Nat → Res β) (base : Req → Rsp) (rec : List Nat) (nx : Nat)

/-- The device holds `rec` (of the record length) and names `nx` as the next record: a read of
`len ≥ 1` bytes at `off` that stays inside the record, or asks for the entire record, is
answered OK with exactly those bytes. -/
def SelStorage : Prop :=
  rec.length = cfg.recLen ∧
  ∀ off len, off < cfg.recLen → 1 ≤ len → (off + len ≤ cfg.recLen ∨ len = cfg.entire) →
    (base (mk off len)).cc = 0 ∧ nextOf (base (mk off len)) = nx ∧
      pay (base (mk off len)) = (rec.drop off).take len

/-- Distance of the request length from zero, in refusals: FFh → 16 → 15 → … -/
def selEff (m : Nat) : Nat := if m = cfg.entire then cfg.full + 1 else m

theorem selEff_shrink (hw : cfg.Wf) (m : Nat) (hm : m = cfg.entire ∨ m < cfg.entire) (h1 : 2 ≤ selEff cfg m) :
    ∃ m', selShrink cfg m = some m' ∧ selEff cfg m' + 1 = selEff cfg m ∧ (m' = cfg.entire ∨ m' < cfg.entire) := by
  have hfl := hw.full_lt
  by_cases he : m = cfg.entire
  · have hne : ¬ cfg.full = cfg.entire := by omega
    have e1 : selShrink cfg m = some cfg.full := by simp [selShrink, he]
    have e2 : selEff cfg m = cfg.full + 1 := by simp [selEff, he]
    have e3 : selEff cfg cfg.full = cfg.full := by simp [selEff, hne]
    exact ⟨cfg.full, e1, by rw [e2, e3], Or.inr hfl⟩
  · have hlt : m < cfg.entire := by rcases hm with h | h; exact absurd h he; exact h
    have e2 : selEff cfg m = m := by simp [selEff, he]
    have hne : ¬ m - 1 = cfg.entire := by omega
    rw [e2] at h1
    have e1 : selShrink cfg m = some (m - 1) := by
      unfold selShrink
      rw [if_neg he, hw.step]
      rcases hw.floor with hf | hf <;> rw [hf]
      · simp only []; rw [if_neg (by omega)]
    have e3 : selEff cfg (m - 1) = m - 1 := by simp [selEff, hne]
    exact ⟨m - 1, e1, by rw [e2, e3]; omega, Or.inr (by omega)⟩

/-- with the floor, the request length 1 is the last one: the next CAh is RetryError -/
theorem selShrink_floor (hw : cfg.Wf) (hfloor : cfg.floor = some 0) (m : Nat) (hne : m ≠ cfg.entire)
    (h1 : selEff cfg m ≤ 1) : selShrink cfg m = none := by
  have e2 : selEff cfg m = m := by simp [selEff, hne]
  rw [e2] at h1
  unfold selShrink
  rw [if_neg hne, hfloor, hw.step]
  simp only []
  rw [if_pos (by omega)]

theorem selLen_range (hw : cfg.Wf) (m off : Nat) (hoff : off < cfg.recLen) (h1 : 1 ≤ selEff cfg m) :
    1 ≤ selLen cfg m off ∧ (off + selLen cfg m off ≤ cfg.recLen ∨ selLen cfg m off = cfg.entire) := by
  unfold selLen selEff at *
  have := hw.full_lt
  by_cases he : m = cfg.entire
  · simp [he]; omega
  · simp only [he, if_false] at h1
    by_cases hc : off + m > cfg.recLen
    · simp [he, hc]; omega
    · simp [he, hc]; omega

theorem outcome_selEntry_succ {σ : Type} (d : Dev σ) (s : σ) (f m : Nat) (acc : List Nat) :
    outcome (selEntry cfg mk nextOf pay fin (f + 1) m acc) d s =
      outcome (selStep cfg nextOf pay fin (selEntry cfg mk nextOf pay fin f) m acc
        (d s (mk acc.length (selLen cfg m acc.length))).2) d
        (d s (mk acc.length (selLen cfg m acc.length))).1 := by
  rw [selEntry, outcome_send]

/-- What a served read does to the collected bytes. -/
theorem sel_served (acc : List Nat) (len : Nat) (hrec : rec.length = cfg.recLen)
    (hacc : acc = rec.take acc.length) (hlen : 1 ≤ len) :
    (cfg.recLen ≤ (acc ++ (rec.drop acc.length).take len).length →
        acc ++ (rec.drop acc.length).take len = rec) ∧
    (¬ cfg.recLen ≤ (acc ++ (rec.drop acc.length).take len).length →
        (acc ++ (rec.drop acc.length).take len) =
            rec.take (acc ++ (rec.drop acc.length).take len).length ∧
          acc.length < (acc ++ (rec.drop acc.length).take len).length) := by
  have hcat : acc ++ (rec.drop acc.length).take len = rec.take (acc.length + len) := by
    rw [List.take_add]
    rw [← hacc]
  have hl : (acc ++ (rec.drop acc.length).take len).length = min (acc.length + len) cfg.recLen := by
    rw [hcat, List.length_take, hrec]
  constructor
  · intro h
    rw [hcat]
    apply List.take_of_length_le
    rw [hl] at h
    omega
  · intro h
    rw [hl] at h ⊢
    constructor
    · rw [hcat]
      have : min (acc.length + len) cfg.recLen = acc.length + len := by omega
      rw [this]
    · omega

theorem selEntry_exact (hw : cfg.Wf) (hdev : SelStorage cfg mk nextOf pay base rec nx)
    (fuel m : Nat) (acc : List Nat) (n : Nat) (h1 : 1 ≤ selEff cfg m)
    (hacc : acc = rec.take acc.length) (hlt : acc.length < cfg.recLen)
    (hf : cfg.recLen - acc.length ≤ fuel) :
    outcome (selEntry cfg mk nextOf pay fin fuel m acc) (pureDev base) n = fin rec nx := by
  induction fuel generalizing acc n with
  | zero => omega
  | succ f ih =>
    obtain ⟨hrec, hserve⟩ := hdev
    obtain ⟨r1, r2⟩ := selLen_range cfg hw m acc.length hlt h1
    obtain ⟨d0, d1, d2⟩ := hserve acc.length _ hlt r1 r2
    rw [outcome_selEntry_succ, pureDev_snd, pureDev_fst]
    unfold selStep
    have hs : ¬ (base (mk acc.length (selLen cfg m acc.length))).cc = cfg.shrink := by
      rw [d0]; exact fun h => hw.shrink h.symm
    rw [if_neg hs, if_neg (by rw [d0]; simp), d1, d2]
    obtain ⟨ha, hb⟩ := sel_served cfg rec acc _ hrec hacc r1
    by_cases hdone : cfg.recLen ≤ (acc ++ (rec.drop acc.length).take (selLen cfg m acc.length)).length
    · rw [if_pos hdone, ha hdone, outcome_ofRes]
    · rw [if_neg hdone]
      obtain ⟨hb1, hb2⟩ := hb hdone
      exact ih _ _ hb1 (by omega) (by omega)

/-- The loop from any state, under any fault set: `S` holds the positions from `n` on that
are answered with the shrink code; there are fewer of them than the request length tolerates. -/
theorem selEntry_core (hw : cfg.Wf) (hdev : SelStorage cfg mk nextOf pay base rec nx)
    (φ : Nat → Option Nat) (hφ : NonZero φ)
    (fuel m : Nat) (acc : List Nat) (S : List Nat) (n : Nat)
    (hm : m = cfg.entire ∨ m < cfg.entire)
    (hS : ∀ k, n ≤ k → φ k = some cfg.shrink → k ∈ S) (hB : S.length + 1 ≤ selEff cfg m)
    (hacc : acc = rec.take acc.length) (hlt : acc.length < cfg.recLen)
    (hf : (cfg.recLen - acc.length) + selEff cfg m ≤ fuel) :
    SafeAny (Inj φ) (fin rec nx) (outcome (selEntry cfg mk nextOf pay fin fuel m acc) (faultsDev base φ) n) := by
  induction fuel generalizing m acc S n with
  | zero => omega
  | succ f ih =>
    rw [outcome_selEntry_succ, faultsDev_fst]
    cases hn : φ n with
    | some c =>
      rw [faultsDev_snd_some _ _ _ _ _ hn]
      have hc := hφ n c hn
      unfold selStep
      show SafeAny _ _ (outcome (if c = cfg.shrink then _ else if c ≠ 0 then _ else _) _ _)
      by_cases hs : c = cfg.shrink
      · rw [if_pos hs]
        subst hs
        obtain ⟨hS', hlen⟩ := few_erase φ _ n S hS hn
        obtain ⟨m', e0, e1, e2⟩ := selEff_shrink cfg hw m hm (by omega)
        rw [e0]
        exact ih _ acc (S.erase n) (n + 1) e2 hS' (by omega) hacc hlt (by omega)
      · rw [if_neg hs, if_pos hc]
        exact safeAny_inj _ _ c ⟨n, hn⟩
    | none =>
      rw [faultsDev_snd_none _ _ _ _ hn]
      obtain ⟨hrec, hserve⟩ := hdev
      obtain ⟨r1, r2⟩ := selLen_range cfg hw m acc.length hlt (by omega)
      obtain ⟨d0, d1, d2⟩ := hserve acc.length _ hlt r1 r2
      unfold selStep
      have hs : ¬ (base (mk acc.length (selLen cfg m acc.length))).cc = cfg.shrink := by
        rw [d0]; exact fun h => hw.shrink h.symm
      rw [if_neg hs, if_neg (by rw [d0]; simp), d1, d2]
      obtain ⟨ha, hb⟩ := sel_served cfg rec acc _ hrec hacc r1
      by_cases hdone : cfg.recLen ≤ (acc ++ (rec.drop acc.length).take (selLen cfg m acc.length)).length
      · rw [if_pos hdone, ha hdone, outcome_ofRes]
        exact safeAny_same _ _
      · rw [if_neg hdone]
        obtain ⟨hb1, hb2⟩ := hb hdone
        exact ih m _ S (n + 1) hm (few_weaken φ _ n S hS) hB hb1 (by omega) (by omega)

/-- The loop from any state under ANY fault set, where max_req_len has its floor: however many
requests are answered with the shrink code, the loop ends - with RetryError once the length 1 has
been refused. -/
theorem selEntry_core_floor (hw : cfg.Wf) (hfloor : cfg.floor = some 0)
    (hdev : SelStorage cfg mk nextOf pay base rec nx)
    (φ : Nat → Option Nat) (hφ : NonZero φ)
    (fuel m : Nat) (acc : List Nat) (n : Nat)
    (hm : m = cfg.entire ∨ m < cfg.entire) (h1 : 1 ≤ selEff cfg m)
    (hacc : acc = rec.take acc.length) (hlt : acc.length < cfg.recLen)
    (hf : (cfg.recLen - acc.length) + selEff cfg m ≤ fuel) :
    SafeAny (Inj φ) (fin rec nx) (outcome (selEntry cfg mk nextOf pay fin fuel m acc) (faultsDev base φ) n) := by
  induction fuel generalizing m acc n with
  | zero => omega
  | succ f ih =>
    rw [outcome_selEntry_succ, faultsDev_fst]
    cases hn : φ n with
    | some c =>
      rw [faultsDev_snd_some _ _ _ _ _ hn]
      have hc := hφ n c hn
      unfold selStep
      show SafeAny _ _ (outcome (if c = cfg.shrink then _ else if c ≠ 0 then _ else _) _ _)
      by_cases hs : c = cfg.shrink
      · rw [if_pos hs]
        by_cases h2 : 2 ≤ selEff cfg m
        · obtain ⟨m', e0, e1, e2⟩ := selEff_shrink cfg hw m hm h2
          rw [e0]
          exact ih m' acc (n + 1) e2 (by omega) hacc hlt (by omega)
        · have hne : m ≠ cfg.entire := by
            intro he
            have : selEff cfg m = cfg.full + 1 := by simp [selEff, he]
            have := hw.full_pos
            omega
          rw [selShrink_floor cfg hw hfloor m hne (by omega)]
          exact safeAny_retry _ _
      · rw [if_neg hs, if_pos hc]
        exact safeAny_inj _ _ c ⟨n, hn⟩
    | none =>
      rw [faultsDev_snd_none _ _ _ _ hn]
      obtain ⟨hrec, hserve⟩ := hdev
      obtain ⟨r1, r2⟩ := selLen_range cfg hw m acc.length hlt h1
      obtain ⟨d0, d1, d2⟩ := hserve acc.length _ hlt r1 r2
      unfold selStep
      have hs : ¬ (base (mk acc.length (selLen cfg m acc.length))).cc = cfg.shrink := by
        rw [d0]; exact fun h => hw.shrink h.symm
      rw [if_neg hs, if_neg (by rw [d0]; simp), d1, d2]
      obtain ⟨ha, hb⟩ := sel_served cfg rec acc _ hrec hacc r1
      by_cases hdone : cfg.recLen ≤ (acc ++ (rec.drop acc.length).take (selLen cfg m acc.length)).length
      · rw [if_pos hdone, ha hdone, outcome_ofRes]
        exact safeAny_same _ _
      · rw [if_neg hdone]
        obtain ⟨hb1, hb2⟩ := hb hdone
        exact ih m _ (n + 1) hm h1 hb1 (by omega) (by omega)

/-- The fault sets get_sel_entry is safe under: every one where max_req_len has its floor (today's
source: Props.C13.source_variant), those with at most `full` (16) answers CAh where it has none. -/
def SelFaults (cfg : SelCfg) (φ : Nat → Option Nat) : Prop :=
  cfg.floor = some 0 ∨ Few cfg.shrink cfg.full φ

/-- get_sel_entry under any fault set (with the floor) / any with at most 16 answers CAh (without). -/
theorem selEntry_ms (hw : cfg.Wf) (hdev : SelStorage cfg mk nextOf pay base rec nx)
    (hpos : 1 ≤ cfg.recLen) (fuel : Nat) (hf : cfg.recLen + cfg.full + 1 ≤ fuel) :
    MultiSafeOn (SelFaults cfg) base (getSelEntry cfg mk nextOf pay fin fuel) := by
  intro φ hφ hfew n
  have he : selEff cfg cfg.entire = cfg.full + 1 := by simp [selEff]
  unfold getSelEntry
  rw [selEntry_exact cfg mk nextOf pay fin base rec nx hw hdev fuel cfg.entire [] n
    (by rw [he]; omega) (by simp) (by simp; omega) (by simp; omega)]
  rcases hfew with hfloor | ⟨S, hlen, hS⟩
  · exact selEntry_core_floor cfg mk nextOf pay fin base rec nx hw hfloor hdev φ hφ fuel cfg.entire [] n
      (Or.inl rfl) (by rw [he]; omega) (by simp) (by simp; omega) (by rw [he]; simp; omega)
  · exact selEntry_core cfg mk nextOf pay fin base rec nx hw hdev φ hφ fuel cfg.entire [] S n (Or.inl rfl)
      (fun k _ hk => hS k hk) (by rw [he]; omega) (by simp) (by simp; omega) (by rw [he]; simp; omega)

end sel

/-! ### listings -/
section list
variable {β : Type} (entry : Nat → Prog β) (nextOf : β → Res Nat) (last : Nat) (base : Req → Rsp)

theorem listLoop_succ (f rid : Nat) (acc : List β) :
    listLoop entry nextOf last (f + 1) rid acc =
      (entry rid).bind fun b => (Prog.ofRes (nextOf b)).bind fun nx =>
        if nx = last then .done (acc ++ [b]) else listLoop entry nextOf last f nx (acc ++ [b]) := rfl

/-- The listing loop is safe when the entry operation is safe on every id the fault-free
listing can visit: `Known` holds of the first id and of every next id a fault-free read names. -/
theorem listLoop_ms (Φ : (Nat → Option Nat) → Prop) (Known : Nat → Prop)
    (hentry : ∀ rid, Known rid → MultiSafeOn Φ base (entry rid))
    (hnext : ∀ rid b nx n, Known rid → outcome (entry rid) (pureDev base) n = .ok b →
      nextOf b = .ok nx → nx ≠ last → Known nx)
    (fuel rid : Nat) (acc : List β) (hk : Known rid) :
    MultiSafeOn Φ base (listLoop entry nextOf last fuel rid acc) := by
  induction fuel generalizing rid acc with
  | zero => exact ms_fail Φ base _
  | succ f ih =>
    rw [listLoop_succ]
    refine ms_bind Φ base _ _ (hentry rid hk) (fun b hb => ?_)
    obtain ⟨n, hn⟩ := hb
    refine ms_bind Φ base _ _ (ms_ofRes Φ base _) (fun nx hx => ?_)
    obtain ⟨n', hn'⟩ := hx
    rw [outcome_ofRes] at hn'
    by_cases hl : nx = last
    · rw [if_pos hl]; exact ms_done Φ base _
    · rw [if_neg hl]
      exact ih nx _ (hnext rid b nx n hk hn hn' hl)

/-- sel.sel_entries: Get SEL Info, Reserve SEL, the chain. -/
theorem selEntries_ms (Φ : (Nat → Option Nat) → Prop) (Known : Nat → Prop)
    (info : Req) (count : Rsp → Nat) (reserve : Prog Nat) (entry2 : Nat → Nat → Prog β)
    (first fuel : Nat) (res : Nat)
    (hreserve : MultiSafeOn Φ base reserve)
    (hres : ∀ n r, outcome reserve (pureDev base) n = .ok r → r = res)
    (hentry : ∀ rid, Known rid → MultiSafeOn Φ base (entry2 res rid))
    (hnext : ∀ rid b nx n, Known rid → outcome (entry2 res rid) (pureDev base) n = .ok b →
      nextOf b = .ok nx → nx ≠ last → Known nx)
    (hfirst : Known first) :
    MultiSafeOn Φ base (selEntries info count reserve entry2 nextOf first last fuel) := by
  unfold selEntries
  refine ms_bind Φ base _ _ (ms_sendChecked Φ base _) (fun ri _ => ?_)
  split
  · exact ms_done Φ base _
  · refine ms_bind Φ base _ _ hreserve (fun r hr => ?_)
    obtain ⟨n, hn⟩ := hr
    rw [hres n r hn]
    exact listLoop_ms (entry2 res) nextOf last base Φ Known hentry hnext fuel first [] hfirst

/-- sdr.sdr_repository_entries / sensor.device_sdr_entries: reserve, the chain. -/
theorem sdrEntries_ms (Φ : (Nat → Option Nat) → Prop) (Known : Nat → Prop)
    (reserve : Prog Nat) (entry2 : Nat → Nat → Prog β) (first fuel : Nat) (res : Nat)
    (hreserve : MultiSafeOn Φ base reserve)
    (hres : ∀ n r, outcome reserve (pureDev base) n = .ok r → r = res)
    (hentry : ∀ rid, Known rid → MultiSafeOn Φ base (entry2 res rid))
    (hnext : ∀ rid b nx n, Known rid → outcome (entry2 res rid) (pureDev base) n = .ok b →
      nextOf b = .ok nx → nx ≠ last → Known nx)
    (hfirst : Known first) :
    MultiSafeOn Φ base (sdrEntries reserve entry2 nextOf first last fuel) := by
  unfold sdrEntries
  refine ms_bind Φ base _ _ hreserve (fun r hr => ?_)
  obtain ⟨n, hn⟩ := hr
  rw [hres n r hn]
  exact listLoop_ms (entry2 res) nextOf last base Φ Known hentry hnext fuel first [] hfirst

end list

/-! ### get_and_clear_sel_entry -/
section gac
variable {β : Type} (cancel : Nat) (reserve : Prog Nat) (entry : Nat → Prog β) (del : Nat → Req)
  (exh : Err) (base : Req → Rsp)

theorem getAndClear_succ (f : Nat) :
    getAndClear cancel reserve entry del exh (f + 1) =
      reserve.bind fun res =>
        (entry res).tryCc.bind fun x =>
          gacStep cancel (getAndClear cancel reserve entry del exh f) x fun e =>
            (sendChecked (del res)).tryCc.bind fun y =>
              gacStep cancel (getAndClear cancel reserve entry del exh f) y fun _ => .done e := rfl

/-- Fault-free, with reserve / read / delete all answered OK: the entry, after one round. -/
theorem getAndClear_exact (res : Nat) (e : β)
    (hres : ∀ n, outcome reserve (pureDev base) n = .ok res)
    (hentry : ∀ n, outcome (entry res) (pureDev base) n = .ok e)
    (hdel : (base (del res)).cc = 0) (f n : Nat) :
    outcome (getAndClear cancel reserve entry del exh (f + 1)) (pureDev base) n = .ok e := by
  rw [getAndClear_succ, outcome_bind_ok (hres n), outcome_try_bind_ok (hentry _)]
  show outcome ((sendChecked (del res)).tryCc.bind _) _ _ = _
  rw [outcome_try_bind_ok (outcome_sendChecked_pure base _ _ hdel)]
  rfl

/-- One round of the loop under a fault set, given what the rest of the loop does (`hrest`: safe from
every later position).  Shared by the two termination arguments below. -/
theorem getAndClear_round (Φ : (Nat → Option Nat) → Prop) (res : Nat) (e : β)
    (hreserve : MultiSafeOn Φ base reserve)
    (hres : ∀ n, outcome reserve (pureDev base) n = .ok res)
    (hsafe : MultiSafeOn Φ base (entry res))
    (hentry : ∀ n, outcome (entry res) (pureDev base) n = .ok e)
    (hdel : (base (del res)).cc = 0)
    (φ : Nat → Option Nat) (hφ : NonZero φ) (hΦ : Φ φ) (f n : Nat)
    (hrest : ∀ n', n < n' →
      SafeAny (Inj φ) (.ok e) (outcome (getAndClear cancel reserve entry del exh f) (faultsDev base φ) n'))
    (hadv : ∀ φ n, n < final reserve (faultsDev base φ) n) :
    SafeAny (Inj φ) (.ok e) (outcome (getAndClear cancel reserve entry del exh (f + 1)) (faultsDev base φ) n) := by
  rw [getAndClear_succ]
  rcases hreserve φ hφ hΦ n with ⟨c, hc, h⟩ | h | h | h
  · rw [outcome_bind_error h]; exact safeAny_inj _ _ c hc
  · rw [outcome_bind_error h]; exact safeAny_retry _ _
  · rw [outcome_bind_error h]; exact safeAny_hpm _ _
  · rw [hres n] at h
    rw [outcome_bind_ok h]
    have h1 := hadv φ n
    generalize final reserve (faultsDev base φ) n = n1 at h1 ⊢
    have h2 := final_faults_mono base φ (entry res) n1
    rcases hsafe φ hφ hΦ n1 with ⟨c, hc, he⟩ | he | he | he
    · rw [outcome_try_bind_cc he]
      show SafeAny _ _ (outcome (if c = cancel then _ else _) _ _)
      by_cases hcc : c = cancel
      · rw [if_pos hcc]; exact hrest _ (by omega)
      · rw [if_neg hcc]; exact safeAny_inj _ _ c hc
    · rw [outcome_try_bind_err he (fun c => by simp)]; exact safeAny_retry _ _
    · rw [outcome_try_bind_err he (fun c => by simp)]; exact safeAny_hpm _ _
    · rw [hentry n1] at he
      rw [outcome_try_bind_ok he]
      generalize final (entry res) (faultsDev base φ) n1 = n2 at h2 ⊢
      show SafeAny _ _ (outcome ((sendChecked (del res)).tryCc.bind _) _ _)
      cases hn2 : φ n2 with
      | some c =>
        have hc := hφ n2 c hn2
        rw [outcome_try_bind_cc (outcome_sendChecked_fault base φ n2 c _ hn2 hc), final_sendChecked,
          faultsDev_fst]
        show SafeAny _ _ (outcome (if c = cancel then _ else _) _ _)
        by_cases hcc : c = cancel
        · rw [if_pos hcc]; exact hrest _ (by omega)
        · rw [if_neg hcc]; exact safeAny_inj _ _ c ⟨n2, hn2⟩
      | none =>
        rw [outcome_try_bind_ok (outcome_sendChecked_none base φ n2 _ hn2 hdel)]
        exact safeAny_same _ _

/-- The fault sets get_and_clear_sel_entry is safe under, given how it ends when its rounds are used
up: every one (admitted by `Φ`) when that is RetryError - the loop has a retry budget -, else those
whose faults lie below a position `N` the fuel exceeds (the pinned `while True` has no bound). -/
def GacFaults (Φ : (Nat → Option Nat) → Prop) (exh : Err) (N fuel : Nat) (φ : Nat → Option Nat) : Prop :=
  Φ φ ∧ (exh = .retryError ∨ (Below N φ ∧ N + 1 ≤ fuel))

/-- get_and_clear_sel_entry under any fault set: error carrying an injected code, RetryError (the
budget is used up), or the entry.  `reserve` issues at least one request. -/
theorem getAndClear_ms (Φ : (Nat → Option Nat) → Prop) (res : Nat) (e : β)
    (hreserve : MultiSafeOn Φ base reserve)
    (hres : ∀ n, outcome reserve (pureDev base) n = .ok res)
    (hadv : ∀ φ n, n < final reserve (faultsDev base φ) n)
    (hsafe : MultiSafeOn Φ base (entry res))
    (hentry : ∀ n, outcome (entry res) (pureDev base) n = .ok e)
    (hdel : (base (del res)).cc = 0) (N fuel : Nat) :
    MultiSafeOn (GacFaults Φ exh N fuel) base (getAndClear cancel reserve entry del exh fuel) := by
  intro φ hφ ⟨hΦ, hcase⟩ n
  have hgood : ∀ f m, outcome (getAndClear cancel reserve entry del exh (f + 1)) (pureDev base) m = .ok e :=
    fun f m => getAndClear_exact cancel reserve entry del exh base res e hres hentry hdel f m
  rcases hcase with hexh | ⟨hN, hf⟩
  · -- a retry budget: induction on it, exhaustion is RetryError
    subst hexh
    have key : ∀ f n, SafeAny (Inj φ) (.ok e)
        (outcome (getAndClear cancel reserve entry del .retryError f) (faultsDev base φ) n) := by
      intro f
      induction f with
      | zero => intro n; exact safeAny_retry _ _
      | succ f ih =>
        intro n
        exact getAndClear_round cancel reserve entry del .retryError base Φ res e hreserve hres hsafe hentry hdel
          φ hφ hΦ f n (fun n' _ => ih n') hadv
    cases fuel with
    | zero => exact safeAny_same _ _
    | succ f0 => rw [hgood]; exact key (f0 + 1) n
  · obtain ⟨f0, rfl⟩ : ∃ f0, fuel = f0 + 1 := ⟨fuel - 1, by omega⟩
    rw [hgood]
    -- the loop from any position, with enough fuel to get past the last fault
    suffices h : ∀ f n, (N - n) + 1 ≤ f →
        SafeAny (Inj φ) (.ok e) (outcome (getAndClear cancel reserve entry del exh f) (faultsDev base φ) n) from
      h (f0 + 1) n (by omega)
    intro f
    induction f with
    | zero => intro n h; omega
    | succ f ih =>
      intro n hfuel
      by_cases hpast : N ≤ n
      · rw [outcome_faults_past base φ _ n (fun k hk => hN k (by omega)), hgood]
        exact safeAny_same _ _
      · exact getAndClear_round cancel reserve entry del exh base Φ res e hreserve hres hsafe hentry hdel
          φ hφ hΦ f n (fun n' hn' => ih n' (by omega)) hadv

end gac

end PyIpmi.Prog
