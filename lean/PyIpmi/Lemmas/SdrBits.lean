/-
  Bit-level lemmas for C16: the mask / shift / or expressions of pyipmi/sdr.py and fields.py
  rewritten as arithmetic, by small finite sweeps (Bool functions over `List.range`, decided by
  the kernel; the largest has 1024 cases) and `omega`.  Core only.
-/
import PyIpmi.Lemmas.Sensor
import PyIpmi.Model.SdrParse
namespace PyIpmi.SdrParse
open PyIpmi PyIpmi.Sensor PyIpmi.Spec.Sdr

/-- two-variable sweep -/
def allLt2 (n m : Nat) (p : Nat → Nat → Bool) : Bool := allLt n fun x => allLt m fun y => p x y

theorem allLt2_spec {n m : Nat} {p : Nat → Nat → Bool} (h : allLt2 n m p = true) :
    ∀ x y, x < n → y < m → p x y = true := by
  intro x y hx hy
  exact allLt_spec (allLt_spec h x hx) y hy

/-! ### low masks: `x & (2^k - 1) = x % 2^k` for every `x` -/

theorem and_1 (x : Nat) : x &&& 0x1 = x % 2 := Nat.and_one_is_mod x
theorem and_3 (x : Nat) : x &&& 0x3 = x % 4 := by
  simpa using Nat.and_two_pow_sub_one_eq_mod x 2
theorem and_7 (x : Nat) : x &&& 0x7 = x % 8 := by
  simpa using Nat.and_two_pow_sub_one_eq_mod x 3
theorem and_f (x : Nat) : x &&& 0xf = x % 16 := by
  simpa using Nat.and_two_pow_sub_one_eq_mod x 4
theorem and_3f (x : Nat) : x &&& 0x3f = x % 64 := by
  simpa using Nat.and_two_pow_sub_one_eq_mod x 6
theorem and_7f (x : Nat) : x &&& 0x7f = x % 128 := by
  simpa using Nat.and_two_pow_sub_one_eq_mod x 7
theorem and_ff (x : Nat) : x &&& 0xff = x % 256 := by
  simpa using Nat.and_two_pow_sub_one_eq_mod x 8
theorem and_fffff (x : Nat) : x &&& 0xfffff = x % 1048576 := by
  simpa using Nat.and_two_pow_sub_one_eq_mod x 20

/-! ### high masks of a byte -/

theorem and_c0_sweep : allLt 256 (fun x => (x &&& 0xc0) == x / 64 * 64) = true := by decide +kernel
theorem and_f0_sweep : allLt 256 (fun x => (x &&& 0xf0) == x / 16 * 16) = true := by decide +kernel
theorem and_0c_sweep : allLt 256 (fun x => (x &&& 0x0c) == x / 4 % 4 * 4) = true := by decide +kernel
theorem and_fc_sweep : allLt 256 (fun x => (x &&& 0xfc) == x / 4 * 4) = true := by decide +kernel
theorem and_02_sweep : allLt 256 (fun x => (x &&& 0x02) == x / 2 % 2 * 2) = true := by decide +kernel

theorem and_c0 (x : Nat) (h : x < 256) : x &&& 0xc0 = x / 64 * 64 := by
  simpa using allLt_spec and_c0_sweep x h
theorem and_f0 (x : Nat) (h : x < 256) : x &&& 0xf0 = x / 16 * 16 := by
  simpa using allLt_spec and_f0_sweep x h
theorem and_0c (x : Nat) (h : x < 256) : x &&& 0x0c = x / 4 % 4 * 4 := by
  simpa using allLt_spec and_0c_sweep x h
theorem and_fc (x : Nat) (h : x < 256) : x &&& 0xfc = x / 4 * 4 := by
  simpa using allLt_spec and_fc_sweep x h
theorem and_02 (x : Nat) (h : x < 256) : x &&& 0x02 = x / 2 % 2 * 2 := by
  simpa using allLt_spec and_02_sweep x h

/-! ### `|` of parts that do not overlap -/

theorem or_256_sweep : allLt2 256 4 (fun lo h => (lo ||| 256 * h) == lo + 256 * h) = true := by
  decide +kernel
theorem or_64_sweep : allLt2 64 16 (fun lo h => (lo ||| 64 * h) == lo + 64 * h) = true := by
  decide +kernel
theorem or_4_sweep : allLt2 4 16 (fun lo h => (lo ||| 4 * h) == lo + 4 * h) = true := by
  decide +kernel
theorem or_16_sweep : allLt2 16 4 (fun lo h => (lo ||| 16 * h) == lo + 16 * h) = true := by
  decide +kernel

theorem or_256 (lo h : Nat) (h1 : lo < 256) (h2 : h < 4) : lo ||| 256 * h = lo + 256 * h := by
  simpa using allLt2_spec or_256_sweep lo h h1 h2
theorem or_64 (lo h : Nat) (h1 : lo < 64) (h2 : h < 16) : lo ||| 64 * h = lo + 64 * h := by
  simpa using allLt2_spec or_64_sweep lo h h1 h2
theorem or_4 (lo h : Nat) (h1 : lo < 4) (h2 : h < 16) : lo ||| 4 * h = lo + 4 * h := by
  simpa using allLt2_spec or_4_sweep lo h h1 h2
theorem or_16 (lo h : Nat) (h1 : lo < 16) (h2 : h < 4) : lo ||| 16 * h = lo + 16 * h := by
  simpa using allLt2_spec or_16_sweep lo h h1 h2

/-! ### `_convert_complement` -/

/-- Value of a `bits`-bit two's-complement pattern `u < 2^bits`. -/
def sint (bits u : Nat) : Int :=
  if u < 2 ^ (bits - 1) then (u : Int) else (u : Int) - ((2 ^ bits : Nat) : Int)

theorem cc10_sweep : allLt 1024 (fun u => decide (convertComplement u 10 = sint 10 u)) = true := by
  decide +kernel
theorem cc4_sweep : allLt 16 (fun u => decide (convertComplement u 4 = sint 4 u)) = true := by
  decide +kernel

theorem cc10 (u : Nat) (h : u < 1024) : convertComplement u 10 = sint 10 u := by
  simpa using allLt_spec cc10_sweep u h
theorem cc4 (u : Nat) (h : u < 16) : convertComplement u 4 = sint 4 u := by
  simpa using allLt_spec cc4_sweep u h

/-- Reading back the two's complement written by the specification's encoder. -/
theorem sint_twosComp10 (z : Int) (h1 : -512 ≤ z) (h2 : z ≤ 511) :
    twosComp 10 z < 1024 ∧ sint 10 (twosComp 10 z) = z := by
  unfold twosComp sint
  simp only [Nat.reducePow, Nat.reduceSub]
  split <;> split <;> omega

theorem sint_twosComp4 (z : Int) (h1 : -8 ≤ z) (h2 : z ≤ 7) :
    twosComp 4 z < 16 ∧ sint 4 (twosComp 4 z) = z := by
  unfold twosComp sint
  simp only [Nat.reducePow, Nat.reduceSub]
  split <;> split <;> omega

/-! ### flag bytes -/

theorem flags_init_sweep :
    allLt 256 (fun x => decide (flagsOf [0x40, 0x20, 0x10, 0x08, 0x04, 0x02, 0x01] x =
      flagList [0x40, 0x20, 0x10, 0x08, 0x04, 0x02, 0x01] x)) = true := by decide +kernel
theorem flags_analog_sweep :
    allLt 256 (fun x => decide (flagsOf [0x01, 0x02, 0x04] x = flagList [0x01, 0x02, 0x04] x)) = true := by
  decide +kernel

theorem flags_init (x : Nat) (h : x < 256) :
    flagsOf [0x40, 0x20, 0x10, 0x08, 0x04, 0x02, 0x01] x = flagList [0x40, 0x20, 0x10, 0x08, 0x04, 0x02, 0x01] x := by
  simpa using allLt_spec flags_init_sweep x h
theorem flags_analog (x : Nat) (h : x < 256) :
    flagsOf [0x01, 0x02, 0x04] x = flagList [0x01, 0x02, 0x04] x := by
  simpa using allLt_spec flags_analog_sweep x h

/-! ### little-endian integers -/

theorem or_shl8 (a b : Nat) (h : a < 256) : a ||| (b <<< 8) = a + 256 * b := by
  have := Nat.shiftLeft_add_eq_or_of_lt (show a < 2 ^ 8 by simpa using h) b
  rw [Nat.or_comm, ← this, Nat.shiftLeft_eq]; omega

theorem leOr_eq_leValue (l : List Nat) (h : ∀ b ∈ l, b < 256) : leOr l = leValue l := by
  induction l with
  | nil => rfl
  | cons b bs ih =>
    simp only [leOr, leValue]
    rw [or_shl8 b _ (h b (List.mem_cons_self)), ih (fun x hx => h x (List.mem_cons_of_mem _ hx))]

theorem leOr2 (a b : Nat) (ha : a < 256) (hb : b < 256) : leOr [a, b] = a + 256 * b := by
  rw [leOr_eq_leValue _ (by intro x hx; simp at hx; rcases hx with h | h <;> omega)]
  simp [leValue]

theorem leOr3 (a b c : Nat) (ha : a < 256) (hb : b < 256) (hc : c < 256) :
    leOr [a, b, c] = a + 256 * b + 65536 * c := by
  rw [leOr_eq_leValue _ (by intro x hx; simp at hx; rcases hx with h | h | h <;> omega)]
  simp [leValue]; omega

/-- A 16-bit value written LS byte first reads back. -/
theorem leOr2_split (v : Nat) (h : v < 65536) : leOr [v % 256, v / 256] = v := by
  rw [leOr2 _ _ (Nat.mod_lt _ (by decide)) (by omega)]; omega

end PyIpmi.SdrParse
