/-
  Lemmas/SdrXferKinds.lean — C11: which outcomes the SDR transfer model can produce against the
  reference device.  Against a well-formed device (any limit, any cancellations, any transient
  C3h / CEh) a read ends with a value, RetryError or CompletionCodeError — never with a decoding
  error, a Python error or an `unmodelled` corner.
-/
import PyIpmi.Lemmas.SdrXfer
namespace PyIpmi.Model.SdrXfer
open PyIpmi PyIpmi.Model.Retry PyIpmi.Spec.Sdr
set_option linter.unusedSimpArgs false
set_option linter.unusedVariables false

/-- Outcomes the property allows: a value, RetryError, CompletionCodeError. -/
def Allowed {α : Type} : Outcome α → Prop
  | .ok _ => True
  | .retryError => True
  | .ccError _ => True
  | _ => False

theorem recast_allowed {α β : Type} {o : Outcome α} (h : Allowed o) (hn : ∀ a, o ≠ .ok a) :
    Allowed (recast o : Outcome β) := by
  cases o <;> simp_all [Allowed, recast]

section generic
variable {σ ρ : Type} (C : Consts) (send : σ → Nat → σ × Outcome (Nat × ρ)) (reserve : σ → σ × Outcome Nat)

/-- the chunk helper ends with a value, RetryError or CompletionCodeError whenever `send_fn` returns a
response and `reserve_fn` does the same or raises one of the two -/
theorem chunkLoop_allowed (hsend : ∀ st res, ∃ c p, (send st res).2 = .ok (c, p))
    (hres : ∀ st, Allowed (reserve st).2) :
    ∀ b st res, 1 ≤ b → Allowed (chunkLoop C send reserve b st res).2 := by
  intro b
  induction b with
  | zero => intro st res h; omega
  | succ r ih =>
    intro st res _
    rw [chunkLoop_succ]
    by_cases hr0 : r = 0
    · simp [hr0, Allowed]
    · simp only [if_neg hr0]
      obtain ⟨c, p, hs⟩ := hsend st res
      rcases hsd : send st res with ⟨st1, o⟩
      rw [hsd] at hs
      simp only at hs
      subst hs
      simp only
      by_cases c1 : c = C.ccOk
      · simp [if_pos c1, Allowed]
      · simp only [if_neg c1]
        by_cases c2 : c = C.chunkRenew
        · simp only [if_pos c2]
          have h2 := hres st1
          rcases hq : reserve st1 with ⟨st2, o2⟩
          rw [hq] at h2
          cases o2 with
          | ok res' => exact ih _ _ (by omega)
          | _ => simp_all [Allowed, recast]
        · simp only [if_neg c2]
          by_cases c3 : c = C.chunkRetry1 ∨ c = C.chunkRetry2
          · simp only [if_pos c3]; exact ih _ _ (by omega)
          · simp [if_neg c3, Allowed]

end generic

theorem dataLoop_allowed {σ : Type} (X : XConsts) (v : Variant) (hv : v.fallThrough = false)
    (get : σ → Nat → Nat → Nat → (σ × Outcome (Nat × List Nat)) × Nat)
    (hget : ∀ st res off len, Allowed (get st res off len).1.2)
    (recLen : Nat) :
    ∀ r m st res acc next last, 1 ≤ r → Allowed (dataLoop X v get recLen r m st res acc next last).2 := by
  intro r
  induction r with
  | zero => intro m st res acc next last h; omega
  | succ r ih =>
    intro m st res acc next last _
    rw [dataLoop_succ]
    by_cases hr0 : r = 0
    · simp [hr0, Allowed]
    · simp only [if_neg hr0]
      have hg := hget st res acc.length (if acc.length + m > recLen then recLen - acc.length else m)
      rcases hgd : get st res acc.length (if acc.length + m > recLen then recLen - acc.length else m) with ⟨⟨st1, o⟩, res1⟩
      rw [hgd] at hg
      cases o with
      | ok p =>
        obtain ⟨nx, d⟩ := p
        simp only
        split
        · simp [Allowed]
        · exact ih _ _ _ _ _ _ (by omega)
      | ccError c =>
        simp only [hv]
        by_cases hc : c = X.cantReturn
        · simp only [if_pos hc]
          by_cases hm : m ≤ X.reqLenDec
          · simp [if_pos hm, Allowed]
          · simp only [if_neg hm, Bool.false_eq_true, if_false]
            exact ih _ _ _ _ _ _ (by omega)
        · simp [if_neg hc, Allowed]
      | retryError => simp [recast, Allowed]
      | _ => simp [Allowed] at hg

/-! ### the reference device answers in kind -/

theorem getRsp_kind (cfg : Cfg) (st : State) (s : Store) (res id off cnt : Nat) :
    (∃ c, getRsp cfg st s res id off cnt = .err c) ∨ (∃ nx b, getRsp cfg st s res id off cnt = .data nx b) := by
  unfold getRsp
  split
  · exact Or.inl ⟨_, rfl⟩
  · split
    · exact Or.inl ⟨_, rfl⟩
    · split
      · exact Or.inl ⟨_, rfl⟩
      · simp only []
        split
        · exact Or.inl ⟨_, rfl⟩
        · split
          · exact Or.inl ⟨_, rfl⟩
          · exact Or.inr ⟨_, _, rfl⟩

theorem step_get_kind (cfg : Cfg) (st : State) (s : Store) (res id off cnt : Nat) :
    (∃ c, (step cfg st (.get s res id off cnt)).2 = .err c) ∨
    (∃ nx b, (step cfg st (.get s res id off cnt)).2 = .data nx b) := by
  unfold step
  simp only []
  split
  · exact Or.inl ⟨_, rfl⟩
  · exact getRsp_kind _ _ _ _ _ _ _

theorem sendGet_returns (cfg : Cfg) (s : Store) (id off cnt : Nat) (st : State) (res : Nat) :
    ∃ c p, (sendGet K (step cfg) s id off cnt st res).2 = .ok (c, p) := by
  unfold sendGet
  rcases step_get_kind cfg st s (res % 65536) (id % 65536) (off % 256) (cnt % 256) with ⟨c, h⟩ | ⟨nx, b, h⟩
  · rcases hs : step cfg st (.get s (res % 65536) (id % 65536) (off % 256) (cnt % 256)) with ⟨st1, r⟩
    rw [hs] at h; simp only at h; subst h
    exact ⟨_, _, rfl⟩
  · rcases hs : step cfg st (.get s (res % 65536) (id % 65536) (off % 256) (cnt % 256)) with ⟨st1, r⟩
    rw [hs] at h; simp only at h; subst h
    exact ⟨_, _, rfl⟩

theorem step_reserve_kind {cfg : Cfg} (hw : cfg.wf) (st : State) (s : Store) :
    (∃ c, (step cfg st (.reserve s)).2 = .err c ∧ (c = ccTimeout ∨ c = ccRespUnavail)) ∨
    (∃ id, (step cfg st (.reserve s)).2 = .reserved id) := by
  rcases hs : step cfg st (.reserve s) with ⟨st1, r⟩
  cases r with
  | err c => exact Or.inl ⟨c, rfl, step_reserve_err hw hs⟩
  | reserved id => exact Or.inr ⟨id, rfl⟩
  | data nx b =>
    unfold step at hs
    simp only [] at hs
    split at hs <;> cases hs

theorem reserve_allowed {cfg : Cfg} (hw : cfg.wf) (s : Store) (st : State) :
    Allowed (reserve K (step cfg) s st).2 := by
  unfold reserve
  rcases step_reserve_kind hw st s with ⟨c, h, hc⟩ | ⟨id, h⟩
  · rcases hs : step cfg st (.reserve s) with ⟨st1, r⟩
    rw [hs] at h; simp only at h; subst h
    have : c ≠ K.ccOk := by rcases hc with h | h <;> simp [h, ccTimeout, ccRespUnavail, K, PyIpmi.Gen.Loops11.consts]
    simp [if_neg this, Allowed]
  · rcases hs : step cfg st (.reserve s) with ⟨st1, r⟩
    rw [hs] at h; simp only at h; subst h
    simp [Allowed]

theorem getChunk_allowed {cfg : Cfg} (hw : cfg.wf) (v : Variant) (s : Store) (st : State) (res id off cnt : Nat) :
    Allowed (getChunk K v (step cfg) s st res id off cnt).2 := by
  unfold getChunk
  exact chunkLoop_allowed K _ _ (sendGet_returns cfg s id off cnt) (reserve_allowed hw (v.renew s)) _ _ _
    (by decide)

theorem getSdrDataWith_allowed {cfg : Cfg} (hw : cfg.wf) (v : Variant) (hv : v.fallThrough = false) (s : Store)
    (st : State) (id : Nat) (hid : id < 65536) (res : Nat) :
    Allowed (getSdrDataWith K XK v (step cfg) s st id res).2 := by
  unfold getSdrDataWith
  have hc := getChunk_allowed hw v s st res id 0 XK.hdrLen
  rcases hgf : getFn K v (step cfg) s id st res 0 XK.hdrLen with ⟨⟨st1, o⟩, res1⟩
  have hg := getFn_eq hgf
  rw [hg] at hc
  cases o with
  | ok p =>
    obtain ⟨nx1, d1⟩ := p
    simp only
    have hs := getChunk_ok hw v hg
    rw [Nat.mod_eq_of_lt hid] at hs
    obtain ⟨rec, hl, _, _, _, hb⟩ := hs
    have hwf := recWf_facts (recsWf_mem (wf_recs hw s) (lookup_mem hl))
    have hd1 : d1 = rec.take 5 := by
      rw [hb]; simp [effCount, XK, PyIpmi.Gen.Loops11.xconsts]
    have hl5 : d1.length = 5 := by rw [hd1]; simp; omega
    rw [if_neg (by omega)]
    exact dataLoop_allowed XK v hv _ (fun st res off len => getChunk_allowed hw v s st res _ off len) _ _ _ _ _ _ _ _
      (by decide)
  | retryError => simp [recast, Allowed]
  | ccError c => simp [recast, Allowed]
  | _ => simp [Allowed] at hc

theorem getSdrDataR_allowed {cfg : Cfg} (hw : cfg.wf) (v : Variant) (hv : v.fallThrough = false) (s : Store)
    (st : State) (id : Nat) (hid : id < 65536) (res? : Option Nat) :
    Allowed (getSdrDataR K XK v (step cfg) s st id res?).2 := by
  unfold getSdrDataR
  cases res? with
  | some r => exact getSdrDataWith_allowed hw v hv s st id hid r
  | none =>
    simp only
    have hr := reserve_allowed hw s st
    rcases hq : reserve K (step cfg) s st with ⟨st0, o⟩
    rw [hq] at hr
    cases o with
    | ok r => exact getSdrDataWith_allowed hw v hv s st0 id hid r
    | retryError => simp [recast, Allowed]
    | ccError c => simp [recast, Allowed]
    | _ => simp [Allowed] at hr

theorem dropRes_allowed {α : Type} {o : Outcome (α × Nat)} (h : Allowed o) : Allowed (dropRes o) := by
  cases o <;> simp_all [Allowed, dropRes, recast]

theorem getSdrData_allowed {cfg : Cfg} (hw : cfg.wf) (v : Variant) (hv : v.fallThrough = false) (s : Store)
    (st : State) (id : Nat) (hid : id < 65536) (res? : Option Nat) :
    Allowed (getSdrData K XK v (step cfg) s st id res?).2 :=
  dropRes_allowed (getSdrDataR_allowed hw v hv s st id hid res?)

end PyIpmi.Model.SdrXfer
