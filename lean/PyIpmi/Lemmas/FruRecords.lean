/-
  Multi-record area: parsing the encoding of well-formed records (followed by anything) gives
  their views.  Core only.
-/
import PyIpmi.Lemmas.FruArea
namespace PyIpmi.Fru
open PyIpmi PyIpmi.Gen

theorem record_consts : FruTables.minRecord = 5 ∧ FruTables.minPicmg = 10 ∧ FruTables.minPower = 12 ∧
    FruTables.picmgRecordType = picmgRecordType ∧ FruTables.powerModuleId = powerModuleId ∧
    FruTables.headerLen = 8 := by decide

/-- flag/version byte of a record header -/
def flagByte (last : Bool) : Nat := (if last then 0x80 else 0) + 2

theorem encodeRecord_shape (r : Record) (last : Bool) (rest : List Nat) :
    encodeRecord r last ++ rest =
      r.typeId :: flagByte last :: r.data.length :: zeroSum r.data ::
        zeroSum (r.hdr4 last) :: (r.data ++ rest) := by
  simp [encodeRecord, Record.hdr4, flagByte]

theorem encodeRecord_length (r : Record) (last : Bool) :
    (encodeRecord r last).length = r.data.length + 5 := by
  simp [encodeRecord, Record.hdr4]

theorem baseRecord_encode (r : Record) (last : Bool) (rest : List Nat) :
    baseRecord (encodeRecord r last ++ rest) =
      .ok ⟨r.typeId, 2, last, r.data.length, r.data⟩ := by
  have hs := sum_append_zeroSum (r.hdr4 last)
  have hb := sum_zeroSum_add r.data
  rw [encodeRecord_shape]
  simp only [Record.hdr4, flagByte] at hs ⊢
  simp only [baseRecord, record_consts.1]
  simp only [List.length_cons, List.take_succ_cons, List.take_zero, List.drop_succ_cons, List.drop_zero,
    List.getD_cons_succ, List.getD_cons_zero, List.take_left']
  have h5 : ¬ (r.data ++ rest).length + 1 + 1 + 1 + 1 + 1 < 5 := by omega
  simp only [h5, if_false]
  simp only [List.sum_cons, List.sum_append, List.sum_nil] at hs ⊢
  have e1 : ¬ ((r.typeId + ((if last = true then 128 else 0) + 2 + (r.data.length + (zeroSum r.data +
      (zeroSum [r.typeId, (if last = true then 128 else 0) + 2, r.data.length, zeroSum r.data] + 0))))) % 256 ≠ 0) := by
    simp only [Nat.add_zero] at hs
    omega
  simp only [e1, if_false]
  have e2 : ¬ ((r.data.sum + zeroSum r.data) % 256 ≠ 0) := by omega
  simp only [e2, if_false]
  cases last <;> simp

theorem leBytes3_mfg : leBytes 3 picmgMfgId = [0x5A, 0x31, 0x00] := by decide

/-- the constants of the repaired dispatch (from the source when it has them) are the storage
definition's -/
theorem gen_record_consts : picmgMfg = picmgMfgId ∧ dispMinData = 10 ∧ dispMinLen = 5 ∧
    picmgMinLen = 5 ∧ powerMinLen = 7 := by decide

/-- which records the variant can decode: as shipped (`picmgTypeOnly`) every C0h record is taken
for a PICMG record, so an OEM C0h record of another manufacturer (or a short one) is not -/
def Record.okFor (v : Variant) : Record → Bool
  | .generic t _ => !(v.picmgTypeOnly && t == picmgRecordType)
  | _ => true

theorem Record.okFor_intended (r : Record) : r.okFor .intended = true := by
  cases r <;> simp [Record.okFor, Variant.intended]

theorem parseRecord_cons_ne (v : Variant) (x : Nat) (t : List Nat)
    (h : ¬ (x = FruTables.picmgRecordType ∧ isPicmgRec v (x :: t) = true)) :
    parseRecord v (x :: t) =
      (baseRecord (x :: t)).bind fun b => .ok (.unknown b.typeId b.version b.eol b.length b.raw) := by
  simp only [parseRecord, if_neg h]

theorem parseRecord_cons_picmg (v : Variant) (t : List Nat) (p : PicmgRec)
    (hi : isPicmgRec v (FruTables.picmgRecordType :: t) = true)
    (hp : picmgRecord v (FruTables.picmgRecordType :: t) = .ok p) :
    parseRecord v (FruTables.picmgRecordType :: t) =
      if p.picmgId = FruTables.powerModuleId then
        if (FruTables.picmgRecordType :: t).length < FruTables.minPower then .decodingError
        else if (!v.picmgTypeOnly && decide (p.base.length < powerMinLen)) = true then .decodingError
        else .ok (.power p.base.typeId p.base.eol p.base.length p.base.raw p.mfgId p.picmgId p.version
                ((FruTables.picmgRecordType :: t).getD 10 0 + (FruTables.picmgRecordType :: t).getD 11 0 * 256))
      else .ok (.picmg p.base.typeId p.base.eol p.base.length p.base.raw p.mfgId p.picmgId p.version) := by
  simp only [parseRecord, hi, and_self, if_true, hp, Outcome.bind_ok]

/-- byte `5 + i` of an encoded record is byte `i` of its data -/
theorem encodeRecord_getD (r : Record) (last : Bool) (rest : List Nat) (i : Nat) :
    (encodeRecord r last ++ rest).getD (i + 5) 0 = (r.data ++ rest).getD i 0 := by
  rw [encodeRecord_shape]; rfl

theorem mfgOf_encode (r : Record) (last : Bool) (rest : List Nat) :
    mfgOf (encodeRecord r last ++ rest) =
      (r.data ++ rest).getD 0 0 + (r.data ++ rest).getD 1 0 * 256 + (r.data ++ rest).getD 2 0 * 65536 := by
  have g5 := encodeRecord_getD r last rest 0
  have g6 := encodeRecord_getD r last rest 1
  have g7 := encodeRecord_getD r last rest 2
  simp only [Nat.zero_add, Nat.reduceAdd] at g5 g6 g7
  simp only [mfgOf, g5, g6, g7]

theorem encodeRecord_getD2 (r : Record) (last : Bool) (rest : List Nat) :
    (encodeRecord r last ++ rest).getD 2 0 = r.data.length := by
  rw [encodeRecord_shape]; rfl

theorem picmgRecord_encode (v : Variant) (r : Record) (last : Bool) (rest : List Nat) (pid ver : Nat)
    (tail : List Nat) (hd : r.data = leBytes 3 picmgMfgId ++ [pid, ver] ++ tail) :
    picmgRecord v (encodeRecord r last ++ rest) =
      .ok ⟨⟨r.typeId, 2, last, r.data.length, r.data⟩, picmgMfgId, pid, ver⟩ := by
  have hlen : ¬ (encodeRecord r last ++ rest).length < FruTables.minPicmg := by
    rw [record_consts.2.1]
    simp [encodeRecord_length, hd]; omega
  have g8 := encodeRecord_getD r last rest 3
  have g9 := encodeRecord_getD r last rest 4
  simp only [Nat.reduceAdd] at g8 g9
  have hg : (!v.picmgTypeOnly && decide (r.data.length < picmgMinLen)) = false := by
    have : ¬ r.data.length < picmgMinLen := by
      rw [gen_record_consts.2.2.2.1, hd]; simp; omega
    simp [this]
  simp only [picmgRecord, if_neg hlen, baseRecord_encode, Outcome.bind_ok, hg, mfgOf_encode, g8, g9]
  rw [hd, leBytes3_mfg]
  simp [picmgMfgId]

/-- a record whose data carry the PICMG signature passes the test of `create_from_record_id` -/
theorem isPicmgRec_encode (v : Variant) (r : Record) (last : Bool) (rest : List Nat) (pid ver : Nat)
    (tail : List Nat) (hd : r.data = leBytes 3 picmgMfgId ++ [pid, ver] ++ tail) :
    isPicmgRec v (encodeRecord r last ++ rest) = true := by
  have h1 : dispMinData ≤ (encodeRecord r last ++ rest).length := by
    rw [gen_record_consts.2.1]; simp [encodeRecord_length, hd]; omega
  have h2 : dispMinLen ≤ (encodeRecord r last ++ rest).getD 2 0 := by
    rw [gen_record_consts.2.2.1, encodeRecord_getD2, hd]; simp; omega
  have h3 : mfgOf (encodeRecord r last ++ rest) = picmgMfg := by
    rw [mfgOf_encode, gen_record_consts.1, hd, leBytes3_mfg]; simp [picmgMfgId]
  simp only [isPicmgRec, decide_eq_true h1, decide_eq_true h2, h3, beq_self_eq_true, Bool.and_self, Bool.or_true]

/-- an OEM C0h record without the PICMG signature does not pass the repaired test -/
theorem isPicmgRec_generic (v : Variant) (hv : v.picmgTypeOnly = false) (t : Nat) (d : List Nat)
    (last : Bool) (rest : List Nat) (hb : Bytes d) (hn : isPicmgData d = false) :
    isPicmgRec v (encodeRecord (.generic t d) last ++ rest) = false := by
  have h2 := encodeRecord_getD2 (.generic t d) last rest
  have h3 := mfgOf_encode (.generic t d) last rest
  simp only [Record.data] at h2 h3
  simp only [isPicmgRec, hv, Bool.false_or, h2, h3, gen_record_consts.1, gen_record_consts.2.2.1]
  by_cases h5 : 5 ≤ d.length
  · have hne : d.take 3 ≠ leBytes 3 picmgMfgId := by
      intro he
      simp [isPicmgData, h5, he] at hn
    match d, h5, hb, hne with
    | a :: b :: c :: _ :: _ :: tl, _, hb, hne =>
      have ha : a < 256 := hb a (by simp)
      have hbb : b < 256 := hb b (by simp)
      have hc : c < 256 := hb c (by simp)
      rw [leBytes3_mfg] at hne
      have hval : ¬ (a + b * 256 + c * 65536 = picmgMfgId) := by
        intro he
        apply hne
        simp only [picmgMfgId] at he
        have : a = 0x5A ∧ b = 0x31 ∧ c = 0 := by omega
        obtain ⟨rfl, rfl, rfl⟩ := this
        rfl
      simp [hval]
  · have : ¬ 5 ≤ d.length := h5
    simp [this]

theorem parseRecord_encode (v : Variant) (r : Record) (last : Bool) (rest : List Nat) (hwf : r.wf = true)
    (hok : r.okFor v = true) :
    parseRecord v (encodeRecord r last ++ rest) = .ok (viewRecord r last) := by
  have hbase := baseRecord_encode r last rest
  obtain ⟨tl, hd⟩ : ∃ tl, encodeRecord r last ++ rest = r.typeId :: tl := ⟨_, encodeRecord_shape r last rest⟩
  cases r with
  | generic t d =>
    simp only [Record.wf, Bool.and_eq_true, decide_eq_true_eq] at hwf
    have hne : ¬ (t = FruTables.picmgRecordType ∧ isPicmgRec v (t :: tl) = true) := by
      rintro ⟨ht, hi⟩
      rw [record_consts.2.2.2.1] at ht
      have hv : v.picmgTypeOnly = false := by
        simpa [Record.okFor, ht] using hok
      have hnp : isPicmgData d = false := by
        have := hwf.1.1.2
        simpa [ht] using this
      simp only [Record.typeId] at hd
      rw [← hd, isPicmgRec_generic v hv t d last rest ((isBytes_iff _).mp hwf.1.2) hnp] at hi
      cases hi
    simp only [Record.typeId] at hd
    rw [hd] at hbase ⊢
    rw [parseRecord_cons_ne v t tl hne, hbase]
    simp [viewRecord, Record.data, Record.typeId]
  | picmg pid ver payload =>
    simp only [Record.wf, Bool.and_eq_true, decide_eq_true_eq] at hwf
    have hne : pid ≠ FruTables.powerModuleId := by rw [record_consts.2.2.2.2.1]; exact hwf.1.1.1.2
    have hp := picmgRecord_encode v (.picmg pid ver payload) last rest pid ver payload rfl
    have hi := isPicmgRec_encode v (.picmg pid ver payload) last rest pid ver payload rfl
    simp only [Record.typeId, ← record_consts.2.2.2.1] at hd hp
    rw [hd] at hp hi ⊢
    rw [parseRecord_cons_picmg v tl _ hi hp]
    simp only [if_neg hne, viewRecord, record_consts.2.2.2.1]
  | power ver tenths extra =>
    simp only [Record.wf, Bool.and_eq_true, decide_eq_true_eq] at hwf
    have hp := picmgRecord_encode v (.power ver tenths extra) last rest powerModuleId ver
      (leBytes 2 tenths ++ extra) (by simp [Record.data])
    have hi := isPicmgRec_encode v (.power ver tenths extra) last rest powerModuleId ver
      (leBytes 2 tenths ++ extra) (by simp [Record.data])
    have hg : (!v.picmgTypeOnly && decide ((Record.power ver tenths extra).data.length < powerMinLen)) = false := by
      have : ¬ (Record.power ver tenths extra).data.length < powerMinLen := by
        rw [gen_record_consts.2.2.2.2]; simp [Record.data]; omega
      simp [this]
    have hlen : ¬ (encodeRecord (.power ver tenths extra) last ++ rest).length < FruTables.minPower := by
      rw [record_consts.2.2.1]
      simp [encodeRecord_length, Record.data, leBytes]; omega
    have g10 := encodeRecord_getD (.power ver tenths extra) last rest 5
    have g11 := encodeRecord_getD (.power ver tenths extra) last rest 6
    have hcur : (encodeRecord (.power ver tenths extra) last ++ rest).getD 10 0 +
        (encodeRecord (.power ver tenths extra) last ++ rest).getD 11 0 * 256 = tenths := by
      simp only [Nat.reduceAdd] at g10 g11
      rw [g10, g11]
      simp [Record.data, leBytes]
      have := hwf.1.1.2
      omega
    simp only [Record.typeId, ← record_consts.2.2.2.1] at hd hp
    rw [hd] at hp hi hlen hcur ⊢
    rw [parseRecord_cons_picmg v tl _ hi hp]
    simp only [record_consts.2.2.2.2.1, if_true]
    rw [if_neg hlen, hcur]
    simp only [hg, Bool.false_eq_true, if_false, viewRecord, record_consts.2.2.2.1]

theorem viewRecord_eol (r : Record) (last : Bool) : (viewRecord r last).eol = last := by
  cases r <;> rfl

theorem viewRecord_length (r : Record) (last : Bool) : (viewRecord r last).length = r.data.length := by
  cases r <;> simp [viewRecord, RecView.length, Record.data]

theorem multiLoop_encode (v : Variant) (rs : List Record) (rest : List Nat) (fuel : Nat)
    (hne : rs ≠ []) (hfuel : rs.length ≤ fuel) (hwf : ∀ r ∈ rs, r.wf = true)
    (hok : ∀ r ∈ rs, r.okFor v = true) :
    multiLoop v fuel (encodeRecords rs ++ rest) = .ok (viewRecords rs) := by
  induction rs generalizing fuel with
  | nil => exact absurd rfl hne
  | cons r rs ih =>
    cases fuel with
    | zero => simp at hfuel
    | succ n =>
      cases rs with
      | nil =>
        simp only [encodeRecords, multiLoop, parseRecord_encode v r true rest (hwf r (by simp)) (hok r (by simp)),
          Outcome.bind_ok, viewRecord_eol, if_true, viewRecords]
      | cons r' rs' =>
        have h2 := ih n (by simp) (by simp at hfuel ⊢; omega) (fun x hx => hwf x (by simp [hx]))
          (fun x hx => hok x (by simp [hx]))
        simp only [encodeRecords, multiLoop, List.append_assoc,
          parseRecord_encode v r false _ (hwf r (by simp)) (hok r (by simp)), Outcome.bind_ok, viewRecord_eol,
          viewRecord_length, viewRecords]
        rw [← encodeRecord_length r false, List.drop_left']
        · simp [h2]
        · rfl

theorem encodeRecords_length_ge (rs : List Record) : rs.length ≤ (encodeRecords rs).length := by
  induction rs with
  | nil => simp [encodeRecords]
  | cons r rs ih =>
    cases rs with
    | nil => simp [encodeRecords, encodeRecord_length]
    | cons r' rs' => simp [encodeRecords, encodeRecord_length] at ih ⊢; omega

theorem encodeRecords_ne_nil (rs : List Record) (h : rs ≠ []) : encodeRecords rs ≠ [] := by
  intro he
  have := encodeRecords_length_ge rs
  rw [he] at this
  cases rs with
  | nil => exact h rfl
  | cons _ _ => simp at this

theorem parseMulti_encode (v : Variant) (rs : List Record) (rest : List Nat) (hne : rs ≠ [])
    (hwf : ∀ r ∈ rs, r.wf = true) (hok : ∀ r ∈ rs, r.okFor v = true) :
    parseMulti v (encodeRecords rs ++ rest) = .ok (.parsed (viewRecords rs)) := by
  have h := multiLoop_encode v rs rest (encodeRecords rs ++ rest).length hne
    (by have := encodeRecords_length_ge rs; simp; omega) hwf hok
  have hnn : encodeRecords rs ++ rest ≠ [] := by
    intro he
    exact encodeRecords_ne_nil rs hne (List.append_eq_nil_iff.mp he).1
  unfold parseMulti
  split
  · rename_i he; exact absurd he hnn
  · rw [h]; rfl

end PyIpmi.Fru
