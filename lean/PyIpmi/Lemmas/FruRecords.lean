/-
  Multi-record area: parsing the encoding of well-formed records (followed by anything) gives
  their views.  Core only.
-/
import PyIpmi.Lemmas.FruArea
namespace PyIpmi.Fru
open PyIpmi PyIpmi.Gen

theorem record_consts : FruTables.minRecord = 5 ∧ FruTables.minPicmg = 10 ∧ FruTables.minPower = 12 ∧
    FruTables.picmgRecordType = picmgRecordType ∧ FruTables.powerModuleId = powerModuleId ∧
    FruTables.headerLen = 8 := by decide

/-- flag/version byte of a record header -/
def flagByte (last : Bool) : Nat := (if last then 0x80 else 0) + 2

theorem encodeRecord_shape (r : Record) (last : Bool) (rest : List Nat) :
    encodeRecord r last ++ rest =
      r.typeId :: flagByte last :: r.data.length :: zeroSum r.data ::
        zeroSum (r.hdr4 last) :: (r.data ++ rest) := by
  simp [encodeRecord, Record.hdr4, flagByte]

theorem encodeRecord_length (r : Record) (last : Bool) :
    (encodeRecord r last).length = r.data.length + 5 := by
  simp [encodeRecord, Record.hdr4]

theorem baseRecord_encode (r : Record) (last : Bool) (rest : List Nat) :
    baseRecord (encodeRecord r last ++ rest) =
      .ok ⟨r.typeId, 2, last, r.data.length, r.data⟩ := by
  have hs := sum_append_zeroSum (r.hdr4 last)
  have hb := sum_zeroSum_add r.data
  rw [encodeRecord_shape]
  simp only [Record.hdr4, flagByte] at hs ⊢
  simp only [baseRecord, record_consts.1]
  simp only [List.length_cons, List.take_succ_cons, List.take_zero, List.drop_succ_cons, List.drop_zero,
    List.getD_cons_succ, List.getD_cons_zero, List.take_left']
  have h5 : ¬ (r.data ++ rest).length + 1 + 1 + 1 + 1 + 1 < 5 := by omega
  simp only [h5, if_false]
  simp only [List.sum_cons, List.sum_append, List.sum_nil] at hs ⊢
  have e1 : ¬ ((r.typeId + ((if last = true then 128 else 0) + 2 + (r.data.length + (zeroSum r.data +
      (zeroSum [r.typeId, (if last = true then 128 else 0) + 2, r.data.length, zeroSum r.data] + 0))))) % 256 ≠ 0) := by
    simp only [Nat.add_zero] at hs
    omega
  simp only [e1, if_false]
  have e2 : ¬ ((r.data.sum + zeroSum r.data) % 256 ≠ 0) := by omega
  simp only [e2, if_false]
  cases last <;> simp

theorem leBytes3_mfg : leBytes 3 picmgMfgId = [0x5A, 0x31, 0x00] := by decide

theorem parseRecord_cons_ne (x : Nat) (t : List Nat) (h : x ≠ FruTables.picmgRecordType) :
    parseRecord (x :: t) =
      (baseRecord (x :: t)).bind fun b => .ok (.unknown b.typeId b.version b.eol b.length b.raw) := by
  simp only [parseRecord, if_neg h]

theorem parseRecord_cons_picmg (t : List Nat) (p : PicmgRec)
    (hp : picmgRecord (FruTables.picmgRecordType :: t) = .ok p) :
    parseRecord (FruTables.picmgRecordType :: t) =
      if p.picmgId = FruTables.powerModuleId then
        if (FruTables.picmgRecordType :: t).length < FruTables.minPower then .decodingError
        else .ok (.power p.base.typeId p.base.eol p.base.length p.base.raw p.mfgId p.picmgId p.version
                ((FruTables.picmgRecordType :: t).getD 10 0 + (FruTables.picmgRecordType :: t).getD 11 0 * 256))
      else .ok (.picmg p.base.typeId p.base.eol p.base.length p.base.raw p.mfgId p.picmgId p.version) := by
  simp only [parseRecord, if_true, hp, Outcome.bind_ok]

/-- byte `5 + i` of an encoded record is byte `i` of its data -/
theorem encodeRecord_getD (r : Record) (last : Bool) (rest : List Nat) (i : Nat) :
    (encodeRecord r last ++ rest).getD (i + 5) 0 = (r.data ++ rest).getD i 0 := by
  rw [encodeRecord_shape]; rfl

theorem picmgRecord_encode (r : Record) (last : Bool) (rest : List Nat) (pid ver : Nat) (tail : List Nat)
    (hd : r.data = leBytes 3 picmgMfgId ++ [pid, ver] ++ tail) :
    picmgRecord (encodeRecord r last ++ rest) =
      .ok ⟨⟨r.typeId, 2, last, r.data.length, r.data⟩, picmgMfgId, pid, ver⟩ := by
  have hlen : ¬ (encodeRecord r last ++ rest).length < FruTables.minPicmg := by
    rw [record_consts.2.1]
    simp [encodeRecord_length, hd]; omega
  have g5 := encodeRecord_getD r last rest 0
  have g6 := encodeRecord_getD r last rest 1
  have g7 := encodeRecord_getD r last rest 2
  have g8 := encodeRecord_getD r last rest 3
  have g9 := encodeRecord_getD r last rest 4
  simp only [Nat.zero_add, Nat.reduceAdd] at g5 g6 g7 g8 g9
  simp only [picmgRecord, if_neg hlen, baseRecord_encode, Outcome.bind_ok, g5, g6, g7, g8, g9]
  rw [hd, leBytes3_mfg]
  simp [picmgMfgId]

theorem parseRecord_encode (r : Record) (last : Bool) (rest : List Nat) (hwf : r.wf = true) :
    parseRecord (encodeRecord r last ++ rest) = .ok (viewRecord r last) := by
  have hbase := baseRecord_encode r last rest
  obtain ⟨tl, hd⟩ : ∃ tl, encodeRecord r last ++ rest = r.typeId :: tl := ⟨_, encodeRecord_shape r last rest⟩
  cases r with
  | generic t d =>
    simp only [Record.wf, Bool.and_eq_true, decide_eq_true_eq] at hwf
    have hne : t ≠ FruTables.picmgRecordType := by rw [record_consts.2.2.2.1]; exact hwf.1.1.2
    simp only [Record.typeId] at hd
    rw [hd] at hbase ⊢
    rw [parseRecord_cons_ne t tl hne, hbase]
    simp [viewRecord, Record.data, Record.typeId]
  | picmg pid ver payload =>
    simp only [Record.wf, Bool.and_eq_true, decide_eq_true_eq] at hwf
    have hne : pid ≠ FruTables.powerModuleId := by rw [record_consts.2.2.2.2.1]; exact hwf.1.1.1.2
    have hp := picmgRecord_encode (.picmg pid ver payload) last rest pid ver payload rfl
    simp only [Record.typeId, ← record_consts.2.2.2.1] at hd hp
    rw [hd] at hp ⊢
    rw [parseRecord_cons_picmg tl _ hp]
    simp only [if_neg hne, viewRecord, record_consts.2.2.2.1]
  | power ver tenths extra =>
    simp only [Record.wf, Bool.and_eq_true, decide_eq_true_eq] at hwf
    have hp := picmgRecord_encode (.power ver tenths extra) last rest powerModuleId ver
      (leBytes 2 tenths ++ extra) (by simp [Record.data])
    have hlen : ¬ (encodeRecord (.power ver tenths extra) last ++ rest).length < FruTables.minPower := by
      rw [record_consts.2.2.1]
      simp [encodeRecord_length, Record.data, leBytes]; omega
    have g10 := encodeRecord_getD (.power ver tenths extra) last rest 5
    have g11 := encodeRecord_getD (.power ver tenths extra) last rest 6
    have hcur : (encodeRecord (.power ver tenths extra) last ++ rest).getD 10 0 +
        (encodeRecord (.power ver tenths extra) last ++ rest).getD 11 0 * 256 = tenths := by
      simp only [Nat.reduceAdd] at g10 g11
      rw [g10, g11]
      simp [Record.data, leBytes]
      have := hwf.1.1.2
      omega
    simp only [Record.typeId, ← record_consts.2.2.2.1] at hd hp
    rw [hd] at hp hlen hcur ⊢
    rw [parseRecord_cons_picmg tl _ hp]
    simp only [record_consts.2.2.2.2.1, if_true]
    rw [if_neg hlen, hcur]
    simp only [viewRecord, record_consts.2.2.2.1]

theorem viewRecord_eol (r : Record) (last : Bool) : (viewRecord r last).eol = last := by
  cases r <;> rfl

theorem viewRecord_length (r : Record) (last : Bool) : (viewRecord r last).length = r.data.length := by
  cases r <;> simp [viewRecord, RecView.length, Record.data]

theorem multiLoop_encode (rs : List Record) (rest : List Nat) (fuel : Nat)
    (hne : rs ≠ []) (hfuel : rs.length ≤ fuel) (hwf : ∀ r ∈ rs, r.wf = true) :
    multiLoop fuel (encodeRecords rs ++ rest) = .ok (viewRecords rs) := by
  induction rs generalizing fuel with
  | nil => exact absurd rfl hne
  | cons r rs ih =>
    cases fuel with
    | zero => simp at hfuel
    | succ n =>
      cases rs with
      | nil =>
        simp only [encodeRecords, multiLoop, parseRecord_encode r true rest (hwf r (by simp)),
          Outcome.bind_ok, viewRecord_eol, if_true, viewRecords]
      | cons r' rs' =>
        have h2 := ih n (by simp) (by simp at hfuel ⊢; omega) (fun x hx => hwf x (by simp [hx]))
        simp only [encodeRecords, multiLoop, List.append_assoc,
          parseRecord_encode r false _ (hwf r (by simp)), Outcome.bind_ok, viewRecord_eol,
          viewRecord_length, viewRecords]
        rw [← encodeRecord_length r false, List.drop_left']
        · simp [h2]
        · rfl

theorem encodeRecords_length_ge (rs : List Record) : rs.length ≤ (encodeRecords rs).length := by
  induction rs with
  | nil => simp [encodeRecords]
  | cons r rs ih =>
    cases rs with
    | nil => simp [encodeRecords, encodeRecord_length]
    | cons r' rs' => simp [encodeRecords, encodeRecord_length] at ih ⊢; omega

theorem encodeRecords_ne_nil (rs : List Record) (h : rs ≠ []) : encodeRecords rs ≠ [] := by
  intro he
  have := encodeRecords_length_ge rs
  rw [he] at this
  cases rs with
  | nil => exact h rfl
  | cons _ _ => simp at this

theorem parseMulti_encode (rs : List Record) (rest : List Nat) (hne : rs ≠ [])
    (hwf : ∀ r ∈ rs, r.wf = true) :
    parseMulti (encodeRecords rs ++ rest) = .ok (.parsed (viewRecords rs)) := by
  have h := multiLoop_encode rs rest (encodeRecords rs ++ rest).length hne
    (by have := encodeRecords_length_ge rs; simp; omega) hwf
  have hnn : encodeRecords rs ++ rest ≠ [] := by
    intro he
    exact encodeRecords_ne_nil rs hne (List.append_eq_nil_iff.mp he).1
  unfold parseMulti
  split
  · rename_i he; exact absurd he hnn
  · rw [h]; rfl

end PyIpmi.Fru
