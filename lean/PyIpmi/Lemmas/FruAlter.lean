/-
  Single-byte alterations of an encoded image: wherever the altered byte is covered by a
  zero-sum checksum whose extent it does not itself define, the format's acceptance condition
  `checksumsClamped` fails.  Core only.
-/
import PyIpmi.Lemmas.FruSums
namespace PyIpmi.Fru
open PyIpmi PyIpmi.Gen

/-! ### basics -/

theorem sum_set_ne' (l : List Nat) (i b old : Nat) (hold : l[i]? = some old) (h0 : l.sum % 256 = 0)
    (ho : old < 256) (hb : b < 256) (hne : b ≠ old) : (l.set i b).sum % 256 ≠ 0 := by
  obtain ⟨hi, he⟩ := List.getElem?_eq_some_iff.mp hold
  have := sum_set l i b hi
  omega

theorem Bytes.of_getElem? {l : List Nat} (h : Bytes l) {i x : Nat} (hx : l[i]? = some x) : x < 256 := by
  obtain ⟨hi, he⟩ := List.getElem?_eq_some_iff.mp hx
  exact h x (he ▸ List.getElem_mem hi)

theorem Bytes.replicate_zero (n : Nat) : Bytes (List.replicate n 0) := by
  intro x hx
  have := List.eq_of_mem_replicate hx
  omega

theorem getD_append_left (l r : List Nat) (i : Nat) (hi : i < l.length) :
    (l ++ r).getD i 0 = l.getD i 0 := by
  simp [List.getD_eq_getElem?_getD, List.getElem?_append_left hi]

/-! ### encodings are byte strings -/

theorem encodeArea_bytes (a : InfoArea) (hwf : a.wf = true) : Bytes (encodeArea a) := by
  simp only [InfoArea.wf, Bool.and_eq_true, List.all_eq_true, decide_eq_true_eq] at hwf
  obtain ⟨⟨⟨hp, hf⟩, hc⟩, ht⟩ := hwf
  have hpre : Bytes a.pre := (isBytes_iff _).mp hp
  unfold encodeArea
  refine Bytes.append ?_ (Bytes.cons (zeroSum_lt _) Bytes.nil)
  unfold InfoArea.noCk InfoArea.body
  refine Bytes.cons (by omega) (Bytes.cons ht ?_)
  refine Bytes.append (Bytes.append hpre (Bytes.append (encodeFields_bytes _ hf)
    (Bytes.append (encodeFields_bytes _ hc) (Bytes.cons (by decide) Bytes.nil)))) (Bytes.replicate_zero _)

theorem Record.data_bytes (r : Record) (h : r.wf = true) : Bytes r.data ∧ r.data.length ≤ 255 ∧ r.typeId < 256 := by
  cases r with
  | generic t d =>
    simp only [Record.wf, Bool.and_eq_true, decide_eq_true_eq] at h
    exact ⟨(isBytes_iff _).mp h.1.2, h.2, h.1.1.1⟩
  | picmg pid ver payload =>
    simp only [Record.wf, Bool.and_eq_true, decide_eq_true_eq] at h
    refine ⟨?_, by simp [Record.data]; omega, by simp [Record.typeId, picmgRecordType]⟩
    simp only [Record.data]
    exact Bytes.append (Bytes.append (leBytes_bytes _ _) (Bytes.cons h.1.1.1.1 (Bytes.cons h.1.1.2 Bytes.nil)))
      ((isBytes_iff _).mp h.1.2)
  | power ver tenths extra =>
    simp only [Record.wf, Bool.and_eq_true, decide_eq_true_eq] at h
    refine ⟨?_, by simp [Record.data]; omega, by simp [Record.typeId, picmgRecordType]⟩
    simp only [Record.data]
    exact Bytes.append (Bytes.append (Bytes.append (leBytes_bytes _ _)
      (Bytes.cons (by decide) (Bytes.cons h.1.1.1 Bytes.nil))) (leBytes_bytes _ _)) ((isBytes_iff _).mp h.1.2)

theorem encodeRecord_bytes (r : Record) (last : Bool) (h : r.wf = true) : Bytes (encodeRecord r last) := by
  obtain ⟨hd, hl, ht⟩ := r.data_bytes h
  unfold encodeRecord Record.hdr4
  refine Bytes.append (Bytes.append ?_ (Bytes.cons (zeroSum_lt _) Bytes.nil)) hd
  exact Bytes.cons ht (Bytes.cons (by cases last <;> simp) (Bytes.cons (by omega)
    (Bytes.cons (zeroSum_lt _) Bytes.nil)))

/-! ### the conjuncts of `checksumsClamped` -/

theorem checksumsClamped_false_hdr (bs : List Nat) (h : (bs.take 8).sum % 256 ≠ 0) : checksumsClamped bs = false := by
  have : (sum8 (bs.take 8) == 0) = false := by simp [sum8, h]
  simp [checksumsClamped, this]

theorem checksumsClamped_false2 (bs : List Nat) (h : (bs.getD 2 0 == 0 || areaSumClamped (areaAt bs 2)) = false) :
    checksumsClamped bs = false := by unfold checksumsClamped; rw [h]; simp

theorem checksumsClamped_false3 (bs : List Nat) (h : (bs.getD 3 0 == 0 || areaSumClamped (areaAt bs 3)) = false) :
    checksumsClamped bs = false := by unfold checksumsClamped; rw [h]; simp

theorem checksumsClamped_false4 (bs : List Nat) (h : (bs.getD 4 0 == 0 || areaSumClamped (areaAt bs 4)) = false) :
    checksumsClamped bs = false := by unfold checksumsClamped; rw [h]; simp

theorem checksumsClamped_false5 (bs : List Nat) (h : (bs.getD 5 0 == 0 || multiSumOk (areaAt bs 5)) = false) :
    checksumsClamped bs = false := by unfold checksumsClamped; rw [h]; simp

/-! ### an altered info-area byte -/

theorem areaSumClamped_ne_nil (d : List Nat) (h : d ≠ []) :
    areaSumClamped d = (sum8 (d.take (8 * d.getD 1 0)) == 0) := by
  cases d with
  | nil => exact absurd rfl h
  | cons _ _ => rfl

theorem encodeArea_getElem1 (a : InfoArea) : (encodeArea a)[1]? = some (a.total / 8) := by
  simp [encodeArea, InfoArea.noCk]

/-- located set: the altered position lies in the middle part -/
theorem set_middle (P A Q : List Nat) (j b : Nat) (hj : j < A.length) :
    (P ++ (A ++ Q)).set (P.length + j) b = P ++ (A.set j b ++ Q) := by
  rw [List.set_append_right _ _ (by omega), Nat.add_sub_cancel_left, List.set_append_left _ _ hj]

theorem getElem?_middle (P A Q : List Nat) (j : Nat) (hj : j < A.length) :
    (P ++ (A ++ Q))[P.length + j]? = A[j]? := by
  rw [List.getElem?_append_right (by omega), Nat.add_sub_cancel_left, List.getElem?_append_left hj]

theorem alter_area (a : InfoArea) (hwf : a.wf = true) (P Q : List Nat) (k : Nat)
    (hk : k < P.length) (hP : 8 ≤ P.length) (hoff : 8 * P.getD k 0 = P.length)
    (j : Nat) (hj1 : j ≠ 1) (b' old : Nat) (hold : (encodeArea a)[j]? = some old) (hb' : b' < 256)
    (hne : b' ≠ old) :
    (((P ++ (encodeArea a ++ Q)).set (P.length + j) b').getD k 0 == 0 ||
      areaSumClamped (areaAt ((P ++ (encodeArea a ++ Q)).set (P.length + j) b') k)) = false := by
  obtain ⟨hj, _⟩ := List.getElem?_eq_some_iff.mp hold
  rw [set_middle _ _ _ _ _ hj]
  have hg : (P ++ ((encodeArea a).set j b' ++ Q)).getD k 0 = P.getD k 0 := getD_append_left _ _ _ hk
  have hne0 : P.getD k 0 ≠ 0 := by omega
  have hdrop : areaAt (P ++ ((encodeArea a).set j b' ++ Q)) k = (encodeArea a).set j b' ++ Q := by
    unfold areaAt
    rw [hg, hoff, List.drop_left' rfl]
  have hlen : ((encodeArea a).set j b').length = a.total := by rw [List.length_set, encodeArea_length]
  have hnn : (encodeArea a).set j b' ++ Q ≠ [] := by
    intro h
    have h0 : ((encodeArea a).set j b' ++ Q).length = 0 := by rw [h]; rfl
    have := a.total_pos
    rw [List.length_append, hlen] at h0
    omega
  have h1 : ((encodeArea a).set j b' ++ Q).getD 1 0 = a.total / 8 := by
    have := a.total_pos
    rw [getD_append_left _ _ _ (by omega), List.getD_eq_getElem?_getD, List.getElem?_set]
    simp [hj1, encodeArea_getElem1]
  rw [hg, hdrop, areaSumClamped_ne_nil _ hnn, h1]
  have ht : 8 * (a.total / 8) = a.total := by have := a.total_div; omega
  rw [ht, ← hlen, List.take_left' rfl]
  have hs := sum_set_ne' (encodeArea a) j b' old hold (encodeArea_sum a)
    (Bytes.of_getElem? (encodeArea_bytes a hwf) hold) hb' hne
  rw [List.getD_eq_getElem?_getD] at hne0
  simp [sum8, hs, hne0]

/-! ### an altered multi-record byte -/

theorem recordsOk_alter (rs : List Record) (rest : List Nat) (fuel : Nat)
    (hwf : ∀ r ∈ rs, r.wf = true) (j b' old : Nat)
    (hold : (encodeRecords rs)[j]? = some old) (hb' : b' < 256) (hne : b' ≠ old) :
    recordsOk fuel ((encodeRecords rs ++ rest).set j b') = false := by
  induction rs generalizing fuel j rest with
  | nil => simp [encodeRecords] at hold
  | cons r rs ih =>
    cases fuel with
    | zero => rfl
    | succ n =>
      -- common shape: first record (with its `last` flag) followed by `tail`
      have key : ∀ (last : Bool) (tail : List Nat),
          (last = false → ∀ j', (encodeRecord r last)[j]? = none → j' = j - (encodeRecord r last).length →
            recordsOk n (tail.set j' b') = false) →
          ((encodeRecord r last)[j]? = some old ∨ ((encodeRecord r last)[j]? = none ∧ last = false)) →
          recordsOk (n + 1) ((encodeRecord r last ++ tail).set j b') = false := by
        intro last tail hrec hcase
        obtain ⟨hdb, hdl, htl⟩ := r.data_bytes (hwf r (by simp))
        have hbytes := encodeRecord_bytes r last (hwf r (by simp))
        have hlenE := encodeRecord_length r last
        rcases hcase with hin | ⟨hout, hl⟩
        · -- inside the first record
          obtain ⟨hjl, _⟩ := List.getElem?_eq_some_iff.mp hin
          rw [List.set_append_left _ _ hjl]
          have hold' := Bytes.of_getElem? hbytes hin
          by_cases h5 : j < 5
          · -- header byte: header checksum breaks
            have htake : ((encodeRecord r last).set j b' ++ tail).take 5 =
                ((encodeRecord r last).take 5).set j b' := by
              rw [List.take_append_of_le_length (by rw [List.length_set]; omega), List.take_set]
            have hh : (encodeRecord r last).take 5 = r.hdr4 last ++ [zeroSum (r.hdr4 last)] := by
              simp [encodeRecord, Record.hdr4]
            have hin5 : ((encodeRecord r last).take 5)[j]? = some old := by
              rw [List.getElem?_take_of_lt h5]; exact hin
            have hs := sum_set_ne' _ j b' old hin5 (by rw [hh]; exact sum_append_zeroSum _) hold' hb' hne
            simp only [recordsOk, htake, sum8]
            simp [hs]
          · -- data byte: record checksum breaks
            have hshape : (encodeRecord r last).set j b' ++ tail =
                r.typeId :: flagByte last :: r.data.length :: zeroSum r.data ::
                  zeroSum (r.hdr4 last) :: (r.data.set (j - 5) b' ++ tail) := by
              have := encodeRecord_shape r last []
              simp only [List.append_nil] at this
              rw [this]
              obtain ⟨j', rfl⟩ : ∃ j', j = j' + 5 := ⟨j - 5, by omega⟩
              simp
            have hind : r.data[j - 5]? = some old := by
              have := encodeRecord_shape r last []
              simp only [List.append_nil] at this
              rw [this] at hin
              obtain ⟨j', rfl⟩ : ∃ j', j = j' + 5 := ⟨j - 5, by omega⟩
              simpa using hin
            obtain ⟨hjd, _⟩ := List.getElem?_eq_some_iff.mp hind
            have hsum : ((r.data.set (j - 5) b').sum + zeroSum r.data) % 256 ≠ 0 := by
              have h1 := sum_set r.data (j - 5) b' hjd
              have h2 := sum_zeroSum_add r.data
              obtain ⟨_, he⟩ := List.getElem?_eq_some_iff.mp hind
              omega
            rw [hshape]
            simp only [recordsOk, List.getD_cons_succ, List.getD_cons_zero, List.drop_succ_cons,
              List.drop_zero]
            rw [← List.length_set (as := r.data) (i := j - 5) (a := b'), List.take_left' rfl]
            simp [hsum]
        · -- behind the first record (which is not the last one): its flag says "continue"
          subst hl
          have hjl : (encodeRecord r false).length ≤ j := by
            rcases Nat.lt_or_ge j (encodeRecord r false).length with h | h
            · rw [List.getElem?_eq_getElem h] at hout; cases hout
            · exact h
          rw [List.set_append_right _ _ hjl]
          have hr := hrec rfl _ hout rfl
          have hsh := encodeRecord_shape r false (tail.set (j - (encodeRecord r false).length) b')
          rw [hsh]
          simp only [recordsOk, List.getD_cons_succ, List.getD_cons_zero]
          have hd : (r.typeId :: flagByte false :: r.data.length :: zeroSum r.data ::
              zeroSum (r.hdr4 false) :: (r.data ++ tail.set (j - (encodeRecord r false).length) b')).drop
                (r.data.length + 5) = tail.set (j - (encodeRecord r false).length) b' := by
            simp
          rw [hd, hr]
          simp [flagByte]
      cases rs with
      | nil =>
        simp only [encodeRecords] at hold ⊢
        exact key true rest (fun h => by cases h) (Or.inl hold)
      | cons r' rs' =>
        simp only [encodeRecords, List.append_assoc] at hold ⊢
        by_cases hj : j < (encodeRecord r false).length
        · rw [List.getElem?_append_left hj] at hold
          exact key false _ (fun _ j' hn _ => by rw [hold] at hn; cases hn) (Or.inl hold)
        · have hge : (encodeRecord r false).length ≤ j := by omega
          rw [List.getElem?_append_right hge] at hold
          refine key false _ (fun _ j' _ hj' => ?_) (Or.inr ⟨List.getElem?_eq_none hge, rfl⟩)
          subst hj'
          exact ih rest n (fun x hx => hwf x (by simp [hx])) _ hold

theorem alter_multi (rs : List Record) (hne : rs ≠ []) (hwf : ∀ r ∈ rs, r.wf = true)
    (P : List Nat) (hk : 5 < P.length) (hP : 8 ≤ P.length) (hoff : 8 * P.getD 5 0 = P.length)
    (j b' old : Nat) (hold : (encodeRecords rs)[j]? = some old) (hb' : b' < 256) (hne' : b' ≠ old) :
    (((P ++ (encodeRecords rs ++ [])).set (P.length + j) b').getD 5 0 == 0 ||
      multiSumOk (areaAt ((P ++ (encodeRecords rs ++ [])).set (P.length + j) b') 5)) = false := by
  obtain ⟨hj, _⟩ := List.getElem?_eq_some_iff.mp hold
  rw [set_middle _ _ _ _ _ hj]
  have hg : (P ++ ((encodeRecords rs).set j b' ++ [])).getD 5 0 = P.getD 5 0 := getD_append_left _ _ _ hk
  have hne0 : P.getD 5 0 ≠ 0 := by omega
  have hdrop : areaAt (P ++ ((encodeRecords rs).set j b' ++ [])) 5 = (encodeRecords rs).set j b' ++ [] := by
    unfold areaAt
    rw [hg, hoff, List.drop_left' rfl]
  rw [hg, hdrop]
  have hnn : (encodeRecords rs).set j b' ++ [] ≠ [] := by
    intro h
    have h0 : ((encodeRecords rs).set j b' ++ []).length = 0 := by rw [h]; rfl
    rw [List.append_nil, List.length_set] at h0
    omega
  have := recordsOk_alter rs [] ((encodeRecords rs).set j b' ++ []).length hwf j b' old hold hb' hne'
  rw [List.set_append_left _ _ hj] at this
  rw [List.getD_eq_getElem?_getD] at hne0
  unfold multiSumOk
  split
  · rename_i he; exact absurd he hnn
  · rw [this]; simp [hne0]

end PyIpmi.Fru
