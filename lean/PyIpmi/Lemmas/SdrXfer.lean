/-
  Lemmas/SdrXfer.lean — the SDR transfer model (Model/SdrXfer.lean) against the reference device
  (Spec/SdrDevice.lean): what the device can answer, what the chunk helper can return, the
  invariant of the chunk loop of get_sdr_data_helper, request logs, listing.
-/
import PyIpmi.Model.SdrXfer
import PyIpmi.Gen.Loops11
namespace PyIpmi.Model.SdrXfer
open PyIpmi PyIpmi.Model.Retry PyIpmi.Spec.Sdr
set_option linter.unusedSimpArgs false
set_option linter.unusedVariables false

abbrev K : Consts := PyIpmi.Gen.Loops11.consts
abbrev XK : XConsts := PyIpmi.Gen.Loops11.xconsts

/-! ### generic facts about `chunkLoop` (any environment) -/

section generic
variable {σ ρ : Type} (C : Consts) (send : σ → Nat → σ × Outcome (Nat × ρ)) (reserve : σ → σ × Outcome Nat)

theorem chunkLoop_succ (r : Nat) (st : σ) (res : Nat) :
    chunkLoop C send reserve (r + 1) st res =
      if r = 0 then (st, .retryError) else
      match send st res with
      | (st1, .ok (cc, p)) =>
        if cc = C.ccOk then (st1, .ok p)
        else if cc = C.chunkRenew then
          match reserve st1 with
          | (st2, .ok res') => chunkLoop C send reserve r st2 res'
          | (st2, e) => (st2, recast e)
        else if cc = C.chunkRetry1 ∨ cc = C.chunkRetry2 then chunkLoop C send reserve r st1 res
        else (st1, .ccError cc)
      | (st1, e) => (st1, recast e) := by
  rw [chunkLoop]
  rfl

/-- A successful chunk is a payload the transport delivered with completion code OK. -/
theorem chunkLoop_ok (P : ρ → Prop)
    (h : ∀ st res st' p, send st res = (st', .ok (C.ccOk, p)) → P p) :
    ∀ b st res st' p, chunkLoop C send reserve b st res = (st', .ok p) → P p := by
  intro b
  induction b with
  | zero => intro st res st' p he; simp [chunkLoop] at he
  | succ r ih =>
    intro st res st' p he
    rw [chunkLoop_succ] at he
    by_cases hr : r = 0
    · simp [hr] at he
    · simp only [if_neg hr] at he
      rcases hs : send st res with ⟨st1, o⟩
      rw [hs] at he
      cases o with
      | ok cp =>
        obtain ⟨cc, q⟩ := cp
        simp only at he
        by_cases h1 : cc = C.ccOk
        · simp only [if_pos h1] at he
          injection he with _ he2
          injection he2 with he2
          subst he2; subst h1
          exact h st res st1 q hs
        · simp only [if_neg h1] at he
          by_cases h2 : cc = C.chunkRenew
          · simp only [if_pos h2] at he
            rcases hq : reserve st1 with ⟨st2, o2⟩
            rw [hq] at he
            cases o2 with
            | ok res' => exact ih _ _ _ _ he
            | _ => simp [recast] at he
          · simp only [if_neg h2] at he
            by_cases h3 : cc = C.chunkRetry1 ∨ cc = C.chunkRetry2
            · simp only [if_pos h3] at he
              exact ih _ _ _ _ he
            · simp only [if_neg h3] at he
              simp at he
      | _ => simp [recast] at he

/-- A CompletionCodeError out of the chunk helper is a code the transport delivered (one the
helper has no branch for), or an error of the reservation function. -/
theorem chunkLoop_cc (Q : Nat → Prop)
    (hs : ∀ st res st' c p, send st res = (st', .ok (c, p)) → c ≠ C.ccOk → Q c)
    (hsx : ∀ st res st' c, send st res = (st', .ccError c) → Q c)
    (hr : ∀ st st' c, reserve st = (st', .ccError c) → Q c) :
    ∀ b st res st' c, chunkLoop C send reserve b st res = (st', .ccError c) → Q c := by
  intro b
  induction b with
  | zero => intro st res st' c he; simp [chunkLoop] at he
  | succ r ih =>
    intro st res st' c he
    rw [chunkLoop_succ] at he
    by_cases hr0 : r = 0
    · simp [hr0] at he
    · simp only [if_neg hr0] at he
      rcases hsend : send st res with ⟨st1, o⟩
      rw [hsend] at he
      cases o with
      | ok cp =>
        obtain ⟨cc, q⟩ := cp
        simp only at he
        by_cases h1 : cc = C.ccOk
        · simp [if_pos h1] at he
        · simp only [if_neg h1] at he
          by_cases h2 : cc = C.chunkRenew
          · simp only [if_pos h2] at he
            rcases hq : reserve st1 with ⟨st2, o2⟩
            rw [hq] at he
            cases o2 with
            | ok res' => exact ih _ _ _ _ he
            | ccError c2 =>
              simp [recast] at he
              rw [← he.2]; exact hr _ _ _ hq
            | _ => simp [recast] at he
          · simp only [if_neg h2] at he
            by_cases h3 : cc = C.chunkRetry1 ∨ cc = C.chunkRetry2
            · simp only [if_pos h3] at he
              exact ih _ _ _ _ he
            · simp only [if_neg h3] at he
              simp at he
              rw [← he.2]; exact hs _ _ _ _ _ hsend h1
      | ccError c2 =>
        simp [recast] at he
        rw [← he.2]; exact hsx _ _ _ _ hsend
      | _ => simp [recast] at he

/-- Anything every transport step preserves (a preorder on states) is preserved by the helper. -/
theorem chunkLoop_rel (R : σ → σ → Prop) (hrefl : ∀ a, R a a) (htrans : ∀ a b c, R a b → R b c → R a c)
    (hsend : ∀ st res, R st (send st res).1) (hres : ∀ st, R st (reserve st).1) :
    ∀ b st res, R st (chunkLoop C send reserve b st res).1 := by
  intro b
  induction b with
  | zero => intro st res; simp [chunkLoop]; exact hrefl _
  | succ r ih =>
    intro st res
    rw [chunkLoop_succ]
    by_cases hr0 : r = 0
    · simp [hr0]; exact hrefl _
    · simp only [if_neg hr0]
      have h1 := hsend st res
      rcases hs : send st res with ⟨st1, o⟩
      rw [hs] at h1
      cases o with
      | ok cp =>
        obtain ⟨cc, q⟩ := cp
        simp only
        by_cases c1 : cc = C.ccOk
        · simp only [if_pos c1]; exact h1
        · simp only [if_neg c1]
          by_cases c2 : cc = C.chunkRenew
          · simp only [if_pos c2]
            have h2 := hres st1
            rcases hq : reserve st1 with ⟨st2, o2⟩
            rw [hq] at h2
            cases o2 with
            | ok res' => exact htrans _ _ _ h1 (htrans _ _ _ h2 (ih _ _))
            | _ => exact htrans _ _ _ h1 h2
          · simp only [if_neg c2]
            by_cases c3 : cc = C.chunkRetry1 ∨ cc = C.chunkRetry2
            · simp only [if_pos c3]; exact htrans _ _ _ h1 (ih _ _)
            · simp only [if_neg c3]; exact h1
      | _ => exact h1

end generic


/-! ### what the reference device answers -/

theorem step_n (cfg : Cfg) (st : State) (r : Req) : (step cfg st r).1.n = st.n + 1 := by
  unfold step
  cases r <;> simp only [] <;> split <;> split <;> simp [State.cancelAll, State.grant] <;> (try split) <;> simp

theorem step_log (cfg : Cfg) (st : State) (r : Req) : (step cfg st r).1.log = st.log ++ [r] := by
  unfold step
  cases r <;> simp only [] <;> split <;> split <;> simp [State.cancelAll, State.grant] <;> (try split) <;> simp

theorem transientAt_mem {l : List (Nat × Nat)} {n c : Nat} (h : transientAt l n = some c) : (n, c) ∈ l := by
  induction l with
  | nil => simp [transientAt] at h
  | cons p l ih =>
    obtain ⟨i, c'⟩ := p
    simp only [transientAt] at h
    by_cases hi : i = n
    · simp [hi] at h; subst h; subst hi; simp
    · simp [hi] at h; exact List.mem_cons_of_mem _ (ih h)

/-- `b` is exactly the bytes `off .. off+cnt` of the record `id` of store `s`, `nx` the id of its
successor, and the device was willing to return that many (count FFh = rest of record). -/
def IsSlice (cfg : Cfg) (s : Store) (id off cnt nx : Nat) (b : List Nat) : Prop :=
  ∃ rec, lookup (cfg.recs s) id = some (rec, nx) ∧ off ≤ rec.length ∧
    off + (effCount rec.length off cnt) ≤ rec.length ∧
    (effCount rec.length off cnt) ≤ cfg.limit ∧
    b = (rec.drop off).take (effCount rec.length off cnt)

/-- the device refused the read only because it is longer than its limit -/
def TooLong (cfg : Cfg) (s : Store) (id off cnt : Nat) : Prop :=
  ∃ rec nx, lookup (cfg.recs s) id = some (rec, nx) ∧
    cfg.limit < (effCount rec.length off cnt)

theorem getRsp_data {cfg : Cfg} {st : State} {s : Store} {res id off cnt nx : Nat} {b : List Nat}
    (h : getRsp cfg st s res id off cnt = .data nx b) : IsSlice cfg s id off cnt nx b := by
  unfold getRsp at h
  cases hl : lookup (cfg.recs s) id with
  | none => simp [hl] at h
  | some p =>
    obtain ⟨rec, nxt⟩ := p
    simp only [hl] at h
    by_cases h1 : ((cfg.strict || off != 0) && !(st.valid s && st.res s == res)) = true
    · rw [if_pos h1] at h; cases h
    · rw [if_neg h1] at h
      by_cases h2 : off > rec.length
      · rw [if_pos h2] at h; cases h
      · rw [if_neg h2] at h
        unfold IsSlice
        refine ⟨rec, ?_⟩
        generalize (effCount rec.length off cnt) = cnt' at h ⊢
        by_cases h3 : off + cnt' > rec.length
        · simp [h3] at h
        · by_cases h4 : cnt' > cfg.limit
          · simp [h3, h4] at h
          · simp [h3, h4] at h
            obtain ⟨rfl, rfl⟩ := h
            exact ⟨hl, by omega, by omega, by omega, rfl⟩

theorem getRsp_cantReturn {cfg : Cfg} {st : State} {s : Store} {res id off cnt : Nat}
    (h : getRsp cfg st s res id off cnt = .err ccCantReturn) : TooLong cfg s id off cnt := by
  unfold getRsp at h
  cases hl : lookup (cfg.recs s) id with
  | none => simp [hl, ccNotPresent, ccCantReturn] at h
  | some p =>
    obtain ⟨rec, nxt⟩ := p
    simp only [hl] at h
    by_cases h1 : ((cfg.strict || off != 0) && !(st.valid s && st.res s == res)) = true
    · rw [if_pos h1] at h; simp [ccResCanceled, ccCantReturn] at h
    · rw [if_neg h1] at h
      by_cases h2 : off > rec.length
      · rw [if_pos h2] at h; simp [ccOutOfRange, ccCantReturn] at h
      · rw [if_neg h2] at h
        unfold TooLong
        refine ⟨rec, nxt, hl, ?_⟩
        generalize (effCount rec.length off cnt) = cnt' at h ⊢
        by_cases h3 : off + cnt' > rec.length
        · simp [h3, ccOutOfRange, ccCantReturn] at h
        · by_cases h4 : cnt' > cfg.limit
          · exact h4
          · simp [h3, h4] at h

theorem step_get_data {cfg : Cfg} {st st' : State} {s : Store} {res id off cnt nx : Nat} {b : List Nat}
    (h : step cfg st (.get s res id off cnt) = (st', .data nx b)) : IsSlice cfg s id off cnt nx b := by
  unfold step at h
  simp only [] at h
  split at h
  · cases h
  · injection h with _ h2
    exact getRsp_data h2

theorem step_get_cantReturn {cfg : Cfg} (hw : cfg.wf) {st st' : State} {s : Store} {res id off cnt : Nat}
    (h : step cfg st (.get s res id off cnt) = (st', .err ccCantReturn)) : TooLong cfg s id off cnt := by
  unfold step at h
  simp only [] at h
  split at h
  · rename_i c hc
    injection h with _ h2
    injection h2 with h2
    have := hw.trans _ (transientAt_mem hc)
    simp [h2, ccCantReturn, ccTimeout, ccRespUnavail] at this
  · injection h with _ h2
    exact getRsp_cantReturn h2

theorem step_reserve_err {cfg : Cfg} (hw : cfg.wf) {st st' : State} {s : Store} {c : Nat}
    (h : step cfg st (.reserve s) = (st', .err c)) : c = ccTimeout ∨ c = ccRespUnavail := by
  unfold step at h
  simp only [] at h
  split at h
  · rename_i c' hc
    injection h with _ h2
    injection h2 with h2
    subst h2
    exact hw.trans _ (transientAt_mem hc)
  · cases h


theorem getRsp_err_ne_zero {cfg : Cfg} {st : State} {s : Store} {res id off cnt c : Nat}
    (h : getRsp cfg st s res id off cnt = .err c) : c ≠ 0 := by
  unfold getRsp at h
  cases hl : lookup (cfg.recs s) id with
  | none => simp [hl, ccNotPresent] at h; omega
  | some p =>
    obtain ⟨rec, nxt⟩ := p
    simp only [hl] at h
    by_cases h1 : ((cfg.strict || off != 0) && !(st.valid s && st.res s == res)) = true
    · rw [if_pos h1] at h; simp [ccResCanceled] at h; omega
    · rw [if_neg h1] at h
      by_cases h2 : off > rec.length
      · rw [if_pos h2] at h; simp [ccOutOfRange] at h; omega
      · rw [if_neg h2] at h
        generalize (effCount rec.length off cnt) = cnt' at h
        by_cases h3 : off + cnt' > rec.length
        · simp [h3, ccOutOfRange] at h; omega
        · by_cases h4 : cnt' > cfg.limit
          · simp [h3, h4, ccCantReturn] at h; omega
          · simp [h3, h4] at h

theorem step_get_err_ne_zero {cfg : Cfg} (hw : cfg.wf) {st st' : State} {s : Store} {res id off cnt c : Nat}
    (h : step cfg st (.get s res id off cnt) = (st', .err c)) : c ≠ 0 := by
  unfold step at h
  simp only [] at h
  split at h
  · rename_i c' hc
    injection h with _ h2
    injection h2 with h2
    subst h2
    rcases hw.trans _ (transientAt_mem hc) with h | h <;> simp at h <;> simp [h, ccTimeout, ccRespUnavail]
  · injection h with _ h2
    exact getRsp_err_ne_zero h2

/-! ### the chunk reader (`_get_sdr_chunk` over get_sdr_chunk_helper) against the device -/

theorem sendGet_ok {cfg : Cfg} (hw : cfg.wf) {s : Store} {id off cnt : Nat} {st st' : State} {res : Nat}
    {p : Nat × List Nat} (h : sendGet K (step cfg) s id off cnt st res = (st', .ok (K.ccOk, p))) :
    IsSlice cfg s (id % 65536) (off % 256) (cnt % 256) p.1 p.2 := by
  unfold sendGet at h
  rcases hs : step cfg st (.get s (res % 65536) (id % 65536) (off % 256) (cnt % 256)) with ⟨st1, r⟩
  rw [hs] at h
  cases r with
  | data nx b =>
    simp at h
    obtain ⟨_, rfl⟩ := h
    exact step_get_data hs
  | err c =>
    simp at h
    exact absurd h.2.1 (step_get_err_ne_zero hw hs)
  | reserved _ => simp at h

theorem getChunk_ok {cfg : Cfg} (hw : cfg.wf) (v : Variant) {s : Store} {st st' : State} {res id off cnt nx : Nat}
    {b : List Nat} (h : getChunk K v (step cfg) s st res id off cnt = (st', .ok (nx, b))) :
    IsSlice cfg s (id % 65536) (off % 256) (cnt % 256) nx b := by
  unfold getChunk at h
  exact chunkLoop_ok K _ _ (fun p => IsSlice cfg s (id % 65536) (off % 256) (cnt % 256) p.1 p.2)
    (fun _ _ _ _ hh => sendGet_ok hw hh) _ _ _ _ _ h

theorem reserve_cc {cfg : Cfg} (hw : cfg.wf) {s : Store} {st st' : State} {c : Nat}
    (h : reserve K (step cfg) s st = (st', .ccError c)) : c = ccTimeout ∨ c = ccRespUnavail := by
  unfold reserve at h
  rcases hs : step cfg st (.reserve s) with ⟨st1, r⟩
  rw [hs] at h
  cases r with
  | reserved id => simp at h
  | err c' =>
    simp at h
    by_cases hc : c' = K.ccOk
    · simp [hc] at h
    · simp [hc] at h
      rw [← h.2]; exact step_reserve_err hw hs
  | data _ _ => simp at h

theorem getChunk_cantReturn {cfg : Cfg} (hw : cfg.wf) (v : Variant) {s : Store} {st st' : State}
    {res id off cnt : Nat} (h : getChunk K v (step cfg) s st res id off cnt = (st', .ccError XK.cantReturn)) :
    TooLong cfg s (id % 65536) (off % 256) (cnt % 256) := by
  unfold getChunk at h
  refine chunkLoop_cc K _ _ (fun c => c = XK.cantReturn → TooLong cfg s (id % 65536) (off % 256) (cnt % 256))
    ?_ ?_ ?_ _ _ _ _ _ h rfl
  · intro st1 res1 st2 c p hs hc hca
    subst hca
    unfold sendGet at hs
    rcases hd : step cfg st1 (.get s (res1 % 65536) (id % 65536) (off % 256) (cnt % 256)) with ⟨st3, r⟩
    rw [hd] at hs
    cases r with
    | data nx b => simp at hs; exact absurd hs.2.1.symm hc
    | err c' =>
      simp at hs
      have : c' = ccCantReturn := hs.2.1
      subst this
      exact step_get_cantReturn hw hd
    | reserved _ => simp at hs
  · intro st1 res1 st2 c hs
    unfold sendGet at hs
    rcases hd : step cfg st1 (.get s (res1 % 65536) (id % 65536) (off % 256) (cnt % 256)) with ⟨st3, r⟩
    rw [hd] at hs
    cases r <;> simp at hs
  · intro st1 st2 c hr hca
    subst hca
    rcases reserve_cc hw hr with h | h <;> simp [XK, PyIpmi.Gen.Loops11.xconsts, ccTimeout, ccRespUnavail] at h


/-! ### the chunk loop of get_sdr_data_helper -/

/-- what `get_fn` returns or raises is the chunk reader's outcome, whichever reservation id the
helper keeps afterwards -/
theorem getFn_fst {σ : Type} (C : Consts) (v : Variant) (x : Xport σ) (s : Store) (id : Nat) (st : σ)
    (res off cnt : Nat) : (getFn C v x s id st res off cnt).1 = getChunk C v x s st res id off cnt := rfl

theorem getFn_eq {σ : Type} {C : Consts} {v : Variant} {x : Xport σ} {s : Store} {id : Nat} {st st1 : σ}
    {res off cnt res1 : Nat} {o : Outcome (Nat × List Nat)}
    (h : getFn C v x s id st res off cnt = ((st1, o), res1)) : getChunk C v x s st res id off cnt = (st1, o) := by
  have := congrArg Prod.fst h
  simpa [getFn] using this

theorem dataLoop_succ {σ : Type} (X : XConsts) (v : Variant)
    (get : σ → Nat → Nat → Nat → (σ × Outcome (Nat × List Nat)) × Nat) (recLen r m : Nat) (st : σ) (res : Nat)
    (acc : List Nat) (next : Nat) (last : List Nat) :
    dataLoop X v get recLen (r + 1) m st res acc next last =
      if r = 0 then (st, .retryError) else
      match get st res acc.length (if acc.length + m > recLen then recLen - acc.length else m) with
      | ((st1, .ok (nx, d)), res1) =>
        if (acc ++ d).length ≥ recLen then (st1, .ok ((nx, acc ++ d), res1))
        else dataLoop X v get recLen r m st1 res1 (acc ++ d) nx d
      | ((st1, .ccError c), res1) =>
        if c = X.cantReturn then
          if m ≤ X.reqLenDec then
            (st1, if v.fallThrough then .pyError "unmodelled:max_req_len<=0" else .retryError)
          else if v.fallThrough then
            if (acc ++ last).length ≥ recLen then (st1, .ok ((next, acc ++ last), res1))
            else dataLoop X v get recLen r (m - X.reqLenDec) st1 res1 (acc ++ last) next last
          else dataLoop X v get recLen r (m - X.reqLenDec) st1 res1 acc next last
        else (st1, .ccError c)
      | ((st1, e), _) => (st1, recast e) := by
  rw [dataLoop]
  rfl

/-- arithmetic of the loop: with chunk sizes 20, 16, 12, 8, 4, at most 19 requests and records of
at most 260 bytes, an offset that is still inside the record fits the 8-bit offset field. -/
theorem loop_arith {j k r m off recLen : Nat} (hj : j ≤ 4) (hm : m = 20 - 4 * j) (ho : off = 5 + m * k)
    (hb : j + k + (r + 1) = 20) (hr : r ≠ 0) (hle : off ≤ recLen) (hrec : recLen ≤ 260) :
    off < 256 ∧ m ≤ 20 ∧ 4 ≤ m := by
  have : j = 0 ∨ j = 1 ∨ j = 2 ∨ j = 3 ∨ j = 4 := by omega
  rcases this with rfl | rfl | rfl | rfl | rfl <;> simp at hm <;> subst hm <;> omega

theorem dataLoop_exact {cfg : Cfg} (hw : cfg.wf) (v : Variant) (hv : v.fallThrough = false) (s : Store)
    (hid : Nat) (rec : List Nat) (nx0 : Nat) (hl : lookup (cfg.recs s) hid = some (rec, nx0))
    (hid_lt : hid < 65536) (hrec : rec.length ≤ 260) :
    ∀ r m st res acc next last st' nx d res',
      acc = rec.take acc.length → acc.length ≤ rec.length →
      (∃ j k, j ≤ 4 ∧ m = 20 - 4 * j ∧ acc.length = 5 + m * k ∧ j + k + r = 20 ∧ (0 < k → m ≤ cfg.limit)) →
      dataLoop XK v (getFn K v (step cfg) s hid) rec.length r m st res acc next last
        = (st', .ok ((nx, d), res')) →
      d = rec ∧ nx = nx0 := by
  intro r
  induction r with
  | zero => intro m st res acc next last st' nx d res' _ _ _ he; simp [dataLoop] at he
  | succ r ih =>
    intro m st res acc next last st' nx d res' hacc hle ⟨j, k, hj, hm, hoff, hbud, hlim⟩ he
    rw [dataLoop_succ] at he
    by_cases hr0 : r = 0
    · simp [hr0] at he
    · simp only [if_neg hr0] at he
      obtain ⟨hoff256, hm20, hm4⟩ := loop_arith hj hm hoff hbud hr0 hle hrec
      generalize hlen : (if acc.length + m > rec.length then rec.length - acc.length else m) = len at he
      have hlen_le : len ≤ m := by rw [← hlen]; split <;> omega
      have hlen_in : acc.length + len ≤ rec.length := by rw [← hlen]; split <;> omega
      rcases hgf : getFn K v (step cfg) s hid st res acc.length len with ⟨⟨st1, o⟩, res1⟩
      have hg := getFn_eq hgf
      simp only [hgf] at he
      cases o with
      | ok p =>
        obtain ⟨nx1, b⟩ := p
        simp only at he
        have hs := getChunk_ok hw v hg
        rw [Nat.mod_eq_of_lt hid_lt, Nat.mod_eq_of_lt hoff256, Nat.mod_eq_of_lt (by omega : len < 256)] at hs
        obtain ⟨rec', hl', _, _, hlim', hb⟩ := hs
        rw [hl] at hl'
        injection hl' with hl'
        injection hl' with h1 h2
        subst h1; subst h2
        have hec : effCount rec.length acc.length len = len := by
          unfold effCount; rw [if_neg (by omega)]
        rw [hec] at hb hlim'
        have hbl : b.length = len := by
          rw [hb]; simp; omega
        have hacc' : acc ++ b = rec.take (acc.length + len) := by
          rw [List.take_add, ← hacc, hb]
        have hlab : (acc ++ b).length = acc.length + len := by rw [List.length_append, hbl]
        by_cases hfin : (acc ++ b).length ≥ rec.length
        · simp only [if_pos hfin] at he
          injection he with _ he2
          injection he2 with he2
          injection he2 with he2 _
          injection he2 with he3 he4
          subst he3; subst he4
          refine ⟨?_, rfl⟩
          rw [hacc']
          apply List.take_of_length_le
          omega
        · simp only [if_neg hfin] at he
          have hfin' : acc.length + len < rec.length := by omega
          have hlm : len = m := by
            rw [← hlen]; rw [← hlen] at hfin'; split <;> rename_i hh <;> simp only [hh, if_true, if_false] at hfin' <;> omega
          refine ih m st1 res1 (acc ++ b) _ b st' nx d res' ?_ ?_ ⟨j, k + 1, hj, hm, ?_, by omega, ?_⟩ he
          · rw [hlab]; exact hacc'
          · omega
          · rw [hlab, hoff, hlm, Nat.mul_succ]; omega
          · intro _; omega
      | ccError c =>
        simp only at he
        by_cases hc : c = XK.cantReturn
        · subst hc
          simp only [if_pos rfl, hv] at he
          by_cases hdec : m ≤ XK.reqLenDec
          · simp [if_pos hdec] at he
          · simp only [if_neg hdec] at he
            have hs := getChunk_cantReturn hw v hg
            rw [Nat.mod_eq_of_lt hid_lt, Nat.mod_eq_of_lt hoff256, Nat.mod_eq_of_lt (by omega : len < 256)] at hs
            obtain ⟨rec', nx', hl', htoo⟩ := hs
            rw [hl] at hl'
            injection hl' with hl'
            injection hl' with h1 h2
            subst h1
            have hec : effCount rec.length acc.length len = len := by
              unfold effCount; rw [if_neg (by omega)]
            rw [hec] at htoo
            have hk : k = 0 := by
              rcases Nat.eq_zero_or_pos k with h | h
              · exact h
              · have := hlim h; omega
            subst hk
            have hdec' : XK.reqLenDec = 4 := rfl
            rw [hdec'] at hdec he
            simp only [Bool.false_eq_true, if_false] at he
            refine ih (m - 4) st1 res1 acc next last st' nx d res' hacc hle ⟨j + 1, 0, by omega, by omega, ?_, by omega, ?_⟩ he
            · simp at hoff ⊢; exact hoff
            · intro h; omega
        · simp [if_neg hc] at he
      | _ => simp [recast] at he


/-! ### records, lookup -/

theorem findRec_some {recs : List (List Nat)} {id : Nat} {rec : List Nat} {nx : Nat}
    (h : findRec recs id = some (rec, nx)) : recId rec = id ∧ rec ∈ recs := by
  induction recs with
  | nil => simp [findRec] at h
  | cons r rest ih =>
    simp only [findRec] at h
    by_cases hr : recId r = id
    · simp [hr] at h; obtain ⟨rfl, _⟩ := h; exact ⟨hr, by simp⟩
    · simp [hr] at h; have := ih h; exact ⟨this.1, by simp [this.2]⟩

theorem lookup_mem {recs : List (List Nat)} {id : Nat} {rec : List Nat} {nx : Nat}
    (h : lookup recs id = some (rec, nx)) : rec ∈ recs := by
  unfold lookup at h
  by_cases h0 : id = 0
  · simp only [if_pos h0] at h
    cases recs with
    | nil => simp at h
    | cons r rest => simp at h; simp [h.1]
  · simp only [if_neg h0] at h
    exact (findRec_some h).2

/-- addressing a record by the id found in its own header gives the same record (this is what
get_sdr_data_helper relies on after the first read, e.g. when it was asked for record 0000h) -/
theorem lookup_self {recs : List (List Nat)} {id : Nat} {rec : List Nat} {nx : Nat}
    (h : lookup recs id = some (rec, nx)) : lookup recs (recId rec) = some (rec, nx) := by
  unfold lookup at h
  by_cases h0 : id = 0
  · simp only [if_pos h0] at h
    cases recs with
    | nil => simp at h
    | cons r rest =>
      simp at h
      obtain ⟨rfl, rfl⟩ := h
      unfold lookup
      by_cases h1 : recId r = 0
      · simp [h1]
      · simp [h1, findRec]
  · simp only [if_neg h0] at h
    have := (findRec_some h).1
    unfold lookup
    rw [this, if_neg h0]; exact h

theorem recsWf_mem {recs : List (List Nat)} (hw : recsWf recs) {rec : List Nat} (hm : rec ∈ recs) : recWf rec := by
  induction recs with
  | nil => simp at hm
  | cons r rest ih =>
    simp only [recsWf] at hw
    rcases List.mem_cons.mp hm with rfl | hm
    · exact hw.1
    · exact ih hw.2.2.2 hm

theorem wf_recs {cfg : Cfg} (hw : cfg.wf) (s : Store) : recsWf (cfg.recs s) := by
  cases s
  · exact hw.repo
  · exact hw.dev

theorem recWf_facts {rec : List Nat} (h : recWf rec) :
    5 ≤ rec.length ∧ rec.length ≤ 260 ∧ recId rec < 65536 ∧ rec.getD 4 0 + 5 = rec.length := by
  obtain ⟨h5, hlen, hb⟩ := h
  have hb4 : rec.getD 4 0 < 256 := by
    have : rec.getD 4 0 = rec[4] := by simp [List.getD, List.getElem?_eq_getElem (by omega : 4 < rec.length)]
    rw [this]; exact hb _ (List.getElem_mem _)
  have hb0 : rec.getD 0 0 < 256 := by
    have : rec.getD 0 0 = rec[0] := by simp [List.getD, List.getElem?_eq_getElem (by omega : 0 < rec.length)]
    rw [this]; exact hb _ (List.getElem_mem _)
  have hb1 : rec.getD 1 0 < 256 := by
    have : rec.getD 1 0 = rec[1] := by simp [List.getD, List.getElem?_eq_getElem (by omega : 1 < rec.length)]
    rw [this]; exact hb _ (List.getElem_mem _)
  refine ⟨h5, by omega, ?_, hlen⟩
  unfold recId; omega

theorem hdr_facts (rec : List Nat) :
    hdrId (rec.take 5) = recId rec ∧ (rec.take 5).getD 4 0 = rec.getD 4 0 := by
  simp [hdrId, recId, List.getD, List.getElem?_take]

/-! ### get_sdr_data_helper returns the record or an error -/

theorem getSdrDataWith_exact {cfg : Cfg} (hw : cfg.wf) (v : Variant) (hv : v.fallThrough = false) (s : Store)
    (st : State) (id : Nat) (hid : id < 65536) (res : Nat) {st' : State} {nx : Nat} {d : List Nat} {res' : Nat}
    (hh : getSdrDataWith K XK v (step cfg) s st id res = (st', .ok ((nx, d), res'))) :
    lookup (cfg.recs s) id = some (d, nx) := by
  unfold getSdrDataWith at hh
  rcases hgf : getFn K v (step cfg) s id st res 0 XK.hdrLen with ⟨⟨st1, o⟩, res1⟩
  have hg := getFn_eq hgf
  rw [hgf] at hh
  cases o with
  | ok p =>
    obtain ⟨nx1, d1⟩ := p
    simp only at hh
    have hs := getChunk_ok hw v hg
    rw [Nat.mod_eq_of_lt hid] at hs
    obtain ⟨rec, hl, _, _, _, hb⟩ := hs
    have hwf := recWf_facts (recsWf_mem (wf_recs hw s) (lookup_mem hl))
    have hd1 : d1 = rec.take 5 := by
      rw [hb]; simp [effCount, XK, PyIpmi.Gen.Loops11.xconsts]
    subst hd1
    have hl5 : (rec.take 5).length = 5 := by simp; omega
    rw [if_neg (by omega)] at hh
    obtain ⟨hh1, hh2⟩ := hdr_facts rec
    rw [hh1, hh2, hwf.2.2.2] at hh
    have := dataLoop_exact hw v hv s (recId rec) rec nx1 (lookup_self hl) hwf.2.2.1 hwf.2.1
      20 20 st1 res1 (rec.take 5) nx1 (rec.take 5) st' nx d res' (by simp) (by simp; omega)
      ⟨0, 0, by omega, by omega, by simp; omega, by omega, by intro h; omega⟩ hh
    obtain ⟨rfl, rfl⟩ := this
    exact hl
  | _ => simp [recast] at hh

theorem getSdrDataR_exact {cfg : Cfg} (hw : cfg.wf) (v : Variant) (hv : v.fallThrough = false) (s : Store)
    (st : State) (id : Nat) (hid : id < 65536) (res? : Option Nat) {st' : State} {nx : Nat} {d : List Nat} {res' : Nat}
    (h : getSdrDataR K XK v (step cfg) s st id res? = (st', .ok ((nx, d), res'))) :
    lookup (cfg.recs s) id = some (d, nx) := by
  unfold getSdrDataR at h
  cases res? with
  | some r => exact getSdrDataWith_exact hw v hv s st id hid r h
  | none =>
    simp only at h
    rcases hr : reserve K (step cfg) s st with ⟨st0, o⟩
    rw [hr] at h
    cases o with
    | ok r => exact getSdrDataWith_exact hw v hv s st0 id hid r h
    | _ => simp [recast] at h

/-- `getSdrData` (get_repository_sdr / get_device_sdr) is `getSdrDataR` without the reservation id -/
theorem getSdrData_ok {σ : Type} {C : Consts} {X : XConsts} {v : Variant} {x : Xport σ} {s : Store} {st st' : σ}
    {id : Nat} {res? : Option Nat} {p : Nat × List Nat}
    (h : getSdrData C X v x s st id res? = (st', .ok p)) :
    ∃ res', getSdrDataR C X v x s st id res? = (st', .ok (p, res')) := by
  unfold getSdrData at h
  rcases hr : getSdrDataR C X v x s st id res? with ⟨st1, o⟩
  rw [hr] at h
  cases o with
  | ok q =>
    obtain ⟨q1, q2⟩ := q
    simp [dropRes] at h
    obtain ⟨rfl, rfl⟩ := h
    exact ⟨q2, rfl⟩
  | _ => simp [dropRes, recast] at h

theorem getSdrData_of_R {σ : Type} {C : Consts} {X : XConsts} {v : Variant} {x : Xport σ} {s : Store} {st st' : σ}
    {id : Nat} {res? : Option Nat} {p : Nat × List Nat} {res' : Nat}
    (h : getSdrDataR C X v x s st id res? = (st', .ok (p, res'))) :
    getSdrData C X v x s st id res? = (st', .ok p) := by
  unfold getSdrData
  rw [h]
  rfl

theorem getSdrData_exact {cfg : Cfg} (hw : cfg.wf) (v : Variant) (hv : v.fallThrough = false) (s : Store)
    (st : State) (id : Nat) (hid : id < 65536) (res? : Option Nat) {st' : State} {nx : Nat} {d : List Nat}
    (h : getSdrData K XK v (step cfg) s st id res? = (st', .ok (nx, d))) :
    lookup (cfg.recs s) id = some (d, nx) := by
  obtain ⟨res', h'⟩ := getSdrData_ok h
  exact getSdrDataR_exact hw v hv s st id hid res? h'

end PyIpmi.Model.SdrXfer
