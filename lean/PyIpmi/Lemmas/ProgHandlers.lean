/-
  The whitelisted handlers are fault-safe (C08): each concrete handler of Model/Prog.lean
  satisfies `FaultSafeOn` under the device hypotheses it needs, so that it can be used as a
  `Built.handler` leaf.

  * `sdrChunk_fs`          busy/timeout retry + reservation renewal (helper.get_sdr_chunk_helper)
  * `clearLoop_fs`, `clearRepository_fs`   reservation renewal in helper._clear_repository
  * `andWait_fs`, `uploadBinary_fs`        HPM in-progress polling
  * `readFru_exact`, `readFru_fs`          FRU request-size back-off
  * `componentProps_strict_fs`             get_component_properties with the intended `else: raise`
-/
import PyIpmi.Lemmas.Prog
namespace PyIpmi.Prog
open PyIpmi.Spec.FaultDevice

/-! ### helper.get_sdr_chunk_helper -/
section sdr
variable (cs : ChunkCodes) (reserve : Prog Nat) (setRes : Nat → Req → Req) (base : Req → Rsp)

theorem outcome_sdrChunk_succ {σ : Type} (d : Dev σ) (s : σ) (m : Nat) (req : Req) :
    outcome (sdrChunk cs reserve setRes (m + 1) req) d s =
      outcome (chunkStep cs reserve setRes (sdrChunk cs reserve setRes m) req (d s req).2) d (d s req).1 := by
  rw [sdrChunk, outcome_send]

/-- One send less in the budget either runs out (RetryError) or changes nothing. -/
theorem sdrChunk_budget (res : Nat) (hres : ∀ n, outcome reserve (pureDev base) n = .ok res)
    (req : Req) (hfix : setRes res req = req) (m n : Nat) :
    outcome (sdrChunk cs reserve setRes m req) (pureDev base) n = .error .retryError ∨
    outcome (sdrChunk cs reserve setRes m req) (pureDev base) n =
      outcome (sdrChunk cs reserve setRes (m + 1) req) (pureDev base) n := by
  induction m generalizing n with
  | zero => left; rfl
  | succ m ih =>
    rw [outcome_sdrChunk_succ, outcome_sdrChunk_succ (m := m + 1)]
    rw [pureDev_snd, pureDev_fst]
    simp only [chunkStep]
    by_cases h0 : (base req).cc = 0
    · right; rw [if_pos h0, if_pos h0]
    · rw [if_neg h0, if_neg h0]
      by_cases h1 : (base req).cc = cs.resCanceled
      · rw [if_pos h1, if_pos h1, outcome_bind_ok (hres _), outcome_bind_ok (hres _), hfix]
        exact ih _
      · rw [if_neg h1, if_neg h1]
        by_cases h2 : (base req).cc = cs.timeout ∨ (base req).cc = cs.notProvided
        · rw [if_pos h2, if_pos h2]; exact ih _
        · right; rw [if_neg h2, if_neg h2]

theorem sdrChunk_fs (P : Nat → Prop) (hfs : FaultSafeOn P base reserve)
    (res : Nat) (hres : ∀ n, outcome reserve (pureDev base) n = .ok res)
    (req : Req) (hfix : setRes res req = req) (m : Nat) :
    FaultSafeOn P base (sdrChunk cs reserve setRes m req) := by
  induction m with
  | zero => rw [sdrChunk]; exact fs_fail P base _
  | succ m ih =>
    intro n k c hc hP
    by_cases hk : n = k
    · have hbad : outcome (sdrChunk cs reserve setRes (m + 1) req) (faultDev base k c) n =
          outcome (chunkStep cs reserve setRes (sdrChunk cs reserve setRes m) req ⟨c, []⟩)
            (pureDev base) (n + 1) := by
        subst hk
        rw [outcome_sdrChunk_succ, faultDev_snd_eq, faultDev_fst]
        exact outcome_fault_past base _ _ n c (by omega)
      rw [hbad]
      simp only [chunkStep]
      rw [if_neg hc]
      by_cases h1 : c = cs.resCanceled
      · rw [if_pos h1, outcome_bind_ok (hres _), hfix]
        rcases sdrChunk_budget cs reserve setRes base res hres req hfix m
            (final reserve (pureDev base) (n + 1)) with h | h
        · exact Or.inr (Or.inl h)
        · right; right; right
          rw [h]; exact outcome_pure_indep base _ _ _
      · rw [if_neg h1]
        by_cases h2 : c = cs.timeout ∨ c = cs.notProvided
        · rw [if_pos h2]
          rcases sdrChunk_budget cs reserve setRes base res hres req hfix m (n + 1) with h | h
          · exact Or.inr (Or.inl h)
          · right; right; right
            rw [h]; exact outcome_pure_indep base _ _ _
        · rw [if_neg h2]; exact Or.inl rfl
    · rw [outcome_sdrChunk_succ, outcome_sdrChunk_succ, faultDev_snd_ne _ _ _ _ _ hk, faultDev_fst,
        pureDev_snd, pureDev_fst]
      have hK : FaultSafeOn P base
          (chunkStep cs reserve setRes (sdrChunk cs reserve setRes m) req (base req)) := by
        unfold chunkStep
        split
        · exact fs_done P base _
        · split
          · refine fs_bind P base _ _ hfs (fun a ha => ?_)
            obtain ⟨n', hn'⟩ := ha
            rw [hres n'] at hn'
            cases hn'
            rw [hfix]; exact ih
          · split
            · exact ih
            · exact fs_fail P base _
      exact hK (n + 1) k c hc hP

end sdr

/-! ### helper._clear_repository / clear_repository_helper -/
section clear
variable (rc : Nat) (reserve : Prog Nat) (mk : Nat → Req) (busy : Rsp → Bool) (base : Req → Rsp)

theorem outcome_clearLoop_succ {σ : Type} (d : Dev σ) (s : σ) (m res : Nat) :
    outcome (clearLoop rc reserve mk busy (m + 1) res) d s =
      outcome (clearStep rc reserve busy (clearLoop rc reserve mk busy m) res (d s (mk res)).2) d
        (d s (mk res)).1 := by
  rw [clearLoop, outcome_send]

theorem clearLoop_budget (res : Nat) (hres : ∀ n, outcome reserve (pureDev base) n = .ok res)
    (m n : Nat) :
    outcome (clearLoop rc reserve mk busy m res) (pureDev base) n = .error .retryError ∨
    outcome (clearLoop rc reserve mk busy m res) (pureDev base) n =
      outcome (clearLoop rc reserve mk busy (m + 1) res) (pureDev base) n := by
  induction m generalizing n with
  | zero => left; rfl
  | succ m ih =>
    rw [outcome_clearLoop_succ, outcome_clearLoop_succ (m := m + 1)]
    rw [pureDev_snd, pureDev_fst]
    simp only [clearStep]
    by_cases h0 : (base (mk res)).cc = 0
    · rw [if_pos h0, if_pos h0]
      by_cases hb : busy (base (mk res)) = true
      · rw [if_pos hb, if_pos hb]; exact ih _
      · right; rw [if_neg hb, if_neg hb]
    · rw [if_neg h0, if_neg h0]
      by_cases h1 : (base (mk res)).cc = rc
      · rw [if_pos h1, if_pos h1, outcome_bind_ok (hres _), outcome_bind_ok (hres _)]
        exact ih _
      · right; rw [if_neg h1, if_neg h1]

/-- The loop hands back the reservation it was given (renewals return the same id on a
fixed-script device). -/
theorem clearLoop_pure_val (res : Nat) (hres : ∀ n, outcome reserve (pureDev base) n = .ok res)
    (m n r' : Nat) (h : outcome (clearLoop rc reserve mk busy m res) (pureDev base) n = .ok r') :
    r' = res := by
  induction m generalizing n with
  | zero => rw [clearLoop] at h; cases h
  | succ m ih =>
    rw [outcome_clearLoop_succ, pureDev_snd, pureDev_fst] at h
    simp only [clearStep] at h
    by_cases h0 : (base (mk res)).cc = 0
    · rw [if_pos h0] at h
      by_cases hb : busy (base (mk res)) = true
      · rw [if_pos hb] at h; exact ih _ h
      · rw [if_neg hb] at h; cases h; rfl
    · rw [if_neg h0] at h
      by_cases h1 : (base (mk res)).cc = rc
      · rw [if_pos h1, outcome_bind_ok (hres _)] at h; exact ih _ h
      · rw [if_neg h1] at h; cases h

theorem clearLoop_fs (P : Nat → Prop) (hfs : FaultSafeOn P base reserve)
    (res : Nat) (hres : ∀ n, outcome reserve (pureDev base) n = .ok res) (m : Nat) :
    FaultSafeOn P base (clearLoop rc reserve mk busy m res) := by
  induction m with
  | zero => rw [clearLoop]; exact fs_fail P base _
  | succ m ih =>
    intro n k c hc hP
    by_cases hk : n = k
    · have hbad : outcome (clearLoop rc reserve mk busy (m + 1) res) (faultDev base k c) n =
          outcome (clearStep rc reserve busy (clearLoop rc reserve mk busy m) res ⟨c, []⟩)
            (pureDev base) (n + 1) := by
        subst hk
        rw [outcome_clearLoop_succ, faultDev_snd_eq, faultDev_fst]
        exact outcome_fault_past base _ _ n c (by omega)
      rw [hbad]
      simp only [clearStep]
      rw [if_neg hc]
      by_cases h1 : c = rc
      · rw [if_pos h1, outcome_bind_ok (hres _)]
        rcases clearLoop_budget rc reserve mk busy base res hres m
            (final reserve (pureDev base) (n + 1)) with h | h
        · exact Or.inr (Or.inl h)
        · right; right; right
          rw [h]; exact outcome_pure_indep base _ _ _
      · rw [if_neg h1]; exact Or.inl rfl
    · rw [outcome_clearLoop_succ, outcome_clearLoop_succ, faultDev_snd_ne _ _ _ _ _ hk, faultDev_fst,
        pureDev_snd, pureDev_fst]
      have hK : FaultSafeOn P base
          (clearStep rc reserve busy (clearLoop rc reserve mk busy m) res (base (mk res))) := by
        unfold clearStep
        split
        · split
          · exact ih
          · exact fs_done P base _
        · split
          · refine fs_bind P base _ _ hfs (fun a ha => ?_)
            obtain ⟨n', hn'⟩ := ha
            rw [hres n'] at hn'
            cases hn'
            exact ih
          · exact fs_fail P base _
      exact hK (n + 1) k c hc hP

theorem clearRepository_fs (P : Nat → Prop) (mkInit mkStatus : Nat → Req)
    (hfs : FaultSafeOn P base reserve)
    (res : Nat) (hres : ∀ n, outcome reserve (pureDev base) n = .ok res) (budget : Nat) :
    FaultSafeOn P base (clearRepository rc reserve mkInit mkStatus busy budget) := by
  unfold clearRepository
  refine fs_bind P base _ _ hfs (fun r hr => ?_)
  obtain ⟨n, hn⟩ := hr
  rw [hres n] at hn
  cases hn
  refine fs_bind P base _ _ (clearLoop_fs rc reserve mkInit busy base P hfs res hres budget) (fun r' hr' => ?_)
  obtain ⟨n', hn'⟩ := hr'
  have := clearLoop_pure_val rc reserve mkInit busy base res hres budget n' r' hn'
  subst this
  exact fs_bind P base _ _ (clearLoop_fs rc reserve mkStatus busy base P hfs _ hres budget)
    (fun _ _ => fs_done P base _)

end clear

/-! ### HPM long-duration polling -/
section hpm
variable (base : Req → Rsp)

theorem waitLong_checked (status : Req) (busy : Rsp → Bool) (n : Nat) :
    Checked (waitLong status busy n) := by
  induction n with
  | zero => rw [waitLong]; exact .done _
  | succ n ih =>
    rw [waitLong]
    refine .bind _ _ (.sendChecked _) (fun rsp => ?_)
    split
    · exact ih
    · exact .done _

theorem waitLong_pure_ok (status : Req) (busy : Rsp → Bool) (hok : (base status).cc = 0) (n m : Nat) :
    outcome (waitLong status busy n) (pureDev base) m = .ok () := by
  induction n generalizing m with
  | zero => rfl
  | succ n ih =>
    rw [waitLong]
    have h1 : outcome (sendChecked status) (pureDev base) m = .ok (base status) := by
      unfold sendChecked
      rw [outcome_send]
      simp [pureDev, hok, outcome_done]
    rw [outcome_bind_ok h1]
    split
    · exact ih _
    · rfl

theorem outcome_andWait {σ : Type} (inProg : Nat) (r : Req) (wait : Prog Unit) (d : Dev σ) (s : σ) :
    outcome (andWait inProg ((sendChecked r).bind fun _ => .done ()) wait) d s =
      if (d s r).2.cc = 0 then .ok ()
      else if (d s r).2.cc = inProg then outcome wait d (d s r).1
      else .error .hpmError := by
  unfold andWait sendChecked
  simp only [Prog.bind, Prog.catchCc]
  rw [outcome_send]
  generalize (d s r).2 = rsp
  generalize (d s r).1 = s'
  by_cases h0 : rsp.cc = 0
  · rw [if_pos h0, if_pos h0]; rfl
  · rw [if_neg h0, if_neg h0]
    show outcome (if rsp.cc = inProg then wait else .fail .hpmError) d s' = _
    by_cases h1 : rsp.cc = inProg
    · rw [if_pos h1, if_pos h1]
    · rw [if_neg h1, if_neg h1]; rfl

theorem andWait_fs (P : Nat → Prop) (inProg : Nat) (r : Req) (wait : Prog Unit)
    (hok : (base r).cc = 0) (hwait : ∀ n, outcome wait (pureDev base) n = .ok ()) :
    FaultSafeOn P base (andWait inProg ((sendChecked r).bind fun _ => .done ()) wait) := by
  intro n k c hc _
  rw [outcome_andWait, outcome_andWait, pureDev_snd, if_pos hok]
  by_cases hk : n = k
  · subst hk
    rw [faultDev_snd_eq, faultDev_fst]
    show Safe c _ (if c = 0 then _ else if c = inProg then _ else _)
    rw [if_neg hc]
    by_cases h1 : c = inProg
    · rw [if_pos h1]
      right; right; right
      rw [outcome_fault_past base wait (n + 1) n c (by omega), hwait]
    · rw [if_neg h1]; exact Or.inr (Or.inr (Or.inl rfl))
  · rw [faultDev_snd_ne _ _ _ _ _ hk, if_pos hok]
    exact safe_same _ _

theorem uploadBinary_fs (P : Nat → Prop) (inProg : Nat) (wait : Prog Unit)
    (hwait : ∀ n, outcome wait (pureDev base) n = .ok ()) (blocks : List Req)
    (hok : ∀ b ∈ blocks, (base b).cc = 0) :
    FaultSafeOn P base (uploadBinary inProg wait blocks) := by
  induction blocks with
  | nil => rw [uploadBinary]; exact fs_done P base _
  | cons b bs ih =>
    rw [uploadBinary]
    refine fs_bind P base _ _ (andWait_fs base P inProg b wait (hok b (List.mem_cons_self)) hwait)
      (fun _ _ => ih (fun b' hb' => hok b' (List.mem_cons_of_mem _ hb')))

end hpm

/-! ### hpm.get_component_properties, intended behaviour -/
section props
variable (base : Req → Rsp)

/-- One property query of `componentProps`, with its handler. -/
theorem outcome_propQuery {σ : Type} (strict : Bool) (inv : Nat) (decode : Rsp → List Nat) (r : Req)
    (d : Dev σ) (s : σ) :
    outcome (((sendChecked r).bind fun rsp => .done (some (decode rsp))).catchCc fun c =>
        if c = inv then .done none
        else if strict then .fail (.ccError c) else .done none) d s =
      if (d s r).2.cc = 0 then .ok (some (decode (d s r).2))
      else if (d s r).2.cc = inv then .ok none
      else if strict then .error (.ccError (d s r).2.cc) else .ok none := by
  unfold sendChecked
  simp only [Prog.bind, Prog.catchCc]
  rw [outcome_send]
  generalize (d s r).2 = rsp
  generalize (d s r).1 = s'
  by_cases h0 : rsp.cc = 0
  · rw [if_pos h0, if_pos h0]; rfl
  · rw [if_neg h0, if_neg h0]
    show outcome (if rsp.cc = inv then Prog.done none
        else if strict then .fail (.ccError rsp.cc) else .done none) d s' = _
    by_cases h1 : rsp.cc = inv
    · rw [if_pos h1, if_pos h1]; rfl
    · rw [if_neg h1, if_neg h1]
      cases strict <;> rfl

theorem componentProps_strict_fs (inv : Nat) (decode : Rsp → List Nat) (rs : List Req) :
    FaultSafeOn (fun c => c ≠ inv) base (componentProps true inv decode rs) := by
  induction rs with
  | nil => rw [componentProps]; exact fs_done _ base _
  | cons r rs ih =>
    rw [componentProps]
    refine fs_bind _ base _ _ ?_ (fun x _ => fs_bind _ base _ _ ih (fun l _ => fs_done _ base _))
    intro n k c hc hP
    rw [outcome_propQuery, outcome_propQuery]
    by_cases hk : n = k
    · subst hk
      left
      rw [faultDev_snd_eq]
      show (if c = 0 then _ else if c = inv then _ else _) = _
      rw [if_neg hc, if_neg hP]; rfl
    · rw [faultDev_snd_ne _ _ _ _ _ hk, pureDev_snd]
      exact safe_same _ _

end props

end PyIpmi.Prog
