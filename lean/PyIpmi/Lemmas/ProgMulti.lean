/-
  Any number of faults (C08): the framework.

  * `faultsDev_*`, `outcome_faults_single`       the multi-fault device; one fault = `faultDev`
  * `exec_tryCc`, `outcome_tryCc*`, `outcome_ofRes`   try/except and pure steps
  * `outcome_bind_inv`                           inversion of a successful `bind`
  * `ms_done/fail/sendChecked/bind/ofRes`, `ms_of_checked`   `MultiSafeOn` is closed under the
                                                 constructions of checked programs
  * `ms_single`                                  `MultiSafeOn` ⇒ `FaultSafe` (one fault is a fault set)
  * `Safety`                                     what `FaultSafeOn P base` and `MultiSafeOn Φ base`
                                                 have in common (used by the skeleton theorem)
  * `few_erase`                                  bookkeeping of a bounded number of faults
-/
import PyIpmi.Lemmas.Prog
import PyIpmi.Model.ProgMore
namespace PyIpmi.Prog
open PyIpmi.Spec.FaultDevice

/-! ### the multi-fault device -/

@[simp] theorem faultsDev_fst (base : Req → Rsp) (φ : Nat → Option Nat) (n : Nat) (r : Req) :
    (faultsDev base φ n r).1 = n + 1 := rfl

theorem faultsDev_snd_some (base : Req → Rsp) (φ : Nat → Option Nat) (n c : Nat) (r : Req)
    (h : φ n = some c) : (faultsDev base φ n r).2 = ⟨c, []⟩ := by simp [faultsDev, h]

theorem faultsDev_snd_none (base : Req → Rsp) (φ : Nat → Option Nat) (n : Nat) (r : Req)
    (h : φ n = none) : (faultsDev base φ n r).2 = base r := by simp [faultsDev, h]

theorem faultsDev_single (base : Req → Rsp) (k c : Nat) : faultsDev base (single k c) = faultDev base k c := by
  funext n r
  simp only [faultsDev, faultDev, single]
  by_cases h : n = k <;> simp [h]

theorem nonZero_single (k c : Nat) (hc : c ≠ 0) : NonZero (single k c) := by
  intro n c' h
  simp only [single] at h
  split at h
  · cases h; exact hc
  · cases h

theorem inj_single (k c c' : Nat) (h : Inj (single k c) c') : c' = c := by
  obtain ⟨m, hm⟩ := h
  simp only [single] at hm
  split at hm
  · cases hm; rfl
  · cases hm

theorem few_single (code b k c : Nat) (hb : 1 ≤ b) : Few code b (single k c) := by
  refine ⟨[k], by simpa using hb, fun n h => ?_⟩
  simp only [single] at h
  split at h
  · simp [*]
  · cases h

theorem safeAny_same {α : Type} (inj : Nat → Prop) (x : Res α) : SafeAny inj x x :=
  Or.inr (Or.inr (Or.inr rfl))

theorem safeAny_inj {α : Type} (inj : Nat → Prop) (good : Res α) (c : Nat) (h : inj c) :
    SafeAny inj good (.error (.ccError c)) := Or.inl ⟨c, h, rfl⟩

theorem safeAny_retry {α : Type} (inj : Nat → Prop) (good : Res α) :
    SafeAny inj good (.error .retryError) := Or.inr (Or.inl rfl)

theorem safeAny_hpm {α : Type} (inj : Nat → Prop) (good : Res α) :
    SafeAny inj good (.error .hpmError) := Or.inr (Or.inr (Or.inl rfl))

/-- One fault is a fault set. -/
theorem ms_single {α : Type} (Φ : (Nat → Option Nat) → Prop) (base : Req → Rsp) (p : Prog α)
    (h : MultiSafeOn Φ base p) (hΦ : ∀ k c, Φ (single k c)) : FaultSafe base p := by
  intro n k c hc
  have := h (single k c) (nonZero_single k c hc) (hΦ k c) n
  rw [faultsDev_single] at this
  rcases this with ⟨c', hc', e⟩ | e | e | e
  · rw [inj_single k c c' hc'] at e; exact Or.inl e
  · exact Or.inr (Or.inl e)
  · exact Or.inr (Or.inr (Or.inl e))
  · exact Or.inr (Or.inr (Or.inr e))

/-! ### try / pure steps / inversion -/

theorem outcome_ofRes {α σ : Type} (r : Res α) (d : Dev σ) (s : σ) : outcome (Prog.ofRes r) d s = r := by
  cases r <;> rfl

theorem final_ofRes {α σ : Type} (r : Res α) (d : Dev σ) (s : σ) : final (Prog.ofRes r) d s = s := by
  cases r <;> rfl

theorem exec_tryCc {α σ : Type} (p : Prog α) (d : Dev σ) (s : σ) :
    exec p.tryCc d s =
      ((exec p d s).1,
       (match (exec p d s).2.1 with
        | .ok a => .ok (.ok a)
        | .error (.ccError c) => .ok (.error c)
        | .error e => .error e),
       (exec p d s).2.2) := by
  induction p generalizing s with
  | done a => rfl
  | fail e => cases e <;> rfl
  | send r k ih =>
    simp only [Prog.tryCc, exec]
    rw [ih]

theorem final_tryCc {α σ : Type} (p : Prog α) (d : Dev σ) (s : σ) : final p.tryCc d s = final p d s := by
  simp [final, exec_tryCc]

theorem outcome_tryCc_ok {α σ : Type} {p : Prog α} {d : Dev σ} {s : σ} {a : α}
    (h : outcome p d s = .ok a) : outcome p.tryCc d s = .ok (.ok a) := by
  unfold outcome at *
  rw [exec_tryCc, h]

theorem outcome_tryCc_cc {α σ : Type} {p : Prog α} {d : Dev σ} {s : σ} {c : Nat}
    (h : outcome p d s = .error (.ccError c)) : outcome p.tryCc d s = .ok (.error c) := by
  unfold outcome at *
  rw [exec_tryCc, h]

theorem outcome_tryCc_err {α σ : Type} {p : Prog α} {d : Dev σ} {s : σ} {e : Err}
    (h : outcome p d s = .error e) (hne : ∀ c, e ≠ .ccError c) : outcome p.tryCc d s = .error e := by
  unfold outcome at *
  rw [exec_tryCc, h]
  cases e <;> first | rfl | exact absurd rfl (hne _)

/-- `try: v = p except CompletionCodeError …` followed by `h`: the three ways it can go. -/
theorem outcome_try_bind_ok {α β σ : Type} {p : Prog α} {h : Except Nat α → Prog β} {d : Dev σ} {s : σ}
    {a : α} (hp : outcome p d s = .ok a) :
    outcome (p.tryCc.bind h) d s = outcome (h (.ok a)) d (final p d s) := by
  rw [outcome_bind_ok (outcome_tryCc_ok hp), final_tryCc]

theorem outcome_try_bind_cc {α β σ : Type} {p : Prog α} {h : Except Nat α → Prog β} {d : Dev σ} {s : σ}
    {c : Nat} (hp : outcome p d s = .error (.ccError c)) :
    outcome (p.tryCc.bind h) d s = outcome (h (.error c)) d (final p d s) := by
  rw [outcome_bind_ok (outcome_tryCc_cc hp), final_tryCc]

theorem outcome_try_bind_err {α β σ : Type} {p : Prog α} {h : Except Nat α → Prog β} {d : Dev σ} {s : σ}
    {e : Err} (hp : outcome p d s = .error e) (hne : ∀ c, e ≠ .ccError c) :
    outcome (p.tryCc.bind h) d s = .error e :=
  outcome_bind_error (outcome_tryCc_err hp hne)

theorem outcome_bind_inv {α β σ : Type} {p : Prog α} {f : α → Prog β} {d : Dev σ} {s : σ} {b : β}
    (h : outcome (p.bind f) d s = .ok b) :
    ∃ a, outcome p d s = .ok a ∧ outcome (f a) d (final p d s) = .ok b := by
  cases hp : outcome p d s with
  | ok a => exact ⟨a, rfl, by rw [← outcome_bind_ok hp]; exact h⟩
  | error e => rw [outcome_bind_error hp] at h; cases h

/-- The fault-free outcome, at the canonical position. -/
def good {α : Type} (base : Req → Rsp) (p : Prog α) : Res α := outcome p (pureDev base) 0

theorem outcome_pure_good {α : Type} (base : Req → Rsp) (p : Prog α) (n : Nat) :
    outcome p (pureDev base) n = good base p := outcome_pure_indep base p n 0

/-! ### closure -/

theorem ms_done {α : Type} (Φ : (Nat → Option Nat) → Prop) (base : Req → Rsp) (a : α) :
    MultiSafeOn Φ base (.done a) := fun _ _ _ _ => safeAny_same _ _

theorem ms_fail {α : Type} (Φ : (Nat → Option Nat) → Prop) (base : Req → Rsp) (e : Err) :
    MultiSafeOn Φ base (.fail e : Prog α) := fun _ _ _ _ => safeAny_same _ _

theorem ms_ofRes {α : Type} (Φ : (Nat → Option Nat) → Prop) (base : Req → Rsp) (r : Res α) :
    MultiSafeOn Φ base (Prog.ofRes r) := by
  cases r
  · exact ms_fail Φ base _
  · exact ms_done Φ base _

theorem ms_sendChecked (Φ : (Nat → Option Nat) → Prop) (base : Req → Rsp) (r : Req) :
    MultiSafeOn Φ base (sendChecked r) := by
  intro φ hφ _ n
  unfold sendChecked
  rw [outcome_send, outcome_send]
  cases hn : φ n with
  | none =>
    rw [faultsDev_snd_none _ _ _ _ hn, pureDev_snd, faultsDev_fst, pureDev_fst]
    by_cases hb : (base r).cc = 0 <;> simp [hb, outcome_done, outcome_fail] <;> exact safeAny_same _ _
  | some c =>
    rw [faultsDev_snd_some _ _ _ _ _ hn]
    have hc := hφ n c hn
    show SafeAny _ _ (outcome (if c = 0 then _ else _) _ _)
    rw [if_neg hc]
    exact safeAny_inj _ _ c ⟨n, hn⟩

theorem ms_bind {α β : Type} (Φ : (Nat → Option Nat) → Prop) (base : Req → Rsp) (p : Prog α)
    (f : α → Prog β) (hp : MultiSafeOn Φ base p)
    (hf : ∀ a, (∃ n, outcome p (pureDev base) n = .ok a) → MultiSafeOn Φ base (f a)) :
    MultiSafeOn Φ base (p.bind f) := by
  intro φ hφ hΦ n
  rcases hp φ hφ hΦ n with ⟨c, hc, h⟩ | h | h | h
  · exact Or.inl ⟨c, hc, outcome_bind_error h⟩
  · exact Or.inr (Or.inl (outcome_bind_error h))
  · exact Or.inr (Or.inr (Or.inl (outcome_bind_error h)))
  · cases hg : outcome p (pureDev base) n with
    | error e =>
      rw [hg] at h
      right; right; right
      rw [outcome_bind_error h, outcome_bind_error hg]
    | ok a =>
      rw [hg] at h
      rw [outcome_bind_ok h, outcome_bind_ok hg]
      rw [outcome_pure_indep base (f a) (final p (pureDev base) n) (final p (faultsDev base φ) n)]
      exact hf a ⟨n, hg⟩ φ hφ hΦ _

theorem ms_of_checked {α : Type} (Φ : (Nat → Option Nat) → Prop) (base : Req → Rsp) (p : Prog α)
    (h : Checked p) : MultiSafeOn Φ base p := by
  induction h with
  | done a => exact ms_done Φ base a
  | fail e => exact ms_fail Φ base e
  | sendChecked r => exact ms_sendChecked Φ base r
  | bind p f _ _ ihp ihf => exact ms_bind Φ base p f ihp (fun a _ => ihf a)

theorem ms_mono {α : Type} (Φ Ψ : (Nat → Option Nat) → Prop) (base : Req → Rsp) (p : Prog α)
    (h : MultiSafeOn Φ base p) (hΨ : ∀ φ, Ψ φ → Φ φ) : MultiSafeOn Ψ base p :=
  fun φ hφ hp n => h φ hφ (hΨ φ hp) n

/-- What the two notions of safety have in common: closed under the constructions of checked
programs, the continuation of a `bind` mattering only for values the fault-free run produces. -/
structure Safety (base : Req → Rsp) (S : {α : Type} → Prog α → Prop) : Prop where
  done : ∀ {α : Type} (a : α), S (.done a)
  fail : ∀ {α : Type} (e : Err), S (.fail e : Prog α)
  sendChecked : ∀ (r : Req), S (sendChecked r)
  bind : ∀ {α β : Type} (p : Prog α) (f : α → Prog β), S p →
    (∀ a, (∃ n, outcome p (pureDev base) n = .ok a) → S (f a)) → S (p.bind f)

theorem safety_fs (P : Nat → Prop) (base : Req → Rsp) : Safety base (fun {α} (p : Prog α) => FaultSafeOn P base p) :=
  ⟨fun a => fs_done P base a, fun e => fs_fail P base e, fun r => fs_sendChecked P base r,
   fun p f hp hf => fs_bind P base p f hp hf⟩

theorem safety_ms (Φ : (Nat → Option Nat) → Prop) (base : Req → Rsp) :
    Safety base (fun {α} (p : Prog α) => MultiSafeOn Φ base p) :=
  ⟨fun a => ms_done Φ base a, fun e => ms_fail Φ base e, fun r => ms_sendChecked Φ base r,
   fun p f hp hf => ms_bind Φ base p f hp hf⟩

/-! ### one checked exchange on the multi-fault device; runs past the last fault -/

theorem final_sendChecked {σ : Type} (r : Req) (d : Dev σ) (s : σ) : final (sendChecked r) d s = (d s r).1 := by
  unfold sendChecked final
  simp only [exec]
  split <;> rfl

theorem outcome_sendChecked_fault (base : Req → Rsp) (φ : Nat → Option Nat) (n c : Nat) (r : Req)
    (h : φ n = some c) (hc : c ≠ 0) :
    outcome (sendChecked r) (faultsDev base φ) n = .error (.ccError c) := by
  unfold sendChecked
  rw [outcome_send, faultsDev_snd_some _ _ _ _ _ h]
  show outcome (if c = 0 then _ else _) _ _ = _
  rw [if_neg hc]; rfl

theorem outcome_sendChecked_none (base : Req → Rsp) (φ : Nat → Option Nat) (n : Nat) (r : Req)
    (h : φ n = none) (h0 : (base r).cc = 0) :
    outcome (sendChecked r) (faultsDev base φ) n = .ok (base r) := by
  unfold sendChecked
  rw [outcome_send, faultsDev_snd_none _ _ _ _ h, if_pos h0]; rfl

theorem outcome_sendChecked_pure (base : Req → Rsp) (n : Nat) (r : Req) (h0 : (base r).cc = 0) :
    outcome (sendChecked r) (pureDev base) n = .ok (base r) := by
  unfold sendChecked
  rw [outcome_send, pureDev_snd, if_pos h0]; rfl

/-- All faults lie below position `N`. -/
def Below (N : Nat) (φ : Nat → Option Nat) : Prop := ∀ k, N ≤ k → φ k = none

theorem below_single (k c : Nat) : Below (k + 1) (single k c) := by
  intro m hm
  simp only [single]
  rw [if_neg (by omega)]

/-- From a position past the last fault the run is the fault-free one. -/
theorem outcome_faults_past {α : Type} (base : Req → Rsp) (φ : Nat → Option Nat) (p : Prog α) (n : Nat)
    (h : ∀ k, n ≤ k → φ k = none) :
    outcome p (faultsDev base φ) n = outcome p (pureDev base) n := by
  induction p generalizing n with
  | done a => rfl
  | fail e => rfl
  | send r k ih =>
    rw [outcome_send, outcome_send, faultsDev_snd_none _ _ _ _ (h n (Nat.le_refl n)), faultsDev_fst,
      pureDev_snd, pureDev_fst]
    exact ih _ _ (fun k hk => h k (by omega))

/-! ### positions only grow -/

theorem final_send {α σ : Type} (r : Req) (k : Rsp → Prog α) (d : Dev σ) (s : σ) :
    final (.send r k) d s = final (k (d s r).2) d (d s r).1 := by
  simp [final, exec]

theorem final_faults_mono {α : Type} (base : Req → Rsp) (φ : Nat → Option Nat) (p : Prog α) (n : Nat) :
    n ≤ final p (faultsDev base φ) n := by
  induction p generalizing n with
  | done a => exact Nat.le_refl n
  | fail e => exact Nat.le_refl n
  | send r k ih =>
    rw [final_send, faultsDev_fst]
    exact Nat.le_trans (Nat.le_succ n) (ih _ _)

/-- A program that starts with a request moves on by at least one position. -/
theorem final_faults_send_lt {α : Type} (base : Req → Rsp) (φ : Nat → Option Nat) (r : Req)
    (k : Rsp → Prog α) (n : Nat) : n < final (.send r k) (faultsDev base φ) n := by
  rw [final_send, faultsDev_fst]
  exact Nat.lt_of_lt_of_le (Nat.lt_succ_self n) (final_faults_mono base φ _ _)

/-! ### a bounded number of faults with one code -/

/-- Bookkeeping for `Few`: the positions from `n` on that carry `code` are among `S`; after a
fault with that code at `n`, those from `n + 1` on are among `S.erase n`, which is shorter. -/
theorem few_erase (φ : Nat → Option Nat) (code n : Nat) (S : List Nat)
    (hS : ∀ k, n ≤ k → φ k = some code → k ∈ S) (hn : φ n = some code) :
    (∀ k, n + 1 ≤ k → φ k = some code → k ∈ S.erase n) ∧ (S.erase n).length + 1 = S.length := by
  have hmem : n ∈ S := hS n (Nat.le_refl n) hn
  constructor
  · intro k hk hc
    have : k ≠ n := by omega
    exact (List.mem_erase_of_ne this).mpr (hS k (by omega) hc)
  · rw [List.length_erase_of_mem hmem]
    have : 0 < S.length := List.length_pos_of_mem hmem
    omega

theorem few_weaken (φ : Nat → Option Nat) (code n : Nat) (S : List Nat)
    (hS : ∀ k, n ≤ k → φ k = some code → k ∈ S) : ∀ k, n + 1 ≤ k → φ k = some code → k ∈ S :=
  fun k hk hc => hS k (by omega) hc

end PyIpmi.Prog
