/- Lemmas about bit-field packing (`packBits` / `unpackBits`). Core only. -/
import PyIpmi.Model.Codec
namespace PyIpmi.Codec
open PyIpmi

/-- every member value fits its declared width -/
def fitsBits : List Nat → List Nat → Bool
  | [], [] => true
  | w :: ws, v :: vs => decide (v < 2 ^ w) && fitsBits ws vs
  | _, _ => false

theorem packBits_lt (ws vs : List Nat) : packBits ws vs < 2 ^ ws.sum := by
  induction ws generalizing vs with
  | nil => simp [packBits]
  | cons w ws ih =>
    cases vs with
    | nil => simp [packBits]; exact Nat.two_pow_pos _
    | cons v vs =>
      simp only [packBits, List.sum_cons, Nat.pow_add]
      have h1 : v % 2 ^ w < 2 ^ w := Nat.mod_lt _ (Nat.two_pow_pos w)
      have h2 := ih vs
      have h3 : 2 ^ w * (packBits ws vs + 1) ≤ 2 ^ w * 2 ^ ws.sum := Nat.mul_le_mul_left _ h2
      rw [Nat.mul_add] at h3
      omega

theorem unpack_pack (ws vs : List Nat) (h : fitsBits ws vs = true) :
    unpackBits ws (packBits ws vs) = vs := by
  induction ws generalizing vs with
  | nil => cases vs <;> simp_all [fitsBits, unpackBits]
  | cons w ws ih =>
    cases vs with
    | nil => simp [fitsBits] at h
    | cons v vs =>
      simp only [fitsBits, Bool.and_eq_true, decide_eq_true_eq] at h
      have hv : v % 2 ^ w = v := Nat.mod_eq_of_lt h.1
      simp only [packBits, unpackBits, hv]
      have hp : 0 < 2 ^ w := Nat.two_pow_pos w
      rw [Nat.add_mul_mod_self_left, hv, Nat.add_mul_div_left _ _ hp, Nat.div_eq_of_lt h.1,
        Nat.zero_add, ih vs h.2]

theorem pack_unpack (ws : List Nat) (x : Nat) (h : x < 2 ^ ws.sum) :
    packBits ws (unpackBits ws x) = x := by
  induction ws generalizing x with
  | nil => simp [packBits, unpackBits] at *; omega
  | cons w ws ih =>
    simp only [unpackBits, packBits, Nat.mod_mod]
    have hp : 0 < 2 ^ w := Nat.two_pow_pos w
    have : x / 2 ^ w < 2 ^ ws.sum := by
      simp only [List.sum_cons, Nat.pow_add] at h
      exact Nat.div_lt_of_lt_mul h
    rw [ih _ this]
    exact Nat.mod_add_div x (2 ^ w)

theorem unpack_fits (ws : List Nat) (x : Nat) : fitsBits ws (unpackBits ws x) = true := by
  induction ws generalizing x with
  | nil => rfl
  | cons w ws ih =>
    simp only [unpackBits, fitsBits, Bool.and_eq_true, decide_eq_true_eq]
    exact ⟨Nat.mod_lt _ (Nat.two_pow_pos w), ih _⟩

theorem unpack_length (ws : List Nat) (x : Nat) : (unpackBits ws x).length = ws.length := by
  induction ws generalizing x with
  | nil => rfl
  | cons w ws ih => simp [unpackBits, ih]

theorem fitsBits_length {ws vs : List Nat} (h : fitsBits ws vs = true) : vs.length = ws.length := by
  induction ws generalizing vs with
  | nil => cases vs <;> simp_all [fitsBits]
  | cons w ws ih =>
    cases vs with
    | nil => simp [fitsBits] at h
    | cons v vs =>
      simp only [fitsBits, Bool.and_eq_true] at h
      simp [ih h.2]

theorem two_pow_eight_mul (n : Nat) : 2 ^ (8 * n) = 256 ^ n := by
  rw [Nat.pow_mul]

end PyIpmi.Codec
