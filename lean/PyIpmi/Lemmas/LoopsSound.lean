/-
  Lemmas/LoopsSound.lean — the soundness invariant of the receive loops, by induction over the
  queue, the event list and the budgets: whatever the loops return or keep in `_q` was carried
  by a frame of the source set `S` (initial queue + datagrams delivered), and what is returned
  is an intact reply to the request in hand.
-/
import PyIpmi.Lemmas.Loops
namespace PyIpmi.Loops
open PyIpmi PyIpmi.Spec.Attribution

/-- `g` was carried by a frame of `S`. -/
def Sound (st : Bool) (S : List Frame) (g : Frame) : Prop := ∃ dg ∈ S, Carries st dg g

theorem Sound.mono {st : Bool} {S S' : List Frame} {g : Frame} (h : Sound st S g) (hs : ∀ x ∈ S, x ∈ S') :
    Sound st S' g := by
  obtain ⟨dg, hd, hc⟩ := h
  exact ⟨dg, hs dg hd, hc⟩

theorem Sound.step {st : Bool} {S : List Frame} {f g : Frame} (h : Sound st S f) (hc : Carries st f g) :
    Sound st S g := by
  obtain ⟨dg, hd, h1⟩ := h
  exact ⟨dg, hd, h1.trans hc⟩

theorem Sound.of_mem {st : Bool} {S : List Frame} {f : Frame} (h : f ∈ S) : Sound st S f := ⟨f, h, .self f⟩

/-- Loop invariant: everything in `_q` was carried by a source frame and every datagram still
to come is a source frame. -/
def Inv (st : Bool) (S : List Frame) (q : List Frame) (evs : List RxEvent) : Prop :=
  (∀ x ∈ q, Sound st S x) ∧ (∀ x ∈ framesOf evs, x ∈ S)

theorem Inv.tail {st S q ev evs} (h : Inv st S q (ev :: evs)) : Inv st S q evs := by
  refine ⟨h.1, fun x hx => h.2 x ?_⟩
  cases ev <;> simp [framesOf, hx]

theorem Inv.nilq {st S q evs} (h : Inv st S q evs) : Inv st S [] evs := ⟨by simp, h.2⟩

theorem Inv.qtail {st S f q evs} (h : Inv st S (f :: q) evs) : Inv st S q evs :=
  ⟨fun x hx => h.1 x (List.mem_cons_of_mem _ hx), h.2⟩

theorem recvIpmi_got {cfg : Cfg} {ev : RxEvent} {f : Frame} (h : recvIpmi cfg ev = .got f) :
    f ∈ framesOf [ev] := by
  cases ev with
  | timeout => simp [recvIpmi] at h
  | malformed => simp [recvIpmi] at h
  | badLen bs =>
    simp only [recvIpmi] at h
    split at h
    · split at h
      · cases h
      · injection h with h; subst h; simp [framesOf]
    · cases h
  | frame bs =>
    simp only [recvIpmi] at h
    split at h
    · cases h
    · injection h with h; subst h; simp [framesOf]

theorem framesOf_cons_mem {ev : RxEvent} {evs : List RxEvent} {f : Frame} (h : f ∈ framesOf [ev]) :
    f ∈ framesOf (ev :: evs) := by
  cases ev <;> simp_all [framesOf]

/-- What a `Next` result has to satisfy. -/
def NextOk (st cs : Bool) (h : Hdr) (S : List Frame) : Next → Prop
  | .counted g isHit q evs => Sound st S g ∧ (isHit = true → isReplyTo cs h.rid g) ∧ Inv st S q evs
  | .timeout evs => Inv st S [] evs
  | .abort e q evs => (∀ d, e ≠ .ok d) ∧ Inv st S q evs

theorem classify_err {co cs : Bool} {bridge : Option Hdr} {h : Hdr} {f : Frame} {e : Outcome Frame}
    (hc : classify co cs bridge h f = .err e) : ∀ d, e ≠ .ok d := by
  rcases classify_cases co cs bridge h f with he | he | he <;> rw [he] at hc
  · injection hc with hc
    subst hc
    intro d hd
    cases hd
  · exact plain_err hc
  · exact afterPeel_err hc

theorem recvIpmi_err {cfg : Cfg} {ev : RxEvent} {e : Outcome Frame}
    (hr : recvIpmi cfg ev = .err e) : ∀ d, e ≠ .ok d := by
  intro d hd
  subst hd
  cases ev with
  | timeout => simp [recvIpmi] at hr
  | malformed => simp [recvIpmi] at hr
  | badLen bs =>
    simp only [recvIpmi] at hr
    split at hr
    · split at hr <;> cases hr
    · cases hr
  | frame bs =>
    simp only [recvIpmi] at hr
    split at hr <;> cases hr

theorem nextSock_ok (cfg : Cfg) (bridge : Option Hdr) (h : Hdr) (hn : h.netfn % 2 = 0) (S : List Frame)
    (evs : List RxEvent) (hi : Inv (!cfg.cmdOnly) S [] evs) :
    NextOk (!cfg.cmdOnly) cfg.checkSeq h S (nextSock cfg bridge h evs) := by
  induction evs with
  | nil => simpa [nextSock, NextOk] using hi
  | cons ev rest ih =>
    simp only [nextSock]
    split
    · exact hi.tail
    · rename_i e hr
      exact ⟨recvIpmi_err hr, hi.tail⟩
    · rename_i f hr
      have hf : f ∈ S := hi.2 f (framesOf_cons_mem (recvIpmi_got hr))
      split
      · exact ih hi.tail
      · rename_i e hc
        exact ⟨classify_err hc, hi.tail⟩
      · rename_i g hc
        exact ⟨(Sound.of_mem hf).step (classify_noise hc).1, by simp, hi.tail⟩
      · rename_i g hc
        have := classify_hit hn hc
        exact ⟨(Sound.of_mem hf).step this.1, fun _ => this.2, hi.tail⟩

theorem nextQ_ok (cfg : Cfg) (bridge : Option Hdr) (h : Hdr) (hn : h.netfn % 2 = 0) (S : List Frame)
    (q : List Frame) (evs : List RxEvent) (hi : Inv (!cfg.cmdOnly) S q evs) :
    NextOk (!cfg.cmdOnly) cfg.checkSeq h S (nextQ cfg bridge h q evs) := by
  induction q with
  | nil => simpa [nextQ] using nextSock_ok cfg bridge h hn S evs hi
  | cons f q ih =>
    simp only [nextQ]
    have hf : Sound (!cfg.cmdOnly) S f := hi.1 f (List.mem_cons_self)
    split
    · exact ih hi.qtail
    · rename_i e hc
      exact ⟨classify_err hc, hi.qtail⟩
    · rename_i g hc
      exact ⟨hf.step (classify_noise hc).1, by simp, hi.qtail⟩
    · rename_i g hc
      have := classify_hit hn hc
      exact ⟨hf.step this.1, fun _ => this.2, hi.qtail⟩

def InnerOk (st cs : Bool) (h : Hdr) (S : List Frame) : Inner → Prop
  | .done g q evs => Sound st S g ∧ isReplyTo cs h.rid g ∧ Inv st S q evs
  | .exhausted q evs => Inv st S q evs
  | .timeout evs => Inv st S [] evs
  | .abort e q evs => (∀ d, e ≠ .ok d) ∧ Inv st S q evs

theorem inner_ok (cfg : Cfg) (bridge : Option Hdr) (h : Hdr) (hn : h.netfn % 2 = 0) (S : List Frame) (b : Nat)
    (q : List Frame) (evs : List RxEvent) (hi : Inv (!cfg.cmdOnly) S q evs) :
    InnerOk (!cfg.cmdOnly) cfg.checkSeq h S (inner cfg bridge h b q evs) := by
  induction b generalizing q evs with
  | zero => simpa [inner, InnerOk] using hi
  | succ b ih =>
    simp only [inner]
    have hnx := nextQ_ok cfg bridge h hn S q evs hi
    split
    · rename_i g q' evs' heq
      rw [heq] at hnx
      exact ⟨hnx.1, hnx.2.1 rfl, hnx.2.2⟩
    · rename_i g q' evs' heq
      rw [heq] at hnx
      apply ih
      obtain ⟨hg, _, hq, he⟩ := hnx
      refine ⟨?_, he⟩
      split
      · intro x hx
        rcases List.mem_append.mp hx with hx | hx
        · exact hq x hx
        · simp at hx; subst hx; exact hg
      · exact hq
    · rename_i evs' heq
      rw [heq] at hnx
      exact hnx
    · rename_i e q' evs' heq
      rw [heq] at hnx
      exact hnx

/-- Soundness of the whole `_send_and_receive` loop nest. -/
theorem outer_ok (cfg : Cfg) (bridge : Option Hdr) (h : Hdr) (hn : h.netfn % 2 = 0) (S : List Frame) (r : Nat)
    (q : List Frame) (evs : List RxEvent) (n : Nat) (hi : Inv (!cfg.cmdOnly) S q evs) :
    let res := outer cfg bridge h r q evs n
    Inv (!cfg.cmdOnly) S res.queue res.rest ∧
    (∀ d, res.out = .ok d → ∃ g, Sound (!cfg.cmdOnly) S g ∧ isReplyTo cfg.checkSeq h.rid g ∧
        d = pySlice Gen.Loops04.rmcpDataLo Gen.Loops04.rmcpDataHi g) := by
  induction r generalizing q evs n with
  | zero =>
    simp only [outer]
    exact ⟨hi, fun d hd => by cases hd⟩
  | succ r ih =>
    simp only [outer]
    have hin := inner_ok cfg bridge h hn S (innerBudget cfg) q evs hi
    split
    · rename_i g q' evs' heq
      rw [heq] at hin
      refine ⟨hin.2.2, fun d hd => ?_⟩
      injection hd with hd
      exact ⟨g, hin.1, hin.2.1, hd.symm⟩
    · rename_i q' evs' heq
      rw [heq] at hin
      exact ⟨hin, fun d hd => by cases hd⟩
    · rename_i e q' evs' heq
      rw [heq] at hin
      exact ⟨hin.2, fun d hd => absurd hd (hin.1 d)⟩
    · rename_i evs' heq
      rw [heq] at hin
      exact ih [] evs' (n + 1) hin

def Next.qOf : Next → List Frame
  | .counted _ _ q _ => q
  | .timeout _ => []
  | .abort _ q _ => q

def Next.restOf : Next → List RxEvent
  | .counted _ _ _ r => r
  | .timeout r => r
  | .abort _ _ r => r

/-- the socket part of the loop body never produces a `_q` -/
theorem nextSock_qOf (cfg : Cfg) (bridge : Option Hdr) (h : Hdr) (evs : List RxEvent) :
    (nextSock cfg bridge h evs).qOf = [] := by
  induction evs with
  | nil => simp [nextSock, Next.qOf]
  | cons ev rest ih =>
    simp only [nextSock]
    split
    · rfl
    · rfl
    · split
      · exact ih
      · rfl
      · rfl
      · rfl

/-- … and what it leaves unread is a suffix of what it was given -/
theorem nextSock_rest_sub (cfg : Cfg) (bridge : Option Hdr) (h : Hdr) (evs : List RxEvent) :
    ∀ x ∈ framesOf (nextSock cfg bridge h evs).restOf, x ∈ framesOf evs := by
  induction evs with
  | nil => simp [nextSock, Next.restOf]
  | cons ev more ih =>
    have tl : ∀ x ∈ framesOf more, x ∈ framesOf (ev :: more) := by
      intro x hx; cases ev <;> simp [framesOf, hx]
    simp only [nextSock]
    split
    · exact tl
    · exact tl
    · split
      · exact fun x hx => tl x (ih x hx)
      · exact tl
      · exact tl
      · exact tl

theorem nextQ_rest_sub (cfg : Cfg) (bridge : Option Hdr) (h : Hdr) (q : List Frame) (evs : List RxEvent) :
    ∀ x ∈ framesOf (nextQ cfg bridge h q evs).restOf, x ∈ framesOf evs := by
  induction q with
  | nil => simpa [nextQ] using nextSock_rest_sub cfg bridge h evs
  | cons f q ih =>
    simp only [nextQ]
    split
    · exact ih
    · exact fun x hx => hx
    · exact fun x hx => hx
    · exact fun x hx => hx

def Inner.restOf : Inner → List RxEvent
  | .done _ _ r => r
  | .exhausted _ r => r
  | .timeout r => r
  | .abort _ _ r => r

theorem inner_rest_sub (cfg : Cfg) (bridge : Option Hdr) (h : Hdr) (b : Nat) (q : List Frame) (evs : List RxEvent) :
    ∀ x ∈ framesOf (inner cfg bridge h b q evs).restOf, x ∈ framesOf evs := by
  induction b generalizing q evs with
  | zero => exact fun x hx => hx
  | succ b ih =>
    have hs := nextQ_rest_sub cfg bridge h q evs
    simp only [inner]
    split
    · rename_i g q' evs' heq
      rw [heq] at hs
      exact hs
    · rename_i g q' evs' heq
      rw [heq] at hs
      exact fun x hx => hs x (ih _ evs' x hx)
    · rename_i evs' heq
      rw [heq] at hs
      exact hs
    · rename_i e q' evs' heq
      rw [heq] at hs
      exact hs

/-- what a request leaves unread is part of what it was given -/
theorem outer_rest_sub (cfg : Cfg) (bridge : Option Hdr) (h : Hdr) (r : Nat) (q : List Frame) (evs : List RxEvent)
    (n : Nat) : ∀ x ∈ framesOf (outer cfg bridge h r q evs n).rest, x ∈ framesOf evs := by
  induction r generalizing q evs n with
  | zero => exact fun x hx => hx
  | succ r ih =>
    have hs := inner_rest_sub cfg bridge h (innerBudget cfg) q evs
    simp only [outer]
    split
    · rename_i g q' evs' heq
      rw [heq] at hs
      exact hs
    · rename_i q' evs' heq
      rw [heq] at hs
      exact hs
    · rename_i e q' evs' heq
      rw [heq] at hs
      exact hs
    · rename_i evs' heq
      rw [heq] at hs
      exact fun x hx => hs x (ih [] evs' (n + 1) x hx)

/-! ### where a CompletionCodeError can come from (repaired recognition)

Only `decode_bridged_message` raises one, and the repaired loop calls it only for a frame that passed
`rx_filter` against the Send Message request of the transaction in hand. -/

theorem plain_no_cc (cs : Bool) (h : Hdr) (f : Frame) (c : Nat) : plain cs h f ≠ .err (.ccError c) := by
  unfold plain
  split
  · intro hx; injection hx with hx; cases hx
  · split <;> (intro hx; cases hx)

theorem classify_cc {cs : Bool} {bridge : Option Hdr} {h : Hdr} {f : Frame} {c : Nat}
    (hc : classify false cs bridge h f = .err (.ccError c)) : ∃ bh, bridge = some bh ∧ rxFilter cs bh f = true := by
  unfold classify at hc
  simp only [Bool.false_eq_true, if_false] at hc
  cases bridge with
  | none => exact absurd hc (plain_no_cc cs h f c)
  | some bh =>
    simp only at hc
    split at hc
    · injection hc with hc; cases hc
    · split at hc
      · rename_i hf
        exact ⟨bh, rfl, hf⟩
      · exact absurd hc (plain_no_cc cs h f c)

theorem recvIpmi_no_cc {cfg : Cfg} {ev : RxEvent} {c : Nat} : recvIpmi cfg ev ≠ .err (.ccError c) := by
  cases ev with
  | timeout => simp [recvIpmi]
  | malformed => simp [recvIpmi]
  | badLen bs =>
    simp only [recvIpmi]
    split
    · split <;> simp
    · simp
  | frame bs =>
    simp only [recvIpmi]
    split <;> simp

/-- the frame on which the socket part of the loop body aborted with a completion code -/
theorem nextSock_cc (cfg : Cfg) (hco : cfg.cmdOnly = false) (bridge : Option Hdr) (h : Hdr) (evs : List RxEvent)
    (c : Nat) (q : List Frame) (rest : List RxEvent)
    (hx : nextSock cfg bridge h evs = .abort (.ccError c) q rest) :
    ∃ bh, bridge = some bh ∧ ∃ f ∈ framesOf evs, rxFilter cfg.checkSeq bh f = true := by
  induction evs with
  | nil => simp [nextSock] at hx
  | cons ev more ih =>
    simp only [nextSock] at hx
    split at hx
    · cases hx
    · rename_i e hr
      injection hx with hx
      subst hx
      exact absurd hr recvIpmi_no_cc
    · rename_i f hr
      have hf : f ∈ framesOf (ev :: more) := framesOf_cons_mem (recvIpmi_got hr)
      split at hx
      · obtain ⟨bh, hb, g, hg, hflt⟩ := ih hx
        refine ⟨bh, hb, g, ?_, hflt⟩
        cases ev <;> simp [framesOf, hg]
      · rename_i e hc
        injection hx with hx
        subst hx
        rw [hco] at hc
        obtain ⟨bh, hb, hflt⟩ := classify_cc hc
        exact ⟨bh, hb, f, hf, hflt⟩
      · cases hx
      · cases hx

theorem inner_cc (cfg : Cfg) (hco : cfg.cmdOnly = false) (hq : cfg.requeue = false) (bridge : Option Hdr) (h : Hdr)
    (b : Nat) (evs : List RxEvent) :
    (∀ c q rest, inner cfg bridge h b [] evs = .abort (.ccError c) q rest →
      ∃ bh, bridge = some bh ∧ ∃ f ∈ framesOf evs, rxFilter cfg.checkSeq bh f = true) ∧
    (∀ rest, inner cfg bridge h b [] evs = .timeout rest → ∀ x ∈ framesOf rest, x ∈ framesOf evs) := by
  induction b generalizing evs with
  | zero => simp [inner]
  | succ b ih =>
    have hsub := nextSock_rest_sub cfg bridge h evs
    have hqe := nextSock_qOf cfg bridge h evs
    simp only [inner, nextQ]
    cases hnx : nextSock cfg bridge h evs with
    | counted g isHit q' evs' =>
      rw [hnx] at hsub hqe
      simp only [Next.restOf, Next.qOf] at hsub hqe
      subst hqe
      cases isHit with
      | true => simp
      | false =>
        simp only [hq, Bool.false_eq_true, if_false]
        obtain ⟨ih1, ih2⟩ := ih evs'
        refine ⟨fun c q rest hx => ?_, fun rest hx x hxm => hsub x (ih2 rest hx x hxm)⟩
        obtain ⟨bh, hb, f, hf, hflt⟩ := ih1 c q rest hx
        exact ⟨bh, hb, f, hsub f hf, hflt⟩
    | timeout evs' =>
      rw [hnx] at hsub
      simp only [Next.restOf] at hsub
      refine ⟨fun c q rest hx => (by cases hx), fun rest hx => ?_⟩
      injection hx with hx
      subst hx
      exact hsub
    | abort e q' evs' =>
      refine ⟨fun c q rest hx => ?_, fun rest hx => (by cases hx)⟩
      injection hx with h1 h2 h3
      subst h1
      exact nextSock_cc cfg hco bridge h evs c q' evs' hnx

theorem outer_cc (cfg : Cfg) (hco : cfg.cmdOnly = false) (hq : cfg.requeue = false) (bridge : Option Hdr) (h : Hdr)
    (r : Nat) (evs : List RxEvent) (n : Nat) (c : Nat)
    (hx : (outer cfg bridge h r [] evs n).out = .ccError c) :
    ∃ bh, bridge = some bh ∧ ∃ f ∈ framesOf evs, rxFilter cfg.checkSeq bh f = true := by
  induction r generalizing evs n with
  | zero => simp [outer] at hx
  | succ r ih =>
    obtain ⟨h1, h2⟩ := inner_cc cfg hco hq bridge h (innerBudget cfg) evs
    simp only [outer] at hx
    split at hx
    · cases hx
    · cases hx
    · rename_i e q' evs' heq
      simp only at hx
      subst hx
      exact h1 c q' evs' heq
    · rename_i evs' heq
      obtain ⟨bh, hb, f, hf, hflt⟩ := ih evs' (n + 1) hx
      exact ⟨bh, hb, f, h2 evs' heq f hf, hflt⟩

/-! ### ipmb-dev / Aardvark -/

theorem i2cFrame_hit {h : Hdr} {f g : Frame} (hn : h.netfn % 2 = 0) (hc : i2cFrame h f = .hit g) :
    g = f ∧ isReplyTo true h.rid f := by
  unfold i2cFrame at hc
  split at hc
  · cases hc
  · rename_i hl
    split at hc
    · rename_i hf
      injection hc with hc
      exact ⟨hc.symm, (rxFilter_iff true h f hn (by omega)).1 hf⟩
    · cases hc

theorem i2cFrame_err {h : Hdr} {f : Frame} {e : Outcome Frame} (hc : i2cFrame h f = .err e) :
    ∀ d, e ≠ .ok d := by
  intro d hd
  subst hd
  unfold i2cFrame at hc
  split at hc
  · cases hc
  · split at hc <;> cases hc

def I2cRecvOk (h : Hdr) (S : List Frame) : I2cRecv → Prop
  | .got f rest => f ∈ S ∧ isReplyTo true h.rid f ∧ (∀ x ∈ i2cFramesOf rest, x ∈ S)
  | .timeout rest => ∀ x ∈ i2cFramesOf rest, x ∈ S
  | .ioError rest => ∀ x ∈ i2cFramesOf rest, x ∈ S
  | .abort e rest => (∀ d, e ≠ .ok d) ∧ (∀ x ∈ i2cFramesOf rest, x ∈ S)

theorem i2cFramesOf_tail {S : List Frame} {ev : I2cEvent} {evs : List I2cEvent}
    (h : ∀ x ∈ i2cFramesOf (ev :: evs), x ∈ S) : ∀ x ∈ i2cFramesOf evs, x ∈ S := by
  intro x hx
  apply h
  cases ev <;> simp [i2cFramesOf, hx]

theorem recvRaw_ok (cfg : I2cCfg) (h : Hdr) (hn : h.netfn % 2 = 0) (S : List Frame) (el : Nat)
    (evs : List I2cEvent) (hs : ∀ x ∈ i2cFramesOf evs, x ∈ S) :
    I2cRecvOk h S (recvRaw cfg h el evs) := by
  induction evs generalizing el with
  | nil => simp [recvRaw, I2cRecvOk, i2cFramesOf]
  | cons ev rest ih =>
    have ht := i2cFramesOf_tail hs
    simp only [recvRaw]
    split
    · exact hs
    · cases ev with
      | idle => exact ht
      | rdError dt => exact ht
      | badLen dt bs =>
        have hb : bs ∈ S := hs bs (by simp [i2cFramesOf])
        simp only
        split
        · exact ⟨(by intro d hd; cases hd), ht⟩
        · split
          · rename_i g hc
            have := i2cFrame_hit hn hc
            exact ⟨this.1 ▸ hb, this.1 ▸ this.2, ht⟩
          · exact ih _ ht
          · exact ih _ ht
          · rename_i e hc
            exact ⟨i2cFrame_err hc, ht⟩
      | frame dt bs =>
        have hb : bs ∈ S := hs bs (by simp [i2cFramesOf])
        simp only
        split
        · rename_i g hc
          have := i2cFrame_hit hn hc
          exact ⟨this.1 ▸ hb, this.1 ▸ this.2, ht⟩
        · exact ih _ ht
        · exact ih _ ht
        · rename_i e hc
          exact ⟨i2cFrame_err hc, ht⟩

theorem i2cAttempts_ok (cfg : I2cCfg) (h : Hdr) (hn : h.netfn % 2 = 0) (S : List Frame) (n : Nat)
    (evs : List I2cEvent) (s : Nat) (hs : ∀ x ∈ i2cFramesOf evs, x ∈ S) (d : Frame)
    (hd : (i2cAttempts cfg h n evs s).out = .ok d) :
    ∃ f ∈ S, isReplyTo true h.rid f ∧ d = replyData f := by
  induction n generalizing evs s with
  | zero => simp [i2cAttempts] at hd
  | succ n ih =>
    simp only [i2cAttempts] at hd
    have hr := recvRaw_ok cfg h hn S 0 evs hs
    split at hd
    · rename_i f rest heq
      rw [heq] at hr
      injection hd with hd
      exact ⟨f, hr.1, hr.2.1, by rw [← hd, pySlice_eq_replyData]⟩
    · rename_i rest heq
      rw [heq] at hr
      exact ih rest (s + 1) hr hd
    · rename_i rest heq
      rw [heq] at hr
      exact ih rest (s + 1) hr hd
    · rename_i e rest heq
      rw [heq] at hr
      exact absurd hd (hr.1 d)

/-! ### helpers for the session and sequence-number theorems -/

theorem sound_bind {st : Bool} {A B S : List Frame} {x : Frame} (h : Sound st (A ++ B) x)
    (ha : ∀ y ∈ A, Sound st S y) (hb : ∀ y ∈ B, y ∈ S) : Sound st S x := by
  obtain ⟨dg, hd, hc⟩ := h
  rcases List.mem_append.mp hd with hd | hd
  · exact (ha dg hd).step hc
  · exact ⟨dg, hb dg hd, hc⟩

theorem outer_sends (cfg : Cfg) (bridge : Option Hdr) (h : Hdr) (r : Nat) (q : List Frame) (evs : List RxEvent)
    (n : Nat) : n ≤ (outer cfg bridge h r q evs n).sends ∧ (0 < r → n < (outer cfg bridge h r q evs n).sends) := by
  induction r generalizing q evs n with
  | zero => simp [outer]
  | succ r ih =>
    simp only [outer]
    split
    · simp
    · simp
    · simp
    · rename_i evs' _
      have := (ih [] evs' (n + 1)).1
      exact ⟨by omega, fun _ => by omega⟩

theorem byte4_encodeIpmbMsg (h : Hdr) (p : List Nat) :
    byte (encodeIpmbMsg h p) 4 = h.seq <<< 2 ||| h.rqLun := by
  simp [byte, encodeIpmbMsg, Hdr.encode]

theorem byte4_txData (cfg : Cfg) (req : Req) (seq : Nat) : byte (txData cfg req seq) 4 / 4 = seq := by
  have key : ∀ s : Nat, (s <<< 2 ||| 0) / 4 = s := by
    intro s; rw [Nat.or_zero, Nat.shiftLeft_eq]; omega
  unfold txData
  split
  · rw [byte4_encodeIpmbMsg]; exact key seq
  · unfold encodeBridged
    cases req.routing.dropLast with
    | nil => simp only [List.foldr_nil]; rw [byte4_encodeIpmbMsg]; exact key seq
    | cons b bs =>
      simp only [List.foldr_cons, encodeSendMessage]
      rw [byte4_encodeIpmbMsg]; exact key seq

theorem i2cAttempts_sends (cfg : I2cCfg) (h : Hdr) (n : Nat) (evs : List I2cEvent) (s : Nat) :
    s ≤ (i2cAttempts cfg h n evs s).sends := by
  induction n generalizing evs s with
  | zero => simp [i2cAttempts]
  | succ n ih =>
    simp only [i2cAttempts]
    split
    · simp
    · rename_i rest _
      have := ih rest (s + 1); omega
    · rename_i rest _
      have := ih rest (s + 1); omega
    · simp

end PyIpmi.Loops

namespace PyIpmi.Loops

/-! ### the guard of the ipmb-dev / Aardvark transports (fixes/C09-2.diff) -/

theorem i2cRefuses_iff (cfg : I2cCfg) (routing : List Hop) :
    i2cRefuses cfg routing = true ↔ cfg.refuseRouted = true ∧ 1 < routing.length := by
  simp [i2cRefuses]

theorem i2cRequest_refused (cfg : I2cCfg) (nextSeq : Nat) (req : Req) (evs : List I2cEvent)
    (hr : i2cRefuses cfg req.routing = true) : i2cRequest cfg nextSeq req evs = i2cRefused nextSeq evs := by
  simp [i2cRequest, hr]

theorem i2cRequest_not_refused (cfg : I2cCfg) (nextSeq : Nat) (req : Req) (evs : List I2cEvent)
    (hr : i2cRefuses cfg req.routing = false) :
    i2cRequest cfg nextSeq req evs =
      { nextSeq := i2cIncSeq nextSeq,
        out := (i2cAttempts cfg (mkHdr cfg.slaveAddr req (i2cIncSeq nextSeq)) cfg.attempts evs 0).out,
        tx := List.replicate (i2cAttempts cfg (mkHdr cfg.slaveAddr req (i2cIncSeq nextSeq)) cfg.attempts evs 0).sends
          (encodeIpmbMsg (mkHdr cfg.slaveAddr req (i2cIncSeq nextSeq)) req.payload),
        rest := (i2cAttempts cfg (mkHdr cfg.slaveAddr req (i2cIncSeq nextSeq)) cfg.attempts evs 0).rest } := by
  simp [i2cRequest, hr]

theorem i2cProbe_refused (cfg : I2cCfg) (inc : Bool) (nextSeq rsSa : Nat) (evs : List I2cEvent) (routing : List Hop)
    (hr : i2cRefuses cfg routing = true) : i2cProbe cfg inc nextSeq rsSa evs routing = i2cRefused nextSeq evs := by
  simp [i2cProbe, hr]

end PyIpmi.Loops
