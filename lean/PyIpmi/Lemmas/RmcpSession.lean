/-
  Lemmas for C06: the model client of `Model/Session.lean` against the reference BMC of
  `Spec/BmcSession.lean` — IPMB framing round trips, what the BMC sees of each client
  datagram, what the client reads of each BMC reply.
-/
import PyIpmi.Props.C05
import PyIpmi.Model.Session
import PyIpmi.Spec.BmcSession
namespace PyIpmi.Session
open PyIpmi PyIpmi.RmcpWire PyIpmi.Gen.RmcpFormats PyIpmi.Spec.Lan PyIpmi.Spec.BmcSession PyIpmi.Props.C05

theorem checksum_sum (l : List Nat) : (l.sum + checksum l) % 256 = 0 := by
  unfold checksum; omega

theorem checksum_closed (l : List Nat) (c : Nat) (h : (l.sum + c) % 256 = 0) : checksum (l ++ [c]) = 0 := by
  unfold checksum
  simp only [List.sum_append, List.sum_cons, List.sum_nil]
  omega

theorem chk_eq (l : List Nat) : chk l = checksum l := rfl

/-- the IPMI request the BMC sees for header `h` -/
def reqOf (h : ReqHdr) (data : List Nat) : IpmiReq :=
  ⟨h.rsSa, h.netfn, h.rsLun, h.rqSa, h.rqSeq, h.rqLun, h.cmd, data⟩

theorem parseIpmiReq_encode (h : ReqHdr) (data : List Nat) (hl1 : h.rsLun < 4) (hl2 : h.rqLun < 4) :
    parseIpmiReq (ipmbEncode h data) =
      some (reqOf h data) := by
  have e : ipmbEncode h data =
      h.rsSa :: (h.netfn * 4 + h.rsLun) :: checksum [h.rsSa, h.netfn * 4 + h.rsLun] :: h.rqSa ::
        (h.rqSeq * 4 + h.rqLun) :: h.cmd :: (data ++ [checksum ([h.rqSa, h.rqSeq * 4 + h.rqLun, h.cmd] ++ data)]) := by
    simp [ipmbEncode]
  rw [e]
  have c1 := checksum_sum [h.rsSa, h.netfn * 4 + h.rsLun]
  have c2 := checksum_sum ([h.rqSa, h.rqSeq * 4 + h.rqLun, h.cmd] ++ data)
  simp only [List.sum_cons, List.sum_nil, List.cons_append, List.nil_append] at c1 c2
  simp only [parseIpmiReq, List.getLast?_concat, List.dropLast_concat]
  have d1 : (h.netfn * 4 + h.rsLun) / 4 = h.netfn := by omega
  have d2 : (h.netfn * 4 + h.rsLun) % 4 = h.rsLun := by omega
  have d3 : (h.rqSeq * 4 + h.rqLun) / 4 = h.rqSeq := by omega
  have d4 : (h.rqSeq * 4 + h.rqLun) % 4 = h.rqLun := by omega
  have e1 : (h.rsSa + (h.netfn * 4 + h.rsLun) + checksum [h.rsSa, h.netfn * 4 + h.rsLun]) % 256 = 0 := by omega
  have e2 : (h.rqSa + (h.rqSeq * 4 + h.rqLun) + h.cmd + data.sum +
      checksum (h.rqSa :: (h.rqSeq * 4 + h.rqLun) :: h.cmd :: data)) % 256 = 0 := by omega
  simp [e1, e2, d1, d2, d3, d4, reqOf]

theorem rxFilter_rsp (h : ReqHdr) (d0 : List Nat) (cc : Nat) (data : List Nat)
    (hnf : h.netfn = 6) (hl1 : h.rsLun < 4) (hl2 : h.rqLun < 4) :
    rxFilter h (ipmiRsp (reqOf h d0) cc data) = true := by
  have e : ipmiRsp (reqOf h d0) cc data =
      h.rqSa :: ((h.netfn + 1) * 4 + h.rqLun) :: chk [h.rqSa, (h.netfn + 1) * 4 + h.rqLun] :: h.rsSa ::
        (h.rqSeq * 4 + h.rsLun) :: h.cmd :: cc :: (data ++ [chk ([h.rsSa, h.rqSeq * 4 + h.rsLun, h.cmd, cc] ++ data)]) := by
    simp [ipmiRsp, reqOf]
  rw [e]
  have c1 : checksum [h.rqSa, (h.netfn + 1) * 4 + h.rqLun, chk [h.rqSa, (h.netfn + 1) * 4 + h.rqLun]] = 0 :=
    checksum_closed [h.rqSa, (h.netfn + 1) * 4 + h.rqLun] _ (checksum_sum _)
  have c2 : checksum (h.rsSa :: (h.rqSeq * 4 + h.rsLun) :: h.cmd :: cc ::
      (data ++ [chk ([h.rsSa, h.rqSeq * 4 + h.rsLun, h.cmd, cc] ++ data)])) = 0 := by
    have := checksum_closed ([h.rsSa, h.rqSeq * 4 + h.rsLun, h.cmd, cc] ++ data) _ (checksum_sum _)
    simpa [chk_eq] using this
  have d1 : ((h.netfn + 1) * 4 + h.rqLun) / 4 = 7 := by omega
  have d3 : (h.rqSeq * 4 + h.rsLun) / 4 = h.rqSeq := by omega
  have d4 : (h.rqSeq * 4 + h.rsLun) % 4 = h.rsLun := by omega
  rw [hnf] at c1 d1
  simp only [List.cons_append, List.nil_append, Nat.reduceAdd, Nat.reduceMul] at c1 c2 d1
  simp [rxFilter, hnf, c1, c2, d1, d3, d4]

theorem expectedCode_props (md5 : List Nat → List Nat) (hmd5 : ∀ x, (md5 x).length = 16)
    (a : Nat) (pw : List Nat) (sid seq : Nat) (payload : List Nat)
    (ha : a = 0 ∨ a = 4 ∨ a = 2) (hpw : pw.length ≤ 16) :
    ∃ code, expectedCode md5 a pw sid seq payload = some code ∧ (a = 0 ↔ code = none) ∧
      ∀ c, code = some c → c.length = 16 := by
  rcases ha with h | h | h <;> subst h
  · exact ⟨none, by simp [expectedCode, Spec.Lan.authNone], by simp, by simp⟩
  · refine ⟨some (pad16 pw), by simp [expectedCode, Spec.Lan.authNone, Spec.Lan.authPassword], by simp, ?_⟩
    intro c hc; cases hc; exact pad16_length pw hpw
  · refine ⟨some (md5 (md5Preimage pw sid seq payload)),
      by simp [expectedCode, Spec.Lan.authNone, Spec.Lan.authPassword, Spec.Lan.authMd5], by simp, ?_⟩
    intro c hc; cases hc; exact hmd5 _

theorem lanPacket_eq (md5 : List Nat → List Nat) (a : Nat) (pw : List Nat) (sid seq : Nat)
    (payload : List Nat) (code : Option (List Nat))
    (hc : expectedCode md5 a pw sid seq payload = some code) :
    lanPacket md5 a pw sid seq payload =
      [6, 0, 0xff, 7, a] ++ leBytes 4 seq ++ leBytes 4 sid ++ codeBytes code ++ [payload.length] ++ payload := by
  unfold lanPacket
  rw [hc]
  cases code <;> simp [codeBytes]

theorem receive_lanPacket (md5 : List Nat → List Nat) (hmd5 : ∀ x, (md5 x).length = 16)
    (v : EmptyRx) (ignore : Bool) (a : Nat) (pw : List Nat) (sid seq : Nat) (payload : List Nat)
    (ha : a = 0 ∨ a = 4 ∨ a = 2) (hpw : pw.length ≤ 16) (hsid : sid < 4294967296)
    (hseq : seq < 4294967296) (hne : payload ≠ []) :
    receiveIpmi v ignore (lanPacket md5 a pw sid seq payload) = .ok (some payload) := by
  obtain ⟨code, h1, h2, h3⟩ := expectedCode_props md5 hmd5 a pw sid seq payload ha hpw
  rw [lanPacket_eq md5 a pw sid seq payload code h1]
  have hp := parseLan_packet 6 0 0xff 7 a seq sid payload.length code payload hsid hseq h2 h3
  have h := receive_spec v ignore
    ([6, 0, 0xff, 7, a] ++ leBytes 4 seq ++ leBytes 4 sid ++ codeBytes code ++ [payload.length] ++ payload)
  simp only [Spec.Lan.receive, hp] at h
  simp at h
  simp [h, delivered, hne]

theorem rxStep_reply (md5 : List Nat → List Nat) (hmd5 : ∀ x, (md5 x).length = 16) (cfg : Cfg)
    (h : ReqHdr) (d0 : List Nat) (a : Nat) (pw : List Nat) (sid seq cc : Nat) (data : List Nat)
    (ha : a = 0 ∨ a = 4 ∨ a = 2) (hpw : pw.length ≤ 16) (hsid : sid < 4294967296)
    (hseq : seq < 4294967296) (hnf : h.netfn = 6) (hl1 : h.rsLun < 4) (hl2 : h.rqLun < 4)
    (hcmd : h.cmd ≠ cmdSendMessage) :
    rxStep cfg h (some (lanPacket md5 a pw sid seq (ipmiRsp (reqOf h d0) cc data))) = .ok (cc :: data) := by
  have hne : ipmiRsp (reqOf h d0) cc data ≠ [] := by simp [ipmiRsp]
  have hr := receive_lanPacket md5 hmd5 cfg.emptyRx cfg.ignoreLen a pw sid seq _ ha hpw hsid hseq hne
  have hf := rxFilter_rsp h d0 cc data hnf hl1 hl2
  simp only [rxStep, hr, Outcome.bind_eq, Outcome.bind_ok, hf]
  have e : ipmiRsp (reqOf h d0) cc data =
      h.rqSa :: ((h.netfn + 1) * 4 + h.rqLun) :: chk [h.rqSa, (h.netfn + 1) * 4 + h.rqLun] :: h.rsSa ::
        (h.rqSeq * 4 + h.rsLun) :: h.cmd :: ((cc :: data) ++ [chk ([h.rsSa, h.rqSeq * 4 + h.rsLun, h.cmd, cc] ++ data)]) := by
    simp [ipmiRsp, reqOf]
  rw [e]
  simp [hcmd]
  exact List.dropLast_concat (l₁ := cc :: data)

theorem ipmbEncode_length (h : ReqHdr) (data : List Nat) : (ipmbEncode h data).length = data.length + 7 := by
  simp [ipmbEncode]

/-- BMC side of one exchange, once the datagram is known to parse -/
theorem step_parsed (md5 : List Nat → List Nat) (b : BmcCfg) (st : BmcState) (d : List Nat)
    (p : LanPacket) (rq : IpmiReq) (hs : st.phase ≠ .start) (hc : st.phase ≠ .closed)
    (hp : parseLan d = some p) (hv : p.ver = 6) (hcl : p.cls = 7) (hl : p.len = p.payload.length)
    (hrq : parseIpmiReq p.payload = some rq) (hb : rq.rsAddr = bmcAddr) :
    step md5 b st d = handle md5 b st p rq := by
  cases hph : st.phase <;> simp_all [step]


end PyIpmi.Session
