/-
  Lemmas for C06: the choice of the authentication type (`get_max_auth_type`, model
  `chooseAuth` over the GENERATED preference tuple and capability-bit table) against the
  specification's "strongest type that is offered and implemented".
-/
import PyIpmi.Model.Session
import PyIpmi.Spec.BmcSession
namespace PyIpmi.Session
open PyIpmi PyIpmi.RmcpWire PyIpmi.Gen.RmcpFormats PyIpmi.Spec.BmcSession

/-- the authentication types `IpmiMsg.pack` implements (generated from its dispatch) -/
def implemented : List Nat := packAuth.map Prod.fst

/-- the implemented types in the specification's order of strength, strongest first -/
def implOrder : List Nat := strengthOrder.filter (fun a => implemented.contains a)

theorem implOrder_eq : implOrder = [2, 4, 0] := by decide

theorem implemented_iff (a : Nat) : a ∈ implemented ↔ (a = 0 ∨ a = 4 ∨ a = 2) := by
  simp [implemented, packAuth]

theorem testBit_mod64 (caps i : Nat) (h : i < 6) : (caps % 64).testBit i = caps.testBit i := by
  show (caps % 2 ^ 6).testBit i = caps.testBit i
  rw [Nat.testBit_mod_two_pow]
  simp [h]

/-- the model's reading of the capability byte is the specification's -/
theorem hasAuth_offered (caps a : Nat) (h : a = 0 ∨ a = 1 ∨ a = 2 ∨ a = 4 ∨ a = 5) :
    hasAuth (caps % 64) a = offered caps a := by
  rcases h with h | h | h | h | h <;> subst h <;>
    simp [hasAuth, capBit, capsBits, offered, testBit_mod64]

/-- `get_max_auth_type` walks its preference tuple exactly like `strongest` walks a list -/
theorem chooseAuth_eq_strongest (caps : Nat) (l : List Nat)
    (hl : ∀ a ∈ l, a = 0 ∨ a = 1 ∨ a = 2 ∨ a = 4 ∨ a = 5) :
    chooseAuth l (caps % 64) = strongest caps l := by
  induction l with
  | nil => rfl
  | cons a r ih =>
    have ha := hasAuth_offered caps a (hl a (List.mem_cons_self))
    have ih' := ih (fun x hx => hl x (List.mem_cons_of_mem _ hx))
    simp only [chooseAuth] at ih' ⊢
    simp only [List.find?, strongest, ha]
    cases offered caps a <;> simp [ih']

theorem strongest_append (caps : Nat) (l1 l2 : List Nat) :
    strongest caps (l1 ++ l2) = match strongest caps l1 with
      | some a => some a
      | none => strongest caps l2 := by
  induction l1 with
  | nil => rfl
  | cons a r ih =>
    simp only [List.cons_append, strongest]
    cases offered caps a <;> simp [ih]

theorem strongest_mem (caps : Nat) (l : List Nat) (a : Nat) (h : strongest caps l = some a) :
    a ∈ l ∧ offered caps a = true := by
  induction l with
  | nil => simp [strongest] at h
  | cons x r ih =>
    simp only [strongest] at h
    cases hx : offered caps x
    · simp [hx] at h
      exact ⟨List.mem_cons_of_mem _ (ih h).1, (ih h).2⟩
    · simp [hx] at h
      subst h
      exact ⟨List.mem_cons_self, hx⟩

/-- the generated preference tuple is: the implemented types, strongest first, then the rest -/
theorem authPreference_split : authPreference = implOrder ++ [1, 5] := by decide

/-- the choice made by the generated `get_max_auth_type`, for every capability byte -/
theorem chooseAuth_generated (caps : Nat) :
    chooseAuth authPreference (caps % 64) = match strongest caps implOrder with
      | some a => some a
      | none => strongest caps [1, 5] := by
  rw [chooseAuth_eq_strongest caps authPreference (by decide), authPreference_split, strongest_append]

/-- when the BMC offers a type the library implements, the generated `get_max_auth_type` picks
the strongest such type -/
theorem chosen_of_common (caps : Nat)
    (h : offered caps 2 = true ∨ offered caps 4 = true ∨ offered caps 0 = true) :
    ∃ a, strongest caps implOrder = some a ∧ (a = 0 ∨ a = 4 ∨ a = 2) ∧ offered caps a = true ∧
      chooseAuth authPreference (caps % 64) = some a := by
  have hg := chooseAuth_generated caps
  rw [implOrder_eq] at hg ⊢
  cases h2 : offered caps 2
  · cases h4 : offered caps 4
    · cases h0 : offered caps 0
      · simp [h2, h4, h0] at h
      · exact ⟨0, by simp [strongest, h2, h4, h0], Or.inl rfl, h0, by rw [hg]; simp [strongest, h2, h4, h0]⟩
    · exact ⟨4, by simp [strongest, h2, h4], Or.inr (Or.inl rfl), h4, by rw [hg]; simp [strongest, h2, h4]⟩
  · exact ⟨2, by simp [strongest, h2], Or.inr (Or.inr rfl), h2, by rw [hg]; simp [strongest, h2]⟩

end PyIpmi.Session
