/-
  helper.get_sdr_chunk_helper / get_sdr_data_helper under any fault set (C08).

  * `sdrChunk_ms`        busy/timeout retry + reservation renewal, any fault set
  * `SdrServed`          what is assumed of the chunk reader on the fault-free device: a read
                         that stays inside the record returns exactly those bytes and one fixed
                         next-record id
  * `sdrLoop_dich`, `sdrLoop_mono`   fault-free: RetryError or the record; more iterations /
                         longer requests / more bytes already read never turn success into failure
  * `sdrDataLoop_ms`     the data loop (request-size back-off 20 → 16 → … on CAh), any fault set
  * `sdrData_ms`         get_sdr_data_helper: reservation, header, data loop
  * `sdrChunkOp_pure`, `sdrChunkOp_ms`   `_get_sdr_chunk` / `_get_device_sdr_chunk` instantiate the above
-/
import PyIpmi.Lemmas.ProgMulti
import PyIpmi.Lemmas.ProgHandlers
namespace PyIpmi.Prog
open PyIpmi.Spec.FaultDevice

/-! ### helper.get_sdr_chunk_helper, any fault set -/
section chunk
variable (cs : ChunkCodes) (reserve : Prog Nat) (setRes : Nat → Req → Req) (base : Req → Rsp)

theorem sdrChunk_ms (Φ : (Nat → Option Nat) → Prop) (hfs : MultiSafeOn Φ base reserve)
    (res : Nat) (hres : ∀ n, outcome reserve (pureDev base) n = .ok res)
    (req : Req) (hfix : setRes res req = req) (m : Nat) :
    MultiSafeOn Φ base (sdrChunk cs reserve setRes m req) := by
  induction m with
  | zero => rw [sdrChunk]; exact ms_fail Φ base _
  | succ m ih =>
    intro φ hφ hΦ n
    rw [outcome_sdrChunk_succ, outcome_sdrChunk_succ, faultsDev_fst, pureDev_snd, pureDev_fst]
    -- the rest of the budget, fault-free: RetryError or the same as with one more send
    have hbud : ∀ k, outcome (sdrChunk cs reserve setRes m req) (pureDev base) k = .error .retryError ∨
        outcome (sdrChunk cs reserve setRes m req) (pureDev base) k =
          outcome (chunkStep cs reserve setRes (sdrChunk cs reserve setRes m) req (base req))
            (pureDev base) (n + 1) := by
      intro k
      rcases sdrChunk_budget cs reserve setRes base res hres req hfix m k with h | h
      · exact Or.inl h
      · right
        rw [h, outcome_sdrChunk_succ, pureDev_snd, pureDev_fst]
        exact outcome_pure_indep base _ _ _
    have hrest : ∀ k, SafeAny (Inj φ)
        (outcome (chunkStep cs reserve setRes (sdrChunk cs reserve setRes m) req (base req))
          (pureDev base) (n + 1))
        (outcome (sdrChunk cs reserve setRes m req) (faultsDev base φ) k) := by
      intro k
      rcases ih φ hφ hΦ k with ⟨c, hc, h⟩ | h | h | h
      · exact Or.inl ⟨c, hc, h⟩
      · exact Or.inr (Or.inl h)
      · exact Or.inr (Or.inr (Or.inl h))
      · rcases hbud k with hb | hb
        · rw [h, hb]; exact safeAny_retry _ _
        · rw [h, hb]; exact safeAny_same _ _
    cases hn : φ n with
    | some c =>
      rw [faultsDev_snd_some _ _ _ _ _ hn]
      have hc := hφ n c hn
      simp only [chunkStep]
      rw [if_neg hc]
      by_cases h1 : c = cs.resCanceled
      · rw [if_pos h1]
        rcases hfs φ hφ hΦ (n + 1) with ⟨c', hc', h⟩ | h | h | h
        · rw [outcome_bind_error h]; exact safeAny_inj _ _ c' hc'
        · rw [outcome_bind_error h]; exact safeAny_retry _ _
        · rw [outcome_bind_error h]; exact safeAny_hpm _ _
        · rw [hres] at h
          rw [outcome_bind_ok h, hfix]
          exact hrest _
      · rw [if_neg h1]
        by_cases h2 : c = cs.timeout ∨ c = cs.notProvided
        · rw [if_pos h2]; exact hrest _
        · rw [if_neg h2]; exact safeAny_inj _ _ c ⟨n, hn⟩
    | none =>
      rw [faultsDev_snd_none _ _ _ _ hn]
      have hK : MultiSafeOn Φ base
          (chunkStep cs reserve setRes (sdrChunk cs reserve setRes m) req (base req)) := by
        unfold chunkStep
        split
        · exact ms_done Φ base _
        · split
          · refine ms_bind Φ base _ _ hfs (fun a ha => ?_)
            obtain ⟨n', hn'⟩ := ha
            rw [hres n'] at hn'
            cases hn'
            rw [hfix]; exact ih
          · split
            · exact ih
            · exact ms_fail Φ base _
      exact hK φ hφ hΦ (n + 1)

end chunk

/-! ### helper.get_sdr_data_helper: the data loop -/
section data
variable (cfg : SdrCfg) (chunk : Nat → Nat → Prog (Nat × List Nat)) (L : Nat) (base : Req → Rsp)
  (rec : List Nat) (nx : Nat)

/-- On the fault-free device a read of `len` bytes at `off` inside the record returns exactly
those bytes (none for `len = 0`) and the next-record id `nx`. -/
def SdrServed : Prop :=
  rec.length = L ∧
  ∀ off len n, off + len ≤ L →
    outcome (chunk off len) (pureDev base) n = .ok (nx, (rec.drop off).take len)

theorem sdrLen_le (off m : Nat) (h : off ≤ L) : off + sdrLen L off m ≤ L := by
  unfold sdrLen; split <;> omega

theorem sdrLen_pos (off m : Nat) (h : off < L) (hm : 1 ≤ m) : 1 ≤ sdrLen L off m := by
  unfold sdrLen; split <;> omega

theorem take_length_of_le (off : Nat) (hrec : rec.length = L) (h : off ≤ L) : (rec.take off).length = off := by
  rw [List.length_take, hrec]; omega

theorem take_append_slice (off len : Nat) : rec.take off ++ (rec.drop off).take len = rec.take (off + len) := by
  rw [List.take_add]

/-- The loop state whose collected bytes are the first `off` bytes of the record. -/
abbrev sdrLP (n m off : Nat) : Prog (Nat × List Nat) := sdrDataLoop cfg chunk L n m (rec.take off)

/-- One iteration, on any device. -/
theorem sdrLP_succ {σ : Type} (d : Dev σ) (s : σ) (n m off : Nat) (hrec : rec.length = L) (hoff : off ≤ L) :
    outcome (sdrLP cfg chunk L rec (n + 1) m off) d s =
      outcome ((chunk off (sdrLen L off m)).tryCc.bind
        (sdrDataStep cfg L (sdrDataLoop cfg chunk L n) m (rec.take off))) d s := by
  show outcome (sdrDataLoop cfg chunk L (n + 1) m (rec.take off)) d s = _
  rw [sdrDataLoop, take_length_of_le L rec off hrec hoff]

theorem sdrDataStep_ok (self : Nat → List Nat → Prog (Nat × List Nat)) (m : Nat) (acc : List Nat)
    (v : Nat × List Nat) :
    sdrDataStep cfg L self m acc (.ok v) =
      if L ≤ (acc ++ v.2).length then .done (v.1, acc ++ v.2) else self m (acc ++ v.2) := rfl

theorem sdrDataStep_error (self : Nat → List Nat → Prog (Nat × List Nat)) (m : Nat) (acc : List Nat)
    (c : Nat) :
    sdrDataStep cfg L self m acc (.error c) = sdrCaught cfg (fun m' => self m' acc) m c := rfl

/-- One fault-free iteration. -/
theorem sdrLP_good_succ (hdev : SdrServed chunk L base rec nx) (n m off : Nat) (hoff : off ≤ L) :
    good base (sdrLP cfg chunk L rec (n + 1) m off) =
      if L ≤ off + sdrLen L off m then .ok (nx, rec)
      else good base (sdrLP cfg chunk L rec n m (off + sdrLen L off m)) := by
  obtain ⟨hrec, hserve⟩ := hdev
  have hle := sdrLen_le L off m hoff
  unfold good
  rw [sdrLP_succ cfg chunk L rec _ _ n m off hrec hoff, outcome_try_bind_ok (hserve off _ 0 hle),
    sdrDataStep_ok]
  simp only
  rw [take_append_slice, take_length_of_le L rec _ hrec hle]
  by_cases hd : L ≤ off + sdrLen L off m
  · rw [if_pos hd, if_pos hd]
    have : rec.take (off + sdrLen L off m) = rec := List.take_of_length_le (by omega)
    rw [this]; rfl
  · rw [if_neg hd, if_neg hd]
    exact outcome_pure_indep base _ _ _

theorem sdrLP_good_zero (m off : Nat) : good base (sdrLP cfg chunk L rec 0 m off) = .error .retryError := rfl

/-- Fault-free, the loop ends in RetryError or returns the record. -/
theorem sdrLoop_dich (hdev : SdrServed chunk L base rec nx) (n m off : Nat) (hoff : off ≤ L) :
    good base (sdrLP cfg chunk L rec n m off) = .error .retryError ∨
      good base (sdrLP cfg chunk L rec n m off) = .ok (nx, rec) := by
  induction n generalizing off with
  | zero => left; rfl
  | succ n ih =>
    rw [sdrLP_good_succ cfg chunk L base rec nx hdev n m off hoff]
    split
    · right; rfl
    · exact ih _ (sdrLen_le L off m hoff)

/-- More iterations, longer requests and more bytes already collected never turn a fault-free
success into a failure. -/
theorem sdrLoop_mono (hdev : SdrServed chunk L base rec nx) (n' n m' m off' off : Nat)
    (v : Nat × List Nat) (hn : n' ≤ n) (hm : m' ≤ m) (ho : off' ≤ off) (hoff : off ≤ L)
    (h : good base (sdrLP cfg chunk L rec n' m' off') = .ok v) :
    good base (sdrLP cfg chunk L rec n m off) = .ok v := by
  induction n' generalizing n off' off with
  | zero => rw [sdrLP_good_zero] at h; cases h
  | succ n' ih =>
    obtain ⟨n0, rfl⟩ : ∃ n0, n = n0 + 1 := ⟨n - 1, by omega⟩
    have hoff' : off' ≤ L := by omega
    rw [sdrLP_good_succ cfg chunk L base rec nx hdev n' m' off' hoff'] at h
    rw [sdrLP_good_succ cfg chunk L base rec nx hdev n0 m off hoff]
    have hstep : off' + sdrLen L off' m' ≤ off + sdrLen L off m := by
      unfold sdrLen; split <;> split <;> omega
    by_cases hd' : L ≤ off' + sdrLen L off' m'
    · rw [if_pos hd'] at h
      rw [if_pos (by omega)]
      exact h
    · rw [if_neg hd'] at h
      by_cases hd : L ≤ off + sdrLen L off m
      · rw [if_pos hd]
        rcases sdrLoop_dich cfg chunk L base rec nx hdev n' m' _ (sdrLen_le L off' m' hoff') with e | e
        · rw [e] at h; cases h
        · rw [e] at h; exact h
      · rw [if_neg hd]
        exact ih n0 _ _ (by omega) hstep (sdrLen_le L off m hoff) h

/-- The data loop under any fault set: error carrying an injected code, RetryError, or the
fault-free outcome -- from every loop state. -/
theorem sdrDataLoop_ms (Φ : (Nat → Option Nat) → Prop) (hdev : SdrServed chunk L base rec nx)
    (hsafe : ∀ off len, MultiSafeOn Φ base (chunk off len))
    (n m off : Nat) (hoff : off ≤ L) :
    MultiSafeOn Φ base (sdrLP cfg chunk L rec n m off) := by
  intro φ hφ hΦ k
  rw [outcome_pure_good]
  induction n generalizing m off k with
  | zero => exact safeAny_same _ _
  | succ n ih =>
    have hrec := hdev.1
    have hle := sdrLen_le L off m hoff
    rw [sdrLP_succ cfg chunk L rec _ _ n m off hrec hoff]
    have hpure := hdev.2 off (sdrLen L off m) k hle
    rcases hsafe off (sdrLen L off m) φ hφ hΦ k with ⟨c, hc, h⟩ | h | h | h
    · rw [outcome_try_bind_cc h, sdrDataStep_error]
      simp only [sdrCaught]
      by_cases hs : c = cfg.shrink
      · rw [if_pos hs]
        by_cases hm : m ≤ cfg.dec
        · rw [if_pos hm]; exact safeAny_retry _ _
        · rw [if_neg hm]
          rcases ih (m - cfg.dec) off hoff _ with ⟨c', hc', e⟩ | e | e | e
          · exact Or.inl ⟨c', hc', e⟩
          · exact Or.inr (Or.inl e)
          · exact Or.inr (Or.inr (Or.inl e))
          · rcases sdrLoop_dich cfg chunk L base rec nx hdev n (m - cfg.dec) off hoff with g | g
            · rw [e, g]; exact safeAny_retry _ _
            · rw [e, g, sdrLoop_mono cfg chunk L base rec nx hdev n (n + 1) (m - cfg.dec) m off off _
                (by omega) (by omega) (Nat.le_refl _) hoff g]
              exact safeAny_same _ _
      · rw [if_neg hs]; exact safeAny_inj _ _ c hc
    · rw [outcome_try_bind_err h (fun c => by simp)]; exact safeAny_retry _ _
    · rw [outcome_try_bind_err h (fun c => by simp)]; exact safeAny_hpm _ _
    · rw [hpure] at h
      rw [outcome_try_bind_ok h, sdrLP_good_succ cfg chunk L base rec nx hdev n m off hoff, sdrDataStep_ok]
      simp only
      rw [take_append_slice, take_length_of_le L rec _ hrec hle]
      by_cases hd : L ≤ off + sdrLen L off m
      · rw [if_pos hd, if_pos hd]
        have : rec.take (off + sdrLen L off m) = rec := List.take_of_length_le (by omega)
        rw [this]
        exact safeAny_same _ _
      · rw [if_neg hd, if_neg hd]
        exact ih m _ hle _

end data

/-! ### get_sdr_data_helper -/
section sdrdata
variable (cfg : SdrCfg) (reserve : Prog Nat) (chunk : Nat → Nat → Nat → Nat → Prog (Nat × List Nat))
  (hdr : List Nat → Res (Nat × Nat)) (base : Req → Rsp)

/-- get_sdr_data_helper under any fault set.  `res` is the reservation in use (handed out by
`reserve`, or given), `rid'`/`L` the record id and length found in the header. -/
theorem sdrData_ms (Φ : (Nat → Option Nat) → Prop) (resOpt : Option Nat) (rid res rid' L nx0 nx : Nat)
    (rec : List Nat)
    (hreserve : MultiSafeOn Φ base reserve)
    (hres : ∀ n r, outcome (sdrReservation reserve resOpt) (pureDev base) n = .ok r → r = res)
    (hsafe0 : MultiSafeOn Φ base (chunk res rid 0 cfg.hdrLen))
    (hhead : ∀ n, outcome (chunk res rid 0 cfg.hdrLen) (pureDev base) n = .ok (nx0, rec.take cfg.hdrLen))
    (hparse : hdr (rec.take cfg.hdrLen) = .ok (rid', L))
    (hlen : cfg.hdrLen ≤ L)
    (hdev : SdrServed (chunk res rid') L base rec nx)
    (hsafe : ∀ off len, MultiSafeOn Φ base (chunk res rid' off len)) :
    MultiSafeOn Φ base (sdrData cfg reserve chunk hdr resOpt rid) := by
  unfold sdrData
  refine ms_bind Φ base _ _ ?_ (fun r hr => ?_)
  · cases resOpt
    · exact hreserve
    · exact ms_done Φ base _
  obtain ⟨n, hn⟩ := hr
  rw [hres n r hn]
  refine ms_bind Φ base _ _ hsafe0 (fun h hh => ?_)
  obtain ⟨n1, hn1⟩ := hh
  rw [hhead n1] at hn1
  cases hn1
  refine ms_bind Φ base _ _ (ms_ofRes Φ base _) (fun x hx => ?_)
  obtain ⟨n2, hn2⟩ := hx
  rw [outcome_ofRes, hparse] at hn2
  cases hn2
  exact sdrDataLoop_ms cfg (chunk res rid') L base rec nx Φ hdev hsafe _ _ cfg.hdrLen hlen

end sdrdata

/-! ### _get_sdr_chunk / _get_device_sdr_chunk -/
section chunkop
variable (cs : ChunkCodes) (reserve : Prog Nat) (setRes : Nat → Req → Req) (budget : Nat)
  (mk : Nat → Nat → Nat → Nat → Req) (nextOf : Rsp → Nat) (pay : Rsp → List Nat) (base : Req → Rsp)

theorem sdrChunkOp_pure (res rid off len n : Nat) (hb : 1 ≤ budget)
    (h0 : (base (mk res rid off len)).cc = 0) :
    outcome (sdrChunkOp cs reserve setRes budget mk nextOf pay res rid off len) (pureDev base) n =
      .ok (nextOf (base (mk res rid off len)), pay (base (mk res rid off len))) := by
  obtain ⟨b, rfl⟩ : ∃ b, budget = b + 1 := ⟨budget - 1, by omega⟩
  unfold sdrChunkOp
  have : outcome (sdrChunk cs reserve setRes (b + 1) (mk res rid off len)) (pureDev base) n =
      .ok (base (mk res rid off len)) := by
    rw [outcome_sdrChunk_succ, pureDev_snd]
    simp only [chunkStep]
    rw [if_pos h0]; rfl
  rw [outcome_bind_ok this]; rfl

theorem sdrChunkOp_ms (Φ : (Nat → Option Nat) → Prop) (hfs : MultiSafeOn Φ base reserve)
    (res : Nat) (hres : ∀ n, outcome reserve (pureDev base) n = .ok res)
    (rid off len : Nat) (hfix : setRes res (mk res rid off len) = mk res rid off len) :
    MultiSafeOn Φ base (sdrChunkOp cs reserve setRes budget mk nextOf pay res rid off len) := by
  unfold sdrChunkOp
  exact ms_bind Φ base _ _ (sdrChunk_ms cs reserve setRes base Φ hfs res hres _ hfix budget)
    (fun _ _ => ms_done Φ base _)

end chunkop

/-- What is assumed of the device for one SDR: with the reservation `res`, the header read of
record `rid` and every read of the record `rid'` named in the header that stays inside it are
answered OK with exactly those bytes. -/
def SdrStorage (cfg : SdrCfg) (mk : Nat → Nat → Nat → Nat → Req) (nextOf : Rsp → Nat)
    (pay : Rsp → List Nat) (base : Req → Rsp) (res rid rid' nx0 nx : Nat) (rec : List Nat) : Prop :=
  ((base (mk res rid 0 cfg.hdrLen)).cc = 0 ∧ nextOf (base (mk res rid 0 cfg.hdrLen)) = nx0 ∧
      pay (base (mk res rid 0 cfg.hdrLen)) = rec.take cfg.hdrLen) ∧
  ∀ off len, off + len ≤ rec.length →
    (base (mk res rid' off len)).cc = 0 ∧ nextOf (base (mk res rid' off len)) = nx ∧
      pay (base (mk res rid' off len)) = (rec.drop off).take len

section storage
variable (cfg : SdrCfg) (cs : ChunkCodes) (reserve : Prog Nat) (setRes : Nat → Req → Req) (budget : Nat)
  (mk : Nat → Nat → Nat → Nat → Req) (nextOf : Rsp → Nat) (pay : Rsp → List Nat) (base : Req → Rsp)

theorem sdrStorage_head (res rid rid' nx0 nx : Nat) (rec : List Nat) (hb : 1 ≤ budget)
    (hdev : SdrStorage cfg mk nextOf pay base res rid rid' nx0 nx rec) (n : Nat) :
    outcome (sdrChunkOp cs reserve setRes budget mk nextOf pay res rid 0 cfg.hdrLen) (pureDev base) n =
      .ok (nx0, rec.take cfg.hdrLen) := by
  obtain ⟨⟨h0, h1, h2⟩, _⟩ := hdev
  rw [sdrChunkOp_pure cs reserve setRes budget mk nextOf pay base res rid 0 cfg.hdrLen n hb h0, h1, h2]

theorem sdrStorage_served (res rid rid' nx0 nx : Nat) (rec : List Nat) (hb : 1 ≤ budget)
    (hdev : SdrStorage cfg mk nextOf pay base res rid rid' nx0 nx rec) :
    SdrServed (sdrChunkOp cs reserve setRes budget mk nextOf pay res rid') rec.length base rec nx := by
  refine ⟨rfl, fun off len n hle => ?_⟩
  obtain ⟨s0, s1, s2⟩ := hdev.2 off len hle
  rw [sdrChunkOp_pure cs reserve setRes budget mk nextOf pay base res rid' off len n hb s0, s1, s2]

end storage

/-- Fault-free, get_sdr_data_helper ends in RetryError (a record too long for its iteration
budget) or returns the stored record and the next-record id. -/
theorem sdrData_good (cfg : SdrCfg) (reserve : Prog Nat)
    (chunk : Nat → Nat → Nat → Nat → Prog (Nat × List Nat)) (hdr : List Nat → Res (Nat × Nat))
    (base : Req → Rsp) (resOpt : Option Nat) (rid res rid' L nx0 nx : Nat) (rec : List Nat)
    (hres : ∀ n, outcome (sdrReservation reserve resOpt) (pureDev base) n = .ok res)
    (hhead : ∀ n, outcome (chunk res rid 0 cfg.hdrLen) (pureDev base) n = .ok (nx0, rec.take cfg.hdrLen))
    (hparse : hdr (rec.take cfg.hdrLen) = .ok (rid', L)) (hlen : cfg.hdrLen ≤ L)
    (hdev : SdrServed (chunk res rid') L base rec nx) (n : Nat) :
    outcome (sdrData cfg reserve chunk hdr resOpt rid) (pureDev base) n = .error .retryError ∨
      outcome (sdrData cfg reserve chunk hdr resOpt rid) (pureDev base) n = .ok (nx, rec) := by
  unfold sdrData
  rw [outcome_bind_ok (hres n), outcome_bind_ok (hhead _)]
  have hp : ∀ k, outcome (Prog.ofRes (hdr (rec.take cfg.hdrLen))) (pureDev base) k = .ok (rid', L) := by
    intro k; rw [outcome_ofRes, hparse]
  rw [outcome_bind_ok (hp _), outcome_pure_good]
  exact sdrLoop_dich cfg (chunk res rid') L base rec nx hdev _ _ cfg.hdrLen hlen

end PyIpmi.Prog
