/-
  C14 — every step of every thread preserves the invariant.
-/
import PyIpmi.Lemmas.ThreadsTear
namespace PyIpmi.Threads
open PyIpmi.Spec.Threads

theorem seqNext_succ (a : Nat) : seqNext a (a + 1) = true := by
  simp [seqNext]

theorem seqNext_wrap : seqNext 0xffffffff 1 = true := by decide

theorem inLock_nextPc (th : Thr) (ok : Bool) : inLock (nextPc th ok) = false := by
  simp only [nextPc]
  cases th.kind <;> simp only [] <;> (repeat' split) <;> rfl

/-- A step of a thread that is outside the lock block and stays there, touching nothing the wire
invariant speaks about. -/
theorem inv_outside {s s' : Sys} {t : Nat} {th th' : Thr} (hi : Inv s) (hget : s.thr[t]? = some th)
    (hlock : s'.lock = s.lock) (hwire : s'.wire = s.wire) (hq : s'.q = s.q) (hsock : s'.sock = s.sock)
    (hserial : s'.serial = s.serial) (hpar : s'.par = s.par) (hthr : s'.thr = s.thr.set t th')
    (hss : s'.sessSeq = s.sessSeq)
    (hpc : inLock th.pc = false) (hpc' : inLock th'.pc = false) (hres : th'.results = th.results) : Inv s' := by
  have hown := hi.owner t th hget
  rw [hpc] at hown
  have hnl : s.lock ≠ some t := fun h => by simp [h] at hown
  exact inv_local hi hget hlock hwire hq hsock hserial hpar hthr (by rw [hpc, hpc']) hres
    (fun hl => absurd hl hnl) (fun _ => hss)

theorem stepThr_inv {s s' : Sys} {t : Nat} {th : Thr} (hi : Inv s) (ht : Tear s) (hget : s.thr[t]? = some th)
    (h : stepThr s t th = some s') : Inv s' := by
  have hown := hi.owner t th hget
  cases hpc : th.pc with
  | kaWait =>
    simp only [stepThr, hpc] at h
    split at h
    · simp at h; subst h
      exact inv_outside hi hget rfl rfl rfl rfl rfl rfl rfl rfl (by rw [hpc]; rfl) rfl rfl
    · split at h
      · cases h
      · simp at h; subst h
        exact inv_outside hi hget rfl rfl rfl rfl rfl rfl rfl rfl (by rw [hpc]; rfl) rfl rfl
  | await =>
    simp only [stepThr, hpc] at h
    split at h
    · simp at h; subst h
      refine inv_outside hi hget rfl rfl rfl rfl rfl rfl rfl rfl (by rw [hpc]; rfl) ?_ ?_
      · split <;> rfl
      · split <;> rfl
    · cases h
  | stopSet =>
    simp [stepThr, hpc] at h; subst h
    refine inv_outside hi hget rfl rfl rfl rfl rfl rfl rfl rfl (by rw [hpc]; rfl) ?_ ?_
    · split <;> rfl
    · split <;> rfl
  | joinKa =>
    simp only [stepThr, hpc] at h
    split at h
    · simp at h; subst h
      exact inv_outside hi hget rfl rfl rfl rfl rfl rfl rfl rfl (by rw [hpc]; rfl) rfl rfl
    · cases h
  | chkAct =>
    simp [stepThr, hpc] at h; subst h
    refine inv_outside hi hget rfl rfl rfl rfl rfl rfl rfl rfl (by rw [hpc]; rfl) ?_ ?_
    · split <;> rfl
    · split <;> rfl
  | actStore =>
    simp [stepThr, hpc] at h; subst h
    exact inv_outside hi hget rfl rfl rfl rfl rfl rfl rfl rfl (by rw [hpc]; rfl) rfl rfl
  | actLoad =>
    have hact : s.activated = true := by
      cases ha : s.activated with
      | true => rfl
      | false => have := ht.deact ha t th hget; rw [hpc] at this; cases this
    simp [stepThr, hpc, hact] at h; subst h
    rw [hpc] at hown; simp [inLock] at hown
    have hh := hi.holder t th hget hown
    simp [HolderInv, hpc] at hh
    refine inv_local hi hget rfl rfl rfl rfl rfl rfl rfl ?_ rfl ?_ ?_
    · simp [inLock, hpc]
    · intro _; simp [HolderInv, Sys.upd]; exact hh
    · intro hl; exact absurd hown hl
  | idle =>
    rw [hpc] at hown; simp [inLock] at hown
    cases hsl : s.seqLocked with
    | false =>
      simp [stepThr, hpc, hsl] at h; subst h
      refine inv_local hi hget rfl rfl rfl rfl rfl rfl rfl ?_ rfl ?_ ?_
      · simp [inLock, hpc]
      · intro hl; exact absurd hl hown
      · intro _; rfl
    | true =>
      -- the repaired source takes the lock first
      cases hl : s.lock with
      | some x => simp [stepThr, hpc, hsl, hl] at h
      | none =>
        simp [stepThr, hpc, hsl, hl] at h; subst h
        have hf := hi.free hl
        constructor
        · intro t' b hb
          rcases get_set_cases hget hb with ⟨rfl, rfl⟩ | ⟨hne, hb⟩
          · simp [inLock, Sys.upd]
          · have := hi.owner _ _ hb
            rw [hl] at this
            simp [Sys.upd, this]
            exact fun h => hne h.symm
        · intro t' hl'
          simp [Sys.upd] at hl'
          subst hl'
          exact ⟨_, get_set_self hget⟩
        · exact hi.exch
        · exact hi.incr
        · exact hi.after
        · exact hi.ntx
        · exact hi.q
        · intro h; simp [Sys.upd] at h
        · intro t' b hb hl'
          simp [Sys.upd] at hl'
          subst hl'
          have hb' : (s.thr.set t { th with pc := PC.lkLoad })[t]? = some b := hb
          rw [get_set_self hget] at hb'
          injection hb' with hb'
          subst hb'
          simp [HolderInv, Sys.upd]
          exact hf
        · intro t' b hb r hr
          rcases get_set_cases hget hb with ⟨rfl, rfl⟩ | ⟨hne, hb⟩
          · exact hi.res _ _ hget r hr
          · exact hi.res _ _ hb r hr
        · exact hi.repack
  | lkLoad =>
    simp [stepThr, hpc] at h; subst h
    rw [hpc] at hown; simp [inLock] at hown
    have hh := hi.holder t th hget hown
    simp [HolderInv, hpc] at hh
    refine inv_local hi hget rfl rfl rfl rfl rfl rfl rfl ?_ rfl ?_ ?_
    · simp [inLock, hpc]
    · intro _; simp [HolderInv, Sys.upd]; exact hh
    · intro hl; exact absurd hown hl
  | lkStore =>
    simp [stepThr, hpc] at h; subst h
    rw [hpc] at hown; simp [inLock] at hown
    have hh := hi.holder t th hget hown
    simp [HolderInv, hpc] at hh
    refine inv_local hi hget rfl rfl rfl rfl rfl rfl rfl ?_ rfl ?_ ?_
    · simp [inLock, hpc]
    · intro _; simp [HolderInv, Sys.upd]; exact hh
    · intro hl; exact absurd hown hl
  | lkHdr =>
    simp [stepThr, hpc] at h; subst h
    rw [hpc] at hown; simp [inLock] at hown
    have hh := hi.holder t th hget hown
    simp [HolderInv, hpc] at hh
    refine inv_local hi hget rfl rfl rfl rfl rfl rfl rfl ?_ rfl ?_ ?_
    · simp [inLock, hpc]
    · intro _; simp [HolderInv, Sys.upd]; exact hh
    · intro hl; exact absurd hown hl
  | incStore =>
    simp [stepThr, hpc] at h; subst h
    rw [hpc] at hown; simp [inLock] at hown
    refine inv_local hi hget rfl rfl rfl rfl rfl rfl rfl ?_ rfl ?_ ?_
    · simp [inLock, hpc]
    · intro hl; exact absurd hl hown
    · intro _; rfl
  | hdrLoad =>
    simp [stepThr, hpc] at h; subst h
    rw [hpc] at hown; simp [inLock] at hown
    refine inv_local hi hget rfl rfl rfl rfl rfl rfl rfl ?_ rfl ?_ ?_
    · simp [inLock, hpc]
    · intro hl; exact absurd hl hown
    · intro _; rfl
  | acquire =>
    rw [hpc] at hown; simp [inLock] at hown
    cases hl : s.lock with
    | some x => simp [stepThr, hpc, hl] at h
    | none =>
      simp [stepThr, hpc, hl] at h; subst h
      have hf := hi.free hl
      constructor
      · intro t' b hb
        rcases get_set_cases hget hb with ⟨rfl, rfl⟩ | ⟨hne, hb⟩
        · simp [inLock, Sys.upd]
        · have := hi.owner _ _ hb
          rw [hl] at this
          simp [Sys.upd, this]
          exact fun h => hne h.symm
      · intro t' hl'
        simp [Sys.upd] at hl'
        subst hl'
        exact ⟨_, get_set_self hget⟩
      · exact hi.exch
      · exact hi.incr
      · exact hi.after
      · exact hi.ntx
      · exact hi.q
      · intro h; simp [Sys.upd] at h
      · intro t' b hb hl'
        simp [Sys.upd] at hl'
        subst hl'
        have hb' : (s.thr.set t { th with pc := PC.actLoad })[t]? = some b := hb
        rw [get_set_self hget] at hb'
        injection hb' with hb'
        subst hb'
        simp [HolderInv, Sys.upd]
        exact hf
      · intro t' b hb r hr
        rcases get_set_cases hget hb with ⟨rfl, rfl⟩ | ⟨hne, hb⟩
        · exact hi.res _ _ hget r hr
        · exact hi.res _ _ hb r hr
      · exact hi.repack
  | ssLoad =>
    simp [stepThr, hpc] at h; subst h
    rw [hpc] at hown; simp [inLock] at hown
    have hh := hi.holder t th hget hown
    simp [HolderInv, hpc] at hh
    refine inv_local hi hget rfl rfl rfl rfl rfl rfl rfl ?_ rfl ?_ ?_
    · simp [inLock, hpc]
    · intro _; simp [HolderInv, Sys.upd]; exact hh
    · intro hl; exact absurd hown hl
  | ssStore =>
    simp [stepThr, hpc] at h; subst h
    rw [hpc] at hown; simp [inLock] at hown
    have hh := hi.holder t th hget hown
    simp [HolderInv, hpc] at hh
    obtain ⟨h1, h2, h3, h4, h5⟩ := hh
    refine inv_local hi hget rfl rfl rfl rfl rfl rfl rfl ?_ rfl ?_ ?_
    · simp [inLock, hpc]
    · intro _
      simp [HolderInv, Sys.upd]
      refine ⟨h1, h2, ?_, by omega⟩
      intro a ha; rw [h3 a ha, h5]
    · intro hl; exact absurd hown hl
  | ssChk =>
    simp [stepThr, hpc] at h; subst h
    rw [hpc] at hown; simp [inLock] at hown
    have hh := hi.holder t th hget hown
    simp [HolderInv, hpc] at hh
    obtain ⟨h1, h2, h3, h4⟩ := hh
    refine inv_local hi hget rfl rfl rfl rfl rfl rfl rfl ?_ rfl ?_ ?_
    · simp only [hpc]; split <;> simp [inLock]
    · intro _
      by_cases hw : s.sessSeq > 0xffffffff
      · simp [HolderInv, hw]
        refine ⟨h1, h2, ?_⟩
        intro a ha; have := h3 a ha; omega
      · simp [HolderInv, Sys.upd, hw]
        refine ⟨h1, h2, ?_, by omega⟩
        intro a ha
        have := h3 a ha
        rw [← this]
        exact seqNext_succ a
    · intro hl; exact absurd hown hl
  | ssWrap =>
    simp [stepThr, hpc] at h; subst h
    rw [hpc] at hown; simp [inLock] at hown
    have hh := hi.holder t th hget hown
    simp [HolderInv, hpc] at hh
    obtain ⟨h1, h2, h3⟩ := hh
    refine inv_local hi hget rfl rfl rfl rfl rfl rfl rfl ?_ rfl ?_ ?_
    · simp [inLock, hpc]
    · intro _
      simp [HolderInv, Sys.upd]
      refine ⟨h1, h2, ?_⟩
      intro a ha; rw [h3 a ha]; exact seqNext_wrap
    · intro hl; exact absurd hown hl
  | ssHdr k =>
    rw [hpc] at hown; simp [inLock] at hown
    have hh := hi.holder t th hget hown
    simp [HolderInv, hpc] at hh
    obtain ⟨h1, h2, h3, h4⟩ := hh
    cases k with
    | zero =>
      simp [stepThr, hpc] at h; subst h
      refine inv_local hi hget rfl rfl rfl rfl rfl rfl rfl ?_ rfl ?_ ?_
      · simp [inLock, hpc]
      · intro _; simp [HolderInv, Sys.upd]; exact ⟨h1, h2, h3, h4⟩
      · intro hl; exact absurd hown hl
    | succ k =>
      simp [stepThr, hpc] at h; subst h
      refine inv_local hi hget rfl rfl rfl rfl rfl rfl rfl ?_ rfl ?_ ?_
      · simp [inLock, hpc]
      · intro _; simp [HolderInv, Sys.upd]; exact ⟨h1, h2, h3, h4⟩
      · intro hl; exact absurd hown hl
  | send =>
    simp [stepThr, hpc] at h; subst h
    rw [hpc] at hown; simp [inLock] at hown
    have hh := hi.holder t th hget hown
    simp [HolderInv, hpc] at hh
    obtain ⟨h1, h2, h3, h4, h5⟩ := hh
    have hnc : (monOf s.wire).closed = true → th.cmd = closeCmd ∧ (monOf s.wire).closedBy = some t := by
      intro hcl
      rcases ht.closed hcl _ _ hget with h | ⟨h, h'⟩
      · rw [hpc] at h; cases h
      · exact ⟨ht.cmdClose _ _ hget h (by rw [hpc]; rfl), h'⟩
    refine inv_holder hi hget hown hown rfl rfl ?_ rfl ?_ ?_ ?_ ?_ hi.q ?_ ?_ ?_
    · simp [inLock]
    · simp [Sys.upd, Mon.step, hi.exch, h1, hi.ntx]
    · simp only [Sys.upd, monOf_cons, Mon.step, hi.incr, Bool.true_and]
      cases hlast : (monOf s.wire).last with
      | none => rfl
      | some a => simp only []; rw [h5]; exact h3 a hlast
    · cases hcl : (monOf s.wire).closed with
      | false => simp [Sys.upd, Mon.step, hi.after, hcl]
      | true => simp [Sys.upd, Mon.step, hi.after, hcl, (hnc hcl).1, (hnc hcl).2]
    · simp [Sys.upd, Mon.step, hi.ntx]
    · intro t' n hs; simp [Sys.upd, hs]
    · intro t' n hs; simp [Sys.upd, hs]
    · cases hlost : lostAt s.par.loss s.serial with
      | false => simp [HolderInv, Sys.upd, Mon.step, h2, h4, h5, hlost]
      | true => simp [HolderInv, Sys.upd, Mon.step, h2, h4, h5, hlost]
  | recv =>
    rw [hpc] at hown; simp [inLock] at hown
    have hh := hi.holder t th hget hown
    simp [HolderInv, hpc] at hh
    obtain ⟨h1, h2, h3, h4, h5⟩ := hh
    rcases h2 with h2 | ⟨h2, hlost⟩
    · simp [stepThr, hpc, hi.q, h2] at h; subst h
      refine inv_holder hi hget hown hown rfl rfl ?_ rfl ?_ ?_ ?_ ?_ rfl ?_ ?_ ?_
      · simp [inLock]
      · simp [Sys.upd, Mon.step, hi.exch, h1]
      · simp [Sys.upd, Mon.step, hi.incr]
      · simp [Sys.upd, Mon.step, hi.after]
      · simp [Sys.upd, Mon.step, hi.ntx]
      · intro t' n hs; simp [Sys.upd, hs]
      · intro t' n hs; simp [Sys.upd, hs]
      · simp [HolderInv, Sys.upd, Mon.step, h4, h5]
        exact h3
    · -- the reply was lost: socket.timeout
      simp [stepThr, hpc, hi.q, h2] at h; subst h
      refine inv_holder hi hget hown hown rfl rfl ?_ rfl ?_ ?_ ?_ ?_ rfl ?_ ?_ ?_
      · simp only []; (repeat' split) <;> simp [inLock]
      · simp [Sys.upd, Mon.step, hi.exch, h1]
      · simp [Sys.upd, Mon.step, hi.incr]
      · simp [Sys.upd, Mon.step, hi.after]
      · simp [Sys.upd, Mon.step, hi.ntx]
      · intro t' n hs; simp [Sys.upd, hs]
      · intro t' n hs; simp [Sys.upd, hs]
      · by_cases hb : th.retry + 1 ≤ s.par.maxRetries
        · rcases hi.repack with hp | hp
          · simp [HolderInv, Sys.upd, Mon.step, hb, hp, h4]
            exact h3
          · omega
        · simp [HolderInv, Sys.upd, Mon.step, hb, h4, h5, hlost]
          exact h3
  | requeue =>
    rw [hpc] at hown; simp [inLock] at hown
    have hh := hi.holder t th hget hown
    simp [HolderInv, hpc] at hh
  | release =>
    simp [stepThr, hpc] at h; subst h
    rw [hpc] at hown; simp [inLock] at hown
    have hh := hi.holder t th hget hown
    simp [HolderInv, hpc] at hh
    obtain ⟨h1, h2, h3, h4, h6, hgot⟩ := hh
    constructor
    · intro t' b hb
      rcases get_set_cases hget hb with ⟨rfl, rfl⟩ | ⟨hne, hb⟩
      · simp [afterCall, Sys.upd, inLock_nextPc]
      · have := hi.owner _ _ hb
        rw [hown] at this
        simp [Sys.upd, this]
        exact fun h => hne h.symm
    · intro t' hl'; simp [Sys.upd] at hl'
    · exact hi.exch
    · exact hi.incr
    · exact hi.after
    · exact hi.ntx
    · exact hi.q
    · intro _; exact ⟨h1, h2, h3, h4⟩
    · intro t' b hb hl'; simp [Sys.upd] at hl'
    · intro t' b hb x hx
      rcases get_set_cases hget hb with ⟨rfl, rfl⟩ | ⟨hne, hb⟩
      · rcases hgot with ⟨r, hr1, hr2⟩ | ⟨hr1, hto, hlost⟩
        · simp only [afterCall, hr1, List.mem_cons] at hx
          rcases hx with rfl | hx
          · exact Or.inl ⟨th.mine, by rw [hr2], h6⟩
          · exact hi.res _ _ hget x hx
        · simp only [afterCall, hr1, List.mem_cons] at hx
          rcases hx with rfl | hx
          · exact Or.inr ⟨th.mine, rfl, h6, hto, hlost⟩
          · exact hi.res _ _ hget x hx
      · exact hi.res _ _ hb x hx
    · exact hi.repack
  | done => simp [stepThr, hpc] at h

theorem step_inv {s s' : Sys} {t : Nat} (hi : Inv s) (ht : Tear s) (h : step s t = some s') :
    Inv s' ∧ Tear s' := by
  unfold step at h
  cases hget : s.thr[t]? with
  | none => simp [hget] at h
  | some th => simp [hget] at h; exact ⟨stepThr_inv hi ht hget h, stepThr_tear ht hget h⟩

theorem run_inv {s : Sys} (hi : Inv s) (ht : Tear s) (sched : List Nat) :
    Inv (run s sched) ∧ Tear (run s sched) := by
  induction sched generalizing s with
  | nil => exact ⟨hi, ht⟩
  | cons t rest ih =>
    simp only [run, List.foldl_cons]
    cases hs : step s t with
    | none => exact ih hi ht
    | some s' => exact ih (step_inv hi ht hs).1 (step_inv hi ht hs).2

/-- The threads of the initial configuration: application thread number `t` of the list, or the
keep-alive thread, which comes last. -/
theorem init_get {c : Cfg} {t : Nat} {th : Thr} (h : (init c).thr[t]? = some th) :
    (∃ p, c.threads[t]? = some p ∧ th = initThr c.closer t p) ∨
    (∃ n, c.ka = some n ∧ t = c.threads.length ∧ th = initKa n) := by
  simp only [init, List.getElem?_append, List.length_mapIdx, List.getElem?_mapIdx] at h
  split at h
  · cases hp : c.threads[t]? with
    | none => simp [hp] at h
    | some p => simp [hp] at h; exact Or.inl ⟨p, rfl, h.symm⟩
  · rename_i hlt
    cases hk : c.ka with
    | none => simp [hk] at h
    | some n =>
      simp only [hk] at h
      have : t - c.threads.length = 0 := by
        rcases Nat.eq_zero_or_pos (t - c.threads.length) with h0 | h0
        · exact h0
        · rw [List.getElem?_eq_none (by simp; omega)] at h; cases h
      rw [this] at h
      simp at h
      exact Or.inr ⟨n, rfl, by omega, h.symm⟩

theorem initThr_results (cl : Option Nat) (i : Nat) (p : Nat × Nat) : (initThr cl i p).results = [] := by
  simp only [initThr]; split <;> rfl

theorem initThr_inLock (cl : Option Nat) (i : Nat) (p : Nat × Nat) : inLock (initThr cl i p).pc = false := by
  simp only [initThr]; split <;> simp only [] <;> split <;> rfl

theorem init_inv (c : Cfg) (hs : c.sessSeq ≤ 0xffffffff) (hr : c.packOnce = false ∨ c.maxRetries = 0) :
    Inv (init c) := by
  constructor
  · intro t th hget
    have hl : (init c).lock = none := rfl
    rw [hl]
    rcases init_get hget with ⟨p, _, rfl⟩ | ⟨n, _, _, rfl⟩
    · simp [initThr_inLock]
    · simp [initKa, inLock]
  · intro t h; simp [init] at h
  · rfl
  · rfl
  · rfl
  · rfl
  · rfl
  · intro _; exact ⟨rfl, rfl, by intro a h; simp [init, Mon.init] at h, hs⟩
  · intro t th _ h; simp [init] at h
  · intro t th hget r hr'
    rcases init_get hget with ⟨p, _, rfl⟩ | ⟨n, _, _, rfl⟩
    · rw [initThr_results] at hr'; cases hr'
    · simp [initKa] at hr'
  · exact hr

/-- Configurations the invariants cover: the stopper joins the keep-alive thread — or no
thread closes the session —, Close Session is issued by `close_session` only, and the session wrapper is
packed for every attempt (or `max_retries = 0`: there is no second attempt).  Any retry budget, any loss plan. -/
def Cfg.Safe (c : Cfg) : Prop :=
  (c.join = true ∨ c.closer = none) ∧ (∀ p ∈ c.threads, p.2 ≠ closeCmd) ∧
    (c.packOnce = false ∨ c.maxRetries = 0)

theorem init_tear (c : Cfg) (hc : c.Safe) : Tear (init c) := by
  have hpcs : ∀ (t : Nat) (th : Thr), (init c).thr[t]? = some th →
      th.closing = false ∧ (th.pc = .idle ∨ th.pc = .done ∨ (th.pc = .await ∧ th.kind = .closer) ∨
        (th.pc = .kaWait ∧ th.kind = .keepAlive)) := by
    intro t th hget
    rcases init_get hget with ⟨p, _, rfl⟩ | ⟨n, _, _, rfl⟩
    · simp only [initThr]
      split <;> simp only [] <;> split <;> simp
    · simp [initKa]
  constructor
  · rcases hc.1 with h | h
    · exact Or.inl h
    · refine Or.inr ?_
      intro t th hget
      rcases init_get hget with ⟨p, _, rfl⟩ | ⟨n, _, _, rfl⟩
      · simp [initThr, h]
      · simp [initKa]
  · intro t th hget hp
    rcases (hpcs t th hget).2 with h | h | h | h <;> simp_all
  · intro t th hget hp
    rcases (hpcs t th hget).2 with h | h | h | h <;> simp_all [closerOnly]
  · intro t th hget hp
    rcases (hpcs t th hget).2 with h | h | h | h <;> simp_all [latePc]
  · intro t th hget _
    exact (hpcs t th hget).1
  · intro t th hget hp
    rw [(hpcs t th hget).1] at hp; cases hp
  · intro t th hget _
    rcases init_get hget with ⟨p, hp, rfl⟩ | ⟨n, _, _, rfl⟩
    · have : (initThr c.closer t p).cmd = p.2 := by simp only [initThr]; split <;> rfl
      rw [this]
      exact hc.2.1 p (List.mem_of_getElem? hp)
    · simp [initKa, closeCmd]
  · intro t t' th th' hget hget' k k'
    have key : ∀ (t : Nat) (th : Thr), (init c).thr[t]? = some th → th.kind = .closer → c.closer = some t := by
      intro t th hget k
      rcases init_get hget with ⟨p, _, rfl⟩ | ⟨n, _, _, rfl⟩
      · simp only [initThr] at k
        split at k
        · assumption
        · cases k
      · cases k
    have a := key t th hget k
    have b := key t' th' hget' k'
    rw [a] at b
    injection b
  · intro t th hget hp
    have := hpcs t th hget
    simp only [pastBarrier, this.1, Bool.false_or, Bool.or_eq_true, beq_iff_eq] at hp
    rcases this.2 with h | h | h | h <;> simp_all
  · intro t th hget hp
    rw [(hpcs t th hget).1] at hp; cases hp
  · intro h; cases h
  · intro t th hget hp
    rcases (hpcs t th hget).2 with h | h | h | h <;> simp_all
  · intro h; cases h
  · intro t th hget hp
    rw [(hpcs t th hget).1] at hp; cases hp

theorem mem_resultsFrom {k : Nat} {l : List Thr} {r : Res} (h : r ∈ resultsFrom k l) :
    ∃ i th cr, l[i]? = some th ∧ cr ∈ th.results ∧ r = resOf (k + i) cr := by
  induction l generalizing k with
  | nil => simp [resultsFrom] at h
  | cons th rest ih =>
    simp only [resultsFrom, List.mem_append, List.mem_map] at h
    rcases h with ⟨cr, hcr, rfl⟩ | h
    · exact ⟨0, th, cr, by simp, hcr, by simp⟩
    · obtain ⟨i, th', cr, h1, h2, h3⟩ := ih h
      exact ⟨i + 1, th', cr, by simpa using h1, h2, by rw [h3]; congr 1; omega⟩

/-- The invariant implies that the specification's monitor accepts the wire log and results. -/
theorem inv_accepts {s : Sys} (hi : Inv s) : accepts s.wireChron s.results = true := by
  simp only [accepts, exchangesOk, seqIncreasing, closeLast, Sys.wireChron, ← monOf_eq_monitor, hi.exch, hi.incr,
    hi.after, Bool.true_and, Bool.and_true]
  simp only [ownReply, List.all_eq_true]
  intro r hr
  obtain ⟨i, th, cr, h1, h2, h3⟩ := mem_resultsFrom hr
  rcases hi.res i th h1 cr h2 with ⟨n, hn, hs⟩ | ⟨n, hn, hs, hto, _⟩
  · subst hn
    subst h3
    simp [resOf, sentBy_reverse, hs]
  · subst hn
    subst h3
    simp [resOf, sentBy_reverse, timedOut_reverse, hs, hto]

/-- An accepted trace is a run of the model under the schedule it names. -/
theorem replayFrom_run {i : Nat} {s s' : Sys} {tr : List (Nat × Act)}
    (h : replayFrom i s tr = .ok s') : s' = run s (tr.map (·.1)) := by
  induction tr generalizing i s with
  | nil => simp [replayFrom] at h; simp [run, h]
  | cons x rest ih =>
    obtain ⟨t, a⟩ := x
    simp only [replayFrom] at h
    split at h
    · rename_i a' s1 hl hs
      split at h
      · simp only [run, List.map_cons, List.foldl_cons, hs, Option.getD_some]
        exact ih h
      · cases h
    · cases h

end PyIpmi.Threads
