/-
  Lemmas for C10: what the reference FRU device answers to the model's requests, the read loop
  invariant, chunking, the write loop, and trace ("every request names the FRU") preservation.
-/
import PyIpmi.Model.FruXfer
import PyIpmi.Spec.FruDevice
namespace PyIpmi.FruXfer
open PyIpmi PyIpmi.Spec.Fru

/-! ### side conditions on the loop constants and on the device -/

/-- What the theorems need of the constants extracted from the source. -/
def Cfg.ok (cfg : Cfg) : Bool :=
  decide (1 ≤ cfg.dec) && decide (cfg.dec ≤ 2) && decide (1 ≤ cfg.initReq) && decide (cfg.initReq ≤ 255) &&
    cfg.caught.contains 0xC8 && cfg.caught.contains 0xC9 && cfg.caught.contains 0xCA &&
    decide (1 ≤ cfg.writeLen) && decide (cfg.writeLen ≤ 255)

/-- The device enforces a per-request limit of at least two bytes by rejecting larger reads with
C8h / C9h / CAh (or serves larger reads short, limit at least one). -/
structure DevOk (d : FruDev) : Prop where
  limit1 : 1 ≤ d.limit
  limit2 : d.short = false → 2 ≤ d.limit
  code : d.rejectCc = 0xC8 ∨ d.rejectCc = 0xC9 ∨ d.rejectCc = 0xCA

theorem Cfg.ok_iff (cfg : Cfg) : cfg.ok = true ↔
    (1 ≤ cfg.dec ∧ cfg.dec ≤ 2 ∧ 1 ≤ cfg.initReq ∧ cfg.initReq ≤ 255 ∧
      cfg.caught.contains 0xC8 = true ∧ cfg.caught.contains 0xC9 = true ∧ cfg.caught.contains 0xCA = true ∧
      1 ≤ cfg.writeLen ∧ cfg.writeLen ≤ 255) := by
  simp [Cfg.ok, and_assoc]

theorem caught_of_ok {cfg : Cfg} {d : FruDev} (h : cfg.ok = true) (hd : DevOk d) :
    cfg.caught.contains d.rejectCc = true ∧ d.rejectCc ≠ 0 := by
  rw [Cfg.ok_iff] at h
  obtain ⟨_, _, _, _, h8, h9, ha, _, _⟩ := h
  rcases hd.code with e | e | e <;> rw [e]
  · exact ⟨h8, by decide⟩
  · exact ⟨h9, by decide⟩
  · exact ⟨ha, by decide⟩

/-! ### bytes of a 16-bit offset -/

theorem off_bytes (off : Nat) (h : off < 65536) : off % 256 + 256 * (off / 256 % 256) = off := by
  omega

/-! ### the device's answers -/

theorem respond_info (d : FruDev) (id : Nat) (c : List Nat) (hid : id < 256)
    (hg : d.get id = some c) (h64 : c.length ≤ 65535) :
    respond d (infoReq id).cmd (infoReq id).payload = (d, [0, c.length % 256, c.length / 256 % 256, 0]) := by
  have : id % 256 = id := Nat.mod_eq_of_lt hid
  have hs : infoSize c.length = c.length := by unfold infoSize; split <;> omega
  simp [respond, infoReq, cmdInfo, respondInfo, this, hg, hs]

/-- a device holding more than the 16-bit size field can say reports FFFFh -/
theorem respond_info_64k (d : FruDev) (id : Nat) (c : List Nat) (hid : id < 256)
    (hg : d.get id = some c) (h64 : 65535 ≤ c.length) :
    respond d (infoReq id).cmd (infoReq id).payload = (d, [0, 255, 255, 0]) := by
  have : id % 256 = id := Nat.mod_eq_of_lt hid
  have hs : infoSize c.length = 65535 := by unfold infoSize; split <;> omega
  simp [respond, infoReq, cmdInfo, respondInfo, this, hg, hs]

theorem respond_read (d : FruDev) (id off cnt : Nat) (c : List Nat) (hid : id < 256)
    (hoff : off < 65536) (hc : cnt < 256) (hc0 : 0 < cnt) (hg : d.get id = some c) :
    respond d (readReq id off cnt).cmd (readReq id off cnt).payload =
      if cnt > d.limit ∧ d.short = false then (d, [d.rejectCc])
      else if served d cnt = 0 then (d, [d.rejectCc])
      else if off + served d cnt > c.length then (d, [ccOutOfRange])
      else (d, 0 :: served d cnt :: (c.drop off).take (served d cnt)) := by
  have h1 : id % 256 = id := Nat.mod_eq_of_lt hid
  have h2 : cnt % 256 = cnt := Nat.mod_eq_of_lt hc
  have h3 : cnt ≠ 0 := by omega
  simp [respond, readReq, cmdInfo, cmdRead, respondRead, h1, h2, h3, hg, off_bytes off hoff]

theorem lookup_update_eq (l : List (Nat × List Nat)) (id : Nat) (c new : List Nat)
    (h : lookup l id = some c) : lookup (update l id new) id = some new := by
  induction l with
  | nil => simp [lookup] at h
  | cons p r ih =>
    obtain ⟨i, x⟩ := p
    by_cases e : i = id
    · simp [update, lookup, e]
    · simp [lookup, e] at h
      simp [update, lookup, e, ih h]

theorem lookup_update_ne (l : List (Nat × List Nat)) (id j : Nat) (new : List Nat) (h : j ≠ id) :
    lookup (update l id new) j = lookup l j := by
  induction l with
  | nil => simp [update]
  | cons p r ih =>
    obtain ⟨i, x⟩ := p
    by_cases e : i = id
    · have : ¬ i = j := by omega
      simp [update, lookup, e]
      subst e
      simp [this]
    · by_cases e2 : i = j
      · subst e2
        simp [update, lookup, e]
      · simp [update, lookup, e, e2, ih]

theorem splice_length (c : List Nat) (off : Nat) (data : List Nat) (h : off + data.length ≤ c.length) :
    (splice c off data).length = c.length := by
  simp [splice]; omega

theorem respond_write (d : FruDev) (id off : Nat) (chunk c : List Nat) (hid : id < 256)
    (hoff : off < 65536) (hg : d.get id = some c) (hfit : off + chunk.length ≤ c.length)
    (hw : chunk.length ≤ d.wmax) (h255 : chunk.length < 256) :
    respond d (writeReq id off chunk).cmd (writeReq id off chunk).payload =
      ({ d with frus := update d.frus id (splice c off chunk) }, [0, chunk.length]) := by
  have h1 : id % 256 = id := Nat.mod_eq_of_lt hid
  have h2 : chunk.take d.wmax = chunk := List.take_of_length_le hw
  have h3 : chunk.take (c.length - off) = chunk := List.take_of_length_le (by omega)
  have h4 : ¬ (c.length ≤ off ∧ chunk ≠ []) := by
    intro ⟨a, b⟩
    have : chunk.length ≠ 0 := by
      intro e; exact b (List.eq_nil_of_length_eq_zero e)
    omega
  simp [respond, writeReq, cmdInfo, cmdRead, cmdWrite, respondWrite, h1, hg, off_bytes off hoff, h2, h3, h4,
    Nat.mod_eq_of_lt h255]

/-- What the device acknowledges for a write that starts inside the area, whatever its limits. -/
theorem respond_write_ack (d : FruDev) (id off : Nat) (chunk c : List Nat) (hid : id < 256)
    (hoff : off < 65536) (hg : d.get id = some c) (hin : off < c.length) :
    (respond d (writeReq id off chunk).cmd (writeReq id off chunk).payload).2 =
      [0, ((chunk.take d.wmax).take (c.length - off)).length % 256] := by
  have h1 : id % 256 = id := Nat.mod_eq_of_lt hid
  have h4 : ¬ (c.length ≤ off ∧ chunk ≠ []) := by omega
  simp [respond, writeReq, cmdInfo, cmdRead, cmdWrite, respondWrite, h1, hg, off_bytes off hoff, h4]

/-! ### decoding the device's answers -/

theorem decodeRead_ok (n : Nat) (data : List Nat) (h : data.length = n) :
    decodeReadRsp (0 :: n :: data) = .ok data := by
  simp [decodeReadRsp, h]

theorem decodeRead_cc (c : Nat) (h : c ≠ 0) : decodeReadRsp [c] = .ccError c := by
  simp [decodeReadRsp, h]

/-! ### the read loop against the device -/

theorem take_drop_split (c : List Nat) (off s n : Nat) (hs : s ≤ n) :
    (c.drop off).take s ++ (c.drop (off + s)).take (n - s) = (c.drop off).take n := by
  have : n = s + (n - s) := by omega
  rw [this, List.take_add, ← List.drop_drop]
  simp

/-- Invariant of `read_fru_data`'s loop against a conforming device. -/
theorem readLoop_exact (cfg : Cfg) (hcfg : cfg.ok = true) (d : FruDev) (hd : DevOk d) (id : Nat)
    (c : List Nat) (hid : id < 256) (hg : d.get id = some c) (area : Nat) (ha : area ≤ c.length)
    (h64 : area ≤ 65536) :
    ∀ (fuel : Nat) (w : World FruDev) (off reqSize : Nat) (acc : List Nat),
      w.dev = d → off ≤ area → 1 ≤ reqSize → reqSize ≤ 255 → (area - off) + reqSize + 1 ≤ fuel →
      (readLoop cfg respond fuel w id area off reqSize acc).out = .ok (acc ++ (c.drop off).take (area - off)) ∧
      (readLoop cfg respond fuel w id area off reqSize acc).w.dev = d := by
  obtain ⟨hcaught, hcc0⟩ := caught_of_ok hcfg hd
  rw [Cfg.ok_iff] at hcfg
  obtain ⟨hdec1, hdec2, _, _, _, _, _, _, _⟩ := hcfg
  intro fuel
  induction fuel with
  | zero => intro w off reqSize acc _ _ _ _ hf; omega
  | succ fuel ih =>
    intro w off reqSize acc hw hoff hr1 hr255 hf
    unfold readLoop
    by_cases hlt : off < area
    · simp only [hlt, if_true]
      -- the clamped request size
      generalize hq : (if off + reqSize > area then area - off else reqSize) = q
      have hq1 : 1 ≤ q := by rw [← hq]; split <;> omega
      have hq2 : q ≤ reqSize := by rw [← hq]; split <;> omega
      have hq3 : off + q ≤ area := by rw [← hq]; split <;> omega
      have hresp := respond_read d id off q c hid (by omega) (by omega) (by omega) hg
      simp only [xchg, hw]
      rw [hresp]
      by_cases hrej : q > d.limit ∧ d.short = false
      · -- rejected: shrink and go on
        simp only [hrej, and_self, if_true, decodeRead_cc _ hcc0, hcaught]
        have hl2 := hd.limit2 hrej.2
        have : ¬ q ≤ cfg.dec := by omega
        simp only [this, if_false]
        exact ih _ off (q - cfg.dec) acc rfl hoff (by omega) (by omega) (by omega)
      · have hs1 : 1 ≤ served d q := by
          have := hd.limit1
          unfold served; split <;> omega
        have hs2 : served d q ≤ q := by unfold served; split <;> omega
        have hs0 : ¬ served d q = 0 := by omega
        have hin : ¬ off + served d q > c.length := by omega
        simp only [hrej, if_false, hs0, hin]
        have hlen : ((c.drop off).take (served d q)).length = served d q := by
          simp; omega
        rw [decodeRead_ok _ _ hlen]
        simp only [hlen]
        have := ih ⟨d, w.trace ++ [⟨readReq id off q, 0 :: served d q :: (c.drop off).take (served d q)⟩]⟩
          (off + served d q) q (acc ++ (c.drop off).take (served d q)) rfl (by omega) hq1 (by omega) (by omega)
        rw [List.append_assoc, show area - (off + served d q) = (area - off) - served d q by omega,
          take_drop_split c off (served d q) (area - off) (by omega)] at this
        exact this
    · have : off = area := by omega
      subst this
      simp [hw]

/-- `read_fru_data(offset, count, fru_id)` against a conforming device holding up to a FULL 64 KiB (65536 bytes:
every byte a 16-bit offset can address; the range may end at 10000h). -/
theorem readFruData_exact64 (cfg : Cfg) (hcfg : cfg.ok = true) (d : FruDev) (hd : DevOk d) (id : Nat)
    (c : List Nat) (hid : id < 256) (hg : d.get id = some c) (off cnt : Nat)
    (hr : off + cnt ≤ c.length) (h64 : c.length ≤ 65536) (w : World FruDev) (hw : w.dev = d) :
    (readFruData cfg respond w (some off) cnt id).out = .ok ((c.drop off).take cnt) ∧
    (readFruData cfg respond w (some off) cnt id).w.dev = d := by
  have hc := (Cfg.ok_iff cfg).mp hcfg
  have := readLoop_exact cfg hcfg d hd id c hid hg (off + cnt) hr (by omega)
    (cnt + cfg.initReq + 1) w off cfg.initReq [] hw (by omega) hc.2.2.1 hc.2.2.2.1 (by omega)
  simpa [readFruData] using this

/-- `read_fru_data(offset, count, fru_id)` against a conforming device. -/
theorem readFruData_exact (cfg : Cfg) (hcfg : cfg.ok = true) (d : FruDev) (hd : DevOk d) (id : Nat)
    (c : List Nat) (hid : id < 256) (hg : d.get id = some c) (off cnt : Nat)
    (hr : off + cnt ≤ c.length) (h64 : c.length ≤ 65535) (w : World FruDev) (hw : w.dev = d) :
    (readFruData cfg respond w (some off) cnt id).out = .ok ((c.drop off).take cnt) ∧
    (readFruData cfg respond w (some off) cnt id).w.dev = d :=
  readFruData_exact64 cfg hcfg d hd id c hid hg off cnt hr (by omega) w hw

/-- `read_fru_data_full(fru_id)` against a conforming device. -/
theorem readFruDataFull_exact (cfg : Cfg) (hcfg : cfg.ok = true) (d : FruDev) (hd : DevOk d) (id : Nat)
    (c : List Nat) (hid : id < 256) (hg : d.get id = some c) (h64 : c.length ≤ 65535)
    (w : World FruDev) (hw : w.dev = d) :
    (readFruDataFull cfg respond w id).out = .ok c ∧ (readFruDataFull cfg respond w id).w.dev = d := by
  have hc := (Cfg.ok_iff cfg).mp hcfg
  have hinfo := respond_info d id c hid hg h64
  have hsz : c.length % 256 + 256 * (c.length / 256 % 256) = c.length := off_bytes _ (by omega)
  have := readLoop_exact cfg hcfg d hd id c hid hg c.length (Nat.le_refl _) (by omega)
    (c.length + cfg.initReq + 1)
    ⟨d, w.trace ++ [⟨infoReq id, [0, c.length % 256, c.length / 256 % 256, 0]⟩]⟩ 0 cfg.initReq [] rfl
    (by omega) hc.2.2.1 hc.2.2.2.1 (by omega)
  simp only [readFruDataFull, readFruData, areaInfo, xchg, hw, hinfo, decodeInfoRsp]
  simpa [hsz] using this

/-! ### chunks -/

theorem chunksAux_flatten (n : Nat) (hn : 1 ≤ n) :
    ∀ (fuel : Nat) (data : List Nat), data.length ≤ fuel → (chunksAux n fuel data).flatten = data := by
  intro fuel
  induction fuel with
  | zero =>
    intro data h
    have : data = [] := List.eq_nil_of_length_eq_zero (by omega)
    simp [chunksAux, this]
  | succ fuel ih =>
    intro data h
    by_cases e : data = []
    · simp [chunksAux, e]
    · have hpos : 0 < data.length := List.length_pos_iff.mpr e
      simp only [chunksAux, e, if_false, List.flatten_cons]
      rw [ih (data.drop n) (by simp; omega), List.take_append_drop]

theorem chunksAux_len (n : Nat) :
    ∀ (fuel : Nat) (data : List Nat), ∀ ch ∈ chunksAux n fuel data, ch.length ≤ n := by
  intro fuel
  induction fuel with
  | zero => intro data ch h; simp [chunksAux] at h
  | succ fuel ih =>
    intro data ch h
    by_cases e : data = []
    · simp [chunksAux, e] at h
    · simp only [chunksAux, e, if_false, List.mem_cons] at h
      rcases h with h | h
      · rw [h]; simp; omega
      · exact ih _ ch h

theorem chunksAux_pos (n : Nat) (hn : 1 ≤ n) :
    ∀ (fuel : Nat) (data : List Nat), ∀ ch ∈ chunksAux n fuel data, 1 ≤ ch.length := by
  intro fuel
  induction fuel with
  | zero => intro data ch h; simp [chunksAux] at h
  | succ fuel ih =>
    intro data ch h
    by_cases e : data = []
    · simp [chunksAux, e] at h
    · have hpos : 0 < data.length := List.length_pos_iff.mpr e
      simp only [chunksAux, e, if_false, List.mem_cons] at h
      rcases h with h | h
      · rw [h]; simp; omega
      · exact ih _ ch h

/-- no chunk is empty (so every Write FRU Data request starts at an offset below the end of the data) -/
theorem chunks_pos (n : Nat) (hn : 1 ≤ n) (data : List Nat) : ∀ ch ∈ chunks n data, 1 ≤ ch.length :=
  chunksAux_pos n hn _ _

theorem chunks_flatten (n : Nat) (hn : 1 ≤ n) (data : List Nat) : (chunks n data).flatten = data :=
  chunksAux_flatten n hn _ _ (Nat.le_refl _)

theorem chunks_len (n : Nat) (data : List Nat) : ∀ ch ∈ chunks n data, ch.length ≤ n :=
  chunksAux_len n _ _

/-! ### the write loop against the device -/

theorem splice_nil (c : List Nat) (off : Nat) : splice c off [] = c := by
  simp [splice]

theorem splice_splice (c a b : List Nat) (off : Nat) (h : off + a.length + b.length ≤ c.length) :
    splice (splice c off a) (off + a.length) b = splice c off (a ++ b) := by
  unfold splice
  have e1 : (List.take off c ++ a ++ List.drop (off + a.length) c).take (off + a.length)
      = List.take off c ++ a := by
    rw [List.take_append_of_le_length (by simp; omega)]
    apply List.take_of_length_le; simp; omega
  have e2 : (List.take off c ++ a ++ List.drop (off + a.length) c).drop (off + a.length + b.length)
      = List.drop (off + (a ++ b).length) c := by
    rw [List.drop_append]
    have : (List.take off c ++ a).length = off + a.length := by simp; omega
    rw [this]
    have : List.drop (off + a.length + b.length) (List.take off c ++ a) = [] := by
      apply List.drop_of_length_le; simp; omega
    rw [this]
    simp [List.drop_drop]
    congr 1; omega
  rw [e1, e2]; simp

theorem decodeWrite_ok (n : Nat) : decodeWriteRsp [0, n] = .ok n := by
  simp [decodeWriteRsp]

theorem writeChunks_exact (id : Nat) (hid : id < 256) :
    ∀ (cs : List (List Nat)) (w : World FruDev) (c : List Nat) (off : Nat),
      w.dev.get id = some c → (∀ ch ∈ cs, ch.length ≤ w.dev.wmax ∧ ch.length < 256) →
      off + cs.flatten.length ≤ c.length → c.length ≤ 65535 →
      (writeChunks respond w id off cs).out = .ok () ∧
      (writeChunks respond w id off cs).w.dev.get id = some (splice c off cs.flatten) ∧
      (∀ j, j ≠ id → (writeChunks respond w id off cs).w.dev.get j = w.dev.get j) := by
  intro cs
  induction cs with
  | nil => intro w c off hg _ _ _; simp [writeChunks, splice_nil, hg]
  | cons ch cs ih =>
    intro w c off hg hch hfit h64
    have hch0 := hch ch (List.mem_cons_self)
    simp only [List.flatten_cons, List.length_append] at hfit
    have hresp := respond_write w.dev id off ch c hid (by omega) hg (by omega) hch0.1 hch0.2
    unfold writeChunks
    simp only [xchg, hresp, decodeWrite_ok, ne_eq, not_true_eq_false, if_false]
    have hg' : FruDev.get { w.dev with frus := update w.dev.frus id (splice c off ch) } id
        = some (splice c off ch) := lookup_update_eq _ _ _ _ hg
    have hlen := splice_length c off ch (by omega)
    have := ih ⟨{ w.dev with frus := update w.dev.frus id (splice c off ch) },
        w.trace ++ [⟨writeReq id off ch, [0, ch.length]⟩]⟩ (splice c off ch) (off + ch.length) hg'
      (fun x hx => hch x (List.mem_cons_of_mem _ hx)) (by omega) (by omega)
    refine ⟨this.1, ?_, ?_⟩
    · rw [this.2.1, splice_splice c ch cs.flatten off (by omega)]; simp
    · intro j hj
      rw [this.2.2 j hj]
      exact lookup_update_ne _ _ _ _ hj

/-- the write loop against a device holding up to a FULL 64 KiB (the data may end at 10000h) -/
theorem writeChunks_exact64 (id : Nat) (hid : id < 256) :
    ∀ (cs : List (List Nat)) (w : World FruDev) (c : List Nat) (off : Nat),
      w.dev.get id = some c → (∀ ch ∈ cs, ch.length ≤ w.dev.wmax ∧ ch.length < 256 ∧ 1 ≤ ch.length) →
      off + cs.flatten.length ≤ c.length → c.length ≤ 65536 →
      (writeChunks respond w id off cs).out = .ok () ∧
      (writeChunks respond w id off cs).w.dev.get id = some (splice c off cs.flatten) ∧
      (∀ j, j ≠ id → (writeChunks respond w id off cs).w.dev.get j = w.dev.get j) := by
  intro cs
  induction cs with
  | nil => intro w c off hg _ _ _; simp [writeChunks, splice_nil, hg]
  | cons ch cs ih =>
    intro w c off hg hch hfit h64
    have hch0 := hch ch (List.mem_cons_self)
    simp only [List.flatten_cons, List.length_append] at hfit
    have hresp := respond_write w.dev id off ch c hid (by omega) hg (by omega) hch0.1 hch0.2.1
    unfold writeChunks
    simp only [xchg, hresp, decodeWrite_ok, ne_eq, not_true_eq_false, if_false]
    have hg' : FruDev.get { w.dev with frus := update w.dev.frus id (splice c off ch) } id
        = some (splice c off ch) := lookup_update_eq _ _ _ _ hg
    have hlen := splice_length c off ch (by omega)
    have := ih ⟨{ w.dev with frus := update w.dev.frus id (splice c off ch) },
        w.trace ++ [⟨writeReq id off ch, [0, ch.length]⟩]⟩ (splice c off ch) (off + ch.length) hg'
      (fun x hx => hch x (List.mem_cons_of_mem _ hx)) (by omega) (by omega)
    refine ⟨this.1, ?_, ?_⟩
    · rw [this.2.1, splice_splice c ch cs.flatten off (by omega)]; simp
    · intro j hj
      rw [this.2.2 j hj]
      exact lookup_update_ne _ _ _ _ hj

/-! ### traces: every request names the FRU -/

/-- Every request of the trace carries `id` as its FRU id (first data byte of all three commands). -/
def Named (id : Nat) (tr : List Xchg) : Prop := ∀ x ∈ tr, x.req.payload.head? = some (id % 256)

def namedB (id : Nat) (tr : List Xchg) : Bool := tr.all fun x => x.req.payload.head? == some (id % 256)

theorem namedB_iff (id : Nat) (tr : List Xchg) : namedB id tr = true ↔ Named id tr := by
  simp [namedB, Named]

theorem Named.xchg {σ} (send : Send σ) (id : Nat) (w : World σ) (q : Wire)
    (h : Named id w.trace) (hq : q.payload.head? = some (id % 256)) :
    Named id (FruXfer.xchg send w q).1.trace := by
  intro x hx
  simp only [FruXfer.xchg, List.mem_append, List.mem_singleton] at hx
  rcases hx with hx | hx
  · exact h x hx
  · rw [hx]; exact hq

theorem readLoop_named {σ} (cfg : Cfg) (send : Send σ) (id : Nat) :
    ∀ (fuel : Nat) (w : World σ) (area off reqSize : Nat) (acc : List Nat),
      Named id w.trace → Named id (readLoop cfg send fuel w id area off reqSize acc).w.trace := by
  intro fuel
  induction fuel with
  | zero => intro w area off reqSize acc h; simpa [readLoop] using h
  | succ fuel ih =>
    intro w area off reqSize acc h
    unfold readLoop
    by_cases hlt : off < area
    · simp only [hlt, if_true]
      generalize (if off + reqSize > area then area - off else reqSize) = q
      have hx := Named.xchg send id w (readReq id off q) h (by simp [readReq])
      generalize FruXfer.xchg send w (readReq id off q) = r at hx
      cases hdec : decodeReadRsp r.2 with
      | ok data => exact ih _ _ _ _ _ hx
      | ccError c =>
        simp only
        split
        · split
          · exact hx
          · exact ih _ _ _ _ _ hx
        · exact hx
      | _ => exact hx
    · simpa [hlt] using h

theorem readFruData_named {σ} (cfg : Cfg) (send : Send σ) (id : Nat) (w : World σ)
    (offset : Option Nat) (count : Nat) (h : Named id w.trace) :
    Named id (readFruData cfg send w offset count id).w.trace := by
  cases offset with
  | some off => exact readLoop_named cfg send id _ _ _ _ _ _ h
  | none =>
    have hx := Named.xchg send id w (infoReq id) h (by simp [infoReq])
    simp only [readFruData, areaInfo]
    generalize FruXfer.xchg send w (infoReq id) = r at hx
    cases hdec : decodeInfoRsp r.2 with
    | ok size => exact readLoop_named cfg send id _ _ _ _ _ _ hx
    | _ => exact hx

theorem writeChunks_named {σ} (send : Send σ) (id : Nat) :
    ∀ (cs : List (List Nat)) (w : World σ) (off : Nat),
      Named id w.trace → Named id (writeChunks send w id off cs).w.trace := by
  intro cs
  induction cs with
  | nil => intro w off h; simpa [writeChunks] using h
  | cons c cs ih =>
    intro w off h
    unfold writeChunks
    dsimp only
    have hx := Named.xchg send id w (writeReq id off c) h (by simp [writeReq])
    generalize FruXfer.xchg send w (writeReq id off c) = r at hx
    cases hdec : decodeWriteRsp r.2 with
    | ok n =>
      simp only
      split
      · exact hx
      · exact ih _ _ hx
    | _ => exact hx

theorem writeFruData_named {σ} (cfg : Cfg) (send : Send σ) (id : Nat) (w : World σ) (data : List Nat)
    (off : Nat) (h : Named id w.trace) : Named id (writeFruData cfg send w data off id).w.trace := by
  unfold writeFruData
  split
  · exact h
  · exact writeChunks_named send id _ _ _ h

theorem readFruDataV_named {σ} (rangeFix : Bool) (cfg : Cfg) (send : Send σ) (id : Nat) (w : World σ)
    (offset count : Option Nat) (h : Named id w.trace) :
    Named id (readFruDataV rangeFix cfg send w offset count id).w.trace := by
  unfold readFruDataV
  cases rangeFix with
  | false =>
    simp only [Bool.false_eq_true, if_false]
    cases offset with
    | none => exact readFruData_named cfg send id w none 0 h
    | some off =>
      cases count with
      | none => exact h
      | some c => exact readFruData_named cfg send id w (some off) c h
  | true =>
    simp only [if_true]
    cases count with
    | some c => exact readFruData_named cfg send id w _ c h
    | none =>
      have hx := Named.xchg send id w (infoReq id) h (by simp [infoReq])
      simp only [readFruDataFixed, areaInfo]
      generalize FruXfer.xchg send w (infoReq id) = r at hx
      cases hdec : decodeInfoRsp r.2 with
      | ok size => exact readLoop_named cfg send id _ _ _ _ _ _ hx
      | _ => exact hx

theorem getHeader_named {σ} (cfg : Cfg) (send : Send σ) (id : Nat) (w : World σ)
    (h : Named id w.trace) : Named id (getHeader cfg send w id).w.trace := by
  have hx := readFruData_named cfg send id w (some 0) 8 h
  unfold getHeader
  dsimp only
  generalize readFruData cfg send w (some 0) 8 id = r at hx
  cases r.out <;> exact hx

theorem someRes_w {σ} (r : Res σ (List Nat)) : (someRes r).w = r.w := by
  unfold someRes; cases r.out <;> rfl

theorem readFruArea_named {σ} (cfg : Cfg) (send : Send σ) (v : Var) (id : Nat) (w : World σ)
    (offset : Option Nat) (h : Named id w.trace) :
    Named id (readFruArea cfg send v w offset id).w.trace := by
  have hx := readFruDataV_named v.rangeFix cfg send id w offset (some 5) h
  unfold readFruArea
  dsimp only
  generalize readFruDataV v.rangeFix cfg send w offset (some 5) id = r at hx
  cases hr : r.out with
  | ok data =>
    simp only
    cases data[1]? with
    | none => exact hx
    | some b =>
      simp only
      split
      · exact hx
      · exact readFruDataV_named v.rangeFix cfg send id _ _ _ hx
  | _ => exact hx

theorem getInfoArea_named {σ} (cfg : Cfg) (send : Send σ) (v : Var) (id : Nat) (w : World σ) (a : Area)
    (h : Named id w.trace) : Named id (getInfoArea cfg send v w a id).w.trace := by
  have hx := getHeader_named cfg send id w h
  unfold getInfoArea
  dsimp only
  generalize getHeader cfg send w id = r at hx
  cases hr : r.out with
  | ok hd =>
    simp only
    split
    · exact hx
    · rw [someRes_w]; exact readFruArea_named cfg send v id _ _ hx
  | _ => exact hx

theorem mrWalk_named {σ} (rangeFix : Bool) (cfg : Cfg) (send : Send σ) (id : Nat) :
    ∀ (fuel : Nat) (w : World σ) (offset : Option Nat) (count : Nat),
      Named id w.trace → Named id (mrWalk rangeFix cfg send fuel w id offset count).w.trace := by
  intro fuel
  induction fuel with
  | zero => intro w offset count h; simpa [mrWalk] using h
  | succ fuel ih =>
    intro w offset count h
    have hx := readFruDataV_named rangeFix cfg send id w offset (some 5) h
    unfold mrWalk
    dsimp only
    generalize readFruDataV rangeFix cfg send w offset (some 5) id = r at hx
    split
    · split
      · split
        · exact hx
        · split
          · exact hx
          · exact ih _ _ _ hx
      · exact hx
    · exact hx

/-- `get_fru_multirecord_area` with the FRU id passed on (fixes/C10-1.diff) names the caller's FRU in every
request - with and without the absent-area guard and the range repair. -/
theorem getMultirecord_named {σ} (cfg : Cfg) (send : Send σ) (v : Var) (hv : v.mrShipped = false) (id : Nat)
    (w : World σ) (h : Named id w.trace) : Named id (getMultirecord cfg send v w id).w.trace := by
  have hx := getHeader_named cfg send id w h
  unfold getMultirecord
  simp only [hv, Bool.false_eq_true, if_false]
  generalize getHeader cfg send w id = r at hx
  cases hr : r.out with
  | ok hd =>
    simp only
    split
    · exact hx
    · have hy := mrWalk_named v.rangeFix cfg send id mrFuel r.w hd.multi 0 hx
      generalize mrWalk v.rangeFix cfg send mrFuel r.w id hd.multi 0 = c at hy
      cases hc : c.out with
      | ok count => simp only; rw [someRes_w]; exact readFruDataV_named v.rangeFix cfg send id _ _ _ hy
      | _ => exact hy
  | _ => exact hx

theorem optArea_named {σ} (id : Nat) (present : Bool) (w : World σ) (f : World σ → Res σ (Option (List Nat)))
    (hf : ∀ w, Named id w.trace → Named id (f w).w.trace) (h : Named id w.trace) :
    Named id (optArea present w f).w.trace := by
  unfold optArea
  cases present with
  | false => exact h
  | true => simpa using hf w h

/-- `get_fru_inventory` (FRU id passed on): every request of every part names the caller's FRU. -/
theorem getInventory_named {σ} (cfg : Cfg) (send : Send σ) (v : Var) (hv : v.mrShipped = false) (id : Nat)
    (w : World σ) (h : Named id w.trace) : Named id (getInventory cfg send v w id).w.trace := by
  have hx := getHeader_named cfg send id w h
  unfold getInventory
  dsimp only
  generalize getHeader cfg send w id = r at hx
  cases hr : r.out with
  | ok hd =>
    simp only
    have h1 := optArea_named id hd.chassis.isSome r.w (fun w => getInfoArea cfg send v w .chassis id)
      (fun w hw => getInfoArea_named cfg send v id w _ hw) hx
    generalize optArea hd.chassis.isSome r.w (fun w => getInfoArea cfg send v w .chassis id) = c at h1
    cases hc : c.out with
    | ok ch =>
      simp only
      have h2 := optArea_named id hd.board.isSome c.w (fun w => getInfoArea cfg send v w .board id)
        (fun w hw => getInfoArea_named cfg send v id w _ hw) h1
      generalize optArea hd.board.isSome c.w (fun w => getInfoArea cfg send v w .board id) = b at h2
      cases hb : b.out with
      | ok bo =>
        simp only
        have h3 := optArea_named id hd.product.isSome b.w (fun w => getInfoArea cfg send v w .product id)
          (fun w hw => getInfoArea_named cfg send v id w _ hw) h2
        generalize optArea hd.product.isSome b.w (fun w => getInfoArea cfg send v w .product id) = p at h3
        cases hp : p.out with
        | ok pr =>
          simp only
          have h4 := optArea_named id hd.multi.isSome p.w (fun w => getMultirecord cfg send v w id)
            (fun w hw => getMultirecord_named cfg send v hv id w hw) h3
          generalize optArea hd.multi.isSome p.w (fun w => getMultirecord cfg send v w id) = m at h4
          cases hm : m.out <;> exact h4
        | _ => exact h3
      | _ => exact h2
    | _ => exact h1
  | _ => exact hx

/-! ### acknowledged counts -/

/-- Every Write FRU Data exchange of the trace was acknowledged with exactly the number of data
bytes its request carried. -/
def Acked (tr : List Xchg) : Prop :=
  ∀ x ∈ tr, decodeWriteRsp x.rsp = .ok (x.req.payload.length - 3)

theorem writeChunks_acked {σ} (send : Send σ) (id : Nat) :
    ∀ (cs : List (List Nat)) (w : World σ) (off : Nat),
      Acked w.trace → (writeChunks send w id off cs).out = .ok () →
      Acked (writeChunks send w id off cs).w.trace := by
  intro cs
  induction cs with
  | nil => intro w off h _; simpa [writeChunks] using h
  | cons c cs ih =>
    intro w off h
    unfold writeChunks
    dsimp only
    cases hdec : decodeWriteRsp (FruXfer.xchg send w (writeReq id off c)).2 with
    | ok n =>
      simp only
      split
      · intro hout; simp at hout
      · rename_i hn
        simp only [ne_eq, Decidable.not_not] at hn
        intro hout
        apply ih _ _ _ hout
        intro x hx
        simp only [FruXfer.xchg, List.mem_append, List.mem_singleton] at hx
        rcases hx with hx | hx
        · exact h x hx
        · rw [hx]
          simp only [FruXfer.xchg] at hdec
          show decodeWriteRsp (send w.dev (writeReq id off c).cmd (writeReq id off c).payload).snd
            = .ok ((writeReq id off c).payload.length - 3)
          rw [hdec, hn]
          simp [writeReq]
    | _ => intro hout; simp [castErr] at hout

/-! ### the write stops AT the first answer that is not the exact acknowledgement

  `offered send dev id off cs` is the transcript of the peer when ALL chunk requests of a write are put to
  it in order, whatever it answers (a definition about the peer and the chunking only - it does not look at
  the library's checks): request `i` is Write FRU Data for FRU `id` at `off + |c₀| + … + |cᵢ₋₁|` carrying
  `cᵢ`.  The write loop of the library must perform a PREFIX of it: up to and including the first exchange
  whose answer is not "OK, exactly the bytes of this request". -/

def offered {σ} (send : Send σ) : σ → Nat → Nat → List (List Nat) → List Xchg
  | _, _, _, [] => []
  | s, id, off, c :: cs =>
    ⟨writeReq id off c, (send s (writeReq id off c).cmd (writeReq id off c).payload).2⟩ ::
      offered send (send s (writeReq id off c).cmd (writeReq id off c).payload).1 id (off + c.length) cs

/-- the requests of a write, from the chunking alone -/
def chunkReqs (id : Nat) : Nat → List (List Nat) → List Wire
  | _, [] => []
  | off, c :: cs => writeReq id off c :: chunkReqs id (off + c.length) cs

theorem offered_reqs {σ} (send : Send σ) (id : Nat) :
    ∀ (cs : List (List Nat)) (s : σ) (off : Nat),
      (offered send s id off cs).map (·.req) = chunkReqs id off cs := by
  intro cs
  induction cs with
  | nil => intro s off; rfl
  | cons c cs ih => intro s off; simp [offered, chunkReqs, ih]

theorem offered_length {σ} (send : Send σ) (id : Nat) :
    ∀ (cs : List (List Nat)) (s : σ) (off : Nat), (offered send s id off cs).length = cs.length := by
  intro cs
  induction cs with
  | nil => intro s off; rfl
  | cons c cs ih => intro s off; simp [offered, ih]

/-- the exchange is "completion code 00h, count = the data bytes of the request" -/
def ExactAck (x : Xchg) : Prop := decodeWriteRsp x.rsp = .ok (x.req.payload.length - 3)

instance (x : Xchg) : Decidable (ExactAck x) := by unfold ExactAck; exact inferInstance

/-- what `write_fru_data` ends with when the answer `raw` is not the exact acknowledgement: the library's
`Exception` for a well-formed acknowledgement of another count, the decoder's / completion-code error else -/
def stopOutcome (raw : List Nat) : Outcome Unit :=
  match decodeWriteRsp raw with
  | .ok _ => .pyError "Exception"
  | e => castErr e

theorem writeReq_len (id off : Nat) (c : List Nat) : (writeReq id off c).payload.length - 3 = c.length := by
  simp [writeReq]

/-- The write loop, for ANY peer and ANY chunk list: if exchange `k` of the offered transcript is the first
that is not an exact acknowledgement, the loop performs exactly the exchanges `0..k` and ends with
`stopOutcome` of answer `k` - the answers the peer would have given to the later requests play no role. -/
theorem writeChunks_stops_at_first_bad {σ} (send : Send σ) (id : Nat) :
    ∀ (cs : List (List Nat)) (w : World σ) (off k : Nat) (x : Xchg),
      (offered send w.dev id off cs)[k]? = some x →
      (∀ i, i < k → ∀ y, (offered send w.dev id off cs)[i]? = some y → ExactAck y) →
      ¬ ExactAck x →
      (writeChunks send w id off cs).out = stopOutcome x.rsp ∧
      (writeChunks send w id off cs).w.trace = w.trace ++ (offered send w.dev id off cs).take (k + 1) := by
  intro cs
  induction cs with
  | nil => intro w off k x hk; simp [offered] at hk
  | cons c cs ih =>
    intro w off k x hk hbefore hbad
    cases k with
    | zero =>
      simp only [offered, List.getElem?_cons_zero, Option.some.injEq] at hk
      subst hk
      simp only [ExactAck, writeReq_len] at hbad
      unfold writeChunks
      simp only [FruXfer.xchg, stopOutcome, offered, List.take_succ_cons, List.take_zero]
      cases hdec : decodeWriteRsp (send w.dev (writeReq id off c).cmd (writeReq id off c).payload).2 with
      | ok n =>
        have hn : n ≠ c.length := by intro h; apply hbad; rw [hdec, h]
        simp [hn]
      | _ => simp
    | succ k =>
      have h0 := hbefore 0 (Nat.succ_pos k)
        ⟨writeReq id off c, (send w.dev (writeReq id off c).cmd (writeReq id off c).payload).2⟩ (by simp [offered])
      simp only [ExactAck, writeReq_len] at h0
      simp only [offered, List.getElem?_cons_succ] at hk
      have hb' : ∀ i, i < k → ∀ y,
          (offered send (send w.dev (writeReq id off c).cmd (writeReq id off c).payload).1 id (off + c.length) cs)[i]?
            = some y → ExactAck y := by
        intro i hi y hy
        exact hbefore (i + 1) (Nat.succ_lt_succ hi) y (by simpa [offered] using hy)
      have := ih ⟨(send w.dev (writeReq id off c).cmd (writeReq id off c).payload).1,
          w.trace ++ [⟨writeReq id off c, (send w.dev (writeReq id off c).cmd (writeReq id off c).payload).2⟩]⟩
        (off + c.length) k x hk hb' hbad
      unfold writeChunks
      simp only [FruXfer.xchg, h0, ne_eq, not_true_eq_false, if_false]
      refine ⟨this.1, ?_⟩
      rw [this.2]
      simp [offered]

/-- … and if every offered exchange is an exact acknowledgement the loop performs all of them and returns. -/
theorem writeChunks_all_acked {σ} (send : Send σ) (id : Nat) :
    ∀ (cs : List (List Nat)) (w : World σ) (off : Nat),
      (∀ y ∈ offered send w.dev id off cs, ExactAck y) →
      (writeChunks send w id off cs).out = .ok () ∧
      (writeChunks send w id off cs).w.trace = w.trace ++ offered send w.dev id off cs := by
  intro cs
  induction cs with
  | nil => intro w off _; simp [writeChunks, offered]
  | cons c cs ih =>
    intro w off hall
    have h0 := hall ⟨writeReq id off c, (send w.dev (writeReq id off c).cmd (writeReq id off c).payload).2⟩
      (by simp [offered])
    simp only [ExactAck, writeReq_len] at h0
    have := ih ⟨(send w.dev (writeReq id off c).cmd (writeReq id off c).payload).1,
        w.trace ++ [⟨writeReq id off c, (send w.dev (writeReq id off c).cmd (writeReq id off c).payload).2⟩]⟩
      (off + c.length) (fun y hy => hall y (by simp [offered]; exact Or.inr hy))
    unfold writeChunks
    simp only [FruXfer.xchg, h0, ne_eq, not_true_eq_false, if_false]
    refine ⟨this.1, ?_⟩
    rw [this.2]
    simp [offered]

end PyIpmi.FruXfer
