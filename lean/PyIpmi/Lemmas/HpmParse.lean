/-
  C18 parser lemmas: the model of pyipmi's HPM.1 parser inverts the specification's encoder,
  piece by piece (version field, header, one record, the record loop).
-/
import PyIpmi.Lemmas.Hpm
namespace PyIpmi.Hpm
open PyIpmi PyIpmi.Gen.Hpm
open PyIpmi.Spec.HpmFormat

/-! ### version fields -/

theorem versionField2 (maj m : Nat) (h : m < 100 ∨ m = 255) :
    versionField [maj, bcd m] = .ok ⟨maj, m, none⟩ := by
  simp [versionField, decodeMinor_wf m h, versionAuxLen]

theorem versionField6 (maj m a0 a1 a2 a3 : Nat) (h : m < 100 ∨ m = 255) :
    versionField [maj, bcd m, a0, a1, a2, a3] = .ok ⟨maj, m, some [a0, a1, a2, a3]⟩ := by
  simp [versionField, decodeMinor_wf m h, versionAuxLen, versionLen, slice]

/-! ### header -/

/-- the 34 fixed header bytes -/
def fixed34 (h : Header) : List Nat :=
  [0x50, 0x49, 0x43, 0x4D, 0x47, 0x46, 0x57, 0x55, h.formatVersion, h.deviceId,
   h.manufacturerId % 256, h.manufacturerId / 256 % 256, h.manufacturerId / 256 / 256 % 256,
   h.productId % 256, h.productId / 256 % 256,
   h.time % 256, h.time / 256 % 256, h.time / 256 / 256 % 256, h.time / 256 / 256 / 256 % 256,
   h.capabilities, h.componentsMask, h.selftestTimeout, h.rollbackTimeout, h.inaccessibilityTimeout,
   h.earliest.major, bcd h.earliest.minor,
   h.firmwareRevision.major, bcd h.firmwareRevision.minor,
   h.firmwareRevision.a0, h.firmwareRevision.a1, h.firmwareRevision.a2, h.firmwareRevision.a3,
   h.oem.length % 256, h.oem.length / 256 % 256]

theorem encodeHeader_eq (h : Header) (rest : List Nat) :
    encodeHeader h ++ rest = fixed34 h ++ (h.oem ++ zeroSum (headerBody h) :: rest) := by
  simp [encodeHeader, headerBody, signature, leBytes, Version.aux, fixed34]

theorem encodeHeader_length (h : Header) : (encodeHeader h).length = 34 + h.oem.length + 1 := by
  simp [encodeHeader, headerBody, signature, leBytes, Version.aux]
  omega

theorem fixed34_length (h : Header) : (fixed34 h).length = 34 := by simp [fixed34]

theorem unpackFld_fixed (f : Fld) (F T : List Nat) (hle : f.start + f.len ≤ F.length) :
    unpackFld f (F ++ T) = unpackFld f F := by
  simp [unpackFld, slice_append_le T hle]

theorem byteAt_fixed (i : Nat) (F T : List Nat) (hlt : i < F.length) : byteAt i (F ++ T) = byteAt i F := by
  simp [byteAt, List.getElem?_append_left hlt]

/-- everything the header parser computes; only the OEM data depends on the variant -/
theorem parseHeader_encode (v : Variant) (h : Header) (hwf : h.wf) (rest : List Nat) :
    parseHeader v (encodeHeader h ++ rest) =
      .ok { h.view with
            oem := if h.oem.length = 0 then []
                   else if v.oemWholeRest then (encodeHeader h ++ rest).dropLast.drop 34
                   else h.oem,
            oemPresent := !(v.oemUnsetEmpty && h.oem.length == 0) } := by
  obtain ⟨h1, h2, h3, h4, h5, h6, h7, h8, h9, h10, ⟨e1, e2, _⟩, ⟨f1, f2, _⟩, h13, _⟩ := hwf
  have hdl : (encodeHeader h ++ rest).dropLast.drop 34 =
      (fixed34 h ++ (h.oem ++ zeroSum (headerBody h) :: rest)).dropLast.drop 34 := by rw [encodeHeader_eq]
  rw [hdl, encodeHeader_eq]
  generalize hT : h.oem ++ zeroSum (headerBody h) :: rest = T
  have hF : (fixed34 h).length = 34 := fixed34_length h
  have hne : (fixed34 h ++ T).isEmpty = false := by simp [fixed34]
  have u1 : unpackFld hfFormatVersion (fixed34 h ++ T) = .ok h.formatVersion := by
    rw [unpackFld_fixed _ _ _ (by simp [hF, hfFormatVersion])]
    simp [unpackFld, fixed34, slice, hfFormatVersion, readInt, leVal]
  have u2 : unpackFld hfDeviceId (fixed34 h ++ T) = .ok h.deviceId := by
    rw [unpackFld_fixed _ _ _ (by simp [hF, hfDeviceId])]
    simp [unpackFld, fixed34, slice, hfDeviceId, readInt, leVal]
  have u3 : unpackFld hfProductId (fixed34 h ++ T) = .ok h.productId := by
    rw [unpackFld_fixed _ _ _ (by simp [hF, hfProductId])]
    simp [unpackFld, fixed34, slice, hfProductId, readInt, leVal]
    omega
  have u4 : unpackFld hfTime (fixed34 h ++ T) = .ok h.time := by
    rw [unpackFld_fixed _ _ _ (by simp [hF, hfTime])]
    simp [unpackFld, fixed34, slice, hfTime, readInt, leVal]
    omega
  have u5 : unpackFld hfCapabilities (fixed34 h ++ T) = .ok h.capabilities := by
    rw [unpackFld_fixed _ _ _ (by simp [hF, hfCapabilities])]
    simp [unpackFld, fixed34, slice, hfCapabilities, readInt, leVal]
  have u6 : unpackFld hfSelftestTimeout (fixed34 h ++ T) = .ok h.selftestTimeout := by
    rw [unpackFld_fixed _ _ _ (by simp [hF, hfSelftestTimeout])]
    simp [unpackFld, fixed34, slice, hfSelftestTimeout, readInt, leVal]
  have u7 : unpackFld hfRollbackTimeout (fixed34 h ++ T) = .ok h.rollbackTimeout := by
    rw [unpackFld_fixed _ _ _ (by simp [hF, hfRollbackTimeout])]
    simp [unpackFld, fixed34, slice, hfRollbackTimeout, readInt, leVal]
  have u8 : unpackFld hfInaccessibilityTimeout (fixed34 h ++ T) = .ok h.inaccessibilityTimeout := by
    rw [unpackFld_fixed _ _ _ (by simp [hF, hfInaccessibilityTimeout])]
    simp [unpackFld, fixed34, slice, hfInaccessibilityTimeout, readInt, leVal]
  have u9 : ∃ x, unpackFld hfEarliestCompatibleRevision (fixed34 h ++ T) = .ok x := by
    rw [unpackFld_fixed _ _ _ (by simp [hF, hfEarliestCompatibleRevision])]
    simp [unpackFld, fixed34, slice, hfEarliestCompatibleRevision]
  have u10 : unpackFld hfOemDataLength (fixed34 h ++ T) = .ok h.oem.length := by
    rw [unpackFld_fixed _ _ _ (by simp [hF, hfOemDataLength])]
    simp [unpackFld, fixed34, slice, hfOemDataLength, readInt, leVal]
    omega
  have b1 : byteAt componentsIdx (fixed34 h ++ T) = .ok h.componentsMask := by
    rw [byteAt_fixed _ _ _ (by simp [hF, componentsIdx])]
    simp [byteAt, fixed34, componentsIdx]
  have s1 : slice ecrStart (ecrStart + versionLen) (fixed34 h ++ T) = [h.earliest.major, bcd h.earliest.minor] := by
    rw [slice_append_le T (by simp [hF, ecrStart, versionLen])]
    simp [fixed34, slice, ecrStart, versionLen]
  have s2 : slice frStart (frStart + versionAuxLen) (fixed34 h ++ T) =
      [h.firmwareRevision.major, bcd h.firmwareRevision.minor, h.firmwareRevision.a0, h.firmwareRevision.a1,
       h.firmwareRevision.a2, h.firmwareRevision.a3] := by
    rw [slice_append_le T (by simp [hF, frStart, versionAuxLen])]
    simp [fixed34, slice, frStart, versionAuxLen]
  have s3 : slice 0 sigEnd (fixed34 h ++ T) = signature := by
    rw [slice_append_le T (by simp [hF, sigEnd])]
    simp [fixed34, slice, sigEnd, signature]
  have s4 : leVal (slice man0 (man0 + 3) (fixed34 h ++ T)) = h.manufacturerId := by
    rw [slice_append_le T (by simp [hF, man0])]
    simp [fixed34, slice, man0, leVal]
    omega
  have b2 : byteAt (oemStart + h.oem.length) (fixed34 h ++ T) = .ok (zeroSum (headerBody h)) := by
    have : (fixed34 h ++ T)[oemStart + h.oem.length]? = some (zeroSum (headerBody h)) := by
      rw [List.getElem?_append_right (by simp [hF, oemStart])]
      simp [hF, oemStart, ← hT]
    simp [byteAt, this]
  have s5 : slice oemStart (oemStart + h.oem.length) (fixed34 h ++ T) = h.oem := by
    rw [slice_append_ge T (by simp [hF, oemStart])]
    simp [hF, oemStart, ← hT]
    exact slice_zero_append _ rfl
  obtain ⟨x9, u9⟩ := u9
  simp only [parseHeader, hne, u1, u2, u3, u4, u5, u6, u7, u8, u9, u10, b1, b2, s1, s2, s3, s4, s5,
    versionField2 _ _ e2, versionField6 _ _ _ _ _ _ f2, Outcome.bind_ok, Bool.false_eq_true, if_false]
  simp [Header.view, componentsOfByte_eq _ h7, Version.view2, Version.view6, Version.aux, oemStart, headerChkLen]

theorem parseHeader_intended (h : Header) (hwf : h.wf) (rest : List Nat) (d : Bool) :
    parseHeader ⟨false, d, false⟩ (encodeHeader h ++ rest) = .ok h.view := by
  rw [parseHeader_encode _ h hwf rest]
  by_cases hz : h.oem.length = 0
  · have : h.oem = [] := List.length_eq_zero_iff.mp hz
    simp [Header.view, this]
  · simp [hz, Header.view]

/-! ### description string -/

theorem rawUnicodeEscape_plain (f : Nat) (s : List Nat) (hf : s.length < f) (h : 0x5C ∉ s) :
    rawUnicodeEscape f s = .ok s := by
  induction s generalizing f with
  | nil => cases f <;> simp [rawUnicodeEscape]
  | cons c t ih =>
    cases f with
    | zero => simp at hf
    | succ f =>
      have hc : c ≠ 0x5C := fun e => h (by simp [e])
      have ht : 0x5C ∉ t := fun e => h (List.mem_cons_of_mem _ e)
      simp [rawUnicodeEscape, hc, ih f (by simpa using hf) ht]

/-- the description of a record can be decoded by variant `v` without interpretation -/
def descPlain (v : Variant) : Record → Prop
  | .simple _ _ => True
  | .upload _ _ d _ => v.descEscapes = false ∨ 0x5C ∉ d

theorem decodeDescription_plain (v : Variant) (s : List Nat) (h : v.descEscapes = false ∨ 0x5C ∉ s) :
    decodeDescription v s = .ok s := by
  unfold decodeDescription
  rcases h with h | h
  · simp [h]
  · by_cases hv : v.descEscapes = true
    · simp [hv, rawUnicodeEscape_plain _ s (Nat.lt_succ_self _) h]
    · simp [hv]

/-! ### one action record -/

theorem encodeRecord_length (r : Record) (hwf : r.wf) : (encodeRecord r).length = r.view.length := by
  cases r with
  | simple k c => simp [encodeRecord, Record.view]
  | upload c ver d fw =>
    obtain ⟨_, _, hd, _⟩ := hwf
    simp [encodeRecord, Record.view, Version.aux, hd]
    omega

theorem encodeRecord_pos (r : Record) : 3 ≤ (encodeRecord r).length := by
  cases r <;> simp [encodeRecord] <;> omega

theorem createFromData_encode (v : Variant) (r : Record) (hwf : r.wf) (hd : descPlain v r) (rest : List Nat) :
    createFromData v (encodeRecord r ++ rest) = .ok r.view := by
  cases r with
  | simple k c =>
    obtain ⟨hk, _⟩ := hwf
    rcases hk with rfl | rfl | rfl <;>
      simp [encodeRecord, createFromData, recordBase, Record.view, actBackup, actPrepare, actUpload, actCompare,
        recHeaderLen]
  | upload c ver d fw =>
    obtain ⟨_, ⟨_, hm, _⟩, hdl, _, hfw, _⟩ := hwf
    have hP : encodeRecord (.upload c ver d fw) ++ rest =
        [2, c, zeroSum [2, c], ver.major, bcd ver.minor, ver.a0, ver.a1, ver.a2, ver.a3] ++
          (d ++ (leBytes 4 fw.length ++ (fw ++ rest))) := by
      simp [encodeRecord, Version.aux]
    generalize hPd : [2, c, zeroSum [2, c], ver.major, bcd ver.minor, ver.a0, ver.a1, ver.a2, ver.a3] = P at hP
    have hPl : P.length = 9 := by simp [← hPd]
    have hL4 : (leBytes 4 fw.length).length = 4 := leBytes_length _ _
    have s1 : slice upVerStart (upVerStart + versionAuxLen) (encodeRecord (.upload c ver d fw) ++ rest) =
        [ver.major, bcd ver.minor, ver.a0, ver.a1, ver.a2, ver.a3] := by
      rw [hP, slice_append_le _ (by simp [hPl, upVerStart, versionAuxLen])]
      simp [← hPd, slice, upVerStart, versionAuxLen]
    have s2 : slice upDescStart upDescEnd (encodeRecord (.upload c ver d fw) ++ rest) = d := by
      rw [hP, slice_append_ge _ (by simp [hPl, upDescStart])]
      simp only [hPl, upDescStart, upDescEnd]
      exact slice_zero_append _ (by simp [hdl])
    have s3 : slice upLenStart upLenEnd (encodeRecord (.upload c ver d fw) ++ rest) = leBytes 4 fw.length := by
      rw [hP, slice_append_ge _ (by simp [hPl, upLenStart]), slice_append_ge _ (by simp [hPl, hdl, upLenStart])]
      simp only [hPl, hdl, upLenStart, upLenEnd]
      exact slice_zero_append _ (by simp)
    have s4 : slice upDataStart (upDataStart + fw.length) (encodeRecord (.upload c ver d fw) ++ rest) = fw := by
      rw [hP, slice_append_ge _ (by simp [hPl, upDataStart]), slice_append_ge _ (by simp [hPl, hdl, upDataStart]),
        slice_append_ge _ (by simp [hPl, hdl, upDataStart])]
      simp only [hPl, hdl, hL4, upDataStart]
      exact slice_zero_append _ (by omega)
    have hb : recordBase (encodeRecord (.upload c ver d fw) ++ rest) =
        .ok ⟨2, c, zeroSum [2, c], recHeaderLen, none⟩ := by
      simp [encodeRecord, recordBase]
    have hhd : ∃ t, encodeRecord (.upload c ver d fw) ++ rest = 2 :: t := by simp [encodeRecord]
    obtain ⟨t, ht⟩ := hhd
    have hv : readInt fwLengthLe (leBytes 4 fw.length) = fw.length := by
      simp [readInt, fwLengthLe, leVal_leBytes 4 fw.length hfw]
    have hcf : createFromData v (encodeRecord (.upload c ver d fw) ++ rest) =
        uploadRecord v (encodeRecord (.upload c ver d fw) ++ rest) := by
      rw [ht]
      simp [createFromData, actBackup, actPrepare, actUpload]
    rw [hcf]
    simp only [uploadRecord, hb, s1, s2, s3, Outcome.bind_ok, versionField6 _ _ _ _ _ _ hm,
      decodeDescription_plain v d hd, hL4, hv, s4]
    simp [Record.view, Version.view6, Version.aux, upLenEnd, upLenStart, recHeaderLen, upLenExtra]
    omega

/-! ### the record loop -/

theorem encodeRecords_cons (r : Record) (rs : List Record) :
    encodeRecords (r :: rs) = encodeRecord r ++ encodeRecords rs := by
  simp [encodeRecords]

theorem encodeRecords_length_ge (rs : List Record) : rs.length ≤ (encodeRecords rs).length := by
  induction rs with
  | nil => simp [encodeRecords]
  | cons r rs ih =>
    rw [encodeRecords_cons, List.length_append, List.length_cons]
    have := encodeRecord_pos r
    omega

theorem parseActions_encode (v : Variant) (rs : List Record) (pre tr : List Nat) (fuel : Nat)
    (acc : List ActionView) (hwf : ∀ r ∈ rs, r.wf) (hd : ∀ r ∈ rs, descPlain v r)
    (htr : tr.length = trailerLen) (hfuel : rs.length ≤ fuel) :
    parseActions v (pre ++ (encodeRecords rs ++ tr)) fuel pre.length acc =
      .ok (acc ++ rs.map Record.view, pre.length + (encodeRecords rs).length) := by
  induction rs generalizing pre fuel acc with
  | nil =>
    cases fuel with
    | zero => simp [parseActions, encodeRecords]
    | succ f => simp [parseActions, encodeRecords, htr]
  | cons r rs ih =>
    cases fuel with
    | zero => simp at hfuel
    | succ f =>
      have hr := hwf r (List.mem_cons_self)
      have hpos := encodeRecord_pos r
      have hcond : pre.length + trailerLen <
          (pre ++ (encodeRecords (r :: rs) ++ tr)).length := by
        simp [encodeRecords_cons, htr]
        omega
      have hdrop : (pre ++ (encodeRecords (r :: rs) ++ tr)).drop pre.length =
          encodeRecord r ++ (encodeRecords rs ++ tr) := by
        simp [encodeRecords_cons]
      have hre : pre ++ (encodeRecords (r :: rs) ++ tr) =
          (pre ++ encodeRecord r) ++ (encodeRecords rs ++ tr) := by
        simp [encodeRecords_cons]
      have hlen : pre.length + r.view.length = (pre ++ encodeRecord r).length := by
        simp [encodeRecord_length r hr]
      rw [parseActions]
      simp only [hcond, if_true, hdrop,
        createFromData_encode v r hr (hd r (List.mem_cons_self)) _]
      rw [hlen, hre, ih (pre ++ encodeRecord r) f (acc ++ [r.view])
        (fun x hx => hwf x (List.mem_cons_of_mem _ hx)) (fun x hx => hd x (List.mem_cons_of_mem _ hx))
        (by simpa using hfuel)]
      simp [encodeRecords_cons]
      omega

/-! ### the whole image -/

theorem parseImage_encode (v : Variant) (digest : List Nat → List Nat) (img : Image) (hwf : img.wf)
    (hd : ∀ r ∈ img.records, descPlain v r) (hdig : ∀ x, (digest x).length = 16) :
    parseImage v (encodeImage digest img) =
      .ok { img.view digest with
            header := { img.header.view with
              oem := if img.header.oem.length = 0 then []
                     else if v.oemWholeRest then (encodeImage digest img).dropLast.drop 34
                     else img.header.oem,
              oemPresent := !(v.oemUnsetEmpty && img.header.oem.length == 0) } } := by
  obtain ⟨hh, hr⟩ := hwf
  have hdata : encodeImage digest img =
      encodeHeader img.header ++ (encodeRecords img.records ++ digest (imageBody img)) := by
    simp [encodeImage, imageBody]
  have hlen : img.header.view.length = (encodeHeader img.header).length := by
    simp [Header.view, encodeHeader_length]
  have hfuel : img.records.length ≤ (encodeImage digest img).length := by
    rw [hdata]
    have := encodeRecords_length_ge img.records
    simp only [List.length_append]
    omega
  unfold parseImage
  rw [hdata, parseHeader_encode v img.header hh]
  simp only [Outcome.bind_ok]
  rw [hlen, parseActions_encode v img.records _ _ _ [] hr hd (by simp [trailerLen, hdig]) (by rw [← hdata]; exact hfuel)]
  simp only [Outcome.bind_ok]
  have h1 : slice 0 trailerLen
      ((encodeHeader img.header ++ (encodeRecords img.records ++ digest (imageBody img))).drop
        ((encodeHeader img.header).length + (encodeRecords img.records).length)) = digest (imageBody img) := by
    rw [← List.append_assoc, List.drop_left' (by simp)]
    simp [slice, trailerLen, ← hdig (imageBody img)]
  have h2 : (encodeHeader img.header ++ (encodeRecords img.records ++ digest (imageBody img))).drop
      ((encodeHeader img.header ++ (encodeRecords img.records ++ digest (imageBody img))).length - trailerLen) =
      digest (imageBody img) := by
    rw [← List.append_assoc]
    apply List.drop_left'
    simp [trailerLen, hdig]
    omega
  rw [h1, h2]
  simp [Image.view]

end PyIpmi.Hpm
