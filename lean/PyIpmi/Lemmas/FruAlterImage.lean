/-
  Assembly: every single-byte alteration of `encodeFru img` at a covered position other than an
  info-area length byte violates `checksumsClamped` (hence `checksumsOk`).  The info-area length
  byte: whatever the bytes, acceptance by a reader that validates the length byte means the
  declared length is ≥ 1 unit, inside the data, and the declared span sums to zero
  (`accept_area_span`), so an altered length byte lies inside a verified span
  (`alter_length_byte`).  Also: `encodeFru img` is a byte string.  Core only.
-/
import PyIpmi.Lemmas.FruAlter
namespace PyIpmi.Fru
open PyIpmi PyIpmi.Gen

theorem offOf_le (p : Bool) (n : Nat) : offOf p n ≤ n := by
  unfold offOf; split <;> omega

theorem header_bytes (img : FruImage) (hwf : img.wf = true) : Bytes img.header := by
  simp only [FruImage.wf, Bool.and_eq_true, decide_eq_true_eq] at hwf
  have ht := hwf.2
  have h1 := offOf_le img.internal.isSome 8
  have h2 := offOf_le img.chassis.isSome (8 + img.parts.iu.length)
  have h3 := offOf_le img.board.isSome (8 + img.parts.iu.length + img.parts.ch.length)
  have h4 := offOf_le img.product.isSome (8 + img.parts.iu.length + img.parts.ch.length + img.parts.bd.length)
  have h5 := offOf_le (!img.records.isEmpty)
    (8 + img.parts.iu.length + img.parts.ch.length + img.parts.bd.length + img.parts.pr.length)
  unfold FruImage.header
  refine Bytes.append ?_ (Bytes.cons (zeroSum_lt _) Bytes.nil)
  unfold FruImage.header7 FruImage.iuOff FruImage.chOff FruImage.bdOff FruImage.prOff FruImage.mrOff
  refine Bytes.cons (by omega) (Bytes.cons (by omega) (Bytes.cons (by omega) (Bytes.cons (by omega)
    (Bytes.cons (by omega) (Bytes.cons (by omega) (Bytes.cons (by omega) Bytes.nil))))))

theorem encodeRecords_bytes (rs : List Record) (h : ∀ r ∈ rs, r.wf = true) : Bytes (encodeRecords rs) := by
  induction rs with
  | nil => exact Bytes.nil
  | cons r rs ih =>
    cases rs with
    | nil => exact encodeRecord_bytes r true (h r (by simp))
    | cons r' rs' =>
      exact Bytes.append (encodeRecord_bytes r false (h r (by simp))) (ih fun x hx => h x (by simp [hx]))

theorem encodeInternal_bytes (d : List Nat) (h : Bytes d) : Bytes (encodeInternal d) :=
  Bytes.append (Bytes.cons (by omega) h) (Bytes.replicate_zero _)

theorem encodeFru_bytes (img : FruImage) (hwf : img.wf = true) : Bytes (encodeFru img) := by
  obtain ⟨wc, wb, wp, wr⟩ := wf_parts img hwf
  have hiu : Bytes img.parts.iu := by
    simp only [FruImage.wf, Bool.and_eq_true] at hwf
    have h := hwf.1.1.1.1.1
    simp only [FruImage.parts]
    cases hi : img.internal with
    | none => exact Bytes.nil
    | some d => rw [hi] at h; exact encodeInternal_bytes d ((isBytes_iff _).mp h)
  have hch : Bytes img.parts.ch := by
    simp only [FruImage.parts]
    cases hc : img.chassis with
    | none => exact Bytes.nil
    | some c => exact encodeArea_bytes _ (wc c hc)
  have hbd : Bytes img.parts.bd := by
    simp only [FruImage.parts]
    cases hc : img.board with
    | none => exact Bytes.nil
    | some c => exact encodeArea_bytes _ (wb c hc).1
  have hpr : Bytes img.parts.pr := by
    simp only [FruImage.parts]
    cases hc : img.product with
    | none => exact Bytes.nil
    | some c => exact encodeArea_bytes _ (wp c hc)
  exact Bytes.append (header_bytes img hwf) (Bytes.append hiu (Bytes.append hch (Bytes.append hbd
    (Bytes.append hpr (encodeRecords_bytes _ wr)))))

theorem header_getD (img : FruImage) :
    img.header.getD 2 0 = img.chOff / 8 ∧ img.header.getD 3 0 = img.bdOff / 8 ∧
    img.header.getD 4 0 = img.prOff / 8 ∧ img.header.getD 5 0 = img.mrOff / 8 := by
  simp [FruImage.header, FruImage.header7]

theorem offOf_ne_zero {p : Bool} {n : Nat} (h : offOf p n ≠ 0) : p = true ∧ offOf p n = n := by
  unfold offOf at h ⊢
  cases p <;> simp_all

theorem mul_div_off (n : Nat) (h : n / 8 * 8 = n) : 8 * (n / 8) = n := by omega

theorem alter_image (img : FruImage) (hwf : img.wf = true) (i b' old : Nat)
    (hold : (encodeFru img)[i]? = some old) (hb' : b' < 256) (hne : b' ≠ old)
    (hc : covered img i = true) (hl : isAreaLengthByte img i = false) :
    checksumsClamped ((encodeFru img).set i b') = false := by
  obtain ⟨wc, wb, wp, wr⟩ := wf_parts img hwf
  obtain ⟨g2, g3, g4, g5⟩ := header_getD img
  obtain ⟨_, m2, m3, m4, m5⟩ := offs_mul img
  have hHl := header_length img
  simp only [covered, Bool.or_eq_true, decide_eq_true_eq] at hc
  simp only [isAreaLengthByte, Bool.or_eq_false_iff, Bool.and_eq_false_iff, decide_eq_false_iff_not] at hl
  obtain ⟨⟨lc, lb⟩, lp⟩ := hl
  rcases hc with (((hc | hc) | hc) | hc) | hc
  · -- common header
    apply checksumsClamped_false_hdr
    rw [List.take_set, take_header]
    have hh : img.header[i]? = some old := by
      rw [← take_header, List.getElem?_take_of_lt hc]; exact hold
    exact sum_set_ne' _ i b' old hh (header_sum img) (Bytes.of_getElem? (header_bytes img hwf) hh) hb' hne
  · -- chassis area
    simp only [inArea, Bool.and_eq_true, decide_eq_true_eq] at hc
    obtain ⟨⟨h0, h1⟩, h2⟩ := hc
    obtain ⟨hs, hoff⟩ := offOf_ne_zero (p := img.chassis.isSome) h0
    obtain ⟨c, hcs⟩ := Option.isSome_iff_exists.mp hs
    have hch : img.parts.ch = encodeArea c.toArea := by simp [FruImage.parts, hcs, optBytes]
    have hj1 : i - img.chOff ≠ 1 := by rcases lc with h | h <;> omega
    have hbs : encodeFru img = (img.header ++ img.parts.iu) ++
        (encodeArea c.toArea ++ (img.parts.bd ++ (img.parts.pr ++ img.parts.mr))) := by
      simp [encodeFru, hch]
    have hPl : (img.header ++ img.parts.iu).length = img.chOff := by
      simp only [FruImage.chOff] at hoff ⊢; simp [hHl, hoff]
    have hi : i = (img.header ++ img.parts.iu).length + (i - img.chOff) := by omega
    have hjl : i - img.chOff < (encodeArea c.toArea).length := by rw [← hch]; omega
    apply checksumsClamped_false2
    rw [hbs, hi]
    refine alter_area c.toArea (wc c hcs) _ _ 2 (by simp [hHl]; omega) (by simp [hHl]) ?_
      (i - img.chOff) hj1 b' old ?_ hb' hne
    · rw [getD_append_left _ _ _ (by omega), g2, hPl]; exact mul_div_off _ m2
    · rw [← getElem?_middle _ _ _ _ hjl, ← hi, ← hbs]; exact hold
  · -- board area
    simp only [inArea, Bool.and_eq_true, decide_eq_true_eq] at hc
    obtain ⟨⟨h0, h1⟩, h2⟩ := hc
    obtain ⟨hs, hoff⟩ := offOf_ne_zero (p := img.board.isSome) h0
    obtain ⟨c, hcs⟩ := Option.isSome_iff_exists.mp hs
    have hch : img.parts.bd = encodeArea c.toArea := by simp [FruImage.parts, hcs, optBytes]
    have hj1 : i - img.bdOff ≠ 1 := by rcases lb with h | h <;> omega
    have hbs : encodeFru img = (img.header ++ (img.parts.iu ++ img.parts.ch)) ++
        (encodeArea c.toArea ++ (img.parts.pr ++ img.parts.mr)) := by
      simp [encodeFru, hch]
    have hPl : (img.header ++ (img.parts.iu ++ img.parts.ch)).length = img.bdOff := by
      simp only [FruImage.bdOff] at hoff ⊢; simp [hHl, hoff]; omega
    have hi : i = (img.header ++ (img.parts.iu ++ img.parts.ch)).length + (i - img.bdOff) := by omega
    have hjl : i - img.bdOff < (encodeArea c.toArea).length := by rw [← hch]; omega
    apply checksumsClamped_false3
    rw [hbs, hi]
    refine alter_area c.toArea (wb c hcs).1 _ _ 3 (by simp [hHl]; omega) (by simp [hHl]) ?_
      (i - img.bdOff) hj1 b' old ?_ hb' hne
    · rw [getD_append_left _ _ _ (by omega), g3, hPl]; exact mul_div_off _ m3
    · rw [← getElem?_middle _ _ _ _ hjl, ← hi, ← hbs]; exact hold
  · -- product area
    simp only [inArea, Bool.and_eq_true, decide_eq_true_eq] at hc
    obtain ⟨⟨h0, h1⟩, h2⟩ := hc
    obtain ⟨hs, hoff⟩ := offOf_ne_zero (p := img.product.isSome) h0
    obtain ⟨c, hcs⟩ := Option.isSome_iff_exists.mp hs
    have hch : img.parts.pr = encodeArea c.toArea := by simp [FruImage.parts, hcs, optBytes]
    have hj1 : i - img.prOff ≠ 1 := by rcases lp with h | h <;> omega
    have hbs : encodeFru img = (img.header ++ (img.parts.iu ++ (img.parts.ch ++ img.parts.bd))) ++
        (encodeArea c.toArea ++ img.parts.mr) := by
      simp [encodeFru, hch]
    have hPl : (img.header ++ (img.parts.iu ++ (img.parts.ch ++ img.parts.bd))).length = img.prOff := by
      simp only [FruImage.prOff] at hoff ⊢; simp [hHl, hoff]; omega
    have hi : i = (img.header ++ (img.parts.iu ++ (img.parts.ch ++ img.parts.bd))).length + (i - img.prOff) := by
      omega
    have hjl : i - img.prOff < (encodeArea c.toArea).length := by rw [← hch]; omega
    apply checksumsClamped_false4
    rw [hbs, hi]
    refine alter_area c.toArea (wp c hcs) _ _ 4 (by simp [hHl]; omega) (by simp [hHl]) ?_
      (i - img.prOff) hj1 b' old ?_ hb' hne
    · rw [getD_append_left _ _ _ (by omega), g4, hPl]; exact mul_div_off _ m4
    · rw [← getElem?_middle _ _ _ _ hjl, ← hi, ← hbs]; exact hold
  · -- multi-record area
    simp only [inArea, Bool.and_eq_true, decide_eq_true_eq] at hc
    obtain ⟨⟨h0, h1⟩, h2⟩ := hc
    obtain ⟨hs, hoff⟩ := offOf_ne_zero (p := !img.records.isEmpty) h0
    have hrne : img.records ≠ [] := by
      intro h; rw [h] at hs; simp at hs
    have hmr : img.parts.mr = encodeRecords img.records := rfl
    have hbs : encodeFru img =
        (img.header ++ (img.parts.iu ++ (img.parts.ch ++ (img.parts.bd ++ img.parts.pr)))) ++
        (encodeRecords img.records ++ []) := by
      simp [encodeFru, hmr]
    have hPl : (img.header ++ (img.parts.iu ++ (img.parts.ch ++ (img.parts.bd ++ img.parts.pr)))).length =
        img.mrOff := by
      simp only [FruImage.mrOff] at hoff ⊢; simp [hHl, hoff]; omega
    have hi : i = (img.header ++ (img.parts.iu ++ (img.parts.ch ++ (img.parts.bd ++ img.parts.pr)))).length +
        (i - img.mrOff) := by omega
    have hjl : i - img.mrOff < (encodeRecords img.records).length := by rw [← hmr]; omega
    apply checksumsClamped_false5
    rw [hbs, hi]
    refine alter_multi img.records hrne wr _ (by simp [hHl]; omega) (by simp [hHl]) ?_
      (i - img.mrOff) b' old ?_ hb' hne
    · rw [getD_append_left _ _ _ (by omega), g5, hPl]; exact mul_div_off _ m5
    · rw [← getElem?_middle _ _ [] _ hjl, ← hi, ← hbs]; exact hold

theorem alter_image_strict (img : FruImage) (hwf : img.wf = true) (i b' old : Nat)
    (hold : (encodeFru img)[i]? = some old) (hb' : b' < 256) (hne : b' ≠ old)
    (hc : covered img i = true) (hl : isAreaLengthByte img i = false) :
    checksumsOk ((encodeFru img).set i b') = false :=
  checksumsOk_false_of_clamped _ (alter_image img hwf i b' old hold hb' hne hc hl)

/-! ### the info-area length byte -/

/-- For ANY byte string: if the header byte `k` (2 chassis, 3 board, 4 product) announces an area
that starts inside the data, `checksumsOk` says that the area's declared length `L` (its byte 1) is
at least one unit of 8 bytes, that the declared span lies inside the data, and that it sums to
zero. -/
theorem checksums_area_span (bs : List Nat) (k : Nat) (hk : k = 2 ∨ k = 3 ∨ k = 4)
    (hoff : bs.getD k 0 ≠ 0) (hin : 8 * bs.getD k 0 < bs.length) (h : checksumsOk bs = true) :
    1 ≤ bs.getD (8 * bs.getD k 0 + 1) 0 ∧
    8 * bs.getD k 0 + 8 * bs.getD (8 * bs.getD k 0 + 1) 0 ≤ bs.length ∧
    sum8 ((bs.drop (8 * bs.getD k 0)).take (8 * bs.getD (8 * bs.getD k 0 + 1) 0)) = 0 := by
  have harea : areaSumOk (areaAt bs k) = true := by
    simp only [checksumsOk, Bool.and_eq_true, Bool.or_eq_true, beq_iff_eq] at h
    obtain ⟨⟨⟨⟨_, a2⟩, a3⟩, a4⟩, _⟩ := h
    rcases hk with rfl | rfl | rfl
    · exact a2.resolve_left hoff
    · exact a3.resolve_left hoff
    · exact a4.resolve_left hoff
  unfold areaAt at harea
  have hnn : bs.drop (8 * bs.getD k 0) ≠ [] := by
    intro he
    have h0 : (bs.drop (8 * bs.getD k 0)).length = 0 := by rw [he]; rfl
    rw [List.length_drop] at h0
    omega
  have hd1 : (bs.drop (8 * bs.getD k 0)).getD 1 0 = bs.getD (8 * bs.getD k 0 + 1) 0 := by
    simp [List.getD_eq_getElem?_getD, List.getElem?_drop]
  cases hd : bs.drop (8 * bs.getD k 0) with
  | nil => exact absurd hd hnn
  | cons x t =>
    have hlen : (x :: t).length = bs.length - 8 * bs.getD k 0 := by rw [← hd, List.length_drop]
    rw [hd] at harea hd1
    simp only [areaSumOk, Bool.and_eq_true, decide_eq_true_eq, beq_iff_eq] at harea
    rw [hd1, hlen] at harea
    obtain ⟨⟨h1, h2⟩, h3⟩ := harea
    exact ⟨h1, by omega, h3⟩

/-- acceptance by a reader that validates the length byte, in the same terms -/
theorem accept_area_span (v : Variant) (hv : v.areaLenLax = false) (kd : InputKind) (bs : List Nat)
    (fv : FruView) (k : Nat) (hk : k = 2 ∨ k = 3 ∨ k = 4)
    (hoff : bs.getD k 0 ≠ 0) (hin : 8 * bs.getD k 0 < bs.length) (hp : parseFru v kd bs = .ok fv) :
    1 ≤ bs.getD (8 * bs.getD k 0 + 1) 0 ∧
    8 * bs.getD k 0 + 8 * bs.getD (8 * bs.getD k 0 + 1) 0 ≤ bs.length ∧
    sum8 ((bs.drop (8 * bs.getD k 0)).take (8 * bs.getD (8 * bs.getD k 0 + 1) 0)) = 0 :=
  checksums_area_span bs k hk hoff hin (accept_checksums v hv kd bs fv hp)

/-- where the length bytes of an encoded image are: `i = off + 1` for an area offset `off` that
the header announces in byte `k` -/
theorem lengthByte_locate (img : FruImage) (i : Nat) (hlb : isAreaLengthByte img i = true) :
    ∃ k off, (k = 2 ∨ k = 3 ∨ k = 4) ∧ i = off + 1 ∧ 8 ≤ off ∧ img.header.getD k 0 = off / 8 ∧
      8 * (off / 8) = off := by
  obtain ⟨g2, g3, g4, _⟩ := header_getD img
  obtain ⟨_, m2, m3, m4, _⟩ := offs_mul img
  simp only [isAreaLengthByte, Bool.or_eq_true, Bool.and_eq_true, decide_eq_true_eq] at hlb
  rcases hlb with (⟨h0, hi⟩ | ⟨h0, hi⟩) | ⟨h0, hi⟩
  · have h8 : 8 ≤ img.chOff := by
      have := (offOf_ne_zero (p := img.chassis.isSome) h0).2
      simp only [FruImage.chOff] at this ⊢; omega
    exact ⟨2, img.chOff, Or.inl rfl, hi, h8, g2, mul_div_off _ m2⟩
  · have h8 : 8 ≤ img.bdOff := by
      have := (offOf_ne_zero (p := img.board.isSome) h0).2
      simp only [FruImage.bdOff] at this ⊢; omega
    exact ⟨3, img.bdOff, Or.inr (Or.inl rfl), hi, h8, g3, mul_div_off _ m3⟩
  · have h8 : 8 ≤ img.prOff := by
      have := (offOf_ne_zero (p := img.product.isSome) h0).2
      simp only [FruImage.prOff] at this ⊢; omega
    exact ⟨4, img.prOff, Or.inr (Or.inr rfl), hi, h8, g4, mul_div_off _ m4⟩

/-- An encoded image whose info-area length byte (position `i`) was set to `b'` – any value – is
accepted by a reader that validates the length byte only if `b' ≥ 1`, the span of `8·b'` bytes
from the area offset `i - 1` lies inside the image, and that span (which contains position `i`)
sums to zero. -/
theorem alter_length_byte (img : FruImage) (i old b' : Nat)
    (hold : (encodeFru img)[i]? = some old) (hlb : isAreaLengthByte img i = true)
    (v : Variant) (hv : v.areaLenLax = false) (kd : InputKind) (fv : FruView)
    (hp : parseFru v kd ((encodeFru img).set i b') = .ok fv) :
    1 ≤ b' ∧ (i - 1) + 8 * b' ≤ (encodeFru img).length ∧
    sum8 ((((encodeFru img).set i b').drop (i - 1)).take (8 * b')) = 0 := by
  obtain ⟨k, off, hk, hi, h8, hg, hm⟩ := lengthByte_locate img i hlb
  obtain ⟨hil, _⟩ := List.getElem?_eq_some_iff.mp hold
  have hk8 : k < 8 := by omega
  have hHl := header_length img
  have hgk : ((encodeFru img).set i b').getD k 0 = off / 8 := by
    rw [List.getD_eq_getElem?_getD, List.getElem?_set_ne (by omega), ← List.getD_eq_getElem?_getD,
      encodeFru, getD_append_left _ _ _ (by omega), hg]
  have hg1 : ((encodeFru img).set i b').getD (off + 1) 0 = b' := by
    rw [← hi, List.getD_eq_getElem?_getD, List.getElem?_set_self hil]; rfl
  have := accept_area_span v hv kd _ fv k hk (by rw [hgk]; omega)
    (by rw [hgk, hm, List.length_set]; omega) hp
  rw [hgk, hm, hg1, List.length_set] at this
  rw [show i - 1 = off from by omega]
  exact this

end PyIpmi.Fru
