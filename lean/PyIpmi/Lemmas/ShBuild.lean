/-
  Lemmas tying Model.Ipmitool's command builders to Spec.Sh: numbers print as ordinary
  words, the escaping of C19-1 is undone exactly by the shell's double-quote rules
  (`run_dq_esc`, for EVERY string without NUL), and every piece a builder appends is a
  segment (`Seg`) adding the words the specification lists.
-/
import PyIpmi.Lemmas.Sh
import PyIpmi.Model.Ipmitool
namespace PyIpmi.Model.Ipmitool
open PyIpmi PyIpmi.Spec.Sh PyIpmi.Gen.Ipmitool

/-! ### numbers: model and specification print alike; the digits are ordinary characters -/

theorem hexDigit_eq (n : Nat) : hexDigit n = Spec.Ipmitool.hexDigit n := rfl

theorem hexAux_eq (f n : Nat) (acc : Str) : hexAux f n acc = Spec.Ipmitool.hexAux f n acc := by
  induction f generalizing n acc with
  | zero => rfl
  | succ f ih => simp [hexAux, Spec.Ipmitool.hexAux, hexDigit_eq, ih]

theorem hexL_eq (n : Nat) : hexL n = Spec.Ipmitool.hexL n := hexAux_eq _ _ _

theorem hex02_eq (n : Nat) : hex02 n = Spec.Ipmitool.hex02 n := by
  simp [hex02, Spec.Ipmitool.hex02, hexL_eq, hexDigit_eq]

theorem decAux_eq (f n : Nat) (acc : Str) : decAux f n acc = Spec.Ipmitool.decAux f n acc := by
  induction f generalizing n acc with
  | zero => rfl
  | succ f ih => simp [decAux, Spec.Ipmitool.decAux, ih]

theorem dec_eq (n : Nat) : dec n = Spec.Ipmitool.dec n := decAux_eq _ _ _

theorem hexDigit_plain (n : Nat) (h : n < 16) : plainCh (hexDigit n) = true := by
  unfold hexDigit plainCh
  split <;> simp <;> omega

theorem allPlain_cons {c : Nat} {w : Str} (hc : plainCh c = true) (hw : AllPlain w) :
    AllPlain (c :: w) := by
  intro d hd
  cases hd with
  | head => exact hc
  | tail _ h => exact hw d h

theorem allPlain_nil : AllPlain [] := by intro d hd; cases hd

theorem allPlain_append {a b : Str} (ha : AllPlain a) (hb : AllPlain b) : AllPlain (a ++ b) := by
  intro d hd
  rcases List.mem_append.mp hd with h | h
  · exact ha d h
  · exact hb d h

theorem hexAux_plain (f n : Nat) (acc : Str) (ha : AllPlain acc) : AllPlain (hexAux f n acc) := by
  induction f generalizing n acc with
  | zero => exact ha
  | succ f ih =>
    simp only [hexAux]
    split
    · exact allPlain_cons (hexDigit_plain n (by omega)) ha
    · exact ih _ _ (allPlain_cons (hexDigit_plain _ (Nat.mod_lt _ (by decide))) ha)

theorem hexAux_ne_nil (f n : Nat) (acc : Str) (h : acc ≠ [] ∨ f ≠ 0) : hexAux f n acc ≠ [] := by
  induction f generalizing n acc with
  | zero => rcases h with h | h; exact h; exact absurd rfl h
  | succ f ih =>
    simp only [hexAux]
    split
    · simp
    · exact ih _ _ (Or.inl (by simp))

theorem hex02_plainWord (n : Nat) : PlainWord (hex02 n) := by
  unfold hex02
  split
  · exact ⟨by simp, allPlain_cons (by decide) (allPlain_cons (hexDigit_plain n (by omega)) allPlain_nil)⟩
  · exact ⟨hexAux_ne_nil _ _ _ (Or.inr (by omega)), hexAux_plain _ _ _ allPlain_nil⟩

theorem decAux_plain (f n : Nat) (acc : Str) (ha : AllPlain acc) : AllPlain (decAux f n acc) := by
  induction f generalizing n acc with
  | zero => exact ha
  | succ f ih =>
    simp only [decAux]
    split
    · exact allPlain_cons (by simp [plainCh]; omega) ha
    · exact ih _ _ (allPlain_cons (by simp [plainCh]; omega) ha)

theorem decAux_ne_nil (f n : Nat) (acc : Str) (h : acc ≠ [] ∨ f ≠ 0) : decAux f n acc ≠ [] := by
  induction f generalizing n acc with
  | zero => rcases h with h | h; exact h; exact absurd rfl h
  | succ f ih =>
    simp only [decAux]
    split
    · simp
    · exact ih _ _ (Or.inl (by simp))

theorem dec_plainWord (n : Nat) : PlainWord (dec n) :=
  ⟨decAux_ne_nil _ _ _ (Or.inr (by omega)), decAux_plain _ _ _ allPlain_nil⟩

/-- "0x" ++ two or more hex digits -/
theorem ox_plainWord (n : Nat) : PlainWord (48 :: 120 :: hex02 n) :=
  ⟨by simp, allPlain_cons (by decide) (allPlain_cons (by decide) (hex02_plainWord n).2)⟩

/-! ### the escaping is undone by the double-quote rules — for every string -/

theorem run_dq_esc (u : Str) (hu : NoNul u) (x : Str) (b : Bool) (av : List Str)
    (rd : List (Nat × Nat)) :
    run ⟨.dq, some x, b, av, rd⟩ (esc u) = ⟨.dq, some (x ++ u), b, av, rd⟩ := by
  induction u generalizing x with
  | nil => simp [esc]
  | cons c u ih =>
    have hc : c ≠ 0 := hu c (List.mem_cons_self)
    have hu' : NoNul u := fun d hd => hu d (List.mem_cons_of_mem _ hd)
    simp only [esc]
    by_cases hs : c = 92 ∨ c = 34 ∨ c = 36 ∨ c = 96
    · rw [if_pos hs, run_cons, run_cons]
      have h1 : step ⟨.dq, some x, b, av, rd⟩ 92 = ⟨.dqBs, some x, b, av, rd⟩ := by
        simp [step, stepDq]
      have h2 : step ⟨.dqBs, some x, b, av, rd⟩ c = ⟨.dq, some (x ++ [c]), b, av, rd⟩ := by
        have : c = 36 ∨ c = 96 ∨ c = 34 ∨ c = 92 := by omega
        simp [step, stepDqBs, hc, this, addChar]
      rw [h1, h2, ih hu']
      simp
    · rw [if_neg hs, run_cons]
      have h1 : step ⟨.dq, some x, b, av, rd⟩ c = ⟨.dq, some (x ++ [c]), b, av, rd⟩ := by
        have a1 : c ≠ 34 := by omega
        have a2 : c ≠ 92 := by omega
        have a3 : ¬ (c = 36 ∨ c = 96) := by omega
        simp [step, stepDq, hc, a1, a2, a3, addChar]
      rw [h1, ih hu']
      simp

/-- blank, then the escaped string between double quotes: exactly one word, the string itself -/
theorem seg_dq (u : Str) (hu : NoNul u) : Seg (32 :: 34 :: (esc u ++ [34])) [u] := by
  intro all b rd hne
  refine ⟨false, ?_⟩
  rw [run_cons, step_blank all b rd hne, run_cons]
  have h1 : step ⟨.unq, none, true, all, rd⟩ 34 = ⟨.dq, some [], false, all, rd⟩ := by
    simp [step, stepUnq]
  rw [h1, run_append, run_dq_esc u hu]
  simp [step, stepDq, stOf]

/-! ### the pieces the builders append -/

/-- ` -X word` -/
theorem seg_opt (l : Nat) (hl : plainCh l = true) (w : Str) (hw : PlainWord w) :
    Seg ([32, 45, l, 32] ++ w) [[45, l], w] := by
  have h1 : PlainWord [45, l] :=
    ⟨by simp, allPlain_cons (by decide) (allPlain_cons hl allPlain_nil)⟩
  simpa using seg_append (seg_plain [45, l] h1) (seg_plain w hw)

/-- ` -X "escaped"` -/
theorem seg_opt_dq (l : Nat) (hl : plainCh l = true) (u : Str) (hu : NoNul u) :
    Seg ([32, 45, l, 32, 34] ++ esc u ++ [34]) [[45, l], u] := by
  have h1 : PlainWord [45, l] :=
    ⟨by simp, allPlain_cons (by decide) (allPlain_cons hl allPlain_nil)⟩
  simpa using seg_append (seg_plain [45, l] h1) (seg_dq u hu)

/-- ` -X 0xNN` -/
theorem seg_opt_hex (l : Nat) (hl : plainCh l = true) (n : Nat) :
    Seg ([32, 45, l, 32, 48, 120] ++ hex02 n) [[45, l], 48 :: 120 :: hex02 n] := by
  simpa using seg_opt l hl _ (ox_plainWord n)

theorem joinWith_blank (w : Str) (ws : List Str) :
    32 :: joinWith [32] (w :: ws) = (w :: ws).flatMap (fun v => 32 :: v) := by
  induction ws generalizing w with
  | nil => simp [joinWith]
  | cons v vs ih =>
    have := ih v
    simp only [joinWith, List.flatMap_cons] at this ⊢
    simp [this]

theorem rawByte_plain (b : Nat) : PlainWord (fmtN rawByte b) := by
  simpa [fmtN, rawByte] using ox_plainWord b

/-- `_build_ipmitool_raw_data` adds `-l <lun> raw <netfn> <bytes…>` -/
theorem seg_raw (lun netfn : Nat) (raw : List Nat) :
    Seg (buildRaw lun netfn raw)
      ([[45, 108], dec lun, [114, 97, 119]] ++ (netfn :: raw).map (fun b => 48 :: 120 :: hex02 b)) := by
  have h1 := seg_opt 108 (by decide) (dec lun) (dec_plainWord lun)
  have h2 := seg_plain [114, 97, 119] ⟨by simp, by decide⟩
  have h3 := seg_plain_words ((netfn :: raw).map (fmtN rawByte)) (by
    intro w hw
    obtain ⟨b, _, rfl⟩ := List.mem_map.mp hw
    exact rawByte_plain b)
  have h := seg_append (seg_append h1 h2) h3
  have e : buildRaw lun netfn raw
      = (([32, 45, 108, 32] ++ dec lun) ++ (32 :: [114, 97, 119]))
        ++ ((netfn :: raw).map (fmtN rawByte)).flatMap (fun v => 32 :: v) := by
    have j := joinWith_blank (fmtN rawByte netfn) (raw.map (fmtN rawByte))
    simp only [List.map_cons]
    rw [← j]
    simp [buildRaw, fmtN, rawHead, rawSep]
  have e2 : (netfn :: raw).map (fmtN rawByte) = (netfn :: raw).map (fun b => 48 :: 120 :: hex02 b) := by
    apply List.map_congr_left
    intro b _
    simp [fmtN, rawByte]
  rw [e]
  rw [e2] at h ⊢
  simpa using h

/-- `_build_ipmitool_target`, in every case where the specification defines the options -/
theorem seg_target (t : Target) (ws : List Str)
    (h : Spec.Ipmitool.targetArgv t.toSpec = some ws) :
    ∃ s, buildTarget intended t = .ok s ∧ Seg s ws := by
  cases t with
  | none =>
    simp [Target.toSpec, Spec.Ipmitool.targetArgv] at h
    subst h
    exact ⟨[], rfl, seg_nil⟩
  | mk r a =>
    cases r with
    | none =>
      simp only [Target.toSpec, Spec.Ipmitool.targetArgv, Option.some.injEq] at h
      by_cases ha : a = 0
      · simp [ha] at h
        subst h
        exact ⟨[], by simp [buildTarget, ha], seg_nil⟩
      · simp [ha, Spec.Ipmitool.opt, Spec.Ipmitool.ox] at h
        subst h
        refine ⟨fmtN tAddr a, by simp [buildTarget, ha], ?_⟩
        rw [← hex02_eq]
        simpa [fmtN, tAddr] using seg_opt_hex 116 (by decide) a
    | some hs =>
      match hs, h with
      | [_], h =>
        simp [Target.toSpec, Spec.Ipmitool.targetArgv] at h
        subst h
        exact ⟨[], by simp [buildTarget, intended], seg_nil⟩
      | [h0, h1], h =>
        simp [Target.toSpec, Spec.Ipmitool.targetArgv, Spec.Ipmitool.opt, Spec.Ipmitool.ox] at h
        subst h
        refine ⟨_, rfl, ?_⟩
        rw [← hex02_eq, ← dec_eq]
        have := seg_append (seg_opt_hex 116 (by decide) h1.rsSa)
          (seg_opt 98 (by decide) (dec h0.chan) (dec_plainWord _))
        simpa [fmtN, t2, b2] using this
      | [h0, h1, h2], h =>
        simp [Target.toSpec, Spec.Ipmitool.targetArgv, Spec.Ipmitool.opt, Spec.Ipmitool.ox] at h
        subst h
        refine ⟨_, rfl, ?_⟩
        rw [← hex02_eq, ← hex02_eq, ← dec_eq, ← dec_eq]
        have := seg_append (seg_append (seg_append (seg_opt_hex 84 (by decide) h1.rsSa)
          (seg_opt 66 (by decide) (dec h0.chan) (dec_plainWord _)))
          (seg_opt_hex 116 (by decide) h2.rsSa))
          (seg_opt 98 (by decide) (dec h1.chan) (dec_plainWord _))
        simpa [fmtN, tt3, bb3, t3, b3] using this
      | [], h => simp [Target.toSpec, Spec.Ipmitool.targetArgv] at h
      | _ :: _ :: _ :: _ :: _, h => simp [Target.toSpec, Spec.Ipmitool.targetArgv] at h

/-- `' -C %s' % cipher`, present exactly when a cipher was configured -/
theorem seg_cipher (c : Cipher) (h : ∀ tr x, c = .val tr x → PlainWord x) :
    Seg (cipherPart intended c) (Spec.Ipmitool.cipherArgv c.toSpec) := by
  cases c with
  | none => exact seg_nil
  | val tr x =>
    have := seg_opt 67 (by decide) x (h tr x rfl)
    simpa [cipherPart, intended, fmtS, fCipher, Cipher.toSpec, Spec.Ipmitool.cipherArgv,
      Spec.Ipmitool.opt] using this

/-- the credentials: `-U "…" -P "…"` with the escaping, `-P ""` without credentials -/
theorem seg_auth (a : Auth) (cr : Option (Str × Str)) (h : a.toSpec = some cr)
    (hn : ∀ u p, a = .password u p → NoNul u ∧ NoNul p) :
    ∃ s, authPart intended a = .ok s ∧ Seg s (Spec.Ipmitool.credArgv cr) := by
  cases a with
  | none =>
    simp [Auth.toSpec] at h
    subst h
    refine ⟨noAuth, rfl, ?_⟩
    have := seg_opt_dq 80 (by decide) [] (by intro c hc; cases hc)
    simpa [esc, noAuth, Spec.Ipmitool.credArgv, Spec.Ipmitool.opt] using this
  | password u p =>
    simp [Auth.toSpec] at h
    subst h
    obtain ⟨hu, hp⟩ := hn u p rfl
    refine ⟨_, rfl, ?_⟩
    have := seg_append (seg_opt_dq 85 (by decide) u hu) (seg_opt_dq 80 (by decide) p hp)
    simpa [cred, intended, fmtS, fUser, fPass, Spec.Ipmitool.credArgv, Spec.Ipmitool.opt] using this
  | other n => simp [Auth.toSpec] at h

theorem level_agree (l : Nat) (lv : Str) (h : Spec.Ipmitool.levelName l = some lv) :
    lookupLevel l = .ok lv ∧ PlainWord lv := by
  unfold Spec.Ipmitool.levelName at h
  split at h
  · injection h with h; subst h; exact ⟨rfl, by decide⟩
  · injection h with h; subst h; exact ⟨rfl, by decide⟩
  · injection h with h; subst h; exact ⟨rfl, by decide⟩
  · cases h

/-- tokenising a whole line: first word, one segment, ` 2>&1` -/
theorem words_of_seg_redirect (w : Str) (hw : PlainWord w) (hres : reserved.contains w = false)
    (s : Str) (ws : List Str) (hs : Seg s ws) :
    words (w ++ (s ++ [32, 50, 62, 38, 49])) = .ok (w :: ws) [(2, 1)] := by
  obtain ⟨b', e⟩ := hs [w] true [] (by simp)
  rw [words, run_append, run_append, run_first w hw, e, finish_redirect _ _ (by simp)]
  exact finishOk_cons _ _ _ hres

/-- … without a redirection -/
theorem words_of_seg (w : Str) (hw : PlainWord w) (hres : reserved.contains w = false)
    (s : Str) (ws : List Str) (hs : Seg s ws) :
    words (w ++ s) = .ok (w :: ws) [] := by
  obtain ⟨b', e⟩ := hs [w] true [] (by simp)
  rw [words, run_append, run_first w hw, e, finish_plain _ _ _ (by simp)]
  exact finishOk_cons _ _ _ hres

/-- `_build_ipmitool_cmd` (as intended): whenever the specification defines the argument vector,
a command line is built and a POSIX shell splits it into exactly that vector, stderr joined to
stdout. -/
theorem lan_words (c : Lan) (t : Target) (lun netfn : Nat) (raw : List Nat)
    (sc : Spec.Ipmitool.Lan) (argv : List Str)
    (hsc : c.toSpec = some sc)
    (hargv : Spec.Ipmitool.lanArgv sc t.toSpec lun netfn raw = some argv)
    (hpath : PlainWord c.path) (hres : reserved.contains c.path = false)
    (hiface : PlainWord c.iface) (hhost : PlainWord c.host) (hport : PlainWord c.port)
    (hcipher : ∀ tr x, c.cipher = .val tr x → PlainWord x)
    (hcred : ∀ u p, c.auth = .password u p → NoNul u ∧ NoNul p) :
    ∃ cmd, buildLan intended c t lun netfn raw = .ok cmd ∧ words cmd = .ok argv [(2, 1)] := by
  obtain ⟨cr, hcr, rfl⟩ : ∃ cr, c.auth.toSpec = some cr
      ∧ sc = ⟨c.path, c.iface, c.host, c.port, c.level, c.cipher.toSpec, cr⟩ := by
    simp only [Lan.toSpec, Option.map_eq_some_iff] at hsc
    obtain ⟨cr, h1, h2⟩ := hsc
    exact ⟨cr, h1, h2.symm⟩
  simp only [Spec.Ipmitool.lanArgv, Option.bind_eq_bind, Option.bind_eq_some_iff, Option.pure_def,
    Option.some.injEq] at hargv
  obtain ⟨lv, hlv, tg, htg, rfl⟩ := hargv
  obtain ⟨hl1, hl2⟩ := level_agree _ _ hlv
  obtain ⟨sa, ha1, ha2⟩ := seg_auth c.auth cr hcr hcred
  obtain ⟨st, ht1, ht2⟩ := seg_target t tg htg
  have hseg := seg_append (seg_opt 73 (by decide) c.iface hiface)
    (seg_append (seg_opt 72 (by decide) c.host hhost)
    (seg_append (seg_opt 112 (by decide) c.port hport)
    (seg_append (seg_opt 76 (by decide) lv hl2)
    (seg_append (seg_cipher c.cipher hcipher)
    (seg_append ha2 (seg_append ht2 (seg_raw lun netfn raw)))))))
  refine ⟨_, by simp [buildLan, hl1, ha1, ht1, Outcome.bind]; rfl, ?_⟩
  have := words_of_seg_redirect c.path hpath hres _ _ hseg
  simpa [fmtS, fIface, fHost, fPort, fLevel, redirect, Spec.Ipmitool.opt, Spec.Ipmitool.rawArgv,
    Spec.Ipmitool.ox, ← hex02_eq, ← dec_eq] using this

/-- `_build_open_ipmitool_cmd` -/
theorem open_words (path iface : Str) (t : Target) (lun netfn : Nat) (raw : List Nat) (argv : List Str)
    (hargv : Spec.Ipmitool.openArgv path iface t.toSpec lun netfn raw = some argv)
    (hpath : PlainWord path) (hres : reserved.contains path = false) (hiface : PlainWord iface) :
    ∃ cmd, buildOpen intended path iface t lun netfn raw = .ok cmd ∧ words cmd = .ok argv [(2, 1)] := by
  simp only [Spec.Ipmitool.openArgv, Option.bind_eq_bind, Option.bind_eq_some_iff, Option.pure_def,
    Option.some.injEq] at hargv
  obtain ⟨tg, htg, rfl⟩ := hargv
  obtain ⟨st, ht1, ht2⟩ := seg_target t tg htg
  have hseg := seg_append (seg_opt 73 (by decide) iface hiface) (seg_append ht2 (seg_raw lun netfn raw))
  refine ⟨_, by simp [buildOpen, ht1, Outcome.bind]; rfl, ?_⟩
  have := words_of_seg_redirect path hpath hres _ _ hseg
  simpa [fmtS, oIface, openRedirect, Spec.Ipmitool.opt, Spec.Ipmitool.rawArgv, Spec.Ipmitool.ox,
    ← hex02_eq, ← dec_eq] using this

/-- `_build_serial_ipmitool_cmd` (no redirection in the pinned source) -/
theorem serial_words (path iface port baud : Str) (t : Target) (lun netfn : Nat) (raw : List Nat)
    (argv : List Str)
    (hargv : Spec.Ipmitool.serialArgv path iface port baud t.toSpec lun netfn raw = some argv)
    (hpath : PlainWord path) (hres : reserved.contains path = false) (hiface : PlainWord iface)
    (hport : PlainWord port) (hbaud : PlainWord baud) :
    ∃ cmd, buildSerial intended path iface port baud t lun netfn raw = .ok cmd
      ∧ words cmd = .ok argv [] := by
  simp only [Spec.Ipmitool.serialArgv, Option.bind_eq_bind, Option.bind_eq_some_iff, Option.pure_def,
    Option.some.injEq] at hargv
  obtain ⟨tg, htg, rfl⟩ := hargv
  obtain ⟨st, ht1, ht2⟩ := seg_target t tg htg
  have hdev : PlainWord (port ++ [58] ++ baud) :=
    ⟨by simp [hport.1], allPlain_append (allPlain_append hport.2 (by decide)) hbaud.2⟩
  have hseg := seg_append (seg_opt 73 (by decide) iface hiface)
    (seg_append (seg_opt 68 (by decide) _ hdev) (seg_append ht2 (seg_raw lun netfn raw)))
  refine ⟨_, by simp [buildSerial, ht1, Outcome.bind]; rfl, ?_⟩
  have := words_of_seg path hpath hres _ _ hseg
  simpa [serial, serialPiece, serialRedirect, Spec.Ipmitool.opt, Spec.Ipmitool.rawArgv,
    Spec.Ipmitool.ox, ← hex02_eq, ← dec_eq] using this

/-- the privilege level of `rmcp_ping`: spelled out unless it is ipmitool's default -/
theorem seg_ping_level (level : Nat) (lv : Str) (h : Spec.Ipmitool.levelName level = some lv) :
    ∃ s, pingLevelPart intended level = .ok s
      ∧ Seg s (Spec.Ipmitool.levelArgvD (decide (level ≠ 4)) lv) := by
  unfold Spec.Ipmitool.levelName at h
  split at h
  · injection h with h; subst h
    refine ⟨_, rfl, ?_⟩
    have := seg_opt 76 (by decide) [85, 83, 69, 82] (by decide)
    simpa [fmtS, fLevel, Spec.Ipmitool.levelArgvD, Spec.Ipmitool.defaultLevel, Spec.Ipmitool.opt] using this
  · injection h with h; subst h
    refine ⟨_, rfl, ?_⟩
    have := seg_opt 76 (by decide) [79, 80, 69, 82, 65, 84, 79, 82] (by decide)
    simpa [fmtS, fLevel, Spec.Ipmitool.levelArgvD, Spec.Ipmitool.defaultLevel, Spec.Ipmitool.opt] using this
  · injection h with h; subst h
    refine ⟨[], rfl, ?_⟩
    simpa [Spec.Ipmitool.levelArgvD, Spec.Ipmitool.defaultLevel] using seg_nil
  · cases h

theorem seg_ping_cipher (c : Cipher) (h : ∀ tr x, c = .val tr x → PlainWord x) :
    Seg (pingCipherPart intended c) (Spec.Ipmitool.cipherArgv c.toSpec) := by
  cases c with
  | none => exact seg_nil
  | val tr x =>
    have := seg_opt 67 (by decide) x (h tr x rfl)
    simpa [pingCipherPart, intended, fmtS, pCipher, fCipher, Cipher.toSpec, Spec.Ipmitool.cipherArgv,
      Spec.Ipmitool.opt] using this

/-- the command of `rmcp_ping` (intended): the shell hands ipmitool the specified vector, `-L` left
out exactly for the default level -/
theorem ping_words (path iface host port : Str) (level : Nat) (c : Cipher) (a : Auth)
    (cr : Option (Str × Str)) (argv : List Str)
    (hcr : a.toSpec = some cr) (hser : iface ≠ pingRefused)
    (hargv : Spec.Ipmitool.pingArgv (decide (level ≠ 4)) path iface host port level c.toSpec cr = some argv)
    (hpath : PlainWord path) (hres : reserved.contains path = false) (hiface : PlainWord iface)
    (hhost : PlainWord host) (hport : PlainWord port)
    (hcipher : ∀ tr x, c = .val tr x → PlainWord x)
    (hcred : ∀ u p, a = .password u p → NoNul u ∧ NoNul p) :
    ∃ cmd, buildPing intended path iface host port level c a = .ok cmd ∧ words cmd = .ok argv [] := by
  simp only [Spec.Ipmitool.pingArgv, Option.bind_eq_bind, Option.bind_eq_some_iff, Option.pure_def,
    Option.some.injEq] at hargv
  obtain ⟨lv, hlv, rfl⟩ := hargv
  obtain ⟨sl, hl1, hl2⟩ := seg_ping_level level lv hlv
  have hauth : Seg (pingAuthPart intended a) (Spec.Ipmitool.pingCredArgv cr) := by
    cases a with
    | none =>
      simp [Auth.toSpec] at hcr
      subst hcr
      have := seg_opt 65 (by decide) [78, 79, 78, 69] (by decide)
      simpa [pingAuthPart, pNoAuth, Spec.Ipmitool.pingCredArgv, Spec.Ipmitool.opt] using this
    | password u p =>
      simp [Auth.toSpec] at hcr
      subst hcr
      obtain ⟨hu, hp⟩ := hcred u p rfl
      have := seg_append (seg_opt_dq 85 (by decide) u hu) (seg_opt_dq 80 (by decide) p hp)
      simpa [pingAuthPart, cred, intended, fmtS, pUser, pPass, Spec.Ipmitool.pingCredArgv,
        Spec.Ipmitool.opt] using this
    | other n => simp [Auth.toSpec] at hcr
  have htail := seg_plain_words [[115, 101, 115, 115, 105, 111, 110], [105, 110, 102, 111], [97, 108, 108]]
    (by decide)
  have hseg := seg_append (seg_opt 73 (by decide) iface hiface)
    (seg_append (seg_opt 72 (by decide) host hhost)
    (seg_append (seg_opt 112 (by decide) port hport)
    (seg_append hl2 (seg_append (seg_ping_cipher c hcipher) (seg_append hauth htail)))))
  refine ⟨_, by simp [buildPing, hser, hl1]; rfl, ?_⟩
  have := words_of_seg path hpath hres _ _ hseg
  simpa [fmtS, pIface, pHost, pPort, pTail, Spec.Ipmitool.opt] using this

end PyIpmi.Model.Ipmitool
