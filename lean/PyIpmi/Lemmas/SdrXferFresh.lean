/-
  Lemmas/SdrXferFresh.lean — C13 (record-chunk fetching "always uses the most recently obtained
  reservation"): the exchange trace of the SDR transfer model over an ARBITRARY transport.

  `heldAfter s cur t` is the reservation id of store `s` a requester holds after the exchanges `t`
  when it held `cur` before: the id of the last `Reserve s` answered with a reservation, `cur` if
  there is none.  `freshTrace s cur t` says that every Get of store `s` in `t` carries (in its
  16-bit field) the id held at that point.  With the renewed id handed on (`staleRes = false`) and
  each reader renewing with its own store's Reserve, the trace of a chunk read, of
  get_sdr_data_helper and of a listing is fresh — by induction over the three nested loops, for
  every transport (device, outcome script, anything).
-/
import PyIpmi.Lemmas.SdrXferList
namespace PyIpmi.Model.SdrXfer
open PyIpmi PyIpmi.Model.Retry PyIpmi.Spec.Sdr
set_option linter.unusedSimpArgs false
set_option linter.unusedVariables false

/-- the reservation id of store `s` held after one more exchange -/
def heldStep (s : Store) (cur : Nat) (e : Req × Rsp) : Nat :=
  match e with
  | (.reserve s', .reserved id) => if s' = s then id else cur
  | _ => cur

/-- a Get of store `s` carries the id held (the request field keeps 16 bits) -/
def carriesHeld (s : Store) (cur : Nat) (e : Req × Rsp) : Bool :=
  match e with
  | (.get s' res _ _ _, _) => decide (s' = s → res = cur % 65536)
  | _ => true

def heldAfter (s : Store) : Nat → List (Req × Rsp) → Nat
  | cur, [] => cur
  | cur, e :: rest => heldAfter s (heldStep s cur e) rest

def freshTrace (s : Store) : Nat → List (Req × Rsp) → Bool
  | _, [] => true
  | cur, e :: rest => carriesHeld s cur e && freshTrace s (heldStep s cur e) rest

theorem heldAfter_append (s : Store) (cur : Nat) (a b : List (Req × Rsp)) :
    heldAfter s cur (a ++ b) = heldAfter s (heldAfter s cur a) b := by
  induction a generalizing cur with
  | nil => rfl
  | cons e a ih => simp only [List.cons_append, heldAfter]; exact ih _

theorem freshTrace_append (s : Store) (cur : Nat) (a b : List (Req × Rsp)) :
    freshTrace s cur (a ++ b) = (freshTrace s cur a && freshTrace s (heldAfter s cur a) b) := by
  induction a generalizing cur with
  | nil => simp [freshTrace, heldAfter]
  | cons e a ih => simp only [List.cons_append, freshTrace, heldAfter, ih, Bool.and_assoc]

/-- index form: a Get of store `s` at position `i` carries the id held after the first `i` exchanges -/
theorem freshTrace_get {s : Store} {cur : Nat} {t : List (Req × Rsp)} (h : freshTrace s cur t = true)
    (i : Nat) (res rid off cnt : Nat) (a : Rsp) (hi : t[i]? = some (.get s res rid off cnt, a)) :
    res = heldAfter s cur (t.take i) % 65536 := by
  induction t generalizing cur i with
  | nil => simp at hi
  | cons e t ih =>
    simp only [freshTrace, Bool.and_eq_true] at h
    cases i with
    | zero =>
      simp at hi
      subst hi
      simpa [carriesHeld, heldAfter] using h.1
    | succ i =>
      simp at hi
      simpa [heldAfter] using ih h.2 i hi

/-- `b` continues the trace of `a` by exchanges whose Gets carry the id held, `res` before and
`res'` after -/
def FExt {τ : Type} (s : Store) (a b : τ × List (Req × Rsp)) (res res' : Nat) : Prop :=
  ∃ ext, b.2 = a.2 ++ ext ∧ freshTrace s res ext = true ∧ res' = heldAfter s res ext

theorem FExt.refl {τ : Type} (s : Store) (a : τ × List (Req × Rsp)) (res : Nat) : FExt s a a res res :=
  ⟨[], by simp, rfl, rfl⟩

theorem FExt.trans {τ : Type} {s : Store} {a b c : τ × List (Req × Rsp)} {r0 r1 r2 : Nat}
    (h1 : FExt s a b r0 r1) (h2 : FExt s b c r1 r2) : FExt s a c r0 r2 := by
  obtain ⟨e1, hb, f1, rfl⟩ := h1
  obtain ⟨e2, hc, f2, rfl⟩ := h2
  refine ⟨e1 ++ e2, by rw [hc, hb, List.append_assoc], ?_, ?_⟩
  · rw [freshTrace_append, f1, f2]; rfl
  · rw [heldAfter_append]

theorem FExt.fresh {τ : Type} {s : Store} {a b : τ × List (Req × Rsp)} {r0 r1 : Nat} (h : FExt s a b r0 r1)
    (ha : a.2 = []) : freshTrace s r0 b.2 = true := by
  obtain ⟨e, hb, f, _⟩ := h
  rw [hb, ha]; simpa using f

theorem chunkRes_succ {σ ρ : Type} (C : Consts) (send : σ → Nat → σ × Outcome (Nat × ρ))
    (reserve : σ → σ × Outcome Nat) (r : Nat) (st : σ) (res : Nat) :
    chunkRes C send reserve (r + 1) st res =
      if r = 0 then res else
      match send st res with
      | (st1, .ok (cc, _)) =>
        if cc = C.ccOk then res
        else if cc = C.chunkRenew then
          match reserve st1 with
          | (st2, .ok res') => chunkRes C send reserve r st2 res'
          | (_, _) => res
        else if cc = C.chunkRetry1 ∨ cc = C.chunkRetry2 then chunkRes C send reserve r st1 res
        else res
      | (_, _) => res := by
  rw [chunkRes]
  rfl

section trace
variable {σ : Type} (x : Xport σ)

/-- one `send_fn(req)`: one more exchange - a Get of store `s` carrying `res` -/
theorem sendGet_carries (s : Store) (id off cnt : Nat) (st : σ × List (Req × Rsp)) (res : Nat) :
    FExt s st (sendGet K (traced x) s id off cnt st res).1 res res := by
  unfold sendGet traced
  rcases hx : x st.1 (.get s (res % 65536) (id % 65536) (off % 256) (cnt % 256)) with ⟨st', r⟩
  cases r <;> exact ⟨[_], rfl, by simp [freshTrace, carriesHeld], by simp [heldAfter, heldStep]⟩

/-- the id held after `reserve_fn()`: the one it returned, the old one if it raised -/
def afterReserve (res : Nat) : Outcome Nat → Nat
  | .ok id => id
  | _ => res

/-- `reserve_fn()` of store `s`: one more exchange; the id returned is the id held afterwards -/
theorem reserve_holds (s : Store) (st : σ × List (Req × Rsp)) (res : Nat) :
    FExt s st (reserve K (traced x) s st).1 res (afterReserve res (reserve K (traced x) s st).2) := by
  unfold reserve traced
  rcases hx : x st.1 (.reserve s) with ⟨st', r⟩
  cases r with
  | reserved id =>
    exact ⟨[_], rfl, by simp [freshTrace, carriesHeld], by simp [heldAfter, heldStep, afterReserve]⟩
  | err c =>
    refine ⟨[_], rfl, by simp [freshTrace, carriesHeld], ?_⟩
    simp only [heldAfter, heldStep]
    split <;> rfl
  | data _ _ =>
    exact ⟨[_], rfl, by simp [freshTrace, carriesHeld], by simp [heldAfter, heldStep, afterReserve]⟩

/-- get_sdr_chunk_helper renewing with the Reserve command of the store it reads: every request
carries the id held, and `req.reservation_id` is the id held when the helper is left -/
theorem chunkLoop_fresh (s : Store) (id off cnt : Nat) :
    ∀ b st res, FExt s st
      (chunkLoop K (sendGet K (traced x) s id off cnt) (reserve K (traced x) s) b st res).1 res
      (chunkRes K (sendGet K (traced x) s id off cnt) (reserve K (traced x) s) b st res) := by
  intro b
  induction b with
  | zero => intro st res; simp [chunkLoop, chunkRes]; exact FExt.refl _ _ _
  | succ r ih =>
    intro st res
    rw [chunkLoop_succ, chunkRes_succ]
    by_cases hr0 : r = 0
    · simp [hr0]; exact FExt.refl _ _ _
    · simp only [if_neg hr0]
      have h1 := sendGet_carries x s id off cnt st res
      rcases hs : sendGet K (traced x) s id off cnt st res with ⟨st1, o⟩
      rw [hs] at h1
      simp only at h1
      cases o with
      | ok cp =>
        obtain ⟨cc, q⟩ := cp
        simp only
        by_cases c1 : cc = K.ccOk
        · simp only [if_pos c1]; exact h1
        · simp only [if_neg c1]
          by_cases c2 : cc = K.chunkRenew
          · simp only [if_pos c2]
            have h2 := reserve_holds x s st1 res
            rcases hq : reserve K (traced x) s st1 with ⟨st2, o2⟩
            rw [hq] at h2
            simp only at h2
            cases o2 with
            | ok id' => exact FExt.trans h1 (FExt.trans h2 (ih _ _))
            | _ => exact FExt.trans h1 h2
          · simp only [if_neg c2]
            by_cases c3 : cc = K.chunkRetry1 ∨ cc = K.chunkRetry2
            · simp only [if_pos c3]; exact FExt.trans h1 (ih _ _)
            · simp only [if_neg c3]; exact h1
      | _ => exact h1

/-- `get_fn` with the renewed id handed back (result or exception): the helper holds, afterwards,
the id held on the wire -/
theorem getFn_fresh (v : Variant) (hs : v.staleRes = false) (s : Store) (hren : v.renew s = s) (id : Nat)
    (st : σ × List (Req × Rsp)) (res off cnt : Nat) :
    FExt s st (getFn K v (traced x) s id st res off cnt).1.1 res (getFn K v (traced x) s id st res off cnt).2 := by
  unfold getFn getChunk
  simp only [hs, hren, Bool.false_eq_true, if_false]
  exact chunkLoop_fresh x s id off cnt _ _ _

/-- the chunk loop of get_sdr_data_helper over any `get_fn` that keeps the held id: every request
carries it, and the `reservation_id` returned is the id held at the end -/
theorem dataLoop_fresh {τ : Type} (s : Store) (X : XConsts) (v : Variant)
    (get : τ × List (Req × Rsp) → Nat → Nat → Nat → ((τ × List (Req × Rsp)) × Outcome (Nat × List Nat)) × Nat)
    (hget : ∀ st res off len, FExt s st (get st res off len).1.1 res (get st res off len).2) (recLen : Nat) :
    ∀ r m st res acc next last, ∃ res', FExt s st (dataLoop X v get recLen r m st res acc next last).1 res res' ∧
      ∀ p r', (dataLoop X v get recLen r m st res acc next last).2 = .ok (p, r') → r' = res' := by
  intro r
  induction r with
  | zero => intro m st res acc next last; simp [dataLoop]; exact ⟨res, FExt.refl _ _ _⟩
  | succ r ih =>
    intro m st res acc next last
    rw [dataLoop_succ]
    by_cases hr0 : r = 0
    · simp [hr0]; exact ⟨res, FExt.refl _ _ _⟩
    · simp only [if_neg hr0]
      have hg := hget st res acc.length (if acc.length + m > recLen then recLen - acc.length else m)
      rcases hgd : get st res acc.length (if acc.length + m > recLen then recLen - acc.length else m) with ⟨⟨st1, o⟩, res1⟩
      rw [hgd] at hg
      simp only at hg
      have stop : ∀ (e : Outcome ((Nat × List Nat) × Nat)), (∀ p r', e ≠ .ok (p, r')) →
          ∃ res', FExt s st (st1, e).1 res res' ∧ ∀ p r', (st1, e).2 = .ok (p, r') → r' = res' :=
        fun e he => ⟨res1, hg, fun p r' h => absurd h (he p r')⟩
      have go : ∀ m' acc' next' last', ∃ res', FExt s st (dataLoop X v get recLen r m' st1 res1 acc' next' last').1 res res' ∧
          ∀ p r', (dataLoop X v get recLen r m' st1 res1 acc' next' last').2 = .ok (p, r') → r' = res' := by
        intro m' acc' next' last'
        obtain ⟨res2, h2, hr2⟩ := ih m' st1 res1 acc' next' last'
        exact ⟨res2, FExt.trans hg h2, hr2⟩
      cases o with
      | ok p =>
        obtain ⟨nx, d⟩ := p
        simp only
        split
        · exact ⟨res1, hg, by intro p r' h; simp at h; exact h.2.symm⟩
        · exact go _ _ _ _
      | ccError c =>
        simp only
        split
        · split
          · split
            · exact stop _ (by intro p r' h; cases h)
            · exact stop _ (by intro p r' h; cases h)
          · split
            · split
              · exact ⟨res1, hg, by intro p r' h; simp at h; exact h.2.symm⟩
              · exact go _ _ _ _
            · exact go _ _ _ _
        · exact stop _ (by intro p r' h; cases h)
      | _ => exact stop _ (by intro p r' h; simp [recast] at h)

theorem getSdrDataWith_fresh (v : Variant) (hs : v.staleRes = false) (s : Store) (hren : v.renew s = s)
    (st : σ × List (Req × Rsp)) (id res : Nat) :
    ∃ res', FExt s st (getSdrDataWith K XK v (traced x) s st id res).1 res res' ∧
      ∀ p r', (getSdrDataWith K XK v (traced x) s st id res).2 = .ok (p, r') → r' = res' := by
  unfold getSdrDataWith
  have hc := getFn_fresh x v hs s hren id st res 0 XK.hdrLen
  rcases hgf : getFn K v (traced x) s id st res 0 XK.hdrLen with ⟨⟨st1, o⟩, res1⟩
  rw [hgf] at hc
  simp only at hc
  cases o with
  | ok p =>
    obtain ⟨nx, d⟩ := p
    simp only
    split
    · exact ⟨res1, hc, by intro p r' h; cases h⟩
    · obtain ⟨res2, h2, hr2⟩ := dataLoop_fresh s XK v _ (fun st res off len => getFn_fresh x v hs s hren (hdrId d) st res off len)
        (d.getD 4 0 + 5) XK.dataRetry XK.maxReqLen st1 res1 d nx d
      exact ⟨res2, FExt.trans hc h2, hr2⟩
  | _ => exact ⟨res1, hc, by intro p r' h; simp [recast] at h⟩

theorem getSdrDataR_fresh (v : Variant) (hs : v.staleRes = false) (s : Store) (hren : v.renew s = s)
    (st : σ × List (Req × Rsp)) (id : Nat) (res? : Option Nat) (cur0 : Nat) :
    ∃ res', FExt s st (getSdrDataR K XK v (traced x) s st id res?).1 (res?.getD cur0) res' ∧
      ∀ p r', (getSdrDataR K XK v (traced x) s st id res?).2 = .ok (p, r') → r' = res' := by
  unfold getSdrDataR
  cases res? with
  | some r => exact getSdrDataWith_fresh x v hs s hren st id r
  | none =>
    simp only [Option.getD]
    have hr := fun cur => reserve_holds x s st cur
    rcases hq : reserve K (traced x) s st with ⟨st0, o⟩
    rw [hq] at hr
    simp only at hr
    cases o with
    | ok r =>
      obtain ⟨res2, h2, hr2⟩ := getSdrDataWith_fresh x v hs s hren st0 id r
      exact ⟨res2, FExt.trans (hr cur0) h2, hr2⟩
    | _ => exact ⟨_, hr cur0, by intro p r' h; simp [recast] at h⟩

theorem entries_fresh (v : Variant) (hs : v.staleRes = false) (s : Store) (hren : v.renew s = s) :
    ∀ fuel (st : σ × List (Req × Rsp)) res id acc,
      ∃ res', FExt s st (entries K XK v (traced x) s fuel st res id acc).1 res res' := by
  intro fuel
  induction fuel with
  | zero => intro st res id acc; simp [entries]; exact ⟨res, FExt.refl _ _ _⟩
  | succ f ih =>
    intro st res id acc
    rw [entries]
    obtain ⟨res1, hg, hr1⟩ := getSdrDataR_fresh x v hs s hren st id (some res) 0
    simp only [Option.getD] at hg
    rcases hgd : getSdrDataR K XK v (traced x) s st id (some res) with ⟨st1, o⟩
    rw [hgd] at hg hr1
    simp only at hg hr1
    cases o with
    | ok p =>
      obtain ⟨⟨nx, d⟩, r'⟩ := p
      have := hr1 (nx, d) r' rfl
      subst this
      simp only [hs, Bool.false_eq_true, if_false]
      split
      · exact ⟨_, hg⟩
      · split
        · exact ⟨_, hg⟩
        · obtain ⟨res2, h2⟩ := ih st1 r' nx (acc ++ [d])
          exact ⟨res2, FExt.trans hg h2⟩
    | _ => exact ⟨_, hg⟩

theorem sdrList_fresh (v : Variant) (hs : v.staleRes = false) (s : Store) (hren : v.renew s = s) (fuel : Nat)
    (st : σ × List (Req × Rsp)) (cur0 : Nat) :
    ∃ res', FExt s st (sdrList K XK v (traced x) s fuel st).1 cur0 res' := by
  unfold sdrList
  have hr := reserve_holds x s st cur0
  rcases hq : reserve K (traced x) s st with ⟨st0, o⟩
  rw [hq] at hr
  simp only at hr
  cases o with
  | ok r =>
    obtain ⟨res2, h2⟩ := entries_fresh x v hs s hren fuel st0 r 0 []
    exact ⟨res2, FExt.trans hr h2⟩
  | _ => exact ⟨_, hr⟩

/-! ### bounded: how many exchanges an operation can make (any transport) -/

/-- `b` continues the trace of `a` by at most `n` exchanges -/
def Grows {τ : Type} (n : Nat) (a b : τ × List (Req × Rsp)) : Prop :=
  ∃ ext, b.2 = a.2 ++ ext ∧ ext.length ≤ n

theorem Grows.refl {τ : Type} (n : Nat) (a : τ × List (Req × Rsp)) : Grows n a a := ⟨[], by simp, by simp⟩

theorem Grows.trans {τ : Type} {a b c : τ × List (Req × Rsp)} {n m k : Nat} (h1 : Grows n a b) (h2 : Grows m b c)
    (hk : n + m ≤ k) : Grows k a c := by
  obtain ⟨e1, hb, l1⟩ := h1
  obtain ⟨e2, hc, l2⟩ := h2
  exact ⟨e1 ++ e2, by rw [hc, hb, List.append_assoc], by simp; omega⟩

theorem Grows.mono {τ : Type} {a b : τ × List (Req × Rsp)} {n k : Nat} (h : Grows n a b) (hk : n ≤ k) : Grows k a b := by
  obtain ⟨e, hb, l⟩ := h
  exact ⟨e, hb, by omega⟩

theorem sendGet_grows (s : Store) (id off cnt : Nat) (st : σ × List (Req × Rsp)) (res : Nat) :
    Grows 1 st (sendGet K (traced x) s id off cnt st res).1 := by
  unfold sendGet traced
  rcases hx : x st.1 (.get s (res % 65536) (id % 65536) (off % 256) (cnt % 256)) with ⟨st', r⟩
  cases r <;> exact ⟨[_], rfl, by simp⟩

theorem reserve_grows (s : Store) (st : σ × List (Req × Rsp)) : Grows 1 st (reserve K (traced x) s st).1 := by
  obtain ⟨a, h⟩ := reserve_traced x s st
  exact ⟨_, h, by simp⟩

/-- get_sdr_chunk_helper with budget `b`: at most `b - 1` requests and as many renewals -/
theorem chunkLoop_grows (s s' : Store) (id off cnt : Nat) :
    ∀ b st res, Grows (2 * (b - 1)) st
      (chunkLoop K (sendGet K (traced x) s id off cnt) (reserve K (traced x) s') b st res).1 := by
  intro b
  induction b with
  | zero => intro st res; simp [chunkLoop]; exact Grows.refl _ _
  | succ r ih =>
    intro st res
    rw [chunkLoop_succ]
    by_cases hr0 : r = 0
    · simp [hr0]; exact Grows.refl _ _
    · simp only [if_neg hr0]
      have h1 := sendGet_grows x s id off cnt st res
      rcases hs : sendGet K (traced x) s id off cnt st res with ⟨st1, o⟩
      rw [hs] at h1
      simp only at h1
      cases o with
      | ok cp =>
        obtain ⟨cc, q⟩ := cp
        simp only
        by_cases c1 : cc = K.ccOk
        · simp only [if_pos c1]; exact h1.mono (by omega)
        · simp only [if_neg c1]
          by_cases c2 : cc = K.chunkRenew
          · simp only [if_pos c2]
            have h2 := reserve_grows x s' st1
            rcases hq : reserve K (traced x) s' st1 with ⟨st2, o2⟩
            rw [hq] at h2
            simp only at h2
            have h12 : Grows 2 st st2 := h1.trans h2 (by omega)
            cases o2 with
            | ok id' => exact h12.trans (ih _ _) (by omega)
            | _ => exact h12.mono (by omega)
          · simp only [if_neg c2]
            by_cases c3 : cc = K.chunkRetry1 ∨ cc = K.chunkRetry2
            · simp only [if_pos c3]; exact h1.trans (ih _ _) (by omega)
            · simp only [if_neg c3]; exact h1.mono (by omega)
      | _ => exact h1.mono (by omega)

theorem getFn_grows (v : Variant) (s : Store) (id : Nat) (st : σ × List (Req × Rsp)) (res off cnt : Nat) :
    Grows (2 * (K.chunkRetryDefault - 1)) st (getFn K v (traced x) s id st res off cnt).1.1 := by
  unfold getFn getChunk
  exact chunkLoop_grows x s (v.renew s) id off cnt _ _ _

theorem dataLoop_grows {τ : Type} (n : Nat) (X : XConsts) (v : Variant)
    (get : τ × List (Req × Rsp) → Nat → Nat → Nat → ((τ × List (Req × Rsp)) × Outcome (Nat × List Nat)) × Nat)
    (hget : ∀ st res off len, Grows n st (get st res off len).1.1) (recLen : Nat) :
    ∀ r m st res acc next last, Grows (n * (r - 1)) st (dataLoop X v get recLen r m st res acc next last).1 := by
  intro r
  induction r with
  | zero => intro m st res acc next last; simp [dataLoop]; exact Grows.refl _ _
  | succ r ih =>
    intro m st res acc next last
    rw [dataLoop_succ]
    by_cases hr0 : r = 0
    · simp [hr0]; exact Grows.refl _ _
    · simp only [if_neg hr0]
      have hg := hget st res acc.length (if acc.length + m > recLen then recLen - acc.length else m)
      rcases hgd : get st res acc.length (if acc.length + m > recLen then recLen - acc.length else m) with ⟨⟨st1, o⟩, res1⟩
      rw [hgd] at hg
      simp only at hg
      have hk : n + n * (r - 1) ≤ n * (r + 1 - 1) := by
        obtain ⟨q, rfl⟩ : ∃ q, r = q + 1 := ⟨r - 1, by omega⟩
        simp [Nat.mul_succ]; omega
      have hk1 : n ≤ n * (r + 1 - 1) := Nat.le_trans (Nat.le_add_right _ _) hk
      cases o with
      | ok p =>
        obtain ⟨nx, d⟩ := p
        simp only
        split
        · exact hg.mono hk1
        · exact hg.trans (ih _ _ _ _ _ _) hk
      | ccError c =>
        simp only
        split
        · split
          · exact hg.mono hk1
          · split
            · split
              · exact hg.mono hk1
              · exact hg.trans (ih _ _ _ _ _ _) hk
            · exact hg.trans (ih _ _ _ _ _ _) hk
        · exact hg.mono hk1
      | _ => exact hg.mono hk1

/-- get_repository_sdr / get_device_sdr: at most one Reserve, the header read and `retry - 1` chunk
reads, each at most `2 * (chunk budget - 1)` exchanges -/
theorem getSdrDataR_grows (v : Variant) (s : Store) (st : σ × List (Req × Rsp)) (id : Nat) (res? : Option Nat) :
    Grows (1 + 2 * (K.chunkRetryDefault - 1) * XK.dataRetry) st (getSdrDataR K XK v (traced x) s st id res?).1 := by
  have key : ∀ st res, Grows (2 * (K.chunkRetryDefault - 1) * XK.dataRetry) st (getSdrDataWith K XK v (traced x) s st id res).1 := by
    intro st res
    unfold getSdrDataWith
    have hc := getFn_grows x v s id st res 0 XK.hdrLen
    rcases hgf : getFn K v (traced x) s id st res 0 XK.hdrLen with ⟨⟨st1, o⟩, res1⟩
    rw [hgf] at hc
    simp only at hc
    have hd : XK.dataRetry = (XK.dataRetry - 1) + 1 := by decide
    cases o with
    | ok p =>
      obtain ⟨nx, d⟩ := p
      simp only
      split
      · exact hc.mono (by rw [hd, Nat.mul_succ]; omega)
      · exact hc.trans (dataLoop_grows _ XK v _ (fun st res off len => getFn_grows x v s (hdrId d) st res off len)
          (d.getD 4 0 + 5) XK.dataRetry XK.maxReqLen st1 res1 d nx d) (by rw [hd, Nat.mul_succ]; simp; omega)
    | _ => exact hc.mono (by rw [hd, Nat.mul_succ]; omega)
  unfold getSdrDataR
  cases res? with
  | some r => exact (key st r).mono (by omega)
  | none =>
    simp only
    have hr := reserve_grows x s st
    rcases hq : reserve K (traced x) s st with ⟨st0, o⟩
    rw [hq] at hr
    simp only at hr
    cases o with
    | ok r => exact hr.trans (key st0 r) (by omega)
    | _ => exact hr.mono (by omega)

end trace

end PyIpmi.Model.SdrXfer
