/-
  Lemmas/LoopsProgress.lean — progress of the REPAIRED receive loop (`Cfg.requeue = false`, `cmdOnly = false`):
  unrelated frames cost one unit of the inner budget each, bare acknowledgements of the transaction in
  hand cost nothing, a time-out costs one unit of the outer budget and resets the inner one; `_q` stays empty.
-/
import PyIpmi.Lemmas.Loops
namespace PyIpmi.Loops
open PyIpmi PyIpmi.Spec.Attribution

/-- How the loop body treats one socket event while `_q` is empty:
`some true` = filtered and rejected (counts), `some false` = bare acknowledgement (free),
`none` = anything else (time-out, exception, accepted reply). -/
def evKind (cfg : Cfg) (bridge : Option Hdr) (h : Hdr) (ev : RxEvent) : Option Bool :=
  match recvIpmi cfg ev with
  | .got f =>
    match classify cfg.cmdOnly cfg.checkSeq bridge h f with
    | .noise _ => some true
    | .ack => some false
    | _ => none
  | _ => none

def Benign (cfg : Cfg) (bridge : Option Hdr) (h : Hdr) (l : List RxEvent) : Prop :=
  ∀ e ∈ l, (evKind cfg bridge h e).isSome = true

def noiseCount (cfg : Cfg) (bridge : Option Hdr) (h : Hdr) : List RxEvent → Nat
  | [] => 0
  | e :: l => (if evKind cfg bridge h e = some true then 1 else 0) + noiseCount cfg bridge h l

/-- The event is a datagram whose (possibly embedded) content passes the filter. -/
def IsHit (cfg : Cfg) (bridge : Option Hdr) (h : Hdr) (ev : RxEvent) (g : Frame) : Prop :=
  ∃ f, recvIpmi cfg ev = .got f ∧ classify cfg.cmdOnly cfg.checkSeq bridge h f = .hit g

theorem inner_cons_free (cfg : Cfg) (bridge : Option Hdr) (h : Hdr) (b : Nat) (e : RxEvent) (X : List RxEvent)
    (hk : evKind cfg bridge h e = some false) :
    inner cfg bridge h (b + 1) [] (e :: X) = inner cfg bridge h (b + 1) [] X := by
  unfold evKind at hk
  split at hk
  · rename_i f hr
    split at hk
    · cases hk
    · rename_i hc
      simp [inner, nextQ, nextSock, hr, hc]
    · cases hk
  · cases hk

theorem inner_cons_noise (cfg : Cfg) (hq : cfg.requeue = false) (bridge : Option Hdr) (h : Hdr) (b : Nat)
    (e : RxEvent) (X : List RxEvent) (hk : evKind cfg bridge h e = some true) :
    inner cfg bridge h (b + 1) [] (e :: X) = inner cfg bridge h b [] X := by
  unfold evKind at hk
  split at hk
  · rename_i f hr
    split at hk
    · rename_i g hc
      simp [inner, nextQ, nextSock, hr, hc, hq]
    · cases hk
    · cases hk
  · cases hk

theorem inner_benign (cfg : Cfg) (hq : cfg.requeue = false) (bridge : Option Hdr) (h : Hdr) (pre : List RxEvent)
    (b : Nat) (X : List RxEvent) (hb : Benign cfg bridge h pre) (hc : noiseCount cfg bridge h pre < b) :
    inner cfg bridge h b [] (pre ++ X) = inner cfg bridge h (b - noiseCount cfg bridge h pre) [] X := by
  induction pre generalizing b with
  | nil => simp [noiseCount]
  | cons e pre ih =>
    have hbt : Benign cfg bridge h pre := fun x hx => hb x (List.mem_cons_of_mem _ hx)
    have he := hb e List.mem_cons_self
    simp only [noiseCount] at hc ⊢
    cases b with
    | zero => omega
    | succ b =>
      cases hk : evKind cfg bridge h e with
      | none => simp [hk] at he
      | some k =>
        cases k with
        | false =>
          simp only [List.cons_append, hk] at hc ⊢
          rw [inner_cons_free cfg bridge h b e _ hk, ih (b + 1) hbt (by simpa using hc)]
          simp
        | true =>
          simp only [List.cons_append, hk, if_true] at hc ⊢
          rw [inner_cons_noise cfg hq bridge h b e _ hk, ih b hbt (by omega)]
          congr 1
          omega

theorem inner_hit (cfg : Cfg) (bridge : Option Hdr) (h : Hdr) (b : Nat) (e : RxEvent) (g : Frame) (X : List RxEvent)
    (hh : IsHit cfg bridge h e g) : inner cfg bridge h (b + 1) [] (e :: X) = .done g [] X := by
  obtain ⟨f, hr, hc⟩ := hh
  simp [inner, nextQ, nextSock, hr, hc]

theorem inner_timeout (cfg : Cfg) (bridge : Option Hdr) (h : Hdr) (b : Nat) (X : List RxEvent) :
    inner cfg bridge h (b + 1) [] (.timeout :: X) = .timeout X := by
  simp [inner, nextQ, nextSock, recvIpmi]

theorem innerBudget_eq (cfg : Cfg) : innerBudget cfg = cfg.maxRetries + 1 := rfl
theorem outerBudget_eq (cfg : Cfg) : outerBudget cfg = cfg.maxRetries + 1 := rfl

/-- One round of the outer loop that ends in a time-out. -/
theorem outer_seg_timeout (cfg : Cfg) (hq : cfg.requeue = false) (bridge : Option Hdr) (h : Hdr) (r : Nat)
    (seg X : List RxEvent) (n : Nat) (hb : Benign cfg bridge h seg)
    (hc : noiseCount cfg bridge h seg ≤ cfg.maxRetries) :
    outer cfg bridge h (r + 1) [] (seg ++ .timeout :: X) n = outer cfg bridge h r [] X (n + 1) := by
  simp only [outer]
  rw [inner_benign cfg hq bridge h seg _ _ hb (by rw [innerBudget_eq]; omega)]
  have : innerBudget cfg - noiseCount cfg bridge h seg = (cfg.maxRetries - noiseCount cfg bridge h seg) + 1 := by
    rw [innerBudget_eq]; omega
  rw [this, inner_timeout]

/-- The round of the outer loop in which the reply arrives. -/
theorem outer_seg_hit (cfg : Cfg) (hq : cfg.requeue = false) (bridge : Option Hdr) (h : Hdr) (r : Nat)
    (seg : List RxEvent) (e : RxEvent) (g : Frame) (X : List RxEvent) (n : Nat) (hb : Benign cfg bridge h seg)
    (hc : noiseCount cfg bridge h seg ≤ cfg.maxRetries) (hh : IsHit cfg bridge h e g) :
    outer cfg bridge h (r + 1) [] (seg ++ e :: X) n =
      ⟨.ok (pySlice Gen.Loops04.rmcpDataLo Gen.Loops04.rmcpDataHi g), [], X, n + 1⟩ := by
  simp only [outer]
  rw [inner_benign cfg hq bridge h seg _ _ hb (by rw [innerBudget_eq]; omega)]
  have : innerBudget cfg - noiseCount cfg bridge h seg = (cfg.maxRetries - noiseCount cfg bridge h seg) + 1 := by
    rw [innerBudget_eq]; omega
  rw [this, inner_hit cfg bridge h _ e g X hh]

/-- Events of rounds that each end in a time-out. -/
def timedOutRounds : List (List RxEvent) → List RxEvent
  | [] => []
  | s :: ss => s ++ .timeout :: timedOutRounds ss

theorem outer_rounds (cfg : Cfg) (hq : cfg.requeue = false) (bridge : Option Hdr) (h : Hdr)
    (segs : List (List RxEvent)) (r : Nat)
    (last : List RxEvent) (e : RxEvent) (g : Frame) (X : List RxEvent) (n : Nat)
    (hr : segs.length < r)
    (hs : ∀ s ∈ segs, Benign cfg bridge h s ∧ noiseCount cfg bridge h s ≤ cfg.maxRetries)
    (hb : Benign cfg bridge h last) (hc : noiseCount cfg bridge h last ≤ cfg.maxRetries)
    (hh : IsHit cfg bridge h e g) :
    outer cfg bridge h r [] (timedOutRounds segs ++ (last ++ e :: X)) n =
      ⟨.ok (pySlice Gen.Loops04.rmcpDataLo Gen.Loops04.rmcpDataHi g), [], X, n + segs.length + 1⟩ := by
  induction segs generalizing r n with
  | nil =>
    cases r with
    | zero => simp at hr
    | succ r => simpa [timedOutRounds] using outer_seg_hit cfg hq bridge h r last e g X n hb hc hh
  | cons s ss ih =>
    cases r with
    | zero => simp at hr
    | succ r =>
      have h1 := hs s List.mem_cons_self
      simp only [timedOutRounds, List.append_assoc, List.cons_append]
      rw [outer_seg_timeout cfg hq bridge h r s _ n h1.1 h1.2]
      rw [ih r (n + 1) (by simpa using hr) (fun x hx => hs x (List.mem_cons_of_mem _ hx))]
      simp only [List.length_cons]
      congr 1
      omega

/-! ### `_q` stays empty once nothing is put back (since fixes/C04-1.diff) -/

def Next.queue : Next → List Frame
  | .counted _ _ q _ => q
  | .timeout _ => []
  | .abort _ q _ => q

theorem nextSock_queue (cfg : Cfg) (bridge : Option Hdr) (h : Hdr) (evs : List RxEvent) :
    (nextSock cfg bridge h evs).queue = [] := by
  induction evs with
  | nil => simp [nextSock, Next.queue]
  | cons ev rest ih =>
    simp only [nextSock]
    split
    · rfl
    · rfl
    · split
      · exact ih
      · rfl
      · rfl
      · rfl

def Inner.queue : Inner → List Frame
  | .done _ q _ => q
  | .exhausted q _ => q
  | .timeout _ => []
  | .abort _ q _ => q

theorem inner_queue_empty (cfg : Cfg) (hq : cfg.requeue = false) (bridge : Option Hdr) (h : Hdr) (b : Nat)
    (evs : List RxEvent) : (inner cfg bridge h b [] evs).queue = [] := by
  induction b generalizing evs with
  | zero => simp [inner, Inner.queue]
  | succ b ih =>
    simp only [inner, nextQ]
    have hs := nextSock_queue cfg bridge h evs
    split
    · rename_i g q' evs' heq
      rw [heq] at hs
      simpa [Inner.queue, Next.queue] using hs
    · rename_i g q' evs' heq
      rw [heq] at hs
      simp only [Next.queue] at hs
      subst hs
      simpa [hq] using ih evs'
    · rfl
    · rename_i e q' evs' heq
      rw [heq] at hs
      simpa [Inner.queue, Next.queue] using hs

theorem outer_queue_empty (cfg : Cfg) (hq : cfg.requeue = false) (bridge : Option Hdr) (h : Hdr) (r : Nat)
    (evs : List RxEvent) (n : Nat) : (outer cfg bridge h r [] evs n).queue = [] := by
  induction r generalizing evs n with
  | zero => simp [outer]
  | succ r ih =>
    simp only [outer]
    have hi := inner_queue_empty cfg hq bridge h (innerBudget cfg) evs
    split
    · rename_i g q' evs' heq
      rw [heq] at hi
      simpa [Inner.queue] using hi
    · rename_i q' evs' heq
      rw [heq] at hi
      simpa [Inner.queue] using hi
    · rename_i e q' evs' heq
      rw [heq] at hi
      simpa [Inner.queue] using hi
    · exact ih _ _

/-! ### the specification's vocabulary implies the model's (repaired recognition) -/

/-- the model's `bridge_header` for the specification's "bridged with sequence number s" -/
def bridgeOfSeq (bridged : Option Nat) : Option Hdr := bridged.map bridgeHdr

theorem bridgeHdr_rid (s : Nat) : (bridgeHdr s).rid = bridgeId s := rfl

theorem bridgeHdr_even (s : Nat) : (bridgeHdr s).netfn % 2 = 0 := by
  simp [bridgeHdr, Gen.Loops04.netfnApp]

theorem rxFilter_false_of {cs : Bool} {h : Hdr} {f : Frame} (hn : h.netfn % 2 = 0) (hl : 6 ≤ f.length)
    (hnr : ¬ isReplyTo cs h.rid f) : rxFilter cs h f = false := by
  cases hx : rxFilter cs h f with
  | false => rfl
  | true => exact absurd ((rxFilter_iff _ h f hn hl).1 hx) hnr

/-- a frame that is not a response to this transaction's own Send Message goes to the reply filter as it is -/
theorem classify_not_own (cs : Bool) (bridged : Option Nat) (h : Hdr) (f : Frame) (hl : 6 ≤ f.length)
    (hno : ¬ OwnSendMsgRsp cs bridged f) :
    classify false cs (bridgeOfSeq bridged) h f = plain cs h f := by
  unfold classify
  simp only [Bool.false_eq_true, if_false]
  cases bridged with
  | none => rfl
  | some s =>
    have hf : rxFilter cs (bridgeHdr s) f = false :=
      rxFilter_false_of (bridgeHdr_even s) hl (by rw [bridgeHdr_rid]; exact hno)
    simp [bridgeOfSeq, show ¬ f.length < 6 by omega, hf]

theorem unrelated_kind (cfg : Cfg) (hco : cfg.cmdOnly = false) (bridged : Option Nat) (h : Hdr)
    (hn : h.netfn % 2 = 0) (f : Frame) (hu : Unrelated cfg.checkSeq h.rid bridged f) :
    evKind cfg (bridgeOfSeq bridged) h (.frame f) = some true := by
  obtain ⟨hl, hnr, hno⟩ := hu
  have hne : f.isEmpty = false := by
    cases f with
    | nil => simp at hl
    | cons => rfl
  have hcls : classify cfg.cmdOnly cfg.checkSeq (bridgeOfSeq bridged) h f = .noise f := by
    rw [hco, classify_not_own _ _ _ _ hl hno]
    simp [plain, show ¬ f.length < 6 by omega, rxFilter_false_of hn hl hnr]
  simp [evKind, recvIpmi, hne, hcls]

theorem bareAck_kind (cfg : Cfg) (hco : cfg.cmdOnly = false) (bridged : Option Nat) (h : Hdr) (f : Frame)
    (ha : BareAck cfg.checkSeq bridged f) : evKind cfg (bridgeOfSeq bridged) h (.frame f) = some false := by
  obtain ⟨hl, h6, hown⟩ := ha
  cases bridged with
  | none => exact absurd hown (by simp [OwnSendMsgRsp])
  | some s =>
    have hr : isReplyTo cfg.checkSeq (bridgeId s) f := hown
    have hflt : rxFilter cfg.checkSeq (bridgeHdr s) f = true :=
      (rxFilter_iff _ _ f (bridgeHdr_even s) (by omega)).2 (by rw [bridgeHdr_rid]; exact hr)
    have hint : IntactSendMsgRsp f := ⟨by omega, hr.2.1, hr.2.2.1, hr.2.2.2.1, hr.2.2.2.2.1⟩
    have hrec := isSendMsgRsp_of_intact false hint
    match f, hl with
    | [a, b, c, d, e, x, y, z], _ =>
      simp only [byte, List.getD] at h6
      simp at h6
      subst h6
      have hpeel : peelN false 8 [a, b, c, d, e, x, 0, z] = .ok [] := by
        simp [peelN, hrec]
      simp [evKind, recvIpmi, classify, hco, bridgeOfSeq, hflt, hpeel, afterPeel]

theorem reply_isHit (cfg : Cfg) (hco : cfg.cmdOnly = false) (bridged : Option Nat) (h : Hdr)
    (hn : h.netfn % 2 = 0) (f : Frame) (hr : isReplyTo cfg.checkSeq h.rid f)
    (hno : ¬ OwnSendMsgRsp cfg.checkSeq bridged f) : IsHit cfg (bridgeOfSeq bridged) h (.frame f) f := by
  have hl : 6 ≤ f.length := hr.1
  have hne : f.isEmpty = false := by
    cases f with
    | nil => simp at hl
    | cons => rfl
  refine ⟨f, by simp [recvIpmi, hne], ?_⟩
  rw [hco, classify_not_own _ _ _ _ hl hno]
  simp [plain, show ¬ f.length < 6 by omega, (rxFilter_iff _ h f hn hl).2 hr]

/-! ### ipmb-dev / Aardvark: progress -/

/-- ticks the events of a list take -/
def dtSum : List I2cEvent → Nat
  | [] => 0
  | .frame dt _ :: l => dt + dtSum l
  | .badLen dt _ :: l => dt + dtSum l
  | .rdError dt :: l => dt + dtSum l
  | .idle :: l => dtSum l

/-- frames that are long enough to be looked at and are not the reply -/
def I2cNoise (h : Hdr) (l : List I2cEvent) : Prop :=
  ∀ e ∈ l, ∃ dt f, e = .frame dt f ∧ 6 ≤ f.length ∧ ¬ isReplyTo true h.rid f

/-- the attempt ends without a frame: nothing arrived, or the read failed -/
def I2cFail (e : I2cEvent) : Prop := e = .idle ∨ ∃ dt, e = .rdError dt

theorem recvRaw_noise (cfg : I2cCfg) (h : Hdr) (hn : h.netfn % 2 = 0) (noise : List I2cEvent) (el : Nat)
    (X : List I2cEvent) (hno : I2cNoise h noise) (ht : el + dtSum noise < cfg.timeout) :
    recvRaw cfg h el (noise ++ X) = recvRaw cfg h (el + dtSum noise) X := by
  induction noise generalizing el with
  | nil => simp [dtSum]
  | cons e noise ih =>
    obtain ⟨dt, f, he, hl, hr⟩ := hno e List.mem_cons_self
    subst he
    simp only [dtSum] at ht ⊢
    have hnt : ¬ cfg.timeout ≤ el := by omega
    have hf : rxFilter true h f = false := by
      cases hx : rxFilter true h f with
      | false => rfl
      | true => exact absurd ((rxFilter_iff _ h f hn hl).1 hx) hr
    have hcls : i2cFrame h f = .noise f := by
      unfold i2cFrame
      rw [if_neg (by omega), hf]
      simp
    simp only [List.cons_append, recvRaw, if_neg hnt, hcls]
    rw [ih (el + dt) (fun x hx => hno x (List.mem_cons_of_mem _ hx)) (by omega)]
    congr 1
    omega

theorem recvRaw_reply (cfg : I2cCfg) (h : Hdr) (hn : h.netfn % 2 = 0) (el dt : Nat) (f : Frame)
    (X : List I2cEvent) (ht : el < cfg.timeout) (hr : isReplyTo true h.rid f) :
    recvRaw cfg h el (.frame dt f :: X) = .got f X := by
  have hl : 6 ≤ f.length := hr.1
  have hcls : i2cFrame h f = .hit f := by
    unfold i2cFrame
    rw [if_neg (by omega), (rxFilter_iff _ h f hn hl).2 hr]
    simp
  have hnt : ¬ cfg.timeout ≤ el := by omega
  simp only [recvRaw, if_neg hnt, hcls]

theorem recvRaw_fail (cfg : I2cCfg) (h : Hdr) (el : Nat) (e : I2cEvent) (X : List I2cEvent)
    (ht : el < cfg.timeout) (hf : I2cFail e) :
    recvRaw cfg h el (e :: X) = .timeout X ∨ recvRaw cfg h el (e :: X) = .ioError X := by
  have hnt : ¬ cfg.timeout ≤ el := by omega
  rcases hf with hf | ⟨dt, hf⟩
  · subst hf; left; simp only [recvRaw, if_neg hnt]
  · subst hf; right; simp only [recvRaw, if_neg hnt]

/-- events of attempts that each end without a frame -/
def failedRounds : List (List I2cEvent × I2cEvent) → List I2cEvent
  | [] => []
  | (s, t) :: ss => s ++ t :: failedRounds ss

theorem i2cAttempts_rounds (cfg : I2cCfg) (h : Hdr) (hn : h.netfn % 2 = 0)
    (rounds : List (List I2cEvent × I2cEvent)) (n : Nat) (last : List I2cEvent) (dt : Nat) (f : Frame)
    (X : List I2cEvent) (s : Nat) (hr : rounds.length < n)
    (hs : ∀ p ∈ rounds, I2cNoise h p.1 ∧ dtSum p.1 < cfg.timeout ∧ I2cFail p.2)
    (hb : I2cNoise h last) (hc : dtSum last < cfg.timeout) (hrep : isReplyTo true h.rid f) :
    i2cAttempts cfg h n (failedRounds rounds ++ (last ++ .frame dt f :: X)) s =
      ⟨.ok (replyData f), X, s + rounds.length + 1⟩ := by
  induction rounds generalizing n s with
  | nil =>
    cases n with
    | zero => simp at hr
    | succ n =>
      simp only [failedRounds, List.nil_append, i2cAttempts]
      rw [recvRaw_noise cfg h hn last 0 _ hb (by omega), recvRaw_reply cfg h hn _ dt f X (by omega) hrep]
      simp [pySlice_eq_replyData]
  | cons p ps ih =>
    cases n with
    | zero => simp at hr
    | succ n =>
      obtain ⟨sg, t⟩ := p
      have h1 := hs (sg, t) List.mem_cons_self
      simp only at h1
      simp only [failedRounds, List.append_assoc, List.cons_append, i2cAttempts]
      rw [recvRaw_noise cfg h hn sg 0 _ h1.1 (by omega)]
      have hrest := ih n (s + 1) (by simpa using hr) (fun x hx => hs x (List.mem_cons_of_mem _ hx))
      rcases recvRaw_fail cfg h (0 + dtSum sg) t (failedRounds ps ++ (last ++ .frame dt f :: X))
          (by have := h1.2.1; omega) h1.2.2 with hf | hf
      · rw [hf]
        simp only
        rw [hrest]
        simp only [List.length_cons]
        congr 1
        omega
      · rw [hf]
        simp only
        rw [hrest]
        simp only [List.length_cons]
        congr 1
        omega

theorem noise_benign (cfg : Cfg) (hco : cfg.cmdOnly = false) (bridged : Option Nat) (h : Hdr)
    (hn : h.netfn % 2 = 0) (noise : List Frame)
    (hno : ∀ f ∈ noise, Unrelated cfg.checkSeq h.rid bridged f ∨ BareAck cfg.checkSeq bridged f) :
    Benign cfg (bridgeOfSeq bridged) h (noise.map .frame) ∧
    noiseCount cfg (bridgeOfSeq bridged) h (noise.map .frame) =
      (noise.filter fun f => !decide (BareAck cfg.checkSeq bridged f)).length := by
  induction noise with
  | nil => exact ⟨(fun _ hx => by cases hx), rfl⟩
  | cons f l ih =>
    obtain ⟨hb, hc⟩ := ih (fun x hx => hno x (List.mem_cons_of_mem _ hx))
    rcases hno f List.mem_cons_self with hu | ha
    · have hk := unrelated_kind cfg hco bridged h hn f hu
      have hna : ¬ BareAck cfg.checkSeq bridged f := fun ha => hu.2.2 ha.2.2
      refine ⟨fun e he => ?_, ?_⟩
      · simp only [List.map_cons, List.mem_cons] at he
        rcases he with he | he
        · rw [he, hk]; rfl
        · exact hb e he
      · simp [noiseCount, hk, hc, hna]
        omega
    · have hk := bareAck_kind cfg hco bridged h f ha
      refine ⟨fun e he => ?_, ?_⟩
      · simp only [List.map_cons, List.mem_cons] at he
        rcases he with he | he
        · rw [he, hk]; rfl
        · exact hb e he
      · simp [noiseCount, hk, hc, ha]

end PyIpmi.Loops
