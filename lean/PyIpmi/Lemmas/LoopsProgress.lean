/-
  Lemmas/LoopsProgress.lean — progress of the INTENDED receive loop (`Cfg.requeue = false`):
  unrelated frames cost one unit of the inner budget each, bare acknowledgements cost nothing,
  a time-out costs one unit of the outer budget and resets the inner one; `_q` stays empty.
-/
import PyIpmi.Lemmas.Loops
namespace PyIpmi.Loops
open PyIpmi PyIpmi.Spec.Attribution

/-- How the loop body treats one socket event while `_q` is empty:
`some true` = filtered and rejected (counts), `some false` = bare acknowledgement (free),
`none` = anything else (time-out, exception, accepted reply). -/
def evKind (cfg : Cfg) (h : Hdr) (ev : RxEvent) : Option Bool :=
  match recvIpmi cfg ev with
  | .got f =>
    match classify cfg.checkSeq h f with
    | .noise _ => some true
    | .ack => some false
    | _ => none
  | _ => none

def Benign (cfg : Cfg) (h : Hdr) (l : List RxEvent) : Prop := ∀ e ∈ l, (evKind cfg h e).isSome = true

def noiseCount (cfg : Cfg) (h : Hdr) : List RxEvent → Nat
  | [] => 0
  | e :: l => (if evKind cfg h e = some true then 1 else 0) + noiseCount cfg h l

/-- The event is a datagram whose (possibly embedded) content passes the filter. -/
def IsHit (cfg : Cfg) (h : Hdr) (ev : RxEvent) (g : Frame) : Prop :=
  ∃ f, recvIpmi cfg ev = .got f ∧ classify cfg.checkSeq h f = .hit g

theorem inner_cons_free (cfg : Cfg) (h : Hdr) (b : Nat) (e : RxEvent) (X : List RxEvent)
    (hk : evKind cfg h e = some false) :
    inner cfg h (b + 1) [] (e :: X) = inner cfg h (b + 1) [] X := by
  unfold evKind at hk
  split at hk
  · rename_i f hr
    split at hk
    · cases hk
    · rename_i hc
      simp [inner, nextQ, nextSock, hr, hc]
    · cases hk
  · cases hk

theorem inner_cons_noise (cfg : Cfg) (hq : cfg.requeue = false) (h : Hdr) (b : Nat) (e : RxEvent)
    (X : List RxEvent) (hk : evKind cfg h e = some true) :
    inner cfg h (b + 1) [] (e :: X) = inner cfg h b [] X := by
  unfold evKind at hk
  split at hk
  · rename_i f hr
    split at hk
    · rename_i g hc
      simp [inner, nextQ, nextSock, hr, hc, hq]
    · cases hk
    · cases hk
  · cases hk

theorem inner_benign (cfg : Cfg) (hq : cfg.requeue = false) (h : Hdr) (pre : List RxEvent) (b : Nat)
    (X : List RxEvent) (hb : Benign cfg h pre) (hc : noiseCount cfg h pre < b) :
    inner cfg h b [] (pre ++ X) = inner cfg h (b - noiseCount cfg h pre) [] X := by
  induction pre generalizing b with
  | nil => simp [noiseCount]
  | cons e pre ih =>
    have hbt : Benign cfg h pre := fun x hx => hb x (List.mem_cons_of_mem _ hx)
    have he := hb e List.mem_cons_self
    simp only [noiseCount] at hc ⊢
    cases b with
    | zero => omega
    | succ b =>
      cases hk : evKind cfg h e with
      | none => simp [hk] at he
      | some k =>
        cases k with
        | false =>
          simp only [List.cons_append, hk] at hc ⊢
          rw [inner_cons_free cfg h b e _ hk, ih (b + 1) hbt (by simpa using hc)]
          simp
        | true =>
          simp only [List.cons_append, hk, if_true] at hc ⊢
          rw [inner_cons_noise cfg hq h b e _ hk, ih b hbt (by omega)]
          congr 1
          omega

theorem inner_hit (cfg : Cfg) (h : Hdr) (b : Nat) (e : RxEvent) (g : Frame) (X : List RxEvent)
    (hh : IsHit cfg h e g) : inner cfg h (b + 1) [] (e :: X) = .done g [] X := by
  obtain ⟨f, hr, hc⟩ := hh
  simp [inner, nextQ, nextSock, hr, hc]

theorem inner_timeout (cfg : Cfg) (h : Hdr) (b : Nat) (X : List RxEvent) :
    inner cfg h (b + 1) [] (.timeout :: X) = .timeout X := by
  simp [inner, nextQ, nextSock, recvIpmi]

theorem innerBudget_eq (cfg : Cfg) : innerBudget cfg = cfg.maxRetries + 1 := rfl
theorem outerBudget_eq (cfg : Cfg) : outerBudget cfg = cfg.maxRetries + 1 := rfl

/-- One round of the outer loop that ends in a time-out. -/
theorem outer_seg_timeout (cfg : Cfg) (hq : cfg.requeue = false) (h : Hdr) (r : Nat) (seg X : List RxEvent)
    (n : Nat) (hb : Benign cfg h seg) (hc : noiseCount cfg h seg ≤ cfg.maxRetries) :
    outer cfg h (r + 1) [] (seg ++ .timeout :: X) n = outer cfg h r [] X (n + 1) := by
  simp only [outer]
  rw [inner_benign cfg hq h seg _ _ hb (by rw [innerBudget_eq]; omega)]
  have : innerBudget cfg - noiseCount cfg h seg = (cfg.maxRetries - noiseCount cfg h seg) + 1 := by
    rw [innerBudget_eq]; omega
  rw [this, inner_timeout]

/-- The round of the outer loop in which the reply arrives. -/
theorem outer_seg_hit (cfg : Cfg) (hq : cfg.requeue = false) (h : Hdr) (r : Nat) (seg : List RxEvent)
    (e : RxEvent) (g : Frame) (X : List RxEvent) (n : Nat) (hb : Benign cfg h seg)
    (hc : noiseCount cfg h seg ≤ cfg.maxRetries) (hh : IsHit cfg h e g) :
    outer cfg h (r + 1) [] (seg ++ e :: X) n =
      ⟨.ok (pySlice Gen.Loops04.rmcpDataLo Gen.Loops04.rmcpDataHi g), [], X, n + 1⟩ := by
  simp only [outer]
  rw [inner_benign cfg hq h seg _ _ hb (by rw [innerBudget_eq]; omega)]
  have : innerBudget cfg - noiseCount cfg h seg = (cfg.maxRetries - noiseCount cfg h seg) + 1 := by
    rw [innerBudget_eq]; omega
  rw [this, inner_hit cfg h _ e g X hh]

/-- Events of rounds that each end in a time-out. -/
def timedOutRounds : List (List RxEvent) → List RxEvent
  | [] => []
  | s :: ss => s ++ .timeout :: timedOutRounds ss

theorem outer_rounds (cfg : Cfg) (hq : cfg.requeue = false) (h : Hdr) (segs : List (List RxEvent)) (r : Nat)
    (last : List RxEvent) (e : RxEvent) (g : Frame) (X : List RxEvent) (n : Nat)
    (hr : segs.length < r)
    (hs : ∀ s ∈ segs, Benign cfg h s ∧ noiseCount cfg h s ≤ cfg.maxRetries)
    (hb : Benign cfg h last) (hc : noiseCount cfg h last ≤ cfg.maxRetries) (hh : IsHit cfg h e g) :
    outer cfg h r [] (timedOutRounds segs ++ (last ++ e :: X)) n =
      ⟨.ok (pySlice Gen.Loops04.rmcpDataLo Gen.Loops04.rmcpDataHi g), [], X, n + segs.length + 1⟩ := by
  induction segs generalizing r n with
  | nil =>
    cases r with
    | zero => simp at hr
    | succ r => simpa [timedOutRounds] using outer_seg_hit cfg hq h r last e g X n hb hc hh
  | cons s ss ih =>
    cases r with
    | zero => simp at hr
    | succ r =>
      have h1 := hs s List.mem_cons_self
      simp only [timedOutRounds, List.append_assoc, List.cons_append]
      rw [outer_seg_timeout cfg hq h r s _ n h1.1 h1.2]
      rw [ih r (n + 1) (by simpa using hr) (fun x hx => hs x (List.mem_cons_of_mem _ hx))]
      simp only [List.length_cons]
      congr 1
      omega

/-! ### `_q` stays empty in the intended variant -/

def Next.queue : Next → List Frame
  | .counted _ _ q _ => q
  | .timeout _ => []
  | .abort _ q _ => q

theorem nextSock_queue (cfg : Cfg) (h : Hdr) (evs : List RxEvent) :
    (nextSock cfg h evs).queue = [] := by
  induction evs with
  | nil => simp [nextSock, Next.queue]
  | cons ev rest ih =>
    simp only [nextSock]
    split
    · rfl
    · rfl
    · split
      · exact ih
      · rfl
      · rfl
      · rfl

def Inner.queue : Inner → List Frame
  | .done _ q _ => q
  | .exhausted q _ => q
  | .timeout _ => []
  | .abort _ q _ => q

theorem inner_queue_empty (cfg : Cfg) (hq : cfg.requeue = false) (h : Hdr) (b : Nat) (evs : List RxEvent) :
    (inner cfg h b [] evs).queue = [] := by
  induction b generalizing evs with
  | zero => simp [inner, Inner.queue]
  | succ b ih =>
    simp only [inner, nextQ]
    have hs := nextSock_queue cfg h evs
    split
    · rename_i g q' evs' heq
      rw [heq] at hs
      simpa [Inner.queue, Next.queue] using hs
    · rename_i g q' evs' heq
      rw [heq] at hs
      simp only [Next.queue] at hs
      subst hs
      simpa [hq] using ih evs'
    · rfl
    · rename_i e q' evs' heq
      rw [heq] at hs
      simpa [Inner.queue, Next.queue] using hs

theorem outer_queue_empty (cfg : Cfg) (hq : cfg.requeue = false) (h : Hdr) (r : Nat) (evs : List RxEvent)
    (n : Nat) : (outer cfg h r [] evs n).queue = [] := by
  induction r generalizing evs n with
  | zero => simp [outer]
  | succ r ih =>
    simp only [outer]
    have hi := inner_queue_empty cfg hq h (innerBudget cfg) evs
    split
    · rename_i g q' evs' heq
      rw [heq] at hi
      simpa [Inner.queue] using hi
    · rename_i q' evs' heq
      rw [heq] at hi
      simpa [Inner.queue] using hi
    · rename_i e q' evs' heq
      rw [heq] at hi
      simpa [Inner.queue] using hi
    · exact ih _ _

/-! ### the specification's vocabulary implies the model's -/

theorem unrelated_kind (cfg : Cfg) (h : Hdr) (hn : h.netfn % 2 = 0) (f : Frame)
    (hu : Unrelated cfg.checkSeq h.rid f) : evKind cfg h (.frame f) = some true := by
  obtain ⟨hl, h5, hnr⟩ := hu
  have hne : f.isEmpty = false := by
    cases f with
    | nil => simp at hl
    | cons => rfl
  have hf : rxFilter cfg.checkSeq h f = false := by
    cases hx : rxFilter cfg.checkSeq h f with
    | false => rfl
    | true => exact absurd ((rxFilter_iff _ h f hn hl).1 hx) hnr
  have h5' : ¬ f.getD Gen.Loops04.rmcpBridgeIdx 0 = Gen.Loops04.cmdSendMessage := h5
  have hl' : ¬ f.length ≤ Gen.Loops04.rmcpBridgeIdx := by
    show ¬ f.length ≤ 5
    omega
  have hl'' : ¬ f.length < 6 := by omega
  have hcls : classify cfg.checkSeq h f = .noise f := by
    unfold classify
    rw [if_neg hl', if_neg h5', if_neg hl'', hf]
    simp
  simp [evKind, recvIpmi, hne, hcls]

theorem bareAck_kind (cfg : Cfg) (h : Hdr) (f : Frame) (ha : BareAck f) :
    evKind cfg h (.frame f) = some false := by
  obtain ⟨hl, h5, h6⟩ := ha
  match f, hl with
  | [a, b, c, d, e, x, y, z], _ =>
    simp only [byte, List.getD] at h5 h6
    simp at h5 h6
    subst h5 h6
    simp [evKind, recvIpmi, classify, peelN, Gen.Loops04.rmcpBridgeIdx, Gen.Loops04.cmdSendMessage,
      cmdSendMessage]

theorem reply_isHit (cfg : Cfg) (h : Hdr) (hn : h.netfn % 2 = 0) (hc : h.cmd ≠ cmdSendMessage) (f : Frame)
    (hr : isReplyTo cfg.checkSeq h.rid f) : IsHit cfg h (.frame f) f := by
  have hl : 6 ≤ f.length := hr.1
  have hne : f.isEmpty = false := by
    cases f with
    | nil => simp at hl
    | cons => rfl
  have h5 : ¬ f.getD Gen.Loops04.rmcpBridgeIdx 0 = Gen.Loops04.cmdSendMessage := by
    have : byte f 5 = h.cmd := hr.2.2.2.2.1
    intro hx
    apply hc
    rw [← this]
    exact hx
  have hl' : ¬ f.length ≤ Gen.Loops04.rmcpBridgeIdx := by
    show ¬ f.length ≤ 5
    omega
  have hl'' : ¬ f.length < 6 := by omega
  have hf := (rxFilter_iff _ h f hn hl).2 hr
  refine ⟨f, by simp [recvIpmi, hne], ?_⟩
  unfold classify
  rw [if_neg hl', if_neg h5, if_neg hl'', hf]
  simp

/-! ### ipmb-dev / Aardvark: progress -/

/-- ticks the events of a list take -/
def dtSum : List I2cEvent → Nat
  | [] => 0
  | .frame dt _ :: l => dt + dtSum l
  | .badLen dt _ :: l => dt + dtSum l
  | .rdError dt :: l => dt + dtSum l
  | .idle :: l => dtSum l

/-- frames that are long enough to be looked at and are not the reply -/
def I2cNoise (h : Hdr) (l : List I2cEvent) : Prop :=
  ∀ e ∈ l, ∃ dt f, e = .frame dt f ∧ 6 ≤ f.length ∧ ¬ isReplyTo true h.rid f

/-- the attempt ends without a frame: nothing arrived, or the read failed -/
def I2cFail (e : I2cEvent) : Prop := e = .idle ∨ ∃ dt, e = .rdError dt

theorem recvRaw_noise (cfg : I2cCfg) (h : Hdr) (hn : h.netfn % 2 = 0) (noise : List I2cEvent) (el : Nat)
    (X : List I2cEvent) (hno : I2cNoise h noise) (ht : el + dtSum noise < cfg.timeout) :
    recvRaw cfg h el (noise ++ X) = recvRaw cfg h (el + dtSum noise) X := by
  induction noise generalizing el with
  | nil => simp [dtSum]
  | cons e noise ih =>
    obtain ⟨dt, f, he, hl, hr⟩ := hno e List.mem_cons_self
    subst he
    simp only [dtSum] at ht ⊢
    have hnt : ¬ cfg.timeout ≤ el := by omega
    have hf : rxFilter true h f = false := by
      cases hx : rxFilter true h f with
      | false => rfl
      | true => exact absurd ((rxFilter_iff _ h f hn hl).1 hx) hr
    have hcls : i2cFrame h f = .noise f := by
      unfold i2cFrame
      rw [if_neg (by omega), hf]
      simp
    simp only [List.cons_append, recvRaw, if_neg hnt, hcls]
    rw [ih (el + dt) (fun x hx => hno x (List.mem_cons_of_mem _ hx)) (by omega)]
    congr 1
    omega

theorem recvRaw_reply (cfg : I2cCfg) (h : Hdr) (hn : h.netfn % 2 = 0) (el dt : Nat) (f : Frame)
    (X : List I2cEvent) (ht : el < cfg.timeout) (hr : isReplyTo true h.rid f) :
    recvRaw cfg h el (.frame dt f :: X) = .got f X := by
  have hl : 6 ≤ f.length := hr.1
  have hcls : i2cFrame h f = .hit f := by
    unfold i2cFrame
    rw [if_neg (by omega), (rxFilter_iff _ h f hn hl).2 hr]
    simp
  have hnt : ¬ cfg.timeout ≤ el := by omega
  simp only [recvRaw, if_neg hnt, hcls]

theorem recvRaw_fail (cfg : I2cCfg) (h : Hdr) (el : Nat) (e : I2cEvent) (X : List I2cEvent)
    (ht : el < cfg.timeout) (hf : I2cFail e) :
    recvRaw cfg h el (e :: X) = .timeout X ∨ recvRaw cfg h el (e :: X) = .ioError X := by
  have hnt : ¬ cfg.timeout ≤ el := by omega
  rcases hf with hf | ⟨dt, hf⟩
  · subst hf; left; simp only [recvRaw, if_neg hnt]
  · subst hf; right; simp only [recvRaw, if_neg hnt]

/-- events of attempts that each end without a frame -/
def failedRounds : List (List I2cEvent × I2cEvent) → List I2cEvent
  | [] => []
  | (s, t) :: ss => s ++ t :: failedRounds ss

theorem i2cAttempts_rounds (cfg : I2cCfg) (h : Hdr) (hn : h.netfn % 2 = 0)
    (rounds : List (List I2cEvent × I2cEvent)) (n : Nat) (last : List I2cEvent) (dt : Nat) (f : Frame)
    (X : List I2cEvent) (s : Nat) (hr : rounds.length < n)
    (hs : ∀ p ∈ rounds, I2cNoise h p.1 ∧ dtSum p.1 < cfg.timeout ∧ I2cFail p.2)
    (hb : I2cNoise h last) (hc : dtSum last < cfg.timeout) (hrep : isReplyTo true h.rid f) :
    i2cAttempts cfg h n (failedRounds rounds ++ (last ++ .frame dt f :: X)) s =
      ⟨.ok (replyData f), X, s + rounds.length + 1⟩ := by
  induction rounds generalizing n s with
  | nil =>
    cases n with
    | zero => simp at hr
    | succ n =>
      simp only [failedRounds, List.nil_append, i2cAttempts]
      rw [recvRaw_noise cfg h hn last 0 _ hb (by omega), recvRaw_reply cfg h hn _ dt f X (by omega) hrep]
      simp [pySlice_eq_replyData]
  | cons p ps ih =>
    cases n with
    | zero => simp at hr
    | succ n =>
      obtain ⟨sg, t⟩ := p
      have h1 := hs (sg, t) List.mem_cons_self
      simp only at h1
      simp only [failedRounds, List.append_assoc, List.cons_append, i2cAttempts]
      rw [recvRaw_noise cfg h hn sg 0 _ h1.1 (by omega)]
      have hrest := ih n (s + 1) (by simpa using hr) (fun x hx => hs x (List.mem_cons_of_mem _ hx))
      rcases recvRaw_fail cfg h (0 + dtSum sg) t (failedRounds ps ++ (last ++ .frame dt f :: X))
          (by have := h1.2.1; omega) h1.2.2 with hf | hf
      · rw [hf]
        simp only
        rw [hrest]
        simp only [List.length_cons]
        congr 1
        omega
      · rw [hf]
        simp only
        rw [hrest]
        simp only [List.length_cons]
        congr 1
        omega

theorem noise_benign (cfg : Cfg) (h : Hdr) (hn : h.netfn % 2 = 0) (noise : List Frame)
    (hno : ∀ f ∈ noise, Unrelated cfg.checkSeq h.rid f ∨ BareAck f) :
    Benign cfg h (noise.map .frame) ∧
    noiseCount cfg h (noise.map .frame) = (noise.filter fun f => !decide (BareAck f)).length := by
  induction noise with
  | nil => exact ⟨(fun _ hx => by cases hx), rfl⟩
  | cons f l ih =>
    obtain ⟨hb, hc⟩ := ih (fun x hx => hno x (List.mem_cons_of_mem _ hx))
    rcases hno f List.mem_cons_self with hu | ha
    · have hk := unrelated_kind cfg h hn f hu
      have hna : ¬ BareAck f := fun ha => hu.2.1 ha.2.1
      refine ⟨fun e he => ?_, ?_⟩
      · simp only [List.map_cons, List.mem_cons] at he
        rcases he with he | he
        · rw [he, hk]; rfl
        · exact hb e he
      · simp [noiseCount, hk, hc, hna]
        omega
    · have hk := bareAck_kind cfg h f ha
      refine ⟨fun e he => ?_, ?_⟩
      · simp only [List.map_cons, List.mem_cons] at he
        rcases he with he | he
        · rw [he, hk]; rfl
        · exact hb e he
      · simp [noiseCount, hk, hc, ha]

end PyIpmi.Loops
