/-
  The scripted device of Model/ProgOps.lean satisfies the device hypotheses of the SEL / SDR
  theorems (C08), for every script: the hypotheses are not vacuous, and the theorems apply to
  the very models the correspondence run compares with the code.

  * `reserveOp_ms`, `reserveOp_pure`, `reserveOp_adv`
  * `script_selStorage`     a SEL record the script holds is served as `SelStorage` demands
  * `script_sdrStorage`     an SDR the script holds is served as `SdrStorage` demands
-/
import PyIpmi.Model.ProgOps
import PyIpmi.Lemmas.ProgSel
import PyIpmi.Lemmas.ProgSdr
namespace PyIpmi.Prog.Ops
open PyIpmi.Prog PyIpmi.Spec.FaultDevice

theorem reserveOp_checked (cmd : Nat) : Checked (reserveOp cmd) :=
  .bind _ _ (.sendChecked _) (fun _ => .done _)

theorem reserveOp_ms (Φ : (Nat → Option Nat) → Prop) (base : Req → Rsp) (cmd : Nat) :
    MultiSafeOn Φ base (reserveOp cmd) := ms_of_checked Φ base _ (reserveOp_checked cmd)

theorem reserveOp_pure (base : Req → Rsp) (cmd n : Nat) (h : (base ⟨cmd, []⟩).cc = 0) :
    outcome (reserveOp cmd) (pureDev base) n = .ok ((base ⟨cmd, []⟩).data.headD 0) := by
  unfold reserveOp
  rw [outcome_bind_ok (outcome_sendChecked_pure base n _ h)]
  rfl

theorem reserveOp_adv (base : Req → Rsp) (cmd : Nat) (φ : Nat → Option Nat) (n : Nat) :
    n < final (reserveOp cmd) (faultsDev base φ) n := by
  unfold reserveOp sendChecked
  simp only [Prog.bind]
  exact final_faults_send_lt base φ _ _ n

theorem script_reserve_sel (s : Script) (n : Nat) :
    outcome (reserveOp cReserveSel) (pureDev s.base) n = .ok s.resId := by
  rw [reserveOp_pure s.base _ n (by simp [Script.base, cReserveSel, cSelInfo])]
  simp [Script.base, cReserveSel, cSelInfo]

theorem script_reserve_sdr (s : Script) (n : Nat) :
    outcome (reserveOp cReserveSdr) (pureDev s.base) n = .ok s.resId := by
  rw [reserveOp_pure s.base _ n (by simp [Script.base, cReserveSdr, cReserveSel, cSelInfo])]
  simp [Script.base, cReserveSdr, cReserveSel, cSelInfo]

theorem script_get_sel (s : Script) (res rid off len nx : Nat) (rec : List Nat)
    (h : lookupRec s.sel rid = some (nx, rec)) :
    s.base (mkGet cGetSel res rid off len) =
      ⟨0, nx :: (if len = 0xFF then rec.drop off else (rec.drop off).take len)⟩ := by
  simp [Script.base, mkGet, cGetSel, cSelInfo, cReserveSel, cReserveSdr, readRecord, h]

theorem script_get_sdr (s : Script) (res rid off len nx : Nat) (rec : List Nat)
    (h : lookupRec s.sdr rid = some (nx, rec)) :
    s.base (mkGet cGetSdr res rid off len) =
      ⟨0, nx :: (if len = 0xFF then rec.drop off else (rec.drop off).take len)⟩ := by
  simp [Script.base, mkGet, cGetSdr, cGetSel, cSelInfo, cReserveSel, cReserveSdr, readRecord, h]

/-- A SEL record the script holds is served as `SelStorage` demands. -/
theorem script_selStorage (s : Script) (cfg : SelCfg) (res rid nx : Nat) (rec : List Nat)
    (h : lookupRec s.sel rid = some (nx, rec)) (hlen : rec.length = cfg.recLen)
    (hle : cfg.recLen ≤ 0xFF) :
    SelStorage cfg (mkGet cGetSel res rid) rspNext rspPay s.base rec nx := by
  refine ⟨hlen, fun off len _ _ _ => ?_⟩
  rw [script_get_sel s res rid off len nx rec h]
  refine ⟨rfl, rfl, ?_⟩
  show (if len = 0xFF then rec.drop off else (rec.drop off).take len) = (rec.drop off).take len
  split
  · rename_i h255
    rw [h255, List.take_of_length_le]
    rw [List.length_drop]; omega
  · rfl

/-- An SDR the script holds (shorter than 255 bytes) is served as `SdrStorage` demands: the
header read under the id asked for, the data reads under the id found in the header. -/
theorem script_sdrStorage (s : Script) (cfg : SdrCfg) (res rid rid' nx0 nx : Nat) (rec : List Nat)
    (h0 : lookupRec s.sdr rid = some (nx0, rec)) (h1 : lookupRec s.sdr rid' = some (nx, rec))
    (hhdr : cfg.hdrLen ≠ 0xFF) (hshort : rec.length < 0xFF) :
    SdrStorage cfg (mkGet cGetSdr) rspNext rspPay s.base res rid rid' nx0 nx rec := by
  refine ⟨?_, fun off len hle => ?_⟩
  · rw [script_get_sdr s res rid 0 cfg.hdrLen nx0 rec h0]
    refine ⟨rfl, rfl, ?_⟩
    show (if cfg.hdrLen = 0xFF then rec.drop 0 else (rec.drop 0).take cfg.hdrLen) = rec.take cfg.hdrLen
    rw [if_neg hhdr]; rfl
  · rw [script_get_sdr s res rid' off len nx rec h1]
    refine ⟨rfl, rfl, ?_⟩
    show (if len = 0xFF then rec.drop off else (rec.drop off).take len) = (rec.drop off).take len
    rw [if_neg (by omega)]

theorem setResOp_fix (res rid off len : Nat) :
    setResOp res (mkGet cGetSdr res rid off len) = mkGet cGetSdr res rid off len := rfl

/-- Fault-free, the record read of the scripted device returns the stored record (or runs out
of iterations on a record too long for the budget). -/
theorem script_get_sdr_good (s : Script) (cfg : SdrCfg) (cs : ChunkCodes) (retry : Nat) (hretry : 2 ≤ retry)
    (rid rid' nx0 nx : Nat) (rec : List Nat)
    (h0 : lookupRec s.sdr rid = some (nx0, rec)) (h1 : lookupRec s.sdr rid' = some (nx, rec))
    (hparse : sdrHeader (rec.take cfg.hdrLen) = .ok (rid', rec.length))
    (hlong : cfg.hdrLen ≤ rec.length) (hshort : rec.length < 0xFF) (hhdr : cfg.hdrLen ≠ 0xFF) (n : Nat) :
    outcome (opGetSdr cfg cs retry (some s.resId) rid) (pureDev s.base) n = .error .retryError ∨
      outcome (opGetSdr cfg cs retry (some s.resId) rid) (pureDev s.base) n = .ok (nx, rec) := by
  have hst := script_sdrStorage s cfg s.resId rid rid' nx0 nx rec h0 h1 hhdr hshort
  unfold opGetSdr opSdrChunk
  exact sdrData_good cfg _ _ sdrHeader s.base (some s.resId) rid s.resId rid' rec.length nx0 nx rec
    (fun _ => rfl)
    (sdrStorage_head cfg cs _ setResOp _ (mkGet cGetSdr) rspNext rspPay s.base s.resId rid rid' nx0 nx rec
      (by omega) hst)
    hparse hlong
    (sdrStorage_served cfg cs _ setResOp _ (mkGet cGetSdr) rspNext rspPay s.base s.resId rid rid' nx0 nx rec
      (by omega) hst) n

end PyIpmi.Prog.Ops
