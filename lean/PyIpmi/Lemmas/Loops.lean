/-
  Lemmas/Loops.lean — bridge between the executable model of the receive loops (Model/RmcpLoop,
  Model/IpmbDevLoop) and the specification vocabulary (Spec/Attribution), and the soundness
  invariant of the loops.  Core Lean only.
-/
import PyIpmi.Model.RmcpLoop
import PyIpmi.Model.IpmbDevLoop
import PyIpmi.Spec.Attribution
namespace PyIpmi.Loops
open PyIpmi PyIpmi.Spec.Attribution

/-! ### arithmetic of the filter -/

theorem pyChecksum_eq_zero (l : List Nat) : pyChecksum l = 0 ↔ sum8 l = 0 := by
  unfold pyChecksum sum8; omega

theorem shr2 (x : Nat) : x >>> 2 = x / 4 := by
  rw [Nat.shiftRight_eq_div_pow]

theorem and3 (x : Nat) : x &&& 3 = x % 4 := by
  have := Nat.and_two_pow_sub_one_eq_mod x 2
  simpa using this

theorem or_one_of_even (n : Nat) (h : n % 2 = 0) : n ||| 1 = n + 1 := by
  have h2 : n = (n / 2) <<< 1 := by rw [Nat.shiftLeft_eq]; omega
  have := Nat.shiftLeft_add_eq_or_of_lt (a := n / 2) (b := 1) (i := 1) (by decide)
  rw [← h2] at this
  exact this.symm

/-- The identity of the request a header stands for. -/
def Hdr.rid (h : Hdr) : ReqId := ⟨h.netfn, h.rsLun, h.cmd, h.seq⟩

/-- `rx_filter` says yes exactly for the intact replies of the specification. -/
theorem rxFilter_iff (cs : Bool) (h : Hdr) (f : Frame) (hn : h.netfn % 2 = 0) (hl : 6 ≤ f.length) :
    rxFilter cs h f = true ↔ isReplyTo cs h.rid f := by
  unfold rxFilter isReplyTo Hdr.rid byte
  simp only [Bool.and_eq_true, beq_iff_eq, Bool.or_eq_true, Bool.not_eq_true', pyChecksum_eq_zero,
    shr2, and3, or_one_of_even _ hn]
  constructor
  · rintro ⟨⟨⟨⟨⟨h1, h2⟩, h3⟩, h4⟩, h5⟩, h6⟩
    refine ⟨hl, h1, h2, h3, h4, h5, ?_⟩
    intro hc
    rcases h6 with h6 | h6
    · simp [hc] at h6
    · exact h6
  · rintro ⟨_, h1, h2, h3, h4, h5, h6⟩
    refine ⟨⟨⟨⟨⟨h1, h2⟩, h3⟩, h4⟩, h5⟩, ?_⟩
    cases cs with
    | false => exact Or.inl rfl
    | true => exact Or.inr (h6 rfl)

/-! ### unwrapping -/

theorem _root_.PyIpmi.Spec.Attribution.Carries.trans {a b c : List Nat} (h1 : Carries a b) (h2 : Carries b c) : Carries a c := by
  induction h1 with
  | self => exact h2
  | inner he _ ih => exact .inner he (ih h2)

theorem getD_of_drop {f : List Nat} {n c : Nat} {t : List Nat} (h : f.drop n = c :: t) :
    f.getD n 0 = c := by
  have : (f.drop n).head? = some c := by rw [h]; rfl
  rw [List.head?_drop] at this
  simp [List.getD, this]

/-- What `decode_bridged_message` returns (when long enough to be looked at) was carried by
what it was given. -/
theorem peelN_carries (n : Nat) (f g : Frame) (h : peelN n f = .ok g) (hg : 6 ≤ g.length) :
    Carries f g := by
  induction n generalizing f with
  | zero =>
    simp [peelN] at h
    subst h
    exact .self _
  | succ n ih =>
    unfold peelN at h
    split at h
    · rename_i h5
      split at h
      · cases h
      · rename_i cc t hd
        split at h
        · cases h
        · rename_i hcc
          simp only [Decidable.not_not] at hcc
          simp only at h
          split at h
          · rename_i hshort
            injection h with h
            subst h
            omega
          · rename_i hlong
            have hc := ih _ h
            have hlen : 8 ≤ f.length := by
              have : ((f.drop 7).dropLast).length = f.length - 7 - 1 := by simp
              omega
            have h6 : f.getD 6 0 = 0 := by rw [getD_of_drop hd, hcc]
            refine .inner (g := (f.drop 7).dropLast) ?_ hc
            unfold embedded byte
            have h5' : f.getD 5 0 = cmdSendMessage := h5
            rw [if_pos ⟨hlen, h5', h6⟩]
    · injection h with h
      subst h
      exact .self _

/-- A frame the loop body accepted is an intact reply carried by the frame it looked at. -/
theorem classify_hit {cs : Bool} {h : Hdr} {f g : Frame} (hn : h.netfn % 2 = 0)
    (hc : classify cs h f = .hit g) : Carries f g ∧ isReplyTo cs h.rid g := by
  unfold classify at hc
  split at hc
  · cases hc
  · split at hc
    · split at hc
      · rename_i g' hp
        split at hc
        · cases hc
        · split at hc
          · cases hc
          · rename_i hlen
            split at hc
            · rename_i hf
              injection hc with hc
              subst hc
              have hl : 6 ≤ g'.length := by omega
              exact ⟨peelN_carries _ _ _ hp hl, (rxFilter_iff cs h g' hn hl).1 hf⟩
            · cases hc
      · cases hc
    · split at hc
      · cases hc
      · rename_i hlen
        split at hc
        · rename_i hf
          injection hc with hc
          subst hc
          exact ⟨.self _, (rxFilter_iff cs h f hn (by omega)).1 hf⟩
        · cases hc

/-- A frame the loop body rejected (and may put back into `_q`) was carried by the frame it
looked at. -/
theorem classify_noise {cs : Bool} {h : Hdr} {f g : Frame}
    (hc : classify cs h f = .noise g) : Carries f g ∧ 6 ≤ g.length := by
  unfold classify at hc
  split at hc
  · cases hc
  · split at hc
    · split at hc
      · rename_i g' hp
        split at hc
        · cases hc
        · split at hc
          · cases hc
          · rename_i hlen
            split at hc
            · cases hc
            · injection hc with hc
              subst hc
              have hl : 6 ≤ g'.length := by omega
              exact ⟨peelN_carries _ _ _ hp hl, hl⟩
      · cases hc
    · split at hc
      · cases hc
      · rename_i hlen
        split at hc
        · cases hc
        · injection hc with hc
          subst hc
          exact ⟨.self _, by omega⟩

/-! ### Python slice = data of the reply -/

theorem pySlice_eq_replyData (f : Frame) : pySlice 6 1 f = replyData f := by
  unfold pySlice replyData
  by_cases h : f.length ≤ 6
  · rw [List.drop_eq_nil_of_le (by simp; omega), List.drop_eq_nil_of_le h]
    rfl
  · rw [List.dropLast_eq_take, List.take_drop, List.length_drop]
    congr 2
    omega

end PyIpmi.Loops
