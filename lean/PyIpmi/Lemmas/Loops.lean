/-
  Lemmas/Loops.lean — bridge between the executable model of the receive loops (Model/RmcpLoop,
  Model/IpmbDevLoop) and the specification vocabulary (Spec/Attribution), and the soundness
  invariant of the loops.  Core Lean only.
-/
import PyIpmi.Model.RmcpLoop
import PyIpmi.Model.IpmbDevLoop
import PyIpmi.Spec.Attribution
namespace PyIpmi.Loops
open PyIpmi PyIpmi.Spec.Attribution

/-! ### arithmetic of the filter -/

theorem pyChecksum_eq_zero (l : List Nat) : pyChecksum l = 0 ↔ sum8 l = 0 := by
  unfold pyChecksum sum8; omega

theorem shr2 (x : Nat) : x >>> 2 = x / 4 := by
  rw [Nat.shiftRight_eq_div_pow]

theorem and3 (x : Nat) : x &&& 3 = x % 4 := by
  have := Nat.and_two_pow_sub_one_eq_mod x 2
  simpa using this

theorem or_one_of_even (n : Nat) (h : n % 2 = 0) : n ||| 1 = n + 1 := by
  have h2 : n = (n / 2) <<< 1 := by rw [Nat.shiftLeft_eq]; omega
  have := Nat.shiftLeft_add_eq_or_of_lt (a := n / 2) (b := 1) (i := 1) (by decide)
  rw [← h2] at this
  exact this.symm

/-- The identity of the request a header stands for. -/
def Hdr.rid (h : Hdr) : ReqId := ⟨h.netfn, h.rsLun, h.cmd, h.seq⟩

/-- `rx_filter` says yes exactly for the intact replies of the specification. -/
theorem rxFilter_iff (cs : Bool) (h : Hdr) (f : Frame) (hn : h.netfn % 2 = 0) (hl : 6 ≤ f.length) :
    rxFilter cs h f = true ↔ isReplyTo cs h.rid f := by
  unfold rxFilter isReplyTo Hdr.rid byte
  simp only [Bool.and_eq_true, beq_iff_eq, Bool.or_eq_true, Bool.not_eq_true', pyChecksum_eq_zero,
    shr2, and3, or_one_of_even _ hn]
  constructor
  · rintro ⟨⟨⟨⟨⟨h1, h2⟩, h3⟩, h4⟩, h5⟩, h6⟩
    refine ⟨hl, h1, h2, h3, h4, h5, ?_⟩
    intro hc
    rcases h6 with h6 | h6
    · simp [hc] at h6
    · exact h6
  · rintro ⟨_, h1, h2, h3, h4, h5, h6⟩
    refine ⟨⟨⟨⟨⟨h1, h2⟩, h3⟩, h4⟩, h5⟩, ?_⟩
    cases cs with
    | false => exact Or.inl rfl
    | true => exact Or.inr (h6 rfl)

/-- a frame the filter accepts for a request with a non-zero command has a complete header -/
theorem rxFilter_len {cs : Bool} {h : Hdr} {f : Frame} (hf : rxFilter cs h f = true) (hc : h.cmd ≠ 0) :
    6 ≤ f.length := by
  by_cases hl : 6 ≤ f.length
  · exact hl
  · exfalso
    have h5 : f.getD 5 0 = 0 := by
      simp [List.getD, List.getElem?_eq_none (by omega : f.length ≤ 5)]
    simp only [rxFilter, Bool.and_eq_true, beq_iff_eq] at hf
    have := hf.1.1.2
    rw [h5] at this
    exact hc this.symm

/-! ### unwrapping -/

theorem _root_.PyIpmi.Spec.Attribution.Carries.trans {st : Bool} {a b c : List Nat} (h1 : Carries st a b)
    (h2 : Carries st b c) : Carries st a c := by
  induction h1 with
  | self => exact h2
  | inner he _ ih => exact .inner he (ih h2)

theorem getD_of_drop {f : List Nat} {n c : Nat} {t : List Nat} (h : f.drop n = c :: t) :
    f.getD n 0 = c := by
  have : (f.drop n).head? = some c := by rw [h]; rfl
  rw [List.head?_drop] at this
  simp [List.getD, this]

/-- the repaired recognition is the specification's "intact Send Message response" (given its length) -/
theorem isSendMsgRsp_repaired {f : Frame} (h : isSendMsgRsp false f = true) :
    byte f 5 = cmdSendMessage ∧ (8 ≤ f.length → IntactSendMsgRsp f) := by
  simp only [isSendMsgRsp, Bool.false_eq_true, if_false, Bool.and_eq_true, beq_iff_eq, pyChecksum_eq_zero,
    shr2] at h
  obtain ⟨⟨⟨h1, h2⟩, h3⟩, h4⟩ := h
  exact ⟨h2, fun hl => ⟨hl, h3, h4, h1, h2⟩⟩

theorem isSendMsgRsp_cmd {co : Bool} {f : Frame} (h : isSendMsgRsp co f = true) : byte f 5 = cmdSendMessage := by
  cases co with
  | false => exact (isSendMsgRsp_repaired h).1
  | true =>
    simp only [isSendMsgRsp, if_true, beq_iff_eq] at h
    exact h

/-- an intact Send Message response is recognised by both variants -/
theorem isSendMsgRsp_of_intact (co : Bool) {f : Frame} (h : IntactSendMsgRsp f) : isSendMsgRsp co f = true := by
  obtain ⟨_, h1, h2, h3, h4⟩ := h
  cases co with
  | true =>
    simp only [isSendMsgRsp, if_true, beq_iff_eq]
    exact h4
  | false =>
    simp only [isSendMsgRsp, Bool.false_eq_true, if_false, Bool.and_eq_true, beq_iff_eq, pyChecksum_eq_zero, shr2]
    exact ⟨⟨⟨h3, h4⟩, h1⟩, h2⟩

/-- What `decode_bridged_message` returns (when long enough to be looked at) was carried by
what it was given — through INTACT Send Message responses in the repaired variant. -/
theorem peelN_carries (co : Bool) (n : Nat) (f g : Frame) (h : peelN co n f = .ok g) (hg : 6 ≤ g.length) :
    Carries (!co) f g := by
  induction n generalizing f with
  | zero =>
    simp [peelN] at h
    subst h
    exact .self _
  | succ n ih =>
    unfold peelN at h
    split at h
    · rename_i hrec
      split at h
      · cases h
      · rename_i cc t hd
        split at h
        · cases h
        · rename_i hcc
          simp only [Decidable.not_not] at hcc
          simp only at h
          split at h
          · rename_i hshort
            injection h with h
            subst h
            omega
          · rename_i hlong
            have hc := ih _ h
            have hlen : 8 ≤ f.length := by
              have : ((f.drop 7).dropLast).length = f.length - 7 - 1 := by simp
              omega
            have h6 : byte f 6 = 0 := by unfold byte; rw [getD_of_drop hd, hcc]
            refine .inner (g := (f.drop 7).dropLast) ?_ hc
            have hint : (!co) = true → IntactSendMsgRsp f := by
              intro hs
              cases co with
              | true => cases hs
              | false => exact (isSendMsgRsp_repaired hrec).2 hlen
            unfold embedded
            rw [if_pos ⟨hlen, isSendMsgRsp_cmd hrec, h6, hint⟩]
    · injection h with h
      subst h
      exact .self _

theorem afterPeel_hit {cs : Bool} {h : Hdr} {o : Outcome Frame} {g : Frame} (hn : h.netfn % 2 = 0)
    (hc : afterPeel cs h o = .hit g) : o = .ok g ∧ 6 ≤ g.length ∧ isReplyTo cs h.rid g := by
  unfold afterPeel at hc
  split at hc
  · rename_i g'
    split at hc
    · cases hc
    · split at hc
      · cases hc
      · rename_i hlen
        split at hc
        · rename_i hf
          injection hc with hc
          subst hc
          have hl : 6 ≤ g'.length := by omega
          exact ⟨rfl, hl, (rxFilter_iff cs h g' hn hl).1 hf⟩
        · cases hc
  · cases hc

theorem afterPeel_noise {cs : Bool} {h : Hdr} {o : Outcome Frame} {g : Frame}
    (hc : afterPeel cs h o = .noise g) : o = .ok g ∧ 6 ≤ g.length := by
  unfold afterPeel at hc
  split at hc
  · rename_i g'
    split at hc
    · cases hc
    · split at hc
      · cases hc
      · rename_i hlen
        split at hc
        · cases hc
        · injection hc with hc
          subst hc
          exact ⟨rfl, by omega⟩
  · cases hc

theorem afterPeel_err {cs : Bool} {h : Hdr} {o : Outcome Frame} {e : Outcome Frame}
    (hc : afterPeel cs h o = .err e) : ∀ d, e ≠ .ok d := by
  intro d hd
  subst hd
  unfold afterPeel at hc
  split at hc
  · split at hc
    · cases hc
    · split at hc
      · cases hc
      · split at hc <;> cases hc
  · rename_i hne
    injection hc with hc
    exact hne d hc

theorem plain_hit {cs : Bool} {h : Hdr} {f g : Frame} (hn : h.netfn % 2 = 0) (hc : plain cs h f = .hit g) :
    g = f ∧ 6 ≤ f.length ∧ isReplyTo cs h.rid f := by
  unfold plain at hc
  split at hc
  · cases hc
  · rename_i hlen
    split at hc
    · rename_i hf
      injection hc with hc
      exact ⟨hc.symm, by omega, (rxFilter_iff cs h f hn (by omega)).1 hf⟩
    · cases hc

theorem plain_noise {cs : Bool} {h : Hdr} {f g : Frame} (hc : plain cs h f = .noise g) : g = f ∧ 6 ≤ f.length := by
  unfold plain at hc
  split at hc
  · cases hc
  · split at hc
    · cases hc
    · injection hc with hc
      exact ⟨hc.symm, by omega⟩

theorem plain_err {cs : Bool} {h : Hdr} {f : Frame} {e : Outcome Frame} (hc : plain cs h f = .err e) :
    ∀ d, e ≠ .ok d := by
  intro d hd
  subst hd
  unfold plain at hc
  split at hc
  · cases hc
  · split at hc <;> cases hc

/-- the three ways `classify` can go -/
theorem classify_cases (co cs : Bool) (bridge : Option Hdr) (h : Hdr) (f : Frame) :
    classify co cs bridge h f = .err (.pyError "IndexError") ∨
    classify co cs bridge h f = plain cs h f ∨
    classify co cs bridge h f = afterPeel cs h (peelN co f.length f) := by
  unfold classify
  cases co with
  | true =>
    simp only [if_true]
    split
    · exact Or.inl rfl
    · split
      · exact Or.inr (Or.inr rfl)
      · exact Or.inr (Or.inl rfl)
  | false =>
    simp only [Bool.false_eq_true, if_false]
    cases bridge with
    | none => exact Or.inr (Or.inl rfl)
    | some bh =>
      simp only
      split
      · exact Or.inl rfl
      · split
        · exact Or.inr (Or.inr rfl)
        · exact Or.inr (Or.inl rfl)

/-- A frame the loop body accepted is an intact reply carried by the frame it looked at. -/
theorem classify_hit {co cs : Bool} {bridge : Option Hdr} {h : Hdr} {f g : Frame} (hn : h.netfn % 2 = 0)
    (hc : classify co cs bridge h f = .hit g) : Carries (!co) f g ∧ isReplyTo cs h.rid g := by
  rcases classify_cases co cs bridge h f with he | he | he <;> rw [he] at hc
  · cases hc
  · obtain ⟨rfl, _, hr⟩ := plain_hit hn hc
    exact ⟨.self _, hr⟩
  · obtain ⟨ho, hl, hr⟩ := afterPeel_hit hn hc
    exact ⟨peelN_carries co _ _ _ ho hl, hr⟩

/-- A frame the loop body rejected (and, before C04-1, put back into `_q`) was carried by the frame it
looked at. -/
theorem classify_noise {co cs : Bool} {bridge : Option Hdr} {h : Hdr} {f g : Frame}
    (hc : classify co cs bridge h f = .noise g) : Carries (!co) f g ∧ 6 ≤ g.length := by
  rcases classify_cases co cs bridge h f with he | he | he <;> rw [he] at hc
  · cases hc
  · obtain ⟨rfl, hl⟩ := plain_noise hc
    exact ⟨.self _, hl⟩
  · obtain ⟨ho, hl⟩ := afterPeel_noise hc
    exact ⟨peelN_carries co _ _ _ ho hl, hl⟩

/-! ### Python slice = data of the reply -/

theorem pySlice_eq_replyData (f : Frame) : pySlice 6 1 f = replyData f := by
  unfold pySlice replyData
  by_cases h : f.length ≤ 6
  · rw [List.drop_eq_nil_of_le (by simp; omega), List.drop_eq_nil_of_le h]
    rfl
  · rw [List.dropLast_eq_take, List.take_drop, List.length_drop]
    congr 2
    omega

end PyIpmi.Loops
