/-
  Line-protocol driver for C16 (SDR record parsing).

    spec full    <49 ints> <id>      ->  ok <hex> <kind> <fields>      | bad-wf | bad-op
    spec compact <22 ints> <id>
    spec event   <12 ints> <id>
    spec fru     <14 ints> <id>      (… logical/physical flag, access LUN, private bus id of byte 8, channel [7:4],
                                      reserved [3:0] of byte 9, device type …)
    spec mc      <9 ints>  <id>
    spec conf    <11 ints> <guid: n,n,…>   (… device id, channel [7:4], device revision [3:0] of byte 8, …)
    spec opaque  <id> <version> <type> <hex body>
         the specification's encoder and view (Spec.Sdr); ints in structure order.
    parse <acc><rate><mod><idtype><bcd><six><bcdFruTable><chanRaw><lpRaw><keyNoChannel> <hex>
                                     ->  ok <kind> <fields> | <extra fields>   | <error tag>
         the model (SdrParse.parseSdr) with the ten variant flags (1 = as shipped).

  <id> ::= u:<n,…> | b:<n,…> (digits, two per byte) | s:<n,…> (6-bit codes) | a:<n,…>   (`-` = empty)
  <fields> ::= name=value …   value ::= nat | int | [n,…]
-/
import PyIpmi.Base.Proto
import PyIpmi.Model.SdrParse
import PyIpmi.Spec.SdrFormat
open PyIpmi PyIpmi.Proto PyIpmi.Spec.Sdr

def showVal : Val → String
  | .nat n => toString n
  | .int z => toString z
  | .list l => "[" ++ ",".intercalate (l.map toString) ++ "]"

def showFields (fs : Fields) : String :=
  " ".intercalate (fs.map fun p => p.1 ++ "=" ++ showVal p.2)

def kindName : Kind → String
  | .full => "SdrFullSensorRecord"
  | .compact => "SdrCompactSensorRecord"
  | .eventOnly => "SdrEventOnlySensorRecord"
  | .fruLocator => "SdrFruDeviceLocator"
  | .mcLocator => "SdrManagementControllerDeviceLocator"
  | .mcConfirmation => "SdrManagementControllerConfirmationRecord"
  | .oem => "SdrOEMSensorRecord"
  | .unknown => "SdrUnknownSensorRecord"

def pairUp : List Nat → Option (List (Nat × Nat))
  | [] => some []
  | [_] => none
  | a :: b :: rest => (pairUp rest).map ((a, b) :: ·)

def parseId (s : String) : Option IdString :=
  match s.splitOn ":" with
  | [k, d] =>
    match parseNatList d with
    | none => none
    | some l =>
      if k == "u" then some (.unicode l)
      else if k == "b" then (pairUp l).map .bcdPlus
      else if k == "s" then some (.sixBit l)
      else if k == "a" then some (.ascii8 l)
      else none
  | _ => none

def nat? (z : Int) : Option Nat := if 0 ≤ z then some z.toNat else none

def answer (wf : Bool) (bytes : List Nat) (k : Kind) (view : Fields) : String :=
  if !wf then "bad-wf" else s!"ok {toHex bytes} {kindName k} {showFields view}"

def specFull (a : List Int) (ids : IdString) : Option String :=
  match a with
  | rid :: ver :: oid :: ch :: lun :: num :: eid :: einst :: ini :: cap :: st :: et :: am :: dm ::
    rm :: fmt :: rate :: mod :: pct :: bu :: mu :: lin :: m :: tol :: b :: acc :: accx :: dir ::
    rexp :: bexp :: af :: nom :: nmax :: nmin :: smax :: smin :: unr :: ucr :: unc :: lnr :: lcr ::
    lnc :: ph :: nh :: oem :: [] => do
    let r : FullSensor := {
      recordId := ← nat? rid, version := ← nat? ver, ownerId := ← nat? oid, channel := ← nat? ch,
      ownerLun := ← nat? lun, number := ← nat? num, entityId := ← nat? eid,
      entityInstance := ← nat? einst, initBits := ← nat? ini, capabilities := ← nat? cap,
      sensorType := ← nat? st, eventType := ← nat? et, assertionMask := ← nat? am,
      deassertionMask := ← nat? dm, readingMask := ← nat? rm, analogFormat := ← nat? fmt,
      rateUnit := ← nat? rate, modifierUnit := ← nat? mod, percentage := ← nat? pct,
      baseUnit := ← nat? bu, modUnit := ← nat? mu, linearization := ← nat? lin, m := m,
      tolerance := ← nat? tol, b := b, accuracy := ← nat? acc, accuracyExp := ← nat? accx,
      sensorDirection := ← nat? dir, rExp := rexp, bExp := bexp, analogFlags := ← nat? af,
      nominal := ← nat? nom, normalMax := ← nat? nmax, normalMin := ← nat? nmin,
      sensorMax := ← nat? smax, sensorMin := ← nat? smin, unr := ← nat? unr, ucr := ← nat? ucr,
      unc := ← nat? unc, lnr := ← nat? lnr, lcr := ← nat? lcr, lnc := ← nat? lnc,
      posHysteresis := ← nat? ph, negHysteresis := ← nat? nh, oem := ← nat? oem, idString := ids }
    pure (answer r.wf r.encode .full r.view)
  | _ => none

def specCompact (a : List Int) (ids : IdString) : Option String :=
  match a with
  | [rid, ver, oid, ch, lun, num, eid, einst, ini, cap, st, et, am, dm, rm, u1, u2, u3, rs, ph, nh, oem] => do
    let r : CompactSensor := {
      recordId := ← nat? rid, version := ← nat? ver, ownerId := ← nat? oid, channel := ← nat? ch,
      ownerLun := ← nat? lun, number := ← nat? num, entityId := ← nat? eid,
      entityInstance := ← nat? einst, sensorInit := ← nat? ini, capabilities := ← nat? cap,
      sensorType := ← nat? st, eventType := ← nat? et, assertionMask := ← nat? am,
      deassertionMask := ← nat? dm, readingMask := ← nat? rm, units1 := ← nat? u1,
      units2 := ← nat? u2, units3 := ← nat? u3, recordSharing := ← nat? rs,
      posHysteresis := ← nat? ph, negHysteresis := ← nat? nh, oem := ← nat? oem, idString := ids }
    pure (answer r.wf r.encode .compact r.view)
  | _ => none

def specEvent (a : List Int) (ids : IdString) : Option String :=
  match a with
  | [rid, ver, oid, ch, lun, num, eid, einst, st, et, rs, oem] => do
    let r : EventOnly := {
      recordId := ← nat? rid, version := ← nat? ver, ownerId := ← nat? oid, channel := ← nat? ch,
      ownerLun := ← nat? lun, number := ← nat? num, entityId := ← nat? eid,
      entityInstance := ← nat? einst, sensorType := ← nat? st, eventType := ← nat? et,
      recordSharing := ← nat? rs, oem := ← nat? oem, idString := ids }
    pure (answer r.wf r.encode .eventOnly r.view)
  | _ => none

def specFru (a : List Int) (ids : IdString) : Option String :=
  match a with
  | [rid, ver, aa, fid, l, lun, bus, ch, chlow, dt, dtm, eid, einst, oem] => do
    let r : FruLocator := {
      recordId := ← nat? rid, version := ← nat? ver, accessAddress := ← nat? aa,
      fruDeviceId := ← nat? fid, logical := ← nat? l, accessLun := ← nat? lun, privateBusId := ← nat? bus,
      channelNumber := ← nat? ch,
      channelLow := ← nat? chlow, deviceType := ← nat? dt, deviceTypeModifier := ← nat? dtm, entityId := ← nat? eid,
      entityInstance := ← nat? einst, oem := ← nat? oem, idString := ids }
    pure (answer r.wf r.encode .fruLocator r.view)
  | _ => none

def specMc (a : List Int) (ids : IdString) : Option String :=
  match a with
  | [rid, ver, sa, ch, psn, dc, eid, einst, oem] => do
    let r : McLocator := {
      recordId := ← nat? rid, version := ← nat? ver, slaveAddress := ← nat? sa,
      channelNumber := ← nat? ch, powerStateNotification := ← nat? psn,
      deviceCapabilities := ← nat? dc, entityId := ← nat? eid, entityInstance := ← nat? einst,
      oem := ← nat? oem, idString := ids }
    pure (answer r.wf r.encode .mcLocator r.view)
  | _ => none

def specConf (a : List Int) (guid : List Nat) : Option String :=
  match a with
  | [rid, ver, sa, did, ch, rev, f1, f2, iv, mid, pid] => do
    let r : McConfirmation := {
      recordId := ← nat? rid, version := ← nat? ver, slaveAddress := ← nat? sa,
      deviceId := ← nat? did, channelNumber := ← nat? ch, deviceRevision := ← nat? rev, firmwareRevision1 := ← nat? f1,
      firmwareRevision2 := ← nat? f2, ipmiVersion := ← nat? iv, manufacturerId := ← nat? mid,
      productId := ← nat? pid, guid := guid }
    pure (answer r.wf r.encode .mcConfirmation r.view)
  | _ => none

def flag (c : Char) : Bool := c == '1'

def parseVariant (s : String) : Option SdrParse.Variant :=
  match s.toList with
  | [a, b, c, d, e, f, g, h, i, j] =>
    some ⟨flag a, flag b, flag c, flag d, flag e, flag f, flag g, flag h, flag i, flag j⟩
  | _ => none

def handleC16 (line : String) : String :=
  match tokens line with
  | ["ping"] => "pong"
  | ["tables"] => s!"{Gen.SdrTables.typeIndex} {Gen.SdrTables.dispatchDefault} " ++
      ",".intercalate (Gen.SdrTables.dispatch.map fun p => s!"{p.1}:{p.2}")
  | "spec" :: "opaque" :: rid :: ver :: ty :: [h] =>
    match rid.toNat?, ver.toNat?, ty.toNat?, ofHex h with
    | some rid, some ver, some ty, some body =>
      let r : Opaque := ⟨rid, ver, ty, body⟩
      answer r.wf r.encode (kindOfType ty) r.view
    | _, _, _, _ => "bad-op"
  | "spec" :: "conf" :: rest =>
    match rest.reverse with
    | g :: ints =>
      match ints.reverse.mapM parseInt, parseNatList g with
      | some a, some guid => (specConf a guid).getD "bad-op"
      | _, _ => "bad-op"
    | _ => "bad-op"
  | "spec" :: ty :: rest =>
    match rest.reverse with
    | ids :: ints =>
      match ints.reverse.mapM parseInt, parseId ids with
      | some a, some s =>
        ((if ty == "full" then specFull a s
          else if ty == "compact" then specCompact a s
          else if ty == "event" then specEvent a s
          else if ty == "fru" then specFru a s
          else if ty == "mc" then specMc a s
          else none).getD "bad-op")
      | _, _ => "bad-op"
    | _ => "bad-op"
  | ["parse", fl, h] =>
    match parseVariant fl, ofHex h with
    | some v, some bs =>
      match SdrParse.parseSdr v bs with
      | .ok p => s!"ok {kindName p.kind} {showFields p.fields} | {showFields p.extra}"
      | e => e.tag
    | _, _ => "bad-op"
  | _ => "bad-op"

def main : IO Unit := do
  loop (← IO.getStdin) (← IO.getStdout) handleC16
