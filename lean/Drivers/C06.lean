/-
  Line-protocol driver for C06 (LAN session establishment).  Stateful: holds the reference BMC.

    bmc-init <caps> <user hex> <pw hex> <priv> <tempSid> <challenge hex> <sid> <inSeq0>  -> ok
    bmc <datagram hex>                 -> reply <hex> | error <rule>        (Spec.BmcSession.step)
    bmc-err <cc> <datagram hex>        -> same judgement, but the answer carries completion code <cc>
    bmc-state                          -> <phase> <first broken rule | none>
    model <pref s|i|g> <emptyRx s|i> <ignore 0|1> <user hex> <pw hex> <priv> <outSeq> <n>
          <sid0> <seq0> <act0 0|1> <rqSeq0> <reply hex | silent>*
        -> <outcome> | <kind>:<datagram hex> … | <auth> <sid> <seq> <activated> <rqSeq> <attached>
          (Model.Session.lifecycle against the scripted replies)
    loop  <pref s|i|g> <caps> <user hex> <pw hex> <priv> <tempSid> <challenge hex> <sid> <inSeq0> <outSeq> <n>
        -> <outcome> | <phase> <first broken rule | none> | <number of datagrams>
          (Model client against the Spec BMC, all in Lean)
    choose <pref s|i|g> <support>      -> <auth type> | none                 (Model.Session.chooseAuth)
    strongest <support> <implemented,…>-> <auth type> | none                 (Spec: strongest offered ∩ implemented)
-/
import PyIpmi.Base.Proto
import PyIpmi.Model.Md5
import PyIpmi.Model.Session
import PyIpmi.Spec.BmcSession
open PyIpmi PyIpmi.Proto PyIpmi.RmcpWire PyIpmi.Session

def md5f : List Nat → List Nat := PyIpmi.Md5.md5

structure DState where
  cfg : Spec.BmcSession.BmcCfg
  st : Spec.BmcSession.BmcState

def DState.init : DState := ⟨⟨0, [], [], 4, 0, [], 0, 0⟩, Spec.BmcSession.init⟩

def phaseName : Spec.BmcSession.Phase → String
  | .start => "start" | .pinged => "pinged" | .capsSent => "capsSent"
  | .challenged a => s!"challenged:{a}" | .active a _ => s!"active:{a}" | .closed => "closed"

def badName : Option Spec.BmcSession.Why → String
  | none => "none"
  | some w => w.name

def prefOf (s : String) : List Nat :=
  if s == "s" then prefAsShipped else if s == "i" then prefIntended else Gen.RmcpFormats.authPreference

def kindName : Kind → String
  | .ping => "ping" | .authCap => "authCap" | .challenge => "challenge" | .activate => "activate"
  | .setPriv => "setPriv" | .request => "request" | .close => "close"

def parseReply (s : String) : Option (Option (List Nat)) :=
  if s == "silent" then some none else (ofHex s).map some

def showSent (s : Sent) : String :=
  if s.isEmpty then "-" else " ".intercalate (s.map fun (k, d) => s!"{kindName k}:{toHex d}")

def b2n (b : Bool) : Nat := if b then 1 else 0

/-- the reference BMC as a peer of the model client -/
def bmcPeer (cfg : Spec.BmcSession.BmcCfg) := Spec.BmcSession.peer md5f cfg

def handleC06 (ds : DState) (line : String) : DState × String :=
  match tokens line with
  | ["bmc-init", caps, user, pw, priv, tmp, chal, sid, inSeq] =>
    match caps.toNat?, ofHex user, ofHex pw, priv.toNat?, tmp.toNat?, ofHex chal, sid.toNat?, inSeq.toNat? with
    | some caps, some user, some pw, some priv, some tmp, some chal, some sid, some inSeq =>
      (⟨⟨caps, user, pw, priv, tmp, chal, sid, inSeq⟩, Spec.BmcSession.init⟩, "ok")
    | _, _, _, _, _, _, _, _ => (ds, "bad-op")
  | ["bmc", dg] =>
    match ofHex dg with
    | some dg =>
      match Spec.BmcSession.step md5f ds.cfg ds.st dg with
      | (st', .reply r) => ({ ds with st := st' }, "reply " ++ toHex r)
      | (st', .protocolError w) => ({ ds with st := st' }, "error " ++ w.name)
    | none => (ds, "bad-op")
  | ["bmc-err", cc, dg] =>
    match cc.toNat?, ofHex dg with
    | some cc, some dg =>
      match Spec.BmcSession.step md5f ds.cfg ds.st dg with
      | (st', .reply _) =>
        let r := match Spec.Lan.parseLan dg with
          | some p =>
            match Spec.BmcSession.parseIpmiReq p.payload with
            | some rq => Spec.BmcSession.lanPacket md5f p.auth ds.cfg.pw p.sid ds.st.outSeq
                            (Spec.BmcSession.ipmiRsp rq cc [])
            | none => []
          | none => []
        ({ ds with st := st' }, "reply " ++ toHex r)
      | (st', .protocolError w) => ({ ds with st := st' }, "error " ++ w.name)
    | _, _ => (ds, "bad-op")
  | ["bmc-state"] => (ds, s!"{phaseName ds.st.phase} {badName ds.st.bad}")
  | "model" :: pref :: er :: ig :: user :: pw :: priv :: outSeq :: n :: sid0 :: seq0 :: act0 :: rq0 :: replies =>
    match ofHex user, ofHex pw, priv.toNat?, outSeq.toNat?, n.toNat?, sid0.toNat?, seq0.toNat?, rq0.toNat?,
          replies.mapM parseReply with
    | some user, some pw, some priv, some outSeq, some n, some sid0, some seq0, some rq0, some replies =>
      let cfg : Cfg := { user := user, pw := pw, priv := priv, outSeq := outSeq, pref := prefOf pref,
                         ignoreLen := ig == "1", emptyRx := if er == "s" then .asShipped else .intended }
      let c0 : Client := ⟨false, ⟨Gen.RmcpFormats.authPassword, sid0, seq0, act0 == "1", pw⟩, rq0⟩
      let r := lifecycle md5f scripted cfg n replies c0
      let c := r.client
      (ds, s!"{r.outcome.tag} | {showSent r.sent} | {c.s.auth} {c.s.sid} {c.s.seq} {b2n c.s.activated} {c.rqSeq} {b2n c.attached}")
    | _, _, _, _, _, _, _, _, _ => (ds, "bad-op")
  | ["loop", pref, caps, user, pw, priv, tmp, chal, sid, inSeq, outSeq, n] =>
    match caps.toNat?, ofHex user, ofHex pw, priv.toNat?, tmp.toNat?, ofHex chal, sid.toNat?, inSeq.toNat?,
          outSeq.toNat?, n.toNat? with
    | some caps, some user, some pw, some priv, some tmp, some chal, some sid, some inSeq, some outSeq, some n =>
      let bcfg : Spec.BmcSession.BmcCfg := ⟨caps, user, pw, priv, tmp, chal, sid, inSeq⟩
      let cfg : Cfg := { user := user, pw := pw, priv := priv, outSeq := outSeq, pref := prefOf pref,
                         ignoreLen := false, emptyRx := .asShipped }
      let r := lifecycle md5f (bmcPeer bcfg) cfg n Spec.BmcSession.init (Client.fresh pw)
      (ds, s!"{r.outcome.tag} | {phaseName r.peer.phase} {badName r.peer.bad} | {r.sent.length}")
    | _, _, _, _, _, _, _, _, _, _ => (ds, "bad-op")
  | ["choose", pref, sup] =>
    match sup.toNat? with
    | some sup =>
      (ds, match chooseAuth (prefOf pref) sup with
           | some a => toString a
           | none => "none")
    | none => (ds, "bad-op")
  | ["strongest", sup, impl] =>
    match sup.toNat?, parseNatList impl with
    | some sup, some impl =>
      (ds, match Spec.BmcSession.strongest sup (Spec.BmcSession.strengthOrder.filter (impl.contains ·)) with
           | some a => toString a
           | none => "none")
    | _, _ => (ds, "bad-op")
  | _ => (ds, "bad-op")

def main : IO Unit := do
  loopS (← IO.getStdin) (← IO.getStdout) handleC06 DState.init
