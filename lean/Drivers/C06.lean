/-
  Line-protocol driver for C06 (LAN session establishment).  Stateful: holds the reference BMC.

    bmc-init <caps> <user hex> <pw hex> <priv> <tempSid> <challenge hex> <sid> <inSeq0>  -> ok
    bmc <datagram hex>                 -> reply <hex> | error <rule>        (Spec.BmcSession.step)
    bmc-lost <datagram hex>            -> same judgement, but the datagram is lost: the monitor counts it, the
                                          BMC does not act on it (Spec.BmcSession.stepLost); the answer is dropped
    bmc-err <cc> <datagram hex>        -> same judgement, but the BMC refuses the request: it answers with completion
                                          code <cc> and does not execute it (Spec.BmcSession.stepRefused)
    bmc-state                          -> <phase> <first broken rule | none>
    model <pref s|i|g> <emptyRx s|i> <closeGuard s|i> <noAuthRaises s|i> <resetSession s|i> <ignore 0|1> <max_retries> <closes 1|2|c>
          <user hex> <pw hex> <priv> <outSeq> <n> <sid0> <seq0> <act0 0|1> <rqSeq0> <att0 0|1> <auth0> <reply hex | silent>*
        -> <outcome> | <kind>:<datagram hex> … | <auth> <sid> <seq> <activated> <rqSeq> <attached> | <clean-up outcome | ->
          (Model.Session.lifecycle against the scripted replies; with <closes> = 2 close_session() is called a
           second time after a successful life cycle; with "c" it is called as clean-up after a failure of
           establish_session / a request, whatever the state — the caller cannot know how far the handshake got)
    loop  <pref s|i|g> <caps> <user hex> <pw hex> <priv> <tempSid> <challenge hex> <sid> <inSeq0> <outSeq> <n>
          <max_retries> <lost datagram numbers, comma separated | ->
        -> <outcome> | <phase> <first broken rule | none> | <number of datagrams>
          (Model client against the Spec BMC behind a lossy network, all in Lean)
    ka <stopFirst s|i> <e1 | e0 | c>*  -> per event: establish (e1: the handshake succeeded, e0: it failed) h<threads running
                                          during the handshake>,r<threads running afterwards>; close r<…>
                                          (Model.SessionKeepAlive: keep-alive threads over a history of calls)
    choose <pref s|i|g> <support>      -> <auth type> | none                 (Model.Session.chooseAuth)
    strongest <support> <implemented,…>-> <auth type> | none                 (Spec: strongest offered ∩ implemented)
-/
import PyIpmi.Base.Proto
import PyIpmi.Model.Md5
import PyIpmi.Model.Session
import PyIpmi.Model.SessionKeepAlive
import PyIpmi.Model.SessionCred
import PyIpmi.Spec.BmcSession
open PyIpmi PyIpmi.Proto PyIpmi.RmcpWire PyIpmi.Session

def md5f : List Nat → List Nat := PyIpmi.Md5.md5

structure DState where
  cfg : Spec.BmcSession.BmcCfg
  st : Spec.BmcSession.BmcState

def DState.init : DState := ⟨⟨0, [], [], 4, 0, [], 0, 0⟩, Spec.BmcSession.init⟩

def phaseName : Spec.BmcSession.Phase → String
  | .start => "start" | .pinged => "pinged" | .capsSent => "capsSent"
  | .challenged a => s!"challenged:{a}" | .active a _ => s!"active:{a}" | .closed => "closed"

def badName : Option Spec.BmcSession.Why → String
  | none => "none"
  | some w => w.name

def prefOf (s : String) : List Nat :=
  if s == "s" then prefAsShipped else if s == "i" then prefIntended else Gen.RmcpFormats.authPreference

def kindName : Kind → String
  | .ping => "ping" | .authCap => "authCap" | .challenge => "challenge" | .activate => "activate"
  | .setPriv => "setPriv" | .request => "request" | .close => "close"

def parseReply (s : String) : Option (Option (List Nat)) :=
  if s == "silent" then some none else (ofHex s).map some

def showSent (s : Sent) : String :=
  if s.isEmpty then "-" else " ".intercalate (s.map fun (k, d) => s!"{kindName k}:{toHex d}")

def b2n (b : Bool) : Nat := if b then 1 else 0

/-- the reference BMC as a peer of the model client -/
def bmcPeer (cfg : Spec.BmcSession.BmcCfg) := Spec.BmcSession.peer md5f cfg

def handleC06 (ds : DState) (line : String) : DState × String :=
  match tokens line with
  | ["bmc-init", caps, user, pw, priv, tmp, chal, sid, inSeq] =>
    match caps.toNat?, ofHex user, ofHex pw, priv.toNat?, tmp.toNat?, ofHex chal, sid.toNat?, inSeq.toNat? with
    | some caps, some user, some pw, some priv, some tmp, some chal, some sid, some inSeq =>
      (⟨⟨caps, user, pw, priv, tmp, chal, sid, inSeq⟩, Spec.BmcSession.init⟩, "ok")
    | _, _, _, _, _, _, _, _ => (ds, "bad-op")
  | ["bmc", dg] =>
    match ofHex dg with
    | some dg =>
      match Spec.BmcSession.step md5f ds.cfg ds.st dg with
      | (st', .reply r) => ({ ds with st := st' }, "reply " ++ toHex r)
      | (st', .protocolError w) => ({ ds with st := st' }, "error " ++ w.name)
    | none => (ds, "bad-op")
  | ["bmc-lost", dg] =>
    match ofHex dg with
    | some dg =>
      match Spec.BmcSession.stepLost md5f ds.cfg ds.st dg with
      | (st', .reply r) => ({ ds with st := st' }, "reply " ++ toHex r)
      | (st', .protocolError w) => ({ ds with st := st' }, "error " ++ w.name)
    | none => (ds, "bad-op")
  | ["bmc-err", cc, dg] =>
    match cc.toNat?, ofHex dg with
    | some cc, some dg =>
      match Spec.BmcSession.stepRefused md5f ds.cfg ds.st cc dg with
      | (st', .reply r) => ({ ds with st := st' }, "reply " ++ toHex r)
      | (st', .protocolError w) => ({ ds with st := st' }, "error " ++ w.name)
    | _, _ => (ds, "bad-op")
  | ["bmc-state"] => (ds, s!"{phaseName ds.st.phase} {badName ds.st.bad}")
  | "model" :: pref :: er :: cg :: na :: rs :: ig :: mr :: closes :: user :: pw :: priv :: outSeq :: n :: sid0 :: seq0 :: act0 :: rq0 ::
      att0 :: auth0 :: replies =>
    match mr.toNat?, ofHex user, ofHex pw, priv.toNat?, outSeq.toNat?, n.toNat?, sid0.toNat?, seq0.toNat?, rq0.toNat?,
          auth0.toNat?, replies.mapM parseReply with
    | some mr, some user, some pw, some priv, some outSeq, some n, some sid0, some seq0, some rq0, some auth0, some replies =>
      let cfg : Cfg := { user := user, pw := pw, priv := priv, outSeq := outSeq, pref := prefOf pref,
                         ignoreLen := ig == "1", emptyRx := if er == "s" then .asShipped else .intended,
                         maxRetries := mr, closeGuard := cg != "s", noAuthRaises := na != "s",
                         resetSession := rs != "s" }
      let c0 : Client := ⟨att0 == "1", ⟨auth0, sid0, seq0, act0 == "1", pw⟩, rq0⟩
      let r1 := lifecycle md5f scripted cfg n replies c0
      let (r, cl) : Result (List (Option (List Nat))) × String :=
        if closes == "2" && r1.outcome.isOk then
          let r2 := close md5f scripted cfg r1.peer r1.client
          (⟨r2.peer, r2.client, r1.sent ++ r2.sent, r2.outcome⟩, "-")
        else if closes == "c" && !r1.outcome.isOk && (r1.sent.getLast?.map Prod.fst) != some Kind.close then
          let (r2, o) := cleanupClose md5f scripted cfg r1
          (r2, o.tag)
        else (r1, "-")
      let c := r.client
      (ds, s!"{r.outcome.tag} | {showSent r.sent} | {c.s.auth} {c.s.sid} {c.s.seq} {b2n c.s.activated} {c.rqSeq} {b2n c.attached} | {cl}")
    | _, _, _, _, _, _, _, _, _, _, _ => (ds, "bad-op")
  | ["loop", pref, caps, user, pw, priv, tmp, chal, sid, inSeq, outSeq, n, mr, lost] =>
    match caps.toNat?, ofHex user, ofHex pw, priv.toNat?, tmp.toNat?, ofHex chal, sid.toNat?, inSeq.toNat?,
          outSeq.toNat?, n.toNat?, mr.toNat?, (if lost == "-" then some [] else parseNatList lost) with
    | some caps, some user, some pw, some priv, some tmp, some chal, some sid, some inSeq, some outSeq, some n,
      some mr, some lost =>
      let bcfg : Spec.BmcSession.BmcCfg := ⟨caps, user, pw, priv, tmp, chal, sid, inSeq⟩
      let cfg : Cfg := { user := user, pw := pw, priv := priv, outSeq := outSeq, pref := prefOf pref,
                         ignoreLen := false, emptyRx := .asShipped, maxRetries := mr }
      let r := lifecycle md5f (Spec.BmcSession.lossy md5f bcfg (fun i => lost.contains i)) cfg n
        (0, Spec.BmcSession.init) (Client.fresh pw)
      (ds, s!"{r.outcome.tag} | {phaseName r.peer.2.phase} {badName r.peer.2.bad} | {r.sent.length}")
    | _, _, _, _, _, _, _, _, _, _, _, _ => (ds, "bad-op")
  | "ka" :: sf :: evs =>
    let stopFirst := sf != "s"
    let rec go (k : KeepAlive.KA) : List String → Option (List String)
      | [] => some []
      | e :: es =>
        let ev? : Option KeepAlive.Ev :=
          if e == "e1" then some (.establish true) else if e == "e0" then some (.establish false)
          else if e == "c" then some .close else none
        match ev? with
        | none => none
        | some ev =>
          let k' := KeepAlive.step stopFirst k ev
          let tok := match ev with
            | .establish _ => s!"h{(KeepAlive.enter stopFirst k).running.length},r{k'.running.length}"
            | .close => s!"r{k'.running.length}"
          (go k' es).map (tok :: ·)
    (ds, match go KeepAlive.init evs with
         | some l => if l.isEmpty then "-" else " ".intercalate l
         | none => "bad-op")
  | ["choose", pref, sup] =>
    match sup.toNat? with
    | some sup =>
      (ds, match chooseAuth (prefOf pref) sup with
           | some a => toString a
           | none => "none")
    | none => (ds, "bad-op")
  | ["cred", np, bu, uk, u, pk, p, auth] =>
    -- credential FORM (Model/SessionCred.lean): where, if anywhere, the handshake ends in a Python error
    let form (k : String) (bs : List Nat) : Cred.Form :=
      if k == "none" then .none else if k == "bytes" then .bytes bs else .str bs
    match ofHex u, ofHex p, auth.toNat? with
    | some u, some p, some auth =>
      (ds, match Cred.failsAfter ⟨np == "i", bu == "i"⟩ (form uk u) (form pk p) auth with
           | none => "none"
           | some (n, .attributeError) => s!"{n} py:AttributeError"
           | some (n, .typeError) => s!"{n} py:TypeError")
    | _, _, _ => (ds, "bad-op")
  | ["strongest", sup, impl] =>
    match sup.toNat?, parseNatList impl with
    | some sup, some impl =>
      (ds, match Spec.BmcSession.strongest sup (Spec.BmcSession.strengthOrder.filter (impl.contains ·)) with
           | some a => toString a
           | none => "none")
    | _, _ => (ds, "bad-op")
  | _ => (ds, "bad-op")

def main : IO Unit := do
  loopS (← IO.getStdin) (← IO.getStdout) handleC06 DState.init
