/-
  Line-protocol driver for C09 (message bridging).

  Model (mirrors pyipmi/interfaces/ipmb.py + the bridging branch of Rmcp._send_and_receive):
    snd <rqSa> <rsSa> <channel> <seq> <tracking> <hex payload>        -> ok <hex> | <error tag>
    brg <routing> <7 hdr fields> <seq> <hex payload>                  -> ok <hex> | <error tag>
    hist <routing|routing|…> <7 hdr fields> <seq> <hex payload>       -> ok <hex> | <error tag>
         (ONE Target re-routed through the paths in this order, then the request)
    dec <variant> <verify 0|1> <hex frame>                            -> ok <hex> | <error tag>
    rcv <variant> <bridge> <7 hdr fields> <flags> <hex;hex;…>         -> none | ok <hex> | <error tag>
    cls <variant> <bridge> <7 hdr fields> <flags> <hex frame>         -> ack | hit <hex> | noise | err <error tag>
    rtx <variant> <bridge> <7 hdr fields> <flags> <budget> <att|att|…> -> sends=<n> none | ok <hex> | <error tag>
         (retransmissions: att = the frames hex;hex;… (or -) that arrive after one transmission before the read
          times out; budget = max_retries + 1)
         variant = a (as shipped: command byte only) | r (repaired: netFn + command, verified, only when bridged)
         bridge  = - (request not bridged) | <seq> (sequence number of the outstanding Send Message)
  The ipmb-dev / Aardvark transports (Model/IpmbDevLoop.lean, the step models of C04; they do not bridge):
    i2c <d|a> <refuse 0|1> <slave> <nextSeq> <routing> <rsSa> <netfn> <lun> <cmd> <hex payload> <ev>*
    i2cprobe <d|a> <refuse 0|1> <slave> <nextSeq> <routing> <rsSa> <ev>*            (is_ipmc_accessible)
         refuse = 1 (repaired: a routing of more than one hop raises NotSupportedError before anything is written)
                | 0 (as shipped: Target.routing ignored);   ev = F<dt>:<hex> | I
      -> <ok hex | error tag> seq=<n> sends=<n> tx=<hex|?>          (tx=? : nothing was written)
  Spec (PyIpmi.Spec.Bridges / Spec.Wire, the oracle):
    peel <n> <hex frame>             -> some <hop;hop;…|-> <hex inner> | none     hop = bridge:src:channel:tracking:seq
    parse <hex frame>                -> some <7 fields> <hex data> | none
    mkreply <7 fields> <hex body>    -> <hex frame>
    wrap <hex innermost> <layer>*    -> <hex frame>      layer = rsSa,rsLun,netfn,rqSa,rqLun,seq,cmd,cc (outermost first)
    isreply <7 fields> <flags> <hex> -> 0 | 1

  routing = rq:rs:ch,rq:rs:ch,… (or - for the empty list); hdr fields = rsSa rsLun netfn rqSa rqLun seq cmd;
  flags = rq_sa rs_sa rq_lun rs_lun rq_seq as 0/1.
-/
import PyIpmi.Base.Proto
import PyIpmi.Model.Bridge
import PyIpmi.Model.IpmbDevLoop
import PyIpmi.Spec.Bridges
open PyIpmi PyIpmi.Proto PyIpmi.Ipmb PyIpmi.Bridge PyIpmi.Spec.Wire PyIpmi.Spec.Bridges

def parseHdr9 (ts : List String) : Option Hdr :=
  match ts.mapM String.toNat? with
  | some [a, b, c, d, e, f, g] =>
    some { rsSa := a, rsLun := b, netfn := c, rqSa := d, rqLun := e, seq := f, cmd := g }
  | _ => none

def parseFlags9 (s : String) : Option Flags :=
  match s.toList with
  | [a, b, c, d, e] =>
    if [a, b, c, d, e].all (fun x => x == '0' || x == '1') then
      some { rqSa := a == '1', rsSa := b == '1', rqLun := c == '1', rsLun := d == '1', rqSeq := e == '1' }
    else none
  | _ => none

def parseRouting (s : String) : Option (List Route) :=
  if s == "-" then some []
  else (s.splitOn ",").mapM fun t =>
    match (t.splitOn ":").mapM String.toNat? with
    | some [a, b, c] => some ⟨a, b, c⟩
    | _ => none

def parseLayer (s : String) : Option (Hdr × Nat) :=
  match (s.splitOn ",").mapM String.toNat? with
  | some [a, b, c, d, e, f, g, cc] =>
    some ({ rsSa := a, rsLun := b, netfn := c, rqSa := d, rqLun := e, seq := f, cmd := g }, cc)
  | _ => none

def parseFrames (s : String) : Option (List (List Nat)) :=
  if s == "-" then some [] else (s.splitOn ";").mapM ofHex

def showBytes9 : Outcome (List Nat) → String
  | .ok bs => "ok " ++ toHex bs
  | e => e.tag

def parseVariant (s : String) : Option Variant :=
  if s == "a" then some .asShipped else if s == "r" then some .repaired else none

def parseBridge (s : String) : Option (Option Hdr) :=
  if s == "-" then some none else s.toNat?.map fun n => some (bridgeHdr n)

def showClass : RxClass → String
  | .ack => "ack"
  | .hit d => "hit " ++ toHex d
  | .noise => "noise"
  | .err e => "err " ++ e.tag

def showHop (h : Hop) : String := s!"{h.bridge}:{h.src}:{h.channel}:{h.tracking}:{h.seq}"

def parseHops (s : String) : Option (List Loops.Hop) :=
  if s == "-" then some []
  else (s.splitOn ",").mapM fun t =>
    match (t.splitOn ":").mapM String.toNat? with
    | some [a, b, c] => some ⟨a, b, c⟩
    | _ => none

def parseI2cEv (s : String) : Option Loops.I2cEvent :=
  if s == "I" then some .idle
  else if s.startsWith "F" then
    match (s.drop 1).toString.splitOn ":" with
    | [a, b] => do
      let a ← a.toNat?
      let b ← ofHex b
      pure (.frame a b)
    | _ => none
  else none

def showStep (r : Loops.I2cStep) : String :=
  let out := match r.out with
    | .ok d => "ok " ++ toHex d
    | e => e.tag
  let tx := match r.tx with
    | [] => "?"
    | f :: _ => toHex f
  s!"{out} seq={r.nextSeq} sends={r.tx.length} tx={tx}"

def i2cCfgOf (kind : String) (rf : Bool) (slave : Nat) : Loops.I2cCfg :=
  { (if kind == "d" then Loops.I2cCfg.ipmbdev else Loops.I2cCfg.aardvark) with refuseRouted := rf, slaveAddr := slave }

def handleC09 (line : String) : String :=
  match tokens line with
  | ["ping"] => "pong"
  | "i2c" :: kind :: rf :: slave :: seq :: rt :: rsSa :: netfn :: lun :: cmd :: pl :: evs =>
    match [slave, seq, rsSa, netfn, lun, cmd].mapM String.toNat?, parseHops rt, ofHex pl, evs.mapM parseI2cEv with
    | some [slave, seq, rsSa, netfn, lun, cmd], some rt, some pl, some evs =>
      let req : Loops.Req := { rsSa := rsSa, netfn := netfn, lun := lun, cmd := cmd, payload := pl, routing := rt }
      showStep (Loops.i2cRequest (i2cCfgOf kind (rf == "1") slave) seq req evs)
    | _, _, _, _ => "bad-op"
  | "i2cprobe" :: kind :: rf :: slave :: seq :: rt :: rsSa :: evs =>
    match [slave, seq, rsSa].mapM String.toNat?, parseHops rt, evs.mapM parseI2cEv with
    | some [slave, seq, rsSa], some rt, some evs =>
      showStep (Loops.i2cProbe (i2cCfgOf kind (rf == "1") slave) true seq rsSa evs rt)
    | _, _, _ => "bad-op"
  | ["snd", a, b, c, d, e, hx] =>
    match [a, b, c, d, e].mapM String.toNat?, ofHex hx with
    | some [rq, rs, ch, seq, tr], some p => showBytes9 (encodeSendMessage p rq rs ch seq tr)
    | _, _ => "bad-op"
  | ["brg", r, a, b, c, d, e, f, g, seq, hx] =>
    match parseRouting r, parseHdr9 [a, b, c, d, e, f, g], seq.toNat?, ofHex hx with
    | some rt, some h, some sq, some p => showBytes9 (encodeBridged rt h p sq)
    | _, _, _, _ => "bad-op"
  | ["hist", rs, a, b, c, d, e, f, g, seq, hx] =>
    match (rs.splitOn "|").mapM parseRouting, parseHdr9 [a, b, c, d, e, f, g], seq.toNat?, ofHex hx with
    | some paths, some h, some sq, some p => showBytes9 ((({} : Target).reroute paths).request h p sq)
    | _, _, _, _ => "bad-op"
  | ["dec", v, vf, hx] =>
    match parseVariant v, ofHex hx with
    | some v, some fr => showBytes9 (decodeBridged v (vf == "1") fr)
    | _, _ => "bad-op"
  | ["rcv", v, br, a, b, c, d, e, f, g, fl, frs] =>
    match parseVariant v, parseBridge br, parseHdr9 [a, b, c, d, e, f, g], parseFlags9 fl, parseFrames frs with
    | some v, some br, some h, some fl, some frames =>
      match recvBridged v br h fl frames with
      | none => "none"
      | some o => showBytes9 o
    | _, _, _, _, _ => "bad-op"
  | ["rtx", v, br, a, b, c, d, e, f, g, fl, budget, atts] =>
    match parseVariant v, parseBridge br, parseHdr9 [a, b, c, d, e, f, g], parseFlags9 fl, budget.toNat?,
        (atts.splitOn "|").mapM parseFrames with
    | some v, some br, some h, some fl, some n, some atts =>
      let o := match retryBridged v br h fl n atts with
        | none => "none"
        | some o => showBytes9 o
      s!"sends={retryAttempts v br h fl n atts} {o}"
    | _, _, _, _, _, _ => "bad-op"
  | ["cls", v, br, a, b, c, d, e, f, g, fl, hx] =>
    match parseVariant v, parseBridge br, parseHdr9 [a, b, c, d, e, f, g], parseFlags9 fl, ofHex hx with
    | some v, some br, some h, some fl, some fr => showClass (classifyRx v br h fl fr)
    | _, _, _, _, _ => "bad-op"
  | ["peel", n, hx] =>
    match n.toNat?, ofHex hx with
    | some n, some fr =>
      match peelN n fr with
      | some (hops, inner) =>
        let hs := if hops.isEmpty then "-" else ";".intercalate (hops.map showHop)
        s!"some {hs} {toHex inner}"
      | none => "none"
    | _, _ => "bad-op"
  | ["parse", hx] =>
    match ofHex hx with
    | some fr =>
      match parseReq fr with
      | some (h, data) =>
        s!"some {h.rsSa} {h.rsLun} {h.netfn} {h.rqSa} {h.rqLun} {h.seq} {h.cmd} {toHex data}"
      | none => "none"
    | none => "bad-op"
  | ["mkreply", a, b, c, d, e, f, g, hx] =>
    match parseHdr9 [a, b, c, d, e, f, g], ofHex hx with
    | some h, some body => toHex (mkReply h body)
    | _, _ => "bad-op"
  | "wrap" :: hx :: layers =>
    match ofHex hx, layers.mapM parseLayer with
    | some r, some ls => toHex (ls.foldr (fun (p : Hdr × Nat) acc => wrapLayer p.1 p.2 acc) r)
    | _, _ => "bad-op"
  | ["isreply", a, b, c, d, e, f, g, fl, hx] =>
    match parseHdr9 [a, b, c, d, e, f, g], parseFlags9 fl, ofHex hx with
    | some h, some fl, some fr => if decide (isReplyTo h fr fl) then "1" else "0"
    | _, _, _ => "bad-op"
  | _ => "bad-op"

def main : IO Unit := do
  loop (← IO.getStdin) (← IO.getStdout) handleC09
