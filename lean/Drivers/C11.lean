/-
  Line-protocol driver for C11: the reference SDR device (Spec/SdrDevice.lean) and the model of the
  SDR retrieval code (Model/SdrXfer.lean) with the constants generated from the working tree.

    cfg <repo> <dev> <limit> <strict 0|1> <cancels> <transients> <res0 repo> <res0 dev>   set the device  -> ok
         repo, dev ::= - | <hex>,<hex>,…       cancels ::= - | n,n,…     transients ::= - | idx:code,…
    replay <frames>          the device's answers to a request trace, from its initial state
         frames ::= - | <netfn>:<cmd>:<hex>,…                       -> <hex>,<hex>,…
    get  <store r|d> <v> <id> <res|->      get_repository_sdr / get_device_sdr on the initial device
    list <store r|d> <v> <fuel>            get_*_sdr_list / *_entries
         v ::= <fallThrough 0|1><repoRenew r|d><devRenew r|d><staleRes 0|1>  (0rd0 = intended, 0rd1 = renewed id
               dropped, 1dd1 = pinned 816fdee)  |  src (as read from the source)
         -> <outcome> | <trace>        outcome ::= ok <next> <hex> | ok <hex>,<hex>,… | <error tag>
                                       trace ::= - | <netfn>:<cmd>:<hex>><hex>,…
    consts                   generated constants: hdrLen dataRetry maxReqLen reqLenDec cantReturn lastId
                             ccOk chunkRetry renew retry1 retry2, then the variant as read from the source
-/
import PyIpmi.Base.Proto
import PyIpmi.Model.SdrXfer
import PyIpmi.Spec.SdrDevice
import PyIpmi.Gen.Loops11
open PyIpmi PyIpmi.Proto PyIpmi.Model.Retry PyIpmi.Model.SdrXfer PyIpmi.Spec.Sdr

structure St where
  cfg : Cfg
  init : State

def K11 : Consts := PyIpmi.Gen.Loops11.consts
def XK11 : XConsts := PyIpmi.Gen.Loops11.xconsts

def parseRecs (s : String) : Option (List (List Nat)) :=
  if s == "-" then some [] else (s.splitOn ",").mapM ofHex

def parsePair (s : String) : Option (Nat × Nat) :=
  match s.splitOn ":" with
  | [a, b] => do
    let x ← a.toNat?
    let y ← b.toNat?
    pure (x, y)
  | _ => none

def parsePairs (s : String) : Option (List (Nat × Nat)) :=
  if s == "-" then some [] else (s.splitOn ",").mapM parsePair

def parseStore (s : String) : Option Store :=
  if s == "r" then some .repo else if s == "d" then some .dev else none

def parseVariant (s : String) : Option Variant :=
  if s == "src" then some PyIpmi.Gen.Loops11.variantRead else
  match s.toList with
  | [f, a, b, g] =>
    match parseStore (String.ofList [a]), parseStore (String.ofList [b]) with
    | some ra, some rb =>
      if (f == '0' || f == '1') && (g == '0' || g == '1') then some ⟨f == '1', ra, rb, g == '1'⟩ else none
    | _, _ => none
  | _ => none

def showStore : Store → String
  | .repo => "r"
  | .dev => "d"

def parseFrame (s : String) : Option (Nat × Nat × List Nat) :=
  match s.splitOn ":" with
  | [a, b, h] => do
    let nf ← a.toNat?
    let c ← b.toNat?
    let d ← ofHex h
    pure (nf, c, d)
  | _ => none

def parseFrames (s : String) : Option (List (Nat × Nat × List Nat)) :=
  if s == "-" then some [] else (s.splitOn ",").mapM parseFrame

def showXchg (e : Req × Rsp) : String :=
  let (nf, c, d) := e.1.frame
  s!"{nf}:{c}:{toHex d}>{toHex e.2.toBytes}"

def showTrace (t : List (Req × Rsp)) : String :=
  if t.isEmpty then "-" else ",".intercalate (t.map showXchg)

def hexList (l : List (List Nat)) : String :=
  if l.isEmpty then "-" else ",".intercalate (l.map toHex)

def finish {α : Type} (r : (State × List (Req × Rsp)) × Outcome α) (f : α → String) : String :=
  let o := match r.2 with
    | .ok a => "ok " ++ f a
    | e => e.tag
  s!"{o} | {showTrace r.1.2}"

def replayFrames (cfg : Cfg) (st : State) (fs : List (Nat × Nat × List Nat)) : List (List Nat) :=
  (fs.foldl (fun (acc : State × List (List Nat)) f =>
    let r := handleBytes cfg acc.1 f.1 f.2.1 f.2.2
    (r.1, r.2 :: acc.2)) (st, [])).2.reverse

def handle (s : St) (line : String) : St × String :=
  match tokens line with
  | ["ping"] => (s, "pong")
  | ["consts"] =>
    let v := PyIpmi.Gen.Loops11.variantRead
    (s, " ".intercalate ([XK11.hdrLen, XK11.dataRetry, XK11.maxReqLen, XK11.reqLenDec, XK11.cantReturn, XK11.lastId,
      K11.ccOk, K11.chunkRetryDefault, K11.chunkRenew, K11.chunkRetry1, K11.chunkRetry2].map toString)
      ++ s!" {if v.fallThrough then 1 else 0}{showStore v.repoRenew}{showStore v.devRenew}{if v.staleRes then 1 else 0}")
  | ["cfg", repo, dev, limit, strict, cancels, transients, r0, d0] =>
    match parseRecs repo, parseRecs dev, limit.toNat?, strict.toNat?, parseNatList cancels, parsePairs transients,
      r0.toNat?, d0.toNat? with
    | some rp, some dv, some l, some sv, some cs, some ts, some a, some b =>
      (⟨⟨rp, dv, l, sv != 0, cs, ts⟩, State.init a b⟩, "ok")
    | _, _, _, _, _, _, _, _ => (s, "bad-op")
  | ["replay", frames] =>
    match parseFrames frames with
    | some fs => (s, hexList (replayFrames s.cfg s.init fs))
    | none => (s, "bad-op")
  | ["get", store, v, id, res] =>
    match parseStore store, parseVariant v, id.toNat?, (if res == "-" then some none else res.toNat?.map some) with
    | some st, some v, some id, some res? =>
      (s, finish (getSdrData K11 XK11 v (traced (step s.cfg)) st (s.init, []) id res?)
        (fun (p : Nat × List Nat) => s!"{p.1} {toHex p.2}"))
    | _, _, _, _ => (s, "bad-op")
  | ["list", store, v, fuel] =>
    match parseStore store, parseVariant v, fuel.toNat? with
    | some st, some v, some fuel =>
      (s, finish (sdrList K11 XK11 v (traced (step s.cfg)) st fuel (s.init, [])) hexList)
    | _, _, _ => (s, "bad-op")
  | _ => (s, "bad-op")

def main : IO Unit := do
  loopS (← IO.getStdin) (← IO.getStdout) handle ⟨⟨[], [], 255, false, [], []⟩, State.init 0 0⟩
