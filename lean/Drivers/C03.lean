/-
  Line-protocol driver for C03 (IPMB framing and reply filter).

  Model (mirrors pyipmi/interfaces/ipmb.py, evaluated from Gen/IpmbFilter):
    cks <hex>                               -> <nat>
    hdr <rsSa rsLun netfn rqSa rqLun seq cmd>        -> ok <hex> | <error tag>
    enc <7 fields> <hex data>               -> ok <hex> | <error tag>
    flt <7 fields> <flags> <hex frame>      -> ok <0|1> | <error tag>
    rsphdr <7 fields>                       -> ok <hex> | <error tag>     IpmbHeaderRsp.encode() of an object with these attributes
    rspenc <7 fields> <hex body>            -> ok <hex> | <error tag>     encode_ipmb_msg(<that IpmbHeaderRsp>, body)
    rspframe <s|a|i> <7 REQUEST fields> <hex body> -> ok <hex> | <error tag>
         from_req_header + encode_ipmb_msg; s = the assignments of the working tree (Gen.IpmbFilter.rspFromReq),
         a = as shipped, i = intended (Ipmb.fromReqTable)
  Spec (PyIpmi.Spec.Wire, the oracle):
    parse <hex frame>                       -> some <7 fields> <hex data> | none
    isreply <7 fields> <flags> <hex frame>  -> 0 | 1
    mkreply <7 fields> <hex body>           -> <hex frame>
    mkreq <7 fields> <hex data>             -> <hex frame>
    parsersp <hex frame>                    -> some <7 fields> <hex body> | none   (netfn = the one on the wire)
    sums <hex frame>                        -> <sum8 take 3> <sum8 drop 3>

    wrap <hex innermost> <layer>*           -> <hex frame>   (Spec.Bridges.wrapLayer, outermost first;
                                               layer = rsSa,rsLun,netfn,rqSa,rqLun,seq,cmd,cc)
  Transport (Model/Bridge.lean: the loop body of Rmcp._send_and_receive, which may unwrap before it filters):
    cls <variant a|r> <bridge -|seq> <7 fields> <flags> <hex frame> -> ack | hit <hex> | noise | err <error tag>

  flags = five characters 0/1 in the order rq_sa rs_sa rq_lun rs_lun rq_seq.
-/
import PyIpmi.Base.Proto
import PyIpmi.Model.Bridge
import PyIpmi.Spec.Bridges
open PyIpmi PyIpmi.Proto PyIpmi.Ipmb PyIpmi.Bridge PyIpmi.Spec.Wire PyIpmi.Spec.Bridges

def parseHdr (ts : List String) : Option Hdr :=
  match ts.mapM String.toNat? with
  | some [a, b, c, d, e, f, g] =>
    some { rsSa := a, rsLun := b, netfn := c, rqSa := d, rqLun := e, seq := f, cmd := g }
  | _ => none

def parseFlags (s : String) : Option Flags :=
  match s.toList with
  | [a, b, c, d, e] =>
    if [a, b, c, d, e].all (fun x => x == '0' || x == '1') then
      some { rqSa := a == '1', rsSa := b == '1', rqLun := c == '1', rsLun := d == '1', rqSeq := e == '1' }
    else none
  | _ => none

def showHdr (h : Hdr) : String :=
  s!"{h.rsSa} {h.rsLun} {h.netfn} {h.rqSa} {h.rqLun} {h.seq} {h.cmd}"

def showBytes : Outcome (List Nat) → String
  | .ok bs => "ok " ++ toHex bs
  | e => e.tag

def parseLayer3 (s : String) : Option (Hdr × Nat) :=
  match (s.splitOn ",").mapM String.toNat? with
  | some [a, b, c, d, e, f, g, cc] =>
    some ({ rsSa := a, rsLun := b, netfn := c, rqSa := d, rqLun := e, seq := f, cmd := g }, cc)
  | _ => none

def parseVariant3 (s : String) : Option Variant :=
  if s == "a" then some .asShipped else if s == "r" then some .repaired else none

def parseBridge3 (s : String) : Option (Option Hdr) :=
  if s == "-" then some none else s.toNat?.map fun n => some (bridgeHdr n)

def showClass3 : RxClass → String
  | .ack => "ack"
  | .hit d => "hit " ++ toHex d
  | .noise => "noise"
  | .err e => "err " ++ e.tag

def handleC03 (line : String) : String :=
  match tokens line with
  | ["ping"] => "pong"
  | ["cks", h] =>
    match ofHex h with
    | some l => toString (pyChecksum l)
    | none => "bad-op"
  | "hdr" :: ts =>
    match parseHdr ts with
    | some h => showBytes (encodeHeader h)
    | none => "bad-op"
  | ["enc", a, b, c, d, e, f, g, hx] =>
    match parseHdr [a, b, c, d, e, f, g], ofHex hx with
    | some h, some data => showBytes (encodeIpmbMsg h data)
    | _, _ => "bad-op"
  | ["flt", a, b, c, d, e, f, g, fl, hx] =>
    match parseHdr [a, b, c, d, e, f, g], parseFlags fl, ofHex hx with
    | some h, some fl, some fr =>
      match rxFilter h fr fl with
      | .ok r => if r then "ok 1" else "ok 0"
      | e => e.tag
    | _, _, _ => "bad-op"
  | "rsphdr" :: ts =>
    match parseHdr ts with
    | some h => showBytes (encodeRspHeader h)
    | none => "bad-op"
  | ["rspenc", a, b, c, d, e, f, g, hx] =>
    match parseHdr [a, b, c, d, e, f, g], ofHex hx with
    | some h, some data => showBytes (encodeIpmbMsgRsp h data)
    | _, _ => "bad-op"
  | ["rspframe", v, a, b, c, d, e, f, g, hx] =>
    let tbl : Option (List (Fld × Expr)) :=
      if v == "s" then some Gen.IpmbFilter.rspFromReq
      else if v == "a" then some (fromReqTable .asShipped)
      else if v == "i" then some (fromReqTable .intended) else none
    match tbl, parseHdr [a, b, c, d, e, f, g], ofHex hx with
    | some tbl, some h, some body => showBytes (responseFrame tbl h body)
    | _, _, _ => "bad-op"
  | ["mkreq", a, b, c, d, e, f, g, hx] =>
    match parseHdr [a, b, c, d, e, f, g], ofHex hx with
    | some h, some data => toHex (mkRequest h data)
    | _, _ => "bad-op"
  | ["parsersp", hx] =>
    match ofHex hx with
    | some fr =>
      match parseRsp fr with
      | some (h, data) => s!"some {showHdr h} {toHex data}"
      | none => "none"
    | none => "bad-op"
  | ["parse", hx] =>
    match ofHex hx with
    | some fr =>
      match parseReq fr with
      | some (h, data) => s!"some {showHdr h} {toHex data}"
      | none => "none"
    | none => "bad-op"
  | ["isreply", a, b, c, d, e, f, g, fl, hx] =>
    match parseHdr [a, b, c, d, e, f, g], parseFlags fl, ofHex hx with
    | some h, some fl, some fr => if decide (isReplyTo h fr fl) then "1" else "0"
    | _, _, _ => "bad-op"
  | ["mkreply", a, b, c, d, e, f, g, hx] =>
    match parseHdr [a, b, c, d, e, f, g], ofHex hx with
    | some h, some body => toHex (mkReply h body)
    | _, _ => "bad-op"
  | "wrap" :: hx :: layers =>
    match ofHex hx, layers.mapM parseLayer3 with
    | some r, some ls => toHex (ls.foldr (fun (p : Hdr × Nat) acc => wrapLayer p.1 p.2 acc) r)
    | _, _ => "bad-op"
  | ["cls", v, br, a, b, c, d, e, f, g, fl, hx] =>
    match parseVariant3 v, parseBridge3 br, parseHdr [a, b, c, d, e, f, g], parseFlags fl, ofHex hx with
    | some v, some br, some h, some fl, some fr => showClass3 (classifyRx v br h fl fr)
    | _, _, _, _, _ => "bad-op"
  | ["sums", hx] =>
    match ofHex hx with
    | some fr => s!"{sum8 (fr.take 3)} {sum8 (fr.drop 3)}"
    | none => "bad-op"
  | _ => "bad-op"

def main : IO Unit := do
  loop (← IO.getStdin) (← IO.getStdout) handleC03
